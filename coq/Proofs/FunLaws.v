(* FunLaws.v — property C04: every built-in function yields exactly the value, or "nothing",
   that its documentation (src/functions/**.rs, `add_description_line` / `add_example`) prescribes.

   The executable models (`core_sem`, `sem_coll`, `sem_num`, the binders inside `eval`) are
   characterised here against STANDARD LIBRARY list functions (firstn, skipn, rev, app, map,
   filter, length, nth_error, combine, seq, concat, forallb, existsb, Permutation, Sorted), for ALL
   arguments.  Each lemma is preceded by the documentation sentence it formalises.
   `pure_sem f vals = Some (Some v)` : f yields v;  `= Some None` : f yields jawk's "nothing". *)
From Jawk Require Import Base F64 F64Arith Json Ctx Printer Fn FunBase FunsColl FunsNum FunsNas Expr.
From Jawk Require Import OrderProofs.
From Coq Require Import Permutation Sorted.
Local Open Scope N_scope.

Arguments N.add : simpl never.
Arguments N.mul : simpl never.
Arguments N.sub : simpl never.
Arguments N.eqb : simpl never.
Arguments N.ltb : simpl never.
Arguments N.leb : simpl never.

(* ====================================================================================== *)
(* 0. Helpers: the usize-counter list functions are the standard ones                      *)
(* ====================================================================================== *)

Lemma take_n_firstn {A} (l : list A) : forall n, take_n n l = firstn (N.to_nat n) l.
Proof.
  induction l as [|x t IH]; intros n; cbn [take_n].
  - now rewrite firstn_nil.
  - destruct (N.eqb_spec n 0) as [->|Hn]; [reflexivity|].
    rewrite IH. replace (N.to_nat n) with (S (N.to_nat (N.pred n))) by lia. reflexivity.
Qed.

Lemma skip_n_skipn {A} (l : list A) : forall n, skip_n n l = skipn (N.to_nat n) l.
Proof.
  induction l as [|x t IH]; intros n; cbn [skip_n].
  - now rewrite skipn_nil.
  - destruct (N.eqb_spec n 0) as [->|Hn]; [reflexivity|].
    rewrite IH. replace (N.to_nat n) with (S (N.to_nat (N.pred n))) by lia. reflexivity.
Qed.

Lemma take_last_n_skipn {A} (n : N) (l : list A) :
  take_last_n n l = skipn (length l - N.to_nat n) l.
Proof.
  unfold take_last_n, len_N. rewrite skip_n_skipn. f_equal. lia.
Qed.

Lemma len_N_lt {A} (l : list A) (n : N) : (len_N l <? n) = (length l <? N.to_nat n)%nat.
Proof.
  unfold len_N. destruct (N.ltb_spec (N.of_nat (length l)) n) as [H|H];
    destruct (Nat.ltb_spec (length l) (N.to_nat n)) as [H'|H']; try reflexivity; lia.
Qed.

Lemma last_opt_rev {A} (l : list A) : last_opt l = hd_error (rev l).
Proof.
  induction l as [|x t IH]; [reflexivity|].
  destruct t as [|y t']; [reflexivity|].
  change (last_opt (x :: y :: t')) with (last_opt (y :: t')). rewrite IH.
  change (rev (x :: y :: t')) with (rev (y :: t') ++ [x]).
  destruct (rev (y :: t')) as [|z r] eqn:E; [|reflexivity].
  apply (f_equal (@length A)) in E. rewrite rev_length in E. discriminate E.
Qed.

Lemma last_opt_snoc {A} (l : list A) (x : A) : last_opt (l ++ [x]) = Some x.
Proof. rewrite last_opt_rev, rev_unit. reflexivity. Qed.

Lemma last_opt_last {A} (l : list A) (d : A) : l <> [] -> last_opt l = Some (last l d).
Proof.
  intros Hl. destruct (exists_last Hl) as (l' & x & ->).
  now rewrite last_opt_snoc, last_last.
Qed.

Lemma str_eqb_eq (a b : str) : str_eqb a b = true <-> a = b.
Proof.
  unfold str_eqb. revert b. induction a as [|x a IH]; intros [|y b]; cbn [list_eqb]; split;
    try discriminate; try reflexivity.
  - intros H. apply andb_true_iff in H as [H1 H2]. apply N.eqb_eq in H1. apply IH in H2. congruence.
  - intros H. injection H as -> ->. apply andb_true_iff. split; [apply N.eqb_refl|now apply IH].
Qed.

Lemma str_eqb_refl (a : str) : str_eqb a a = true.
Proof. now apply str_eqb_eq. Qed.

Lemma str_eqb_neq (a b : str) : a <> b -> str_eqb a b = false.
Proof.
  intros H. destruct (str_eqb a b) eqn:E; [|reflexivity]. apply str_eqb_eq in E. contradiction.
Qed.

(* the classes of argument values used in the "wrong type gives nothing" laws *)
Definition not_coll (v : option json) : Prop :=      (* neither an array, an object nor a string *)
  match v with Some (JArr _) | Some (JObj _) | Some (JStr _) => False | _ => True end.
Definition not_arr (v : option json) : Prop := match v with Some (JArr _) => False | _ => True end.
Definition not_obj (v : option json) : Prop := match v with Some (JObj _) => False | _ => True end.
Definition not_str (v : option json) : Prop := match v with Some (JStr _) => False | _ => True end.
Definition not_bool (v : option json) : Prop := match v with Some (JBool _) => False | _ => True end.
Definition not_num (v : option json) : Prop := match v with Some (JNum _) => False | _ => True end.
(* absent, not a number, negative, or fractional: `TryInto::<usize>` fails *)
Definition not_usize (v : option json) : Prop := usize_of v = None.

Lemma not_usize_cases v :
  not_usize v <-> match v with Some (JNum (NPos _)) => False | _ => True end.
Proof. unfold not_usize, usize_of. destruct v as [[| | |[]| |]|]; split; try easy. Qed.

Ltac psem :=
  cbv [pure_sem core_fn core_sem sem_coll sem_num sem_nas
       FunsColl.sub_sem take_sem take_last_sem coll_apply on_array on_object obj3 str_num_sem
       cmp_sem jb join_sem unary_sem guarded_sem FunsNum.sub_sem FunsNum.sum_sem
       arg nth_error usize_of as_f].

(* ====================================================================================== *)
(* 1. basic/collection: take, take_last, sub, size, get                                    *)
(* ====================================================================================== *)
Section Collection.

(* take: "Take the first N of element in an array, object of string" *)
Lemma take_list l n :
  pure_sem F_take [Some (JArr l); Some (JNum (NPos n))] = Some (Some (JArr (firstn (N.to_nat n) l))).
Proof. psem. now rewrite take_n_firstn. Qed.

Lemma take_obj m n :
  pure_sem F_take [Some (JObj m); Some (JNum (NPos n))] = Some (Some (JObj (firstn (N.to_nat n) m))).
Proof. psem. now rewrite take_n_firstn. Qed.

Lemma take_str s n :
  pure_sem F_take [Some (JStr s); Some (JNum (NPos n))] = Some (Some (JStr (firstn (N.to_nat n) s))).
Proof. psem. now rewrite take_n_firstn. Qed.

(* N = 0 *)
Lemma take_zero l : pure_sem F_take [Some (JArr l); Some (JNum (NPos 0))] = Some (Some (JArr [])).
Proof. rewrite take_list. reflexivity. Qed.

(* N = size and N > size: examples `(take [1, 2, 3, 4] 6)` = `[1, 2, 3, 4]` *)
Lemma take_all l n : (length l <= N.to_nat n)%nat ->
  pure_sem F_take [Some (JArr l); Some (JNum (NPos n))] = Some (Some (JArr l)).
Proof. intros H. rewrite take_list. now rewrite firstn_all2. Qed.

Lemma take_obj_all m n : (length m <= N.to_nat n)%nat ->
  pure_sem F_take [Some (JObj m); Some (JNum (NPos n))] = Some (Some (JObj m)).
Proof. intros H. rewrite take_obj. now rewrite firstn_all2. Qed.

(* order is preserved: the result is a prefix of the argument, of length min N size *)
Lemma take_prefix l n : exists rest,
  pure_sem F_take [Some (JArr l); Some (JNum (NPos n))] = Some (Some (JArr (firstn (N.to_nat n) l)))
  /\ l = firstn (N.to_nat n) l ++ rest
  /\ length (firstn (N.to_nat n) l) = Nat.min (N.to_nat n) (length l).
Proof.
  exists (skipn (N.to_nat n) l). split; [apply take_list|].
  split; [now rewrite firstn_skipn|apply firstn_length].
Qed.

(* take_last: "Take the last N of element in an array, object of string" *)
Lemma take_last_list l n :
  pure_sem F_take_last [Some (JArr l); Some (JNum (NPos n))]
  = Some (Some (JArr (skipn (length l - N.to_nat n) l))).
Proof. psem. now rewrite take_last_n_skipn. Qed.

Lemma take_last_obj m n :
  pure_sem F_take_last [Some (JObj m); Some (JNum (NPos n))]
  = Some (Some (JObj (skipn (length m - N.to_nat n) m))).
Proof. psem. now rewrite take_last_n_skipn. Qed.

Lemma take_last_str s n :
  pure_sem F_take_last [Some (JStr s); Some (JNum (NPos n))]
  = Some (Some (JStr (skipn (length s - N.to_nat n) s))).
Proof. psem. now rewrite take_last_n_skipn. Qed.

Lemma take_last_zero l :
  pure_sem F_take_last [Some (JArr l); Some (JNum (NPos 0))] = Some (Some (JArr [])).
Proof.
  rewrite take_last_list. change (N.to_nat 0) with O. rewrite Nat.sub_0_r.
  now rewrite skipn_all.
Qed.

Lemma take_last_all l n : (length l <= N.to_nat n)%nat ->
  pure_sem F_take_last [Some (JArr l); Some (JNum (NPos n))] = Some (Some (JArr l)).
Proof.
  intros H. rewrite take_last_list. replace (length l - N.to_nat n)%nat with O by lia. reflexivity.
Qed.

Lemma take_last_suffix l n : exists front,
  pure_sem F_take_last [Some (JArr l); Some (JNum (NPos n))]
  = Some (Some (JArr (skipn (length l - N.to_nat n) l)))
  /\ l = front ++ skipn (length l - N.to_nat n) l
  /\ length (skipn (length l - N.to_nat n) l) = Nat.min (N.to_nat n) (length l).
Proof.
  exists (firstn (length l - N.to_nat n) l). split; [apply take_last_list|].
  split; [now rewrite firstn_skipn|rewrite skipn_length; lia].
Qed.

(* take and take_last split the collection: (take l n) ++ (take_last l (size - n)) = l *)
Lemma take_take_last_partition (l : list json) (n : nat) : (n <= length l)%nat ->
  firstn n l ++ skipn (length l - (length l - n)) l = l.
Proof. intros H. replace (length l - (length l - n))%nat with n by lia. apply firstn_skipn. Qed.

(* sub: "creates a new list that start from the second arguments and has the size of the third" *)
Lemma sub_list l start len :
  pure_sem F_sub [Some (JArr l); Some (JNum (NPos start)); Some (JNum (NPos len))]
  = Some (Some (JArr (firstn (N.to_nat len) (skipn (N.to_nat start) l)))).
Proof. psem. now rewrite take_n_firstn, skip_n_skipn. Qed.

Lemma sub_obj m start len :
  pure_sem F_sub [Some (JObj m); Some (JNum (NPos start)); Some (JNum (NPos len))]
  = Some (Some (JObj (firstn (N.to_nat len) (skipn (N.to_nat start) m)))).
Proof. psem. now rewrite take_n_firstn, skip_n_skipn. Qed.

Lemma sub_str s start len :
  pure_sem F_sub [Some (JStr s); Some (JNum (NPos start)); Some (JNum (NPos len))]
  = Some (Some (JStr (firstn (N.to_nat len) (skipn (N.to_nat start) s)))).
Proof. psem. now rewrite take_n_firstn, skip_n_skipn. Qed.

(* example `(sub "123456" 2 0)` = "" : length 0 *)
Lemma sub_zero_len l start :
  pure_sem F_sub [Some (JArr l); Some (JNum (NPos start)); Some (JNum (NPos 0))] = Some (Some (JArr [])).
Proof. rewrite sub_list. reflexivity. Qed.

(* example `(sub [1, 2, 3, 4] 6 10)` = [] : start beyond the end *)
Lemma sub_start_beyond l start len : (length l <= N.to_nat start)%nat ->
  pure_sem F_sub [Some (JArr l); Some (JNum (NPos start)); Some (JNum (NPos len))] = Some (Some (JArr [])).
Proof. intros H. rewrite sub_list. rewrite skipn_all2 by exact H. now rewrite firstn_nil. Qed.

(* example `(sub [1, 2, 3, 4] 1 10)` = [2, 3, 4] : length beyond the end gives the whole tail *)
Lemma sub_len_beyond l start len : (length l <= N.to_nat start + N.to_nat len)%nat ->
  pure_sem F_sub [Some (JArr l); Some (JNum (NPos start)); Some (JNum (NPos len))]
  = Some (Some (JArr (skipn (N.to_nat start) l))).
Proof. intros H. rewrite sub_list. rewrite firstn_all2; [reflexivity|]. rewrite skipn_length. lia. Qed.

(* sub from 0 is take *)
Lemma sub_from_zero_is_take v len :
  pure_sem F_sub [v; Some (JNum (NPos 0)); Some (JNum (NPos len))]
  = pure_sem F_take [v; Some (JNum (NPos len))].
Proof.
  psem. destruct v as [[| | |n|m|l]|]; try reflexivity; rewrite !skip_n_skipn; reflexivity.
Qed.

(* size: "Get the number of element in an array, the number of keys in an object or the number of
   characters in a string." *)
Lemma size_arr l : pure_sem F_size [Some (JArr l)] = Some (Some (JNum (NPos (N.of_nat (length l))))).
Proof. reflexivity. Qed.
Lemma size_obj m : pure_sem F_size [Some (JObj m)] = Some (Some (JNum (NPos (N.of_nat (length m))))).
Proof. reflexivity. Qed.
Lemma size_str s : pure_sem F_size [Some (JStr s)] = Some (Some (JNum (NPos (N.of_nat (length s))))).
Proof. reflexivity. Qed.

(* get: "Get an item from an array by index or from a map by key." *)
Lemma get_arr l i : pure_sem F_get [Some (JArr l); Some (JNum (NPos i))] = Some (nth_error l (N.to_nat i)).
Proof. reflexivity. Qed.
Lemma get_obj m k : pure_sem F_get [Some (JObj m); Some (JStr k)] = Some (obj_get k m).
Proof. reflexivity. Qed.
(* example `(get ["a", "b", "c"] 100)` : nothing *)
Lemma get_arr_out_of_range l i : (length l <= N.to_nat i)%nat ->
  pure_sem F_get [Some (JArr l); Some (JNum (NPos i))] = Some None.
Proof. intros H. rewrite get_arr. f_equal. now apply nth_error_None. Qed.
Lemma get_arr_in_range l i : (N.to_nat i < length l)%nat ->
  exists v, pure_sem F_get [Some (JArr l); Some (JNum (NPos i))] = Some (Some v) /\ In v l.
Proof.
  intros H. rewrite get_arr. destruct (nth_error l (N.to_nat i)) as [v|] eqn:E.
  - exists v. split; [reflexivity|]. eapply nth_error_In; eassumption.
  - apply nth_error_None in E. lia.
Qed.

(* ---- wrong type / absent arguments give nothing, for every argument vector ---- *)
Lemma take_wrong_coll vals : not_coll (arg vals 0%nat) -> pure_sem F_take vals = Some None.
Proof.
  intros H. cbv [pure_sem core_fn sem_coll take_sem coll_apply].
  destruct (usize_of (arg vals 1%nat)); [|reflexivity].
  destruct (arg vals 0%nat) as [[| | | | |]|]; try reflexivity; destruct H.
Qed.
Lemma take_wrong_count vals : not_usize (arg vals 1%nat) -> pure_sem F_take vals = Some None.
Proof. intros H. cbv [pure_sem core_fn sem_coll take_sem]. now rewrite H. Qed.

Lemma take_last_wrong_coll vals : not_coll (arg vals 0%nat) -> pure_sem F_take_last vals = Some None.
Proof.
  intros H. cbv [pure_sem core_fn sem_coll take_last_sem coll_apply].
  destruct (usize_of (arg vals 1%nat)); [|reflexivity].
  destruct (arg vals 0%nat) as [[| | | | |]|]; try reflexivity; destruct H.
Qed.
Lemma take_last_wrong_count vals : not_usize (arg vals 1%nat) -> pure_sem F_take_last vals = Some None.
Proof. intros H. cbv [pure_sem core_fn sem_coll take_last_sem]. now rewrite H. Qed.

Lemma sub_wrong_coll vals : not_coll (arg vals 0%nat) -> pure_sem F_sub vals = Some None.
Proof.
  intros H. cbv [pure_sem core_fn sem_coll FunsColl.sub_sem coll_apply].
  destruct (usize_of (arg vals 1%nat)); [|reflexivity].
  destruct (usize_of (arg vals 2%nat)); [|reflexivity].
  destruct (arg vals 0%nat) as [[| | | | |]|]; try reflexivity; destruct H.
Qed.
Lemma sub_wrong_start vals : not_usize (arg vals 1%nat) -> pure_sem F_sub vals = Some None.
Proof. intros H. cbv [pure_sem core_fn sem_coll FunsColl.sub_sem]. now rewrite H. Qed.
Lemma sub_wrong_len vals : not_usize (arg vals 2%nat) -> pure_sem F_sub vals = Some None.
Proof.
  intros H. cbv [pure_sem core_fn sem_coll FunsColl.sub_sem]. rewrite H.
  now destruct (usize_of (arg vals 1%nat)).
Qed.

(* "50 is not an array, not an object nor a string." *)
Lemma size_wrong_type vals : not_coll (arg vals 0%nat) -> pure_sem F_size vals = Some None.
Proof.
  intros H. cbv [pure_sem core_fn core_sem].
  destruct (arg vals 0%nat) as [[| | | | |]|]; try reflexivity; destruct H.
Qed.

Lemma get_wrong_container vals :
  not_arr (arg vals 0%nat) -> not_obj (arg vals 0%nat) -> pure_sem F_get vals = Some None.
Proof.
  intros Ha Ho. cbv [pure_sem core_fn core_sem].
  destruct (arg vals 0%nat) as [[| | | | |]|]; try reflexivity; [destruct Ho|destruct Ha].
Qed.
Lemma get_arr_wrong_index l vals : arg vals 0%nat = Some (JArr l) -> not_usize (arg vals 1%nat) ->
  pure_sem F_get vals = Some None.
Proof. intros H0 H1. cbv [pure_sem core_fn core_sem]. now rewrite H0, H1. Qed.
Lemma get_obj_wrong_key m vals : arg vals 0%nat = Some (JObj m) -> not_str (arg vals 1%nat) ->
  pure_sem F_get vals = Some None.
Proof.
  intros H0 H1. cbv [pure_sem core_fn core_sem]. rewrite H0.
  destruct (arg vals 1%nat) as [[| | | | |]|]; try reflexivity; destruct H1.
Qed.

End Collection.
