(* TouchProofs.v — touching tokens.  Spec/Render.seps_ok demands a non-empty whitespace run after
   every bare value (a number or one of the words true/false/null) that is followed by another
   value.  That is stronger than needed: two values may touch whenever the second one announces
   itself with a bracket, a brace or a quote (`true[1]`, `null"a"`, `1{"b":2}`, `3.5"x"`).
   This file proves the stream theorems (ParserProofs.values_of_stream, GoProofs.go_default_rows)
   under the weaker separator condition seps_ok', and shows seps_ok -> seps_ok'. *)
From Coq Require Import List NArith ZArith Bool Lia.
From Jawk Require Import Base F64 Json Reader JsonParser Stream Ctx Printer Expr Chain ExprParser Go.
From Jawk Require Import Render ReaderLemmas ParserProofs GoProofs.
Import ListNotations.
Local Open Scope N_scope.

#[local] Arguments N.add : simpl never.
#[local] Arguments N.mul : simpl never.
#[local] Arguments N.sub : simpl never.
#[local] Arguments N.eqb : simpl never.
#[local] Arguments N.ltb : simpl never.
#[local] Arguments N.leb : simpl never.

(* ================= the weaker separator condition ================= *)
(* after a bare value: whitespace, or the end of the stream, or a value that is not bare *)
Fixpoint seps_ok' (l : list (sjson * ws)) : Prop :=
  match l with
  | [] => True
  | (t, w) :: more =>
      ws_ok w /\
      (bare t = true -> match more with [] => True | (t', _) :: _ => w <> [] \/ bare t' = false end) /\
      seps_ok' more
  end.

Definition stream_wf' (lead : ws) (l : list (sjson * ws)) : Prop :=
  ws_ok lead /\ Forall (fun tw => wf (fst tw)) l /\ seps_ok' l.

Lemma seps_ok_weaker : forall l, seps_ok l -> seps_ok' l.
Proof.
  induction l as [|[t w] more IH]; intros H; [exact I|].
  cbn [seps_ok] in H. destruct H as (Hw & Hsep & Hmore). cbn [seps_ok'].
  split; [exact Hw|]. split; [|apply IH; exact Hmore].
  intros Hb. destruct more as [|[t' w'] more']; [exact I|].
  left. apply Hsep; [exact Hb|discriminate].
Qed.

Lemma stream_wf_weaker lead l : stream_wf lead l -> stream_wf' lead l.
Proof.
  intros (Hlead & Hwf & Hseps). split; [exact Hlead|]. split; [exact Hwf|].
  apply seps_ok_weaker. exact Hseps.
Qed.

(* ================= the first byte of a value that is not bare ================= *)
Definition opener (b : byte) : Prop := b = 34 \/ b = 91 \/ b = 123.

Lemma nonbare_head t : bare t = false -> exists b l, render t = b :: l /\ opener b.
Proof.
  intros Hb. destruct t as [| | |n|cs|w|items|w|ms]; cbn [bare] in Hb; try discriminate Hb.
  - exists 34, (flat_map render_char cs ++ [34]). split; [reflexivity|left; reflexivity].
  - exists 91, (w ++ [93]). split; [reflexivity|right; left; reflexivity].
  - rewrite render_arr. exists 91, (render_items items). split; [reflexivity|right; left; reflexivity].
  - exists 123, (w ++ [125]). split; [reflexivity|right; right; reflexivity].
  - rewrite render_obj. exists 123, (render_members ms). split; [reflexivity|right; right; reflexivity].
Qed.

(* a quote, a bracket or a brace ends a number *)
Lemma num_follow_opener b l : opener b -> num_follow (b :: l).
Proof.
  intros [Hb|[Hb|Hb]]; subst b; cbn [num_follow]; (split; [reflexivity|split; [discriminate|reflexivity]]).
Qed.

(* the counterpart of ParserProofs.stream_follow *)
Lemma stream_follow' t (w : ws) (more : list (sjson * ws)) :
  ws_ok w ->
  (bare t = true -> match more with [] => True | (t', _) :: _ => w <> [] \/ bare t' = false end) ->
  follow t (w ++ render_stream more).
Proof.
  intros Hw Hsep. destruct t as [| | |n|cs|w0|items|w0|ms]; cbn [follow]; auto. cbn [bare] in Hsep.
  destruct w as [|a w].
  - destruct more as [|[t' w'] more']; [exact I|].
    destruct (Hsep eq_refl) as [Hne|Hnb]; [exfalso; apply Hne; reflexivity|].
    destruct (nonbare_head t' Hnb) as (b & rest & E & Hop).
    cbn [app render_stream]. rewrite E. cbn [app]. apply num_follow_opener. exact Hop.
  - inversion Hw as [|? ? Ha Hw']; subst. cbn [app]. apply num_follow_ws. exact Ha.
Qed.

(* ================= the read loop (structure of ParserProofs.read_all_stream) ================= *)
Lemma read_all_stream' : forall (l : list (sjson * ws)) (vs : list json) r (lead : ws) fuel,
  ws_ok lead -> Forall (fun tw => wf (fst tw)) l -> seps_ok' l ->
  Forall2 (fun tw v => value_of (fst tw) = Some v) l vs ->
  rd_ok r -> view r = lead ++ render_stream l -> (length l < fuel)%nat ->
  read_all fuel r = (vs, 0).
Proof.
  induction l as [|[t w] more IH]; intros vs r lead fuel Hlead Hwf Hseps Hvals Hok Hv Hf;
    (destruct fuel as [|f]; [cbn in Hf; lia|]); cbn [read_all]; unfold next_json_value.
  - inversion Hvals; subst. cbn [render_stream] in Hv. rewrite app_nil_r in Hv.
    destruct (parse_value_eof (parse_fuel r) r lead) as (r' & ->); auto.
    unfold parse_fuel; lia.
  - inversion Hvals as [|? v ? vs' Hv1 Hvs']; subst. cbn [fst] in Hv1.
    inversion Hwf as [|? ? Hwft Hwf']; subst. cbn [fst] in Hwft.
    cbn [seps_ok'] in Hseps. destruct Hseps as (Hw & Hsep & Hseps').
    cbn [render_stream] in Hv.
    destruct (parse_value_render (parse_fuel r) t v lead (w ++ render_stream more) r)
      as (r' & -> & Hv' & Hok'); auto.
    + apply stream_follow'; assumption.
    + apply parse_fuel_enough; assumption.
    + rewrite (IH vs' r' w f); auto. cbn in Hf; lia.
Qed.

Theorem values_of_stream_touching : forall (lead : ws) (l : list (sjson * ws)) (vs : list json),
  stream_wf' lead l ->
  Forall2 (fun tw v => value_of (fst tw) = Some v) l vs ->
  values_of_bytes (lead ++ render_stream l) = (vs, 0%N).
Proof.
  intros lead l vs (Hlead & Hwf & Hseps) Hvals. unfold values_of_bytes.
  apply (read_all_stream' l vs _ lead); auto.
  - apply rd_ok_of_bytes.
  - apply view_of_bytes.
  - pose proof (stream_length l Hwf). rewrite app_length. lia.
Qed.

(* ================= the whole program (structure of GoProofs.read_ctxs_stream) ================= *)
Lemma read_ctxs_stream' : forall (l : list (sjson * ws)) (vs : list json) r (lead : ws) fuel fname idx infile,
  ws_ok lead -> Forall (fun tw => wf (fst tw)) l -> seps_ok' l ->
  Forall2 (fun tw v => value_of (fst tw) = Some v) l vs ->
  rd_ok r -> no_eerr r -> io r = false -> view r = lead ++ render_stream l -> (length l < fuel)%nat ->
  exists cs, read_ctxs fuel false r fname idx infile = (cs, 0, false) /\
             map (@input expr) cs = vs /\ Forall (fun c => results c = []) cs.
Proof.
  induction l as [|[t w] more IH];
    intros vs r lead fuel fname idx infile Hlead Hwf Hseps Hvals Hok Hn Hio Hv Hf;
    (destruct fuel as [|f]; [cbn in Hf; lia|]); cbn [read_ctxs]; cbv zeta.
  - inversion Hvals; subst. cbn [render_stream] in Hv. rewrite app_nil_r in Hv.
    destruct (parse_value_eof (parse_fuel r) r lead) as (r' & E); auto.
    { unfold parse_fuel; lia. }
    change (next_json_value r = (PEof, r')) in E.
    destruct (next_json_value_clean r _ r' Hn Hio E) as [_ Hio']. rewrite E, Hio'.
    exists []. repeat split; constructor.
  - inversion Hvals as [|? v ? vs' Hv1 Hvs']; subst. cbn [fst] in Hv1.
    inversion Hwf as [|? ? Hwft Hwf']; subst. cbn [fst] in Hwft.
    cbn [seps_ok'] in Hseps. destruct Hseps as (Hw & Hsep & Hseps').
    cbn [render_stream] in Hv.
    destruct (parse_value_render (parse_fuel r) t v lead (w ++ render_stream more) r)
      as (r' & E & Hv' & Hok'); auto.
    { apply stream_follow'; assumption. }
    { apply parse_fuel_enough; assumption. }
    change (next_json_value r = (POk v, r')) in E.
    destruct (next_json_value_clean r _ r' Hn Hio E) as [Hn' Hio']. rewrite E, Hio'. cbn [andb].
    destruct (IH vs' r' w f fname (idx + 1) (infile + 1)) as (cs & -> & Hin & Hres); auto.
    { cbn in Hf; lia. }
    eexists. split; [reflexivity|]. cbn [map input new_with_input]. split; [congruence|].
    constructor; [reflexivity|assumption].
Qed.

Theorem go_default_rows_touching : forall lead l vs,
  stream_wf' lead l -> Forall2 (fun tw v => value_of (fst tw) = Some v) l vs ->
  let g := go default_cfg [(None, map EB (lead ++ render_stream l))] true in
  g_result g = GOk /\ g_events g = map (fun v => OOut (print_json OneLine false v ++ [10])) vs.
Proof.
  intros lead l vs (Hlead & Hwf & Hseps) Hvals g. subst g.
  set (bs := lead ++ render_stream l).
  destruct (read_ctxs_stream' l vs (mk_reader (map EB bs)) lead (input_fuel (map EB bs)) None 0 0)
    as (cs & E & Hin & Hres); auto.
  - apply (rd_ok_of_bytes bs).
  - apply no_eerr_mk, no_eerr_bytes.
  - apply (view_of_bytes bs).
  - pose proof (stream_length l Hwf). unfold input_fuel, bs. rewrite map_length, app_length. lia.
  - assert (Hc : ctxs_of_input default_cfg None (map EB bs) = (cs, 0, false)) by exact E.
    destruct (go_run_ignore default_cfg None (map EB bs) true (PJson OneLine false) [] []
                eq_refl (no_eerr_bytes bs) default_pipeline eq_refl) as [H1 H2].
    split; [exact H1|]. rewrite H2, Hc. cbn [fst app titles length map]. rewrite run_nil.
    unfold emit. rewrite <- Hin, map_map. apply map_ext_in. intros c Hc'.
    rewrite Forall_forall in Hres. specialize (Hres c Hc').
    cbn [print_row c_rowsep default_cfg]. unfold build. rewrite Hres. reflexivity.
Qed.

(* the old theorems are instances of the new ones *)
Corollary values_of_stream_again : forall lead l vs,
  stream_wf lead l -> Forall2 (fun tw v => value_of (fst tw) = Some v) l vs ->
  values_of_bytes (lead ++ render_stream l) = (vs, 0%N).
Proof. intros lead l vs H. apply values_of_stream_touching, stream_wf_weaker, H. Qed.

(* ================= examples ================= *)
(* true[1]null"a"false{"b":2}1[2]3.5"x" : eight values, every pair of neighbours touching *)
Definition touching_bytes : list byte :=
  [116; 114; 117; 101] ++ [91; 49; 93] ++ [110; 117; 108; 108] ++ [34; 97; 34] ++
  [102; 97; 108; 115; 101] ++ [123; 34; 98; 34; 58; 50; 125] ++ [49] ++ [91; 50; 93] ++
  [51; 46; 53] ++ [34; 120; 34].

Definition touching_vals : list json :=
  [JBool true; JArr [JNum (NPos 1)]; JNull; JStr [97]; JBool false; JObj [([98], JNum (NPos 2))];
   JNum (NPos 1); JArr [JNum (NPos 2)]; JNum (NFlt 4615063718147915776 (* 3.5 *)); JStr [120]].

Example touching_values : values_of_bytes touching_bytes = (touching_vals, 0).
Proof. vm_compute. reflexivity. Qed.

(* the same text as a stream of spelling trees with empty separators *)
Definition sn_digit (d : byte) : snum := {| sn_neg := false; sn_int := [d]; sn_frac := None; sn_exp := None |}.
Definition sn_3_5 : snum := {| sn_neg := false; sn_int := [51]; sn_frac := Some [53]; sn_exp := None |}.
Definition touching_stream : list (sjson * ws) :=
  [(STrue, []); (SArr [([], SNum (sn_digit 49), [])], []); (SNull, []); (SStr [CLit 97], []);
   (SFalse, []); (SObj [([], [CLit 98], [], ([], SNum (sn_digit 50), []))], []);
   (SNum (sn_digit 49), []); (SArr [([], SNum (sn_digit 50), [])], []);
   (SNum sn_3_5, []); (SStr [CLit 120], [])].

Example touching_stream_bytes : render_stream touching_stream = touching_bytes.
Proof. vm_compute. reflexivity. Qed.

(* split the goal down to closed equations, compute only those (vm_compute on a predicate under a
   binder would normalise the bodies of is_scalar and dec2flt) *)
Ltac ground :=
  repeat match goal with
  | |- _ /\ _ => split
  | |- True => exact I
  | |- Forall _ [] => apply Forall_nil
  | |- Forall _ (_ :: _) => apply Forall_cons
  | |- NoDup [] => apply NoDup_nil
  | |- NoDup (_ :: _) => apply NoDup_cons
  | |- _ = _ => vm_compute; reflexivity
  | |- _ <= _ => vm_compute
  | |- _ \/ _ => right; vm_compute; reflexivity
  | |- ~ _ =>
      let H := fresh "H" in
      intro H; vm_compute in H; first [discriminate H | exact H]
  | |- _ -> _ =>
      let H := fresh "H" in
      intro H; vm_compute in H; first [discriminate H | exact H | idtac]
  | |- ws_ok _ => unfold ws_ok
  | |- snum_ok _ =>
      unfold snum_ok, int_ok, digits_ok, sn_digit, sn_3_5; cbn [sn_int sn_frac sn_exp]
  | |- schar_ok _ => unfold schar_ok
  | |- _ =>
      progress cbn [wf seps_ok' ws_ok snum_ok int_ok digits_ok schar_ok fst snd sn_int sn_frac sn_exp
                    sn_digit sn_3_5 map str_val char_val In]
  end.

(* an instance of the weaker condition that the stronger one rejects *)
Example touching_stream_wf' : stream_wf' [] touching_stream.
Proof.
  unfold stream_wf', touching_stream. ground.
Qed.

Example touching_stream_not_wf : ~ stream_wf [] touching_stream.
Proof.
  intros (_ & _ & H). unfold touching_stream in H. cbn [seps_ok] in H. destruct H as (_ & H & _).
  apply (H eq_refl); [discriminate|reflexivity].
Qed.

Example touching_stream_values :
  Forall2 (fun tw v => value_of (fst tw) = Some v) touching_stream touching_vals.
Proof.
  unfold touching_stream, touching_vals.
  repeat (apply Forall2_cons; [vm_compute; reflexivity|]). apply Forall2_nil.
Qed.

(* the theorems applied to the instance *)
Example touching_by_theorem : values_of_bytes ([] ++ render_stream touching_stream) = (touching_vals, 0).
Proof. apply values_of_stream_touching; [exact touching_stream_wf'|exact touching_stream_values]. Qed.

Example touching_rows_by_theorem :
  let g := go default_cfg [(None, map EB ([] ++ render_stream touching_stream))] true in
  g_result g = GOk /\ g_events g = map (fun v => OOut (print_json OneLine false v ++ [10])) touching_vals.
Proof. apply go_default_rows_touching; [exact touching_stream_wf'|exact touching_stream_values]. Qed.

Print Assumptions seps_ok_weaker.
Print Assumptions values_of_stream_touching.
Print Assumptions go_default_rows_touching.
Print Assumptions touching_values.
Print Assumptions touching_stream_wf'.
