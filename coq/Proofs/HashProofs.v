(* HashProofs.v — the hand-written `impl Hash for JsonValue` agrees with the `=` function (jeqb) on canonical
   values WHATEVER the order of the members of objects, at any depth.

   An object writes its tag and then one u64: the sum modulo 2^64 of member_hash (key :: feed of the value)
   over its members (Model/Json.v, hash_feed).  jeqb compares objects as maps.  GroupUniqProofs.hash_coherent
   needed `same_order a b`; here that hypothesis is dropped:

     hash_coherent_any_order : canonical a -> canonical b -> jeqb a b = true -> hash_feed mh a = hash_feed mh b

   `member_hash` (what a fresh DefaultHasher answers after a sequence of writes) is an arbitrary function. *)
From Jawk Require Import Base Json Ctx GroupUniqProofs.
From Coq Require Import Permutation.
Local Open Scope N_scope.

Definition M64 : N := 18446744073709551616.

(* ================================================================================================ *)
(* sums modulo 2^64                                                                                 *)
(* ================================================================================================ *)
Lemma M64_nz : M64 <> 0.
Proof. unfold M64. discriminate. Qed.

Lemma add_mod_swap (x y a : N) : (x + (y + a) mod M64) mod M64 = (y + (x + a) mod M64) mod M64.
Proof.
  rewrite (N.add_mod_idemp_r x (y + a) M64 M64_nz).
  rewrite (N.add_mod_idemp_r y (x + a) M64 M64_nz).
  f_equal. lia.
Qed.

Section Sum.
Context {A : Type}.
Variable f : A -> N.
Definition wsum (l : list A) : N := fold_right (fun x acc => (f x + acc) mod M64) 0 l.

Lemma wsum_cons x l : wsum (x :: l) = (f x + wsum l) mod M64.
Proof. reflexivity. Qed.

(* the wrapping sum does not depend on the order of the summands *)
Lemma fold_sum_perm (l l' : list A) : Permutation l l' -> wsum l = wsum l'.
Proof.
  intros HP. induction HP as [|x l l' _ IH|x y l|l l' l'' _ IH1 _ IH2].
  - reflexivity.
  - rewrite !wsum_cons, IH. reflexivity.
  - rewrite !wsum_cons. apply add_mod_swap.
  - rewrite IH1. exact IH2.
Qed.
End Sum.

(* ================================================================================================ *)
(* association lists                                                                                *)
(* ================================================================================================ *)
Lemma obj_get_In k v : forall m, obj_get k m = Some v -> In (k, v) m.
Proof.
  induction m as [|[k' v'] m IH]; cbn [obj_get]; intros H; [discriminate H|].
  destruct (str_eqb k k') eqn:Ek.
  - apply gu_str_eqb_eq in Ek. subst k'. injection H as ->. left. reflexivity.
  - right. apply IH. exact H.
Qed.

Lemma obj_get_remove_other k k2 : k2 <> k -> forall m, obj_get k2 (obj_remove k m) = obj_get k2 m.
Proof.
  intros Hne. induction m as [|[k' v'] m IH]; [reflexivity|].
  cbn [obj_remove obj_get]. destruct (str_eqb k k') eqn:Ek.
  - apply gu_str_eqb_eq in Ek. subst k'. rewrite (gu_str_eqb_neq k2 k Hne). reflexivity.
  - cbn [obj_get]. rewrite IH. reflexivity.
Qed.

Lemma obj_remove_length k v : forall m, obj_get k m = Some v -> S (length (obj_remove k m)) = length m.
Proof.
  induction m as [|[k' v'] m IH]; cbn [obj_get obj_remove]; intros H; [discriminate H|].
  destruct (str_eqb k k') eqn:Ek.
  - reflexivity.
  - cbn [length]. f_equal. apply IH. exact H.
Qed.

(* removing a present key splits it off the list, up to order *)
Lemma obj_remove_perm k v : forall m, obj_get k m = Some v -> Permutation m ((k, v) :: obj_remove k m).
Proof.
  induction m as [|[k' v'] m IH]; cbn [obj_get obj_remove]; intros H; [discriminate H|].
  destruct (str_eqb k k') eqn:Ek.
  - apply gu_str_eqb_eq in Ek. subst k'. injection H as ->. apply Permutation_refl.
  - eapply Permutation_trans; [apply perm_skip, IH, H|]. apply perm_swap.
Qed.

Lemma all_In {A} (P : A -> Prop) l x : all P l -> In x l -> P x.
Proof. intros H Hin. apply all_Forall in H. rewrite Forall_forall in H. apply H. exact Hin. Qed.

(* what the inclusion test of jeqb says *)
Lemma obj_incl_spec y : forall x, obj_incl y x = true ->
  forall k u, In (k, u) x -> exists v, obj_get k y = Some v /\ jeqb u v = true.
Proof.
  induction x as [|[k0 u0] x IH]; intros Hi k u Hin; [destruct Hin|].
  cbn [obj_incl] in Hi. apply Bool.andb_true_iff in Hi as [H1 H2].
  destruct Hin as [Heq|Hin].
  - injection Heq as -> ->. destruct (obj_get k y) as [v|]; [|discriminate H1].
    exists v. split; [reflexivity|exact H1].
  - apply (IH H2). exact Hin.
Qed.

(* ================================================================================================ *)
(* the hash of an object                                                                            *)
(* ================================================================================================ *)
Section Hash.
Variable mh : list hw -> N.

(* the hash of one member: a fresh hasher fed the key and then the value *)
Definition member_term (kv : str * json) : N := mh (HStr (fst kv) :: hash_feed mh (snd kv)).

Lemma hash_feed_obj m : hash_feed mh (JObj m) = [HI8 7; HU64 (wsum member_term m)].
Proof. reflexivity. Qed.
Lemma hash_feed_arr l : hash_feed mh (JArr l) = HI8 6 :: HLen (length l) :: flat_map (hash_feed mh) l.
Proof. reflexivity. Qed.

(* the members may be listed in any order *)
Theorem hash_feed_obj_perm m m' : Permutation m m' -> hash_feed mh (JObj m) = hash_feed mh (JObj m').
Proof. intros HP. rewrite !hash_feed_obj, (fold_sum_perm member_term m m' HP). reflexivity. Qed.

(* m with distinct keys, m' of the same length, every member of m found in m' under its key with a value of the
   same feed: the two sums agree.  (Nothing is assumed on the keys of m': they are distinct as a consequence.) *)
Lemma wsum_members_eq : forall m m',
  NoDup (map fst m) -> length m = length m' ->
  (forall k u, In (k, u) m -> exists u', obj_get k m' = Some u' /\ hash_feed mh u = hash_feed mh u') ->
  wsum member_term m = wsum member_term m'.
Proof.
  induction m as [|[k u] m IH]; intros m' Hnd Hlen Hall.
  - destruct m' as [|p m']; [reflexivity|discriminate Hlen].
  - cbn [map fst] in Hnd. inversion Hnd as [|a l0 Hnk Hnd']; subst a l0.
    destruct (Hall k u (or_introl eq_refl)) as [u' [Hget Hfeed]].
    rewrite (fold_sum_perm member_term m' _ (obj_remove_perm k u' m' Hget)).
    rewrite !wsum_cons.
    assert (Ht : member_term (k, u) = member_term (k, u')).
    { unfold member_term. cbn [fst snd]. rewrite Hfeed. reflexivity. }
    rewrite Ht. f_equal. f_equal.
    apply IH.
    + exact Hnd'.
    + pose proof (obj_remove_length k u' m' Hget) as Hl. cbn [length] in Hlen. lia.
    + intros k2 u2 Hin2.
      destruct (Hall k2 u2 (or_intror Hin2)) as [u2' [Hget2 Hfeed2]].
      exists u2'. split; [|exact Hfeed2].
      rewrite obj_get_remove_other; [exact Hget2|].
      intros ->. apply Hnk. apply (in_map fst) in Hin2. exact Hin2.
Qed.

(* ---------- the theorem ---------- *)
Theorem hash_coherent_any_order_mh : forall a b,
  canonical a -> canonical b -> jeqb a b = true -> hash_feed mh a = hash_feed mh b.
Proof.
  intros a. induction a as [| x | s | n | m IHm | l IHl] using gu_json_ind;
    intros b Ca Cb Heq; destruct b as [| x' | s' | n' | m' | l']; try (cbn in Heq; discriminate Heq).
  - reflexivity.
  - cbn [jeqb] in Heq. apply Bool.eqb_prop in Heq. subst x'. reflexivity.
  - cbn [jeqb] in Heq. apply gu_str_eqb_eq in Heq. subst s'. reflexivity.
  - cbn [jeqb] in Heq. cbn [canonical] in Ca, Cb.
    rewrite (num_eqb_canon n n' Ca Cb Heq). reflexivity.
  - rewrite jeqb_obj in Heq. apply Bool.andb_true_iff in Heq as [Hlen Hincl].
    apply Nat.eqb_eq in Hlen.
    cbn [canonical] in Ca, Cb. destruct Ca as [Hnd Cm]. destruct Cb as [_ Cm'].
    rewrite !hash_feed_obj.
    rewrite (wsum_members_eq m m' Hnd Hlen); [reflexivity|].
    intros k u Hin.
    destruct (obj_incl_spec m' m Hincl k u Hin) as [v [Hget Huv]].
    exists v. split; [exact Hget|].
    rewrite Forall_forall in IHm. apply (IHm (k, u) Hin v).
    + apply (all_In _ m (k, u) Cm Hin).
    + apply (all_In _ m' (k, v) Cm'). apply obj_get_In. exact Hget.
    + exact Huv.
  - cbn [canonical] in Ca, Cb. rewrite !hash_feed_arr.
    assert (core : length l = length l' /\ flat_map (hash_feed mh) l = flat_map (hash_feed mh) l').
    { revert l' Ca Cb Heq. induction l as [|u x IHx]; intros [|v y] Cx Cy Heq;
        try (cbn in Heq; discriminate Heq).
      - split; reflexivity.
      - inversion IHl as [|a l0 IHu HFx]; subst a l0.
        cbn [all] in Cx, Cy. destruct Cx as [Cu Cx]. destruct Cy as [Cv Cy].
        rewrite jeqb_arr_cons in Heq. apply Bool.andb_true_iff in Heq as [H1 H2].
        destruct (IHx HFx y Cx Cy H2) as [Hl Hf].
        cbn [length flat_map]. rewrite Hl, Hf, (IHu v Cu Cv H1). split; reflexivity. }
    destruct core as [Hl Hf]. rewrite Hl, Hf. reflexivity.
Qed.
End Hash.

(* for canonical values (numbers in canonical form, keys of every object distinct — in particular every value the
   parser returns) equal values (the = function) have the same hash feed, whatever the order of the members of
   objects at any depth and whatever the inner hasher *)
Theorem hash_coherent_any_order : forall (mh : list hw -> N) a b,
  canonical a -> canonical b -> jeqb a b = true -> hash_feed mh a = hash_feed mh b.
Proof. exact hash_coherent_any_order_mh. Qed.
Print Assumptions hash_coherent_any_order.

Print Assumptions hash_feed_obj_perm.

(* ================================================================================================ *)
(* row keys (Context::key, #[derive(Hash)] on ContextKey)                                           *)
(* ================================================================================================ *)
(* derived Hash: the discriminant (an isize) and then the fields; a Vec writes its length and then its
   elements; an Option its discriminant and then the value *)
Definition opt_feed (mh : list hw -> N) (o : option json) : list hw :=
  match o with None => [HI64 0] | Some v => HI64 1 :: hash_feed mh v end.
Definition ckey_feed (mh : list hw -> N) (k : ckey) : list hw :=
  match k with
  | KValue v => HI64 0 :: hash_feed mh v
  | KResults l => HI64 1 :: HLen (length l) :: flat_map (opt_feed mh) l
  end.
Definition opt_canonical (o : option json) : Prop :=
  match o with Some v => canonical v | None => True end.
Definition ckey_canonical (k : ckey) : Prop :=
  match k with KValue v => canonical v | KResults l => all opt_canonical l end.

Lemma opt_hash_coherent mh a b :
  opt_canonical a -> opt_canonical b -> ojeqb a b = true -> opt_feed mh a = opt_feed mh b.
Proof.
  destruct a as [x|], b as [y|]; cbn [opt_canonical ojeqb opt_feed]; intros Ca Cb H;
    try discriminate H; [|reflexivity].
  rewrite (hash_coherent_any_order mh x y Ca Cb H). reflexivity.
Qed.

Theorem ckey_hash_coherent : forall (mh : list hw -> N) a b,
  ckey_canonical a -> ckey_canonical b -> ckey_eqb a b = true -> ckey_feed mh a = ckey_feed mh b.
Proof.
  intros mh [x|l] [y|l']; cbn [ckey_canonical ckey_eqb ckey_feed]; intros Ca Cb H; try discriminate H.
  - rewrite (hash_coherent_any_order mh x y Ca Cb H). reflexivity.
  - assert (core : length l = length l' /\ flat_map (opt_feed mh) l = flat_map (opt_feed mh) l').
    { revert l' Ca Cb H. induction l as [|u t IH]; intros [|v t'] Ca Cb H;
        cbn [list_eqb] in H; try discriminate H.
      - split; reflexivity.
      - cbn [all] in Ca, Cb. destruct Ca as [Cu Ct]. destruct Cb as [Cv Ct'].
        apply Bool.andb_true_iff in H as [H1 H2].
        destruct (IH t' Ct Ct' H2) as [Hl Hf].
        cbn [length flat_map]. rewrite Hl, Hf, (opt_hash_coherent mh u v Cu Cv H1). split; reflexivity. }
    destruct core as [Hl Hf]. rewrite Hl, Hf. reflexivity.
Qed.
Print Assumptions ckey_hash_coherent.

(* the key of a row (Context::key) of canonical input and selections *)
Corollary row_key_hash_coherent : forall (E : Type) (mh : list hw -> N) (c d : ctx E),
  ckey_canonical (key c) -> ckey_canonical (key d) ->
  ckey_eqb (key c) (key d) = true -> ckey_feed mh (key c) = ckey_feed mh (key d).
Proof. intros E mh c d. apply ckey_hash_coherent. Qed.

(* ================================================================================================ *)
(* non-vacuity: members permuted at two nesting levels                                              *)
(* ================================================================================================ *)
(* {"a":1,"b":{"x":[1],"y":2}} *)
Definition hp_ex1 : json :=
  JObj [([97], JNum (NPos 1));
        ([98], JObj [([120], JArr [JNum (NPos 1)]); ([121], JNum (NPos 2))])].
(* {"b":{"y":2,"x":[1]},"a":1} *)
Definition hp_ex2 : json :=
  JObj [([98], JObj [([121], JNum (NPos 2)); ([120], JArr [JNum (NPos 1)])]);
        ([97], JNum (NPos 1))].

Lemma hp_nodup2 (a b : str) : a <> b -> NoDup [a; b].
Proof.
  intros H. constructor.
  - intros [Hab|[]]. apply H. symmetry. exact Hab.
  - constructor; [intros []|constructor].
Qed.

Example hp_example :
  canonical hp_ex1 /\ canonical hp_ex2 /\ jeqb hp_ex1 hp_ex2 = true /\ hp_ex1 <> hp_ex2 /\
  ~ same_order hp_ex1 hp_ex2 /\
  forall mh, hash_feed mh hp_ex1 = hash_feed mh hp_ex2.
Proof.
  assert (C1 : canonical hp_ex1).
  { unfold hp_ex1. cbn [canonical all map fst snd canon_num].
    repeat split; apply hp_nodup2; discriminate. }
  assert (C2 : canonical hp_ex2).
  { unfold hp_ex2. cbn [canonical all map fst snd canon_num].
    repeat split; apply hp_nodup2; discriminate. }
  assert (E : jeqb hp_ex1 hp_ex2 = true) by (vm_compute; reflexivity).
  split; [exact C1|]. split; [exact C2|]. split; [exact E|]. split; [|split].
  - unfold hp_ex1, hp_ex2. intros H. discriminate H.
  - unfold hp_ex1, hp_ex2. cbn [same_order map fst]. intros [H _]. discriminate H.
  - intros mh. apply hash_coherent_any_order; assumption.
Qed.
Print Assumptions hp_example.
