(* IndexFilesProofs.v — the input-context records over a list of inputs: &index is the 0-based ordinal over
   ALL inputs (also with --only-objects-and-arrays, where skipped scalars consume no index); the contexts of the
   k-th input carry its name and an index-in-file that restarts at 0. *)
From Jawk Require Import Base F64 Json Reader JsonParser Ctx Printer Fn Expr Chain ExprParser Go PipelineSpec.
From Jawk Require Import OrderProofs SorterProofs ChainProofs GoProofs IoProofs BuildProofs FilesProofs.
From Coq Require Import Lia.
Local Open Scope N_scope.

Lemma read_ctxs_idx_any : forall fuel oo r fname idx infile,
  idx_ok fname idx infile (fst (fst (read_ctxs fuel oo r fname idx infile))).
Proof.
  induction fuel as [|f IH]; intros oo r fname idx infile; cbn [read_ctxs]; [exact I|]. cbv zeta.
  destruct (next_json_value r) as [res r1]. destruct (io r1); [exact I|].
  destruct res as [v| | |]; try exact I.
  - destruct (oo && negb (is_container v)); [apply IH|].
    specialize (IH oo r1 fname (idx + 1) (infile + 1)).
    destruct (read_ctxs f oo r1 fname (idx + 1) (infile + 1)) as [[cs e] b]. cbn [fst] in *.
    eexists. cbn [ic new_with_input]. split; [reflexivity|]. cbn [ic_index ic_file_index ic_file]. auto.
  - specialize (IH oo r1 fname idx infile).
    destruct (read_ctxs f oo r1 fname idx infile) as [[cs e] b]. exact IH.
Qed.

(* ctx_indices for any setting of --only-objects-and-arrays *)
Theorem ctx_indices_any fuel oo r fname idx infile cs e b i c :
  read_ctxs fuel oo r fname idx infile = (cs, e, b) -> nth_error cs i = Some c ->
  exists ici, ic c = Some ici /\ ic_index ici = idx + N.of_nat i /\
              ic_file_index ici = infile + N.of_nat i /\ ic_file ici = fname.
Proof.
  intros H. pose proof (read_ctxs_idx_any fuel oo r fname idx infile) as Hi. rewrite H in Hi.
  apply idx_nth. exact Hi.
Qed.

(* &index is the 0-based ordinal over all the inputs *)
Theorem ctxs_of_inputs_index : forall cf ins idx i c,
  nth_error (fst (ctxs_of_inputs cf ins idx)) i = Some c ->
  exists ici, ic c = Some ici /\ ic_index ici = idx + N.of_nat i.
Proof.
  intros cf ins. induction ins as [|[fname evs] t IH]; intros idx i c Hn.
  - cbn [ctxs_of_inputs fst] in Hn. destruct i; discriminate.
  - cbn [ctxs_of_inputs] in Hn.
    destruct (read_ctxs (input_fuel evs) (c_only_objs cf) (mk_reader evs) fname idx 0) as [[cs e] b] eqn:E.
    specialize (IH (idx + N.of_nat (length cs))).
    destruct (ctxs_of_inputs cf t (idx + N.of_nat (length cs))) as [cs2 b2]. cbn [fst] in *.
    destruct (Nat.lt_ge_cases i (length cs)) as [Hlt|Hge].
    + rewrite nth_error_app1 in Hn by exact Hlt.
      destruct (ctx_indices_any _ _ _ _ _ _ _ _ _ _ _ E Hn) as (ici & H1 & H2 & _).
      exists ici. auto.
    + rewrite nth_error_app2 in Hn by exact Hge.
      destruct (IH _ _ Hn) as (ici & H1 & H2). exists ici. split; [exact H1|]. rewrite H2. lia.
Qed.

(* the contexts of the k-th input carry its name, and the index in the file restarts at 0 *)
Theorem ctxs_of_inputs_file : forall cf a fname evs rest idx j c,
  let before := fst (ctxs_of_inputs cf a idx) in
  let mine := fst (fst (read_ctxs (input_fuel evs) (c_only_objs cf) (mk_reader evs) fname
                          (idx + N.of_nat (length before)) 0)) in
  (j < length mine)%nat ->
  nth_error (fst (ctxs_of_inputs cf (a ++ (fname, evs) :: rest) idx)) (length before + j) = Some c ->
  exists ici, ic c = Some ici /\ ic_file ici = fname /\ ic_file_index ici = N.of_nat j.
Proof.
  intros cf a fname evs rest idx j c before mine Hj Hn. subst before mine.
  rewrite ctxs_of_inputs_app in Hn.
  rewrite nth_error_app2 in Hn by lia.
  replace (length (fst (ctxs_of_inputs cf a idx)) + j - length (fst (ctxs_of_inputs cf a idx)))%nat
    with j in Hn by lia.
  cbn [ctxs_of_inputs] in Hn.
  destruct (read_ctxs (input_fuel evs) (c_only_objs cf) (mk_reader evs) fname
              (idx + N.of_nat (length (fst (ctxs_of_inputs cf a idx)))) 0) as [[cs e] b] eqn:E.
  destruct (ctxs_of_inputs cf rest
              (idx + N.of_nat (length (fst (ctxs_of_inputs cf a idx))) + N.of_nat (length cs))) as [cs2 b2].
  cbn [fst] in *.
  rewrite nth_error_app1 in Hn by exact Hj.
  destruct (ctx_indices_any _ _ _ _ _ _ _ _ _ _ _ E Hn) as (ici & H1 & _ & H3 & H4).
  exists ici. split; [exact H1|]. split; [exact H4|]. rewrite H3. apply N.add_0_l.
Qed.

Print Assumptions ctx_indices_any.
Print Assumptions ctxs_of_inputs_index.
Print Assumptions ctxs_of_inputs_file.
