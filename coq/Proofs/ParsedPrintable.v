(* ParsedPrintable.v — closing the loop between the parser and the printer: every value the parser
   can return (from ANY byte stream, malformed regions included) satisfies the structural invariant
   `parsed_ok`, and a `parsed_ok` value is `printable true` (with --utf8-strings) outright, and
   `printable false` exactly when it has no code point >= U+10000 (K1, `no_astral`).
   Non-finite doubles (K2) can NOT come out of the parser: parse_to_double rejects them, so every
   parsed value is `nums_finite` without any hypothesis.
   (History: this file first isolated the text "-0", then read as the unprintable integer NNeg 0;
   that defect has been repaired — "-0" now reads as NPos 0 — see `neg_zero_parsed`.) *)
From Coq Require Import List NArith ZArith Bool Lia Zify ZifyClasses ZifyBool ZifyInst.
From Jawk Require Import Base F64 F64Proofs Json Reader JsonParser Stream Printer Render.
From Jawk Require Import ReaderLemmas ParserProofs PrinterProofs FloatText FloatOk Go GoProofs RoundTrip.
Import ListNotations.
Local Open Scope N_scope.

#[local] Arguments N.add : simpl never.
#[local] Arguments N.mul : simpl never.
#[local] Arguments N.sub : simpl never.
#[local] Arguments N.div : simpl never.
#[local] Arguments N.modulo : simpl never.
#[local] Arguments N.eqb : simpl never.
#[local] Arguments N.ltb : simpl never.
#[local] Arguments N.leb : simpl never.
#[local] Arguments N.pow : simpl never.

(* ================================================================== *)
(* 0. a generic "everywhere in the value" predicate                    *)
(* ================================================================== *)
(* PS: every string and every key; PN: every number; PK: the key list of every object *)
Section JAll.
Variable PS : str -> Prop.
Variable PN : num -> Prop.
Variable PK : list str -> Prop.

Fixpoint jall (v : json) {struct v} : Prop :=
  match v with
  | JNull | JBool _ => True
  | JStr s => PS s
  | JNum n => PN n
  | JArr l => (fix all (l : list json) : Prop :=
                 match l with [] => True | x :: t => jall x /\ all t end) l
  | JObj m => PK (map fst m) /\
              (fix all (m : list (str * json)) : Prop :=
                 match m with
                 | [] => True
                 | kv :: t => PS (fst kv) /\ jall (snd kv) /\ all t
                 end) m
  end.

Lemma jall_arr l : jall (JArr l) <-> Forall jall l.
Proof.
  cbn [jall]. induction l as [|x t IH].
  - split; constructor.
  - split.
    + intros [H1 H2]. constructor; [exact H1|apply IH; exact H2].
    + intros H. inversion H; subst. split; [assumption|apply IH; assumption].
Qed.

Lemma jall_obj m : jall (JObj m) <->
  PK (map fst m) /\ Forall (fun kv => PS (fst kv) /\ jall (snd kv)) m.
Proof.
  cbn [jall]. apply and_iff_compat_l. induction m as [|kv t IH].
  - split; constructor.
  - split.
    + intros [H1 [H2 H3]]. constructor; [split; assumption|apply IH; exact H3].
    + intros H. inversion H as [|? ? [H1 H2] H3]; subst. split; [assumption|].
      split; [assumption|apply IH; assumption].
Qed.
End JAll.

(* two facts that hold everywhere combine pointwise *)
Lemma jall_imp2 (PS1 PS2 PS3 : str -> Prop) (PN1 PN2 PN3 : num -> Prop) (PK1 PK2 PK3 : list str -> Prop) :
  (forall s, PS1 s -> PS2 s -> PS3 s) -> (forall n, PN1 n -> PN2 n -> PN3 n) ->
  (forall k, PK1 k -> PK2 k -> PK3 k) ->
  forall v, jall PS1 PN1 PK1 v -> jall PS2 PN2 PK2 v -> jall PS3 PN3 PK3 v.
Proof.
  intros HS HN HK v.
  induction v as [| b | s | n | m IH | l IH] using json_ind'; intros H1 H2; try exact I.
  - cbn [jall] in *. auto.
  - cbn [jall] in *. auto.
  - apply jall_obj in H1. apply jall_obj in H2. apply jall_obj.
    destruct H1 as [K1 F1], H2 as [K2 F2]. split; [auto|]. clear K1 K2.
    induction m as [|kv t IHm]; [constructor|].
    inversion IH as [|? ? Hkv Ht]; subst. inversion F1 as [|? ? [A1 B1] C1]; subst.
    inversion F2 as [|? ? [A2 B2] C2]; subst.
    constructor; [split; [auto|apply Hkv; assumption]|].
    apply IHm; assumption.
  - apply jall_arr in H1. apply jall_arr in H2. apply jall_arr.
    induction l as [|x t IHl]; [constructor|].
    inversion IH as [|? ? Hx Ht]; subst. inversion H1; subst. inversion H2; subst.
    constructor; [apply Hx; assumption|apply IHl; assumption].
Qed.

Lemma jall_mono (PS1 PS2 : str -> Prop) (PN1 PN2 : num -> Prop) (PK1 PK2 : list str -> Prop) :
  (forall s, PS1 s -> PS2 s) -> (forall n, PN1 n -> PN2 n) -> (forall k, PK1 k -> PK2 k) ->
  forall v, jall PS1 PN1 PK1 v -> jall PS2 PN2 PK2 v.
Proof.
  intros HS HN HK v H. apply (jall_imp2 PS1 PS1 PS2 PN1 PN1 PN2 PK1 PK1 PK2); auto.
Qed.

(* `printable` is an instance *)
Lemma printable_jall utf8 v :
  printable utf8 v <-> jall (Forall (char_ok utf8)) num_ok (@NoDup str) v.
Proof.
  induction v as [| b | s | n | m IH | l IH] using json_ind'; try (cbn [printable jall]; tauto).
  - rewrite printable_obj, jall_obj. apply and_iff_compat_l.
    induction m as [|kv t IHm]; [split; constructor|].
    inversion IH as [|? ? Hkv Ht]; subst. specialize (IHm Ht).
    split; intros H; inversion H as [|? ? [A B] C]; subst;
      (constructor; [split; [exact A|apply Hkv; exact B]|apply IHm; exact C]).
  - rewrite printable_arr, jall_arr.
    induction l as [|x t IHl]; [split; constructor|].
    inversion IH as [|? ? Hx Ht]; subst. specialize (IHl Ht).
    split; intros H; inversion H; subst; (constructor; [apply Hx; assumption|apply IHl; assumption]).
Qed.

(* ================================================================== *)
(* 1. the predicates                                                   *)
(* ================================================================== *)
Definition scalars (s : str) : Prop := Forall (fun c => is_scalar c = true) s.
Definition finite (f : N) : Prop := exists s m e, f_decode f = FFin s m e.

(* what read_number can produce: a u64, a strictly negative i64 (the text "-0" gives NPos 0),
   or a finite 64-bit double that From<f64> leaves a float *)
Definition num_parsed (n : num) : Prop :=
  match n with
  | NPos n => n <= u64_max
  | NNeg z => (i64_min <= z < 0)%Z
  | NFlt f => f < 18446744073709551616 /\ finite f /\ num_of_f f = NFlt f
  end.

(* the structural invariant of parser results *)
Definition parsed_ok : json -> Prop := jall scalars num_parsed (@NoDup str).

Definition any_str (s : str) : Prop := True.
Definition any_num (n : num) : Prop := True.
Definition any_keys (k : list str) : Prop := True.

(* P0: the side conditions *)
Definition nums_finite : json -> Prop :=
  jall any_str (fun n => match n with NFlt f => finite f | _ => True end) any_keys.
Definition no_astral : json -> Prop :=
  jall (Forall (fun c => c < 65536)) any_num any_keys.

(* their unfolding equations *)
Lemma parsed_ok_str s : parsed_ok (JStr s) <-> scalars s.
Proof. reflexivity. Qed.
Lemma parsed_ok_num n : parsed_ok (JNum n) <-> num_parsed n.
Proof. reflexivity. Qed.
Lemma parsed_ok_arr l : parsed_ok (JArr l) <-> Forall parsed_ok l.
Proof. apply jall_arr. Qed.
Lemma parsed_ok_obj m : parsed_ok (JObj m) <->
  NoDup (map fst m) /\ Forall (fun kv => scalars (fst kv) /\ parsed_ok (snd kv)) m.
Proof. apply jall_obj. Qed.

Lemma nums_finite_num n : nums_finite (JNum n) <-> match n with NFlt f => finite f | _ => True end.
Proof. reflexivity. Qed.
Lemma nums_finite_arr l : nums_finite (JArr l) <-> Forall nums_finite l.
Proof. apply jall_arr. Qed.
Lemma nums_finite_obj m : nums_finite (JObj m) <-> Forall (fun kv => nums_finite (snd kv)) m.
Proof.
  unfold nums_finite. rewrite jall_obj. unfold any_keys, any_str. rewrite !Forall_forall.
  split; [intros [_ H] kv Hin; apply H, Hin|intros H; split; [exact I|intros kv Hin; split; [exact I|apply H, Hin]]].
Qed.

Lemma no_astral_str s : no_astral (JStr s) <-> Forall (fun c => c < 65536) s.
Proof. reflexivity. Qed.
Lemma no_astral_arr l : no_astral (JArr l) <-> Forall no_astral l.
Proof. apply jall_arr. Qed.
Lemma no_astral_obj m : no_astral (JObj m) <->
  Forall (fun kv => Forall (fun c => c < 65536) (fst kv) /\ no_astral (snd kv)) m.
Proof.
  unfold no_astral. rewrite jall_obj. unfold any_keys. tauto.
Qed.

(* the side conditions are exactly what char_ok / num_ok ask beyond the parser's guarantees *)
Lemma char_ok_true_iff c : char_ok true c <-> is_scalar c = true.
Proof. unfold char_ok. split; [tauto|]. intros H. split; [exact H|discriminate]. Qed.

Lemma char_ok_false_iff c : char_ok false c <-> is_scalar c = true /\ c < 65536.
Proof.
  unfold char_ok. split.
  - intros [H1 H2]. split; [exact H1|].
    destruct (N.ltb_spec c 65536) as [Hlt|Hge]; [exact Hlt|].
    apply H2; [reflexivity| |].
    + unfold is_esc. repeat rewrite orb_false_iff. repeat split; apply N.eqb_neq; lia.
    + unfold is_plain. apply andb_false_iff. right. apply N.leb_gt. lia.
  - intros [H1 H2]. split; [exact H1|]. intros _ _ _. exact H2.
Qed.

Lemma num_parsed_ok n : num_parsed n -> num_ok n.
Proof.
  destruct n as [n|z|f]; cbn [num_parsed num_ok]; unfold u64_max, i64_min.
  - intros H. exact H.
  - intros H. exact H.
  - intros (Hlt & (s & m & e & Hdec) & Hnf). exact (flt_okb_finite f s m e Hlt Hdec Hnf).
Qed.

Theorem parsed_ok_finite v : parsed_ok v -> nums_finite v.
Proof.
  apply jall_mono; try (intros; exact I).
  intros [n|z|f]; [intros; exact I|intros; exact I|]. intros (_ & H & _). exact H.
Qed.

(* with --utf8-strings every parser result is printable *)
Theorem parsed_ok_printable_utf8 v : parsed_ok v -> printable true v.
Proof.
  intros H. apply printable_jall. revert v H. apply jall_mono.
  - intros s Hs. unfold scalars in Hs. rewrite Forall_forall in *. intros c Hc.
    apply char_ok_true_iff. apply Hs, Hc.
  - apply num_parsed_ok.
  - intros k Hk. exact Hk.
Qed.

Theorem parsed_ok_printable_ascii v : parsed_ok v -> no_astral v -> printable false v.
Proof.
  intros H1 H2. apply printable_jall. revert v H1 H2. apply jall_imp2.
  - intros s Hs Ha. unfold scalars in Hs. rewrite Forall_forall in *. intros c Hc.
    apply char_ok_false_iff. split; [apply Hs, Hc|apply Ha, Hc].
  - intros n Hn _. apply num_parsed_ok, Hn.
  - intros k Hk _. exact Hk.
Qed.

(* the side condition is also necessary: on parser results it is exactly ASCII printability *)
Lemma printable_no_astral v : printable false v -> no_astral v.
Proof.
  intros H. apply printable_jall in H. revert v H. apply jall_mono; try (intros; exact I).
  intros s Hs. rewrite Forall_forall in *. intros c Hc. exact (proj2 (proj1 (char_ok_false_iff c) (Hs c Hc))).
Qed.

Theorem parsed_printable_ascii_iff v : parsed_ok v -> (printable false v <-> no_astral v).
Proof.
  intros H. split; [apply printable_no_astral|apply parsed_ok_printable_ascii, H].
Qed.

(* ================================================================== *)
(* 2. strings: whatever from_utf8 accepts is a list of scalar values   *)
(* ================================================================== *)
Lemma opt_cons_some (c : N) (o : option str) s :
  option_map (cons c) o = Some s -> exists s', o = Some s' /\ s = c :: s'.
Proof. destruct o as [s'|]; [|discriminate]. cbn [option_map]. intros H. injection H as <-. eauto. Qed.

Lemma utf8_decode_scalars_len : forall n bs s, (length bs <= n)%nat ->
  utf8_decode bs = Some s -> scalars s.
Proof.
  induction n as [|n IH]; intros bs s Hlen H.
  - destruct bs as [|b0 t]; [|cbn [length] in Hlen; lia]. cbn [utf8_decode] in H.
    injection H as <-. constructor.
  - destruct bs as [|b0 t]; [cbn [utf8_decode] in H; injection H as <-; constructor|].
    cbn [length] in Hlen. rewrite utf8_decode_cons in H.
    destruct (N.ltb_spec b0 128) as [L1|L1].
    { apply opt_cons_some in H as (s' & E & ->).
      constructor; [unfold is_scalar; lia|apply (IH t); [lia|exact E]]. }
    destruct (N.ltb_spec b0 194) as [L2|L2]; [discriminate|].
    destruct (N.ltb_spec b0 224) as [L3|L3].
    { destruct t as [|b1 t']; [discriminate|]. cbn [length] in Hlen.
      destruct (is_cont b1) eqn:C1; [|discriminate].
      apply opt_cons_some in H as (s' & E & ->). unfold is_cont in C1.
      constructor; [unfold is_scalar; lia|apply (IH t'); [lia|exact E]]. }
    destruct (N.ltb_spec b0 240) as [L4|L4].
    { destruct t as [|b1 [|b2 t']]; try discriminate. cbn [length] in Hlen. cbv zeta in H.
      destruct (is_cont b1 && is_cont b2 &&
                (2048 <=? (b0 - 224) * 4096 + (b1 - 128) * 64 + (b2 - 128)) &&
                is_scalar ((b0 - 224) * 4096 + (b1 - 128) * 64 + (b2 - 128))) eqn:C; [|discriminate].
      apply opt_cons_some in H as (s' & E & ->).
      apply andb_true_iff in C as [_ C].
      constructor; [exact C|apply (IH t'); [lia|exact E]]. }
    destruct (N.ltb_spec b0 245) as [L5|L5]; [|discriminate].
    destruct t as [|b1 [|b2 [|b3 t']]]; try discriminate. cbn [length] in Hlen. cbv zeta in H.
    match type of H with (if ?c then _ else _) = _ => destruct c eqn:C; [|discriminate] end.
    apply opt_cons_some in H as (s' & E & ->).
    apply andb_true_iff in C as [C C2]. apply andb_true_iff in C as [_ C1].
    constructor; [unfold is_scalar; lia|apply (IH t'); [lia|exact E]].
Qed.

Lemma utf8_decode_scalars bs s : utf8_decode bs = Some s -> scalars s.
Proof. apply (utf8_decode_scalars_len (length bs)). lia. Qed.

Lemma read_string_f_ok : forall fuel acc r v r',
  read_string_f fuel acc r = (POk v, r') -> exists s, v = JStr s /\ scalars s.
Proof.
  induction fuel as [|f IH]; intros acc r v r' H; [discriminate|].
  cbn [read_string_f] in H.
  destruct (next r) as [[c|] r1]; [|discriminate].
  destruct (c =? 34).
  { destruct (utf8_decode acc) as [s|] eqn:E; [|discriminate].
    injection H as <- _. exists s. split; [reflexivity|exact (utf8_decode_scalars acc s E)]. }
  destruct (c =? 92); [|exact (IH _ _ _ _ H)].
  destruct (next r1) as [[e|] r2]; [|discriminate].
  destruct (e =? 117).
  - destruct (read_hex4 4 0 r2) as [[u|] r3]; [|discriminate].
    destruct (is_scalar u); [exact (IH _ _ _ _ H)|discriminate].
  - destruct (assoc_N e escape_table) as [b|]; [exact (IH _ _ _ _ H)|discriminate].
Qed.

Lemma read_string_ok r v r' : read_string r = (POk v, r') -> parsed_ok v.
Proof.
  unfold read_string. intros H. apply read_string_f_ok in H as (s & -> & Hs). exact Hs.
Qed.

(* ================================================================== *)
(* 3. numbers                                                          *)
(* ================================================================== *)
Lemma with_sign_lt neg mag : (0 <= mag <= inf_bits)%Z -> with_sign neg mag < 18446744073709551616.
Proof. unfold with_sign, inf_bits, p63. intros H. destruct neg; lia. Qed.

Lemma f_of_ratio_lt neg n d : (0 < n)%Z -> (0 < d)%Z -> f_of_ratio neg n d < 18446744073709551616.
Proof. intros Hn Hd. unfold f_of_ratio. apply with_sign_lt. apply round_mag_range; assumption. Qed.

(* str::parse::<f64> returns a 64-bit pattern *)
Lemma dec2flt_lt txt f : dec2flt txt = Some f -> f < 18446744073709551616.
Proof.
  unfold dec2flt. destruct (dec_split txt) as [d|]; [|discriminate].
  destruct (negb (dec_valid d)); [discriminate|].
  cbv zeta.
  match goal with |- context [(?e - Z.of_nat (length (d_frac d)))%Z] => generalize e end.
  intros ex.
  set (m := Z.of_N (N_of_digits (d_int d ++ d_frac d))).
  set (adj := (ex - Z.of_nat (length (d_frac d)))%Z).
  assert (Hz : (0 <= 0 <= inf_bits)%Z) by (unfold inf_bits; lia).
  assert (Hi : (0 <= inf_bits <= inf_bits)%Z) by (unfold inf_bits; lia).
  destruct (Z.eqb_spec m 0) as [Hm|Hm].
  { intros H; injection H as <-. apply with_sign_lt, Hz. }
  assert (Hmp : (0 < m)%Z) by (unfold m in *; lia).
  destruct (310 <? adj)%Z.
  { intros H; injection H as <-. apply with_sign_lt, Hi. }
  destruct (adj + Z.of_nat (length (d_int d ++ d_frac d)) <? -330)%Z.
  { intros H; injection H as <-. apply with_sign_lt, Hz. }
  destruct (Z.leb_spec 0 adj) as [Ha|Ha]; intros H; injection H as <-; apply f_of_ratio_lt; try lia;
    try (apply Z.mul_pos_pos; [exact Hmp|apply pow10_pos; exact Ha]); try (apply pow10_pos; lia).
Qed.

Lemma num_of_f_parsed f : f < 18446744073709551616 -> finite f -> num_parsed (num_of_f f).
Proof.
  intros Hlt (s & m & e & Hdec).
  pose proof (num_of_f_ok f s m e Hlt Hdec) as Hok.
  destruct (num_of_f f) as [n|z|g] eqn:E; cbn [num_parsed num_ok] in *; unfold u64_max, i64_min.
  - exact Hok.
  - lia.
  - assert (g = f).
    { unfold num_of_f in E. destruct (f_integral f) as [v|]; [|congruence].
      destruct (f_is_neg_strict f).
      - destruct (- p63 <? v)%Z; congruence.
      - destruct (v <? p64)%Z; congruence. }
    subst g. split; [exact Hlt|]. split; [exists s, m, e; exact Hdec|exact E].
Qed.

Lemma parse_to_double_ok txt v : parse_to_double txt = POk v -> exists n, v = JNum n /\ num_parsed n.
Proof.
  unfold parse_to_double. destruct (dec2flt txt) as [f|] eqn:E; [|discriminate].
  unfold f_is_finite. destruct (f_decode f) as [| |s m e] eqn:D; try discriminate.
  intros H; injection H as <-. exists (num_of_f f). split; [reflexivity|].
  apply num_of_f_parsed; [exact (dec2flt_lt txt f E)|exists s, m, e; exact D].
Qed.

Lemma classify_number_ok neg dbl txt v :
  classify_number neg dbl txt = POk v -> exists n, v = JNum n /\ num_parsed n.
Proof.
  unfold classify_number. destruct dbl; [apply parse_to_double_ok|].
  destruct neg.
  - destruct txt as [|c ds]; [discriminate|]. destruct ds as [|d ds']; [discriminate|].
    cbv zeta. destruct (Z.eqb_spec (- Z.of_N (N_of_digits (d :: ds'))) 0) as [Hz|Hnz].
    { intros H; injection H as <-. eexists. split; [reflexivity|]. cbn [num_parsed]. unfold u64_max. lia. }
    destruct (Z.leb_spec i64_min (- Z.of_N (N_of_digits (d :: ds')))) as [Hle|Hgt];
      [|apply parse_to_double_ok].
    intros H; injection H as <-. eexists. split; [reflexivity|]. cbn [num_parsed]. lia.
  - destruct txt as [|c ds]; [discriminate|].
    destruct (N.leb_spec (N_of_digits (c :: ds)) u64_max) as [Hle|Hgt]; [|apply parse_to_double_ok].
    intros H; injection H as <-. eexists. split; [reflexivity|]. exact Hle.
Qed.

(* read_number either fails or classifies some text *)
Lemma rn_exp_cls neg dbl1 chars r : exists d c r', rn_exp neg dbl1 chars r = (classify_number neg d c, r').
Proof.
  unfold rn_exp. destruct (peek r) as [c r1].
  match goal with |- context [match ?e with pair _ _ => _ end] => destruct e as [[dbl2 chars'] r2] end.
  eauto.
Qed.

Lemma rn_frac_cls neg chars r : exists d c r', rn_frac neg chars r = (classify_number neg d c, r').
Proof.
  unfold rn_frac. destruct (peek r) as [c r1].
  match goal with |- context [match ?e with pair _ _ => _ end] => destruct e as [[dbl1 chars'] r2] end.
  apply rn_exp_cls.
Qed.

Lemma rn_tail_cls neg chars r : exists d c r', rn_tail neg chars r = (classify_number neg d c, r').
Proof. unfold rn_tail. destruct (read_digits chars r) as [chars' r1]. apply rn_frac_cls. Qed.

Lemma read_number_ok r v r' : read_number r = (POk v, r') -> exists n, v = JNum n /\ num_parsed n.
Proof.
  rewrite read_number_unf. destruct (peek r) as [c r1]. cbv zeta.
  destruct (if is_b c 45 then next r1 else (c, r1)) as [am r2].
  destruct (if is_b c 45 then am else Some 0) as [x|]; [|discriminate].
  destruct (rn_tail_cls (is_b c 45) (if is_b c 45 then [45] else []) r2) as (d & cs & r3 & ->).
  intros H. injection H as H _. exact (classify_number_ok _ _ _ _ H).
Qed.

(* ================================================================== *)
(* 4. objects: IndexMap::insert keeps the keys distinct                *)
(* ================================================================== *)
Lemma obj_insert_keys_in k v m x :
  In x (map fst (obj_insert k v m)) -> x = k \/ In x (map fst m).
Proof.
  induction m as [|[k' v'] t IH]; cbn [obj_insert map fst In].
  - intros [H|[]]. left. symmetry. exact H.
  - destruct (str_eqb k k') eqn:E; cbn [map fst In].
    + intros H. right. exact H.
    + intros [H|H]; [right; left; exact H|]. destruct (IH H) as [H'|H']; [left; exact H'|right; right; exact H'].
Qed.

Lemma obj_insert_nodup k v m : NoDup (map fst m) -> NoDup (map fst (obj_insert k v m)).
Proof.
  induction m as [|[k' v'] t IH]; cbn [obj_insert map fst]; intros H.
  - constructor; [intros []|constructor].
  - inversion H as [|? ? Hni Hnd]; subst.
    destruct (str_eqb k k') eqn:E; cbn [map fst].
    + constructor; assumption.
    + constructor; [|apply IH; exact Hnd].
      intros Hin. apply obj_insert_keys_in in Hin as [->|Hin]; [|exact (Hni Hin)].
      assert (T : str_eqb k k = true) by (apply str_eqb_eq; reflexivity). congruence.
Qed.

Lemma obj_insert_forall (Q : str -> json -> Prop) k v m :
  Q k v -> Forall (fun kv => Q (fst kv) (snd kv)) m ->
  Forall (fun kv => Q (fst kv) (snd kv)) (obj_insert k v m).
Proof.
  intros Hq. induction m as [|[k' v'] t IH]; cbn [obj_insert]; intros H.
  - constructor; [exact Hq|constructor].
  - pose proof (Forall_inv H) as Hh. pose proof (Forall_inv_tail H) as Ht.
    destruct (str_eqb k k') eqn:E.
    + apply str_eqb_eq in E. subst k'. constructor; [exact Hq|exact Ht].
    + constructor; [exact Hh|apply IH; exact Ht].
Qed.

(* ================================================================== *)
(* 5. P1: every value the parser returns is parsed_ok                  *)
(* ================================================================== *)
Definition members_ok (acc : list (str * json)) : Prop :=
  NoDup (map fst acc) /\ Forall (fun kv => scalars (fst kv) /\ parsed_ok (snd kv)) acc.

Definition I_value (fuel : nat) : Prop :=
  forall r v r', parse_value fuel r = (POk v, r') -> parsed_ok v.
Definition I_items (fuel : nat) : Prop :=
  forall acc r v r', parse_items fuel acc r = (POk v, r') -> Forall parsed_ok acc -> parsed_ok v.
Definition I_members (fuel : nat) : Prop :=
  forall acc r v r', parse_members fuel acc r = (POk v, r') -> members_ok acc -> parsed_ok v.

Lemma I_value_step f : I_items f -> I_members f -> I_value (S f).
Proof.
  intros Hi Hm r v r'. rewrite parse_value_S. cbv zeta.
  destruct (peek (eat_whitespace r)) as [[b|] r1]; [|discriminate].
  destruct (b =? 116).
  { destruct (read_word [114; 117; 101] r1) as [[|] r2]; [|discriminate]. intros H; injection H as <- _. exact I. }
  destruct (b =? 102).
  { destruct (read_word [97; 108; 115; 101] r1) as [[|] r2]; [|discriminate]. intros H; injection H as <- _. exact I. }
  destruct (b =? 110).
  { destruct (read_word [117; 108; 108] r1) as [[|] r2]; [|discriminate]. intros H; injection H as <- _. exact I. }
  destruct (b =? 34); [apply read_string_ok|].
  destruct ((b =? 45) || is_digit b).
  { intros H. apply read_number_ok in H as (n & -> & Hn). exact Hn. }
  destruct (b =? 91).
  { destruct (peek (eat_whitespace (snd (next r1)))) as [c r2].
    destruct (is_b c 93).
    - intros H; injection H as <- _. exact I.
    - intros H. apply (Hi _ _ _ _ H). constructor. }
  destruct (b =? 123); [|discriminate].
  destruct (peek (eat_whitespace (snd (next r1)))) as [c r2].
  destruct (is_b c 125).
  - intros H; injection H as <- _. apply parsed_ok_obj. split; constructor.
  - intros H. apply (Hm _ _ _ _ H). split; constructor.
Qed.

Lemma I_items_step f : I_value f -> I_items f -> I_items (S f).
Proof.
  intros Hv Hi acc r v r'. rewrite parse_items_S.
  destruct (parse_value f r) as [[x| | |] r1] eqn:E; try discriminate.
  cbv zeta. destruct (peek (eat_whitespace r1)) as [[c|] r2]; [|discriminate].
  assert (Hx : parsed_ok x) by exact (Hv _ _ _ E).
  destruct (c =? 93).
  { intros H Hacc; injection H as <- _. apply parsed_ok_arr. apply Forall_app. split; [exact Hacc|].
    constructor; [exact Hx|constructor]. }
  destruct (c =? 44); [|discriminate].
  intros H Hacc. apply (Hi _ _ _ _ H). apply Forall_app. split; [exact Hacc|].
  constructor; [exact Hx|constructor].
Qed.

Lemma I_members_step f : I_value f -> I_members f -> I_members (S f).
Proof.
  intros Hv Hm acc r v r'. rewrite parse_members_S.
  destruct (parse_value f r) as [[kv| | |] r1] eqn:E1; try discriminate.
  destruct kv as [| b | k | n | m | l]; try discriminate.
  assert (Hk : scalars k) by exact (Hv _ _ _ E1).
  cbv zeta. destruct (peek (eat_whitespace r1)) as [c r2].
  destruct (negb (is_b c 58)); [discriminate|].
  destruct (parse_value f (snd (next r2))) as [[x| | |] r3] eqn:E2; try discriminate.
  assert (Hx : parsed_ok x) by exact (Hv _ _ _ E2).
  destruct (peek (eat_whitespace r3)) as [[c'|] r4]; [|discriminate].
  assert (Hins : members_ok acc -> members_ok (obj_insert k x acc)).
  { intros [Hnd Hall]. split; [apply obj_insert_nodup; exact Hnd|].
    apply (obj_insert_forall (fun k v => scalars k /\ parsed_ok v)); [split; assumption|exact Hall]. }
  destruct (c' =? 125).
  { intros H Hacc; injection H as <- _. apply parsed_ok_obj. exact (Hins Hacc). }
  destruct (c' =? 44); [|discriminate].
  intros H Hacc. exact (Hm _ _ _ _ H (Hins Hacc)).
Qed.

Lemma parse_inv : forall fuel, I_value fuel /\ I_items fuel /\ I_members fuel.
Proof.
  induction fuel as [|f (Hv & Hi & Hm)].
  - split; [|split]; red; intros; discriminate.
  - split; [|split].
    + apply I_value_step; assumption.
    + apply I_items_step; assumption.
    + apply I_members_step; assumption.
Qed.

(* P1 *)
Theorem parse_value_parsed_ok : forall fuel r v r', parse_value fuel r = (POk v, r') -> parsed_ok v.
Proof. intros fuel. exact (proj1 (parse_inv fuel)). Qed.

Theorem parse_items_parsed_ok : forall fuel acc r v r',
  parse_items fuel acc r = (POk v, r') -> Forall parsed_ok acc -> parsed_ok v.
Proof. intros fuel. exact (proj1 (proj2 (parse_inv fuel))). Qed.

Theorem parse_members_parsed_ok : forall fuel acc r v r',
  parse_members fuel acc r = (POk v, r') -> members_ok acc -> parsed_ok v.
Proof. intros fuel. exact (proj2 (proj2 (parse_inv fuel))). Qed.

Theorem next_json_value_parsed_ok : forall r v r', next_json_value r = (POk v, r') -> parsed_ok v.
Proof. intros r. unfold next_json_value. apply parse_value_parsed_ok. Qed.

(* ================================================================== *)
(* 6. P2: the read loop, on ANY byte stream                            *)
(* ================================================================== *)
Lemma read_all_parsed_ok : forall fuel r vs e, read_all fuel r = (vs, e) -> Forall parsed_ok vs.
Proof.
  induction fuel as [|f IH]; intros r vs e H; cbn [read_all] in H.
  - injection H as <- _. constructor.
  - destruct (next_json_value r) as [[v| | |] r1] eqn:E.
    + destruct (read_all f r1) as [vs1 e1] eqn:R. injection H as <- _.
      constructor; [exact (next_json_value_parsed_ok _ _ _ E)|exact (IH _ _ _ R)].
    + injection H as <- _. constructor.
    + destruct (read_all f r1) as [vs1 e1] eqn:R. injection H as <- _. exact (IH _ _ _ R).
    + injection H as <- _. constructor.
Qed.

Theorem values_parsed_ok : forall bs vs n, values_of_bytes bs = (vs, n) -> Forall parsed_ok vs.
Proof. intros bs vs n. unfold values_of_bytes. apply read_all_parsed_ok. Qed.

(* K2 cannot enter through the input: every number of every parsed value is finite *)
Theorem values_nums_finite : forall bs vs n, values_of_bytes bs = (vs, n) -> Forall nums_finite vs.
Proof.
  intros bs vs n H. apply values_parsed_ok in H. rewrite Forall_forall in *.
  intros v Hv. apply parsed_ok_finite, H, Hv.
Qed.

Theorem values_printable_utf8 : forall bs vs n, values_of_bytes bs = (vs, n) ->
  Forall (printable true) vs.
Proof.
  intros bs vs n H. apply values_parsed_ok in H. rewrite Forall_forall in *.
  intros v Hv. apply parsed_ok_printable_utf8, H, Hv.
Qed.

Theorem values_printable_ascii : forall bs vs n, values_of_bytes bs = (vs, n) ->
  Forall no_astral vs -> Forall (printable false) vs.
Proof.
  intros bs vs n H Ha. apply values_parsed_ok in H. rewrite Forall_forall in *.
  intros v Hv. apply parsed_ok_printable_ascii; [apply H, Hv|apply Ha, Hv].
Qed.

(* the form asked for in the plan *)
Corollary parse_value_printable : forall fuel r v r', parse_value fuel r = (POk v, r') ->
  nums_finite v /\ printable true v /\ (printable false v <-> no_astral v).
Proof.
  intros fuel r v r' H. apply parse_value_parsed_ok in H. split; [|split].
  - apply parsed_ok_finite, H.
  - apply parsed_ok_printable_utf8, H.
  - apply parsed_printable_ascii_iff, H.
Qed.

(* ================================================================== *)
(* 7. P3: composing with RoundTrip.v                                   *)
(* ================================================================== *)
Lemma values_fst bs : values_of_bytes bs = (fst (values_of_bytes bs), snd (values_of_bytes bs)).
Proof. destruct (values_of_bytes bs); reflexivity. Qed.

(* whatever jawk read — from ANY byte stream — printed with --utf8-strings in any style, reads
   back as exactly the same values, without errors *)
Theorem parsed_roundtrip : forall st bs, let vs := fst (values_of_bytes bs) in
  values_of_bytes (concat (map (fun v => print_json st true v ++ [10]) vs)) = (vs, 0).
Proof.
  intros st bs vs. apply print_parse_roundtrip.
  exact (values_printable_utf8 bs vs _ (values_fst bs)).
Qed.

Theorem parsed_roundtrip_ascii : forall st bs, let vs := fst (values_of_bytes bs) in
  Forall no_astral vs ->
  values_of_bytes (concat (map (fun v => print_json st false v ++ [10]) vs)) = (vs, 0).
Proof.
  intros st bs vs Ha. apply print_parse_roundtrip.
  exact (values_printable_ascii bs vs _ (values_fst bs) Ha).
Qed.

(* the default run (one line, ASCII) on the printed rows of whatever was read is a fixpoint *)
Theorem parsed_fixpoint : forall bs, let vs := fst (values_of_bytes bs) in
  Forall no_astral vs ->
  let out := concat (map (fun v => print_json OneLine false v ++ [10]) vs) in
  let g := go default_cfg [(None, map EB out)] true in
  g_result g = GOk /\
  concat (map (fun e => match e with OOut b => b | OErr _ => [] end) (g_events g)) = out.
Proof.
  intros bs vs Ha. apply go_fixpoint.
  exact (values_printable_ascii bs vs _ (values_fst bs) Ha).
Qed.

(* ================================================================== *)
(* 8. the excluded class is real; samples                              *)
(* ================================================================== *)
(* repaired defect: the integer texts "-0" and "-00" read as the integer 0 (they used to read as
   NNeg 0, which prints as "0" and reads back as NPos 0) *)
Example neg_zero_parsed :
  values_of_bytes [45; 48] = ([JNum (NPos 0)], 0) /\ values_of_bytes [45; 48; 48] = ([JNum (NPos 0)], 0).
Proof. vm_compute. split; reflexivity. Qed.

(* K1: U+10000 as raw UTF-8 (F0 90 80 80) is accepted and is not printable in ASCII mode *)
Lemma astral_parsed : values_of_bytes [34; 240; 144; 128; 128; 34] = ([JStr [65536]], 0).
Proof. vm_compute. reflexivity. Qed.

Lemma astral_printable_refuted :
  ~ (forall bs vs n, values_of_bytes bs = (vs, n) -> Forall (printable false) vs).
Proof.
  intros H. specialize (H _ _ _ astral_parsed).
  inversion H as [|? ? Hp _]; subst. cbn [printable] in Hp.
  inversion Hp as [|? ? Hc _]; subst. apply char_ok_false_iff in Hc. lia.
Qed.

Lemma astral_roundtrip_refuted :
  values_of_bytes (print_json OneLine false (JStr [65536]) ++ [10]) = ([JStr [4096; 48]], 0).
Proof. vm_compute. reflexivity. Qed.

(* so the ASCII round trip of parsed values does need `no_astral` *)
Lemma parsed_roundtrip_ascii_unconditional_refuted :
  ~ (forall bs, let vs := fst (values_of_bytes bs) in
       values_of_bytes (concat (map (fun v => print_json OneLine false v ++ [10]) vs)) = (vs, 0)).
Proof.
  intros H. specialize (H [34; 240; 144; 128; 128; 34]). rewrite astral_parsed in H.
  cbn [fst map concat] in H. rewrite app_nil_r in H.
  rewrite astral_roundtrip_refuted in H. discriminate.
Qed.

(* what the parser refuses (so these never reach the printer): non-finite doubles, lone or paired
   surrogate escapes, invalid raw UTF-8; and what it normalises: duplicate keys, integers beyond
   u64 / i64 *)
Example parser_samples :
  (* 1e999 *)                 values_of_bytes [49; 101; 57; 57; 57] = ([], 1) /\
  (* "\ud800" *)              fst (values_of_bytes [34; 92; 117; 100; 56; 48; 48; 34]) = [JNum (NPos 0)] /\
  (* raw FF in a string *)    values_of_bytes [34; 255; 34] = ([], 1) /\
  (* raw ED A0 80 (U+D800) *) values_of_bytes [34; 237; 160; 128; 34] = ([], 1) /\
  (* {"a":1,"a":2} *)         values_of_bytes [123; 34; 97; 34; 58; 49; 44; 34; 97; 34; 58; 50; 125]
                                = ([JObj [([97], JNum (NPos 2))]], 0) /\
  (* 18446744073709551616 *)  values_of_bytes [49; 56; 52; 52; 54; 55; 52; 52; 48; 55; 51; 55; 48; 57; 53; 53; 49; 54; 49; 54]
                                = ([JNum (NFlt 4895412794951729152)], 0) /\
  (* -9223372036854775809 *)  values_of_bytes [45; 57; 50; 50; 51; 51; 55; 50; 48; 51; 54; 56; 53; 52; 55; 55; 53; 56; 48; 57]
                                = ([JNum (NFlt 14114281232179134464)], 0) /\
  (* -9223372036854775808 *)  values_of_bytes [45; 57; 50; 50; 51; 51; 55; 50; 48; 51; 54; 56; 53; 52; 55; 55; 53; 56; 48; 56]
                                = ([JNum (NNeg (-9223372036854775808))], 0) /\
  (* -0.0 *)                  values_of_bytes [45; 48; 46; 48] = ([JNum (NPos 0)], 0).
Proof. vm_compute. repeat split; reflexivity. Qed.

Print Assumptions parse_value_parsed_ok.
Print Assumptions parse_value_printable.
Print Assumptions values_parsed_ok.
Print Assumptions values_nums_finite.
Print Assumptions values_printable_utf8.
Print Assumptions values_printable_ascii.
Print Assumptions parsed_ok_printable_utf8.
Print Assumptions parsed_printable_ascii_iff.
Print Assumptions parsed_roundtrip.
Print Assumptions parsed_roundtrip_ascii.
Print Assumptions parsed_fixpoint.
Print Assumptions astral_printable_refuted.
Print Assumptions parsed_roundtrip_ascii_unconditional_refuted.
