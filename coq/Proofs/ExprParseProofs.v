From Jawk Require Import Base.
