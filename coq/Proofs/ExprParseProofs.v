(* ExprParseProofs.v — property C13, reader side: the expression reader maps every admissible
   spelling of an expression (Spec/ShowExpr.v) to the syntax tree the spelling denotes; hence
   aliases, separators and the dot sugar are invisible after reading.  Table facts about the
   generated name table.  No axioms. *)
From Coq Require Import List NArith ZArith Bool Lia.
From Jawk Require Import Base F64 Json Reader JsonParser Ctx Printer Fn Expr Chain ExprParser.
From Jawk Require Gen.FnTable.
From Jawk Require Import Render ShowExpr ReaderLemmas ParserProofs.
Import ListNotations.
Local Open Scope N_scope.

#[local] Arguments N.add : simpl never.
#[local] Arguments N.mul : simpl never.
#[local] Arguments N.sub : simpl never.
#[local] Arguments N.div : simpl never.
#[local] Arguments N.modulo : simpl never.
#[local] Arguments N.eqb : simpl never.
#[local] Arguments N.ltb : simpl never.
#[local] Arguments N.leb : simpl never.

(* decide closed byte tests *)
Ltac ground_mem :=
  repeat match goal with
  | |- context [mem_N ?a ?l] =>
      let v := eval vm_compute in (mem_N a l) in
      match v with
      | true => change (mem_N a l) with true
      | false => change (mem_N a l) with false
      end
  end.

(* ================= the reader is "synchronised" after every operation ================= *)
(* the current byte is the first unread byte (Sorter::from_str skips the current byte) *)
Definition good (r : reader) : Prop := rd_ok r /\ cur r = hd_error (view r).

Lemma next_good r : rd_ok r -> good (snd (next r)).
Proof.
  destruct r as [c e rs ln cl pl i]; unfold good, rd_ok, view, next; cbn.
  intros [Hok Hb]. destruct e; cbn.
  - destruct (Hok eq_refl) as [-> ->]. cbn. repeat split; auto.
  - destruct rs as [|[b|] rs]; cbn in *.
    + repeat split; auto.
    + injection Hb as Hb. repeat split; auto; discriminate.
    + repeat split; auto.
Qed.

Lemma peek_good r : rd_ok r -> good (snd (peek r)).
Proof.
  intros Hok. destruct (peek_spec r Hok) as (r' & -> & Hv & Hok' & Hc). cbn [snd].
  split; [assumption|]. rewrite Hv. assumption.
Qed.

Lemma eat_ws_good fuel : forall r, good r -> good (eat_ws fuel r).
Proof.
  induction fuel as [|f IH]; intros r G; [exact G|]. cbn [eat_ws].
  pose proof (peek_good r (proj1 G)) as Gp.
  destruct (peek r) as [[b|] r1]; cbn [snd] in Gp; [|exact Gp].
  destruct (is_ws b); [|exact Gp]. apply IH. apply next_good. exact (proj1 Gp).
Qed.

Lemma eat_whitespace_good r : good r -> good (eat_whitespace r).
Proof. apply eat_ws_good. Qed.

Lemma read_digits_f_good fuel : forall acc r, good r -> good (snd (read_digits_f fuel acc r)).
Proof.
  induction fuel as [|f IH]; intros acc r G; [exact G|]. cbn [read_digits_f].
  pose proof (peek_good r (proj1 G)) as Gp.
  destruct (peek r) as [[b|] r1]; cbn [snd] in Gp |- *; [|exact Gp].
  destruct (is_digit b); [|exact Gp]. apply IH. apply next_good. exact (proj1 Gp).
Qed.

Lemma read_digits_good acc r : good r -> good (snd (read_digits acc r)).
Proof. apply read_digits_f_good. Qed.

Lemma read_word_good w : forall r, rd_ok r -> good (snd (read_word w r)).
Proof.
  induction w as [|a w IH]; intros r H; cbn [read_word].
  - apply next_good; assumption.
  - pose proof (next_good r H) as G. destruct (next r) as [[c|] r1]; cbn [snd] in *; [|exact G].
    destruct (c =? a); [apply IH; exact (proj1 G)|exact G].
Qed.

Lemma read_hex4_good n : forall acc r, good r -> good (snd (read_hex4 n acc r)).
Proof.
  induction n as [|n IH]; intros acc r G; [exact G|]. cbn [read_hex4].
  pose proof (next_good r (proj1 G)) as G1. destruct (next r) as [[c|] r1]; cbn [snd] in *; [|exact G1].
  destruct (hex_val c); [apply IH; exact G1|exact G1].
Qed.

Lemma read_string_f_good fuel : forall acc r, good r -> good (snd (read_string_f fuel acc r)).
Proof.
  induction fuel as [|f IH]; intros acc r G; [exact G|]. cbn [read_string_f].
  pose proof (next_good r (proj1 G)) as G1. destruct (next r) as [[c|] r1]; cbn [snd] in *; [|exact G1].
  destruct (c =? 34).
  - pose proof (next_good r1 (proj1 G1)) as G2. destruct (utf8_decode acc); exact G2.
  - destruct (c =? 92); [|apply IH; exact G1].
    pose proof (next_good r1 (proj1 G1)) as G2.
    destruct (next r1) as [[e|] r2]; cbn [snd] in *; [|exact G2].
    destruct (e =? 117).
    + pose proof (read_hex4_good 4 0 r2 G2) as G3.
      destruct (read_hex4 4 0 r2) as [[u|] r3]; cbn [snd] in *; [|exact G3].
      destruct (is_scalar u); [apply IH; exact G3|exact G3].
    + destruct (assoc_N e escape_table); [apply IH; exact G2|exact G2].
Qed.

Lemma rn_exp_good neg dbl chars r : good r -> good (snd (rn_exp neg dbl chars r)).
Proof.
  intros G. unfold rn_exp. pose proof (peek_good r (proj1 G)) as G1.
  destruct (peek r) as [[b|] r1]; cbn [snd] in *; [|exact G1].
  destruct (is_exp_marker b); [|exact G1].
  pose proof (next_good r1 (proj1 G1)) as G2.
  pose proof (peek_good _ (proj1 G2)) as G3.
  destruct (peek (snd (next r1))) as [c2 r3]; cbn [snd] in *.
  pose proof (next_good r3 (proj1 G3)) as G4.
  destruct (is_b c2 45); [|destruct (is_b c2 43)];
    match goal with |- context [read_digits ?a ?x] =>
      let H := fresh in
      assert (H : good (snd (read_digits a x))) by (apply read_digits_good; assumption);
      destruct (read_digits a x); exact H end.
Qed.

Lemma rn_frac_good neg chars r : good r -> good (snd (rn_frac neg chars r)).
Proof.
  intros G. unfold rn_frac. pose proof (peek_good r (proj1 G)) as G1.
  destruct (peek r) as [c r1]; cbn [snd] in *.
  destruct (is_b c 46); [|apply rn_exp_good; exact G1].
  pose proof (next_good r1 (proj1 G1)) as G2.
  pose proof (read_digits_good (chars ++ [46]) _ G2) as G3.
  destruct (read_digits (chars ++ [46]) (snd (next r1))) as [ch r2]; cbn [snd] in *.
  apply rn_exp_good; exact G3.
Qed.

Lemma read_number_good r : good r -> good (snd (read_number r)).
Proof.
  intros G. rewrite read_number_unf. pose proof (peek_good r (proj1 G)) as G1.
  destruct (peek r) as [c r1]; cbn [snd] in *. cbv zeta.
  assert (T : forall neg chars r, good r -> good (snd (rn_tail neg chars r))).
  { intros neg chars r0 G0. unfold rn_tail. pose proof (read_digits_good chars r0 G0) as G3.
    destruct (read_digits chars r0) as [ch r2]; cbn [snd] in *. apply rn_frac_good; exact G3. }
  destruct (is_b c 45).
  - pose proof (next_good r1 (proj1 G1)) as G2. destruct (next r1) as [[a|] r2]; cbn [snd] in *.
    + apply T; exact G2.
    + exact G2.
  - apply T; exact G1.
Qed.

Lemma parse_value_good : forall fuel,
  (forall r, good r -> good (snd (parse_value fuel r))) /\
  (forall acc r, good r -> good (snd (parse_items fuel acc r))) /\
  (forall acc r, good r -> good (snd (parse_members fuel acc r))).
Proof.
  induction fuel as [|f (IHv & IHi & IHm)]; [split; [|split]; intros; assumption|].
  assert (Hv : forall r, good r -> good (snd (parse_value (S f) r))).
  { intros r G. rewrite parse_value_S. cbv zeta.
    pose proof (eat_whitespace_good r G) as G0.
    pose proof (peek_good _ (proj1 G0)) as G1.
    destruct (peek (eat_whitespace r)) as [[b|] r1]; cbn [snd] in *; [|exact G1].
    assert (W : forall w, good (snd (read_word w r1))) by (intros; apply read_word_good; exact (proj1 G1)).
    destruct (b =? 116).
    { specialize (W [114; 117; 101]). destruct (read_word [114; 117; 101] r1); exact W. }
    destruct (b =? 102).
    { specialize (W [97; 108; 115; 101]). destruct (read_word [97; 108; 115; 101] r1); exact W. }
    destruct (b =? 110).
    { specialize (W [117; 108; 108]). destruct (read_word [117; 108; 108] r1); exact W. }
    destruct (b =? 34); [apply read_string_f_good; exact G1|].
    destruct ((b =? 45) || is_digit b); [apply read_number_good; exact G1|].
    pose proof (next_good r1 (proj1 G1)) as G2.
    pose proof (eat_whitespace_good _ G2) as G3.
    pose proof (peek_good _ (proj1 G3)) as G4.
    destruct (peek (eat_whitespace (snd (next r1)))) as [c r4]; cbn [snd] in *.
    pose proof (next_good r4 (proj1 G4)) as G5.
    destruct (b =? 91); [destruct (is_b c 93); [exact G5|apply IHi; exact G4]|].
    destruct (b =? 123); [destruct (is_b c 125); [exact G5|apply IHm; exact G4]|].
    exact G2. }
  split; [exact Hv|split].
  - intros acc r G. rewrite parse_items_S. specialize (IHv r G).
    destruct (parse_value f r) as [[v| | |] r1]; cbn [snd] in *; try exact IHv.
    pose proof (eat_whitespace_good r1 IHv) as G0.
    pose proof (peek_good _ (proj1 G0)) as G1.
    destruct (peek (eat_whitespace r1)) as [[c|] r2]; cbn [snd] in *; [|exact G1].
    pose proof (next_good r2 (proj1 G1)) as G2.
    destruct (c =? 93); [exact G2|]. destruct (c =? 44); [apply IHi; exact G2|exact G1].
  - intros acc r G. rewrite parse_members_S. pose proof (IHv r G) as Gk.
    destruct (parse_value f r) as [[v| | |] r1]; cbn [snd] in *; try exact Gk.
    destruct v; try exact Gk.
    pose proof (eat_whitespace_good r1 Gk) as G0.
    pose proof (peek_good _ (proj1 G0)) as G1.
    destruct (peek (eat_whitespace r1)) as [c r2]; cbn [snd] in *.
    destruct (negb (is_b c 58)); [exact G1|].
    pose proof (next_good r2 (proj1 G1)) as G2.
    pose proof (IHv _ G2) as G3.
    destruct (parse_value f (snd (next r2))) as [[v| | |] r3]; cbn [snd] in *; try exact G3.
    pose proof (eat_whitespace_good r3 G3) as G4.
    pose proof (peek_good _ (proj1 G4)) as G5.
    destruct (peek (eat_whitespace r3)) as [[c5|] r5]; cbn [snd] in *; [|exact G5].
    pose proof (next_good r5 (proj1 G5)) as G6.
    destruct (c5 =? 125); [exact G6|]. destruct (c5 =? 44); [apply IHm; exact G6|exact G5].
Qed.

Lemma next_json_value_good r : good r -> good (snd (next_json_value r)).
Proof. apply parse_value_good. Qed.

(* ================= small facts ================= *)
Lemma at_end_imp (p q : byte -> bool) tl :
  (forall b, p b = true -> q b = true) -> at_end p tl -> at_end q tl.
Proof. destruct tl; cbn; auto. Qed.

Lemma at_end_ndigit tl : at_end not_digit tl -> ndigit tl.
Proof.
  destruct tl as [|b tl]; cbn; [auto|]. unfold not_digit. intros H.
  apply negb_true_iff in H. exact H.
Qed.

Lemma fuel_of_view r : rd_ok r -> (length (view r) < fuel_of r)%nat.
Proof. intros H. pose proof (view_len r H). unfold fuel_of. lia. Qed.

Lemma good_of r (l : list byte) : rd_ok r -> cur r = hd_error l -> view r = l -> good r.
Proof. intros H1 H2 H3. split; [assumption|]. rewrite H3. assumption. Qed.

Lemma eat_whitespace_cur r b : cur r = Some b -> is_ws b = false -> eat_whitespace r = r.
Proof.
  intros Hc Hw. unfold eat_whitespace. cbn [eat_ws]. unfold peek. rewrite Hc, Hw. reflexivity.
Qed.

Lemma utf8_encode_nonempty (n : str) : n <> [] -> utf8_encode n <> [].
Proof.
  destruct n as [|c n]; [congruence|]. intros _. unfold utf8_encode. cbn [flat_map].
  unfold utf8_encode_char.
  destruct (c <? 128); [discriminate|]. destruct (c <? 2048); [discriminate|].
  destruct (c <? 65536); discriminate.
Qed.

Lemma utf8_decode_encode' (n : str) : scalars n -> utf8_decode (utf8_encode n) = Some n.
Proof. apply utf8_decode_encode. Qed.

Lemma utf8_decode_ascii (l : list byte) : Forall (fun b => b < 128) l -> utf8_decode l = Some l.
Proof.
  induction 1 as [|b l Hb _ IH]; [reflexivity|]. rewrite utf8_decode_cons.
  rewrite (ltb_true b 128) by assumption. rewrite IH. reflexivity.
Qed.

(* ================= token readers ================= *)
(* read_until reads exactly the maximal run of non-stop bytes after the current byte and leaves the
   stop byte current (or ends at the end of the input) *)
Lemma read_until_spec stop (tok : list byte) : forall fuel acc r (p : byte) (tl : list byte),
  rd_ok r -> cur r = Some p -> view r = p :: tok ++ tl ->
  Forall (fun b => stop b = false) tok -> at_end stop tl -> (length tok < fuel)%nat ->
  exists r', read_until fuel stop acc r = (acc ++ tok, r') /\ view r' = tl /\ rd_ok r' /\
             cur r' = hd_error tl.
Proof.
  induction tok as [|b tok IH]; intros fuel acc r p tl Hok Hc Hv Htok Hend Hf;
    (destruct fuel as [|f]; [cbn in Hf; lia|]); cbn [read_until].
  - cbn [app] in Hv. destruct (next_drop r p tl Hok Hc Hv) as (r1 & Hn & Hv1 & Hok1 & Hc1).
    rewrite Hn, app_nil_r. destruct tl as [|c tl]; cbn [hd_error] in *.
    + eauto.
    + cbn [at_end] in Hend. rewrite Hend. eauto.
  - inversion Htok as [|? ? Hb Htok']; subst. cbn [app] in Hv.
    destruct (next_drop r p _ Hok Hc Hv) as (r1 & Hn & Hv1 & Hok1 & Hc1).
    rewrite Hn. cbn [hd_error] in Hc1 |- *. rewrite Hb.
    destruct (IH f (acc ++ [b]) r1 b tl Hok1 Hc1 Hv1 Htok' Hend) as (r2 & E & ? & ? & ?);
      [cbn in Hf; lia|].
    rewrite E, <- app_assoc. cbn [app]. eauto.
Qed.

(* at the end of the input nothing is read *)
Lemma read_until_eof stop fuel acc r : rd_ok r -> view r = [] -> cur r = None ->
  fst (read_until (S fuel) stop acc r) = acc.
Proof.
  intros Hok Hv Hc. cbn [read_until]. destruct (peek_nil r Hok Hv) as (r' & Hp & _).
  unfold peek in Hp. rewrite Hc in Hp. rewrite Hp. reflexivity.
Qed.

(* ================= extractors ================= *)
Lemma carets_length n : length (carets n) = n.
Proof. apply repeat_length. Qed.

Lemma count_parents_spec ups : forall fuel n r (rst : list byte),
  rd_ok r -> view r = carets ups ++ rst -> at_end (fun b => negb (b =? 94)) rst -> (ups < fuel)%nat ->
  exists r', count_parents fuel n r = ((n + ups)%nat, r') /\ view r' = rst /\ rd_ok r' /\
             cur r' = hd_error rst.
Proof.
  induction ups as [|ups IH]; intros fuel n r rst Hok Hv Hend Hf;
    (destruct fuel as [|f]; [lia|]); cbn [count_parents].
  - cbn [carets repeat app] in Hv. destruct (peek_spec r Hok) as (r1 & Hp & Hv1 & Hok1 & Hc1).
    rewrite Hp. rewrite Hv in *. rewrite Nat.add_0_r.
    destruct rst as [|c rst]; cbn [hd_error is_b] in *.
    + eauto.
    + apply negb_true_iff in Hend. rewrite Hend. eauto.
  - cbn [carets repeat app] in Hv. fold (carets ups) in Hv.
    destruct (peek_cons r 94 _ Hok Hv) as (r1 & Hp & Hv1 & Hc1 & Hok1). rewrite Hp.
    cbn [is_b]. rewrite N.eqb_refl.
    destruct (next_drop r1 94 _ Hok1 Hc1 Hv1) as (r2 & Hn & Hv2 & Hok2 & _). rewrite Hn. cbn [snd].
    destruct (IH f (S n) r2 rst Hok2 Hv2 Hend) as (r3 & E & ? & ? & ?); [lia|].
    rewrite E. replace (S n + ups)%nat with (n + S ups)%nat by lia. eauto.
Qed.

Lemma parse_path_S f ext r : parse_path (S f) ext r =
    let '(c, r) := peek r in
    if is_b c 46 then
      let '(kb, r) := read_until (fuel_of r) key_stop [] r in
      match utf8_decode kb with
      | None => (None, r)
      | Some [] => (match ext with [] => Some None | _ => None end, r)
      | Some k => parse_path f (ext ++ [SKey k]) r
      end
    else if is_b c 35 then
      let '(ds, r) := read_digits [] (snd (next r)) in
      match ds with
      | [] => (match ext with [] => Some None | _ => None end, r)
      | _ => let n := N_of_digits ds in
             if n <=? usize_max then parse_path f (ext ++ [SIdx n]) r else (None, r)
      end
    else (Some (Some ext), r).
Proof. reflexivity. Qed.

(* every selector of a path is followed by the right thing *)
Fixpoint sels_follow (l : list ssel) (tl : list byte) : Prop :=
  match l with
  | [] => at_end not_path_start tl
  | s :: more => sel_follow s (show_sels more ++ tl) /\ sels_follow more tl
  end.

Lemma not_path_start_is_b (tl : list byte) : at_end not_path_start tl ->
  is_b (hd_error tl) 46 = false /\ is_b (hd_error tl) 35 = false.
Proof.
  destruct tl as [|b tl]; cbn [at_end hd_error is_b]; [auto|].
  unfold not_path_start, mem_N. cbn [existsb]. intros H. apply negb_true_iff in H.
  apply orb_false_iff in H. destruct H as [H1 H2]. apply orb_false_iff in H2. tauto.
Qed.

Lemma show_sels_cons s more : show_sels (s :: more) = show_sel s ++ show_sels more.
Proof. reflexivity. Qed.

Lemma parse_path_sels l : forall fuel ext r (tl : list byte),
  rd_ok r -> Forall sel_ok l -> sels_follow l tl -> view r = show_sels l ++ tl ->
  (length l < fuel)%nat ->
  exists r', parse_path fuel ext r = (Some (Some (ext ++ map sel_of l)), r') /\ view r' = tl /\
             rd_ok r' /\ cur r' = hd_error tl.
Proof.
  induction l as [|s more IH]; intros fuel ext r tl Hok Hwf Hfol Hv Hf;
    (destruct fuel as [|f]; [cbn in Hf; lia|]); rewrite parse_path_S.
  - cbn [show_sels flat_map app] in Hv. cbn [sels_follow] in Hfol.
    destruct (peek_spec r Hok) as (r1 & Hp & Hv1 & Hok1 & Hc1). rewrite Hp. rewrite Hv in *.
    destruct (not_path_start_is_b tl Hfol) as [-> ->]. cbn [map]. rewrite app_nil_r. eauto.
  - inversion Hwf as [|? ? Hs Hwf']; subst. cbn [sels_follow] in Hfol. destruct Hfol as [Hfs Hfol].
    rewrite show_sels_cons, <- app_assoc in Hv.
    destruct s as [k|ds]; cbn [show_sel app] in Hv; cbn [sel_follow] in Hfs; cbn [sel_ok] in Hs.
    + (* key *)
      destruct Hs as (Hne & Hsc & Hstop).
      destruct (peek_cons r 46 _ Hok Hv) as (r1 & Hp & Hv1 & Hc1 & Hok1). rewrite Hp.
      cbn [is_b]. rewrite N.eqb_refl.
      destruct (read_until_spec key_stop (utf8_encode k) (fuel_of r1) [] r1 46 _ Hok1 Hc1 Hv1 Hstop Hfs)
        as (r2 & E & Hv2 & Hok2 & Hc2).
      { pose proof (fuel_of_view r1 Hok1) as L. rewrite Hv1 in L. cbn [length] in L.
        rewrite app_length in L. lia. }
      rewrite E. cbn [app]. rewrite utf8_decode_encode' by assumption.
      destruct k as [|c k]; [congruence|].
      destruct (IH f (ext ++ [SKey (c :: k)]) r2 tl Hok2 Hwf' Hfol Hv2) as (r3 & E3 & ? & ? & ?);
        [cbn in Hf; lia|].
      rewrite E3, <- app_assoc. cbn [app map sel_of]. eauto.
    + (* index *)
      destruct Hs as ((Hne & Hds) & Hmax).
      destruct (peek_cons r 35 _ Hok Hv) as (r1 & Hp & Hv1 & Hc1 & Hok1). rewrite Hp.
      cbn [is_b]. ground_eqb. cbv iota.
      destruct (next_drop r1 35 _ Hok1 Hc1 Hv1) as (r2 & Hn & Hv2 & Hok2 & _). rewrite Hn. cbn [snd].
      destruct (read_digits_spec ds [] r2 _ Hok2 Hds (at_end_ndigit _ Hfs) Hv2) as (r3 & E & Hv3 & Hok3).
      rewrite E. cbn [app]. destruct ds as [|d ds]; [congruence|]. cbv zeta.
      rewrite (leb_true _ _ Hmax).
      destruct (IH f (ext ++ [SIdx (N_of_digits (d :: ds))]) r3 tl Hok3 Hwf' Hfol Hv3)
        as (r4 & E4 & ? & ? & ?); [cbn in Hf; lia|].
      rewrite E4, <- app_assoc. cbn [app map sel_of]. eauto.
Qed.

Lemma show_sel_head s : exists b l, show_sel s = b :: l /\ (b = 46 \/ b = 35).
Proof. destruct s; cbn [show_sel]; eauto. Qed.

Lemma sel_follow_path_start s (b : byte) l : (b = 46 \/ b = 35) -> sel_follow s (b :: l).
Proof. destruct s; cbn [sel_follow at_end]; intros [-> | ->]; reflexivity. Qed.

Lemma sels_follow_of_last l tl :
  match last_sel l with None => True | Some s => sel_follow s tl end ->
  at_end not_path_start tl -> sels_follow l tl.
Proof.
  induction l as [|s more IH]; intros H1 H2; [exact H2|].
  destruct more as [|s' more'].
  - cbn [sels_follow show_sels flat_map app]. split; [exact H1|exact H2].
  - cbn [sels_follow]. split.
    + rewrite show_sels_cons. destruct (show_sel_head s') as (b & l & -> & Hb).
      cbn [app]. apply sel_follow_path_start. exact Hb.
    + apply IH; [exact H1|exact H2].
Qed.

Lemma sels_len l : (length l <= length (show_sels l))%nat.
Proof.
  induction l as [|s more IH]; [cbn; lia|]. rewrite show_sels_cons, app_length.
  destruct (show_sel_head s) as (b & l & -> & _). cbn [length]. lia.
Qed.

Lemma not_extractor_start_imp b : not_extractor_start b = true ->
  negb (b =? 94) = true /\ not_path_start b = true.
Proof.
  unfold not_extractor_start, not_path_start, mem_N. cbn [existsb]. rewrite negb_orb.
  intros H. apply andb_true_iff in H. exact H.
Qed.

Lemma parse_extractor_spec ups p r (tl : list byte) :
  xwf (XExtract ups p) -> xfollow (XExtract ups p) tl -> rd_ok r ->
  view r = show (XExtract ups p) ++ tl ->
  exists r', parse_extractor r = (Some (EExtract ups (path_of p)), r') /\ view r' = tl /\
             rd_ok r' /\ cur r' = hd_error tl.
Proof.
  intros Hwf Hfol Hok Hv. cbn [show] in Hv. rewrite <- app_assoc in Hv. unfold parse_extractor.
  destruct (count_parents_spec ups (fuel_of r) O r (show_path p ++ tl) Hok Hv)
    as (r1 & E & Hv1 & Hok1 & Hc1).
  { destruct p as [[|]|[|s more]]; cbn [show_path app show_sels flat_map]; try reflexivity.
    - cbn [xfollow last_sel map last] in Hfol. revert Hfol. apply at_end_imp.
      intros b Hb. apply not_extractor_start_imp in Hb. tauto.
    - destruct (show_sel_head s) as (b & l & -> & [-> | ->]); reflexivity. }
  { pose proof (fuel_of_view r Hok) as L. rewrite Hv, app_length, carets_length in L. lia. }
  rewrite E. cbn [Nat.add]. clear E Hv Hc1.
  destruct p as [[|]|l]; cbn [show_path app] in Hv1; cbn [xfollow] in Hfol; cbn [path_of].
  - (* "#" *)
    change (fuel_of r1) with (S (S (length (rest r1)))). rewrite parse_path_S.
    destruct (peek_cons r1 35 _ Hok1 Hv1) as (r2 & Hp & Hv2 & Hc2 & Hok2). rewrite Hp.
    cbn [is_b]. ground_eqb. cbv iota.
    destruct (next_drop r2 35 _ Hok2 Hc2 Hv2) as (r3 & Hn & Hv3 & Hok3 & Hc3). rewrite Hn. cbn [snd].
    destruct (read_digits_spec [] [] r3 tl Hok3 (Forall_nil _) (at_end_ndigit _ Hfol) Hv3)
      as (r4 & E & Hv4 & Hok4).
    pose proof (read_digits_good [] r3 (good_of r3 tl Hok3 Hc3 Hv3)) as G. rewrite E in G |- *.
    cbn [snd app] in G |- *. destruct G as [_ G]. rewrite Hv4 in G.
    cbn [option_map]. eauto.
  - (* "." *)
    change (fuel_of r1) with (S (S (length (rest r1)))). rewrite parse_path_S.
    destruct (peek_cons r1 46 _ Hok1 Hv1) as (r2 & Hp & Hv2 & Hc2 & Hok2). rewrite Hp.
    cbn [is_b]. rewrite N.eqb_refl.
    destruct (read_until_spec key_stop [] (fuel_of r2) [] r2 46 tl Hok2 Hc2 Hv2 (Forall_nil _) Hfol)
      as (r3 & E & ? & ? & ?); [cbn; unfold fuel_of; lia|].
    rewrite E. cbn [app utf8_decode option_map]. eauto.
  - (* a path *)
    destruct Hwf as [Hne Hsels].
    destruct (parse_path_sels l (fuel_of r1) [] r1 tl Hok1 Hsels) as (r2 & E & ? & ? & ?).
    + destruct (last_sel l) as [s|] eqn:EL.
      * apply sels_follow_of_last; [rewrite EL|]; tauto.
      * apply sels_follow_of_last; [rewrite EL; exact I|]. revert Hfol. apply at_end_imp.
        intros b Hb. apply not_extractor_start_imp in Hb. tauto.
    + exact Hv1.
    + pose proof (fuel_of_view r1 Hok1) as L. rewrite Hv1, app_length in L.
      pose proof (sels_len l). lia.
    + rewrite E. cbn [app option_map]. eauto.
Qed.

(* ================= variables and macros ================= *)
Lemma parse_get_variable_spec (m : bool) (n : str) r (tl : list byte) :
  name_ok var_stop n -> at_end var_stop tl -> rd_ok r ->
  view r = (if m then 64 else 58) :: utf8_encode n ++ tl ->
  exists r', parse_get_variable r = (Some (if m then EMacro n else EVar n), r') /\ view r' = tl /\
             rd_ok r' /\ cur r' = hd_error tl.
Proof.
  intros (Hne & Hsc & Hstop) Hend Hok Hv. unfold parse_get_variable.
  set (p := if m then 64 else 58) in *.
  destruct (peek_cons r p _ Hok Hv) as (r1 & Hp & Hv1 & Hc1 & Hok1). rewrite Hp.
  destruct (read_until_spec var_stop (utf8_encode n) (fuel_of r1) [] r1 p tl Hok1 Hc1 Hv1 Hstop Hend)
    as (r2 & E & ? & ? & ?).
  { pose proof (fuel_of_view r1 Hok1) as L. rewrite Hv1 in L. cbn [length] in L.
    rewrite app_length in L. lia. }
  rewrite E. cbn [app]. pose proof (utf8_encode_nonempty n Hne) as Hnb.
  pose proof (utf8_decode_encode' n Hsc) as Hdec.
  destruct (utf8_encode n) as [|b0 nb]; [congruence|]. rewrite Hdec.
  assert (Em : is_b (Some p) 64 = m) by (subst p; destruct m; reflexivity).
  nb. rewrite Em. eauto.
Qed.

(* ================= previously selected names ================= *)
Lemma read_sel_name_spec (raw : list byte) : forall fuel acc r (p : byte) (tl : list byte),
  rd_ok r -> cur r = Some p -> view r = p :: raw ++ 47 :: tl ->
  Forall (fun b => (b =? 47) = false) raw -> (length raw < fuel)%nat ->
  exists r', read_sel_name fuel acc r = (Some (acc ++ raw), r') /\ view r' = 47 :: tl /\ rd_ok r' /\
             cur r' = Some 47.
Proof.
  induction raw as [|b raw IH]; intros fuel acc r p tl Hok Hc Hv Hraw Hf;
    (destruct fuel as [|f]; [cbn in Hf; lia|]); cbn [read_sel_name].
  - cbn [app] in Hv. destruct (next_drop r p _ Hok Hc Hv) as (r1 & Hn & Hv1 & Hok1 & Hc1).
    rewrite Hn, app_nil_r. cbn [hd_error] in *. rewrite N.eqb_refl. eauto.
  - inversion Hraw as [|? ? Hb Hraw']; subst. cbn [app] in Hv.
    destruct (next_drop r p _ Hok Hc Hv) as (r1 & Hn & Hv1 & Hok1 & Hc1).
    rewrite Hn. cbn [hd_error] in Hc1 |- *. rewrite Hb.
    destruct (IH f (acc ++ [b]) r1 b tl Hok1 Hc1 Hv1 Hraw') as (r2 & E & ? & ? & ?);
      [cbn in Hf; lia|].
    rewrite E, <- app_assoc. cbn [app]. eauto.
Qed.

Lemma trim_left_ws pl m : uni_ws pl -> trim_left (pl ++ m) = trim_left m.
Proof.
  induction 1 as [|c pl Hc _ IH]; cbn [app trim_left]; [reflexivity|]. rewrite Hc. exact IH.
Qed.
Lemma trim_left_id m : no_ws_head m -> trim_left m = m.
Proof. destruct m as [|c m]; cbn [no_ws_head trim_left]; [reflexivity|]. intros ->. reflexivity. Qed.
Lemma trim_left_all pl : uni_ws pl -> trim_left pl = [].
Proof. intros H. rewrite <- (app_nil_r pl). rewrite trim_left_ws by assumption. reflexivity. Qed.

(* str::trim removes exactly the white space written around a trimmed name *)
Lemma trim_pad pl n pr : uni_ws pl -> uni_ws pr -> trimmed n -> trim (pl ++ n ++ pr) = n.
Proof.
  intros Hl Hr [H1 H2]. unfold trim. rewrite trim_left_ws by assumption.
  destruct n as [|c n].
  - cbn [app]. rewrite (trim_left_all pr Hr). reflexivity.
  - rewrite (trim_left_id ((c :: n) ++ pr)) by exact H1.
    rewrite rev_app_distr. rewrite trim_left_ws by (apply Forall_rev; exact Hr).
    rewrite trim_left_id by exact H2. apply rev_involutive.
Qed.

Lemma parse_get_selection_spec pl n pr r (tl : list byte) :
  xwf (XSelected pl n pr) -> rd_ok r -> cur r = Some 47 ->
  view r = show (XSelected pl n pr) ++ tl ->
  exists r', parse_get_selection r = (Some (ESelected n), r') /\ view r' = tl /\ rd_ok r' /\
             cur r' = hd_error tl.
Proof.
  intros (Hl & Hr & Htr & Hne & Hsc & Hraw) Hok Hc Hv. cbn [show] in Hv.
  cbn [app] in Hv. rewrite <- app_assoc in Hv. cbn [app] in Hv. unfold parse_get_selection.
  destruct (read_sel_name_spec _ (fuel_of r) [] r 47 tl Hok Hc Hv Hraw) as (r1 & E & Hv1 & Hok1 & Hc1).
  { pose proof (fuel_of_view r Hok) as L. rewrite Hv in L. cbn [length] in L.
    rewrite app_length in L. lia. }
  rewrite E. cbn [app].
  destruct (next_drop r1 47 tl Hok1 Hc1 Hv1) as (r2 & Hn & ? & ? & ?). rewrite Hn. cbn [snd].
  pose proof (utf8_encode_nonempty _ Hne) as Hnb.
  pose proof (utf8_decode_encode' _ Hsc) as Hdec.
  destruct (utf8_encode (pl ++ n ++ pr)) as [|b0 nb]; [congruence|]. rewrite Hdec.
  rewrite trim_pad by assumption. eauto.
Qed.

(* ================= input-context names ================= *)
Lemma read_ictx_name_spec (sp : list byte) : forall nm fuel acc r (p : byte) (tl : list byte),
  rd_ok r -> cur r = Some p -> view r = p :: sp ++ tl -> norm_all sp = Some nm ->
  at_end not_ictx_letter tl -> (length sp < fuel)%nat ->
  exists r', read_ictx_name fuel acc r = (acc ++ nm, r') /\ view r' = tl /\ rd_ok r' /\
             cur r' = hd_error tl.
Proof.
  induction sp as [|b sp IH]; intros nm fuel acc r p tl Hok Hc Hv Hnm Hend Hf;
    (destruct fuel as [|f]; [cbn in Hf; lia|]); cbn [read_ictx_name].
  - cbn [app] in Hv. cbn [norm_all] in Hnm. injection Hnm as <-.
    destruct (next_drop r p tl Hok Hc Hv) as (r1 & Hn & Hv1 & Hok1 & Hc1).
    rewrite Hn, app_nil_r. destruct tl as [|c tl]; cbn [hd_error] in *.
    + eauto.
    + cbn [at_end] in Hend. unfold not_ictx_letter in Hend.
      destruct (ictx_norm c); [discriminate|]. eauto.
  - cbn [app] in Hv. cbn [norm_all] in Hnm.
    destruct (ictx_norm b) as [x|] eqn:Ex; [|discriminate].
    destruct (norm_all sp) as [y|] eqn:Ey; [|discriminate]. injection Hnm as <-.
    destruct (next_drop r p _ Hok Hc Hv) as (r1 & Hn & Hv1 & Hok1 & Hc1).
    rewrite Hn. cbn [hd_error] in Hc1 |- *. rewrite Ex.
    destruct (IH y f (acc ++ [x]) r1 b tl Hok1 Hc1 Hv1 eq_refl Hend) as (r2 & E & ? & ? & ?);
      [cbn in Hf; lia|].
    rewrite E, <- app_assoc. cbn [app]. eauto.
Qed.

Lemma parse_input_context_spec k sp r (tl : list byte) :
  xwf (XIctx k sp) -> at_end not_ictx_letter tl -> rd_ok r -> cur r = Some 38 ->
  view r = show (XIctx k sp) ++ tl ->
  exists r', parse_input_context r = (Some (EIctx k), r') /\ view r' = tl /\ rd_ok r' /\
             cur r' = hd_error tl.
Proof.
  intros Hwf Hend Hok Hc Hv. cbn [show app] in Hv. cbn [xwf] in Hwf.
  destruct (norm_all sp) as [nm|] eqn:Enm; [|contradiction]. unfold parse_input_context.
  destruct (read_ictx_name_spec sp nm (fuel_of r) [] r 38 tl Hok Hc Hv Enm Hend) as (r1 & E & ? & ? & ?).
  { pose proof (fuel_of_view r Hok) as L. rewrite Hv in L. cbn [length] in L.
    rewrite app_length in L. lia. }
  rewrite E. cbn [app]. rewrite Hwf. cbn [option_map]. eauto.
Qed.

(* ================= the generated name table ================= *)
Notation fn_table := Gen.FnTable.fn_table.
Definition entry := (list N * list N * N * option N)%type.
Definition e_name (e : entry) : list N := fst (fst (fst e)).
Definition e_canon (e : entry) : list N := snd (fst (fst e)).
Definition e_min (e : entry) : N := snd (fst e).
Definition e_max (e : entry) : option N := snd e.

Lemma list_eqb_eq (a b : list N) : list_eqb N.eqb a b = true <-> a = b.
Proof. exact (str_eqb_eq a b). Qed.

Lemma find_function_In nm (tbl : list entry) c mn mx :
  find_function nm tbl = Some (c, mn, mx) -> In (nm, c, mn, mx) tbl.
Proof.
  induction tbl as [|[[[n' c'] mn'] mx'] t IH]; cbn [find_function]; [discriminate|].
  destruct (list_eqb N.eqb nm n') eqn:E.
  - intros H. injection H as <- <- <-. apply list_eqb_eq in E. subst. left. reflexivity.
  - intros H. right. auto.
Qed.

(* no name of the table contains a byte at which the name reader stops, every name is ASCII,
   none starts with the dot of the dot sugar *)
Definition name_clean (nm : list byte) : bool :=
  forallb (fun b => negb (fname_stop b) && (b <? 128)) nm &&
  negb (match nm with b :: _ => b =? 46 | [] => false end).

Lemma table_names_clean : forallb (fun e : entry => name_clean (e_name e)) fn_table = true.
Proof. vm_compute. reflexivity. Qed.

Lemma resolved_name_clean nm c mn mx : find_function nm fn_table = Some (c, mn, mx) ->
  Forall (fun b => fname_stop b = false) nm /\ Forall (fun b => b < 128) nm /\
  match nm with b :: _ => (b =? 46) = false | [] => True end.
Proof.
  intros H. apply find_function_In in H.
  pose proof (proj1 (forallb_forall _ _) table_names_clean _ H) as C.
  unfold e_name in C. cbn [fst] in C. unfold name_clean in C.
  apply andb_true_iff in C. destruct C as [C1 C2].
  rewrite forallb_forall in C1. split; [|split].
  - apply Forall_forall. intros b Hb. specialize (C1 b Hb). apply andb_true_iff in C1.
    destruct C1 as [C1 _]. apply negb_true_iff in C1. exact C1.
  - apply Forall_forall. intros b Hb. specialize (C1 b Hb). apply andb_true_iff in C1.
    destruct C1 as [_ C1]. apply N.ltb_lt. exact C1.
  - destruct nm as [|b nm]; [exact I|]. apply negb_true_iff in C2. exact C2.
Qed.

(* ================= first bytes ================= *)
Definition head_ok (x : sexpr) (b : byte) : Prop :=
  match x with
  | XExtract _ _ => mem_N b [46; 35; 94] = true
  | XCall _ _ _ _ => b = 40
  | XVar _ => b = 58
  | XMacro _ => b = 64
  | XIctx _ _ => b = 38
  | XSelected _ _ _ => b = 47
  | XConst _ => mem_N b [46; 35; 94] = false /\ (b =? 40) = false /\ mem_N b [58; 64] = false /\
                (b =? 38) = false /\ (b =? 47) = false
  end.

Lemma render_first t : wf t ->
  exists b l, render t = b :: l /\ (In b [110; 116; 102; 34; 91; 123; 45] \/ is_digit b = true).
Proof.
  destruct t as [| | |n|cs|w|items|w|ms]; intros H;
    try (eexists _, _; split; [reflexivity|left; cbn [In]; tauto]).
  destruct H as [H _]. destruct (num_head n H) as (b & l & E & [->|Hd]); cbn [render]; rewrite E;
    eexists _, _; (split; [reflexivity|]); [left; cbn [In]; tauto|right; assumption].
Qed.

Lemma json_head_facts b : (In b [110; 116; 102; 34; 91; 123; 45] \/ is_digit b = true) ->
  (mem_N b [46; 35; 94] = false /\ (b =? 40) = false /\ mem_N b [58; 64] = false /\
   (b =? 38) = false /\ (b =? 47) = false) /\ is_pad_byte b = false /\ (b =? 41) = false.
Proof.
  intros [H|H].
  - cbn [In] in H. repeat (destruct H as [<-|H]; [vm_compute; repeat split; reflexivity|]).
    contradiction.
  - apply digit_range in H. unfold mem_N, is_pad_byte, is_ws. cbn [existsb].
    rewrite !(eqb_false b) by lia. repeat split; reflexivity.
Qed.

Lemma show_head x : xwf x ->
  exists b l, show x = b :: l /\ head_ok x b /\ is_pad_byte b = false /\ (b =? 41) = false.
Proof.
  destruct x as [ups p|t|n|n|pl n pr|k sp|name dot args close]; intros H; cbn [show head_ok].
  - destruct ups as [|ups]; [|cbn [carets repeat app]; eexists _, _; repeat split; reflexivity].
    cbn [carets repeat app]. destruct p as [[|]|[|s more]]; cbn [show_path show_sels flat_map].
    + eexists _, _; repeat split; reflexivity.
    + eexists _, _; repeat split; reflexivity.
    + destruct H as [H _]. exfalso. apply H; reflexivity.
    + destruct (show_sel_head s) as (b & l & -> & [-> | ->]); cbn [app];
        eexists _, _; repeat split; reflexivity.
  - cbn [xwf] in H. destruct (render_first t H) as (b & l & E & Hb).
    destruct (json_head_facts b Hb) as (? & ? & ?). eexists _, _; repeat split; eauto; tauto.
  - eexists _, _; repeat split; reflexivity.
  - eexists _, _; repeat split; reflexivity.
  - eexists _, _; repeat split; reflexivity.
  - eexists _, _; repeat split; reflexivity.
  - eexists _, _; repeat split; reflexivity.
Qed.

Lemma show_nonempty x : xwf x -> (1 <= length (show x))%nat.
Proof. intros H. destruct (show_head x H) as (b & l & -> & _). cbn [length]. lia. Qed.

Lemma show_args_head args close : xwf_args args close -> exists b l, show_args args close = b :: l.
Proof.
  destruct args as [|[s a] more]; cbn [show_args xwf_args].
  - intros _. destruct close; cbn [app]; eauto.
  - intros (_ & Ha & _). destruct s as [|b s]; cbn [app]; [|eauto].
    destruct (show_head a Ha) as (b & l & -> & _). cbn [app]. eauto.
Qed.

(* the follow conditions look at the first byte only *)
Lemma at_end_head p (b : byte) l l' : at_end p (b :: l) -> at_end p (b :: l').
Proof. exact (fun H => H). Qed.

Lemma xfollow_head x (b : byte) l l' : xfollow x (b :: l) -> xfollow x (b :: l').
Proof.
  destruct x as [ups [[|]|sl]|t|n|n|pl n pr|k sp|name dot args close]; cbn [xfollow]; auto.
Qed.

Lemma json_follow_follow t tl : json_follow t tl -> follow t tl.
Proof.
  destruct t; cbn [json_follow follow]; auto. destruct tl as [|b tl]; cbn [at_end num_follow]; auto.
  unfold not_number_part. intros H. apply andb_true_iff in H. destruct H as [H H3].
  apply andb_true_iff in H. destruct H as [H1 H2].
  apply negb_true_iff in H1, H2, H3. apply N.eqb_neq in H2. auto.
Qed.

(* ================= unfolding equations ================= *)
Lemma read_getter_S f r : read_getter (S f) r =
    let r := eat_whitespace r in
    let '(c, r) := peek r in
    match c with
    | None => (None, r)
    | Some b =>
      if mem_N b [46; 35; 94] then parse_extractor r
      else if b =? 40 then
        let r := eat_whitespace r in
        let '(nb, r) := read_until (fuel_of r) fname_stop [] r in
        match utf8_decode nb with
        | None => (None, r)
        | Some _ =>
          let '(dot, nb') := match nb with b0 :: t => if b0 =? 46 then (true, t) else (false, nb) | [] => (false, nb) end in
          match find_function nb' fn_table with
          | None => (None, r)
          | Some (canon, mn, mx) =>
              match parse_args f (if dot then [EExtract O None] else []) r with
              | (Some args, r) =>
                  if arity_ok (length args) mn mx then (Some (ECall (fn_of_canonical canon) args), r) else (None, r)
              | (None, r) => (None, r)
              end
          end
        end
      else if mem_N b [58; 64] then parse_get_variable r
      else if b =? 38 then parse_input_context r
      else if b =? 47 then parse_get_selection r
      else match next_json_value r with
           | (POk v, r) => (Some (EConst v), r)
           | (_, r) => (None, r)
           end
    end.
Proof. reflexivity. Qed.

Lemma parse_args_S f acc r : parse_args (S f) acc r =
    let r := eat_whitespace r in
    let '(c, r) := peek r in
    match c with
    | None => (None, r)
    | Some b =>
        if b =? 44 then parse_args f acc (snd (next r))
        else if b =? 41 then (Some acc, snd (next r))
        else match read_getter f r with
             | (Some e, r) => parse_args f (acc ++ [e]) r
             | (None, r) => (None, r)
             end
    end.
Proof. reflexivity. Qed.

Lemma show_call name dot args close :
  show (XCall name dot args close) = 40 :: (if dot then [46] else []) ++ name ++ show_args args close.
Proof.
  cbn [show]. do 3 f_equal. induction args as [|[s a] more IH]; cbn [show_args]; [reflexivity|].
  rewrite IH. reflexivity.
Qed.

Lemma exprs_of_eq args :
  (fix ea (args : list (pad * sexpr)) : option (list expr) :=
     match args with
     | [] => Some []
     | (_, a) :: more =>
         match expr_of a, ea more with Some e, Some es => Some (e :: es) | _, _ => None end
     end) args = exprs_of args.
Proof. induction args as [|[s a] more IH]; cbn [exprs_of]; [reflexivity|]. rewrite IH. reflexivity. Qed.

Lemma expr_of_call name dot args close :
  expr_of (XCall name dot args close) =
  match exprs_of args with Some es => call_of name (dot_args dot ++ es) | None => None end.
Proof. cbn [expr_of]. rewrite exprs_of_eq. reflexivity. Qed.

Lemma xwf_call name dot args close :
  xwf (XCall name dot args close) <->
  (at_end fname_stop (show_args args close) /\ pad_ok close /\ xwf_args args close).
Proof.
  cbn [xwf].
  assert (E1 : (fix sa (args : list (pad * sexpr)) : list byte :=
            match args with
            | [] => close ++ [41]
            | (s, a) :: more => s ++ show a ++ sa more
            end) args = show_args args close).
  { induction args as [|[s a] more IH]; cbn [show_args]; [reflexivity|]. rewrite IH. reflexivity. }
  rewrite E1.
  assert (E2 : (fix wa (args : list (pad * sexpr)) : Prop :=
         match args with
         | [] => True
         | (s, a) :: more =>
             pad_ok s /\ xwf a /\ xfollow a (show_args more close) /\ wa more
         end) args <-> xwf_args args close).
  { clear E1. induction args as [|[s a] more IH]; cbn [xwf_args]; tauto. }
  tauto.
Qed.

Lemma pad_split p : pad_ok p ->
  exists w p', p = w ++ p' /\ ws_ok w /\ (p' = [] \/ exists p'', p' = 44 :: p'' /\ pad_ok p'').
Proof.
  induction 1 as [|b p Hb Hp (w & p' & -> & Hw & Hcase)].
  - exists [], []. repeat split; [constructor|left; reflexivity].
  - unfold is_pad_byte in Hb. apply orb_true_iff in Hb. destruct Hb as [Hb|Hb].
    + exists (b :: w), p'. repeat split; [constructor; assumption|exact Hcase].
    + apply N.eqb_eq in Hb. subst b. exists [], (44 :: w ++ p'). repeat split; [constructor|].
      right. eexists. split; [reflexivity|exact Hp].
Qed.

Ltac lens := rewrite ?app_length; cbn [length]; unfold pad, ws, byte in *; lia.

(* ================= the main lemma, by induction on fuel ================= *)
Definition P_getter (fuel : nat) : Prop :=
  forall x e r (w tl : list byte), xwf x -> expr_of x = Some e -> ws_ok w -> rd_ok r ->
    view r = w ++ show x ++ tl -> xfollow x tl -> (2 * length (view r) < fuel)%nat ->
    exists r', read_getter fuel r = (Some e, r') /\ view r' = tl /\ rd_ok r' /\ cur r' = hd_error tl.
Definition P_args (fuel : nat) : Prop :=
  forall args close es acc r (tl : list byte), pad_ok close -> xwf_args args close ->
    exprs_of args = Some es -> rd_ok r ->
    view r = show_args args close ++ tl -> (2 * length (view r) + 1 < fuel)%nat ->
    exists r', parse_args fuel acc r = (Some (acc ++ es), r') /\ view r' = tl /\ rd_ok r' /\
               cur r' = hd_error tl.

Lemma pad_byte_false b : is_pad_byte b = false -> is_ws b = false /\ (b =? 44) = false.
Proof. unfold is_pad_byte. apply orb_false_iff. Qed.

Lemma args_step f : P_getter f -> P_args f -> P_args (S f).
Proof.
  intros IHg IHa args close es acc r tl Hclose Hwf Hes Hok Hv Hlen. rewrite parse_args_S. cbv zeta.
  destruct args as [|[s a] more].
  - cbn [show_args] in Hv. cbn [exprs_of] in Hes. injection Hes as <-.
    destruct (pad_split close Hclose) as (w & p' & -> & Hw & [->|(p'' & -> & Hp'')]).
    + rewrite app_nil_r in Hv. rewrite <- app_assoc in Hv. cbn [app] in Hv.
      destruct (eat_whitespace_spec w r (41 :: tl) Hok Hw (eq_refl : nws (41 :: _)) Hv) as (Hv1 & Hok1).
      set (r1 := eat_whitespace r) in *. clearbody r1.
      destruct (peek_cons r1 41 _ Hok1 Hv1) as (r2 & -> & Hv2 & Hc2 & Hok2).
      cbv beta iota zeta. ground_eqb. cbv iota.
      destruct (next_drop r2 41 _ Hok2 Hc2 Hv2) as (r3 & -> & ? & ? & ?). cbn [snd].
      rewrite app_nil_r. eauto.
    + rewrite <- !app_assoc in Hv. cbn [app] in Hv.
      destruct (eat_whitespace_spec w r _ Hok Hw (eq_refl : nws (44 :: _)) Hv) as (Hv1 & Hok1).
      set (r1 := eat_whitespace r) in *.
      assert (L1 : (length (view r1) <= length (view r))%nat) by (rewrite Hv1, Hv; lens).
      clearbody r1.
      destruct (peek_cons r1 44 _ Hok1 Hv1) as (r2 & -> & Hv2 & Hc2 & Hok2).
      cbv beta iota zeta. ground_eqb. cbv iota.
      destruct (next_drop r2 44 _ Hok2 Hc2 Hv2) as (r3 & -> & Hv3 & Hok3 & _). cbn [snd].
      destruct (IHa [] p'' [] acc r3 tl Hp'' I eq_refl Hok3) as (r4 & -> & ? & ? & ?).
      * cbn [show_args]. rewrite <- app_assoc. exact Hv3.
      * rewrite Hv1 in L1. cbn [length] in L1. rewrite Hv3. lia.
      * eauto.
  - cbn [show_args] in Hv. cbn [xwf_args] in Hwf. destruct Hwf as (Hs & Ha & Hfa & Hmore).
    cbn [exprs_of] in Hes. destruct (expr_of a) as [e|] eqn:Ee; [|discriminate].
    destruct (exprs_of more) as [es'|] eqn:Ees; [|discriminate]. injection Hes as <-.
    destruct (pad_split s Hs) as (w & p' & -> & Hw & [->|(p'' & -> & Hp'')]).
    + (* the argument *)
      rewrite app_nil_r in Hv. rewrite <- !app_assoc in Hv.
      destruct (show_head a Ha) as (b & l & Hsh & _ & Hpad & H41).
      destruct (pad_byte_false b Hpad) as [Hbws H44].
      destruct (eat_whitespace_spec w r (show a ++ show_args more close ++ tl) Hok Hw) as (Hv1 & Hok1);
        [rewrite Hsh; exact Hbws|exact Hv|].
      set (r1 := eat_whitespace r) in *.
      assert (L1 : (length (view r1) <= length (view r))%nat) by (rewrite Hv1, Hv; lens).
      clearbody r1.
      assert (Hv1' : view r1 = b :: l ++ show_args more close ++ tl) by (rewrite Hv1, Hsh; reflexivity).
      destruct (peek_cons r1 b _ Hok1 Hv1') as (r2 & -> & Hv2 & Hc2 & Hok2).
      cbv beta iota zeta. rewrite H44, H41.
      destruct (IHg a e r2 [] (show_args more close ++ tl) Ha Ee (Forall_nil _) Hok2)
        as (r3 & -> & Hv3 & Hok3 & Hc3).
      * cbn [app]. rewrite Hv2, Hsh. reflexivity.
      * destruct (show_args_head more close Hmore) as (b' & l' & E'). rewrite E'. cbn [app].
        apply (xfollow_head a b' l'). rewrite <- E'. exact Hfa.
      * rewrite Hv2, <- Hv1'. lia.
      * cbv beta iota.
        destruct (IHa more close es' (acc ++ [e]) r3 tl Hclose Hmore Ees Hok3 Hv3) as (r4 & -> & ? & ? & ?).
        { rewrite Hv1' in L1. cbn [length] in L1. rewrite app_length in L1. rewrite Hv3. lia. }
        rewrite <- app_assoc. cbn [app]. eauto.
    + (* a comma *)
      rewrite <- !app_assoc in Hv. cbn [app] in Hv.
      destruct (eat_whitespace_spec w r _ Hok Hw (eq_refl : nws (44 :: _)) Hv) as (Hv1 & Hok1).
      set (r1 := eat_whitespace r) in *.
      assert (L1 : (length (view r1) <= length (view r))%nat) by (rewrite Hv1, Hv; lens).
      clearbody r1.
      destruct (peek_cons r1 44 _ Hok1 Hv1) as (r2 & -> & Hv2 & Hc2 & Hok2).
      cbv beta iota zeta. ground_eqb. cbv iota.
      destruct (next_drop r2 44 _ Hok2 Hc2 Hv2) as (r3 & -> & Hv3 & Hok3 & _). cbn [snd].
      destruct (IHa ((p'', a) :: more) close (e :: es') acc r3 tl Hclose) as (r4 & -> & ? & ? & ?).
      * cbn [xwf_args]. auto.
      * cbn [exprs_of]. rewrite Ee, Ees. reflexivity.
      * exact Hok3.
      * cbn [show_args]. rewrite <- !app_assoc. exact Hv3.
      * rewrite Hv1 in L1. cbn [length] in L1. rewrite Hv3. lia.
      * eauto.
Qed.

Lemma at_end_app p l (tl : list byte) : l <> [] -> at_end p l -> at_end p (l ++ tl).
Proof. destruct l as [|b l]; [congruence|]. intros _ H. exact H. Qed.

Lemma getter_step f : P_args f -> P_getter (S f).
Proof.
  intros IHa x e r w tl Hwf He Hw Hok Hv Hfol Hlen. rewrite read_getter_S. cbv zeta.
  destruct (show_head x Hwf) as (b0 & l0 & Hsh & Hhead & Hpad & H41).
  destruct (pad_byte_false b0 Hpad) as [Hb0ws _].
  destruct (eat_whitespace_spec w r (show x ++ tl) Hok Hw) as (Hv1 & Hok1);
    [rewrite Hsh; exact Hb0ws|exact Hv|].
  set (r1 := eat_whitespace r) in *.
  assert (L1 : (length (view r1) <= length (view r))%nat) by (rewrite Hv1, Hv; lens).
  clearbody r1.
  assert (Hv1' : view r1 = b0 :: l0 ++ tl) by (rewrite Hv1, Hsh; reflexivity).
  destruct (peek_cons r1 b0 _ Hok1 Hv1') as (r2 & -> & Hv2 & Hc2 & Hok2).
  cbv beta iota zeta.
  assert (Hv2' : view r2 = show x ++ tl) by (rewrite Hv2, Hsh; reflexivity).
  destruct x as [ups p|t|n|n|pl n pr|k sp|name dot args close]; cbn [head_ok] in Hhead.
  - (* extractor *)
    rewrite Hhead. cbn [expr_of] in He. injection He as <-.
    apply parse_extractor_spec; assumption.
  - (* JSON literal *)
    destruct Hhead as (-> & -> & -> & -> & ->).
    cbn [expr_of] in He. destruct (value_of t) as [v|] eqn:Ev; [|discriminate].
    cbn [option_map] in He. injection He as <-. cbn [xwf] in Hwf. cbn [xfollow] in Hfol.
    unfold next_json_value.
    destruct (parse_value_render (parse_fuel r2) t v [] tl r2 Hwf Ev (Forall_nil _)
                (json_follow_follow t tl Hfol) Hok2 Hv2') as (r3 & E & Hv3 & Hok3).
    { pose proof (view_len_cur r2 b0 Hok2 Hc2). unfold parse_fuel. lia. }
    pose proof (next_json_value_good r2 (good_of r2 (b0 :: l0 ++ tl) Hok2 Hc2 Hv2)) as G.
    unfold next_json_value in G. rewrite E in G |- *. cbn [snd] in G. destruct G as [_ G].
    rewrite Hv3 in G. eauto.
  - (* variable *)
    subst b0. ground_mem. ground_eqb. cbv iota. cbn [expr_of] in He. injection He as <-.
    apply (parse_get_variable_spec false n r2 tl Hwf Hfol Hok2 Hv2').
  - (* macro *)
    subst b0. ground_mem. ground_eqb. cbv iota. cbn [expr_of] in He. injection He as <-.
    apply (parse_get_variable_spec true n r2 tl Hwf Hfol Hok2 Hv2').
  - (* selected name *)
    subst b0. ground_mem. ground_eqb. cbv iota. cbn [expr_of] in He. injection He as <-.
    apply (parse_get_selection_spec pl n pr r2 tl Hwf Hok2 Hc2 Hv2').
  - (* input context *)
    subst b0. ground_mem. ground_eqb. cbv iota. cbn [expr_of] in He. injection He as <-.
    apply (parse_input_context_spec k sp r2 tl Hwf Hfol Hok2 Hc2 Hv2').
  - (* function call *)
    subst b0. ground_mem. ground_eqb. cbv iota.
    rewrite (eat_whitespace_cur r2 40 Hc2 eq_refl).
    rewrite expr_of_call in He. destruct (exprs_of args) as [es|] eqn:Ees; [|discriminate].
    unfold call_of in He.
    destruct (find_function name fn_table) as [[[canon mn] mx]|] eqn:Ef; [|discriminate].
    destruct (arity_ok (length (dot_args dot ++ es)) mn mx) eqn:Ea; [|discriminate].
    injection He as <-.
    destruct (resolved_name_clean name canon mn mx Ef) as (Hstop & Hascii & Hnodot).
    apply xwf_call in Hwf. destruct Hwf as (Hnend & Hclose & Hargs).
    rewrite show_call in Hv2'. cbn [app] in Hv2'.
    set (dotb := if dot then [46] else []) in *.
    assert (Hv2'' : view r2 = 40 :: (dotb ++ name) ++ show_args args close ++ tl).
    { rewrite Hv2'. rewrite <- !app_assoc. reflexivity. }
    assert (Hdstop : Forall (fun b => fname_stop b = false) (dotb ++ name)).
    { apply Forall_app. split; [|exact Hstop]. subst dotb. destruct dot; repeat constructor. }
    assert (Hdascii : Forall (fun b => b < 128) (dotb ++ name)).
    { apply Forall_app. split; [|exact Hascii]. subst dotb. destruct dot; repeat constructor. }
    destruct (show_args_head args close Hargs) as (ba & la & Esa).
    destruct (read_until_spec fname_stop (dotb ++ name) (fuel_of r2) [] r2 40
                (show_args args close ++ tl) Hok2 Hc2 Hv2'' Hdstop) as (r3 & E & Hv3 & Hok3 & _).
    { apply at_end_app; [rewrite Esa; discriminate|exact Hnend]. }
    { pose proof (fuel_of_view r2 Hok2) as L. rewrite Hv2'' in L. cbn [length] in L.
      rewrite app_length in L. unfold byte in *. lia. }
    rewrite E. cbn [app]. rewrite (utf8_decode_ascii _ Hdascii).
    assert (Edot : match dotb ++ name with
                   | b0 :: t => if b0 =? 46 then (true, t) else (false, dotb ++ name)
                   | [] => (false, dotb ++ name)
                   end = (dot, name)).
    { subst dotb. destruct dot; cbn [app].
      - rewrite N.eqb_refl. reflexivity.
      - destruct name as [|b1 t]; [reflexivity|]. rewrite Hnodot. reflexivity. }
    nb. rewrite Edot. rewrite Ef.
    destruct (IHa args close es (dot_args dot) r3 tl Hclose Hargs Ees Hok3 Hv3)
      as (r4 & E4 & ? & ? & ?).
    { assert (L3 : (length (view r3) < length (view r2))%nat).
      { rewrite Hv3, Hv2''. cbn [length]. rewrite !app_length. lia. }
      rewrite Hv2, <- Hv1' in L3. nb. lia. }
    unfold dot_args in E4 at 1. rewrite E4. rewrite Ea. eauto.
Qed.

Lemma getter_args_ok : forall fuel, P_getter fuel /\ P_args fuel.
Proof.
  induction fuel as [|f [IHg IHa]].
  - split; intro; intros; lia.
  - split; [apply getter_step; assumption|apply args_step; assumption].
Qed.

(* ================= P1: the reader maps every spelling to the denoted tree ================= *)
Theorem read_getter_show : forall fuel x e (w tl : list byte) r,
  xwf x -> expr_of x = Some e -> xfollow x tl -> ws_ok w -> rd_ok r ->
  view r = w ++ show x ++ tl -> (2 * length (view r) < fuel)%nat ->
  exists r', read_getter fuel r = (Some e, r') /\ view r' = tl /\ rd_ok r' /\ cur r' = hd_error tl.
Proof.
  intros fuel x e w tl r Hwf He Hfol Hw Hok Hv Hlen.
  exact (proj1 (getter_args_ok fuel) x e r w tl Hwf He Hw Hok Hv Hfol Hlen).
Qed.

(* the argument loop, for completeness *)
Theorem parse_args_show : forall fuel args close es acc (tl : list byte) r,
  pad_ok close -> xwf_args args close -> exprs_of args = Some es -> rd_ok r ->
  view r = show_args args close ++ tl -> (2 * length (view r) + 1 < fuel)%nat ->
  exists r', parse_args fuel acc r = (Some (acc ++ es), r') /\ view r' = tl /\ rd_ok r' /\
             cur r' = hd_error tl.
Proof. intros fuel args close es acc tl r. exact (proj2 (getter_args_ok fuel) args close es acc r tl). Qed.

(* ================= bytes that end every form ================= *)
Definition closes (b : byte) : bool :=
  key_stop b && not_digit b && not_extractor_start b && not_number_part b && var_stop b &&
  not_ictx_letter b.

Lemma xfollow_closes x (b : byte) l : closes b = true -> xfollow x (b :: l).
Proof.
  unfold closes. intros H.
  apply andb_true_iff in H. destruct H as [H H6]. apply andb_true_iff in H. destruct H as [H H5].
  apply andb_true_iff in H. destruct H as [H H4]. apply andb_true_iff in H. destruct H as [H H3].
  apply andb_true_iff in H. destruct H as [H1 H2].
  destruct (not_extractor_start_imp b H3) as [_ H3'].
  destruct x as [ups [[|]|sl]|t|n|n|pl n pr|k sp|name dot args close]; cbn [xfollow at_end]; auto.
  - destruct (last_sel sl) as [[k|ds]|]; cbn [sel_follow at_end]; auto.
  - destruct t; cbn [json_follow at_end]; auto.
Qed.

Lemma xfollow_nil x : xfollow x [].
Proof.
  destruct x as [ups [[|]|sl]|t|n|n|pl n pr|k sp|name dot args close]; cbn [xfollow at_end]; auto.
  - destruct (last_sel sl) as [[k|ds]|]; cbn [sel_follow at_end]; auto.
  - destruct t; cbn [json_follow at_end]; auto.
Qed.

Lemma ws_closes b : is_ws b = true -> closes b = true.
Proof. intros H. apply ws_cases in H. destruct H as [-> | [-> | [-> | ->]]]; reflexivity. Qed.

Lemma pad_closes b : is_pad_byte b = true -> closes b = true.
Proof.
  unfold is_pad_byte. intros H. apply orb_true_iff in H. destruct H as [H|H].
  - apply ws_closes; assumption.
  - apply N.eqb_eq in H. subst b. reflexivity.
Qed.

(* white space, then anything admissible, is admissible *)
Lemma xfollow_ws x (w tl : list byte) : ws_ok w -> xfollow x tl -> xfollow x (w ++ tl).
Proof.
  intros Hw Ht. destruct w as [|b w]; [exact Ht|]. inversion Hw; subst. cbn [app].
  apply xfollow_closes. apply ws_closes. assumption.
Qed.

Lemma show_nws x (tl : list byte) : xwf x -> nws (show x ++ tl).
Proof.
  intros H. destruct (show_head x H) as (b & l & -> & _ & Hp & _). cbn [app nws].
  apply pad_byte_false in Hp. tauto.
Qed.

(* ================= P2: the option parsers ================= *)
(* reading a text that starts with (blanks and) a spelling, from the beginning of the option value *)
Lemma read_option_value x e (w tl : list byte) :
  xwf x -> expr_of x = Some e -> ws_ok w -> xfollow x tl ->
  exists r', read_getter (expr_fuel (w ++ show x ++ tl))
                         (eat_whitespace (reader_of_bytes (w ++ show x ++ tl))) = (Some e, r') /\
             view r' = tl /\ rd_ok r' /\ cur r' = hd_error tl.
Proof.
  intros Hwf He Hw Hfol. set (src := w ++ show x ++ tl).
  destruct (eat_whitespace_spec w (reader_of_bytes src) (show x ++ tl) (rd_ok_of_bytes src) Hw
              (show_nws x tl Hwf) (view_of_bytes src)) as (Hv1 & Hok1).
  apply (read_getter_show (expr_fuel src) x e [] tl); auto.
  - constructor.
  - rewrite Hv1. unfold expr_fuel. subst src. rewrite !app_length. unfold byte in *. lia.
Qed.

(* --filter, --split-by, --group-by: the whole value is one expression *)
Theorem parse_whole_show x e (w w' : list byte) :
  xwf x -> expr_of x = Some e -> ws_ok w -> ws_ok w' ->
  parse_whole (w ++ show x ++ w') = Some e.
Proof.
  intros Hwf He Hw Hw'. unfold parse_whole.
  destruct (read_option_value x e w w' Hwf He Hw) as (r1 & -> & Hv1 & Hok1 & _).
  { rewrite <- (app_nil_r w'). apply xfollow_ws; [assumption|apply xfollow_nil]. }
  destruct (eat_whitespace_spec w' r1 [] Hok1 Hw' I) as (Hv2 & Hok2); [rewrite app_nil_r; exact Hv1|].
  destruct (peek_nil _ Hok2 Hv2) as (r3 & -> & _). reflexivity.
Qed.

Lemma drain_peek_spec (l : list byte) : forall fuel acc r, rd_ok r -> view r = l ->
  (length l < fuel)%nat -> drain_peek fuel acc r = acc ++ l.
Proof.
  induction l as [|b l IH]; intros fuel acc r Hok Hv Hf; (destruct fuel as [|f]; [cbn in Hf; lia|]);
    cbn [drain_peek].
  - destruct (peek_nil r Hok Hv) as (r1 & -> & _). rewrite app_nil_r. reflexivity.
  - destruct (peek_cons r b l Hok Hv) as (r1 & -> & Hv1 & Hc1 & Hok1).
    destruct (next_drop r1 b l Hok1 Hc1 Hv1) as (r2 & -> & Hv2 & Hok2 & _). cbn [snd].
    rewrite (IH f (acc ++ [b]) r2 Hok2 Hv2) by (cbn in Hf; lia). rewrite <- app_assoc. reflexivity.
Qed.

(* --select without a title: the title is the text *)
Theorem parse_selection_show x e (w w' : list byte) (s : str) :
  xwf x -> expr_of x = Some e -> ws_ok w -> ws_ok w' ->
  utf8_decode (w ++ show x ++ w') = Some s ->
  parse_selection (w ++ show x ++ w') = Some (e, s).
Proof.
  intros Hwf He Hw Hw' Hs. unfold parse_selection.
  destruct (read_option_value x e w w' Hwf He Hw) as (r1 & -> & Hv1 & Hok1 & _).
  { rewrite <- (app_nil_r w'). apply xfollow_ws; [assumption|apply xfollow_nil]. }
  destruct (eat_whitespace_spec w' r1 [] Hok1 Hw' I) as (Hv2 & Hok2); [rewrite app_nil_r; exact Hv1|].
  destruct (peek_nil _ Hok2 Hv2) as (r3 & -> & _). rewrite Hs. reflexivity.
Qed.

(* --select expression=title *)
Theorem parse_selection_show_named x e (w w1 w2 title : list byte) (s : str) :
  xwf x -> expr_of x = Some e -> ws_ok w -> ws_ok w1 -> ws_ok w2 -> nws title ->
  utf8_decode title = Some s ->
  parse_selection (w ++ show x ++ w1 ++ 61 :: w2 ++ title) = Some (e, s).
Proof.
  intros Hwf He Hw Hw1 Hw2 Hnws Hs. unfold parse_selection.
  destruct (read_option_value x e w (w1 ++ 61 :: w2 ++ title) Hwf He Hw) as (r1 & -> & Hv1 & Hok1 & _).
  { apply xfollow_ws; [assumption|]. apply xfollow_closes. reflexivity. }
  destruct (eat_whitespace_spec w1 r1 _ Hok1 Hw1 (eq_refl : nws (61 :: _)) Hv1) as (Hv2 & Hok2).
  destruct (peek_cons _ 61 _ Hok2 Hv2) as (r3 & -> & Hv3 & Hc3 & Hok3).
  rewrite N.eqb_refl.
  destruct (next_drop r3 61 _ Hok3 Hc3 Hv3) as (r4 & -> & Hv4 & Hok4 & _). cbn [snd].
  destruct (eat_whitespace_spec w2 r4 title Hok4 Hw2 Hnws Hv4) as (Hv5 & Hok5).
  rewrite (drain_peek_spec title _ [] _ Hok5 Hv5).
  - cbn [app]. rewrite Hs. reflexivity.
  - pose proof (fuel_of_view _ Hok5) as L. rewrite Hv5 in L. exact L.
Qed.

(* --sort-by expression[=direction] *)
Definition upper_letter (u : N) : Prop := 65 <= u <= 90.

Lemma ci_byte_facts b u : upper_letter u -> (b = u \/ b = u + 32) ->
  b < 128 /\ upper b = u /\ is_uni_ws b = false.
Proof.
  intros [Hl Hh] Hb. assert (R : 65 <= b <= 122) by lia. split; [lia|]. split.
  - unfold upper. destruct Hb as [-> | ->].
    + rewrite (leb_false 97 u) by lia. cbn [andb]. rewrite (eqb_false u 383) by lia. reflexivity.
    + rewrite (leb_true 97 (u + 32)), (leb_true (u + 32) 122) by lia. cbn [andb]. lia.
  - unfold is_uni_ws, mem_N. cbn [existsb]. rewrite (leb_false b 13) by lia. rewrite andb_false_r.
    rewrite (leb_false 8192 b) by lia. rewrite !(eqb_false b) by lia. reflexivity.
Qed.

Lemma ci_word_facts word W : ci_word word W -> Forall upper_letter W ->
  Forall (fun b => b < 128) word /\ map upper word = W /\ Forall (fun c => is_uni_ws c = false) word.
Proof.
  induction 1 as [|b u word W Hb _ IH]; intros HW.
  - repeat split; constructor.
  - inversion HW as [|? ? Hu HW']; subst. destruct (ci_byte_facts b u Hu Hb) as (? & ? & ?).
    destruct (IH HW') as (? & ? & ?).
    repeat split; [constructor; auto|cbn [map]; congruence|constructor; auto].
Qed.

Lemma nonws_trimmed (l : str) : Forall (fun c => is_uni_ws c = false) l -> trimmed l.
Proof.
  intros H. split.
  - destruct H; cbn [no_ws_head]; auto.
  - apply Forall_rev in H. destruct H; cbn [no_ws_head]; auto.
Qed.

Lemma ws_facts b : is_ws b = true -> b < 128 /\ is_uni_ws b = true.
Proof.
  intros H. apply ws_cases in H. destruct H as [-> | [-> | [-> | ->]]]; split; reflexivity.
Qed.

Lemma ws_ok_facts (w : list byte) : ws_ok w -> Forall (fun b => b < 128) w /\ uni_ws w.
Proof.
  induction 1 as [|b w Hb _ [IH1 IH2]]; [split; constructor|].
  destruct (ws_facts b Hb). split; constructor; auto.
Qed.

Lemma dir_word_facts word dir : dir_word word dir ->
  Forall (fun b => b < 128) word /\ Forall (fun c => is_uni_ws c = false) word /\
  map upper word = match dir with Asc => map upper word | Desc => [68; 69; 83; 67] end /\
  (dir = Asc -> map upper word = [] \/ map upper word = [65; 83; 67]).
Proof.
  assert (U1 : Forall upper_letter [65; 83; 67]) by (repeat constructor; unfold upper_letter; lia).
  assert (U2 : Forall upper_letter [68; 69; 83; 67]) by (repeat constructor; unfold upper_letter; lia).
  destruct dir; cbn [dir_word].
  - intros [->|H].
    + split; [constructor|]. split; [constructor|]. split; [reflexivity|]. intros _. left. reflexivity.
    + destruct (ci_word_facts _ _ H U1) as (? & ? & ?). repeat split; auto.
  - intros H. destruct (ci_word_facts _ _ H U2) as (? & ? & ?). repeat split; auto. discriminate.
Qed.

Theorem parse_sorter_show x e (w tl : list byte) dir :
  xwf x -> expr_of x = Some e -> ws_ok w -> dir_suffix tl dir ->
  parse_sorter (w ++ show x ++ tl) = Some (e, dir).
Proof.
  intros Hwf He Hw Hd. unfold parse_sorter.
  destruct Hd as [|pl word pr dir Hpl Hpr Hword].
  - destruct (read_option_value x e w [] Hwf He Hw (xfollow_nil x)) as (r1 & -> & Hv1 & Hok1 & Hc1).
    cbn [hd_error] in Hc1.
    pose proof (read_until_eof (fun _ => false) (S (length (rest r1))) [] r1 Hok1 Hv1 Hc1) as E.
    change (fuel_of r1) with (S (S (length (rest r1)))).
    destruct (read_until (S (S (length (rest r1)))) (fun _ => false) [] r1) as [db rr].
    cbn [fst] in E. subst db. reflexivity.
  - destruct (read_option_value x e w (61 :: pl ++ word ++ pr) Hwf He Hw
                (xfollow_closes x 61 _ eq_refl)) as (r1 & -> & Hv1 & Hok1 & Hc1).
    cbn [hd_error] in Hc1.
    destruct (read_until_spec (fun _ => false) (pl ++ word ++ pr) (fuel_of r1) [] r1 61 [] Hok1 Hc1)
      as (r2 & E & _).
    { rewrite app_nil_r. exact Hv1. }
    { apply Forall_forall. reflexivity. }
    { exact I. }
    { pose proof (fuel_of_view r1 Hok1) as L. rewrite Hv1 in L. cbn [length] in L. lia. }
    rewrite E. cbn [app].
    destruct (ws_ok_facts pl Hpl) as [Apl Upl]. destruct (ws_ok_facts pr Hpr) as [Apr Upr].
    destruct (dir_word_facts word dir Hword) as (Aw & Nw & Ed & Ea).
    rewrite utf8_decode_ascii by (repeat (apply Forall_app; split); assumption).
    nb. rewrite (trim_pad pl word pr Upl Upr (nonws_trimmed word Nw)).
    destruct dir.
    + destruct (Ea eq_refl) as [-> | ->]; reflexivity.
    + rewrite Ed. reflexivity.
Qed.

(* --set @name=expression defines a macro (and name=expression a variable: its value) *)
Lemma split_eq_spec (kb : list byte) : forall acc vb, Forall (fun b => (b =? 61) = false) kb ->
  split_eq (kb ++ 61 :: vb) acc = Some (acc ++ kb, vb).
Proof.
  induction kb as [|b kb IH]; intros acc vb H; cbn [app split_eq].
  - rewrite N.eqb_refl, app_nil_r. reflexivity.
  - inversion H as [|? ? Hb H']; subst. rewrite Hb. rewrite IH by assumption.
    rewrite <- app_assoc. reflexivity.
Qed.

Theorem parse_preset_show x e (kb w w' : list byte) (k : str) :
  xwf x -> expr_of x = Some e -> ws_ok w -> ws_ok w' ->
  Forall (fun b => (b =? 61) = false) kb -> utf8_decode kb = Some k ->
  parse_preset (kb ++ 61 :: w ++ show x ++ w') =
    match trim k with
    | k0 :: m =>
        if k0 =? 64 then match m with [] => None | _ => Some (PMacro m e) end
        else match get e new_empty with Some v => Some (PVar (trim k) v) | None => None end
    | [] => None
    end.
Proof.
  intros Hwf He Hw Hw' Hkb Hk. unfold parse_preset.
  rewrite (split_eq_spec kb [] _ Hkb). cbn [app]. rewrite Hk.
  set (vb := w ++ show x ++ w').
  destruct (read_getter_show (expr_fuel vb) x e w w' (reader_of_bytes vb) Hwf He)
    as (r1 & -> & Hv1 & Hok1 & _).
  - rewrite <- (app_nil_r w'). apply xfollow_ws; [assumption|apply xfollow_nil].
  - assumption.
  - apply rd_ok_of_bytes.
  - apply view_of_bytes.
  - rewrite view_of_bytes. unfold expr_fuel. lia.
  - destruct (eat_whitespace_spec w' r1 [] Hok1 Hw' I) as (Hv2 & Hok2); [rewrite app_nil_r; exact Hv1|].
    destruct (peek_nil _ Hok2 Hv2) as (r3 & -> & _). reflexivity.
Qed.

(* ================= the plain reading of the grammar ================= *)
(* induction on spelling trees (the arguments of a call are nested in a list) *)
Lemma sexpr_ind' (P : sexpr -> Prop) :
  (forall ups p, P (XExtract ups p)) -> (forall t, P (XConst t)) -> (forall n, P (XVar n)) ->
  (forall n, P (XMacro n)) -> (forall pl n pr, P (XSelected pl n pr)) ->
  (forall k sp, P (XIctx k sp)) ->
  (forall name dot args close, Forall (fun sa => P (snd sa)) args -> P (XCall name dot args close)) ->
  forall x, P x.
Proof.
  intros H1 H2 H3 H4 H5 H6 H7. fix IH 1.
  intros [ups p|t|n|n|pl n pr|k sp|name dot args close].
  - apply H1. - apply H2. - apply H3. - apply H4. - apply H5. - apply H6.
  - apply H7. induction args as [|[s a] more IHm]; constructor; [apply IH|exact IHm].
Qed.

Lemma xwf_plain_call name dot args close :
  xwf_plain (XCall name dot args close) <-> (pad_ok close /\ xwf_plain_args args).
Proof.
  cbn [xwf_plain].
  match goal with |- (_ /\ ?F args) <-> _ => assert (E : F args <-> xwf_plain_args args) end.
  { induction args as [|[s a] more IH]; cbn [xwf_plain_args]; tauto. }
  tauto.
Qed.

Lemma show_args_plain_head args close : pad_ok close -> xwf_plain_args args ->
  exists b l, show_args args close = b :: l /\ (is_pad_byte b = true \/ b = 41).
Proof.
  destruct args as [|[s a] more]; cbn [show_args xwf_plain_args]; unfold sep_ok.
  - intros Hc _. destruct Hc as [|b close Hb _]; cbn [app]; eauto.
  - intros _ ((Hne & Hs) & _). destruct Hs as [|b s Hb _]; [congruence|]. cbn [app]. eauto.
Qed.

Lemma pad_or_close b : is_pad_byte b = true \/ b = 41 -> closes b = true /\ fname_stop b = true.
Proof.
  intros [H| ->]; [|split; reflexivity]. split; [apply pad_closes; assumption|].
  unfold is_pad_byte in H. apply orb_true_iff in H. destruct H as [H|H].
  - apply ws_cases in H. destruct H as [-> | [-> | [-> | ->]]]; reflexivity.
  - apply N.eqb_eq in H. subst b. reflexivity.
Qed.

(* non-empty separators make every follow condition inside a call true *)
Theorem xwf_plain_xwf : forall x, xwf_plain x -> xwf x.
Proof.
  apply (sexpr_ind' (fun x => xwf_plain x -> xwf x)); try (intros; assumption).
  intros name dot args close IH H. apply (proj1 (xwf_plain_call name dot args close)) in H.
  destruct H as [Hc Ha].
  apply (proj2 (xwf_call name dot args close)). destruct (show_args_plain_head args close Hc Ha) as (b & l & E & Hb).
  split; [rewrite E; cbn [at_end]; apply pad_or_close; assumption|]. split; [exact Hc|].
  clear E b l Hb. induction args as [|[s a] more IHm]; cbn [xwf_args]; [exact I|].
  inversion IH as [|? ? IHa IHmore]; subst. cbn [snd] in IHa. cbn [xwf_plain_args] in Ha. unfold sep_ok in Ha.
  destruct Ha as ((Hne & Hs) & Hpa & Hpm).
  split; [exact Hs|]. split; [apply IHa; exact Hpa|]. split; [|apply IHm; assumption].
  destruct (show_args_plain_head more close Hc Hpm) as (b & l & -> & Hb).
  apply xfollow_closes. apply pad_or_close. assumption.
Qed.

(* ================= P4: facts about the generated table ================= *)
Fixpoint nodupb (l : list (list N)) : bool :=
  match l with [] => true | x :: t => negb (existsb (list_eqb N.eqb x) t) && nodupb t end.

Lemma nodupb_NoDup l : nodupb l = true -> NoDup l.
Proof.
  induction l as [|x t IH]; cbn [nodupb]; intros H; constructor;
    apply andb_true_iff in H; destruct H as [H1 H2]; [|auto].
  intros Hin. apply negb_true_iff in H1.
  assert (E : existsb (list_eqb N.eqb x) t = true).
  { apply existsb_exists. exists x. split; [assumption|]. apply list_eqb_eq. reflexivity. }
  congruence.
Qed.

Theorem fn_names_nodup : NoDup (map e_name fn_table).
Proof. apply nodupb_NoDup. vm_compute. reflexivity. Qed.

Theorem fn_table_size : length fn_table = 192%nat.
Proof. reflexivity. Qed.

(* the number of functions: distinct canonical names *)
Fixpoint dedup (l : list (list N)) : list (list N) :=
  match l with
  | [] => []
  | x :: t => if existsb (list_eqb N.eqb x) t then dedup t else x :: dedup t
  end.

Theorem fn_count_ok :
  Gen.FnTable.fn_count = 111 /\
  N.of_nat (length (dedup (map e_canon fn_table))) = Gen.FnTable.fn_count /\
  length fn_names = 111%nat.
Proof. vm_compute. repeat split; reflexivity. Qed.

Lemma find_function_nodup (tbl : list entry) : NoDup (map e_name tbl) -> forall e, In e tbl ->
  find_function (e_name e) tbl = Some (e_canon e, e_min e, e_max e).
Proof.
  induction tbl as [|[[[n0 c0] mn0] mx0] t IH]; intros Hnd e Hin; [contradiction|].
  cbn [map] in Hnd. inversion Hnd as [|? ? Hnotin Hnd']; subst. cbn [find_function].
  destruct Hin as [<-|Hin].
  - unfold e_name. cbn [fst]. rewrite (proj2 (list_eqb_eq n0 n0) eq_refl). reflexivity.
  - destruct (list_eqb N.eqb (e_name e) n0) eqn:E.
    + apply list_eqb_eq in E. exfalso. apply Hnotin. unfold e_name at 1. cbn [fst]. rewrite <- E.
      apply in_map. exact Hin.
    + apply IH; assumption.
Qed.

(* every name and every alias resolves to its own entry *)
Theorem alias_resolves : forall e, In e fn_table ->
  find_function (e_name e) fn_table = Some (e_canon e, e_min e, e_max e).
Proof. apply find_function_nodup. exact fn_names_nodup. Qed.

(* every canonical name is a function of the enumeration Model/Fn.v *)
Theorem canonical_known :
  forallb (fun e : entry => match fn_of_canonical (e_canon e) with FUnknown _ => false | _ => true end)
          fn_table = true.
Proof. vm_compute. reflexivity. Qed.

(* every canonical name is itself a name of the table, resolving to itself *)
Theorem canonical_fixed :
  forallb (fun e : entry =>
             match find_function (e_canon e) fn_table with
             | Some (c, _, _) => list_eqb N.eqb c (e_canon e)
             | None => false
             end) fn_table = true.
Proof. vm_compute. reflexivity. Qed.

Theorem min_le_max :
  forallb (fun e : entry => match e_max e with Some m => e_min e <=? m | None => true end) fn_table = true.
Proof. vm_compute. reflexivity. Qed.

(* all names of one function carry the same arity bounds *)
Definition opt_eqb (a b : option N) : bool :=
  match a, b with Some x, Some y => x =? y | None, None => true | _, _ => false end.

Lemma opt_eqb_eq a b : opt_eqb a b = true -> a = b.
Proof.
  destruct a, b; cbn [opt_eqb]; try discriminate; [|reflexivity].
  intros H. apply N.eqb_eq in H. congruence.
Qed.

Definition same_arity_check (tbl : list entry) : bool :=
  forallb (fun e1 => forallb (fun e2 =>
    if list_eqb N.eqb (e_canon e1) (e_canon e2)
    then (e_min e1 =? e_min e2) && opt_eqb (e_max e1) (e_max e2) else true) tbl) tbl.

Theorem alias_same_arity e1 e2 : In e1 fn_table -> In e2 fn_table -> e_canon e1 = e_canon e2 ->
  e_min e1 = e_min e2 /\ e_max e1 = e_max e2.
Proof.
  intros H1 H2 Hc. assert (C : same_arity_check fn_table = true) by (vm_compute; reflexivity).
  unfold same_arity_check in C. rewrite forallb_forall in C. specialize (C e1 H1).
  rewrite forallb_forall in C. specialize (C e2 H2).
  rewrite (proj2 (list_eqb_eq _ _) Hc) in C. apply andb_true_iff in C. destruct C as [C1 C2].
  apply N.eqb_eq in C1. apply opt_eqb_eq in C2. auto.
Qed.

(* ================= P3: aliases, separators and the dot sugar are invisible ================= *)
(* at the level of the denoted tree *)
Theorem alias_same_expr n1 n2 dot args close c mn1 mx1 mn2 mx2 :
  find_function n1 fn_table = Some (c, mn1, mx1) ->
  find_function n2 fn_table = Some (c, mn2, mx2) ->
  expr_of (XCall n1 dot args close) = expr_of (XCall n2 dot args close).
Proof.
  intros F1 F2. pose proof (find_function_In _ _ _ _ _ F1) as I1.
  pose proof (find_function_In _ _ _ _ _ F2) as I2.
  destruct (alias_same_arity _ _ I1 I2 eq_refl) as [Emn Emx].
  unfold e_min, e_max in Emn, Emx. cbn [fst snd] in Emn, Emx. subst mn2 mx2.
  rewrite !expr_of_call. unfold call_of. rewrite F1, F2. reflexivity.
Qed.

Lemma exprs_of_ext args args' :
  Forall2 (fun a b : pad * sexpr => expr_of (snd a) = expr_of (snd b)) args args' ->
  exprs_of args = exprs_of args'.
Proof.
  induction 1 as [|[s a] [s' a'] l l' H _ IH]; cbn [exprs_of]; [reflexivity|].
  cbn [snd] in H. rewrite H, IH. reflexivity.
Qed.

(* blanks, commas, the padding before ')' — and, recursively, the spelling of the arguments *)
Theorem separators_same_expr name dot args args' close close' :
  Forall2 (fun a b : pad * sexpr => expr_of (snd a) = expr_of (snd b)) args args' ->
  expr_of (XCall name dot args close) = expr_of (XCall name dot args' close').
Proof. intros H. rewrite !expr_of_call, (exprs_of_ext _ _ H). reflexivity. Qed.

(* (.f x ...) = (f . x ...) = (f # x ...) *)
Theorem dot_sugar_same_expr name args close s h close' :
  expr_of (XCall name true args close) =
  expr_of (XCall name false ((s, XExtract O (PRoot h)) :: args) close').
Proof.
  rewrite !expr_of_call. cbn [exprs_of expr_of path_of]. destruct (exprs_of args); reflexivity.
Qed.

(* at the level of the reader: two spellings of the same tree are read as the same expression,
   wherever they stand *)
Theorem same_tree_same_reading x y e fuel fuel' (w w' tl tl' : list byte) r r' :
  xwf x -> xwf y -> expr_of x = Some e -> expr_of y = expr_of x ->
  xfollow x tl -> xfollow y tl' -> ws_ok w -> ws_ok w' -> rd_ok r -> rd_ok r' ->
  view r = w ++ show x ++ tl -> view r' = w' ++ show y ++ tl' ->
  (2 * length (view r) < fuel)%nat -> (2 * length (view r') < fuel')%nat ->
  fst (read_getter fuel r) = Some e /\ fst (read_getter fuel' r') = Some e.
Proof.
  intros Hx Hy Ex Ey Fx Fy Hw Hw' Hok Hok' Hv Hv' Hf Hf'. rewrite Ex in Ey.
  destruct (read_getter_show fuel x e w tl r Hx Ex Fx Hw Hok Hv Hf) as (r1 & -> & _).
  destruct (read_getter_show fuel' y e w' tl' r' Hy Ey Fy Hw' Hok' Hv' Hf') as (r2 & -> & _).
  split; reflexivity.
Qed.

Lemma parse_whole_show0 x e : xwf x -> expr_of x = Some e -> parse_whole (show x) = Some e.
Proof.
  intros Hx Ex. pose proof (parse_whole_show x e [] [] Hx Ex (Forall_nil _) (Forall_nil _)) as H.
  cbn [app] in H. rewrite app_nil_r in H. exact H.
Qed.

(* the same, through the option parsers: as a filter / splitter / grouper, as a sort key with any
   direction suffix, as a macro body *)
Theorem spelling_invisible x y e : xwf x -> xwf y -> expr_of x = Some e -> expr_of y = expr_of x ->
  parse_whole (show x) = Some e /\ parse_whole (show y) = Some e /\
  (forall tl dir, dir_suffix tl dir ->
     parse_sorter (show x ++ tl) = Some (e, dir) /\ parse_sorter (show y ++ tl) = Some (e, dir)) /\
  (forall kb k, Forall (fun b => (b =? 61) = false) kb -> utf8_decode kb = Some k ->
     parse_preset (kb ++ 61 :: show x) = parse_preset (kb ++ 61 :: show y)).
Proof.
  intros Hx Hy Ex Ey. rewrite Ex in Ey. split; [|split; [|split]].
  - apply parse_whole_show0; assumption.
  - apply parse_whole_show0; assumption.
  - intros tl dir Hd. split.
    + apply (parse_sorter_show x e [] tl dir Hx Ex (Forall_nil _) Hd).
    + apply (parse_sorter_show y e [] tl dir Hy Ey (Forall_nil _) Hd).
  - intros kb k Hkb Hk.
    pose proof (parse_preset_show x e kb [] [] k Hx Ex (Forall_nil _) (Forall_nil _) Hkb Hk) as P1.
    pose proof (parse_preset_show y e kb [] [] k Hy Ey (Forall_nil _) (Forall_nil _) Hkb Hk) as P2.
    cbn [app] in P1, P2. rewrite app_nil_r in P1, P2. exact (eq_trans P1 (eq_sym P2)).
Qed.

(* ================= P5: examples (non-vacuity) ================= *)
Definition t_size : expr := ECall F_size [EExtract O None].
Definition root : sexpr := XExtract O (PRoot false).

(* (.size) | (len .) | (count , . ) : three spelling trees, their texts, one denotation *)
Definition ex_size1 : sexpr := XCall [115; 105; 122; 101] true [] [].
Definition ex_size2 : sexpr := XCall [108; 101; 110] false [([32], root)] [].
Definition ex_size3 : sexpr := XCall [99; 111; 117; 110; 116] false [([32; 44; 32], root)] [32].

Example ex_size_texts :
  show ex_size1 = [40; 46; 115; 105; 122; 101; 41] /\
  show ex_size2 = [40; 108; 101; 110; 32; 46; 41] /\
  show ex_size3 = [40; 99; 111; 117; 110; 116; 32; 44; 32; 46; 32; 41].
Proof. repeat split; reflexivity. Qed.

Example ex_size_exprs :
  expr_of ex_size1 = Some t_size /\ expr_of ex_size2 = Some t_size /\ expr_of ex_size3 = Some t_size.
Proof. vm_compute. repeat split; reflexivity. Qed.

Ltac plain_wf := cbn; repeat (split || constructor || discriminate).

Example ex_size_wf : xwf ex_size1 /\ xwf ex_size2 /\ xwf ex_size3.
Proof. split; [|split]; apply xwf_plain_xwf; plain_wf. Qed.

(* the theorem applied: no computation of the reader involved *)
Example ex_size_by_theorem :
  parse_whole (show ex_size1) = Some t_size /\ parse_whole (show ex_size2) = Some t_size /\
  parse_whole (show ex_size3) = Some t_size.
Proof.
  destruct ex_size_wf as (W1 & W2 & W3). destruct ex_size_exprs as (E1 & E2 & E3).
  repeat split; apply parse_whole_show0; assumption.
Qed.

(* the reader run on the texts *)
Example ex_run_size1 : parse_whole [40; 46; 115; 105; 122; 101; 41] = Some t_size.
Proof. vm_compute. reflexivity. Qed.
Example ex_run_size2 : parse_whole [40; 108; 101; 110; 32; 46; 41] = Some t_size.
Proof. vm_compute. reflexivity. Qed.
Example ex_run_size3 : parse_whole [40; 99; 111; 117; 110; 116; 32; 44; 32; 46; 32; 41] = Some t_size.
Proof. vm_compute. reflexivity. Qed.
(* no blank may stand between '(' and the name: "( count , . )" names the function "" *)
Example ex_run_blank_after_paren :
  parse_whole [40; 32; 99; 111; 117; 110; 116; 32; 44; 32; 46; 32; 41] = None.
Proof. vm_compute. reflexivity. Qed.

(* (+ :v,:v) : the comma ends the variable name *)
Example ex_run_add : parse_whole [40; 43; 32; 58; 118; 44; 58; 118; 41] = Some (ECall F_add [EVar [118]; EVar [118]]).
Proof. vm_compute. reflexivity. Qed.
(* (plus :v :v) *)
Example ex_run_plus :
  parse_whole [40; 112; 108; 117; 115; 32; 58; 118; 32; 58; 118; 41] = Some (ECall F_add [EVar [118]; EVar [118]]).
Proof. vm_compute. reflexivity. Qed.

(* (get . "a") | ([] .,"a") | (.get "a") ; but in (.get"a") the name runs on to the parenthesis *)
Definition t_get_a : expr := ECall F_get [EExtract O None; EConst (JStr [97])].
Example ex_run_get1 : parse_whole [40; 103; 101; 116; 32; 46; 32; 34; 97; 34; 41] = Some t_get_a.
Proof. vm_compute. reflexivity. Qed.
Example ex_run_get2 : parse_whole [40; 91; 93; 32; 46; 44; 34; 97; 34; 41] = Some t_get_a.
Proof. vm_compute. reflexivity. Qed.
Example ex_run_get3 : parse_whole [40; 46; 103; 101; 116; 32; 34; 97; 34; 41] = Some t_get_a.
Proof. vm_compute. reflexivity. Qed.
Example ex_run_get4 : parse_whole [40; 46; 103; 101; 116; 34; 97; 34; 41] = None.
Proof. vm_compute. reflexivity. Qed.

(* every form at once:  (? (< ^.a#01 100) @m / sel / )  and  (if(< ^.a#1,100)@m,/sel/) *)
Definition str_a : str := [97].
Definition ex_big (alias_if : list byte) (idx num : list byte) (s1 s2 s3 s4 s5 : pad) (pl pr : str)
                  (close : pad) : sexpr :=
  XCall alias_if false
    [ (s1, XCall [60] false
             [ (s2, XExtract 1 (PPath [PKey str_a; PIdx idx]));
               (s3, XConst (SNum {| sn_neg := false; sn_int := num; sn_frac := None; sn_exp := None |})) ] []);
      (s4, XMacro [109]);
      (s5, XSelected pl [115; 101; 108] pr) ] close.
Definition ex_big1 := ex_big [63] [48; 49] [49; 48; 48] [32] [32] [32] [32] [32] [32] [32] [32].
Definition ex_big2 := ex_big [105; 102] [49] [49; 48; 48] [] [32] [44] [] [44] [] [] [].
(* without a separator the macro name would run on: (if(< ^.a#1,100)@m/sel/) *)
Definition ex_big3 := ex_big [105; 102] [49] [49; 48; 48] [] [32] [44] [] [] [] [] [].

Example ex_big_texts :
  show ex_big1 = [40; 63; 32; 40; 60; 32; 94; 46; 97; 35; 48; 49; 32; 49; 48; 48; 41; 32; 64; 109; 32;
                  47; 32; 115; 101; 108; 32; 47; 32; 41] /\
  show ex_big2 = [40; 105; 102; 40; 60; 32; 94; 46; 97; 35; 49; 44; 49; 48; 48; 41; 64; 109; 44;
                  47; 115; 101; 108; 47; 41].
Proof. split; reflexivity. Qed.

Ltac wf_compute := cbn; repeat (split || constructor || discriminate || (intro; discriminate)).

Example ex_big_wf : xwf ex_big1 /\ xwf ex_big2.
Proof. split; wf_compute. Qed.

Example ex_big_same : expr_of ex_big1 = expr_of ex_big2 /\ expr_of ex_big1 <> None.
Proof. vm_compute. split; [reflexivity|discriminate]. Qed.

Example ex_big_run :
  parse_whole (show ex_big1) = parse_whole (show ex_big2) /\ parse_whole (show ex_big1) = expr_of ex_big1.
Proof. vm_compute. split; reflexivity. Qed.

(* the follow condition of xwf is not idle: the same tree, not admissible, is read differently *)
Example ex_big3_not_read : expr_of ex_big3 = expr_of ex_big1 /\ parse_whole (show ex_big3) = None.
Proof. vm_compute. split; reflexivity. Qed.

(* --sort-by "(.len)=DeSc" *)
Example ex_run_sorter :
  parse_sorter [40; 46; 108; 101; 110; 41; 61; 68; 101; 83; 99] = Some (t_size, Desc).
Proof. vm_compute. reflexivity. Qed.

(* &Index_In-file *)
Example ex_run_ictx :
  parse_whole [38; 73; 110; 100; 101; 120; 95; 73; 110; 45; 102; 105; 108; 101] = Some (EIctx IIndexInFile).
Proof. vm_compute. reflexivity. Qed.

Print Assumptions read_getter_show.
Print Assumptions parse_args_show.
Print Assumptions xwf_plain_xwf.
Print Assumptions parse_whole_show.
Print Assumptions parse_selection_show.
Print Assumptions parse_selection_show_named.
Print Assumptions parse_sorter_show.
Print Assumptions parse_preset_show.
Print Assumptions alias_same_expr.
Print Assumptions separators_same_expr.
Print Assumptions dot_sugar_same_expr.
Print Assumptions same_tree_same_reading.
Print Assumptions spelling_invisible.
Print Assumptions fn_names_nodup.
Print Assumptions alias_resolves.
Print Assumptions alias_same_arity.
Print Assumptions canonical_known.
Print Assumptions fn_count_ok.
