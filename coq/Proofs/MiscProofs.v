(* MiscProofs.v — three independent facts.
   PART A: the regular-expression cache (Model/RegexCache.v) is transparent: whatever capacity is
           configured, every lookup returns what compiling the pattern afresh returns.
   PART B: UTF-8 encoding is monotone: comparing the encoded byte strings (what Rust's `String: Ord`
           does) is comparing the lists of code points (what the model's str_cmp does).
   PART C: --unique after --select: the key of a row with selections (KResults) behaves, on canonical
           values with one member order, like Leibniz equality; dedup_from keeps first occurrences. *)
From Jawk Require Import Base F64 Json Ctx PipelineSpec RegexCache.
From Jawk Require Import ReaderLemmas GroupUniqProofs.
From Coq Require Import Lia ZArith NArith ZifyBool.

#[local] Arguments N.add : simpl never.
#[local] Arguments N.mul : simpl never.
#[local] Arguments N.sub : simpl never.
#[local] Arguments N.div : simpl never.
#[local] Arguments N.modulo : simpl never.
#[local] Arguments N.eqb : simpl never.
#[local] Arguments N.ltb : simpl never.
#[local] Arguments N.leb : simpl never.

(* ================================================================================================ *)
(* PART A — the regex cache is transparent                                                          *)
(* ================================================================================================ *)
Module CacheTransparent.
Section A.
Variable R : Type.
Variable compile : str -> R.
Notation cache := (cache R).
Notation find_remove := (find_remove R).
Notation compile_regex := (compile_regex R compile).
Notation run_history := (run_history R compile).

(* every entry holds what compiling its key gives *)
Definition sound (c : cache) : Prop := Forall (fun qr => snd qr = compile (fst qr)) c.
(* the keys are pairwise distinct *)
Definition distinct (c : cache) : Prop := NoDup (map fst c).

Lemma sound_nil : sound [].
Proof. constructor. Qed.
Lemma distinct_nil : distinct [].
Proof. constructor. Qed.

Lemma sound_firstn n : forall c, sound c -> sound (firstn n c).
Proof.
  induction n as [|n IH]; intros [|qr c] Hs; cbn [firstn]; try constructor.
  - inversion Hs as [|x l Hx Hl]; subst x l. exact Hx.
  - inversion Hs as [|x l Hx Hl]; subst x l. apply IH. exact Hl.
Qed.

Lemma NoDup_firstn {A} n : forall l : list A, NoDup l -> NoDup (firstn n l).
Proof.
  induction n as [|n IH]; intros [|x l] Hnd; cbn [firstn]; try constructor.
  - inversion Hnd as [|y l' Hx Hl]; subst y l'. intros Hin. apply Hx.
    rewrite <- (firstn_skipn n l). apply in_or_app. left. exact Hin.
  - inversion Hnd as [|y l' Hx Hl]; subst y l'. apply IH. exact Hl.
Qed.

(* a hit: the entry found is the entry of p; what remains is the cache without it *)
Lemma find_remove_some p : forall c r c', find_remove p c = Some (r, c') ->
  length c = S (length c') /\
  (forall x, In x (map fst c') -> In x (map fst c)) /\
  (sound c -> r = compile p /\ sound c') /\
  (distinct c -> distinct c' /\ ~ In p (map fst c')).
Proof.
  induction c as [|[q r0] t IH]; intros r c' Hf; cbn [RegexCache.find_remove] in Hf; [discriminate Hf|].
  destruct (str_eqb p q) eqn:Epq.
  - injection Hf as <- <-. apply str_eqb_eq in Epq. subst q.
    split; [reflexivity|]. split; [intros x Hx; right; exact Hx|]. split.
    + intros Hs. inversion Hs as [|x l Hx Hl]; subst x l. split; [exact Hx|exact Hl].
    + intros Hd. unfold distinct in Hd. cbn [map fst] in Hd.
      inversion Hd as [|x l Hx Hl]; subst x l. split; [exact Hl|exact Hx].
  - destruct (find_remove p t) as [[x t']|] eqn:Ht; [|discriminate Hf].
    injection Hf as <- <-.
    destruct (IH x t' eq_refl) as [Hlen [Hsub [Hsnd Hdis]]].
    split; [cbn [length]; rewrite Hlen; reflexivity|]. split; [|split].
    + intros y [Hy|Hy]; [left; exact Hy|right; apply Hsub; exact Hy].
    + intros Hs. inversion Hs as [|y l Hy Hl]; subst y l. destruct (Hsnd Hl) as [Hr Hs'].
      split; [exact Hr|]. constructor; assumption.
    + intros Hd. unfold distinct in Hd. cbn [map fst] in Hd.
      inversion Hd as [|y l Hy Hl]; subst y l. destruct (Hdis Hl) as [Hd' Hnp].
      split.
      * unfold distinct. cbn [map fst]. constructor; [|exact Hd'].
        intros Hq. apply Hy. apply Hsub. exact Hq.
      * cbn [map fst]. intros [Hq|Hq]; [|exact (Hnp Hq)].
        subst q. rewrite (proj2 (str_eqb_eq p p) eq_refl) in Epq. discriminate Epq.
Qed.

(* a miss: p is not a key *)
Lemma find_remove_none p : forall c, find_remove p c = None -> ~ In p (map fst c).
Proof.
  induction c as [|[q r0] t IH]; intros Hf; cbn [RegexCache.find_remove] in Hf; [intros []|].
  destruct (str_eqb p q) eqn:Epq; [discriminate Hf|].
  destruct (find_remove p t) as [[x t']|] eqn:Ht; [discriminate Hf|].
  cbn [map fst]. intros [Hq|Hq]; [|exact (IH eq_refl Hq)].
  subst q. rewrite (proj2 (str_eqb_eq p p) eq_refl) in Epq. discriminate Epq.
Qed.

(* A2 *)
Theorem cache_transparent : forall cap c p, sound c -> fst (compile_regex cap c p) = compile p.
Proof.
  intros cap c p Hs. unfold RegexCache.compile_regex. destruct cap as [|cap]; [reflexivity|].
  destruct (find_remove p c) as [[r c']|] eqn:Hf; [|reflexivity].
  cbn [fst]. destruct (find_remove_some p c r c' Hf) as [_ [_ [Hsnd _]]]. apply Hsnd. exact Hs.
Qed.

(* A1 *)
Theorem compile_regex_sound : forall cap c p, sound c -> sound (snd (compile_regex cap c p)).
Proof.
  intros cap c p Hs. unfold RegexCache.compile_regex. destruct cap as [|cap]; [exact Hs|].
  destruct (find_remove p c) as [[r c']|] eqn:Hf; cbn [snd].
  - destruct (find_remove_some p c r c' Hf) as [_ [_ [Hsnd _]]]. destruct (Hsnd Hs) as [Hr Hs'].
    constructor; [exact Hr|exact Hs'].
  - apply sound_firstn. constructor; [reflexivity|exact Hs].
Qed.

(* A4: keys stay pairwise distinct *)
Theorem compile_regex_distinct : forall cap c p, distinct c -> distinct (snd (compile_regex cap c p)).
Proof.
  intros cap c p Hd. unfold RegexCache.compile_regex. destruct cap as [|cap]; [exact Hd|].
  destruct (find_remove p c) as [[r c']|] eqn:Hf; cbn [snd].
  - destruct (find_remove_some p c r c' Hf) as [_ [_ [_ Hdis]]]. destruct (Hdis Hd) as [Hd' Hnp].
    unfold distinct. cbn [map fst]. constructor; assumption.
  - unfold distinct. rewrite <- firstn_map. apply NoDup_firstn. cbn [map fst].
    constructor; [apply find_remove_none; exact Hf|exact Hd].
Qed.

(* A4: the capacity is respected *)
Theorem compile_regex_length : forall cap c p,
  length (snd (compile_regex cap c p)) <= Nat.max cap (length c).
Proof.
  intros cap c p. unfold RegexCache.compile_regex. destruct cap as [|cap]; [cbn [snd]; lia|].
  destruct (find_remove p c) as [[r c']|] eqn:Hf; cbn [snd].
  - destruct (find_remove_some p c r c' Hf) as [Hlen _]. cbn [length]. lia.
  - pose proof (firstn_le_length (S cap) ((p, compile p) :: c)). lia.
Qed.

Corollary compile_regex_within : forall cap c p, length c <= cap ->
  length (snd (compile_regex cap c p)) <= cap.
Proof. intros cap c p H. pose proof (compile_regex_length cap c p). lia. Qed.

(* the looked-up pattern is cached afterwards (unless there is no cache) *)
Theorem compile_regex_cached : forall cap c p, cap <> O ->
  exists t, snd (compile_regex cap c p) = (p, fst (compile_regex cap c p)) :: t.
Proof.
  intros cap c p Hc. unfold RegexCache.compile_regex. destruct cap as [|cap]; [contradiction|].
  destruct (find_remove p c) as [[r c']|]; cbn [fst snd firstn]; eexists; reflexivity.
Qed.

(* ---------- whole histories ---------- *)
Lemma run_history_cons cap c p t :
  run_history cap c (p :: t) =
  (fst (compile_regex cap c p) :: fst (run_history cap (snd (compile_regex cap c p)) t),
   snd (run_history cap (snd (compile_regex cap c p)) t)).
Proof.
  cbn [RegexCache.run_history]. destruct (compile_regex cap c p) as [r c1]. cbn [fst snd].
  destruct (run_history cap c1 t) as [rs c2]. reflexivity.
Qed.

Theorem history_transparent_from : forall cap ps c, sound c ->
  fst (run_history cap c ps) = map compile ps /\ sound (snd (run_history cap c ps)).
Proof.
  intros cap ps. induction ps as [|p t IH]; intros c Hs; [split; [reflexivity|exact Hs]|].
  rewrite run_history_cons. cbn [fst snd map].
  destruct (IH _ (compile_regex_sound cap c p Hs)) as [H1 H2].
  rewrite H1, (cache_transparent cap c p Hs). split; [reflexivity|exact H2].
Qed.

(* A3 *)
Theorem history_transparent : forall cap ps, fst (run_history cap [] ps) = map compile ps.
Proof. intros cap ps. apply history_transparent_from. apply sound_nil. Qed.

(* the outputs do not depend on the configured capacity, nor on what a (sound) cache held before *)
Corollary history_cap_irrelevant : forall cap1 cap2 c1 c2 ps, sound c1 -> sound c2 ->
  fst (run_history cap1 c1 ps) = fst (run_history cap2 c2 ps).
Proof.
  intros cap1 cap2 c1 c2 ps H1 H2.
  rewrite (proj1 (history_transparent_from cap1 ps c1 H1)), (proj1 (history_transparent_from cap2 ps c2 H2)).
  reflexivity.
Qed.

Theorem history_invariants : forall cap ps c, length c <= cap -> distinct c ->
  length (snd (run_history cap c ps)) <= cap /\ distinct (snd (run_history cap c ps)).
Proof.
  intros cap ps. induction ps as [|p t IH]; intros c Hl Hd; [split; assumption|].
  rewrite run_history_cons. cbn [snd].
  apply IH; [apply compile_regex_within; exact Hl|apply compile_regex_distinct; exact Hd].
Qed.

(* A4 from the empty cache *)
Theorem history_length : forall cap ps, length (snd (run_history cap [] ps)) <= cap.
Proof. intros cap ps. apply history_invariants; [cbn [length]; lia|apply distinct_nil]. Qed.
Theorem history_distinct : forall cap ps, distinct (snd (run_history cap [] ps)).
Proof. intros cap ps. apply history_invariants; [cbn [length]; lia|apply distinct_nil]. Qed.
Theorem history_sound : forall cap ps, sound (snd (run_history cap [] ps)).
Proof. intros cap ps. apply history_transparent_from. apply sound_nil. Qed.
End A.
End CacheTransparent.

Print Assumptions CacheTransparent.compile_regex_sound.
Print Assumptions CacheTransparent.cache_transparent.
Print Assumptions CacheTransparent.history_transparent.
Print Assumptions CacheTransparent.history_cap_irrelevant.
Print Assumptions CacheTransparent.compile_regex_length.
Print Assumptions CacheTransparent.compile_regex_distinct.
Print Assumptions CacheTransparent.compile_regex_cached.
Print Assumptions CacheTransparent.history_length.
Print Assumptions CacheTransparent.history_distinct.
Print Assumptions CacheTransparent.history_sound.

(* ================================================================================================ *)
(* PART B — UTF-8 encoding preserves order                                                          *)
(* ================================================================================================ *)
Module Utf8Order.
Local Open Scope N_scope.
#[local] Ltac Zify.zify_post_hook ::= Z.to_euclidean_division_equations.

Definition scalar (c : N) : Prop := is_scalar c = true.

(* x and y differ at some position both have, and the first such position holds a smaller byte in x *)
Fixpoint first_diff_lt (x y : list N) : Prop :=
  match x, y with
  | u :: x', v :: y' => u < v \/ (u = v /\ first_diff_lt x' y')
  | _, _ => False
  end.

Lemma first_diff_lt_cmp : forall x y, first_diff_lt x y ->
  forall s t, list_cmp N.compare (x ++ s) (y ++ t) = Lt.
Proof.
  induction x as [|u x IH]; intros [|v y] H s t; cbn [first_diff_lt] in H; try contradiction.
  cbn [app list_cmp]. destruct H as [H|[-> H]].
  - rewrite (proj2 (N.compare_lt_iff u v) H). reflexivity.
  - rewrite N.compare_refl. apply IH. exact H.
Qed.

Lemma first_diff_gt_cmp : forall x y, first_diff_lt y x ->
  forall s t, list_cmp N.compare (x ++ s) (y ++ t) = Gt.
Proof.
  induction x as [|u x IH]; intros [|v y] H s t; cbn [first_diff_lt] in H; try contradiction.
  cbn [app list_cmp]. destruct H as [H|[-> H]].
  - rewrite (proj2 (N.compare_gt_iff u v) H). reflexivity.
  - rewrite N.compare_refl. apply IH. exact H.
Qed.

Lemma list_cmp_refl : forall x : list N, list_cmp N.compare x x = Eq.
Proof. induction x as [|u x IH]; [reflexivity|]. cbn [list_cmp]. rewrite N.compare_refl. exact IH. Qed.

Lemma list_cmp_app_same : forall p x y : list N,
  list_cmp N.compare (p ++ x) (p ++ y) = list_cmp N.compare x y.
Proof. induction p as [|u p IH]; intros x y; [reflexivity|]. cbn [app list_cmp]. rewrite N.compare_refl. apply IH. Qed.

(* the first differing byte decides, and there is one *)
Lemma utf8_first_diff : forall a b, scalar a -> scalar b -> a < b ->
  first_diff_lt (utf8_encode_char a) (utf8_encode_char b).
Proof.
  intros a b Ha Hb Hab. unfold scalar, is_scalar in Ha, Hb. unfold utf8_encode_char.
  destruct (N.ltb_spec a 128) as [A1|A1]; [|destruct (N.ltb_spec a 2048) as [A2|A2];
    [|destruct (N.ltb_spec a 65536) as [A3|A3]]];
  (destruct (N.ltb_spec b 128) as [B1|B1]; [|destruct (N.ltb_spec b 2048) as [B2|B2];
    [|destruct (N.ltb_spec b 65536) as [B3|B3]]]);
  cbn [first_diff_lt]; try lia.
Qed.
End Utf8Order.
