(* MiscProofs.v — three independent facts.
   PART A: the regular-expression cache (Model/RegexCache.v) is transparent: whatever capacity is
           configured, every lookup returns what compiling the pattern afresh returns.
   PART B: UTF-8 encoding is monotone: comparing the encoded byte strings (what Rust's `String: Ord`
           does) is comparing the lists of code points (what the model's str_cmp does).
   PART C: --unique after --select: the key of a row with selections (KResults) behaves, on canonical
           values with one member order, like Leibniz equality; dedup_from keeps first occurrences. *)
From Jawk Require Import Base F64 Json Ctx PipelineSpec RegexCache.
From Jawk Require Import ReaderLemmas GroupUniqProofs.
From Coq Require Import Lia ZArith NArith ZifyBool.

#[local] Arguments N.add : simpl never.
#[local] Arguments N.mul : simpl never.
#[local] Arguments N.sub : simpl never.
#[local] Arguments N.div : simpl never.
#[local] Arguments N.modulo : simpl never.
#[local] Arguments N.eqb : simpl never.
#[local] Arguments N.ltb : simpl never.
#[local] Arguments N.leb : simpl never.

(* ================================================================================================ *)
(* PART A — the regex cache is transparent                                                          *)
(* ================================================================================================ *)
Module CacheTransparent.
Section A.
Variable R : Type.
Variable compile : str -> R.
Notation cache := (cache R).
Notation find_remove := (find_remove R).
Notation compile_regex := (compile_regex R compile).
Notation run_history := (run_history R compile).

(* every entry holds what compiling its key gives *)
Definition sound (c : cache) : Prop := Forall (fun qr => snd qr = compile (fst qr)) c.
(* the keys are pairwise distinct *)
Definition distinct (c : cache) : Prop := NoDup (map fst c).

Lemma sound_nil : sound [].
Proof. constructor. Qed.
Lemma distinct_nil : distinct [].
Proof. constructor. Qed.

Lemma sound_firstn n : forall c, sound c -> sound (firstn n c).
Proof.
  induction n as [|n IH]; intros [|qr c] Hs; cbn [firstn]; try constructor.
  - inversion Hs as [|x l Hx Hl]; subst x l. exact Hx.
  - inversion Hs as [|x l Hx Hl]; subst x l. apply IH. exact Hl.
Qed.

Lemma NoDup_firstn {A} n : forall l : list A, NoDup l -> NoDup (firstn n l).
Proof.
  induction n as [|n IH]; intros [|x l] Hnd; cbn [firstn]; try constructor.
  - inversion Hnd as [|y l' Hx Hl]; subst y l'. intros Hin. apply Hx.
    rewrite <- (firstn_skipn n l). apply in_or_app. left. exact Hin.
  - inversion Hnd as [|y l' Hx Hl]; subst y l'. apply IH. exact Hl.
Qed.

(* a hit: the entry found is the entry of p; what remains is the cache without it *)
Lemma find_remove_some p : forall c r c', find_remove p c = Some (r, c') ->
  length c = S (length c') /\
  (forall x, In x (map fst c') -> In x (map fst c)) /\
  (sound c -> r = compile p /\ sound c') /\
  (distinct c -> distinct c' /\ ~ In p (map fst c')).
Proof.
  induction c as [|[q r0] t IH]; intros r c' Hf; cbn [RegexCache.find_remove] in Hf; [discriminate Hf|].
  destruct (str_eqb p q) eqn:Epq.
  - injection Hf as <- <-. apply str_eqb_eq in Epq. subst q.
    split; [reflexivity|]. split; [intros x Hx; right; exact Hx|]. split.
    + intros Hs. inversion Hs as [|x l Hx Hl]; subst x l. split; [exact Hx|exact Hl].
    + intros Hd. unfold distinct in Hd. cbn [map fst] in Hd.
      inversion Hd as [|x l Hx Hl]; subst x l. split; [exact Hl|exact Hx].
  - destruct (find_remove p t) as [[x t']|] eqn:Ht; [|discriminate Hf].
    injection Hf as <- <-.
    destruct (IH x t' eq_refl) as [Hlen [Hsub [Hsnd Hdis]]].
    split; [cbn [length]; rewrite Hlen; reflexivity|]. split; [|split].
    + intros y [Hy|Hy]; [left; exact Hy|right; apply Hsub; exact Hy].
    + intros Hs. inversion Hs as [|y l Hy Hl]; subst y l. destruct (Hsnd Hl) as [Hr Hs'].
      split; [exact Hr|]. constructor; assumption.
    + intros Hd. unfold distinct in Hd. cbn [map fst] in Hd.
      inversion Hd as [|y l Hy Hl]; subst y l. destruct (Hdis Hl) as [Hd' Hnp].
      split.
      * unfold distinct. cbn [map fst]. constructor; [|exact Hd'].
        intros Hq. apply Hy. apply Hsub. exact Hq.
      * cbn [map fst]. intros [Hq|Hq]; [|exact (Hnp Hq)].
        subst q. rewrite (proj2 (str_eqb_eq p p) eq_refl) in Epq. discriminate Epq.
Qed.

(* a miss: p is not a key *)
Lemma find_remove_none p : forall c, find_remove p c = None -> ~ In p (map fst c).
Proof.
  induction c as [|[q r0] t IH]; intros Hf; cbn [RegexCache.find_remove] in Hf; [intros []|].
  destruct (str_eqb p q) eqn:Epq; [discriminate Hf|].
  destruct (find_remove p t) as [[x t']|] eqn:Ht; [discriminate Hf|].
  cbn [map fst]. intros [Hq|Hq]; [|exact (IH eq_refl Hq)].
  subst q. rewrite (proj2 (str_eqb_eq p p) eq_refl) in Epq. discriminate Epq.
Qed.

(* A2 *)
Theorem cache_transparent : forall cap c p, sound c -> fst (compile_regex cap c p) = compile p.
Proof.
  intros cap c p Hs. unfold RegexCache.compile_regex. destruct cap as [|cap]; [reflexivity|].
  destruct (find_remove p c) as [[r c']|] eqn:Hf; [|reflexivity].
  cbn [fst]. destruct (find_remove_some p c r c' Hf) as [_ [_ [Hsnd _]]]. apply Hsnd. exact Hs.
Qed.

(* A1 *)
Theorem compile_regex_sound : forall cap c p, sound c -> sound (snd (compile_regex cap c p)).
Proof.
  intros cap c p Hs. unfold RegexCache.compile_regex. destruct cap as [|cap]; [exact Hs|].
  destruct (find_remove p c) as [[r c']|] eqn:Hf; cbn [snd].
  - destruct (find_remove_some p c r c' Hf) as [_ [_ [Hsnd _]]]. destruct (Hsnd Hs) as [Hr Hs'].
    constructor; [exact Hr|exact Hs'].
  - apply sound_firstn. constructor; [reflexivity|exact Hs].
Qed.

(* A4: keys stay pairwise distinct *)
Theorem compile_regex_distinct : forall cap c p, distinct c -> distinct (snd (compile_regex cap c p)).
Proof.
  intros cap c p Hd. unfold RegexCache.compile_regex. destruct cap as [|cap]; [exact Hd|].
  destruct (find_remove p c) as [[r c']|] eqn:Hf; cbn [snd].
  - destruct (find_remove_some p c r c' Hf) as [_ [_ [_ Hdis]]]. destruct (Hdis Hd) as [Hd' Hnp].
    unfold distinct. cbn [map fst]. constructor; assumption.
  - unfold distinct. rewrite <- firstn_map. apply NoDup_firstn. cbn [map fst].
    constructor; [apply find_remove_none; exact Hf|exact Hd].
Qed.

(* A4: the capacity is respected *)
Theorem compile_regex_length : forall cap c p,
  length (snd (compile_regex cap c p)) <= Nat.max cap (length c).
Proof.
  intros cap c p. unfold RegexCache.compile_regex. destruct cap as [|cap]; [cbn [snd]; lia|].
  destruct (find_remove p c) as [[r c']|] eqn:Hf; cbn [snd].
  - destruct (find_remove_some p c r c' Hf) as [Hlen _]. cbn [length]. lia.
  - pose proof (firstn_le_length (S cap) ((p, compile p) :: c)). lia.
Qed.

Corollary compile_regex_within : forall cap c p, length c <= cap ->
  length (snd (compile_regex cap c p)) <= cap.
Proof. intros cap c p H. pose proof (compile_regex_length cap c p). lia. Qed.

(* the looked-up pattern is cached afterwards (unless there is no cache) *)
Theorem compile_regex_cached : forall cap c p, cap <> O ->
  exists t, snd (compile_regex cap c p) = (p, fst (compile_regex cap c p)) :: t.
Proof.
  intros cap c p Hc. unfold RegexCache.compile_regex. destruct cap as [|cap]; [contradiction|].
  destruct (find_remove p c) as [[r c']|]; cbn [fst snd firstn]; eexists; reflexivity.
Qed.

(* ---------- whole histories ---------- *)
Lemma run_history_cons cap c p t :
  run_history cap c (p :: t) =
  (fst (compile_regex cap c p) :: fst (run_history cap (snd (compile_regex cap c p)) t),
   snd (run_history cap (snd (compile_regex cap c p)) t)).
Proof.
  cbn [RegexCache.run_history]. destruct (compile_regex cap c p) as [r c1]. cbn [fst snd].
  destruct (run_history cap c1 t) as [rs c2]. reflexivity.
Qed.

Theorem history_transparent_from : forall cap ps c, sound c ->
  fst (run_history cap c ps) = map compile ps /\ sound (snd (run_history cap c ps)).
Proof.
  intros cap ps. induction ps as [|p t IH]; intros c Hs; [split; [reflexivity|exact Hs]|].
  rewrite run_history_cons. cbn [fst snd map].
  destruct (IH _ (compile_regex_sound cap c p Hs)) as [H1 H2].
  rewrite H1, (cache_transparent cap c p Hs). split; [reflexivity|exact H2].
Qed.

(* A3 *)
Theorem history_transparent : forall cap ps, fst (run_history cap [] ps) = map compile ps.
Proof. intros cap ps. apply history_transparent_from. apply sound_nil. Qed.

(* the outputs do not depend on the configured capacity, nor on what a (sound) cache held before *)
Corollary history_cap_irrelevant : forall cap1 cap2 c1 c2 ps, sound c1 -> sound c2 ->
  fst (run_history cap1 c1 ps) = fst (run_history cap2 c2 ps).
Proof.
  intros cap1 cap2 c1 c2 ps H1 H2.
  rewrite (proj1 (history_transparent_from cap1 ps c1 H1)), (proj1 (history_transparent_from cap2 ps c2 H2)).
  reflexivity.
Qed.

Theorem history_invariants : forall cap ps c, length c <= cap -> distinct c ->
  length (snd (run_history cap c ps)) <= cap /\ distinct (snd (run_history cap c ps)).
Proof.
  intros cap ps. induction ps as [|p t IH]; intros c Hl Hd; [split; assumption|].
  rewrite run_history_cons. cbn [snd].
  apply IH; [apply compile_regex_within; exact Hl|apply compile_regex_distinct; exact Hd].
Qed.

(* A4 from the empty cache *)
Theorem history_length : forall cap ps, length (snd (run_history cap [] ps)) <= cap.
Proof. intros cap ps. apply history_invariants; [cbn [length]; lia|apply distinct_nil]. Qed.
Theorem history_distinct : forall cap ps, distinct (snd (run_history cap [] ps)).
Proof. intros cap ps. apply history_invariants; [cbn [length]; lia|apply distinct_nil]. Qed.
Theorem history_sound : forall cap ps, sound (snd (run_history cap [] ps)).
Proof. intros cap ps. apply history_transparent_from. apply sound_nil. Qed.
End A.
End CacheTransparent.

(* ================================================================================================ *)
(* PART B — UTF-8 encoding preserves order                                                          *)
(* ================================================================================================ *)
Module Utf8Order.
Local Open Scope N_scope.
#[local] Ltac Zify.zify_post_hook ::= Z.to_euclidean_division_equations.

Definition scalar (c : N) : Prop := is_scalar c = true.

(* x and y differ at some position both have, and the first such position holds a smaller byte in x *)
Fixpoint first_diff_lt (x y : list N) : Prop :=
  match x, y with
  | u :: x', v :: y' => u < v \/ (u = v /\ first_diff_lt x' y')
  | _, _ => False
  end.

Lemma first_diff_lt_cmp : forall x y, first_diff_lt x y ->
  forall s t, list_cmp N.compare (x ++ s) (y ++ t) = Lt.
Proof.
  induction x as [|u x IH]; intros [|v y] H s t; cbn [first_diff_lt] in H; try contradiction.
  cbn [app list_cmp]. destruct H as [H|[-> H]].
  - rewrite (proj2 (N.compare_lt_iff u v) H). reflexivity.
  - rewrite N.compare_refl. apply IH. exact H.
Qed.

Lemma first_diff_gt_cmp : forall x y, first_diff_lt y x ->
  forall s t, list_cmp N.compare (x ++ s) (y ++ t) = Gt.
Proof.
  induction x as [|u x IH]; intros [|v y] H s t; cbn [first_diff_lt] in H; try contradiction.
  cbn [app list_cmp]. destruct H as [H|[-> H]].
  - rewrite (proj2 (N.compare_gt_iff u v) H). reflexivity.
  - rewrite N.compare_refl. apply IH. exact H.
Qed.

Lemma list_cmp_refl : forall x : list N, list_cmp N.compare x x = Eq.
Proof. induction x as [|u x IH]; [reflexivity|]. cbn [list_cmp]. rewrite N.compare_refl. exact IH. Qed.

Lemma list_cmp_app_same : forall p x y : list N,
  list_cmp N.compare (p ++ x) (p ++ y) = list_cmp N.compare x y.
Proof. induction p as [|u p IH]; intros x y; [reflexivity|]. cbn [app list_cmp]. rewrite N.compare_refl. apply IH. Qed.

(* the first differing byte decides, and there is one *)
Lemma utf8_first_diff : forall a b, scalar a -> scalar b -> a < b ->
  first_diff_lt (utf8_encode_char a) (utf8_encode_char b).
Proof.
  intros a b Ha Hb Hab. unfold scalar, is_scalar in Ha, Hb. unfold utf8_encode_char.
  destruct (N.ltb_spec a 128) as [A1|A1]; [|destruct (N.ltb_spec a 2048) as [A2|A2];
    [|destruct (N.ltb_spec a 65536) as [A3|A3]]];
  (destruct (N.ltb_spec b 128) as [B1|B1]; [|destruct (N.ltb_spec b 2048) as [B2|B2];
    [|destruct (N.ltb_spec b 65536) as [B3|B3]]]);
  cbn [first_diff_lt]; lia.
Qed.

Lemma utf8_encode_char_nonempty : forall c, exists b l, utf8_encode_char c = b :: l.
Proof.
  intros c. unfold utf8_encode_char.
  destruct (c <? 128); [|destruct (c <? 2048); [|destruct (c <? 65536)]]; eexists; eexists; reflexivity.
Qed.

(* the order of two encodings is not disturbed by whatever follows them *)
Lemma utf8_encode_char_order_app : forall a b s t, scalar a -> scalar b -> a < b ->
  list_cmp N.compare (utf8_encode_char a ++ s) (utf8_encode_char b ++ t) = Lt.
Proof. intros a b s t Ha Hb Hab. apply first_diff_lt_cmp. apply utf8_first_diff; assumption. Qed.

(* B1 *)
Theorem utf8_encode_char_order : forall a b, is_scalar a = true -> is_scalar b = true -> a < b ->
  list_cmp N.compare (utf8_encode_char a) (utf8_encode_char b) = Lt.
Proof.
  intros a b Ha Hb Hab.
  rewrite <- (app_nil_r (utf8_encode_char a)), <- (app_nil_r (utf8_encode_char b)).
  apply utf8_encode_char_order_app; assumption.
Qed.

(* B2: prefix-free (and injective): if two encodings, each followed by anything, give the same bytes,
   the code points are the same; in particular no encoding is a proper prefix of another one *)
Theorem utf8_prefix_free : forall a b l l', scalar a -> scalar b ->
  utf8_encode_char a ++ l = utf8_encode_char b ++ l' -> a = b.
Proof.
  intros a b l l' Ha Hb Heq.
  destruct (N.lt_total a b) as [Hab|[Hab|Hab]]; [|exact Hab|]; exfalso.
  - pose proof (utf8_encode_char_order_app a b l l' Ha Hb Hab) as H.
    rewrite Heq, list_cmp_refl in H. discriminate H.
  - pose proof (utf8_encode_char_order_app b a l' l Hb Ha Hab) as H.
    rewrite Heq, list_cmp_refl in H. discriminate H.
Qed.

Corollary utf8_no_proper_prefix : forall a b l, scalar a -> scalar b ->
  utf8_encode_char a ++ l = utf8_encode_char b -> a = b /\ l = [].
Proof.
  intros a b l Ha Hb Heq. rewrite <- (app_nil_r (utf8_encode_char b)) in Heq.
  pose proof (utf8_prefix_free a b l [] Ha Hb Heq) as Hab. subst b.
  split; [reflexivity|]. apply app_inv_head in Heq. exact Heq.
Qed.

Corollary utf8_encode_char_inj : forall a b, scalar a -> scalar b ->
  utf8_encode_char a = utf8_encode_char b -> a = b.
Proof.
  intros a b Ha Hb Heq. apply (utf8_prefix_free a b [] [] Ha Hb). rewrite Heq. reflexivity.
Qed.

(* B3 *)
Theorem utf8_order : forall s t, Forall scalar s -> Forall scalar t ->
  list_cmp N.compare (utf8_encode s) (utf8_encode t) = list_cmp N.compare s t.
Proof.
  unfold utf8_encode.
  induction s as [|a s IH]; intros [|b t] Hs Ht; cbn [flat_map list_cmp].
  - reflexivity.
  - destruct (utf8_encode_char_nonempty b) as [x [l ->]]. reflexivity.
  - destruct (utf8_encode_char_nonempty a) as [x [l ->]]. reflexivity.
  - inversion Hs as [|a' s' Ha Hs']; subst a' s'. inversion Ht as [|b' t' Hb Ht']; subst b' t'.
    destruct (N.compare_spec a b) as [Hab|Hab|Hab].
    + subst b. rewrite list_cmp_app_same. apply IH; assumption.
    + apply utf8_encode_char_order_app; assumption.
    + apply first_diff_gt_cmp. apply utf8_first_diff; assumption.
Qed.

(* the same with the model's names: comparing the bytes is str_cmp, hence the byte order is a
   total order on strings that agrees with code point order; equal bytes iff equal strings *)
Corollary utf8_order_str_cmp : forall s t, Forall scalar s -> Forall scalar t ->
  list_cmp N.compare (utf8_encode s) (utf8_encode t) = str_cmp s t.
Proof. exact utf8_order. Qed.
End Utf8Order.

(* ================================================================================================ *)
(* PART C — --unique on rows with selections                                                        *)
(* ================================================================================================ *)
Module UniqueSelected.

(* a selected value: absent, or present and canonical *)
Definition ocanonical (o : option json) : Prop :=
  match o with Some v => canonical v | None => True end.
Definition osame_order (a b : option json) : Prop :=
  match a, b with Some x, Some y => same_order x y | _, _ => True end.

Definition canonical_key (k : ckey) : Prop :=
  match k with
  | KValue v => canonical v
  | KResults l => Forall ocanonical l
  end.

(* same constructor, same length, corresponding present values list their members in the same order *)
Definition same_shape (k k' : ckey) : Prop :=
  match k, k' with
  | KValue a, KValue b => same_order a b
  | KResults x, KResults y => length x = length y /\ pairwise osame_order x y
  | _, _ => False
  end.

(* the weaker relation that suffices: wherever both keys have a present value, the member orders agree
   (keys of different constructors or lengths are unequal for ckey_eqb and for = alike) *)
Definition compat_order (k k' : ckey) : Prop :=
  match k, k' with
  | KValue a, KValue b => same_order a b
  | KResults x, KResults y => pairwise osame_order x y
  | _, _ => True
  end.

Lemma same_shape_compat k k' : same_shape k k' -> compat_order k k'.
Proof. destruct k as [a|x], k' as [b|y]; cbn [same_shape compat_order]; try tauto. Qed.

Lemma osame_order_refl o : osame_order o o.
Proof. destruct o as [v|]; [apply same_order_refl|exact I]. Qed.

Lemma same_shape_refl k : same_shape k k.
Proof.
  destruct k as [a|x]; cbn [same_shape]; [apply same_order_refl|]. split; [reflexivity|].
  induction x as [|o x IH]; [exact I|]. cbn [pairwise]. split; [apply osame_order_refl|exact IH].
Qed.

Lemma ojeqb_refl o : ocanonical o -> ojeqb o o = true.
Proof. destruct o as [v|]; cbn [ocanonical ojeqb]; [apply jeqb_refl|reflexivity]. Qed.

Lemma ojeqb_canonical_eq a b :
  ocanonical a -> ocanonical b -> osame_order a b -> ojeqb a b = true -> a = b.
Proof.
  destruct a as [x|], b as [y|]; cbn [ocanonical osame_order ojeqb]; intros Ca Cb So H;
    try discriminate H; [|reflexivity].
  f_equal. apply jeqb_canonical_eq; assumption.
Qed.

Lemma results_eqb_refl : forall l, Forall ocanonical l -> list_eqb ojeqb l l = true.
Proof.
  induction l as [|o l IH]; intros Hc; [reflexivity|].
  inversion Hc as [|o' l' Ho Hl]; subst o' l'. cbn [list_eqb].
  rewrite (ojeqb_refl o Ho), (IH Hl). reflexivity.
Qed.

Lemma results_eqb_eq : forall x y, Forall ocanonical x -> Forall ocanonical y ->
  pairwise osame_order x y -> list_eqb ojeqb x y = true -> x = y.
Proof.
  induction x as [|a x IH]; intros [|b y] Cx Cy Hp H; cbn [list_eqb] in H;
    try discriminate H; [reflexivity|].
  inversion Cx as [|a' x' Ca Cx']; subst a' x'. inversion Cy as [|b' y' Cb Cy']; subst b' y'.
  cbn [pairwise] in Hp. destruct Hp as [Sab Hp].
  apply Bool.andb_true_iff in H as [H1 H2].
  rewrite (ojeqb_canonical_eq a b Ca Cb Sab H1), (IH y Cx' Cy' Hp H2). reflexivity.
Qed.

(* the key comparison is reflexive on canonical keys *)
Theorem ckey_eqb_refl : forall k, canonical_key k -> ckey_eqb k k = true.
Proof.
  intros [v|l]; cbn [canonical_key ckey_eqb]; intros Hc; [apply jeqb_refl|apply results_eqb_refl]; exact Hc.
Qed.

Theorem ckey_eqb_compat_iff : forall k k', canonical_key k -> canonical_key k' -> compat_order k k' ->
  (ckey_eqb k k' = true <-> k = k').
Proof.
  intros k k' Ck Ck' Hso. split; [|intros <-; apply ckey_eqb_refl; exact Ck].
  destruct k as [a|x], k' as [b|y]; cbn [canonical_key compat_order ckey_eqb] in *; intros H;
    try discriminate H; f_equal.
  - apply jeqb_canonical_eq; assumption.
  - apply results_eqb_eq; assumption.
Qed.

(* on canonical keys of the same shape the key comparison is Leibniz equality *)
Theorem ckey_eqb_canonical_iff : forall k k', canonical_key k -> canonical_key k' -> same_shape k k' ->
  (ckey_eqb k k' = true <-> k = k').
Proof. intros k k' Ck Ck' Hs. apply ckey_eqb_compat_iff; [exact Ck|exact Ck'|apply same_shape_compat; exact Hs]. Qed.

(* keys that differ in constructor or length are unequal both ways, whatever their contents *)
Lemma ckey_eqb_length : forall x y, ckey_eqb (KResults x) (KResults y) = true -> length x = length y.
Proof.
  cbn [ckey_eqb]. induction x as [|a x IH]; intros [|b y] H; cbn [list_eqb] in H; try discriminate H; [reflexivity|].
  apply Bool.andb_true_iff in H as [_ H]. cbn [length]. f_equal. apply IH. exact H.
Qed.

(* what the key of a row is *)
Lemma key_no_selection {E} (c : ctx E) : results c = [] -> key c = KValue (input c).
Proof. intros H. unfold key. rewrite H. reflexivity. Qed.
Lemma key_selection {E} (c : ctx E) : results c <> [] -> key c = KResults (map snd (results c)).
Proof. intros H. unfold key, to_list. destruct (results c); [contradiction|reflexivity]. Qed.

Lemma FOP_impl_in {A} (R S : A -> A -> Prop) : forall l,
  (forall a b, In a l -> In b l -> R a b -> S a b) -> ForallOrdPairs R l -> ForallOrdPairs S l.
Proof.
  intros l HRS HR. induction HR as [|a l Ha Hl IH]; [constructor|]. constructor.
  - apply Forall_forall. intros b Hb. apply HRS; [left; reflexivity|right; exact Hb|].
    exact (proj1 (Forall_forall _ _) Ha b Hb).
  - apply IH. intros x y Hx Hy. apply HRS; right; assumption.
Qed.

(* rows with or without selections; canonical keys; pairwise compatible member order *)
Theorem dedup_canonical_rows : forall E (cs : list (ctx E)),
  (forall c, In c cs -> canonical_key (key c)) ->
  (forall c c', In c cs -> In c' cs -> compat_order (key c) (key c')) ->
  (forall c c', In c cs -> In c' cs -> (ckey_eqb (key c) (key c') = true <-> key c = key c')) /\
  dedup_from E [] cs = dedup_all E [] cs /\
  ForallOrdPairs (fun a b => key a <> key b) (dedup_from E [] cs) /\
  (forall c, In c cs -> exists c', In c' (dedup_from E [] cs) /\ key c = key c').
Proof.
  intros E cs Hc Hso.
  assert (Hiff : forall c c', In c cs -> In c' cs ->
                   (ckey_eqb (key c) (key c') = true <-> key c = key c')).
  { intros c c' Hi Hi'. apply ckey_eqb_compat_iff; [apply Hc; exact Hi|apply Hc; exact Hi'|apply Hso; assumption]. }
  set (P := fun k : ckey => exists c, In c cs /\ k = key c).
  assert (Hok : keys_ok E P cs).
  { apply Forall_forall. intros c Hi. exists c. split; [exact Hi|reflexivity]. }
  assert (Hrefl : forall a, P a -> ckey_eqb a a = true).
  { intros a [c [Hi ->]]. apply ckey_eqb_refl. apply Hc. exact Hi. }
  assert (Hin : forall c, In c (dedup_from E [] cs) -> In c cs) by (intros c; apply dedup_In).
  split; [exact Hiff|]. split; [|split].
  - apply (dedup_first_occurrences E P); [exact Hrefl| |exact Hok].
    intros a b c [ca [Ha ->]] [cb [Hb ->]] [cc [Hcc ->]] H1 H2.
    apply Hiff in H1; [|assumption|assumption]. apply Hiff in H2; [|assumption|assumption].
    apply Hiff; [assumption|assumption|]. rewrite H1. exact H2.
  - apply (FOP_impl_in (fun a b => ckey_eqb (key b) (key a) = false)); [|apply dedup_later_differs].
    intros a b Ha Hb Hba Heq.
    assert (Ht : ckey_eqb (key b) (key a) = true).
    { apply Hiff; [apply Hin; exact Hb|apply Hin; exact Ha|symmetry; exact Heq]. }
    rewrite Ht in Hba. discriminate Hba.
  - intros c Hi. destruct (dedup_complete E P Hrefl cs [] c Hok Hi) as [H|[c' [Hc' H]]]; [discriminate H|].
    exists c'. split; [exact Hc'|]. apply Hiff; [exact Hi|apply Hin; exact Hc'|exact H].
Qed.

(* the same, stated on the rows themselves, when every row carries selections: the selected values are
   canonical where present, and any two rows agree on member order where both have a value *)
Corollary dedup_canonical_selected : forall E (cs : list (ctx E)),
  (forall c, In c cs -> results c <> [] /\ Forall ocanonical (map snd (results c))) ->
  (forall c c', In c cs -> In c' cs -> pairwise osame_order (map snd (results c)) (map snd (results c'))) ->
  dedup_from E [] cs = dedup_all E [] cs /\
  ForallOrdPairs (fun a b => map snd (results a) <> map snd (results b)) (dedup_from E [] cs).
Proof.
  intros E cs Hc Hso.
  assert (Hkey : forall c, In c cs -> key c = KResults (map snd (results c))).
  { intros c Hi. apply key_selection. apply Hc. exact Hi. }
  destruct (dedup_canonical_rows E cs) as [_ [H1 [H2 _]]].
  - intros c Hi. rewrite (Hkey c Hi). cbn [canonical_key]. apply Hc. exact Hi.
  - intros c c' Hi Hi'. rewrite (Hkey c Hi), (Hkey c' Hi'). cbn [compat_order]. apply Hso; assumption.
  - split; [exact H1|].
    assert (Hin : forall c, In c (dedup_from E [] cs) -> In c cs) by (intros c; apply dedup_In).
    apply (FOP_impl_in (fun a b : ctx E => key a <> key b)); [|exact H2].
    intros a b Ha Hb Hab Heq. apply Hab.
    rewrite (Hkey a (Hin a Ha)), (Hkey b (Hin b Hb)), Heq. reflexivity.
Qed.
End UniqueSelected.

(* ================================================================================================ *)
Print Assumptions CacheTransparent.compile_regex_sound.
Print Assumptions CacheTransparent.cache_transparent.
Print Assumptions CacheTransparent.history_transparent.
Print Assumptions CacheTransparent.history_cap_irrelevant.
Print Assumptions CacheTransparent.compile_regex_length.
Print Assumptions CacheTransparent.compile_regex_distinct.
Print Assumptions CacheTransparent.compile_regex_cached.
Print Assumptions CacheTransparent.history_length.
Print Assumptions CacheTransparent.history_distinct.
Print Assumptions CacheTransparent.history_sound.
Print Assumptions Utf8Order.utf8_encode_char_order.
Print Assumptions Utf8Order.utf8_prefix_free.
Print Assumptions Utf8Order.utf8_no_proper_prefix.
Print Assumptions Utf8Order.utf8_order.
Print Assumptions UniqueSelected.ckey_eqb_refl.
Print Assumptions UniqueSelected.ckey_eqb_compat_iff.
Print Assumptions UniqueSelected.ckey_eqb_canonical_iff.
Print Assumptions UniqueSelected.dedup_canonical_rows.
Print Assumptions UniqueSelected.dedup_canonical_selected.
