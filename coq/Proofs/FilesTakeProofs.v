(* FilesTakeProofs.v — go_files_ignore for every well-shaped pipeline (wfp), i.e. also when a limiter that is
   not behind a sorter answers Break: read_input stops reading that input, read_files goes on with the next
   inputs, whose values are all processed by a pipeline that is `dead` (limiter exhausted): no output, same
   `complete`.  On the specification side `run` stops at the first Break. *)
From Jawk Require Import Base F64 Json Reader JsonParser Ctx Printer Fn Expr Chain ExprParser Go PipelineSpec.
From Jawk Require Import OrderProofs SorterProofs ChainProofs GoProofs BuildProofs.
From Jawk Require Import FilesProofs.
From Coq Require Import Lia.
Local Open Scope N_scope.

Notation processX := (Chain.process expr get).
Notation completeX := (Chain.complete expr get).
Notation feedX := (feed expr get).

(* the states of a pipeline whose limiter (reached through pass-through stages only) is exhausted *)
Fixpoint dead (sts : list stage) (ss : list sstate) : Prop :=
  match sts, ss with
  | SLimit sk (Some lim) :: _, StLimit skd pd :: _ => N.ltb skd sk = false /\ N.leb lim pd = true
  | (SPreSet _ _ | SSplit _ | SFilter _ | SSelect _ _ | SUniq) :: T, _ :: ss' => dead T ss'
  | _, _ => False
  end.

(* ---------- (a) after a Break the states are dead ---------- *)
Definition brk_dead (T : list stage) : Prop :=
  forall ss c ss1 o, processX T ss c = (ss1, o, Break) -> dead T ss1.

Lemma feed_break_dead T : brk_dead T ->
  forall cs ss ss1 o, feedX T cs ss = (ss1, o, Break) -> dead T ss1.
Proof.
  intros HT cs. induction cs as [|c cs IH]; intros ss ss1 o H.
  - rewrite feed_nil in H. discriminate.
  - rewrite feed_cons in H. destruct (processX T ss c) as [[sa oa] da] eqn:Ep.
    destruct da.
    + destruct (feedX T cs sa) as [[sb ob] db] eqn:Ef. inversion H; subst. eapply IH; exact Ef.
    + inversion H; subst. eapply HT; exact Ep.
Qed.

Lemma sim_brk s f T : stateless_sim expr get s f ->
  (forall c, processX (s :: T) [] c = ([], [], Continue)) ->
  (forall st ss2, dead T ss2 -> dead (s :: T) (st :: ss2)) ->
  brk_dead T -> brk_dead (s :: T).
Proof.
  intros Hs Hnil Hd HT ss c ss1 o H.
  destruct ss as [|st ss]; [rewrite Hnil in H; discriminate|].
  destruct (Hs T st ss c) as [E _]. rewrite E in H. clear E.
  destruct (feedX T (f c) ss) as [[s2 o2] d2] eqn:Ef.
  inversion H; subst. apply Hd. eapply feed_break_dead; [exact HT|exact Ef].
Qed.

Lemma process_break_dead : forall T, wfp expr T -> brk_dead T.
Proof.
  induction T as [|s T IH]; intros Hwf.
  - intros ss c ss1 o H. cbn in H. discriminate.
  - destruct s as [vs ds|e|e|n e| |k dir cap|sk tk|k| ]; cbn [wfp] in Hwf.
    + apply (sim_brk _ _ T (sim_preset expr get vs ds)); [reflexivity|intros st ss2 H0; exact H0|apply IH, Hwf].
    + apply (sim_brk _ _ T (sim_split expr get e)); [reflexivity|intros st ss2 H0; exact H0|apply IH, Hwf].
    + apply (sim_brk _ _ T (sim_filter expr get e)); [reflexivity|intros st ss2 H0; exact H0|apply IH, Hwf].
    + apply (sim_brk _ _ T (sim_select expr get n e)); [reflexivity|intros st ss2 H0; exact H0|apply IH, Hwf].
    + intros ss c ss1 o H.
      destruct ss as [|[ |seen| | | | ] ss]; cbn [Chain.process] in H; try discriminate.
      destruct (mem_key (Ctx.key c) seen); [discriminate|].
      destruct (processX T ss c) as [[s2 o2] d2] eqn:Ep. inversion H; subst. cbn [dead].
      eapply (IH Hwf); exact Ep.
    + intros ss c ss1 o H.
      pose proof (nb_continue expr get (SSort k dir cap :: T) eq_refl ss c) as Hc. rewrite H in Hc. discriminate.
    + destruct Hwf as [Hnb Hw]. intros ss c ss1 o H. destruct tk as [lim|].
      * destruct ss as [|[ | | |skd pd| | ] ss']; cbn [Chain.process] in H; try discriminate.
        destruct (N.ltb skd sk) eqn:Hsk; [discriminate|].
        destruct (N.leb lim pd) eqn:Hl.
        -- inversion H; subst. cbn [dead]. split; assumption.
        -- destruct (processX T ss' c) as [[ss2 o2] d2].
           destruct (N.leb lim (pd + 1)) eqn:Hl2; [|discriminate].
           inversion H; subst. cbn [dead]. split; assumption.
      * pose proof (nb_continue expr get (SLimit sk None :: T) Hnb ss c) as Hc. rewrite H in Hc. discriminate.
    + intros ss c ss1 o H.
      pose proof (nb_continue expr get (SGroup k :: T) eq_refl ss c) as Hc. rewrite H in Hc. discriminate.
    + intros ss c ss1 o H.
      pose proof (nb_continue expr get (SMerge :: T) eq_refl ss c) as Hc. rewrite H in Hc. discriminate.
Qed.

(* ---------- (b) dead states stay dead, output nothing, keep their `complete` ---------- *)
Definition stays_dead (T : list stage) : Prop :=
  forall ss c, dead T ss ->
    exists ss' d, processX T ss c = (ss', [], d) /\ dead T ss' /\ completeX T ss' = completeX T ss.

Lemma feed_dead T : stays_dead T -> forall cs ss, dead T ss ->
  exists ss' d, feedX T cs ss = (ss', [], d) /\ dead T ss' /\ completeX T ss' = completeX T ss.
Proof.
  intros HT cs. induction cs as [|c cs IH]; intros ss Hd.
  - rewrite feed_nil. exists ss, Continue. auto.
  - rewrite feed_cons. destruct (HT ss c Hd) as (sa & da & Ep & Hda & Hca). rewrite Ep.
    destruct da.
    + destruct (IH sa Hda) as (sb & db & Ef & Hdb & Hcb). rewrite Ef. exists sb, db. cbn [app].
      split; [reflexivity|]. split; [exact Hdb|congruence].
    + exists sa, Break. auto.
Qed.

Lemma sim_stays s f T : stateless_sim expr get s f ->
  (forall ss, dead (s :: T) ss -> exists st ss2, ss = st :: ss2 /\ dead T ss2) ->
  (forall st ss2, dead T ss2 -> dead (s :: T) (st :: ss2)) ->
  stays_dead T -> stays_dead (s :: T).
Proof.
  intros Hs H1 H2 HT ss c Hd.
  destruct (H1 ss Hd) as (st & ss2 & -> & Hd2).
  destruct (Hs T st ss2 c) as [E Hc]. rewrite E.
  destruct (feed_dead T HT (f c) ss2 Hd2) as (sb & db & Ef & Hdb & Hcb). rewrite Ef.
  exists (st :: sb), db. split; [reflexivity|]. split; [apply H2; exact Hdb|].
  rewrite !Hc. exact Hcb.
Qed.

Ltac pass_shape :=
  [> intros ss0 H0; destruct ss0 as [|st0 ss2]; [destruct H0|]; exists st0, ss2; split; [reflexivity|exact H0]
   | intros st0 ss2 H0; exact H0 ].

Lemma dead_stays : forall T, stays_dead T.
Proof.
  induction T as [|s T IH].
  - intros ss c Hd. destruct ss; exact (False_ind _ Hd).
  - destruct s as [vs ds|e|e|n e| |k dir cap|sk tk|k| ].
    + apply (sim_stays _ _ T (sim_preset expr get vs ds)); [| |exact IH]; pass_shape.
    + apply (sim_stays _ _ T (sim_split expr get e)); [| |exact IH]; pass_shape.
    + apply (sim_stays _ _ T (sim_filter expr get e)); [| |exact IH]; pass_shape.
    + apply (sim_stays _ _ T (sim_select expr get n e)); [| |exact IH]; pass_shape.
    + intros ss c Hd. destruct ss as [|st ss]; [destruct Hd|]. cbn [dead] in Hd.
      destruct st as [ |seen| | | | ]; cbn [Chain.process];
        try (do 2 eexists; split; [reflexivity|split; [exact Hd|reflexivity]]; fail).
      destruct (mem_key (Ctx.key c) seen).
      * do 2 eexists; split; [reflexivity|split; [exact Hd|reflexivity]].
      * destruct (IH ss c Hd) as (sa & da & Ep & Hda & Hca). rewrite Ep.
        exists (StUniq (Ctx.key c :: seen) :: sa), da. split; [reflexivity|]. split; [exact Hda|].
        cbn [Chain.complete]. exact Hca.
    + intros ss c Hd. exfalso. destruct ss as [|[] ss]; exact Hd.
    + intros ss c Hd. destruct tk as [lim|]; [|exfalso; destruct ss as [|[] ss]; exact Hd].
      destruct ss as [|[ | | |skd pd| | ] ss]; try (exfalso; exact Hd).
      cbn [dead] in Hd. destruct Hd as [Hsk Hl]. cbn [Chain.process]. rewrite Hsk, Hl.
      exists (StLimit skd pd :: ss), Break. split; [reflexivity|]. split; [split; assumption|reflexivity].
    + intros ss c Hd. exfalso. destruct ss as [|[] ss]; exact Hd.
    + intros ss c Hd. exfalso. destruct ss as [|[] ss]; exact Hd.
Qed.

(* ---------- the read loop ---------- *)
Section Core.
Variables (cf : cfg) (p : printer) (sts : list stage) (nt : nat).
Hypothesis Hign : c_on_error cf = OnIgnore.
Hypothesis Hwf : wfp expr sts.

(* one input, any pipeline: read_input stops at Break exactly as feed does *)
Lemma read_input_feed_gen : forall fuel r fname ss idx infile,
  no_eerr r -> io r = false ->
  snd (read_ctxs fuel (c_only_objs cf) r fname idx infile) = false ->
  let cs := fst (fst (read_ctxs fuel (c_only_objs cf) r fname idx infile)) in
  exists idx' r', read_input cf p sts nt fuel r fname ss idx infile =
    (fst (fst (feedX sts cs ss)), emit cf p nt (snd (fst (feedX sts cs ss))), idx', None, r')
    /\ (snd (feedX sts cs ss) = Continue -> idx' = idx + N.of_nat (length cs)).
Proof.
  induction fuel as [|f IH]; intros r fname ss idx infile Hn Hio Hb.
  - cbn in Hb. discriminate.
  - cbn [read_input read_ctxs] in *. cbv zeta in *.
    destruct (next_json_value r) as [res r1] eqn:E.
    destruct (next_json_value_clean r res r1 Hn Hio E) as [Hn1 Hio1].
    rewrite Hio1 in *.
    destruct res as [v| | |].
    + destruct (c_only_objs cf && negb (is_container v)).
      * apply IH; assumption.
      * set (c := new_with_input v _) in *.
        specialize (IH r1 fname).
        destruct (read_ctxs f (c_only_objs cf) r1 fname (idx + 1) (infile + 1)) as [[cs e] b] eqn:Ec.
        cbn [fst snd] in *. rewrite feed_cons.
        destruct (processX sts ss c) as [[ss1 o] d].
        destruct d.
        -- destruct (IH ss1 (idx + 1) (infile + 1) Hn1 Hio1) as (idx' & r2 & E2 & Hidx).
           { rewrite Ec. exact Hb. }
           rewrite E2. rewrite Ec in Hidx. rewrite Ec. cbn [fst] in *.
           destruct (feedX sts cs ss1) as [[ss2 o2] d2]. cbn [fst snd] in *.
           exists idx', r2. split.
           { rewrite emit_app. reflexivity. }
           intros Hd. rewrite (Hidx Hd). cbn [length]. rewrite Nat2N.inj_succ. lia.
        -- exists idx, r1. cbn [fst snd]. split; [reflexivity|]. intros Hd; discriminate.
    + exists idx, r1. cbn [fst snd length]. rewrite feed_nil. cbn [fst snd emit map N.of_nat].
      split; [reflexivity|]. intros _. lia.
    + rewrite Hign.
      specialize (IH r1 fname ss idx infile Hn1 Hio1).
      destruct (read_ctxs f (c_only_objs cf) r1 fname idx infile) as [[cs e] b] eqn:Ec.
      cbn [fst snd] in *. destruct (IH Hb) as (idx' & r2 & E2 & Hidx).
      rewrite E2. exists idx', r2. split; [reflexivity|exact Hidx].
    + cbn in Hb. discriminate.
Qed.

(* inputs read with dead states: no output, no error, same `complete`, whatever the record index *)
Lemma read_files_dead : forall ins ss idx,
  Forall (fun i => Forall (fun e => e <> EErr) (snd i)) ins -> dead sts ss ->
  exists ss' pl, read_files cf p sts nt ins ss idx = (ss', [], None, pl) /\
    dead sts ss' /\ completeX sts ss' = completeX sts ss.
Proof.
  induction ins as [|[fname evs] t IH]; intros ss idx Hall Hd.
  - cbn [read_files]. exists ss, []. auto.
  - inversion Hall as [|? ? Hevs Ht]; subst. cbn [snd] in Hevs.
    cbn [read_files].
    pose proof (read_ctxs_mk_no_stop cf fname evs idx Hevs) as Hns.
    destruct (read_input_feed_gen (input_fuel evs) (mk_reader evs) fname ss idx 0
                (no_eerr_mk evs Hevs) eq_refl Hns) as (idx' & r' & E & _).
    rewrite E. clear E.
    destruct (read_ctxs (input_fuel evs) (c_only_objs cf) (mk_reader evs) fname idx 0) as [[cs e] b].
    cbn [fst snd] in *.
    destruct (feed_dead sts (dead_stays sts) cs ss Hd) as (s1 & d1 & Ef & Hd1 & Hc1).
    rewrite Ef. cbn [fst snd emit map].
    destruct (IH s1 idx' Ht Hd1) as (s2 & pl & E2 & Hd2 & Hc2). rewrite E2.
    exists s2, (pulled r' :: pl). split; [reflexivity|]. split; [exact Hd2|congruence].
Qed.

Lemma read_files_run : forall ins ss idx,
  Forall (fun i => Forall (fun e => e <> EErr) (snd i)) ins ->
  exists ss' o pl, read_files cf p sts nt ins ss idx = (ss', o, None, pl) /\
    o ++ emit cf p nt (completeX sts ss') =
    emit cf p nt (Chain.run expr get sts ss (fst (ctxs_of_inputs cf ins idx))).
Proof.
  induction ins as [|[fname evs] t IH]; intros ss idx Hall.
  - cbn [read_files ctxs_of_inputs fst Chain.run]. exists ss, [], []. split; reflexivity.
  - inversion Hall as [|? ? Hevs Ht]; subst. cbn [snd] in Hevs.
    cbn [read_files ctxs_of_inputs].
    pose proof (read_ctxs_mk_no_stop cf fname evs idx Hevs) as Hns.
    destruct (read_input_feed_gen (input_fuel evs) (mk_reader evs) fname ss idx 0
                (no_eerr_mk evs Hevs) eq_refl Hns) as (idx' & r' & E & Hidx).
    rewrite E. clear E.
    destruct (read_ctxs (input_fuel evs) (c_only_objs cf) (mk_reader evs) fname idx 0) as [[cs e] b].
    cbn [fst snd] in *.
    destruct (feedX sts cs ss) as [[s1 o1] d1] eqn:Ef. cbn [fst snd] in *.
    destruct d1.
    + specialize (Hidx eq_refl). subst idx'.
      destruct (IH s1 (idx + N.of_nat (length cs)) Ht) as (s2 & o2 & pl & E2 & Hrun). rewrite E2.
      destruct (ctxs_of_inputs cf t (idx + N.of_nat (length cs))) as [cs2 b2]. cbn [fst] in *.
      exists s2, (emit cf p nt o1 ++ o2), (pulled r' :: pl). split; [reflexivity|].
      rewrite <- app_assoc, Hrun. rewrite !run_feed, feed_app, Ef.
      destruct (feedX sts cs2 s1) as [[s3 o3] d3].
      rewrite !emit_app. apply app_assoc.
    + destruct (ctxs_of_inputs cf t (idx + N.of_nat (length cs))) as [cs2 b2]. cbn [fst].
      assert (Hd : dead sts s1).
      { eapply feed_break_dead; [apply process_break_dead, Hwf|exact Ef]. }
      destruct (read_files_dead t s1 idx' Ht Hd) as (s2 & pl & E2 & _ & Hc2). rewrite E2.
      exists s2, (emit cf p nt o1 ++ []), (pulled r' :: pl). split; [reflexivity|].
      rewrite (run_break_prefix expr get sts ss cs s1 o1 Ef cs2).
      rewrite app_nil_r, Hc2, emit_app. reflexivity.
Qed.
End Core.

Theorem go_files_ignore_wfp : forall (cf : cfg) (ins : list (option str * list ev)) (b : bool) p sts hdr,
  c_on_error cf = OnIgnore ->
  Forall (fun i => Forall (fun e => e <> EErr) (snd i)) ins ->
  build_pipeline cf = Some (p, sts) ->
  start_output p (titles expr sts []) (c_rowsep cf) = Some hdr ->
  wfp expr sts ->
  g_result (go cf ins b) = GOk /\
  g_events (go cf ins b) =
    (match hdr with [] => [] | _ => [OOut hdr] end) ++
    emit cf p (length (titles expr sts []))
      (Chain.run expr get sts (map (init_state expr) sts) (fst (ctxs_of_inputs cf ins 0))).
Proof.
  intros cf ins b p sts hdr Hign Hall Hbp Hst Hwf.
  unfold go. rewrite Hbp. cbv zeta. rewrite Hst.
  destruct (read_files_run cf p sts (length (titles expr sts [])) Hign Hwf ins
              (map (init_state expr) sts) 0 Hall) as (ss' & o & pl & E & Hrun).
  rewrite E. cbn [g_result g_events]. split; [reflexivity|].
  rewrite Hrun. reflexivity.
Qed.

Print Assumptions go_files_ignore_wfp.
