(* K6Witness.v — known finding K6 (C14) in the model: with several inputs, the inputs after the one in which
   the T-th row was produced are still read.  `jawk --take 1 --filter '(> .a 0)' f1 f2` with f1 = {"a":1} and
   f2 = three times {"a":0}: the only row is written from f1, and all 24 bytes of f2 are pulled afterwards. *)
From Jawk Require Import Base F64 Json Reader JsonParser Ctx Printer Fn Expr Chain ExprParser Go GoProofs.
Local Open Scope N_scope.

Definition k6_cfg : cfg :=
  {| c_on_error := OnIgnore; c_select := []; c_filter := Some [40; 62; 32; 46; 97; 32; 48; 41]; c_split := None;
     c_group := None; c_sort := []; c_skip := 0; c_take := Some 1; c_unique := false; c_set := [];
     c_only_objs := false; c_style := StyleJson; c_rowsep := [10];
     c_json_opts := None; c_text_opts := None |}.
Definition k6_f1 : list byte := [123; 34; 97; 34; 58; 49; 125; 10].
Definition k6_f0 : list byte := [123; 34; 97; 34; 58; 48; 125; 10].
Definition k6_ins : list (option str * list ev) :=
  [(Some [102; 49], map EB k6_f1); (Some [102; 50], map EB (k6_f0 ++ k6_f0 ++ k6_f0))].

(* the full statement "once T rows have been emitted no further byte of any input is pulled" is false of the
   faithful model for lists of inputs: *)
Theorem later_inputs_read_after_break :
  exists cf ins, c_take cf = Some 1 /\ c_sort cf = [] /\ c_group cf = None /\
    g_result (go cf ins false) = GOk /\
    g_events (go cf ins false) = [OOut [123; 34; 97; 34; 58; 32; 49; 125; 10]] /\
    g_pulled (go cf ins false) = [8; 24] /\
    (exists n1 e1 n2 e2, ins = [(n1, e1); (n2, e2)] /\ length e1 = 8%nat /\ length e2 = 24%nat).
Proof.
  exists k6_cfg, k6_ins. repeat split; try reflexivity.
  exists (Some [102; 49]), (map EB k6_f1), (Some [102; 50]), (map EB (k6_f0 ++ k6_f0 ++ k6_f0)).
  repeat split; reflexivity.
Qed.
Print Assumptions later_inputs_read_after_break.
