(* OrderProofs.v — jcmp (impl Ord for JsonValue) is a total preorder whose equivalence is a
   congruence, for every rendering function `show`; plus the per-type characterisations. *)
From Jawk Require Import Base F64 Json.

(* ---------- pointwise order properties of a comparison function ---------- *)
Section OrdProps.
Context {A : Type}.
Variable cmp : A -> A -> comparison.

Definition okR (a : A) : Prop := cmp a a = Eq.
Definition okA (a : A) : Prop := forall b, cmp a b = CompOpp (cmp b a).
Definition okT (a : A) : Prop := forall b c, cmp a b = Lt -> cmp b c = Lt -> cmp a c = Lt.
Definition okE (a : A) : Prop := forall b c, cmp a b = Eq -> cmp a c = cmp b c.
Definition okE2 (a : A) : Prop := forall b c, cmp b c = Eq -> cmp a b = cmp a c.
Definition ok (a : A) : Prop := okR a /\ okA a /\ okT a /\ okE a /\ okE2 a.
Definition ord_ok : Prop := forall a, ok a.
End OrdProps.

(* ---------- list_cmp preserves the package, locally on the elements of the first list ---------- *)
Section ListCmp.
Context {A : Type}.
Variable cmp : A -> A -> comparison.

Lemma list_cmp_ok : forall l, Forall (ok cmp) l -> ok (list_cmp cmp) l.
Proof.
  intros l HF. induction HF as [| x l Hx Hl IH]; unfold ok, okR, okA, okT, okE, okE2 in *.
  - repeat split.
    + intros b; destruct b; reflexivity.
    + intros b c H1 H2. destruct b as [|y b]; [discriminate H1|].
      destruct c as [|z c]; [discriminate H2| reflexivity].
    + intros b c H1. destruct b as [|y b]; [reflexivity | discriminate H1].
    + intros b c H1. destruct b as [|y b], c as [|z c]; try discriminate H1; reflexivity.
  - destruct Hx as (xR & xA & xT & xE & xE2). destruct IH as (lR & lA & lT & lE & lE2).
    repeat split.
    + cbn [list_cmp]. rewrite xR. exact lR.
    + intros b. destruct b as [|y b]; [reflexivity|]. cbn [list_cmp].
      rewrite (xA y). destruct (cmp y x); cbn [CompOpp]; try reflexivity. apply lA.
    + intros b c H1 H2. destruct b as [|y b]; [discriminate H1|].
      destruct c as [|z c]; [discriminate H2|].
      cbn [list_cmp] in *. destruct (cmp x y) eqn:Exy; try discriminate H1.
      * rewrite (xE y z Exy). destruct (cmp y z); try discriminate H2.
        -- exact (lT b c H1 H2).
        -- reflexivity.
      * destruct (cmp y z) eqn:Eyz; try discriminate H2.
        -- rewrite <- (xE2 y z Eyz), Exy. reflexivity.
        -- rewrite (xT y z Exy Eyz). reflexivity.
    + intros b c H1. destruct b as [|y b]; [discriminate H1|]. cbn [list_cmp] in H1.
      destruct (cmp x y) eqn:Exy; try discriminate H1.
      destruct c as [|z c]; [reflexivity|]. cbn [list_cmp].
      rewrite (xE y z Exy). destruct (cmp y z); try reflexivity. apply lE. exact H1.
    + intros b c H1. destruct b as [|y b], c as [|z c]; try discriminate H1; [reflexivity|].
      cbn [list_cmp] in *. destruct (cmp y z) eqn:Eyz; try discriminate H1.
      rewrite <- (xE2 y z Eyz). destruct (cmp x y); try reflexivity. apply lE2. exact H1.
Qed.

Lemma ord_ok_list : ord_ok cmp -> ord_ok (list_cmp cmp).
Proof.
  intros H l. apply list_cmp_ok. apply Forall_forall. intros x _. apply H.
Qed.
End ListCmp.

(* ---------- comparison through a key, lexicographic combination ---------- *)
Definition keyc {A B} (f : A -> B) (cmp : B -> B -> comparison) : A -> A -> comparison :=
  fun a b => cmp (f a) (f b).
Definition lexc {A} (c1 c2 : A -> A -> comparison) : A -> A -> comparison :=
  fun a b => match c1 a b with Eq => c2 a b | c => c end.

Lemma ord_ok_key : forall {A B} (f : A -> B) cmp, ord_ok cmp -> ord_ok (keyc f cmp).
Proof.
  intros A B f cmp H a. destruct (H (f a)) as (HR & HA & HT & HE & HE2).
  unfold ok, okR, okA, okT, okE, okE2, keyc in *. repeat split.
  - exact HR.
  - intros b. apply HA.
  - intros b c. apply HT.
  - intros b c. apply HE.
  - intros b c. apply HE2.
Qed.

Lemma ord_ok_lex : forall {A} (c1 c2 : A -> A -> comparison), ord_ok c1 -> ord_ok c2 -> ord_ok (lexc c1 c2).
Proof.
  intros A c1 c2 H1 H2 a.
  destruct (H1 a) as (R1 & A1 & T1 & E1 & F1). destruct (H2 a) as (R2 & A2 & T2 & E2 & F2).
  unfold ok, okR, okA, okT, okE, okE2, lexc in *. repeat split.
  - rewrite R1. exact R2.
  - intros b. rewrite (A1 b). destruct (c1 b a); cbn [CompOpp]; try reflexivity. apply A2.
  - intros b c Hab Hbc. destruct (c1 a b) eqn:Eab; try discriminate Hab.
    + rewrite (E1 b c Eab). destruct (c1 b c); try discriminate Hbc.
      * exact (T2 b c Hab Hbc).
      * reflexivity.
    + destruct (c1 b c) eqn:Ebc; try discriminate Hbc.
      * rewrite <- (F1 b c Ebc), Eab. reflexivity.
      * rewrite (T1 b c Eab Ebc). reflexivity.
  - intros b c Hab. destruct (c1 a b) eqn:Eab; try discriminate Hab.
    rewrite (E1 b c Eab). destruct (c1 b c); try reflexivity. apply E2. exact Hab.
  - intros b c Hbc. destruct (c1 b c) eqn:Ebc; try discriminate Hbc.
    rewrite <- (F1 b c Ebc). destruct (c1 a b); try reflexivity. apply F2. exact Hbc.
Qed.

(* ---------- base orders ---------- *)
Lemma ord_ok_N : ord_ok N.compare.
Proof.
  intros a. unfold ok, okR, okA, okT, okE, okE2. repeat split.
  - apply N.compare_refl.
  - intros b. apply N.compare_antisym.
  - intros b c H1 H2. rewrite N.compare_lt_iff in *. lia.
  - intros b c H1. apply N.compare_eq in H1. subst b. reflexivity.
  - intros b c H1. apply N.compare_eq in H1. subst b. reflexivity.
Qed.

Lemma ord_ok_Z : ord_ok Z.compare.
Proof.
  intros a. unfold ok, okR, okA, okT, okE, okE2. repeat split.
  - apply Z.compare_refl.
  - intros b. apply Z.compare_antisym.
  - intros b c H1 H2. rewrite Z.compare_lt_iff in *. lia.
  - intros b c H1. apply Z.compare_eq in H1. subst b. reflexivity.
  - intros b c H1. apply Z.compare_eq in H1. subst b. reflexivity.
Qed.

Lemma ord_ok_nat : ord_ok Nat.compare.
Proof.
  intros a. unfold ok, okR, okA, okT, okE, okE2. repeat split.
  - apply Nat.compare_refl.
  - intros b. apply Nat.compare_antisym.
  - intros b c H1 H2. rewrite Nat.compare_lt_iff in *. lia.
  - intros b c H1. apply Nat.compare_eq in H1. subst b. reflexivity.
  - intros b c H1. apply Nat.compare_eq in H1. subst b. reflexivity.
Qed.

Lemma ord_ok_bool : ord_ok bool_cmp.
Proof.
  intros a. unfold ok, okR, okA, okT, okE, okE2. repeat split.
  - destruct a; reflexivity.
  - intros b. destruct a, b; reflexivity.
  - intros b c H1 H2. destruct a, b, c; try discriminate H1; try discriminate H2; reflexivity.
  - intros b c H1. destruct a, b, c; try discriminate H1; reflexivity.
  - intros b c H1. destruct a, b, c; try discriminate H1; reflexivity.
Qed.

Lemma ord_ok_str : ord_ok str_cmp.
Proof. unfold str_cmp. apply ord_ok_list. exact ord_ok_N. Qed.

(* ---------- strong induction principle for the nested inductive json ---------- *)
Fixpoint json_ind' (P : json -> Prop)
  (HNull : P JNull) (HBool : forall b, P (JBool b)) (HStr : forall s, P (JStr s))
  (HNum : forall n, P (JNum n))
  (HObj : forall m, Forall (fun kv => P (snd kv)) m -> P (JObj m))
  (HArr : forall l, Forall P l -> P (JArr l))
  (v : json) {struct v} : P v :=
  match v with
  | JNull => HNull
  | JBool b => HBool b
  | JStr s => HStr s
  | JNum n => HNum n
  | JObj m =>
      HObj m ((fix go (m : list (str * json)) : Forall (fun kv => P (snd kv)) m :=
                 match m with
                 | [] => Forall_nil _
                 | kv :: t =>
                     Forall_cons kv
                       (match kv as kv0 return P (snd kv0) with
                        | (k, u) => json_ind' P HNull HBool HStr HNum HObj HArr u
                        end) (go t)
                 end) m)
  | JArr l =>
      HArr l ((fix go (l : list json) : Forall P l :=
                 match l with
                 | [] => Forall_nil _
                 | u :: t => Forall_cons u (json_ind' P HNull HBool HStr HNum HObj HArr u) (go t)
                 end) l)
  end.

(* ---------- jcmp ---------- *)
Section Order.
Variable show : json -> list N.

Definition num_key (n : num) : Z := f_total_key (num_to_f n).
Definition obj_keys (m : list (str * json)) : list str := str_sort (map fst m).
Definition obj_cmp : list (str * json) -> list (str * json) -> comparison :=
  lexc (keyc (@length (str * json)) Nat.compare)
       (lexc (keyc obj_keys (list_cmp str_cmp))
             (keyc (fun m => show (JObj m)) str_cmp)).

Lemma ord_ok_obj : ord_ok obj_cmp.
Proof.
  unfold obj_cmp. apply ord_ok_lex.
  - apply ord_ok_key. exact ord_ok_nat.
  - apply ord_ok_lex.
    + apply ord_ok_key. apply ord_ok_list. exact ord_ok_str.
    + apply ord_ok_key. exact ord_ok_str.
Qed.

Lemma jcmp_nulls_s : jcmp show JNull JNull = Eq.
Proof. reflexivity. Qed.
Lemma jcmp_bools_s : forall x y, jcmp show (JBool x) (JBool y) = bool_cmp x y.
Proof. reflexivity. Qed.
Lemma jcmp_strings_s : forall x y, jcmp show (JStr x) (JStr y) = list_cmp N.compare x y.
Proof. reflexivity. Qed.
Lemma jcmp_numbers_s : forall x y, jcmp show (JNum x) (JNum y) = keyc num_key Z.compare x y.
Proof. reflexivity. Qed.
Lemma jcmp_objs_s : forall x y, jcmp show (JObj x) (JObj y) = obj_cmp x y.
Proof. reflexivity. Qed.
Lemma jcmp_arrays_lex_s : forall x y, jcmp show (JArr x) (JArr y) = list_cmp (jcmp show) x y.
Proof.
  intros x. induction x as [|u x IH]; intros y; destruct y as [|v y]; try reflexivity.
  specialize (IH y).
  change (jcmp show (JArr (u :: x)) (JArr (v :: y)))
    with (match jcmp show u v with Eq => jcmp show (JArr x) (JArr y) | c => c end).
  rewrite IH. reflexivity.
Qed.

Lemma jcmp_rank_s : forall a b, (type_rank a < type_rank b)%N -> jcmp show a b = Lt.
Proof.
  intros a b H. destruct a, b; cbn [type_rank] in H; try lia; reflexivity.
Qed.

(* lift a per-type order to the constructor [K]; [rw] is the unfolding equation of jcmp on K/K *)
Ltac lift_ok Hpc rw :=
  destruct Hpc as (HR & HA & HT & HE & HE2);
  unfold ok, okR, okA, okT, okE, okE2 in *;
  split; [| split; [| split; [| split]]];
  [ rewrite rw; exact HR
  | let b := fresh "b" in
    intros b; destruct b; first [ solve [rewrite !rw; apply HA] | reflexivity ]
  | let b := fresh "b" in let c := fresh "c" in
    let H1 := fresh "H1" in let H2 := fresh "H2" in
    intros b c H1 H2; destruct b; try discriminate H1; destruct c; try discriminate H2;
    first [ solve [rewrite !rw in *; eapply HT; eassumption] | reflexivity ]
  | let b := fresh "b" in let c := fresh "c" in let H1 := fresh "H1" in
    intros b c H1; destruct b; try discriminate H1; destruct c;
    first [ solve [rewrite !rw in *; apply HE; assumption] | reflexivity ]
  | let b := fresh "b" in let c := fresh "c" in let H1 := fresh "H1" in
    intros b c H1; destruct b, c; try discriminate H1;
    first [ solve [rewrite !rw in *; apply HE2; assumption] | reflexivity ] ].

Lemma jcmp_ok : forall a, ok (jcmp show) a.
Proof.
  intros a. induction a as [| x | s | n | m IHm | l IHl] using json_ind'.
  - unfold ok, okR, okA, okT, okE, okE2. repeat split.
    + intros b. destruct b; reflexivity.
    + intros b c H1 H2. destruct b; try discriminate H1; destruct c; try discriminate H2; reflexivity.
    + intros b c H1. destruct b; try discriminate H1. reflexivity.
    + intros b c H1. destruct b, c; try discriminate H1; reflexivity.
  - pose proof (ord_ok_bool x) as Hpc. lift_ok Hpc jcmp_bools_s.
  - pose proof (ord_ok_list N.compare ord_ok_N s) as Hpc. lift_ok Hpc jcmp_strings_s.
  - pose proof (ord_ok_key num_key Z.compare ord_ok_Z n) as Hpc. lift_ok Hpc jcmp_numbers_s.
  - pose proof (ord_ok_obj m) as Hpc. lift_ok Hpc jcmp_objs_s.
  - pose proof (list_cmp_ok (jcmp show) l IHl) as Hpc. lift_ok Hpc jcmp_arrays_lex_s.
Qed.

Theorem jcmp_refl_s : forall a, jcmp show a a = Eq.
Proof. intros a. apply (jcmp_ok a). Qed.

Theorem jcmp_antisym_s : forall a b, jcmp show a b = CompOpp (jcmp show b a).
Proof. intros a b. apply (jcmp_ok a). Qed.

Theorem jcmp_eq_l_s : forall a b c, jcmp show a b = Eq -> jcmp show a c = jcmp show b c.
Proof. intros a b c. apply (jcmp_ok a). Qed.

Theorem jcmp_trans_le_s : forall a b c,
  jcmp show a b <> Gt -> jcmp show b c <> Gt -> jcmp show a c <> Gt.
Proof.
  intros a b c H1 H2. destruct (jcmp_ok a) as (_ & _ & HT & HE & HE2).
  destruct (jcmp show a b) eqn:Eab.
  - rewrite (HE b c Eab). exact H2.
  - destruct (jcmp show b c) eqn:Ebc.
    + rewrite <- (HE2 b c Ebc), Eab. discriminate.
    + rewrite (HT b c Eab Ebc). discriminate.
    + exfalso. apply H2. reflexivity.
  - exfalso. apply H1. reflexivity.
Qed.
End Order.

(* ---------- the required statements ---------- *)
Theorem jcmp_refl : forall show a, jcmp show a a = Eq.
Proof. exact jcmp_refl_s. Qed.

Theorem jcmp_antisym : forall show a b, jcmp show a b = CompOpp (jcmp show b a).
Proof. exact jcmp_antisym_s. Qed.

Theorem jcmp_trans_le : forall show a b c,
  jcmp show a b <> Gt -> jcmp show b c <> Gt -> jcmp show a c <> Gt.
Proof. exact jcmp_trans_le_s. Qed.

Theorem jcmp_eq_l : forall show a b c, jcmp show a b = Eq -> jcmp show a c = jcmp show b c.
Proof. exact jcmp_eq_l_s. Qed.

Theorem jcmp_rank : forall show a b, (type_rank a < type_rank b)%N -> jcmp show a b = Lt.
Proof. exact jcmp_rank_s. Qed.

Theorem jcmp_total : forall show a b,
  jcmp show a b = Lt \/ jcmp show a b = Eq \/ jcmp show a b = Gt.
Proof. intros show a b. destruct (jcmp show a b); auto. Qed.

Theorem jcmp_strings : forall show x y, jcmp show (JStr x) (JStr y) = list_cmp N.compare x y.
Proof. exact jcmp_strings_s. Qed.

Theorem jcmp_numbers : forall show x y,
  jcmp show (JNum x) (JNum y) = Z.compare (f_total_key (num_to_f x)) (f_total_key (num_to_f y)).
Proof. intros show x y. reflexivity. Qed.

Theorem jcmp_arrays_lex : forall show x y, jcmp show (JArr x) (JArr y) = list_cmp (jcmp show) x y.
Proof. exact jcmp_arrays_lex_s. Qed.

Theorem jcmp_bools : forall show, jcmp show (JBool false) (JBool true) = Lt.
Proof. intros show. reflexivity. Qed.

Print Assumptions jcmp_refl.
Print Assumptions jcmp_antisym.
Print Assumptions jcmp_trans_le.
Print Assumptions jcmp_eq_l.
Print Assumptions jcmp_rank.
Print Assumptions jcmp_total.
Print Assumptions jcmp_strings.
Print Assumptions jcmp_numbers.
Print Assumptions jcmp_arrays_lex.
Print Assumptions jcmp_bools.
