(* FloatOk.v — G4: the decidable side condition `flt_okb` carried by the C02 round-trip theorems holds for every
   finite double that From<f64> (Json.num_of_f) leaves as a float.  Builds on FloatText.flt2dec_dec2flt. *)
From Coq Require Import Lia ZArith List NArith Bool.
From Jawk Require Import Base F64 F64Proofs Json Render PrinterProofs FloatText.
Import ListNotations.
Local Open Scope Z_scope.

Local Ltac Zify.zify_post_hook ::= idtac.
Local Opaque Z.pow.
Local Opaque p52 p53 p63 p64 inf_bits.

(* ================================================================== *)
(* 1. the spelling tree of a positional text                           *)
(* ================================================================== *)
Lemma span_digits_app a r : all_digits a -> stops r -> span_digits (a ++ r) = (a, r).
Proof.
  intros Ha Hr. induction a as [| c a IH].
  - cbn [app]. destruct r as [| x r]; [reflexivity |]. cbn [span_digits]. cbn in Hr. rewrite Hr. reflexivity.
  - apply all_digits_cons in Ha. destruct Ha as [Hc Ha]. cbn [app span_digits]. rewrite Hc, (IH Ha). reflexivity.
Qed.

Lemma list_eqb_N_refl (l : list N) : list_eqb N.eqb l l = true.
Proof. induction l as [| x l IH]; [reflexivity |]. cbn [list_eqb]. rewrite N.eqb_refl, IH. reflexivity. Qed.

Definition split_sign (txt : list N) : bool * list N :=
  match txt with
  | b :: t' => if (b =? 45)%N then (true, t') else (false, txt)
  | [] => (false, txt)
  end.
Definition snum_of_text' (txt : list N) : option snum :=
  let (neg, t) := split_sign txt in
  let (ip, t1) := span_digits t in
  match t1 with
  | [] => Some {| sn_neg := neg; sn_int := ip; sn_frac := None; sn_exp := None |}
  | b :: t2 =>
      if (b =? 46)%N then
        let (fp, t3) := span_digits t2 in
        match t3 with
        | [] => Some {| sn_neg := neg; sn_int := ip; sn_frac := Some fp; sn_exp := None |}
        | _ => None
        end
      else None
  end.
Lemma snum_of_text_eq txt : snum_of_text txt = snum_of_text' txt.
Proof. reflexivity. Qed.

Lemma snum_of_text_layout s ip rest fr :
  all_digits ip -> ip <> [] ->
  (rest = [] /\ fr = None \/ exists fp, rest = 46%N :: fp /\ all_digits fp /\ fr = Some fp) ->
  snum_of_text (sign_txt s ++ ip ++ rest) = Some {| sn_neg := s; sn_int := ip; sn_frac := fr; sn_exp := None |}.
Proof.
  intros Hip Hne Hrest. rewrite snum_of_text_eq. unfold snum_of_text'.
  assert (Hstop : stops rest).
  { destruct Hrest as [[-> _] | (fp & -> & _)]; [exact I | reflexivity]. }
  assert (Hsign : split_sign (sign_txt s ++ ip ++ rest) = (s, ip ++ rest)).
  { unfold split_sign. destruct s; cbn [sign_txt app]; [rewrite N.eqb_refl; reflexivity |].
    destruct ip as [| c t]; [contradiction |]. apply all_digits_cons in Hip. destruct Hip as [Hc _].
    apply is_digit_bounds in Hc. cbn [app].
    destruct (N.eqb_spec c 45) as [He | _]; [lia | reflexivity]. }
  rewrite Hsign. rewrite (span_digits_app ip rest Hip Hstop).
  destruct Hrest as [[-> ->] | (fp & -> & Hfp & ->)]; [reflexivity |].
  change (46 =? 46)%N with true. cbv iota.
  replace fp with (fp ++ []) at 1 by apply app_nil_r.
  rewrite (span_digits_app fp [] Hfp I). reflexivity.
Qed.

Lemma digits_okb_true l : all_digits l -> l <> [] -> digits_okb l = true.
Proof. intros H Hne. unfold digits_okb. destruct l; [contradiction | exact H]. Qed.

Lemma int_okb_head d t : all_digits (d :: t) -> d <> 48%N -> int_okb (d :: t) = true.
Proof.
  intros H Hd. unfold int_okb. rewrite digits_okb_true by (auto; discriminate).
  destruct t; [reflexivity |]. destruct (N.eqb_spec d 48); [contradiction | reflexivity].
Qed.

(* the positional text: integer part without leading zero, then nothing (p >= 0) or a non-empty fraction *)
Lemma render_layout c p :
  0 < c ->
  exists ip rest,
    render_positional c p = ip ++ rest /\ all_digits ip /\ ip <> [] /\ int_okb ip = true /\
    ((rest = [] /\ 0 <= p /\ Z.of_N (N_of_digits ip) = c * 10 ^ p) \/
     (exists fp, rest = 46%N :: fp /\ all_digits fp /\ fp <> [])).
Proof.
  intros Hc. unfold render_positional.
  destruct (digits_of_N_props (Z.to_N c)) as (Hds & Hne & Hval).
  destruct (dig_rep_head _ _ (digits_of_N_rep (Z.to_N c))) as (d0 & t0 & Hhd & Hz).
  assert (Hd0 : d0 <> 48%N) by (intros E; destruct (Hz E) as [E0 _]; lia).
  set (ds := digits_of_N (Z.to_N c)) in *. cbv zeta.
  assert (Hv : Z.of_N (N_of_digits ds) = c) by (rewrite Hval; lia).
  destruct (Z.leb_spec 0 p) as [Hp | Hp].
  - exists (ds ++ repeat 48%N (Z.to_nat p)), []. rewrite app_nil_r.
    assert (Hall : all_digits (ds ++ repeat 48%N (Z.to_nat p))).
    { apply all_digits_app. split; [exact Hds | apply all_digits_repeat]. }
    split; [reflexivity |]. split; [exact Hall |].
    split; [rewrite Hhd; discriminate |].
    split; [rewrite Hhd in *; cbn [app] in *; apply int_okb_head; assumption |].
    left. split; [reflexivity |]. split; [exact Hp |].
    rewrite N_of_digits_app, N_of_digits_zeros, repeat_length, Hv. change (Z.of_N 0) with 0.
    rewrite Z2Nat.id by lia. lia.
  - destruct (Z.ltb_spec (- p) (Z.of_nat (length ds))) as [Hin | Hout].
    + set (k := Z.to_nat (Z.of_nat (length ds) + p)).
      assert (Hk : (1 <= k < length ds)%nat) by (unfold k; lia).
      exists (firstn k ds), (46%N :: skipn k ds).
      split; [reflexivity |]. split; [apply all_digits_firstn, Hds |].
      assert (Hf : firstn k ds = d0 :: firstn (k - 1) t0).
      { rewrite Hhd. destruct k as [| k']; [lia |]. cbn [firstn]. replace (S k' - 1)%nat with k' by lia. reflexivity. }
      split; [rewrite Hf; discriminate |].
      split. { rewrite Hf. apply int_okb_head; [| exact Hd0]. rewrite <- Hf. apply all_digits_firstn, Hds. }
      right. exists (skipn k ds). split; [reflexivity |]. split; [apply all_digits_skipn, Hds |].
      intros E. apply (f_equal (@length N)) in E. rewrite skipn_length in E. cbn [length] in E. lia.
    + exists [48%N], (46%N :: repeat 48%N (Z.to_nat (- p - Z.of_nat (length ds))) ++ ds).
      split; [reflexivity |]. split; [reflexivity |]. split; [discriminate |]. split; [reflexivity |].
      right. eexists. split; [reflexivity |]. split.
      * apply all_digits_app. split; [apply all_digits_repeat | exact Hds].
      * intros E. apply app_eq_nil in E. destruct E as [_ E]. contradiction.
Qed.

(* flt_okb from the layout, the read-back, and (for a text without '.') the integer being out of range *)
Lemma flt_okb_layout f s ip rest :
  flt2dec f = sign_txt s ++ ip ++ rest ->
  all_digits ip -> ip <> [] -> int_okb ip = true ->
  (rest = [] /\ (if s then 9223372036854775808 < Z.of_N (N_of_digits ip)
                 else 18446744073709551615 < Z.of_N (N_of_digits ip)) \/
   exists fp, rest = 46%N :: fp /\ all_digits fp /\ fp <> []) ->
  dec2flt (flt2dec f) = Some f -> f_is_finite f = true -> num_of_f f = NFlt f ->
  flt_okb f = true.
Proof.
  intros Htxt Hip Hne Hint Hrest Hrt Hfin Hnf. unfold flt_okb.
  set (fr := match rest with [] => None | _ :: fp => Some fp end).
  assert (Hsn : snum_of_text (flt2dec f) = Some {| sn_neg := s; sn_int := ip; sn_frac := fr; sn_exp := None |}).
  { rewrite Htxt. apply snum_of_text_layout; [assumption | assumption |].
    destruct Hrest as [[-> _] | (fp & -> & Hfp & _)]; [left; split; reflexivity |].
    right. exists fp. split; [reflexivity |]. split; [exact Hfp | reflexivity]. }
  rewrite Hsn.
  assert (Hrender : render_num {| sn_neg := s; sn_int := ip; sn_frac := fr; sn_exp := None |} = flt2dec f).
  { rewrite Htxt. unfold render_num, sign_txt. cbn [sn_neg sn_int sn_frac sn_exp]. rewrite app_nil_r.
    destruct Hrest as [[-> _] | (fp & -> & _)]; reflexivity. }
  assert (Htext : num_text {| sn_neg := s; sn_int := ip; sn_frac := fr; sn_exp := None |} = flt2dec f).
  { rewrite <- Hrender. unfold num_text, render_num. cbn [sn_neg sn_int sn_frac sn_exp]. reflexivity. }
  rewrite Hrender, list_eqb_N_refl.
  assert (Hok : snum_okb {| sn_neg := s; sn_int := ip; sn_frac := fr; sn_exp := None |} = true).
  { unfold snum_okb. cbn [sn_int sn_frac sn_exp]. rewrite Hint.
    destruct Hrest as [[-> _] | (fp & -> & Hfp & Hfne)]; [reflexivity |]. unfold fr.
    rewrite digits_okb_true by assumption. reflexivity. }
  rewrite Hok. cbn [andb].
  assert (Hval : num_val {| sn_neg := s; sn_int := ip; sn_frac := fr; sn_exp := None |} = Some (NFlt f)).
  { unfold num_val. rewrite Htext, Hrt, Hfin, Hnf. cbn [sn_neg sn_int sn_frac sn_exp].
    destruct Hrest as [[-> Hrange] | (fp & -> & _)]; [| reflexivity].
    unfold fr. destruct s.
    - destruct (N.eqb_spec (N_of_digits ip) 0) as [Hz|Hz]; [lia|].
      destruct (Z.leb_spec (Z.of_N (N_of_digits ip)) 9223372036854775808); [lia | reflexivity].
    - destruct (N.leb_spec (N_of_digits ip) 18446744073709551615); [lia | reflexivity]. }
  rewrite Hval. cbn [onum_same num_same]. apply N.eqb_refl.
Qed.

(* ================================================================== *)
(* 2. a text without '.' denotes an integer; its double is integral    *)
(* ================================================================== *)
Lemma round_p53 : round_mag p53 1 = 1076 * p52.
Proof. vm_compute. reflexivity. Qed.
Definition B63 : Z := 4890909195324358656.   (* bits of 2^63 *)
Definition B64 : Z := 4895412794951729152.   (* bits of 2^64 *)
Lemma round_p63 : round_mag p63 1 = B63. Proof. vm_compute. reflexivity. Qed.
Lemma round_p64 : round_mag p64 1 = B64. Proof. vm_compute. reflexivity. Qed.
Lemma ival_B63 : ival B63 = p63 * S1074. Proof. vm_compute. reflexivity. Qed.
Lemma ival_B64 : ival B64 = p64 * S1074. Proof. vm_compute. reflexivity. Qed.
Lemma ival_1076 : ival (1076 * p52) = p53 * S1074. Proof. vm_compute. reflexivity. Qed.

(* the double nearest to a positive integer C has e >= 0, or is C itself *)
Lemma int_round_integral C b m e :
  0 < C -> round_mag C 1 = b -> ival b = m * 2 ^ (e + 1074) -> -1074 <= e -> 0 < m < p53 ->
  0 <= e \/ (e < 0 /\ m = C * 2 ^ (- e) /\ C < p53).
Proof.
  intros HC Hr Hi He Hm. destruct (Z_le_gt_dec 0 e) as [Hpos | Hneg]; [left; exact Hpos | right].
  pose proof S1074_pos as HS.
  assert (HS2 : S1074 = 2 ^ (- e) * 2 ^ (e + 1074)).
  { rewrite S1074_eq, <- Z.pow_add_r by lia. f_equal. lia. }
  pose proof (pow2_pos (- e) ltac:(lia)) as HE. pose proof (pow2_pos (e + 1074) ltac:(lia)) as HE2.
  destruct (Z_lt_le_dec C p53) as [Hsmall | Hbig].
  - destruct (int_is_double C ltac:(lia)) as (b' & Hb' & Hi').
    assert (Hbb : round_mag C 1 = b') by (apply round_mag_exact_Z; lia).
    assert (Hb : b = b') by congruence. rewrite <- Hb in Hi'.
    split; [lia |]. split; [| exact Hsmall].
    rewrite Hi, HS2 in Hi'.
    assert (E : m * 2 ^ (e + 1074) = (C * 2 ^ (- e)) * 2 ^ (e + 1074)) by lia.
    apply Z.mul_cancel_r in E; lia.
  - exfalso.
    pose proof (round_mag_monotone p53 1 C 1 ltac:(reflexivity) ltac:(lia) HC ltac:(lia) ltac:(lia)) as Hmono.
    rewrite round_p53, Hr in Hmono.
    pose proof (ival_le (1076 * p52) b ltac:(split; [vm_compute; discriminate | exact Hmono])) as Hle.
    rewrite ival_1076, Hi, HS2 in Hle.
    (* p53 * 2^-e * 2^(e+1074) <= m * 2^(e+1074), so p53 * 2^-e <= m < p53 *)
    assert (E : (p53 * 2 ^ (- e)) * 2 ^ (e + 1074) <= m * 2 ^ (e + 1074)) by lia.
    apply Z.mul_le_mono_pos_r in E; [| exact HE2].
    assert (p53 <= p53 * 2 ^ (- e)) by (pose proof p52_pos; pose proof p53_eq; nia). lia.
Qed.

Lemma f_integral_eq f s m e :
  f_decode f = FFin s m e ->
  f_integral f = if 0 <=? e then Some ((if s then -1 else 1) * m * 2 ^ e)
                 else if m mod 2 ^ (- e) =? 0 then Some ((if s then -1 else 1) * (m / 2 ^ (- e))) else None.
Proof. intros H. unfold f_integral. rewrite H. reflexivity. Qed.

Lemma f_is_neg_strict_eq f s m e : f_decode f = FFin s m e -> 0 < m -> f_is_neg_strict f = s.
Proof.
  intros H Hm. unfold f_is_neg_strict. rewrite H. destruct s; [| reflexivity].
  destruct (Z.eqb_spec m 0); [lia | reflexivity].
Qed.

(* what "From<f64> leaves it a float" means for an integral double of magnitude v *)
Lemma num_of_f_flt_range f s m e v :
  f_decode f = FFin s m e -> 0 < m -> f_integral f = Some ((if s then -1 else 1) * v) ->
  num_of_f f = NFlt f -> if s then p63 <= v else p64 <= v.
Proof.
  intros Hdec Hm Hint H. unfold num_of_f in H. rewrite Hint, (f_is_neg_strict_eq f s m e Hdec Hm) in H.
  destruct s.
  - destruct (Z.ltb_spec (- p63) (-1 * v)); [discriminate | lia].
  - destruct (Z.ltb_spec (1 * v) p64); [discriminate | lia].
Qed.

(* ================================================================== *)
(* 3. G4                                                               *)
(* ================================================================== *)
Lemma flt_ok_B64 : flt_okb (Z.to_N B64) = true.
Proof. vm_compute. reflexivity. Qed.
Lemma flt_ok_negB63 : flt_okb (Z.to_N (B63 + p63)) = true.   (* -2^63 prints as -9223372036854776000 *)
Proof. vm_compute. reflexivity. Qed.

Theorem flt_okb_finite : forall f s m e,
  (f < 18446744073709551616)%N -> f_decode f = FFin s m e -> num_of_f f = NFlt f -> flt_okb f = true.
Proof.
  intros f s m e Hlt Hdec Hnf.
  destruct (decode_fin f s m e Hdec) as (Hb & Hs & Hi & He & Hm53 & Hbpos & Hbz).
  pose proof (with_sign_mag f Hlt) as Hws. rewrite <- Hs in Hws.
  set (b := f_mag (Z.of_N f)) in *.
  pose proof (flt2dec_dec2flt f s m e Hdec Hlt) as Hrt.
  assert (Hfin : f_is_finite f = true) by (unfold f_is_finite; rewrite Hdec; reflexivity).
  destruct (Z.eq_dec m 0) as [Hz | Hnz].
  { (* zeros are normalised to NPos 0 *)
    exfalso. subst m. unfold num_of_f in Hnf. rewrite (f_integral_eq f s 0 e Hdec) in Hnf.
    assert (Hneg : f_is_neg_strict f = false) by (unfold f_is_neg_strict; rewrite Hdec; destruct s; reflexivity).
    rewrite Hneg in Hnf.
    assert (H64 : 0 < p64) by reflexivity.
    destruct (Z.leb_spec 0 e).
    - rewrite Z.mul_0_r, Z.mul_0_l in Hnf. destruct (Z.ltb_spec 0 p64); [discriminate | lia].
    - pose proof (pow2_pos (- e) ltac:(lia)) as HE.
      rewrite Z.mod_0_l in Hnf by lia. rewrite Z.div_0_l in Hnf by lia. rewrite Z.eqb_refl, Z.mul_0_r in Hnf.
      destruct (Z.ltb_spec 0 p64); [discriminate | lia]. }
  assert (Hm : 0 < m) by lia. specialize (Hbpos Hm).
  pose proof (shortest_roundtrips f s m e Hdec Hm) as Hsh.
  assert (Htxt0 : flt2dec f = sign_txt s ++ (let '(c, p) := shortest m e in render_positional c p)).
  { unfold flt2dec. rewrite Hdec. destruct (Z.eqb_spec m 0); [lia | reflexivity]. }
  destruct (shortest m e) as [c p]. destruct Hsh as [Hc Hback].
  rewrite mul_pow10_eq in Hback. change (back10 c p = b) in Hback.
  destruct (render_layout c p Hc) as (ip & rest & Hrp & Hip & Hne & Hint & Hrest).
  rewrite Hrp in Htxt0.
  destruct Hrest as [(-> & Hp & Hval) | Hfrac].
  2: { apply (flt_okb_layout f s ip rest Htxt0 Hip Hne Hint); [right; exact Hfrac | assumption ..]. }
  (* no '.': the text is the integer C = c * 10^p *)
  set (C := c * 10 ^ p) in *.
  assert (HC : 0 < C) by (unfold C; pose proof (pow10_pos p Hp); nia).
  assert (HrC : round_mag C 1 = b).
  { rewrite <- Hback. unfold back10. destruct (P10_nonneg p Hp) as [-> ->]. reflexivity. }
  pose proof S1074_pos as HS. pose proof p52_pos as Hp52. pose proof p53_eq as Hp53.
  assert (HpowS : 2 ^ (e + 1074) = 2 ^ e * S1074 \/ e < 0).
  { destruct (Z_le_gt_dec 0 e); [left; rewrite S1074_eq, <- Z.pow_add_r by lia; reflexivity | right; lia]. }
  (* the magnitude of the double is at least 2^63 (negative) / 2^64 (positive) *)
  assert (Hrange : if s then p63 * S1074 <= ival b else p64 * S1074 <= ival b).
  { destruct (int_round_integral C b m e HC HrC Hi ltac:(lia) ltac:(lia)) as [Hpos | (Hneg & HmC & HCs)].
    - assert (Hfi : f_integral f = Some ((if s then -1 else 1) * (m * 2 ^ e))).
      { rewrite (f_integral_eq f s m e Hdec). destruct (Z.leb_spec 0 e); [| lia]. f_equal. ring. }
      pose proof (num_of_f_flt_range f s m e _ Hdec Hm Hfi Hnf) as Hr.
      destruct HpowS as [HpS | ?]; [| lia]. rewrite Hi, HpS.
      destruct s; nia.
    - exfalso. pose proof (pow2_pos (- e) ltac:(lia)) as HE.
      assert (Hfi : f_integral f = Some ((if s then -1 else 1) * C)).
      { rewrite (f_integral_eq f s m e Hdec). destruct (Z.leb_spec 0 e); [lia |].
        rewrite HmC. rewrite Z.mod_mul by lia. rewrite Z.eqb_refl. rewrite Z.div_mul by lia. reflexivity. }
      pose proof (num_of_f_flt_range f s m e _ Hdec Hm Hfi Hnf) as Hr.
      assert (p53 < p63 /\ p53 < p64) by (split; reflexivity). destruct s; lia. }
  destruct s.
  - (* negative *)
    destruct (Z_lt_le_dec 9223372036854775808 (Z.of_N (N_of_digits ip))) as [Hout | Hin].
    + apply (flt_okb_layout f true ip [] Htxt0 Hip Hne Hint); [left; split; [reflexivity | exact Hout] | assumption ..].
    + (* C <= 2^63 <= |v|: then v = -2^63 exactly, whose shortest digits are 9223372036854776e3, out of range *)
      assert (HB : b = B63).
      { pose proof (round_mag_monotone C 1 p63 1 HC ltac:(lia) ltac:(reflexivity) ltac:(lia)
                      ltac:(rewrite Hval in Hin; change p63 with 9223372036854775808; lia)) as Hmono.
        rewrite HrC, round_p63 in Hmono.
        destruct (Z_lt_le_dec b B63) as [Hl | Hg]; [| lia].
        pose proof (ival_lt b B63 ltac:(lia)) as Hil. rewrite ival_B63 in Hil. lia. }
      assert (Hf : f = Z.to_N (B63 + p63)).
      { rewrite <- Hws. fold b. rewrite HB. reflexivity. }
      rewrite Hf. apply flt_ok_negB63.
  - destruct (Z_lt_le_dec 18446744073709551615 (Z.of_N (N_of_digits ip))) as [Hout | Hin].
    + apply (flt_okb_layout f false ip [] Htxt0 Hip Hne Hint); [left; split; [reflexivity | exact Hout] | assumption ..].
    + assert (HB : b = B64).
      { pose proof (round_mag_monotone C 1 p64 1 HC ltac:(lia) ltac:(reflexivity) ltac:(lia)
                      ltac:(rewrite Hval in Hin; change p64 with 18446744073709551616; lia)) as Hmono.
        rewrite HrC, round_p64 in Hmono.
        destruct (Z_lt_le_dec b B64) as [Hl | Hg]; [| lia].
        pose proof (ival_lt b B64 ltac:(lia)) as Hil. rewrite ival_B64 in Hil. lia. }
      assert (Hf : f = Z.to_N B64).
      { rewrite <- Hws. fold b. rewrite HB. reflexivity. }
      rewrite Hf. apply flt_ok_B64.
Qed.

(* the form PrinterProofs' theorems take: num_ok (NFlt f) is flt_okb f = true *)
Corollary printable_float : forall f s m e,
  (f < 18446744073709551616)%N -> f_decode f = FFin s m e -> num_of_f f = NFlt f -> num_ok (NFlt f).
Proof. intros f s m e Hlt Hdec Hnf. cbn [num_ok]. exact (flt_okb_finite f s m e Hlt Hdec Hnf). Qed.

(* so every number From<f64> produces from a finite 64-bit pattern is printable *)
Corollary num_of_f_ok : forall f s m e,
  (f < 18446744073709551616)%N -> f_decode f = FFin s m e -> num_ok (num_of_f f).
Proof.
  intros f s m e Hlt Hdec.
  assert (Hflt : num_of_f f = NFlt f -> num_ok (num_of_f f)).
  { intros H. rewrite H. exact (printable_float f s m e Hlt Hdec H). }
  assert (H63 : p63 = 9223372036854775808) by reflexivity.
  assert (H64 : p64 = 18446744073709551616) by reflexivity.
  unfold num_of_f in *. destruct (f_integral f) as [v |] eqn:Hint; [| apply Hflt; reflexivity].
  destruct (f_is_neg_strict f) eqn:Hneg.
  - destruct (Z.ltb_spec (- p63) v) as [Hin | Hout]; [| apply Hflt; reflexivity].
    cbn [num_ok]. split; [lia |].
    unfold f_is_neg_strict in Hneg. rewrite Hdec in Hneg. destruct s; [| discriminate].
    destruct (Z.eqb_spec m 0) as [| Hm0]; [discriminate |].
    destruct (decode_fin f true m e Hdec) as (_ & _ & _ & He & Hm53 & _ & _).
    rewrite (f_integral_eq f true m e Hdec) in Hint.
    destruct (Z.leb_spec 0 e).
    + assert (Hv : v = -1 * m * 2 ^ e) by congruence. clear Hint. pose proof (pow2_pos e ltac:(lia)). assert (0 < m * 2 ^ e) by (apply Z.mul_pos_pos; lia). lia.
    + pose proof (pow2_pos (- e) ltac:(lia)) as HE.
      destruct (Z.eqb_spec (m mod 2 ^ (- e)) 0) as [Hmod |]; [| discriminate]. assert (Hv : v = -1 * (m / 2 ^ (- e))) by congruence. clear Hint.
      pose proof (Z.div_mod m (2 ^ (- e)) ltac:(lia)) as Hdm. rewrite Hmod in Hdm.
      assert (Hmp : 0 < m) by lia. assert (0 < m / 2 ^ (- e)) by nia. lia.
  - destruct (Z.ltb_spec v p64) as [Hin | Hout]; [| apply Hflt; reflexivity].
    cbn [num_ok]. lia.
Qed.

(* ---------- concrete instances (bits: 0.1, 1e23, 2^64, -2^63, -(2^63+2048), 5e-324, max, -1.5) ---------- *)
Example ex_flt_ok : map flt_okb
  [4591870180066957722; 4950912855330343670; 4895412794951729152; 14114281232179134464; 14114281232179134465;
   1; 9218868437227405311; 13832806255468478464]%N = repeat true 8.
Proof. vm_compute. reflexivity. Qed.
(* integral doubles inside the integer range and the zeros are NOT flt_okb, and From<f64> never leaves them floats:
   2^63, 2^64 - 2048, 2^53, 1.0, -1.0, +0.0, -0.0 *)
Example ex_flt_not_ok : map (fun f => (flt_okb f, num_of_f f))
  [4890909195324358656; 4895412794951729151; 4845873199050653696; 4607182418800017408; 13830554455654793216; 0; 9223372036854775808]%N
  = [(false, NPos 9223372036854775808); (false, NPos 18446744073709549568); (false, NPos 9007199254740992);
     (false, NPos 1); (false, NNeg (-1)); (false, NPos 0); (false, NPos 0)].
Proof. vm_compute. reflexivity. Qed.

Print Assumptions flt_okb_finite.
Print Assumptions printable_float.
Print Assumptions num_of_f_ok.
