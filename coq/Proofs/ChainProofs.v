(* ChainProofs.v — the processing chain refines the pipeline specification (C03, C08, C09, C10, C11, C14). *)
From Jawk Require Import Base F64 Json Ctx Printer Chain PipelineSpec SorterProofs.
From Coq Require Import Lia.
Arguments N.add : simpl never. Arguments N.sub : simpl never. Arguments N.eqb : simpl never.
Arguments N.ltb : simpl never. Arguments N.leb : simpl never.

Section ChainProofs.
Variable E : Type.
Variable get : E -> ctx E -> option json.
Notation ctx := (ctx E).
Notation stage := (stage E).
Notation sstate := (sstate E).
Notation process := (process E get).
Notation complete := (complete E get).
Notation run := (run E get).
Definition feed (sts : list stage) := feed_with E (process sts).

(* ---------- feed ---------- *)
Lemma feed_nil sts ss : feed sts [] ss = (ss, [], Continue).
Proof. reflexivity. Qed.

Lemma feed_cons sts c t ss :
  feed sts (c :: t) ss =
  let '(ss1, o, d) := process sts ss c in
  match d with
  | Break => (ss1, o, Break)
  | Continue => let '(ss2, o2, d2) := feed sts t ss1 in (ss2, o ++ o2, d2)
  end.
Proof. reflexivity. Qed.
Opaque feed.

Lemma feed_app sts a b ss :
  feed sts (a ++ b) ss =
  let '(ss1, o1, d1) := feed sts a ss in
  match d1 with
  | Break => (ss1, o1, Break)
  | Continue => let '(ss2, o2, d2) := feed sts b ss1 in (ss2, o1 ++ o2, d2)
  end.
Proof.
  revert ss. induction a as [|c a IH]; intros ss.
  - cbn [app]. rewrite feed_nil. destruct (feed sts b ss) as [[ss2 o2] d2]. reflexivity.
  - cbn [app]. rewrite !feed_cons. destruct (process sts ss c) as [[ss1 o] d]. destruct d.
    + rewrite IH. destruct (feed sts a ss1) as [[ss2 o2] d2]. destruct d2.
      * destruct (feed sts b ss2) as [[ss3 o3] d3]. rewrite app_assoc. reflexivity.
      * reflexivity.
    + reflexivity.
Qed.

Lemma run_feed sts ss cs :
  run sts ss cs = let '(ss', o, _) := feed sts cs ss in o ++ complete sts ss'.
Proof.
  revert ss. induction cs as [|c cs IH]; intros ss.
  - reflexivity.
  - cbn [Chain.run]. rewrite feed_cons. destruct (process sts ss c) as [[ss1 o] d]. destruct d.
    + rewrite IH. destruct (feed sts cs ss1) as [[ss2 o2] d2]. rewrite app_assoc. reflexivity.
    + reflexivity.
Qed.

Lemma feed_one sts c ss : feed sts [c] ss = process sts ss c.
Proof.
  rewrite feed_cons. destruct (process sts ss c) as [[ss1 o] d]. destruct d; [|reflexivity].
  rewrite feed_nil, app_nil_r. reflexivity.
Qed.

(* ---------- stateless streaming stages ---------- *)
(* a stage that maps each context to a list of contexts for its successor, forwards the decision
   and forwards `complete` *)
Definition stateless_sim (s : stage) (f : ctx -> list ctx) : Prop :=
  forall sts st ss c,
    process (s :: sts) (st :: ss) c = (let '(ss2, o, d) := feed sts (f c) ss in (st :: ss2, o, d))
    /\ forall ss2, complete (s :: sts) (st :: ss2) = complete sts ss2.

Lemma stateless_feed s f : stateless_sim s f -> forall sts st cs ss,
  feed (s :: sts) cs (st :: ss) = let '(ss2, o, d) := feed sts (flat_map f cs) ss in (st :: ss2, o, d).
Proof.
  intros H sts st cs. induction cs as [|c cs IH]; intros ss.
  - reflexivity.
  - rewrite feed_cons. cbn [flat_map]. rewrite feed_app.
    destruct (H sts st ss c) as [-> _].
    destruct (feed sts (f c) ss) as [[ss1 o] d]. destruct d; [|reflexivity].
    rewrite IH. destruct (feed sts (flat_map f cs) ss1) as [[ss2 o2] d2]. reflexivity.
Qed.

Lemma stateless_run s f : stateless_sim s f -> forall sts st cs ss,
  run (s :: sts) (st :: ss) cs = run sts ss (flat_map f cs).
Proof.
  intros H sts st cs ss. rewrite !run_feed, (stateless_feed s f H).
  destruct (feed sts (flat_map f cs) ss) as [[ss2 o] d].
  destruct (H sts st ss2 (new_empty)) as [_ ->]. reflexivity.
Qed.

Definition f_preset vs ds (c : ctx) : list ctx := [with_definitions (with_variables c vs) ds].
Definition f_split e (c : ctx) : list ctx :=
  match get e c with Some (JArr l) => map (with_input c) l | _ => [] end.
Definition p_filter e (c : ctx) : bool := match get e c with Some (JBool true) => true | _ => false end.
Definition f_filter e (c : ctx) : list ctx := if p_filter e c then [c] else [].
Definition f_select n e (c : ctx) : list ctx := [with_result c n (get e c)].

Lemma sim_preset vs ds : stateless_sim (SPreSet vs ds) (f_preset vs ds).
Proof.
  intros sts st ss c. split; [|reflexivity].
  unfold f_preset. rewrite feed_one. reflexivity.
Qed.
Lemma sim_select n e : stateless_sim (SSelect n e) (f_select n e).
Proof.
  intros sts st ss c. split; [|reflexivity].
  unfold f_select. rewrite feed_one. reflexivity.
Qed.
Lemma sim_filter e : stateless_sim (SFilter e) (f_filter e).
Proof.
  intros sts st ss c. split; [|reflexivity].
  unfold f_filter, p_filter. cbn [Chain.process].
  destruct (get e c) as [[| [|] | | | |]|]; try reflexivity.
  rewrite feed_one. reflexivity.
Qed.
Lemma sim_split e : stateless_sim (SSplit e) (f_split e).
Proof.
  intros sts st ss c. split; [|reflexivity].
  unfold f_split. cbn [Chain.process].
  destruct (get e c) as [[| | | | |l]|]; try reflexivity.
Qed.

Lemma flat_map_single {A B} (g : A -> B) l : flat_map (fun x => [g x]) l = map g l.
Proof. induction l as [|x l IH]; cbn; [reflexivity|]. rewrite IH. reflexivity. Qed.
Lemma flat_map_filter {A} (p : A -> bool) l : flat_map (fun x => if p x then [x] else []) l = filter p l.
Proof. induction l as [|x l IH]; cbn; [reflexivity|]. rewrite IH. destruct (p x); reflexivity. Qed.

Lemma run_preset vs ds sts st ss cs :
  run (SPreSet vs ds :: sts) (st :: ss) cs = run sts ss (stage_spec E get (SPreSet vs ds) cs).
Proof. rewrite (stateless_run _ _ (sim_preset vs ds)). unfold f_preset. rewrite flat_map_single. reflexivity. Qed.
Lemma run_select n e sts st ss cs :
  run (SSelect n e :: sts) (st :: ss) cs = run sts ss (stage_spec E get (SSelect n e) cs).
Proof. rewrite (stateless_run _ _ (sim_select n e)). unfold f_select. rewrite flat_map_single. reflexivity. Qed.
Lemma run_filter e sts st ss cs :
  run (SFilter e :: sts) (st :: ss) cs = run sts ss (stage_spec E get (SFilter e) cs).
Proof. rewrite (stateless_run _ _ (sim_filter e)). unfold f_filter. rewrite flat_map_filter. reflexivity. Qed.
Lemma run_split e sts st ss cs :
  run (SSplit e :: sts) (st :: ss) cs = run sts ss (stage_spec E get (SSplit e) cs).
Proof. rewrite (stateless_run _ _ (sim_split e)). reflexivity. Qed.

(* ---------- never answering Break ---------- *)
Fixpoint nb (sts : list stage) : bool :=
  match sts with
  | [] => true
  | SLimit _ (Some _) :: _ => false
  | (SSort _ _ _ | SGroup _ | SMerge) :: _ => true
  | _ :: t => nb t
  end.

Lemma feed_decision_nb sts : (forall ss c, snd (process sts ss c) = Continue) ->
  forall cs ss, snd (feed sts cs ss) = Continue.
Proof.
  intros H cs. induction cs as [|c cs IH]; intros ss; [reflexivity|].
  rewrite feed_cons. specialize (H ss c). destruct (process sts ss c) as [[ss1 o] d]. cbn in H. subst d.
  specialize (IH ss1). destruct (feed sts cs ss1) as [[ss2 o2] d2]. exact IH.
Qed.

Lemma nb_continue sts : nb sts = true -> forall ss c, snd (process sts ss c) = Continue.
Proof.
  induction sts as [|s sts IH]; intros Hnb ss c; [reflexivity|].
  destruct s as [vs ds|e|e|n e| |k dir cap|sk tk|k| ]; cbn [nb] in Hnb.
  - destruct ss as [|st ss]; [reflexivity|]. destruct (sim_preset vs ds sts st ss c) as [-> _].
    pose proof (feed_decision_nb sts (IH Hnb) (f_preset vs ds c) ss) as H.
    destruct (feed sts (f_preset vs ds c) ss) as [[? ?] ?]; exact H.
  - destruct ss as [|st ss]; [reflexivity|]. destruct (sim_split e sts st ss c) as [-> _].
    pose proof (feed_decision_nb sts (IH Hnb) (f_split e c) ss) as H.
    destruct (feed sts (f_split e c) ss) as [[? ?] ?]; exact H.
  - destruct ss as [|st ss]; [reflexivity|]. destruct (sim_filter e sts st ss c) as [-> _].
    pose proof (feed_decision_nb sts (IH Hnb) (f_filter e c) ss) as H.
    destruct (feed sts (f_filter e c) ss) as [[? ?] ?]; exact H.
  - destruct ss as [|st ss]; [reflexivity|]. destruct (sim_select n e sts st ss c) as [-> _].
    pose proof (feed_decision_nb sts (IH Hnb) (f_select n e c) ss) as H.
    destruct (feed sts (f_select n e c) ss) as [[? ?] ?]; exact H.
  - destruct ss as [|[ |seen| | | | ] ss]; try reflexivity. cbn [Chain.process].
    destruct (mem_key (Ctx.key c) seen); [reflexivity|].
    specialize (IH Hnb ss c). destruct (process sts ss c) as [[? ?] ?]; exact IH.
  - destruct ss as [|[ | |sp data| | | ] ss]; try reflexivity. rewrite process_sort. reflexivity.
  - destruct tk as [lim|]; [discriminate|].
    destruct ss as [|[ | | |skd pd| | ] ss]; try reflexivity. cbn [Chain.process].
    destruct (N.ltb skd sk); [reflexivity|].
    specialize (IH Hnb ss c). destruct (process sts ss c) as [[? ?] ?]; exact IH.
  - destruct ss as [|[ | | | |data| ] ss]; try reflexivity. cbn [Chain.process].
    destruct (get k c) as [[]|]; reflexivity.
  - destruct ss as [|[ | | | | |data] ss]; reflexivity.
Qed.

(* ---------- unique ---------- *)
Lemma feed_uniq sts cs : forall seen ss,
  exists seen', feed (SUniq :: sts) cs (StUniq seen :: ss) =
    let '(ss2, o, d) := feed sts (dedup_from E seen cs) ss in (StUniq seen' :: ss2, o, d).
Proof.
  induction cs as [|c cs IH]; intros seen ss.
  - exists seen. reflexivity.
  - rewrite feed_cons. cbn [Chain.process dedup_from]. unfold mem_key.
    destruct (existsb (ckey_eqb (Ctx.key c)) seen) eqn:Hm.
    + destruct (IH seen ss) as [seen' ->]. exists seen'.
      destruct (feed sts (dedup_from E seen cs) ss) as [[ss2 o] d]. reflexivity.
    + rewrite feed_cons. destruct (process sts ss c) as [[ss1 o] d]. destruct d.
      * destruct (IH (Ctx.key c :: seen) ss1) as [seen' ->]. exists seen'.
        destruct (feed sts (dedup_from E (Ctx.key c :: seen) cs) ss1) as [[ss2 o2] d2]. reflexivity.
      * exists (Ctx.key c :: seen). reflexivity.
Qed.

Lemma run_uniq sts ss cs :
  run (SUniq :: sts) (StUniq [] :: ss) cs = run sts ss (stage_spec E get SUniq cs).
Proof.
  rewrite !run_feed. destruct (feed_uniq sts cs [] ss) as [seen' ->]. cbn [stage_spec].
  destruct (feed sts (dedup_from E [] cs) ss) as [[ss2 o] d]. reflexivity.
Qed.

(* ---------- skip / take ---------- *)
(* the limiter as a pure function of its counters *)
Fixpoint limit_from (sk : N) (tk : option N) (skd pd : N) (cs : list ctx) : list ctx :=
  match cs with
  | [] => []
  | c :: t =>
      if N.ltb skd sk then limit_from sk tk (skd + 1) pd t
      else match tk with
           | Some lim => if N.leb lim pd then [] else c :: limit_from sk tk skd (pd + 1) t
           | None => c :: limit_from sk tk skd pd t
           end
  end.

Lemma run_nil sts ss : run sts ss [] = complete sts ss.
Proof. reflexivity. Qed.

Lemma run_cons_nb sts ss c cs : nb sts = true ->
  run sts ss (c :: cs) = let '(ss1, o, _) := process sts ss c in o ++ run sts ss1 cs.
Proof.
  intros Hnb. cbn [Chain.run]. pose proof (nb_continue sts Hnb ss c) as H.
  destruct (process sts ss c) as [[ss1 o] d]. cbn in H. subst d. reflexivity.
Qed.

Lemma run_limit_from sk tk sts cs : nb sts = true -> forall skd pd ss,
  run (SLimit sk tk :: sts) (StLimit skd pd :: ss) cs = run sts ss (limit_from sk tk skd pd cs).
Proof.
  intros Hnb. induction cs as [|c cs IH]; intros skd pd ss.
  - reflexivity.
  - cbn [Chain.run Chain.process limit_from].
    destruct (N.ltb skd sk) eqn:Hsk.
    + cbn [app]. apply IH.
    + destruct tk as [lim|].
      * destruct (N.leb lim pd) eqn:Hl.
        { reflexivity. }
        rewrite (run_cons_nb sts ss c _ Hnb).
        destruct (process sts ss c) as [[ss1 o] d].
        destruct (N.leb lim (pd + 1)) eqn:Hl2.
        { f_equal. destruct cs as [|c2 cs2]; [reflexivity|].
          cbn [limit_from]. rewrite Hsk, Hl2. reflexivity. }
        { f_equal. apply IH. }
      * rewrite (run_cons_nb sts ss c _ Hnb). pose proof (nb_continue sts Hnb ss c) as Hd.
        destruct (process sts ss c) as [[ss1 o] d]. cbn in Hd. subst d. f_equal. apply IH.
Qed.

Lemma limit_from_spec sk tk cs : forall skd pd, (skd <= sk)%N ->
  limit_from sk tk skd pd cs =
  match tk with
  | Some lim => firstn (N.to_nat (lim - pd)) (skipn (N.to_nat (sk - skd)) cs)
  | None => skipn (N.to_nat (sk - skd)) cs
  end.
Proof.
  induction cs as [|c cs IH]; intros skd pd Hle.
  - destruct tk; rewrite ?skipn_nil, ?firstn_nil; reflexivity.
  - cbn [limit_from]. destruct (N.ltb_spec skd sk) as [Hlt|Hge].
    + rewrite IH by lia.
      replace (N.to_nat (sk - skd)) with (S (N.to_nat (sk - (skd + 1)))) by lia.
      reflexivity.
    + replace (N.to_nat (sk - skd)) with O by lia. cbn [skipn].
      destruct tk as [lim|].
      * destruct (N.leb_spec lim pd) as [Hl|Hl].
        { replace (N.to_nat (lim - pd)) with O by lia. reflexivity. }
        { rewrite IH by lia. replace (N.to_nat (sk - skd)) with O by lia. cbn [skipn].
          replace (N.to_nat (lim - pd)) with (S (N.to_nat (lim - (pd + 1)))) by lia. reflexivity. }
      * rewrite IH by lia. replace (N.to_nat (sk - skd)) with O by lia. reflexivity.
Qed.

Lemma run_limit sk tk sts ss cs : nb sts = true ->
  run (SLimit sk tk :: sts) (StLimit 0 0 :: ss) cs = run sts ss (stage_spec E get (SLimit sk tk) cs).
Proof.
  intros Hnb. rewrite (run_limit_from sk tk sts cs Hnb), limit_from_spec by lia.
  cbn [stage_spec]. unfold limit_spec. rewrite N.sub_0_r. destruct tk as [lim|]; [rewrite N.sub_0_r|]; reflexivity.
Qed.

(* ---------- buffering stages: what their complete() feeds downstream ---------- *)
Notation feed_all := (feed_all E get).

Lemma feed_all_cons sts ss c cs :
  feed_all sts ss (c :: cs) =
  let '(ss1, o, _) := process sts ss c in let '(ss2, o2) := feed_all sts ss1 cs in (ss2, o ++ o2).
Proof. reflexivity. Qed.

(* after a stage has answered Break, feeding it more changes nothing *)
Definition dead_after_break (T : list stage) : Prop :=
  forall ss c ss1 o, process T ss c = (ss1, o, Break) -> forall l, feed_all T ss1 l = (ss1, []).

Lemma dab_nb T : nb T = true -> dead_after_break T.
Proof.
  intros Hnb ss c ss1 o H. pose proof (nb_continue T Hnb ss c) as Hc. rewrite H in Hc. discriminate.
Qed.

Lemma dab_limit sk lim post : dead_after_break (SLimit sk (Some lim) :: post).
Proof.
  intros ss c ss1 o H.
  assert (Hdead : exists skd pd ss', ss1 = StLimit skd pd :: ss' /\ N.ltb skd sk = false /\ N.leb lim pd = true).
  { destruct ss as [|[ | | |skd pd| | ] ss']; cbn [Chain.process] in H; try discriminate.
    destruct (N.ltb skd sk) eqn:Hsk; [discriminate|].
    destruct (N.leb lim pd) eqn:Hl.
    - inversion H; subst. eauto 6.
    - destruct (process post ss' c) as [[ss2 o2] d2].
      destruct (N.leb lim (pd + 1)) eqn:Hl2; [|discriminate].
      inversion H; subst. eauto 6. }
  destruct Hdead as (skd & pd & ss' & -> & Hsk & Hl).
  intros l. induction l as [|x l IH]; [reflexivity|].
  rewrite feed_all_cons. cbn [Chain.process]. rewrite Hsk, Hl. rewrite IH. reflexivity.
Qed.

Definition good_tail (T : list stage) : Prop :=
  nb T = true \/ exists s lim post, T = SLimit s (Some lim) :: post.

Lemma good_tail_dab T : good_tail T -> dead_after_break T.
Proof. intros [H|(s & lim & post & ->)]; [apply dab_nb; exact H|apply dab_limit]. Qed.

Lemma run_feed_all T : dead_after_break T -> forall l ss,
  run T ss l = let '(ss2, o) := feed_all T ss l in o ++ complete T ss2.
Proof.
  intros Hd l. induction l as [|c l IH]; intros ss; [reflexivity|].
  cbn [Chain.run]. rewrite feed_all_cons.
  destruct (process T ss c) as [[ss1 o] d] eqn:Hp. destruct d.
  - rewrite IH. destruct (feed_all T ss1 l) as [ss2 o2]. rewrite app_assoc. reflexivity.
  - rewrite (Hd _ _ _ _ Hp l). rewrite app_nil_r. reflexivity.
Qed.

(* ---------- sort ---------- *)
Lemma run_sort_fold k dir cap T cs : forall sp data ss,
  run (SSort k dir cap :: T) (StSort sp data :: ss) cs =
  let st := fold_left (sort_step E get k dir) cs (sp, data) in
  let '(ss2, o) := feed_all T ss (flush E dir (snd st)) in o ++ complete T ss2.
Proof.
  induction cs as [|c cs IH]; intros sp data ss.
  - reflexivity.
  - cbn [Chain.run fold_left]. rewrite process_sort. cbn [app].
    rewrite IH. destruct (sort_step E get k dir (sp, data) c) as [sp1 d1]. reflexivity.
Qed.

Section WithOrder.
Hypothesis cmp_refl : forall a, jcmpS a a = Eq.
Hypothesis cmp_antisym : forall a b, jcmpS a b = CompOpp (jcmpS b a).
Hypothesis cmp_trans_le : forall a b c, jcmpS a b <> Gt -> jcmpS b c <> Gt -> jcmpS a c <> Gt.
Hypothesis cmp_eq_l : forall a b c, jcmpS a b = Eq -> jcmpS a c = jcmpS b c.

Lemma run_sort_nocap k dir T ss cs : good_tail T ->
  run (SSort k dir None :: T) (StSort None [] :: ss) cs = run T ss (sort_spec E get k dir cs).
Proof.
  intros Hg. rewrite run_sort_fold. cbv zeta.
  rewrite (sorter_spec_nocap E get cmp_refl cmp_antisym cmp_trans_le cmp_eq_l).
  rewrite (run_feed_all T (good_tail_dab T Hg)). reflexivity.
Qed.

Lemma firstn_skipn_firstn {A} (l : list A) : forall (s t n : nat), s + t <= n ->
  firstn t (skipn s (firstn n l)) = firstn t (skipn s l).
Proof.
  induction l as [|x l IH]; intros s t n H.
  - rewrite firstn_nil, !skipn_nil. reflexivity.
  - destruct n as [|n].
    + assert (s = 0 /\ t = 0) as [-> ->] by lia. reflexivity.
    + destruct s as [|s].
      * cbn [firstn skipn]. destruct t as [|t]; [reflexivity|]. cbn [firstn]. f_equal.
        apply (IH 0 t n). lia.
      * cbn [firstn skipn]. apply IH. lia.
Qed.

Lemma run_sort_cap k dir n sk lim post ss cs : nb post = true -> (sk + lim <= n)%N ->
  run (SSort k dir (Some n) :: SLimit sk (Some lim) :: post) (StSort (Some n) [] :: StLimit 0 0 :: ss) cs =
  run (SLimit sk (Some lim) :: post) (StLimit 0 0 :: ss) (sort_spec E get k dir cs).
Proof.
  intros Hnb Hle. rewrite run_sort_fold. cbv zeta.
  rewrite (sorter_spec_cap E get cmp_refl cmp_antisym cmp_trans_le cmp_eq_l).
  rewrite <- (run_feed_all _ (dab_limit sk lim post)).
  rewrite !(run_limit sk (Some lim) post ss _ Hnb). cbn [stage_spec]. unfold limit_spec.
  rewrite firstn_skipn_firstn by lia. reflexivity.
Qed.
End WithOrder.

(* ---------- group / merge (they must be the last stage before the printer) ---------- *)
Lemma group_push_add k v d : group_push k v d = group_add k v d.
Proof. induction d as [|[k' l] d IH]; cbn; [reflexivity|]. rewrite IH. reflexivity. Qed.

Definition group_step (k : E) (d : list (str * list json)) (c : ctx) :=
  match get k c with Some (JStr n) => group_add n (build c) d | _ => d end.

Lemma run_group_fold k cs : forall data ss,
  run [SGroup k] (StGroup data :: ss) cs =
  [new_with_no_context (JObj (map (fun kl => (fst kl, JArr (snd kl))) (fold_left (group_step k) cs data)))].
Proof.
  induction cs as [|c cs IH]; intros data ss.
  - reflexivity.
  - cbn [Chain.run Chain.process fold_left]. unfold group_step at 2.
    destruct (get k c) as [[| | n | | |]|]; cbn [app]; rewrite ?IH, ?group_push_add; reflexivity.
Qed.
Lemma run_group k ss cs : run [SGroup k] (StGroup [] :: ss) cs = stage_spec E get (SGroup k) cs.
Proof. rewrite run_group_fold. reflexivity. Qed.

Lemma run_merge_fold cs : forall data ss,
  run [SMerge] (StMerge data :: ss) cs = [new_with_no_context (JArr (data ++ map build cs))].
Proof.
  induction cs as [|c cs IH]; intros data ss.
  - cbn. rewrite app_nil_r. reflexivity.
  - cbn [Chain.run Chain.process app map]. rewrite IH, <- app_assoc. reflexivity.
Qed.
Lemma run_merge ss cs : run [SMerge] (StMerge [] :: ss) cs = stage_spec E get SMerge cs.
Proof. rewrite run_merge_fold. reflexivity. Qed.

(* ---------- the whole pipeline ---------- *)
Definition cap_ok (cap : option N) (T : list stage) : Prop :=
  match cap with
  | None => True
  | Some n => exists s lim post, T = SLimit s (Some lim) :: post /\ nb post = true /\ (s + lim <= n)%N
  end.

(* the shapes Master::go builds: buffering sorters are followed by a tail that either never stops the
   reader or is headed by the limiter; a capacity is only given to the sorter next to the limiter;
   the limiter is followed by stages that never stop; group/merge is the last stage *)
Fixpoint wfp (sts : list stage) : Prop :=
  match sts with
  | [] => True
  | SSort _ _ cap :: T => good_tail T /\ cap_ok cap T /\ wfp T
  | SLimit _ _ :: T => nb T = true /\ wfp T
  | SGroup _ :: T | SMerge :: T => T = []
  | _ :: T => wfp T
  end.

Section Main.
Hypothesis cmp_refl : forall a, jcmpS a a = Eq.
Hypothesis cmp_antisym : forall a b, jcmpS a b = CompOpp (jcmpS b a).
Hypothesis cmp_trans_le : forall a b c, jcmpS a b <> Gt -> jcmpS b c <> Gt -> jcmpS a c <> Gt.
Hypothesis cmp_eq_l : forall a b c, jcmpS a b = Eq -> jcmpS a c = jcmpS b c.

Theorem run_spec : forall sts, wfp sts -> forall cs,
  run sts (map (init_state E) sts) cs = spec E get sts cs.
Proof.
  induction sts as [|s T IH]; intros Hwf cs.
  - cbn [map spec]. induction cs as [|c cs IHc]; [reflexivity|]. cbn [Chain.run Chain.process app]. rewrite IHc. reflexivity.
  - destruct s as [vs ds|e|e|n e| |k dir cap|sk tk|k| ]; cbn [map init_state spec]; cbn [wfp] in Hwf.
    + rewrite run_preset. apply IH, Hwf.
    + rewrite run_split. apply IH, Hwf.
    + rewrite run_filter. apply IH, Hwf.
    + rewrite run_select. apply IH, Hwf.
    + rewrite run_uniq. apply IH, Hwf.
    + destruct Hwf as (Hg & Hc & Hw). destruct cap as [n|].
      * destruct Hc as (s & lim & post & -> & Hnb & Hle). cbn [map init_state].
        rewrite (run_sort_cap cmp_refl cmp_antisym cmp_trans_le cmp_eq_l) by assumption.
        apply (IH Hw).
      * rewrite (run_sort_nocap cmp_refl cmp_antisym cmp_trans_le cmp_eq_l) by assumption.
        apply IH, Hw.
    + destruct Hwf as (Hnb & Hw). rewrite run_limit by assumption. apply IH, Hw.
    + subst T. cbn [map spec]. apply run_group.
    + subst T. cbn [map spec]. apply run_merge.
Qed.
End Main.

(* ---------- corollaries used by the property files ---------- *)
Lemma spec_app a b cs : spec E get (a ++ b) cs = spec E get b (spec E get a cs).
Proof. revert cs. induction a as [|s a IH]; intros cs; [reflexivity|]. cbn [app spec]. apply IH. Qed.

(* sorting capacities removed *)
Definition uncap (s : stage) : stage := match s with SSort k d _ => SSort k d None | s => s end.
Lemma stage_spec_uncap s cs : stage_spec E get (uncap s) cs = stage_spec E get s cs.
Proof. destruct s; reflexivity. Qed.
Lemma spec_uncap sts cs : spec E get (map uncap sts) cs = spec E get sts cs.
Proof. revert cs. induction sts as [|s sts IH]; intros cs; [reflexivity|]. cbn [map spec]. rewrite stage_spec_uncap. apply IH. Qed.

(* record locality: stages whose specification is a flat_map *)
Definition stateless (s : stage) : bool :=
  match s with SPreSet _ _ | SSplit _ | SFilter _ | SSelect _ _ => true | _ => false end.

Lemma stage_spec_stateless_app s a b : stateless s = true ->
  stage_spec E get s (a ++ b) = stage_spec E get s a ++ stage_spec E get s b.
Proof.
  destruct s; try discriminate; intros _; cbn [stage_spec].
  - apply map_app.
  - apply flat_map_app.
  - apply filter_app.
  - apply map_app.
Qed.
Lemma spec_stateless_app sts : forallb stateless sts = true -> forall a b,
  spec E get sts (a ++ b) = spec E get sts a ++ spec E get sts b.
Proof.
  induction sts as [|s sts IH]; intros H a b; [reflexivity|].
  cbn [forallb] in H. apply andb_prop in H as [Hs Ht]. cbn [spec].
  rewrite stage_spec_stateless_app by exact Hs. apply IH, Ht.
Qed.
Lemma spec_stateless_nil sts : forallb stateless sts = true -> spec E get sts [] = [].
Proof.
  induction sts as [|s sts IH]; intros H; [reflexivity|].
  cbn [forallb] in H. apply andb_prop in H as [Hs Ht]. cbn [spec].
  destruct s; try discriminate; cbn [stage_spec map flat_map filter]; apply IH, Ht.
Qed.
Lemma spec_stateless_local sts : forallb stateless sts = true -> forall cs,
  spec E get sts cs = flat_map (fun c => spec E get sts [c]) cs.
Proof.
  intros H cs. induction cs as [|c cs IH]; [apply spec_stateless_nil, H|].
  change (c :: cs) with ([c] ++ cs). rewrite spec_stateless_app by exact H. cbn [flat_map app]. rewrite IH. reflexivity.
Qed.
Lemma stateless_wfp sts : forallb stateless sts = true -> wfp sts.
Proof.
  induction sts as [|s sts IH]; intros H; [exact I|].
  cbn [forallb] in H. apply andb_prop in H as [Hs Ht]. destruct s; try discriminate; cbn [wfp]; apply IH, Ht.
Qed.

(* once the chain has answered Break, what follows in the input is irrelevant *)
Lemma run_break_prefix sts ss cs ss1 o : feed sts cs ss = (ss1, o, Break) -> forall rest,
  run sts ss (cs ++ rest) = o ++ complete sts ss1.
Proof.
  intros H rest. rewrite run_feed, feed_app, H. reflexivity.
Qed.
Lemma run_break_prefix' sts ss cs ss1 o : feed sts cs ss = (ss1, o, Break) -> forall rest,
  run sts ss (cs ++ rest) = run sts ss cs.
Proof.
  intros H rest. rewrite (run_break_prefix _ _ _ _ _ H), run_feed, H. reflexivity.
Qed.

(* the limiter answers Break exactly when its quota is used up *)
Lemma limit_break sk lim post : nb post = true -> forall cs skd pd ss,
  (skd <= sk)%N -> (pd <= lim)%N ->
  snd (feed (SLimit sk (Some lim) :: post) cs (StLimit skd pd :: ss)) =
  if (N.to_nat (sk - skd) + N.to_nat (N.max 1 (lim - pd)) <=? length cs)%nat then Break else Continue.
Proof.
  intros Hnb cs. induction cs as [|c cs IH]; intros skd pd ss Hs Hp.
  - cbn [length]. destruct (Nat.leb_spec (N.to_nat (sk - skd) + N.to_nat (N.max 1 (lim - pd))) 0); [lia|reflexivity].
  - rewrite feed_cons. cbn [Chain.process length].
    destruct (N.ltb_spec skd sk) as [Hlt|Hge].
    + specialize (IH (skd + 1)%N pd ss ltac:(lia) Hp).
      destruct (feed (SLimit sk (Some lim) :: post) cs (StLimit (skd + 1) pd :: ss)) as [[ss2 o2] d2].
      cbn [snd] in *. rewrite IH.
      destruct (Nat.leb_spec (N.to_nat (sk - (skd + 1)) + N.to_nat (N.max 1 (lim - pd))) (length cs));
      destruct (Nat.leb_spec (N.to_nat (sk - skd) + N.to_nat (N.max 1 (lim - pd))) (S (length cs))); try reflexivity; lia.
    + destruct (N.leb_spec lim pd) as [Hl|Hl].
      * cbn [snd]. destruct (Nat.leb_spec (N.to_nat (sk - skd) + N.to_nat (N.max 1 (lim - pd))) (S (length cs))); [reflexivity|lia].
      * destruct (process post ss c) as [[ss1 o] d].
        destruct (N.leb_spec lim (pd + 1)) as [Hl2|Hl2].
        { cbn [snd]. destruct (Nat.leb_spec (N.to_nat (sk - skd) + N.to_nat (N.max 1 (lim - pd))) (S (length cs))); [reflexivity|lia]. }
        { specialize (IH skd (pd + 1)%N ss1 Hs ltac:(lia)).
          destruct (feed (SLimit sk (Some lim) :: post) cs (StLimit skd (pd + 1) :: ss1)) as [[ss2 o2] d2].
          cbn [snd] in *. rewrite IH.
          destruct (Nat.leb_spec (N.to_nat (sk - skd) + N.to_nat (N.max 1 (lim - (pd + 1)))) (length cs));
          destruct (Nat.leb_spec (N.to_nat (sk - skd) + N.to_nat (N.max 1 (lim - pd))) (S (length cs))); try reflexivity; lia. }
Qed.

(* stateless stages and --unique forward the decision of their successor over whole inputs *)
Lemma feed_stateless_decision s f : stateless_sim s f -> forall sts st cs ss,
  snd (feed (s :: sts) cs (st :: ss)) = snd (feed sts (flat_map f cs) ss).
Proof.
  intros H sts st cs ss. rewrite (stateless_feed s f H).
  destruct (feed sts (flat_map f cs) ss) as [[? ?] ?]. reflexivity.
Qed.
Lemma feed_uniq_decision sts cs seen ss :
  snd (feed (SUniq :: sts) cs (StUniq seen :: ss)) = snd (feed sts (dedup_from E seen cs) ss).
Proof.
  destruct (feed_uniq sts cs seen ss) as [seen' ->].
  destruct (feed sts (dedup_from E seen cs) ss) as [[? ?] ?]. reflexivity.
Qed.

(* streaming prefixes: stateless stages and unique *)
Definition streaming (s : stage) : bool :=
  match s with SPreSet _ _ | SSplit _ | SFilter _ | SSelect _ _ | SUniq => true | _ => false end.

Lemma feed_streaming_decision pre : forallb streaming pre = true -> forall T cs ssT,
  snd (feed (pre ++ T) cs (map (init_state E) pre ++ ssT)) = snd (feed T (spec E get pre cs) ssT).
Proof.
  induction pre as [|s pre IH]; intros H T cs ssT; [reflexivity|].
  cbn [forallb] in H. apply andb_prop in H as [Hs Ht].
  destruct s; try discriminate; cbn [app map init_state spec].
  - rewrite (feed_stateless_decision _ _ (sim_preset vs ds)), IH by exact Ht.
    unfold f_preset. rewrite flat_map_single. reflexivity.
  - rewrite (feed_stateless_decision _ _ (sim_split e)), IH by exact Ht. reflexivity.
  - rewrite (feed_stateless_decision _ _ (sim_filter e)), IH by exact Ht.
    unfold f_filter. rewrite flat_map_filter. reflexivity.
  - rewrite (feed_stateless_decision _ _ (sim_select name e)), IH by exact Ht.
    unfold f_select. rewrite flat_map_single. reflexivity.
  - rewrite feed_uniq_decision, IH by exact Ht. reflexivity.
Qed.

End ChainProofs.
