(* LocalityProofs.v — (L1) the parser is determined by the events it actually pulls;
   (L2) after a Break nothing that follows matters; (L3) the events of a run cut by a read error are a
   prefix of the events of the fault-free run; (L4) error policies at the level of go. *)
From Coq Require Import List NArith ZArith Bool Lia.
From Jawk Require Import Base F64 Json Reader JsonParser Stream Ctx Printer Expr Chain ExprParser Go.
From Jawk Require Import Render ReaderLemmas ParserProofs GoProofs.
Import ListNotations.
Local Open Scope N_scope.

#[local] Arguments N.add : simpl never.
#[local] Arguments N.mul : simpl never.
#[local] Arguments N.sub : simpl never.
#[local] Arguments N.eqb : simpl never.
#[local] Arguments N.ltb : simpl never.
#[local] Arguments N.leb : simpl never.
#[local] Arguments N.of_nat : simpl never.
#[local] Arguments N.to_nat : simpl never.

(* ================= (L1) locality ================= *)
(* how far the reader has looked into its source: bytes pulled, plus one when the end (or a read
   error) has been seen *)
Definition consumed (r : reader) : nat := (N.to_nat (pulled r) + (if eof r then 1 else 0))%nat.

(* same visible state, and the pending events coincide up to absolute position n of the source *)
Definition agree (n : nat) (r1 r2 : reader) : Prop :=
  inv r1 /\ cur r1 = cur r2 /\ eof r1 = eof r2 /\ line r1 = line r2 /\ col r1 = col r2 /\
  pulled r1 = pulled r2 /\ io r1 = io r2 /\
  firstn (n - consumed r1) (rest r1) = firstn (n - consumed r1) (rest r2).

Definition det2 {A} (n : nat) (x1 x2 : A * reader) : Prop :=
  fst x1 = fst x2 /\ agree n (snd x1) (snd x2).

Lemma consumed_step r : (consumed r <= consumed (step r))%nat.
Proof.
  unfold consumed, step, next. destruct (eof r) eqn:E; cbn [snd]; [rewrite E; lia|].
  destruct (rest r) as [|[b|] t]; cbn [snd pulled eof]; lia.
Qed.

Lemma consumed_advances r r' : advances r r' -> (consumed r <= consumed r')%nat.
Proof.
  intros H. apply (advances_inv (fun x => (consumed r <= consumed x)%nat)) with (r := r); auto.
  intros x Hx. pose proof (consumed_step x). lia.
Qed.

Lemma consumed_le a b n : advances a b -> (consumed b <= n)%nat -> (consumed a <= n)%nat.
Proof. intros H Hb. pose proof (consumed_advances a b H). lia. Qed.

Lemma inv_step r : inv r -> inv (step r).
Proof. intros H. apply (next_mono r H). Qed.

Lemma agree_inv2 n r1 r2 : agree n r1 r2 -> inv r2.
Proof. unfold agree, inv. intros (Hi & Hc & He & _). rewrite <- He, <- Hc. exact Hi. Qed.

Lemma agree_m n r1 r2 : agree n r1 r2 -> inv r1.
Proof. intros H. apply H. Qed.

Lemma firstn_S_nil {A} k (l : list A) : [] = firstn (S k) l -> l = [].
Proof. destruct l; [reflexivity|discriminate]. Qed.

Lemma firstn_S_cons {A} k (a : A) t l : a :: firstn k t = firstn (S k) l ->
  exists t', l = a :: t' /\ firstn k t = firstn k t'.
Proof. destruct l as [|a' t']; [discriminate|]. cbn [firstn]. intros H. injection H as <- H. eauto. Qed.

Lemma next_det n r1 r2 : agree n r1 r2 -> (consumed (snd (next r1)) <= n)%nat ->
  det2 n (next r1) (next r2).
Proof.
  destruct r1 as [c1 e1 rs1 l1 k1 p1 i1], r2 as [c2 e2 rs2 l2 k2 p2 i2].
  unfold det2, agree, consumed, inv, next; cbn [cur eof rest line col pulled io].
  intros (Hi & <- & <- & <- & <- & <- & <- & Hf). destruct e1; cbn [fst snd cur eof rest line col pulled io].
  - intros _. repeat split; auto.
  - destruct rs1 as [|[b|] t1]; cbn [fst snd cur eof rest line col pulled io]; intros Hb.
    + replace (n - (N.to_nat p1 + 0))%nat with (S (n - (N.to_nat p1 + 0) - 1)) in Hf by lia.
      apply firstn_S_nil in Hf. subst rs2. cbn [fst snd cur eof rest line col pulled io].
      repeat split; auto.
    + replace (n - (N.to_nat p1 + 0))%nat with (S (n - (N.to_nat p1 + 0) - 1)) in Hf by lia.
      cbn [firstn] in Hf. apply firstn_S_cons in Hf. destruct Hf as (t2 & -> & Hf).
      cbn [fst snd cur eof rest line col pulled io]. repeat split; auto; try discriminate.
      replace (n - (N.to_nat (p1 + 1) + 0))%nat with (n - (N.to_nat p1 + 0) - 1)%nat by lia. exact Hf.
    + replace (n - (N.to_nat p1 + 0))%nat with (S (n - (N.to_nat p1 + 0) - 1)) in Hf by lia.
      cbn [firstn] in Hf. apply firstn_S_cons in Hf. destruct Hf as (t2 & -> & Hf).
      cbn [fst snd cur eof rest line col pulled io]. repeat split; auto.
Qed.

Lemma peek_det n r1 r2 : agree n r1 r2 -> (consumed (snd (peek r1)) <= n)%nat ->
  det2 n (peek r1) (peek r2).
Proof.
  intros H. pose proof H as (_ & Hc & _). unfold peek. rewrite <- Hc.
  destruct (cur r1); [intros _; split; [reflexivity|exact H]|apply next_det; exact H].
Qed.

(* ----- two runs side by side: first evaluate the run on r1 (collecting, for every reader
   operation, how far it advanced and its determinacy fact), then replay the run on r2 ----- *)
Ltac with_goal k :=
  lazymatch goal with
  | |- det2 ?n ?t1 ?t2 => k n t1 t2
  | |- agree ?n ?t1 ?t2 => k n t1 t2
  end.

Ltac d_hide := with_goal ltac:(fun n t1 t2 => let T := fresh "T2" in remember t2 as T).
Ltac d_unhide :=
  match goal with
  | E : ?T = _ |- det2 _ _ ?T => subst T
  | E : ?T = _ |- agree _ _ ?T => subst T
  end.

Ltac d_pair t adv dfact :=
  let H1 := fresh "A" in let H2 := fresh "D" in
  pose proof adv as H1; pose proof dfact as H2; destruct t as [? ?]; fr_norm.

Ltac d_op :=
  with_goal ltac:(fun n t1 t2 =>
    match t1 with
    | context [next ?x] => is_var x; d_pair (next x) (next_advances x) (fun r2 => next_det n x r2)
    | context [peek ?x] => is_var x; d_pair (peek x) (peek_advances x) (fun r2 => peek_det n x r2)
    end).

Ltac d_case :=
  with_goal ltac:(fun n t1 t2 =>
    let x := hs t1 in (tryif is_var x then destruct x else destruct x eqn:?); fr_norm).

Ltac d_rew :=
  repeat match goal with
  | E : ?t = _ |- _ => tryif is_var t then fail else (lazymatch goal with |- context [t] => rewrite E end)
  end.

Ltac d_budget :=
  match goal with
  | B : (consumed ?rX <= ?n)%nat |- (consumed ?x <= ?n)%nat =>
      apply (consumed_le x rX n); [ad_done | exact B]
  end.

Ltac d_op2 :=
  match goal with
  | A : agree ?n ?x ?y, D : forall r2 : reader, agree ?n ?x r2 -> @?Q r2 |- _ =>
      is_var y;
      let D' := fresh "D" in pose proof (D y A) as D'; cbv beta in D';
      lazymatch type of D' with
      | (consumed ?x' <= _)%nat -> det2 _ _ ?u =>
          lazymatch goal with |- context [u] => idtac end;
          let Hb := fresh in assert (Hb : (consumed x' <= n)%nat) by d_budget;
          specialize (D' Hb); clear Hb; clear D;
          let o2 := fresh "o" in let y2 := fresh "y" in
          destruct u as [o2 y2]; unfold det2 in D'; cbn [fst snd] in D';
          let E := fresh in let A2 := fresh "A" in destruct D' as [E A2]; subst o2
      | (consumed ?x' <= _)%nat -> agree _ _ ?u =>
          lazymatch goal with |- context [u] => idtac end;
          let Hb := fresh in assert (Hb : (consumed x' <= n)%nat) by d_budget;
          specialize (D' Hb); clear Hb; clear D;
          let y2 := fresh "y" in set (y2 := u) in *; clearbody y2
      end
  end.

Ltac d_fin := first [ assumption | split; [reflexivity | assumption] ].

Ltac d_auto extra :=
  d_hide; repeat first [d_op | extra | d_case];
  d_unhide; fr_norm; d_rew; fr_norm;
  repeat (d_op2; fr_norm; d_rew; fr_norm);
  d_fin.

Lemma read_word_det n w : forall r1 r2, agree n r1 r2 ->
  (consumed (snd (read_word w r1)) <= n)%nat -> det2 n (read_word w r1) (read_word w r2).
Proof.
  induction w as [|e w IH]; intros r1 r2 A B; cbn [read_word] in *.
  - d_auto fail.
  - d_auto ltac:(idtac; match goal with |- context [read_word w ?x] =>
                   is_var x; d_pair (read_word w x) (read_word_advances w x) (IH x) end).
Qed.

Ltac d_set x adv dfact :=
  let H1 := fresh "A" in let H2 := fresh "D" in
  pose proof adv as H1; pose proof dfact as H2;
  let r' := fresh "r" in set (r' := x) in *; clearbody r'; fr_norm.

Lemma eat_ws_det n fuel : forall r1 r2, agree n r1 r2 ->
  (consumed (eat_ws fuel r1) <= n)%nat -> agree n (eat_ws fuel r1) (eat_ws fuel r2).
Proof.
  induction fuel as [|f IH]; intros r1 r2 A B; cbn [eat_ws] in *; [exact A|].
  d_auto ltac:(idtac; match goal with |- context [eat_ws f ?x] =>
                 is_var x; d_set (eat_ws f x) (eat_ws_advances f x) (IH x) end).
Qed.

Lemma read_digits_f_det n fuel : forall acc r1 r2, agree n r1 r2 ->
  (consumed (snd (read_digits_f fuel acc r1)) <= n)%nat ->
  det2 n (read_digits_f fuel acc r1) (read_digits_f fuel acc r2).
Proof.
  induction fuel as [|f IH]; intros acc r1 r2 A B; cbn [read_digits_f] in *; [split; [reflexivity|exact A]|].
  d_auto ltac:(idtac; match goal with |- context [read_digits_f f ?a ?x] =>
                 is_var x; d_pair (read_digits_f f a x) (read_digits_f_advances f a x) (IH a x) end).
Qed.

Lemma read_hex4_det n k : forall acc r1 r2, agree n r1 r2 ->
  (consumed (snd (read_hex4 k acc r1)) <= n)%nat ->
  det2 n (read_hex4 k acc r1) (read_hex4 k acc r2).
Proof.
  induction k as [|k IH]; intros acc r1 r2 A B; cbn [read_hex4] in *; [split; [reflexivity|exact A]|].
  d_auto ltac:(idtac; match goal with |- context [read_hex4 k ?a ?x] =>
                 is_var x; d_pair (read_hex4 k a x) (read_hex4_advances k a x) (IH a x) end).
Qed.

Lemma read_string_f_det n fuel : forall acc r1 r2, agree n r1 r2 ->
  (consumed (snd (read_string_f fuel acc r1)) <= n)%nat ->
  det2 n (read_string_f fuel acc r1) (read_string_f fuel acc r2).
Proof.
  induction fuel as [|f IH]; intros acc r1 r2 A B; cbn [read_string_f] in *; [split; [reflexivity|exact A]|].
  d_auto ltac:(idtac; first
    [ match goal with |- context [read_hex4 ?k ?a ?x] =>
        is_var x; d_pair (read_hex4 k a x) (read_hex4_advances k a x) (fun r2 => read_hex4_det n k a x r2) end
    | match goal with |- context [read_string_f f ?a ?x] =>
        is_var x; d_pair (read_string_f f a x) (read_string_f_advances f a x) (IH a x) end ]).
Qed.

(* ----- enough fuel is as good as more fuel ----- *)
Lemma m_le r : (m r <= S (length (rest r)))%nat.
Proof. unfold m. destruct (eof r); lia. Qed.

Lemma eat_ws_S f r : eat_ws (S f) r =
  match peek r with
  | (Some b, r') => if is_ws b then eat_ws f (snd (next r')) else r'
  | (None, r') => r'
  end.
Proof. reflexivity. Qed.

Lemma eat_ws_fuel_S : forall f r, inv r -> (m r < f)%nat -> eat_ws (S f) r = eat_ws f r.
Proof.
  induction f as [|f IH]; intros r Hi Hm; [lia|]. rewrite (eat_ws_S (S f)), (eat_ws_S f).
  pose proof (peek_mono r) as M1. pose proof (peek_live r) as M2.
  destruct (peek r) as [[b|] r']; cbn [fst snd] in *; [|reflexivity].
  destruct (is_ws b); [|reflexivity].
  pose proof (next_mono r') as M3. pose proof (next_strict r') as M4. mn_sat.
  apply IH; [assumption|lia].
Qed.

Lemma eat_ws_fuel f f' r : inv r -> (m r < f)%nat -> (f <= f')%nat -> eat_ws f' r = eat_ws f r.
Proof.
  intros Hi Hm Hle. induction Hle as [|f' Hle IH]; [reflexivity|].
  rewrite eat_ws_fuel_S; [exact IH|assumption|lia].
Qed.

Lemma read_digits_f_fuel_S : forall f acc r, inv r -> (m r < f)%nat ->
  read_digits_f (S f) acc r = read_digits_f f acc r.
Proof.
  induction f as [|f IH]; intros acc r Hi Hm; [lia|].
  rewrite (read_digits_f_S (S f)), (read_digits_f_S f).
  pose proof (peek_mono r) as M1. pose proof (peek_live r) as M2.
  destruct (peek r) as [[b|] r']; cbn [fst snd] in *; [|reflexivity].
  destruct (is_digit b); [|reflexivity].
  pose proof (next_mono r') as M3. pose proof (next_strict r') as M4. mn_sat.
  apply IH; [assumption|lia].
Qed.

Lemma read_digits_f_fuel f f' acc r : inv r -> (m r < f)%nat -> (f <= f')%nat ->
  read_digits_f f' acc r = read_digits_f f acc r.
Proof.
  intros Hi Hm Hle. induction Hle as [|f' Hle IH]; [reflexivity|].
  rewrite read_digits_f_fuel_S; [exact IH|assumption|lia].
Qed.

Lemma read_string_f_S f acc r : read_string_f (S f) acc r =
    match next r with
    | (None, r') => (PErr, r')
    | (Some c, r') =>
      if c =? 34 then
        let r'' := snd (next r') in
        match utf8_decode acc with Some s => (POk (JStr s), r'') | None => (PErr, r'') end
      else if c =? 92 then
        match next r' with
        | (None, r'') => (PErr, r'')
        | (Some e, r'') =>
            if e =? 117 then
              match read_hex4 4 0 r'' with
              | (Some u, r3) =>
                  if is_scalar u then read_string_f f (acc ++ utf8_encode_char u) r3 else (PErr, r3)
              | (None, r3) => (PErr, r3)
              end
            else match assoc_N e escape_table with
                 | Some b => read_string_f f (acc ++ [b]) r''
                 | None => (PErr, r'')
                 end
        end
      else read_string_f f (acc ++ [c]) r'
    end.
Proof. reflexivity. Qed.

Lemma read_string_f_fuel_S : forall f acc r, (length (rest r) < f)%nat ->
  read_string_f (S f) acc r = read_string_f f acc r.
Proof.
  induction f as [|f IH]; intros acc r Hf; [lia|].
  rewrite (read_string_f_S (S f)), (read_string_f_S f).
  pose proof (next_rest r) as [H1 H2]. destruct (next r) as [[c|] r1]; cbn [fst snd] in *; [|reflexivity].
  destruct (c =? 34); [reflexivity|].
  destruct (c =? 92); [|apply IH; lia].
  pose proof (next_rest r1) as [H3 H4]. destruct (next r1) as [[e|] r2]; cbn [fst snd] in *; [|reflexivity].
  destruct (e =? 117).
  - pose proof (read_hex4_rest 4 0 r2) as H5. destruct (read_hex4 4 0 r2) as [[u|] r3]; cbn [snd] in *; [|reflexivity].
    destruct (is_scalar u); [apply IH; lia|reflexivity].
  - destruct (assoc_N e escape_table); [apply IH; lia|reflexivity].
Qed.

Lemma read_string_f_fuel f f' acc r : (length (rest r) < f)%nat -> (f <= f')%nat ->
  read_string_f f' acc r = read_string_f f acc r.
Proof.
  intros Hm Hle. induction Hle as [|f' Hle IH]; [reflexivity|].
  rewrite read_string_f_fuel_S; [exact IH|lia].
Qed.

(* ----- the functions that compute their own fuel ----- *)
Lemma eat_whitespace_det n r1 r2 : agree n r1 r2 ->
  (consumed (eat_whitespace r1) <= n)%nat -> agree n (eat_whitespace r1) (eat_whitespace r2).
Proof.
  intros A. pose proof (agree_m _ _ _ A) as Hi1. pose proof (agree_inv2 _ _ _ A) as Hi2.
  unfold eat_whitespace.
  set (F1 := S (S (length (rest r1)))). set (F2 := S (S (length (rest r2)))).
  pose proof (m_le r1). pose proof (m_le r2).
  rewrite <- (eat_ws_fuel F1 (Nat.max F1 F2) r1), <- (eat_ws_fuel F2 (Nat.max F1 F2) r2) by (auto; lia).
  apply eat_ws_det. exact A.
Qed.

Lemma read_digits_det n acc r1 r2 : agree n r1 r2 ->
  (consumed (snd (read_digits acc r1)) <= n)%nat -> det2 n (read_digits acc r1) (read_digits acc r2).
Proof.
  intros A. pose proof (agree_m _ _ _ A) as Hi1. pose proof (agree_inv2 _ _ _ A) as Hi2.
  unfold read_digits.
  set (F1 := S (S (length (rest r1)))). set (F2 := S (S (length (rest r2)))).
  pose proof (m_le r1). pose proof (m_le r2).
  rewrite <- (read_digits_f_fuel F1 (Nat.max F1 F2) acc r1), <- (read_digits_f_fuel F2 (Nat.max F1 F2) acc r2)
    by (auto; lia).
  apply read_digits_f_det. exact A.
Qed.

Lemma read_string_det n r1 r2 : agree n r1 r2 ->
  (consumed (snd (read_string r1)) <= n)%nat -> det2 n (read_string r1) (read_string r2).
Proof.
  intros A. unfold read_string.
  set (F1 := S (length (rest r1))). set (F2 := S (length (rest r2))).
  rewrite <- (read_string_f_fuel F1 (Nat.max F1 F2) [] r1), <- (read_string_f_fuel F2 (Nat.max F1 F2) [] r2)
    by (unfold F1, F2; lia).
  apply read_string_f_det. exact A.
Qed.

Ltac d_opw :=
  with_goal ltac:(fun n t1 t2 =>
    match t1 with
    | context [eat_whitespace ?x] =>
        is_var x; d_set (eat_whitespace x) (eat_whitespace_advances x) (fun r2 => eat_whitespace_det n x r2)
    | context [read_digits ?a ?x] =>
        is_var x; d_pair (read_digits a x) (read_digits_advances a x) (fun r2 => read_digits_det n a x r2)
    | context [read_word ?w ?x] =>
        is_var x; d_pair (read_word w x) (read_word_advances w x) (fun r2 => read_word_det n w x r2)
    | context [read_string ?x] =>
        is_var x; d_pair (read_string x) (read_string_advances x) (fun r2 => read_string_det n x r2)
    end).

Lemma read_number_det n r1 r2 : agree n r1 r2 ->
  (consumed (snd (read_number r1)) <= n)%nat -> det2 n (read_number r1) (read_number r2).
Proof.
  intros A B. unfold read_number in *. d_auto ltac:(idtac; d_opw).
Qed.

Definition DV (n f : nat) : Prop := forall r1 r2, agree n r1 r2 ->
  (consumed (snd (parse_value f r1)) <= n)%nat -> det2 n (parse_value f r1) (parse_value f r2).
Definition DI (n f : nat) : Prop := forall acc r1 r2, agree n r1 r2 ->
  (consumed (snd (parse_items f acc r1)) <= n)%nat -> det2 n (parse_items f acc r1) (parse_items f acc r2).
Definition DM (n f : nat) : Prop := forall acc r1 r2, agree n r1 r2 ->
  (consumed (snd (parse_members f acc r1)) <= n)%nat ->
  det2 n (parse_members f acc r1) (parse_members f acc r2).

Ltac d_opp :=
  with_goal ltac:(fun n t1 t2 =>
    match t1 with
    | context [read_number ?x] =>
        is_var x; d_pair (read_number x) (read_number_advances x) (fun r2 => read_number_det n x r2)
    | context [parse_value ?f ?x] =>
        is_var x;
        match goal with IH : DV n f |- _ =>
          d_pair (parse_value f x) (parse_value_advances f x) (IH x) end
    | context [parse_items ?f ?a ?x] =>
        is_var x;
        match goal with IH : DI n f |- _ =>
          d_pair (parse_items f a x) (parse_items_advances f a x) (IH a x) end
    | context [parse_members ?f ?a ?x] =>
        is_var x;
        match goal with IH : DM n f |- _ =>
          d_pair (parse_members f a x) (parse_members_advances f a x) (IH a x) end
    end).

Lemma parse_det n : forall f, DV n f /\ DI n f /\ DM n f.
Proof.
  induction f as [|f (IHv & IHi & IHm)].
  - split; [|split]; intro; intros; (split; [reflexivity|assumption]).
  - split; [|split].
    + intros r1 r2 A B. rewrite !parse_value_S in *. fr_norm.
      d_auto ltac:(idtac; first [d_opw | d_opp]).
    + intros acc r1 r2 A B. rewrite !parse_items_S in *. fr_norm.
      d_auto ltac:(idtac; first [d_opw | d_opp]).
    + intros acc r1 r2 A B. rewrite !parse_members_S in *. fr_norm.
      d_auto ltac:(idtac; first [d_opw | d_opp]).
Qed.

(* ----- more fuel does not change a parse that did not run out of fuel ----- *)
Definition PMV (f : nat) : Prop :=
  forall r, fst (parse_value f r) <> PFuel -> parse_value (S f) r = parse_value f r.
Definition PMI (f : nat) : Prop :=
  forall acc r, fst (parse_items f acc r) <> PFuel -> parse_items (S f) acc r = parse_items f acc r.
Definition PMM (f : nat) : Prop :=
  forall acc r, fst (parse_members f acc r) <> PFuel -> parse_members (S f) acc r = parse_members f acc r.

Ltac pm_step :=
  first
  [ match goal with
    | IHv : PMV ?f, H : _ <> PFuel |- context [parse_value (S ?f) ?x] =>
        let E := fresh "E" in
        destruct (parse_value f x) as [[?| | |] ?] eqn:E; fr_norm;
        [ rewrite (IHv x) by (rewrite E; discriminate); rewrite E; fr_norm
        | rewrite (IHv x) by (rewrite E; discriminate); rewrite E; fr_norm
        | rewrite (IHv x) by (rewrite E; discriminate); rewrite E; fr_norm
        | exfalso; apply H; reflexivity ]
    end
  | lazymatch goal with |- _ = ?b => let x := hs b in destruct x; fr_norm end ].

Ltac pm_done :=
  first [ reflexivity
        | match goal with IH : PMI ?f, H : _ <> PFuel |- parse_items (S ?f) _ _ = _ => apply IH; exact H end
        | match goal with IH : PMM ?f, H : _ <> PFuel |- parse_members (S ?f) _ _ = _ => apply IH; exact H end ].

Lemma parse_fuel_mono : forall f, PMV f /\ PMI f /\ PMM f.
Proof.
  induction f as [|f (IHv & IHi & IHm)].
  - split; [|split]; intro; intros; exfalso; apply H; reflexivity.
  - split; [|split].
    + intros r H. rewrite (parse_value_S (S f)). rewrite (parse_value_S f) in *. fr_norm.
      repeat pm_step; pm_done.
    + intros acc r H. rewrite (parse_items_S (S f)). rewrite (parse_items_S f) in *. fr_norm.
      repeat pm_step; pm_done.
    + intros acc r H. rewrite (parse_members_S (S f)). rewrite (parse_members_S f) in *. fr_norm.
      repeat pm_step; pm_done.
Qed.

Lemma parse_value_fuel f f' r : inv r -> (2 * m r + 1 <= f)%nat -> (f <= f')%nat ->
  parse_value f' r = parse_value f r.
Proof.
  intros Hi Hm Hle. induction Hle as [|f' Hle IH]; [reflexivity|].
  rewrite (proj1 (parse_fuel_mono f')); [exact IH|].
  apply (proj1 (parse_nofuel f')); [assumption|lia].
Qed.

Theorem next_json_value_det n r1 r2 : agree n r1 r2 ->
  (consumed (snd (next_json_value r1)) <= n)%nat ->
  det2 n (next_json_value r1) (next_json_value r2).
Proof.
  intros A. pose proof (agree_m _ _ _ A) as Hi1. pose proof (agree_inv2 _ _ _ A) as Hi2.
  unfold next_json_value.
  pose proof (parse_fuel_m r1). pose proof (parse_fuel_m r2).
  rewrite <- (parse_value_fuel (parse_fuel r1) (Nat.max (parse_fuel r1) (parse_fuel r2)) r1),
          <- (parse_value_fuel (parse_fuel r2) (Nat.max (parse_fuel r1) (parse_fuel r2)) r2) by (auto; lia).
  apply (proj1 (parse_det n _)). exact A.
Qed.

(* ================= (L2) the read loop is local ================= *)
Lemma agree_where n r1 r2 : agree n r1 r2 -> where_am_i r1 = where_am_i r2.
Proof. intros (_ & _ & _ & Hl & Hc & _). unfold where_am_i. congruence. Qed.
Lemma agree_io n r1 r2 : agree n r1 r2 -> io r1 = io r2.
Proof. intros H. apply H. Qed.
Lemma agree_pulled n r1 r2 : agree n r1 r2 -> pulled r1 = pulled r2.
Proof. intros H. apply H. Qed.

Section Local.
Variables (cf : cfg) (p : printer) (sts : list stage) (nt : nat).

Ltac ri_op f :=
  match goal with
  | |- context [read_input cf p sts nt f ?x ?fn ?s ?i ?j] =>
      is_var x;
      match goal with IH : forall r fname ss idx infile, advances r (snd (read_input cf p sts nt f r fname ss idx infile)) |- _ =>
        fr_pair (read_input cf p sts nt f x fn s i j) (IH x fn s i j) end
  end.

Lemma read_input_advances : forall f r fname ss idx infile,
  advances r (snd (read_input cf p sts nt f r fname ss idx infile)).
Proof.
  induction f as [|f IH]; intros r fname ss idx infile; cbn [read_input]; [apply advances_refl|]. fr_norm.
  fr_pair (next_json_value r) (next_json_value_advances r).
  repeat first [ri_op f | ad_case]; ad_done.
Qed.

Lemma read_input_advances_first f r fname ss idx infile :
  advances (snd (next_json_value r)) (snd (read_input cf p sts nt (S f) r fname ss idx infile)).
Proof.
  cbn [read_input]. fr_norm. destruct (next_json_value r) as [res r1]. fr_norm.
  pose proof (read_input_advances f) as IH.
  repeat first [ri_op f | ad_case]; ad_done.
Qed.

Lemma read_input_local n : forall f1 f2 r1 r2 fname ss idx infile,
  agree n r1 r2 -> (m r1 + 1 <= f1)%nat -> (m r2 + 1 <= f2)%nat ->
  (consumed (snd (read_input cf p sts nt f1 r1 fname ss idx infile)) <= n)%nat ->
  det2 n (read_input cf p sts nt f1 r1 fname ss idx infile)
         (read_input cf p sts nt f2 r2 fname ss idx infile).
Proof.
  induction f1 as [|f1 IH]; intros f2 r1 r2 fname ss idx infile A Hf1 Hf2 B; [lia|].
  destruct f2 as [|f2]; [lia|].
  pose proof (agree_m _ _ _ A) as Hi1. pose proof (agree_inv2 _ _ _ A) as Hi2.
  pose proof (read_input_advances_first f1 r1 fname ss idx infile) as Ha.
  pose proof (consumed_le _ _ _ Ha B) as Hb.
  pose proof (next_json_value_det n r1 r2 A Hb) as [Hres A'].
  pose proof (parse_value_strict (parse_fuel r1) r1 Hi1) as S1.
  pose proof (parse_value_strict (parse_fuel r2) r2 Hi2) as S2.
  change (parse_value (parse_fuel r1) r1) with (next_json_value r1) in S1.
  change (parse_value (parse_fuel r2) r2) with (next_json_value r2) in S2.
  pose proof (agree_where _ _ _ A) as Hw.
  clear Ha Hb. cbn [read_input] in *. cbv zeta in *. rewrite <- Hw.
  destruct (next_json_value r1) as [res r1']. destruct (next_json_value r2) as [res2 r2'].
  cbn [fst snd] in *. subst res2.
  rewrite <- (agree_io _ _ _ A'), <- (agree_where _ _ _ A').
  destruct (io r1'); [split; [reflexivity|exact A']|].
  destruct res as [v| | |].
  - assert (L1 : (m r1' < m r1)%nat) by (destruct S1 as [H|[H|H]]; [discriminate|discriminate|exact H]).
    assert (L2 : (m r2' < m r2)%nat) by (destruct S2 as [H|[H|H]]; [discriminate|discriminate|exact H]).
    destruct (c_only_objs cf && negb (is_container v)).
    + apply IH; auto; lia.
    + match goal with |- context [process expr get sts ss ?c] =>
        destruct (process expr get sts ss c) as [[ss1 o] d] end.
      destruct d.
      * specialize (IH f2 r1' r2' fname ss1 (idx + 1) (infile + 1) A').
        destruct (read_input cf p sts nt f1 r1' fname ss1 (idx + 1) (infile + 1)) as [[[[a1 b1] c1] d1] e1].
        destruct (read_input cf p sts nt f2 r2' fname ss1 (idx + 1) (infile + 1)) as [[[[a2 b2] c2] d2] e2].
        cbn [fst snd] in *. destruct IH as [IH1 IH2]; auto; try lia.
        injection IH1 as <- <- <- <-. split; [reflexivity|exact IH2].
      * split; [reflexivity|exact A'].
  - split; [reflexivity|exact A'].
  - assert (L1 : (m r1' < m r1)%nat) by (destruct S1 as [H|[H|H]]; [discriminate|discriminate|exact H]).
    assert (L2 : (m r2' < m r2)%nat) by (destruct S2 as [H|[H|H]]; [discriminate|discriminate|exact H]).
    destruct (c_on_error cf);
      try (split; [reflexivity|exact A']);
      (specialize (IH f2 r1' r2' fname ss idx infile A');
       destruct (read_input cf p sts nt f1 r1' fname ss idx infile) as [[[[a1 b1] c1] d1] e1];
       destruct (read_input cf p sts nt f2 r2' fname ss idx infile) as [[[[a2 b2] c2] d2] e2];
       cbn [fst snd] in *; destruct IH as [IH1 IH2]; auto; try lia;
       injection IH1 as <- <- <- <-; split; [reflexivity|exact IH2]).
  - split; [reflexivity|exact A'].
Qed.
End Local.

Lemma firstn_app_exact {A} (l l' : list A) : firstn (length l) (l ++ l') = l.
Proof. induction l as [|a l IH]; [reflexivity|]. cbn [length app firstn]. rewrite IH. reflexivity. Qed.

Lemma agree_init_events pre evs1 evs2 :
  agree (length pre) (mk_reader (map EB pre ++ evs1)) (mk_reader (map EB pre ++ evs2)).
Proof.
  unfold agree, mk_reader, inv, consumed. cbn [cur eof rest line col pulled io].
  repeat split; try discriminate.
  replace (length pre - (N.to_nat 0 + 0))%nat with (length (map EB pre)) by (rewrite map_length; lia).
  rewrite !firstn_app_exact. reflexivity.
Qed.

Lemma agree_init pre rest1 rest2 :
  agree (length pre) (mk_reader (map EB (pre ++ rest1))) (mk_reader (map EB (pre ++ rest2))).
Proof. rewrite !map_app. apply agree_init_events. Qed.

Lemma m_mk_reader evs : (m (mk_reader evs) + 1 <= input_fuel evs)%nat.
Proof. unfold m, mk_reader, input_fuel. cbn [eof rest]. lia. Qed.

(* the run over pre ++ rest1 that looked at no more than the first |pre| events (in particular
   did not see the end of the input) is the run over pre ++ rest2 *)
Theorem read_input_independent_of_rest : forall cf p sts nt fname pre rest1 rest2 ss idx infile,
  let evs1 := map EB (pre ++ rest1) in
  let evs2 := map EB (pre ++ rest2) in
  let x1 := read_input cf p sts nt (input_fuel evs1) (mk_reader evs1) fname ss idx infile in
  let x2 := read_input cf p sts nt (input_fuel evs2) (mk_reader evs2) fname ss idx infile in
  (consumed (snd x1) <= length pre)%nat ->
  fst x1 = fst x2 /\ pulled (snd x1) = pulled (snd x2).
Proof.
  intros cf p sts nt fname pre rest1 rest2 ss idx infile evs1 evs2 x1 x2 B.
  destruct (read_input_local cf p sts nt (length pre) (input_fuel evs1) (input_fuel evs2)
              (mk_reader evs1) (mk_reader evs2) fname ss idx infile) as [H1 H2].
  - apply agree_init.
  - apply m_mk_reader.
  - apply m_mk_reader.
  - exact B.
  - split; [exact H1|]. apply (agree_pulled _ _ _ H2).
Qed.

Theorem go_take_independent_of_rest : forall cf fname pre rest1 rest2 b p sts hdr,
  build_pipeline cf = Some (p, sts) ->
  start_output p (titles expr sts []) (c_rowsep cf) = Some hdr ->
  let evs1 := map EB (pre ++ rest1) in
  let evs2 := map EB (pre ++ rest2) in
  (consumed (snd (read_input cf p sts (length (titles expr sts [])) (input_fuel evs1) (mk_reader evs1)
                    fname (map (init_state expr) sts) 0 0)) <= length pre)%nat ->
  g_events (go cf [(fname, evs1)] b) = g_events (go cf [(fname, evs2)] b) /\
  g_result (go cf [(fname, evs1)] b) = g_result (go cf [(fname, evs2)] b) /\
  g_pulled (go cf [(fname, evs1)] b) = g_pulled (go cf [(fname, evs2)] b).
Proof.
  intros cf fname pre rest1 rest2 b p sts hdr Hbp Hst evs1 evs2 B.
  destruct (read_input_independent_of_rest cf p sts (length (titles expr sts [])) fname pre rest1 rest2
              (map (init_state expr) sts) 0 0 B) as [H1 H2].
  fold evs1 evs2 in H1, H2.
  unfold go. rewrite Hbp. cbv zeta. rewrite Hst. cbn [read_files].
  destruct (read_input cf p sts (length (titles expr sts [])) (input_fuel evs1) (mk_reader evs1) fname
              (map (init_state expr) sts) 0 0) as [[[[a1 b1] c1] d1] e1].
  destruct (read_input cf p sts (length (titles expr sts [])) (input_fuel evs2) (mk_reader evs2) fname
              (map (init_state expr) sts) 0 0) as [[[[a2 b2] c2] d2] e2].
  cbn [fst snd] in H1, H2. injection H1 as <- <- <- <-. rewrite H2.
  destruct d1; cbn [g_events g_result g_pulled]; auto.
Qed.

(* the hypothesis in the terms of the reader's counters *)
Lemma consumed_live r k : eof r = false -> (N.to_nat (pulled r) <= k)%nat -> (consumed r <= k)%nat.
Proof. unfold consumed. intros ->. lia. Qed.

(* ================= (L3) a read error cuts the run short, it does not change it ================= *)
(* position n of the source is a read error: either it has been met, or it is still ahead *)
Definition err_at (n : nat) (r : reader) : Prop :=
  io r = true \/
  (eof r = false /\ (consumed r <= n)%nat /\ nth_error (rest r) (n - consumed r) = Some EErr).

Lemma err_at_step n r : err_at n r -> err_at n (step r).
Proof.
  unfold err_at, step, next, consumed. intros [Hio|(He & Hc & Hn)].
  - left. destruct (eof r); cbn [snd]; [assumption|]. destruct (rest r) as [|[b|] t]; cbn [snd io]; auto.
  - rewrite He in *. destruct (rest r) as [|[b|] t]; cbn [snd io eof pulled rest].
    + destruct (n - (N.to_nat (pulled r) + 0))%nat; discriminate.
    + right. split; [reflexivity|].
      destruct (n - (N.to_nat (pulled r) + 0))%nat as [|k] eqn:Ek; [discriminate|].
      cbn [nth_error] in Hn. split; [lia|].
      replace (n - (N.to_nat (pulled r + 1) + 0))%nat with k by lia. exact Hn.
    + left. reflexivity.
Qed.

Lemma err_at_advances n r r' : advances r r' -> err_at n r -> err_at n r'.
Proof. apply (advances_inv (err_at n)). apply err_at_step. Qed.

Lemma err_at_init pre rst : err_at (length pre) (mk_reader (map EB pre ++ EErr :: rst)).
Proof.
  unfold err_at, mk_reader, consumed. cbn [io eof rest pulled]. right. split; [reflexivity|]. split; [lia|].
  replace (length pre - (N.to_nat 0 + 0))%nat with (length (map EB pre)) by (rewrite map_length; lia).
  rewrite nth_error_app2 by lia. rewrite Nat.sub_diag. reflexivity.
Qed.

Lemma err_at_past n r : err_at n r -> (n < consumed r)%nat -> io r = true.
Proof. intros [H|(_ & H & _)] Hlt; [exact H|lia]. Qed.

Definition ev_of (x : list sstate * list oev * N * option gres * reader) : list oev :=
  snd (fst (fst (fst x))).
Definition err_of (x : list sstate * list oev * N * option gres * reader) : option gres := snd (fst x).

Section Prefix.
Variables (cf : cfg) (p : printer) (sts : list stage) (nt : nat).

Lemma read_input_prefix n : forall f1 f2 r1 r2 fname ss idx infile,
  agree n r1 r2 -> err_at n r1 -> (m r1 + 1 <= f1)%nat -> (m r2 + 1 <= f2)%nat ->
  let x1 := read_input cf p sts nt f1 r1 fname ss idx infile in
  let x2 := read_input cf p sts nt f2 r2 fname ss idx infile in
  (exists more, ev_of x2 = ev_of x1 ++ more) /\
  (err_of x1 = None -> fst x1 = fst x2 /\ pulled (snd x1) = pulled (snd x2)).
Proof.
  induction f1 as [|f1 IH]; intros f2 r1 r2 fname ss idx infile A J Hf1 Hf2; [lia|].
  destruct f2 as [|f2]; [lia|]. cbv zeta.
  pose proof (agree_m _ _ _ A) as Hi1. pose proof (agree_inv2 _ _ _ A) as Hi2.
  pose proof (err_at_advances n _ _ (next_json_value_advances r1) J) as J'.
  pose proof (parse_value_strict (parse_fuel r1) r1 Hi1) as S1.
  pose proof (parse_value_strict (parse_fuel r2) r2 Hi2) as S2.
  change (parse_value (parse_fuel r1) r1) with (next_json_value r1) in S1.
  change (parse_value (parse_fuel r2) r2) with (next_json_value r2) in S2.
  pose proof (agree_where _ _ _ A) as Hw.
  destruct (le_lt_dec (consumed (snd (next_json_value r1))) n) as [Hb|Hb].
  - pose proof (next_json_value_det n r1 r2 A Hb) as [Hres A'].
    cbn [read_input]. cbv zeta. rewrite <- Hw.
    destruct (next_json_value r1) as [res r1']. destruct (next_json_value r2) as [res2 r2'].
    cbn [fst snd] in *. subst res2.
    rewrite <- (agree_io _ _ _ A'), <- (agree_where _ _ _ A').
    pose proof (agree_pulled _ _ _ A') as Hp.
    destruct (io r1'); [unfold ev_of, err_of; cbn [fst snd]; split; [exists []; reflexivity|discriminate]|].
    destruct res as [v| | |].
    + assert (L1 : (m r1' < m r1)%nat) by (destruct S1 as [H|[H|H]]; [discriminate|discriminate|exact H]).
      assert (L2 : (m r2' < m r2)%nat) by (destruct S2 as [H|[H|H]]; [discriminate|discriminate|exact H]).
      destruct (c_only_objs cf && negb (is_container v)).
      * apply IH; auto; lia.
      * match goal with |- context [process expr get sts ss ?c] =>
          destruct (process expr get sts ss c) as [[ss1 o] d] end.
        destruct d.
        -- specialize (IH f2 r1' r2' fname ss1 (idx + 1) (infile + 1) A' J'). cbv zeta in IH.
           destruct (read_input cf p sts nt f1 r1' fname ss1 (idx + 1) (infile + 1)) as [[[[a1 b1] c1] d1] e1].
           destruct (read_input cf p sts nt f2 r2' fname ss1 (idx + 1) (infile + 1)) as [[[[a2 b2] c2] d2] e2].
           unfold ev_of, err_of in *. cbn [fst snd] in *.
           destruct IH as [[more Hm] IH2]; try lia. split.
           ++ exists more. rewrite Hm, app_assoc. reflexivity.
           ++ intros Hd. destruct (IH2 Hd) as [E1 E2]. injection E1 as <- <- <- <-. auto.
        -- unfold ev_of, err_of. cbn [fst snd]. split; [exists []; rewrite app_nil_r; reflexivity|auto].
    + unfold ev_of, err_of. cbn [fst snd]. split; [exists []; reflexivity|auto].
    + assert (L1 : (m r1' < m r1)%nat) by (destruct S1 as [H|[H|H]]; [discriminate|discriminate|exact H]).
      assert (L2 : (m r2' < m r2)%nat) by (destruct S2 as [H|[H|H]]; [discriminate|discriminate|exact H]).
      destruct (c_on_error cf);
        try (unfold ev_of, err_of; cbn [fst snd]; split; [exists []; reflexivity|discriminate]);
        (specialize (IH f2 r1' r2' fname ss idx infile A' J'); cbv zeta in IH;
         destruct (read_input cf p sts nt f1 r1' fname ss idx infile) as [[[[a1 b1] c1] d1] e1];
         destruct (read_input cf p sts nt f2 r2' fname ss idx infile) as [[[[a2 b2] c2] d2] e2];
         unfold ev_of, err_of in *; cbn [fst snd] in *;
         destruct IH as [[more Hm] IH2]; try lia; split;
         [ exists more; rewrite Hm; try rewrite app_assoc; reflexivity
         | intros Hd; destruct (IH2 Hd) as [E1 E2]; injection E1 as <- <- <- <-; auto ]).
    + unfold ev_of, err_of. cbn [fst snd]. split; [exists []; reflexivity|discriminate].
  - (* the value being read runs into the error *)
    pose proof (err_at_past n _ J' Hb) as Hio.
    cbn [read_input]. cbv zeta. destruct (next_json_value r1) as [res r1']. cbn [snd] in Hio.
    rewrite Hio. unfold ev_of, err_of. cbn [fst snd]. split; [eexists; reflexivity|discriminate].
Qed.
End Prefix.

Theorem read_error_events_prefix : forall cf p sts nt fname pre rst more ss idx infile,
  let evs_err := map EB pre ++ EErr :: rst in
  let evs_ok := map EB (pre ++ more) in
  exists tl,
    ev_of (read_input cf p sts nt (input_fuel evs_ok) (mk_reader evs_ok) fname ss idx infile) =
    ev_of (read_input cf p sts nt (input_fuel evs_err) (mk_reader evs_err) fname ss idx infile) ++ tl.
Proof.
  intros cf p sts nt fname pre rst more ss idx infile evs_err evs_ok.
  unfold evs_ok. rewrite map_app.
  apply (read_input_prefix cf p sts nt (length pre)).
  - apply agree_init_events.
  - apply err_at_init.
  - apply m_mk_reader.
  - apply m_mk_reader.
Qed.

Theorem go_read_error_events_prefix : forall cf fname pre rst more b,
  let evs_err := map EB pre ++ EErr :: rst in
  let evs_ok := map EB (pre ++ more) in
  exists tl, g_events (go cf [(fname, evs_ok)] b) = g_events (go cf [(fname, evs_err)] b) ++ tl.
Proof.
  intros cf fname pre rst more b evs_err evs_ok. unfold go.
  destruct (build_pipeline cf) as [[p sts]|]; [|exists []; reflexivity]. cbv zeta.
  destruct (start_output p (titles expr sts []) (c_rowsep cf)) as [hdr|]; [|exists []; reflexivity].
  cbn [read_files].
  assert (Ag : agree (length pre) (mk_reader evs_err) (mk_reader evs_ok)).
  { unfold evs_err, evs_ok. rewrite map_app. apply agree_init_events. }
  pose proof (read_input_prefix cf p sts (length (titles expr sts [])) (length pre)
                (input_fuel evs_err) (input_fuel evs_ok) (mk_reader evs_err) (mk_reader evs_ok)
                fname (map (init_state expr) sts) 0 0 Ag (err_at_init pre rst)
                (m_mk_reader _) (m_mk_reader _)) as H.
  cbv zeta in H.
  destruct (read_input cf p sts (length (titles expr sts [])) (input_fuel evs_err) (mk_reader evs_err) fname
              (map (init_state expr) sts) 0 0) as [[[[a1 b1] c1] d1] e1].
  destruct (read_input cf p sts (length (titles expr sts [])) (input_fuel evs_ok) (mk_reader evs_ok) fname
              (map (init_state expr) sts) 0 0) as [[[[a2 b2] c2] d2] e2].
  unfold ev_of, err_of in H. cbn [fst snd] in H. destruct H as [[tl Htl] H2].
  destruct d1 as [g1|].
  - destruct d2 as [g2|]; cbn [g_events]; rewrite Htl.
    + exists tl. rewrite !app_assoc. reflexivity.
    + eexists. rewrite <- !app_assoc. reflexivity.
  - destruct (H2 eq_refl) as [E1 E2]. injection E1 as <- <- <- <-. cbn [g_events]. exists []. symmetry. apply app_nil_r.
Qed.

(* ================= (L4) error policies at the level of go ================= *)
Inductive shuffle {A} : list A -> list A -> list A -> Prop :=
| sh_nil : shuffle [] [] []
| sh_l a x y z : shuffle x y z -> shuffle (a :: x) y (a :: z)
| sh_r b x y z : shuffle x y z -> shuffle x (b :: y) (b :: z).

Lemma shuffle_nil_r {A} (x : list A) : shuffle x [] x.
Proof. induction x; constructor; assumption. Qed.

Lemma shuffle_app_l {A} (q x y z : list A) : shuffle x y z -> shuffle (q ++ x) y (q ++ z).
Proof. intros H. induction q; cbn [app]; [assumption|constructor; assumption]. Qed.

Lemma shuffle_app_r {A} (q x y z : list A) : shuffle x y z -> shuffle x (q ++ y) (q ++ z).
Proof. intros H. induction q; cbn [app]; [assumption|constructor; assumption]. Qed.

Lemma shuffle_filter {A} (f : A -> bool) x y z : shuffle x y z ->
  Forall (fun a => f a = true) x -> Forall (fun a => f a = false) y ->
  filter f z = x /\ filter (fun a => negb (f a)) z = y.
Proof.
  induction 1 as [|a x y z H IH|b x y z H IH]; intros Hx Hy.
  - auto.
  - inversion Hx as [|? ? Ha Hx']; subst. destruct (IH Hx' Hy) as [E1 E2].
    cbn [filter]. rewrite Ha. cbn [negb]. rewrite E1, E2. auto.
  - inversion Hy as [|? ? Hb Hy']; subst. destruct (IH Hx Hy') as [E1 E2].
    cbn [filter]. rewrite Hb. cbn [negb]. rewrite E1, E2. auto.
Qed.

Definition err_events (pol : on_error) : list oev :=
  match pol with OnStdout => [OOut error_line] | OnStderr => [OErr error_line] | _ => [] end.
Definition errs (pol : on_error) (k : nat) : list oev := concat (repeat (err_events pol) k).

Section Policy.
Variables (cf : cfg) (p : printer) (sts : list stage) (nt : nat).
Hypothesis not_panic : c_on_error cf <> OnPanic.
Hypothesis never_break : forall ss c, snd (process expr get sts ss c) = Continue.

Lemma read_input_policy : forall fuel r fname ss idx infile,
  no_eerr r -> io r = false ->
  snd (read_ctxs fuel (c_only_objs cf) r fname idx infile) = false ->
  exists ss' o idx' r',
    read_input cf p sts nt fuel r fname ss idx infile = (ss', o, idx', None, r') /\
    shuffle (emit cf p nt (run expr get sts ss (fst (fst (read_ctxs fuel (c_only_objs cf) r fname idx infile)))))
            (errs (c_on_error cf) (N.to_nat (snd (fst (read_ctxs fuel (c_only_objs cf) r fname idx infile)))))
            (o ++ emit cf p nt (complete expr get sts ss')).
Proof.
  induction fuel as [|f IH]; intros r fname ss idx infile Hn Hio Hb.
  - cbn in Hb. discriminate.
  - cbn [read_input read_ctxs] in *. cbv zeta in *.
    destruct (next_json_value r) as [res r1] eqn:E.
    destruct (next_json_value_clean r res r1 Hn Hio E) as [Hn1 Hio1].
    rewrite Hio1 in *.
    destruct res as [v| | |].
    + destruct (c_only_objs cf && negb (is_container v)).
      * apply IH; assumption.
      * set (c := new_with_input v _) in *.
        destruct (read_ctxs f (c_only_objs cf) r1 fname (idx + 1) (infile + 1)) as [[cs e] b] eqn:Ec.
        cbn [fst snd] in *. cbn [run].
        pose proof (never_break ss c) as Hd.
        destruct (process expr get sts ss c) as [[ss1 o] d]. cbn [snd] in Hd. subst d.
        destruct (IH r1 fname ss1 (idx + 1) (infile + 1) Hn1 Hio1) as (ss2 & o2 & idx2 & r2 & E2 & Hev).
        { rewrite Ec. exact Hb. }
        rewrite E2. rewrite Ec in Hev. cbn [fst snd] in Hev.
        exists ss2, (emit cf p nt o ++ o2), idx2, r2. split; [reflexivity|].
        rewrite <- app_assoc, emit_app. apply shuffle_app_l. exact Hev.
    + exists ss, [], idx, r1. split; [reflexivity|]. cbn [fst snd run app]. apply shuffle_nil_r.
    + destruct (read_ctxs f (c_only_objs cf) r1 fname idx infile) as [[cs e] b] eqn:Ec.
      cbn [fst snd] in *.
      destruct (IH r1 fname ss idx infile Hn1 Hio1) as (ss2 & o2 & idx2 & r2 & E2 & Hev).
      { rewrite Ec. exact Hb. }
      rewrite Ec in Hev. cbn [fst snd] in Hev.
      replace (N.to_nat (e + 1)) with (S (N.to_nat e)) by lia.
      unfold errs. cbn [repeat concat]. fold (errs (c_on_error cf) (N.to_nat e)).
      destruct (c_on_error cf) eqn:Epol; [| congruence | |]; rewrite E2;
        eexists ss2, _, idx2, r2; (split; [reflexivity|]);
        rewrite <- app_assoc; apply shuffle_app_r; exact Hev.
    + cbn in Hb. discriminate.
Qed.
End Policy.

Definition is_out (e : oev) : bool := match e with OOut _ => true | OErr _ => false end.

Definition hdr_events (hdr : list byte) : list oev := match hdr with [] => [] | _ => [OOut hdr] end.

(* every policy but panic: the events are the header, then an interleaving of the rows of Chain.run
   with one error event per recoverable error *)
Theorem go_run_policy : forall (cf : cfg) (fname : option str) (evs : list ev) (b : bool) p sts hdr,
  c_on_error cf <> OnPanic ->
  Forall (fun e => e <> EErr) evs ->
  build_pipeline cf = Some (p, sts) ->
  start_output p (titles expr sts []) (c_rowsep cf) = Some hdr ->
  (forall ss c, snd (process expr get sts ss c) = Continue) ->
  let cs := fst (fst (ctxs_of_input cf fname evs)) in
  let nerr := N.to_nat (snd (fst (ctxs_of_input cf fname evs))) in
  g_result (go cf [(fname, evs)] b) = GOk /\
  exists z, g_events (go cf [(fname, evs)] b) = hdr_events hdr ++ z /\
    shuffle (emit cf p (length (titles expr sts [])) (Chain.run expr get sts (map (init_state expr) sts) cs))
            (errs (c_on_error cf) nerr) z.
Proof.
  intros cf fname evs b p sts hdr Hpol Hevs Hbp Hst Hnb cs nerr. subst cs nerr.
  pose proof (ctxs_of_input_no_stop cf fname evs Hevs) as Hstop.
  unfold go. rewrite Hbp. cbv zeta. rewrite Hst. cbn [read_files].
  unfold ctxs_of_input in *.
  destruct (read_input_policy cf p sts (length (titles expr sts [])) Hpol Hnb (input_fuel evs) (mk_reader evs)
              fname (map (init_state expr) sts) 0 0 (no_eerr_mk evs Hevs) eq_refl Hstop)
    as (ss' & o & idx' & r' & E & Hev).
  rewrite E. cbn [g_result g_events]. split; [reflexivity|].
  eexists. split; [unfold hdr_events; rewrite app_nil_r; reflexivity|]. exact Hev.
Qed.

Lemma emit_all_out cf p nt cs : Forall (fun a => is_out a = true) (emit cf p nt cs).
Proof. unfold emit. induction cs; constructor; auto. Qed.

Lemma repeat_forall {A} (P : A -> Prop) a k : P a -> Forall P (repeat a k).
Proof. intros H. induction k; constructor; auto. Qed.

Lemma errs_single pol e k : err_events pol = [e] -> errs pol k = repeat e k.
Proof. intros H. unfold errs. rewrite H. induction k; cbn; congruence. Qed.

(* --on-error=stderr: stdout carries exactly the rows of Chain.run, stderr one line per error *)
Theorem go_run_stderr : forall (cf : cfg) (fname : option str) (evs : list ev) (b : bool) p sts hdr,
  c_on_error cf = OnStderr ->
  Forall (fun e => e <> EErr) evs ->
  build_pipeline cf = Some (p, sts) ->
  start_output p (titles expr sts []) (c_rowsep cf) = Some hdr ->
  (forall ss c, snd (process expr get sts ss c) = Continue) ->
  let g := go cf [(fname, evs)] b in
  g_result g = GOk /\
  filter is_out (g_events g) =
    hdr_events hdr ++ emit cf p (length (titles expr sts []))
      (Chain.run expr get sts (map (init_state expr) sts) (fst (fst (ctxs_of_input cf fname evs)))) /\
  filter (fun e => negb (is_out e)) (g_events g) =
    repeat (OErr error_line) (N.to_nat (snd (fst (ctxs_of_input cf fname evs)))).
Proof.
  intros cf fname evs b p sts hdr Hpol Hevs Hbp Hst Hnb g. subst g.
  destruct (go_run_policy cf fname evs b p sts hdr) as (H1 & z & Hz & Hsh); auto; [congruence|].
  cbv zeta in Hsh. rewrite Hpol in Hsh. rewrite (errs_single OnStderr (OErr error_line)) in Hsh by reflexivity.
  destruct (shuffle_filter is_out _ _ _ Hsh) as [F1 F2].
  { apply emit_all_out. } { apply repeat_forall. reflexivity. }
  split; [exact H1|]. rewrite Hz, !filter_app, F1, F2.
  assert (Hh1 : filter is_out (hdr_events hdr) = hdr_events hdr) by (destruct hdr; reflexivity).
  assert (Hh2 : filter (fun e => negb (is_out e)) (hdr_events hdr) = []) by (destruct hdr; reflexivity).
  rewrite Hh1, Hh2. auto.
Qed.

(* --on-error=stdout: the error lines are interleaved with the rows *)
Theorem go_run_stdout : forall (cf : cfg) (fname : option str) (evs : list ev) (b : bool) p sts hdr,
  c_on_error cf = OnStdout ->
  Forall (fun e => e <> EErr) evs ->
  build_pipeline cf = Some (p, sts) ->
  start_output p (titles expr sts []) (c_rowsep cf) = Some hdr ->
  (forall ss c, snd (process expr get sts ss c) = Continue) ->
  let g := go cf [(fname, evs)] b in
  g_result g = GOk /\
  exists z, g_events g = hdr_events hdr ++ z /\
    shuffle (emit cf p (length (titles expr sts []))
               (Chain.run expr get sts (map (init_state expr) sts) (fst (fst (ctxs_of_input cf fname evs)))))
            (repeat (OOut error_line) (N.to_nat (snd (fst (ctxs_of_input cf fname evs))))) z.
Proof.
  intros cf fname evs b p sts hdr Hpol Hevs Hbp Hst Hnb g. subst g.
  destruct (go_run_policy cf fname evs b p sts hdr) as (H1 & z & Hz & Hsh); auto; [congruence|].
  cbv zeta in Hsh. rewrite Hpol in Hsh. rewrite (errs_single OnStdout (OOut error_line)) in Hsh by reflexivity.
  split; [exact H1|]. exists z. auto.
Qed.

(* --on-error=panic: the run stops at the first recoverable error *)
(* the contexts that precede the first recoverable error; the flag says that one was met *)
Fixpoint read_ctxs_pre (fuel : nat) (only_objs : bool) (r : reader) (fname : option str) (idx infile : N)
  : list ctx * bool :=
  match fuel with O => ([], false) | S f =>
    let started := where_am_i r in
    let '(res, r) := next_json_value r in
    if io r then ([], false) else
    match res with
    | POk v =>
        if only_objs && negb (is_container v) then read_ctxs_pre f only_objs r fname idx infile else
        let c := new_with_input v {| ic_start := started; ic_end := where_am_i r; ic_file := fname;
                                     ic_file_index := infile; ic_index := idx |} in
        let '(cs, b) := read_ctxs_pre f only_objs r fname (idx + 1) (infile + 1) in (c :: cs, b)
    | PErr => ([], true)
    | _ => ([], false)
    end
  end.

Lemma read_ctxs_pre_hit : forall fuel oo r fname idx infile,
  0 < snd (fst (read_ctxs fuel oo r fname idx infile)) ->
  snd (read_ctxs_pre fuel oo r fname idx infile) = true.
Proof.
  induction fuel as [|f IH]; intros oo r fname idx infile; cbn [read_ctxs read_ctxs_pre]; cbv zeta.
  - cbn. lia.
  - destruct (next_json_value r) as [res r1]. destruct (io r1); [cbn; lia|].
    destruct res as [v| | |]; try (cbn; lia); try reflexivity.
    destruct (oo && negb (is_container v)); [apply IH|].
    specialize (IH oo r1 fname (idx + 1) (infile + 1)).
    destruct (read_ctxs f oo r1 fname (idx + 1) (infile + 1)) as [[cs e] b].
    destruct (read_ctxs_pre f oo r1 fname (idx + 1) (infile + 1)) as [cs' b']. cbn [fst snd] in *. exact IH.
Qed.

(* the pre-error contexts are an initial segment of the contexts of the pipeline-free loop *)
Lemma read_ctxs_pre_prefix : forall fuel oo r fname idx infile,
  exists tl, fst (fst (read_ctxs fuel oo r fname idx infile)) =
             fst (read_ctxs_pre fuel oo r fname idx infile) ++ tl.
Proof.
  induction fuel as [|f IH]; intros oo r fname idx infile; cbn [read_ctxs read_ctxs_pre]; cbv zeta.
  - exists []. reflexivity.
  - destruct (next_json_value r) as [res r1]. destruct (io r1); [exists []; reflexivity|].
    destruct res as [v| | |]; try (exists []; reflexivity).
    + destruct (oo && negb (is_container v)); [apply IH|].
      destruct (IH oo r1 fname (idx + 1) (infile + 1)) as [tl Htl].
      destruct (read_ctxs f oo r1 fname (idx + 1) (infile + 1)) as [[cs e] b].
      destruct (read_ctxs_pre f oo r1 fname (idx + 1) (infile + 1)) as [cs' b']. cbn [fst snd] in *.
      exists tl. rewrite Htl. reflexivity.
    + destruct (read_ctxs f oo r1 fname idx infile) as [[cs e] b]. cbn [fst]. exists cs. reflexivity.
Qed.

Section Panic.
Variables (cf : cfg) (p : printer) (sts : list stage) (nt : nat).
Hypothesis panic : c_on_error cf = OnPanic.
Hypothesis never_break : forall ss c, snd (process expr get sts ss c) = Continue.

Lemma read_input_panic : forall fuel r fname ss idx infile,
  snd (read_ctxs_pre fuel (c_only_objs cf) r fname idx infile) = true ->
  exists ss' idx' r',
    read_input cf p sts nt fuel r fname ss idx infile =
      (ss', emit cf p nt (snd (feed_all expr get sts ss (fst (read_ctxs_pre fuel (c_only_objs cf) r fname idx infile)))),
       idx', Some GErrJson, r').
Proof.
  induction fuel as [|f IH]; intros r fname ss idx infile Hb.
  - cbn in Hb. discriminate.
  - cbn [read_input read_ctxs_pre] in *. cbv zeta in *.
    destruct (next_json_value r) as [res r1].
    destruct (io r1); [cbn in Hb; discriminate|].
    destruct res as [v| | |]; try (cbn in Hb; discriminate).
    + destruct (c_only_objs cf && negb (is_container v)); [apply IH; assumption|].
      set (c := new_with_input v _) in *.
      destruct (read_ctxs_pre f (c_only_objs cf) r1 fname (idx + 1) (infile + 1)) as [cs b] eqn:Ec.
      cbn [fst snd] in *. cbn [feed_all].
      pose proof (never_break ss c) as Hd.
      destruct (process expr get sts ss c) as [[ss1 o] d]. cbn [snd] in Hd. subst d.
      destruct (IH r1 fname ss1 (idx + 1) (infile + 1)) as (ss2 & idx2 & r2 & E2).
      { rewrite Ec. exact Hb. }
      rewrite E2. rewrite Ec. cbn [fst].
      destruct (feed_all expr get sts ss1 cs) as [ss3 o3]. cbn [snd].
      exists ss2, idx2, r2. rewrite emit_app. reflexivity.
    + rewrite panic. cbn [fst feed_all snd]. exists ss, idx, r1. reflexivity.
Qed.
End Panic.

Theorem go_run_panic : forall (cf : cfg) (fname : option str) (evs : list ev) (b : bool) p sts hdr,
  c_on_error cf = OnPanic ->
  build_pipeline cf = Some (p, sts) ->
  start_output p (titles expr sts []) (c_rowsep cf) = Some hdr ->
  (forall ss c, snd (process expr get sts ss c) = Continue) ->
  0 < snd (fst (ctxs_of_input cf fname evs)) ->
  let pre := fst (read_ctxs_pre (input_fuel evs) (c_only_objs cf) (mk_reader evs) fname 0 0) in
  g_result (go cf [(fname, evs)] b) = GErrJson /\
  g_events (go cf [(fname, evs)] b) =
    hdr_events hdr ++ emit cf p (length (titles expr sts []))
                        (snd (feed_all expr get sts (map (init_state expr) sts) pre)) /\
  exists tl, fst (fst (ctxs_of_input cf fname evs)) = pre ++ tl.
Proof.
  intros cf fname evs b p sts hdr Hpol Hbp Hst Hnb Herr pre. subst pre.
  unfold ctxs_of_input in *.
  pose proof (read_ctxs_pre_hit _ _ _ _ _ _ Herr) as Hhit.
  destruct (read_input_panic cf p sts (length (titles expr sts [])) Hpol Hnb (input_fuel evs) (mk_reader evs)
              fname (map (init_state expr) sts) 0 0 Hhit) as (ss' & idx' & r' & E).
  unfold go. rewrite Hbp. cbv zeta. rewrite Hst. cbn [read_files]. rewrite E.
  cbn [g_result g_events]. split; [reflexivity|]. split; [reflexivity|].
  apply read_ctxs_pre_prefix.
Qed.

(* `pulled <= length pre` alone is not enough: the run on "1" (take 1) pulls one byte, sees the end of
   the input and prints 1; on "12" it prints 12.  The hypothesis must say that the end of the input
   was not seen (consumed = pulled + 1 at the end of input). *)
Definition take1_cfg : cfg :=
  {| c_on_error := OnIgnore; c_select := []; c_filter := None; c_split := None; c_group := None;
     c_sort := []; c_skip := 0; c_take := Some 1; c_unique := false; c_set := [];
     c_only_objs := false; c_style := StyleJson; c_rowsep := [10];
     c_json_opts := None; c_text_opts := None |}.
Example pulled_bound_not_enough :
  g_pulled (go take1_cfg [(None, map EB ([49] ++ []))] true) = [1] /\
  g_events (go take1_cfg [(None, map EB ([49] ++ []))] true) = [OOut [49; 10]] /\
  g_events (go take1_cfg [(None, map EB ([49] ++ [50]))] true) = [OOut [49; 50; 10]].
Proof. vm_compute. auto. Qed.

Print Assumptions next_json_value_det.
Print Assumptions read_input_independent_of_rest.
Print Assumptions go_take_independent_of_rest.
Print Assumptions read_error_events_prefix.
Print Assumptions go_read_error_events_prefix.
Print Assumptions go_run_policy.
Print Assumptions go_run_stderr.
Print Assumptions go_run_stdout.
Print Assumptions go_run_panic.
