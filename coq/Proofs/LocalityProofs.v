(* LocalityProofs.v — (L1) the parser is determined by the events it actually pulls;
   (L2) after a Break nothing that follows matters; (L3) the events of a run cut by a read error are a
   prefix of the events of the fault-free run; (L4) error policies at the level of go. *)
From Coq Require Import List NArith ZArith Bool Lia.
From Jawk Require Import Base F64 Json Reader JsonParser Stream Ctx Printer Expr Chain ExprParser Go.
From Jawk Require Import Render ReaderLemmas ParserProofs GoProofs.
Import ListNotations.
Local Open Scope N_scope.

#[local] Arguments N.add : simpl never.
#[local] Arguments N.mul : simpl never.
#[local] Arguments N.sub : simpl never.
#[local] Arguments N.eqb : simpl never.
#[local] Arguments N.ltb : simpl never.
#[local] Arguments N.leb : simpl never.
#[local] Arguments N.of_nat : simpl never.
#[local] Arguments N.to_nat : simpl never.

(* ================= (L1) locality ================= *)
(* how far the reader has looked into its source: bytes pulled, plus one when the end (or a read
   error) has been seen *)
Definition consumed (r : reader) : nat := (N.to_nat (pulled r) + (if eof r then 1 else 0))%nat.

(* same visible state, and the pending events coincide up to absolute position n of the source *)
Definition agree (n : nat) (r1 r2 : reader) : Prop :=
  inv r1 /\ cur r1 = cur r2 /\ eof r1 = eof r2 /\ line r1 = line r2 /\ col r1 = col r2 /\
  pulled r1 = pulled r2 /\ io r1 = io r2 /\
  firstn (n - consumed r1) (rest r1) = firstn (n - consumed r1) (rest r2).

Definition det2 {A} (n : nat) (x1 x2 : A * reader) : Prop :=
  fst x1 = fst x2 /\ agree n (snd x1) (snd x2).

Lemma consumed_step r : (consumed r <= consumed (step r))%nat.
Proof.
  unfold consumed, step, next. destruct (eof r) eqn:E; cbn [snd]; [rewrite E; lia|].
  destruct (rest r) as [|[b|] t]; cbn [snd pulled eof]; lia.
Qed.

Lemma consumed_advances r r' : advances r r' -> (consumed r <= consumed r')%nat.
Proof.
  intros H. apply (advances_inv (fun x => (consumed r <= consumed x)%nat)) with (r := r); auto.
  intros x Hx. pose proof (consumed_step x). lia.
Qed.

Lemma consumed_le a b n : advances a b -> (consumed b <= n)%nat -> (consumed a <= n)%nat.
Proof. intros H Hb. pose proof (consumed_advances a b H). lia. Qed.

Lemma inv_step r : inv r -> inv (step r).
Proof. intros H. apply (next_mono r H). Qed.

Lemma agree_inv2 n r1 r2 : agree n r1 r2 -> inv r2.
Proof. unfold agree, inv. intros (Hi & Hc & He & _). rewrite <- He, <- Hc. exact Hi. Qed.

Lemma agree_m n r1 r2 : agree n r1 r2 -> inv r1.
Proof. intros H. apply H. Qed.

Lemma firstn_S_nil {A} k (l : list A) : [] = firstn (S k) l -> l = [].
Proof. destruct l; [reflexivity|discriminate]. Qed.

Lemma firstn_S_cons {A} k (a : A) t l : a :: firstn k t = firstn (S k) l ->
  exists t', l = a :: t' /\ firstn k t = firstn k t'.
Proof. destruct l as [|a' t']; [discriminate|]. cbn [firstn]. intros H. injection H as <- H. eauto. Qed.

Lemma next_det n r1 r2 : agree n r1 r2 -> (consumed (snd (next r1)) <= n)%nat ->
  det2 n (next r1) (next r2).
Proof.
  destruct r1 as [c1 e1 rs1 l1 k1 p1 i1], r2 as [c2 e2 rs2 l2 k2 p2 i2].
  unfold det2, agree, consumed, inv, next; cbn [cur eof rest line col pulled io].
  intros (Hi & <- & <- & <- & <- & <- & <- & Hf). destruct e1; cbn [fst snd cur eof rest line col pulled io].
  - intros _. repeat split; auto.
  - destruct rs1 as [|[b|] t1]; cbn [fst snd cur eof rest line col pulled io]; intros Hb.
    + replace (n - (N.to_nat p1 + 0))%nat with (S (n - (N.to_nat p1 + 0) - 1)) in Hf by lia.
      apply firstn_S_nil in Hf. subst rs2. cbn [fst snd cur eof rest line col pulled io].
      repeat split; auto.
    + replace (n - (N.to_nat p1 + 0))%nat with (S (n - (N.to_nat p1 + 0) - 1)) in Hf by lia.
      cbn [firstn] in Hf. apply firstn_S_cons in Hf. destruct Hf as (t2 & -> & Hf).
      cbn [fst snd cur eof rest line col pulled io]. repeat split; auto; try discriminate.
      replace (n - (N.to_nat (p1 + 1) + 0))%nat with (n - (N.to_nat p1 + 0) - 1)%nat by lia. exact Hf.
    + replace (n - (N.to_nat p1 + 0))%nat with (S (n - (N.to_nat p1 + 0) - 1)) in Hf by lia.
      cbn [firstn] in Hf. apply firstn_S_cons in Hf. destruct Hf as (t2 & -> & Hf).
      cbn [fst snd cur eof rest line col pulled io]. repeat split; auto.
Qed.

Lemma peek_det n r1 r2 : agree n r1 r2 -> (consumed (snd (peek r1)) <= n)%nat ->
  det2 n (peek r1) (peek r2).
Proof.
  intros H. pose proof H as (_ & Hc & _). unfold peek. rewrite <- Hc.
  destruct (cur r1); [intros _; split; [reflexivity|exact H]|apply next_det; exact H].
Qed.
