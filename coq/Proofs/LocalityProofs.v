(* LocalityProofs.v — (L1) the parser is determined by the events it actually pulls;
   (L2) after a Break nothing that follows matters; (L3) the events of a run cut by a read error are a
   prefix of the events of the fault-free run; (L4) error policies at the level of go. *)
From Coq Require Import List NArith ZArith Bool Lia.
From Jawk Require Import Base F64 Json Reader JsonParser Stream Ctx Printer Expr Chain ExprParser Go.
From Jawk Require Import Render ReaderLemmas ParserProofs GoProofs.
Import ListNotations.
Local Open Scope N_scope.

#[local] Arguments N.add : simpl never.
#[local] Arguments N.mul : simpl never.
#[local] Arguments N.sub : simpl never.
#[local] Arguments N.eqb : simpl never.
#[local] Arguments N.ltb : simpl never.
#[local] Arguments N.leb : simpl never.
#[local] Arguments N.of_nat : simpl never.
#[local] Arguments N.to_nat : simpl never.

(* ================= (L1) locality ================= *)
(* how far the reader has looked into its source: bytes pulled, plus one when the end (or a read
   error) has been seen *)
Definition consumed (r : reader) : nat := (N.to_nat (pulled r) + (if eof r then 1 else 0))%nat.

(* same visible state, and the pending events coincide up to absolute position n of the source *)
Definition agree (n : nat) (r1 r2 : reader) : Prop :=
  inv r1 /\ cur r1 = cur r2 /\ eof r1 = eof r2 /\ line r1 = line r2 /\ col r1 = col r2 /\
  pulled r1 = pulled r2 /\ io r1 = io r2 /\
  firstn (n - consumed r1) (rest r1) = firstn (n - consumed r1) (rest r2).

Definition det2 {A} (n : nat) (x1 x2 : A * reader) : Prop :=
  fst x1 = fst x2 /\ agree n (snd x1) (snd x2).

Lemma consumed_step r : (consumed r <= consumed (step r))%nat.
Proof.
  unfold consumed, step, next. destruct (eof r) eqn:E; cbn [snd]; [rewrite E; lia|].
  destruct (rest r) as [|[b|] t]; cbn [snd pulled eof]; lia.
Qed.

Lemma consumed_advances r r' : advances r r' -> (consumed r <= consumed r')%nat.
Proof.
  intros H. apply (advances_inv (fun x => (consumed r <= consumed x)%nat)) with (r := r); auto.
  intros x Hx. pose proof (consumed_step x). lia.
Qed.

Lemma consumed_le a b n : advances a b -> (consumed b <= n)%nat -> (consumed a <= n)%nat.
Proof. intros H Hb. pose proof (consumed_advances a b H). lia. Qed.

Lemma inv_step r : inv r -> inv (step r).
Proof. intros H. apply (next_mono r H). Qed.

Lemma agree_inv2 n r1 r2 : agree n r1 r2 -> inv r2.
Proof. unfold agree, inv. intros (Hi & Hc & He & _). rewrite <- He, <- Hc. exact Hi. Qed.

Lemma agree_m n r1 r2 : agree n r1 r2 -> inv r1.
Proof. intros H. apply H. Qed.

Lemma firstn_S_nil {A} k (l : list A) : [] = firstn (S k) l -> l = [].
Proof. destruct l; [reflexivity|discriminate]. Qed.

Lemma firstn_S_cons {A} k (a : A) t l : a :: firstn k t = firstn (S k) l ->
  exists t', l = a :: t' /\ firstn k t = firstn k t'.
Proof. destruct l as [|a' t']; [discriminate|]. cbn [firstn]. intros H. injection H as <- H. eauto. Qed.

Lemma next_det n r1 r2 : agree n r1 r2 -> (consumed (snd (next r1)) <= n)%nat ->
  det2 n (next r1) (next r2).
Proof.
  destruct r1 as [c1 e1 rs1 l1 k1 p1 i1], r2 as [c2 e2 rs2 l2 k2 p2 i2].
  unfold det2, agree, consumed, inv, next; cbn [cur eof rest line col pulled io].
  intros (Hi & <- & <- & <- & <- & <- & <- & Hf). destruct e1; cbn [fst snd cur eof rest line col pulled io].
  - intros _. repeat split; auto.
  - destruct rs1 as [|[b|] t1]; cbn [fst snd cur eof rest line col pulled io]; intros Hb.
    + replace (n - (N.to_nat p1 + 0))%nat with (S (n - (N.to_nat p1 + 0) - 1)) in Hf by lia.
      apply firstn_S_nil in Hf. subst rs2. cbn [fst snd cur eof rest line col pulled io].
      repeat split; auto.
    + replace (n - (N.to_nat p1 + 0))%nat with (S (n - (N.to_nat p1 + 0) - 1)) in Hf by lia.
      cbn [firstn] in Hf. apply firstn_S_cons in Hf. destruct Hf as (t2 & -> & Hf).
      cbn [fst snd cur eof rest line col pulled io]. repeat split; auto; try discriminate.
      replace (n - (N.to_nat (p1 + 1) + 0))%nat with (n - (N.to_nat p1 + 0) - 1)%nat by lia. exact Hf.
    + replace (n - (N.to_nat p1 + 0))%nat with (S (n - (N.to_nat p1 + 0) - 1)) in Hf by lia.
      cbn [firstn] in Hf. apply firstn_S_cons in Hf. destruct Hf as (t2 & -> & Hf).
      cbn [fst snd cur eof rest line col pulled io]. repeat split; auto.
Qed.

Lemma peek_det n r1 r2 : agree n r1 r2 -> (consumed (snd (peek r1)) <= n)%nat ->
  det2 n (peek r1) (peek r2).
Proof.
  intros H. pose proof H as (_ & Hc & _). unfold peek. rewrite <- Hc.
  destruct (cur r1); [intros _; split; [reflexivity|exact H]|apply next_det; exact H].
Qed.

(* ----- two runs side by side: first evaluate the run on r1 (collecting, for every reader
   operation, how far it advanced and its determinacy fact), then replay the run on r2 ----- *)
Ltac with_goal k :=
  lazymatch goal with
  | |- det2 ?n ?t1 ?t2 => k n t1 t2
  | |- agree ?n ?t1 ?t2 => k n t1 t2
  end.

Ltac d_hide := with_goal ltac:(fun n t1 t2 => let T := fresh "T2" in remember t2 as T).
Ltac d_unhide :=
  match goal with
  | E : ?T = _ |- det2 _ _ ?T => subst T
  | E : ?T = _ |- agree _ _ ?T => subst T
  end.

Ltac d_pair t adv dfact :=
  let H1 := fresh "A" in let H2 := fresh "D" in
  pose proof adv as H1; pose proof dfact as H2; destruct t as [? ?]; fr_norm.

Ltac d_op :=
  with_goal ltac:(fun n t1 t2 =>
    match t1 with
    | context [next ?x] => is_var x; d_pair (next x) (next_advances x) (fun r2 => next_det n x r2)
    | context [peek ?x] => is_var x; d_pair (peek x) (peek_advances x) (fun r2 => peek_det n x r2)
    end).

Ltac d_case :=
  with_goal ltac:(fun n t1 t2 =>
    let x := hs t1 in (tryif is_var x then destruct x else destruct x eqn:?); fr_norm).

Ltac d_rew :=
  repeat match goal with
  | E : ?t = _ |- _ => tryif is_var t then fail else (lazymatch goal with |- context [t] => rewrite E end)
  end.

Ltac d_budget :=
  match goal with
  | B : (consumed ?rX <= ?n)%nat |- (consumed ?x <= ?n)%nat =>
      apply (consumed_le x rX n); [ad_done | exact B]
  end.

Ltac d_op2 :=
  match goal with
  | A : agree ?n ?x ?y, D : forall r2 : reader, agree ?n ?x r2 -> @?Q r2 |- _ =>
      is_var y;
      let D' := fresh "D" in pose proof (D y A) as D'; cbv beta in D';
      lazymatch type of D' with
      | (consumed ?x' <= _)%nat -> det2 _ _ ?u =>
          lazymatch goal with |- context [u] => idtac end;
          let Hb := fresh in assert (Hb : (consumed x' <= n)%nat) by d_budget;
          specialize (D' Hb); clear Hb; clear D;
          let o2 := fresh "o" in let y2 := fresh "y" in
          destruct u as [o2 y2]; unfold det2 in D'; cbn [fst snd] in D';
          let E := fresh in let A2 := fresh "A" in destruct D' as [E A2]; subst o2
      | (consumed ?x' <= _)%nat -> agree _ _ ?u =>
          lazymatch goal with |- context [u] => idtac end;
          let Hb := fresh in assert (Hb : (consumed x' <= n)%nat) by d_budget;
          specialize (D' Hb); clear Hb; clear D;
          let y2 := fresh "y" in set (y2 := u) in *; clearbody y2
      end
  end.

Ltac d_fin := first [ assumption | split; [reflexivity | assumption] ].

Ltac d_auto extra :=
  d_hide; repeat first [d_op | extra | d_case];
  d_unhide; fr_norm; d_rew; fr_norm;
  repeat (d_op2; fr_norm; d_rew; fr_norm);
  d_fin.

Lemma read_word_det n w : forall r1 r2, agree n r1 r2 ->
  (consumed (snd (read_word w r1)) <= n)%nat -> det2 n (read_word w r1) (read_word w r2).
Proof.
  induction w as [|e w IH]; intros r1 r2 A B; cbn [read_word] in *.
  - d_auto fail.
  - d_auto ltac:(match goal with |- context [read_word w ?x] =>
                   is_var x; d_pair (read_word w x) (read_word_advances w x) (IH x) end).
Qed.

Ltac d_set x adv dfact :=
  let H1 := fresh "A" in let H2 := fresh "D" in
  pose proof adv as H1; pose proof dfact as H2;
  let r' := fresh "r" in set (r' := x) in *; clearbody r'; fr_norm.

Lemma eat_ws_det n fuel : forall r1 r2, agree n r1 r2 ->
  (consumed (eat_ws fuel r1) <= n)%nat -> agree n (eat_ws fuel r1) (eat_ws fuel r2).
Proof.
  induction fuel as [|f IH]; intros r1 r2 A B; cbn [eat_ws] in *; [exact A|].
  d_auto ltac:(match goal with |- context [eat_ws f ?x] =>
                 is_var x; d_set (eat_ws f x) (eat_ws_advances f x) (IH x) end).
Qed.

Lemma read_digits_f_det n fuel : forall acc r1 r2, agree n r1 r2 ->
  (consumed (snd (read_digits_f fuel acc r1)) <= n)%nat ->
  det2 n (read_digits_f fuel acc r1) (read_digits_f fuel acc r2).
Proof.
  induction fuel as [|f IH]; intros acc r1 r2 A B; cbn [read_digits_f] in *; [split; [reflexivity|exact A]|].
  d_auto ltac:(match goal with |- context [read_digits_f f ?a ?x] =>
                 is_var x; d_pair (read_digits_f f a x) (read_digits_f_advances f a x) (IH a x) end).
Qed.

Lemma read_hex4_det n k : forall acc r1 r2, agree n r1 r2 ->
  (consumed (snd (read_hex4 k acc r1)) <= n)%nat ->
  det2 n (read_hex4 k acc r1) (read_hex4 k acc r2).
Proof.
  induction k as [|k IH]; intros acc r1 r2 A B; cbn [read_hex4] in *; [split; [reflexivity|exact A]|].
  d_auto ltac:(match goal with |- context [read_hex4 k ?a ?x] =>
                 is_var x; d_pair (read_hex4 k a x) (read_hex4_advances k a x) (IH a x) end).
Qed.

Lemma read_string_f_det n fuel : forall acc r1 r2, agree n r1 r2 ->
  (consumed (snd (read_string_f fuel acc r1)) <= n)%nat ->
  det2 n (read_string_f fuel acc r1) (read_string_f fuel acc r2).
Proof.
  induction fuel as [|f IH]; intros acc r1 r2 A B; cbn [read_string_f] in *; [split; [reflexivity|exact A]|].
  d_auto ltac:(first
    [ match goal with |- context [read_hex4 ?k ?a ?x] =>
        is_var x; d_pair (read_hex4 k a x) (read_hex4_advances k a x) (fun r2 => read_hex4_det n k a x r2) end
    | match goal with |- context [read_string_f f ?a ?x] =>
        is_var x; d_pair (read_string_f f a x) (read_string_f_advances f a x) (IH a x) end ]).
Qed.
