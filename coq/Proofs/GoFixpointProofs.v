(* the parse/print round trip (C02) at the level of the whole program `go`, default configuration:
   feeding jawk's default output back into jawk reproduces it (no code point >= U+10000: K1) *)
From Jawk Require Import Base F64 Json Reader JsonParser Stream Ctx Printer Fn Expr Chain ExprParser Go PipelineSpec.
From Jawk Require Import OrderProofs SorterProofs ChainProofs GoProofs BuildProofs FilesProofs LocalFilesProofs ParsedPrintable.
From Coq Require Import Lia.
Local Open Scope N_scope.

(* ---------- step 1: the read loop of `go` and Stream.read_all see the same values ---------- *)
Lemma read_ctxs_read_all : forall fuel r fname idx infile,
  no_eerr r -> io r = false ->
  map input (fst (fst (read_ctxs fuel false r fname idx infile))) = fst (read_all fuel r) /\
  snd (fst (read_ctxs fuel false r fname idx infile)) = snd (read_all fuel r).
Proof.
  induction fuel as [|f IH]; intros r fname idx infile Hn Hio.
  - split; reflexivity.
  - cbn [read_ctxs read_all]. cbv zeta.
    destruct (next_json_value r) as [res r1] eqn:E.
    destruct (next_json_value_clean r res r1 Hn Hio E) as [Hn1 Hio1]. rewrite Hio1.
    destruct res as [v| | |].
    + cbn [andb].
      destruct (IH r1 fname (idx + 1) (infile + 1) Hn1 Hio1) as [IH1 IH2].
      destruct (read_ctxs f false r1 fname (idx + 1) (infile + 1)) as [[cs e] b].
      destruct (read_all f r1) as [vs e'].
      cbn [fst snd map input new_with_input] in *. split; [f_equal; exact IH1|exact IH2].
    + split; reflexivity.
    + destruct (IH r1 fname idx infile Hn1 Hio1) as [IH1 IH2].
      destruct (read_ctxs f false r1 fname idx infile) as [[cs e] b].
      destruct (read_all f r1) as [vs e'].
      cbn [fst snd] in *. split; [exact IH1|f_equal; exact IH2].
    + split; reflexivity.
Qed.

Lemma read_ctxs_results : forall fuel oo r fname idx infile,
  Forall (fun c => results c = []) (fst (fst (read_ctxs fuel oo r fname idx infile))).
Proof.
  induction fuel as [|f IH]; intros oo r fname idx infile.
  - constructor.
  - cbn [read_ctxs]. cbv zeta.
    destruct (next_json_value r) as [res r1] eqn:E.
    destruct (io r1); [constructor|].
    destruct res as [v| | |].
    + destruct (oo && negb (is_container v))%bool; [apply IH|].
      pose proof (IH oo r1 fname (idx + 1) (infile + 1)) as H.
      destruct (read_ctxs f oo r1 fname (idx + 1) (infile + 1)) as [[cs e] b].
      cbn [fst] in *. constructor; [reflexivity|exact H].
    + constructor.
    + pose proof (IH oo r1 fname idx infile) as H.
      destruct (read_ctxs f oo r1 fname idx infile) as [[cs e] b].
      cbn [fst] in *. exact H.
    + constructor.
Qed.

Lemma ctxs_of_input_values (bs : list byte) fname :
  map input (fst (fst (ctxs_of_input default_cfg fname (map EB bs)))) = fst (values_of_bytes bs).
Proof.
  unfold ctxs_of_input, values_of_bytes, reader_of_bytes, input_fuel.
  rewrite map_length. cbn [c_only_objs default_cfg].
  apply read_ctxs_read_all; [apply no_eerr_mk, no_eerr_bytes|reflexivity].
Qed.

Lemma ctxs_of_input_results cf fname evs :
  Forall (fun c => results c = []) (fst (fst (ctxs_of_input cf fname evs))).
Proof. unfold ctxs_of_input. apply read_ctxs_results. Qed.

(* ---------- step 2: stdout of an event list ---------- *)
Definition stdout_of (evs : list oev) : list byte :=
  concat (map (fun e => match e with OOut bs => bs | OErr _ => [] end) evs).

(* a default row only depends on the input of a context without selections *)
Lemma print_row_default c : results c = [] ->
  print_row (PJson OneLine false) 0 [10] c = print_json OneLine false (input c) ++ [10].
Proof. intros H. cbn [print_row]. unfold build. rewrite H. reflexivity. Qed.

Lemma emit_default_inputs (cs : list ctx) : Forall (fun c => results c = []) cs ->
  emit default_cfg (PJson OneLine false) 0 cs =
  map (fun v => OOut (print_json OneLine false v ++ [10])) (map input cs).
Proof.
  intros H. unfold emit. rewrite map_map. apply map_ext_in. intros c Hc.
  rewrite Forall_forall in H. cbn [c_rowsep default_cfg]. rewrite (print_row_default c (H c Hc)).
  reflexivity.
Qed.

Lemma stdout_of_rows (f : json -> list byte) (vs : list json) :
  stdout_of (map (fun v => OOut (f v)) vs) = concat (map f vs).
Proof. unfold stdout_of. rewrite map_map. reflexivity. Qed.

(* the events of the default configuration on one unnamed byte stream *)
Lemma go_default_events (bs : list byte) (b : bool) :
  g_result (go default_cfg [(None, map EB bs)] b) = GOk /\
  g_events (go default_cfg [(None, map EB bs)] b) =
    map (fun v => OOut (print_json OneLine false v ++ [10])) (fst (values_of_bytes bs)).
Proof.
  destruct (go_default_rows_files [(None, map EB bs)] b) as [Hres Hev].
  { constructor; [apply no_eerr_bytes|constructor]. }
  split; [exact Hres|].
  rewrite Hev, ctxs_of_inputs_one, emit_default_inputs by apply ctxs_of_input_results.
  rewrite ctxs_of_input_values. reflexivity.
Qed.

(* ---------- step 3: the whole-program fixpoint ---------- *)
Theorem go_default_fixpoint : forall (bs : list byte) (b : bool),
  Forall no_astral (fst (values_of_bytes bs)) ->
  let g1 := go default_cfg [(None, map EB bs)] b in
  let g2 := go default_cfg [(None, map EB (stdout_of (g_events g1)))] b in
  g_result g1 = GOk /\ g_result g2 = GOk /\ g_events g2 = g_events g1.
Proof.
  intros bs b Hna g1 g2. subst g2 g1.
  destruct (go_default_events bs b) as [Hres1 Hev1].
  split; [exact Hres1|].
  rewrite Hev1.
  rewrite (stdout_of_rows (fun v => print_json OneLine false v ++ [10])).
  destruct (go_default_events
              (concat (map (fun v => print_json OneLine false v ++ [10]) (fst (values_of_bytes bs)))) b)
    as [Hres2 Hev2].
  split; [exact Hres2|].
  rewrite Hev2.
  rewrite (parsed_roundtrip_ascii OneLine bs Hna). reflexivity.
Qed.
Print Assumptions go_default_fixpoint.
