(* NasProofs.v — the number-as-string functions (Model/FunsNas.v) compute exact decimal results.
   The value of a decimal (m, s) is the rational m * 10^(-s) (Coq's QArith, axiom free);
   "+", "-", "*", abs, normalise and the comparisons agree with exact rational arithmetic, and the
   normal form depends on the value only (spelling independence). *)
From Coq Require Import List NArith ZArith Bool Lia QArith Qabs.
From Jawk Require Import Base F64 Json Printer Fn FunBase FunsNas.
Import ListNotations.
Local Open Scope Z_scope.

Arguments Z.pow : simpl never.
Arguments Z.mul : simpl never.
Arguments Z.add : simpl never.
Arguments Z.sub : simpl never.
Arguments Z.quot : simpl never.
Arguments Z.rem : simpl never.

(* ================================================================== *)
(* 1. the value of a decimal                                           *)
(* ================================================================== *)

Definition p10 (k : Z) : positive := Z.to_pos (10 ^ k).

Definition dec_value (d : Z * Z) : Q :=
  if 0 <=? snd d then fst d # p10 (snd d) else inject_Z (fst d * 10 ^ (- snd d)).

Lemma pow10_gt0 : forall k, 0 <= k -> 0 < 10 ^ k.
Proof. intros k Hk. apply Z.pow_pos_nonneg; lia. Qed.

Lemma p10_spec : forall k, 0 <= k -> Zpos (p10 k) = 10 ^ k.
Proof. intros k Hk. unfold p10. apply Z2Pos.id. apply pow10_gt0; exact Hk. Qed.

Lemma pow10_split : forall a b, 0 <= a -> 0 <= b -> 10 ^ (a + b) = 10 ^ a * 10 ^ b.
Proof. intros a b Ha Hb. apply Z.pow_add_r; assumption. Qed.

(* the value written with any sufficiently large non-negative scale *)
Lemma dec_value_scaled : forall m s S, s <= S -> 0 <= S ->
  dec_value (m, s) == (m * 10 ^ (S - s)) # p10 S.
Proof.
  intros m s S Hs HS. unfold dec_value. cbn [fst snd].
  destruct (Z.leb_spec 0 s) as [H0|H0].
  - unfold Qeq. cbn [Qnum Qden]. rewrite !p10_spec by lia.
    replace S with ((S - s) + s) at 1 by ring.
    rewrite pow10_split by lia. ring.
  - unfold Qeq, inject_Z. cbn [Qnum Qden]. rewrite p10_spec by lia.
    replace (S - s) with (- s + S) by ring.
    rewrite pow10_split by lia. ring.
Qed.

Lemma Qeq_same_den : forall x y p, x # p == y # p <-> x = y.
Proof.
  intros x y p. unfold Qeq. cbn [Qnum Qden]. split.
  - intros H. apply Z.mul_cancel_r in H; [exact H|discriminate].
  - intros H. subst. reflexivity.
Qed.

Lemma Qplus_same_den : forall x y p, (x # p) + (y # p) == (x + y) # p.
Proof.
  intros x y p. unfold Qeq, Qplus. cbn [Qnum Qden]. rewrite Pos2Z.inj_mul. ring.
Qed.

Lemma Qopp_den : forall x p, - (x # p) == (- x) # p.
Proof. intros x p. reflexivity. Qed.

Lemma Qminus_same_den : forall x y p, (x # p) - (y # p) == (x - y) # p.
Proof.
  intros x y p. unfold Qminus. rewrite Qopp_den, Qplus_same_den.
  apply Qeq_same_den. ring.
Qed.

Lemma Qmult_p10 : forall x y S T, 0 <= S -> 0 <= T ->
  (x # p10 S) * (y # p10 T) == (x * y) # p10 (S + T).
Proof.
  intros x y S T HS HT. unfold Qeq, Qmult. cbn [Qnum Qden].
  rewrite Pos2Z.inj_mul, !p10_spec by lia. rewrite pow10_split by lia. ring.
Qed.

Lemma dec_value_zero : forall s, dec_value (0, s) == 0.
Proof.
  intros s. rewrite (dec_value_scaled 0 s (Z.max s 0)) by lia.
  unfold Qeq. cbn [Qnum Qden]. ring.
Qed.

Lemma dec_value_zero_iff : forall m s, dec_value (m, s) == 0 <-> m = 0.
Proof.
  intros m s. rewrite (dec_value_scaled m s (Z.max s 0)) by lia.
  unfold Qeq. cbn [Qnum Qden]. rewrite Z.mul_1_r, Z.mul_0_l.
  pose proof (pow10_gt0 (Z.max s 0 - s)) as Hp.
  split; intros H; [|subst; ring].
  apply Z.mul_eq_0 in H. destruct H as [H|H]; [exact H|lia].
Qed.

Lemma dec_value_fst0 : forall a, fst a = 0 -> dec_value a == 0.
Proof. intros [m s] H. cbn [fst] in H. subst. apply dec_value_zero. Qed.

(* ================================================================== *)
(* 2. alignment                                                        *)
(* ================================================================== *)

(* both values at one common scale S *)
Lemma dec_align_value : forall a b x y s, dec_align a b = (x, y, s) ->
  let S := Z.max s 0 in
  dec_value a == (x * 10 ^ (S - s)) # p10 S /\
  dec_value b == (y * 10 ^ (S - s)) # p10 S /\
  (forall z, dec_value (z, s) == (z * 10 ^ (S - s)) # p10 S).
Proof.
  intros [ma sa] [mb sb] x y s H S. unfold dec_align, pow10 in H.
  injection H as Hx Hy Hs. subst x y.
  assert (Hsa : sa <= s) by lia. assert (Hsb : sb <= s) by lia.
  assert (HS : s <= S /\ 0 <= S) by (unfold S; lia). destruct HS as [HS1 HS2].
  rewrite Hs. split; [|split].
  - rewrite (dec_value_scaled ma sa S) by lia. apply Qeq_same_den.
    replace (S - sa) with ((s - sa) + (S - s)) by ring.
    rewrite pow10_split by lia. ring.
  - rewrite (dec_value_scaled mb sb S) by lia. apply Qeq_same_den.
    replace (S - sb) with ((s - sb) + (S - s)) by ring.
    rewrite pow10_split by lia. ring.
  - intros z. apply dec_value_scaled; lia.
Qed.

(* ================================================================== *)
(* 3. N1 - N4 : "+", "-", "*", abs are exact                            *)
(* ================================================================== *)

Theorem dec_add_exact : forall a b, dec_value (dec_add a b) == dec_value a + dec_value b.
Proof.
  intros a b. unfold dec_add.
  destruct (Z.eqb_spec (fst b) 0) as [Hb|Hb].
  { rewrite (dec_value_fst0 b Hb). ring. }
  destruct (Z.eqb_spec (fst a) 0) as [Ha|Ha].
  { rewrite (dec_value_fst0 a Ha). ring. }
  destruct (dec_align a b) as [[x y] s] eqn:E.
  destruct (dec_align_value a b x y s E) as [Va [Vb Vz]].
  rewrite Va, Vb, Vz, Qplus_same_den. apply Qeq_same_den. ring.
Qed.

Theorem dec_sub_exact : forall a b, dec_value (dec_sub a b) == dec_value a - dec_value b.
Proof.
  intros a b. unfold dec_sub.
  destruct (Z.eqb_spec (fst b) 0) as [Hb|Hb].
  { rewrite (dec_value_fst0 b Hb). ring. }
  destruct (Z.eqb_spec (fst a) 0) as [Ha|Ha].
  { rewrite (dec_value_fst0 a Ha). destruct b as [mb sb]. cbn [fst snd].
    set (S := Z.max sb 0).
    rewrite (dec_value_scaled (- mb) sb S), (dec_value_scaled mb sb S) by (unfold S; lia).
    unfold Qminus. rewrite Qplus_0_l, Qopp_den. apply Qeq_same_den. ring. }
  destruct (dec_align a b) as [[x y] s] eqn:E.
  destruct (dec_align_value a b x y s E) as [Va [Vb Vz]].
  rewrite Va, Vb, Vz, Qminus_same_den. apply Qeq_same_den. ring.
Qed.

Lemma dec_is_one_value : forall a, dec_is_one a = true -> dec_value a == 1.
Proof.
  intros [m s] H. unfold dec_is_one, pow10 in H.
  apply andb_true_iff in H. destruct H as [H Hm].
  apply andb_true_iff in H. destruct H as [H0 H38].
  apply Z.leb_le in H0. apply Z.eqb_eq in Hm. subst m.
  rewrite (dec_value_scaled (10 ^ s) s s) by lia.
  unfold Qeq. cbn [Qnum Qden]. rewrite p10_spec by lia.
  rewrite Z.sub_diag, Z.pow_0_r. ring.
Qed.

Theorem dec_mul_exact : forall a b, dec_value (dec_mul a b) == dec_value a * dec_value b.
Proof.
  intros a b. unfold dec_mul.
  destruct (dec_is_one a) eqn:Ha.
  { rewrite (dec_is_one_value a Ha). ring. }
  destruct (dec_is_one b) eqn:Hb.
  { rewrite (dec_is_one_value b Hb). ring. }
  destruct a as [ma sa], b as [mb sb]. cbn [fst snd].
  set (Sa := Z.max sa 0). set (Sb := Z.max sb 0).
  rewrite (dec_value_scaled ma sa Sa), (dec_value_scaled mb sb Sb) by (unfold Sa, Sb; lia).
  rewrite (dec_value_scaled (ma * mb) (sa + sb) (Sa + Sb)) by (unfold Sa, Sb; lia).
  rewrite Qmult_p10 by (unfold Sa, Sb; lia). apply Qeq_same_den.
  replace (Sa + Sb - (sa + sb)) with ((Sa - sa) + (Sb - sb)) by ring.
  rewrite pow10_split by (unfold Sa, Sb; lia). ring.
Qed.

Theorem dec_abs_exact : forall a, dec_value (dec_abs a) == Qabs (dec_value a).
Proof.
  intros [m s]. unfold dec_abs. cbn [fst snd].
  set (S := Z.max s 0).
  rewrite (dec_value_scaled (Z.abs m) s S), (dec_value_scaled m s S) by (unfold S; lia).
  unfold Qabs. apply Qeq_same_den.
  rewrite Z.abs_mul. f_equal. symmetry. apply Z.abs_eq.
  apply Z.lt_le_incl, pow10_gt0. unfold S; lia.
Qed.

(* ================================================================== *)
(* 4. N6 : comparison is exact                                         *)
(* ================================================================== *)

Lemma Qcompare_same_den : forall x y p, ((x # p) ?= (y # p))%Q = (x ?= y).
Proof.
  intros x y p. unfold Qcompare. cbn [Qnum Qden].
  symmetry. apply Zmult_compare_compat_r. reflexivity.
Qed.

Theorem dec_cmp_exact : forall a b, dec_cmp a b = (dec_value a ?= dec_value b)%Q.
Proof.
  intros a b. unfold dec_cmp.
  destruct (dec_align a b) as [[x y] s] eqn:E.
  destruct (dec_align_value a b x y s E) as [Va [Vb _]].
  rewrite Va, Vb, Qcompare_same_den.
  apply Zmult_compare_compat_r. apply Z.lt_gt, pow10_gt0. lia.
Qed.

(* ================================================================== *)
(* 5. N5 : the normal form keeps the value and depends on the value only *)
(* ================================================================== *)

Ltac Zify.zify_post_hook ::= Z.to_euclidean_division_equations.

(* a normal form: zero is (0, 0); otherwise the mantissa is not divisible by 10 *)
Definition dec_nf (d : Z * Z) : Prop :=
  d = (0, 0) \/ (fst d <> 0 /\ Z.rem (fst d) 10 <> 0).

Lemma dec_value_shift : forall q s, dec_value (q, s - 1) == dec_value (10 * q, s).
Proof.
  intros q s. set (S := Z.max s 0).
  rewrite (dec_value_scaled q (s - 1) S), (dec_value_scaled (10 * q) s S) by (unfold S; lia).
  apply Qeq_same_den.
  replace (S - (s - 1)) with (1 + (S - s)) by ring.
  rewrite pow10_split by (unfold S; lia). rewrite Z.pow_1_r. ring.
Qed.

Lemma strip10_value : forall fuel m s, dec_value (strip10 fuel m s) == dec_value (m, s).
Proof.
  induction fuel as [|f IH]; intros m s; cbn [strip10]; [reflexivity|].
  destruct (Z.eqb_spec (Z.rem m 10) 0) as [Hr|Hr]; [|reflexivity].
  rewrite IH, dec_value_shift.
  replace (10 * Z.quot m 10) with m by lia. reflexivity.
Qed.

Lemma strip10_nf : forall fuel m s, m <> 0 -> Z.abs m < 2 ^ Z.of_nat fuel ->
  fst (strip10 fuel m s) <> 0 /\ Z.rem (fst (strip10 fuel m s)) 10 <> 0.
Proof.
  induction fuel as [|f IH]; intros m s Hm Hlt.
  - cbn [Z.of_nat] in Hlt. rewrite Z.pow_0_r in Hlt. lia.
  - cbn [strip10].
    destruct (Z.eqb_spec (Z.rem m 10) 0) as [Hr|Hr]; [|cbn [fst]; split; assumption].
    rewrite Nat2Z.inj_succ, Z.pow_succ_r in Hlt by lia.
    apply IH; lia.
Qed.

Lemma size_nat_pos_gt : forall p, Zpos p < 2 ^ Z.of_nat (Pos.size_nat p).
Proof.
  induction p as [p IH|p IH|]; cbn [Pos.size_nat];
    rewrite Nat2Z.inj_succ, Z.pow_succ_r by lia; lia.
Qed.

Lemma abs_size_gt : forall m, Z.abs m < 2 ^ Z.of_nat (N.size_nat (Z.abs_N m)).
Proof.
  intros [|p|p]; cbn [Z.abs Z.abs_N N.size_nat Z.of_nat].
  - rewrite Z.pow_0_r. lia.
  - apply size_nat_pos_gt.
  - apply size_nat_pos_gt.
Qed.

Theorem dec_normalize_value : forall a, dec_value (dec_normalize a) == dec_value a.
Proof.
  intros [m s]. unfold dec_normalize.
  destruct (Z.eqb_spec m 0) as [Hm|Hm].
  - subst m. rewrite !dec_value_zero. reflexivity.
  - apply strip10_value.
Qed.

Theorem dec_normalize_nf : forall a, dec_nf (dec_normalize a).
Proof.
  intros [m s]. unfold dec_normalize, dec_nf.
  destruct (Z.eqb_spec m 0) as [Hm|Hm]; [left; reflexivity|right].
  apply strip10_nf; [exact Hm|apply abs_size_gt].
Qed.

Lemma nf_unique_le : forall m1 s1 m2 s2, s1 <= s2 ->
  Z.rem m1 10 <> 0 -> Z.rem m2 10 <> 0 ->
  dec_value (m1, s1) == dec_value (m2, s2) -> (m1, s1) = (m2, s2).
Proof.
  intros m1 s1 m2 s2 Hle H1 H2 HV.
  set (S := Z.max s2 0).
  rewrite (dec_value_scaled m1 s1 S), (dec_value_scaled m2 s2 S) in HV by (unfold S; lia).
  apply Qeq_same_den in HV.
  replace (S - s1) with ((s2 - s1) + (S - s2)) in HV by ring.
  rewrite pow10_split, Z.mul_assoc in HV by (unfold S; lia).
  apply Z.mul_cancel_r in HV; [|pose proof (pow10_gt0 (S - s2)); unfold S in *; lia].
  destruct (Z.eq_dec s1 s2) as [Es|Es].
  - subst s2. rewrite Z.sub_diag, Z.pow_0_r, Z.mul_1_r in HV. subst. reflexivity.
  - exfalso. replace (s2 - s1) with (1 + (s2 - s1 - 1)) in HV by ring.
    rewrite pow10_split, Z.pow_1_r in HV by lia.
    set (k := 10 ^ (s2 - s1 - 1)) in HV. lia.
Qed.

Theorem dec_nf_unique : forall a b, dec_nf a -> dec_nf b ->
  dec_value a == dec_value b -> a = b.
Proof.
  intros [m1 s1] [m2 s2] Ha Hb HV. unfold dec_nf in Ha, Hb. cbn [fst] in Ha, Hb.
  destruct Ha as [Ha|[Ha Ra]]; destruct Hb as [Hb|[Hb Rb]].
  - congruence.
  - exfalso. injection Ha as -> ->. rewrite dec_value_zero in HV.
    symmetry in HV. apply dec_value_zero_iff in HV. contradiction.
  - exfalso. injection Hb as -> ->. rewrite dec_value_zero in HV.
    apply dec_value_zero_iff in HV. contradiction.
  - destruct (Z.le_ge_cases s1 s2) as [Hle|Hle].
    + apply nf_unique_le; assumption.
    + symmetry. apply nf_unique_le; try assumption. symmetry. exact HV.
Qed.

Theorem dec_normalize_canonical : forall a b,
  dec_value a == dec_value b -> dec_normalize a = dec_normalize b.
Proof.
  intros a b HV. apply dec_nf_unique; try apply dec_normalize_nf.
  rewrite !dec_normalize_value. exact HV.
Qed.

(* the converse: the normal form determines the value *)
Corollary dec_normalize_eq_iff : forall a b,
  dec_normalize a = dec_normalize b <-> dec_value a == dec_value b.
Proof.
  intros a b. split; [|apply dec_normalize_canonical].
  intros H. rewrite <- (dec_normalize_value a), <- (dec_normalize_value b), H. reflexivity.
Qed.

Corollary dec_normalize_idem : forall a, dec_normalize (dec_normalize a) = dec_normalize a.
Proof. intros a. apply dec_normalize_canonical, dec_normalize_value. Qed.

(* ================================================================== *)
(* 6. N7 : consequences for sem_nas                                    *)
(* ================================================================== *)

Definition jstr (s : str) : option json := Some (JStr s).

Lemma of_dec_value : forall d d', dec_value d == dec_value d' -> of_dec d = of_dec d'.
Proof. intros d d' H. unfold of_dec. rewrite (dec_normalize_canonical d d' H). reflexivity. Qed.

Theorem sem_nas_add2 : forall s1 s2 a b,
  dec_parse s1 = Some a -> dec_parse s2 = Some b ->
  sem_nas FNas_add [jstr s1; jstr s2]
  = Some (Some (JStr (dec_show (dec_normalize (dec_add a b))))).
Proof.
  intros s1 s2 a b Ha Hb. unfold jstr.
  cbn [sem_nas fold_decs to_dec]. rewrite Ha, Hb. cbn [option_map].
  do 2 f_equal. apply of_dec_value.
  rewrite !dec_add_exact, dec_value_zero. ring.
Qed.

Theorem sem_nas_sub2 : forall s1 s2 a b,
  dec_parse s1 = Some a -> dec_parse s2 = Some b ->
  sem_nas FNas_sub_ [jstr s1; jstr s2]
  = Some (Some (JStr (dec_show (dec_normalize (dec_sub a b))))).
Proof.
  intros s1 s2 a b Ha Hb. unfold jstr.
  cbn [sem_nas]. unfold nas_sub, arg. cbn [nth_error to_dec]. rewrite Ha, Hb. reflexivity.
Qed.

(* unary minus *)
Theorem sem_nas_sub1 : forall s1 a,
  dec_parse s1 = Some a ->
  sem_nas FNas_sub_ [jstr s1] = Some (Some (of_dec (dec_sub (0, 0) a))) /\
  dec_value (dec_sub (0, 0) a) == - dec_value a.
Proof.
  intros s1 a Ha. unfold jstr. split.
  - cbn [sem_nas]. unfold nas_sub. cbn [to_dec]. rewrite Ha. reflexivity.
  - rewrite dec_sub_exact, dec_value_zero. ring.
Qed.

Theorem sem_nas_mul2 : forall s1 s2 a b,
  dec_parse s1 = Some a -> dec_parse s2 = Some b ->
  sem_nas FNas_mul [jstr s1; jstr s2]
  = Some (Some (JStr (dec_show (dec_normalize (dec_mul a b))))).
Proof.
  intros s1 s2 a b Ha Hb. unfold jstr.
  cbn [sem_nas fold_decs to_dec]. rewrite Ha, Hb. cbn [option_map].
  reflexivity.       (* dec_mul (1, 0) a is a: the "is one" shortcut *)
Qed.

Theorem sem_nas_abs1 : forall s1 a,
  dec_parse s1 = Some a ->
  sem_nas FNas_abs [jstr s1] = Some (Some (JStr (dec_show (dec_normalize (dec_abs a))))).
Proof.
  intros s1 a Ha. unfold jstr.
  cbn [sem_nas]. unfold nas_unary, arg. cbn [nth_error to_dec]. rewrite Ha. reflexivity.
Qed.

Theorem sem_nas_normalize1 : forall s1 a,
  dec_parse s1 = Some a ->
  sem_nas FNas_normalize [jstr s1] = Some (Some (JStr (dec_show (dec_normalize a)))).
Proof.
  intros s1 a Ha. unfold jstr.
  cbn [sem_nas]. unfold nas_unary, arg. cbn [nth_error to_dec]. rewrite Ha. reflexivity.
Qed.

(* "+" and "*" of any number of arguments: the exact sum / product of the values *)
Lemma fold_decs_spec : forall op vals ds acc,
  Forall2 (fun v d => to_dec v = Some d) vals ds ->
  fold_decs op acc vals = Some (fold_left op ds acc).
Proof.
  intros op vals ds acc H. revert acc.
  induction H as [|v d vals ds Hv _ IH]; intros acc; cbn [fold_decs fold_left]; [reflexivity|].
  rewrite Hv. apply IH.
Qed.

Lemma fold_add_value : forall ds acc,
  dec_value (fold_left dec_add ds acc) == fold_left Qplus (map dec_value ds) (dec_value acc).
Proof.
  induction ds as [|d ds IH]; intros acc; cbn [fold_left map]; [reflexivity|].
  rewrite IH. generalize (map dec_value ds) as l.
  pose proof (dec_add_exact acc d) as H. revert H.
  generalize (dec_value (dec_add acc d)) as x. generalize (dec_value acc + dec_value d)%Q as y.
  intros y x H l. revert x y H.
  induction l as [|q l IHl]; intros x y H; cbn [fold_left]; [exact H|].
  apply IHl. rewrite H. reflexivity.
Qed.

Lemma fold_mul_value : forall ds acc,
  dec_value (fold_left dec_mul ds acc) == fold_left Qmult (map dec_value ds) (dec_value acc).
Proof.
  induction ds as [|d ds IH]; intros acc; cbn [fold_left map]; [reflexivity|].
  rewrite IH. generalize (map dec_value ds) as l.
  pose proof (dec_mul_exact acc d) as H. revert H.
  generalize (dec_value (dec_mul acc d)) as x. generalize (dec_value acc * dec_value d)%Q as y.
  intros y x H l. revert x y H.
  induction l as [|q l IHl]; intros x y H; cbn [fold_left]; [exact H|].
  apply IHl. rewrite H. reflexivity.
Qed.

Theorem sem_nas_add_list : forall vals ds,
  Forall2 (fun v d => to_dec v = Some d) vals ds ->
  exists r, sem_nas FNas_add vals = Some (Some (of_dec r)) /\
            dec_value r == fold_left Qplus (map dec_value ds) 0%Q.
Proof.
  intros vals ds H. exists (fold_left dec_add ds (0, 0)). split.
  - cbn [sem_nas]. rewrite (fold_decs_spec dec_add vals ds (0, 0) H). reflexivity.
  - rewrite fold_add_value. reflexivity.
Qed.

Theorem sem_nas_mul_list : forall vals ds,
  Forall2 (fun v d => to_dec v = Some d) vals ds ->
  exists r, sem_nas FNas_mul vals = Some (Some (of_dec r)) /\
            dec_value r == fold_left Qmult (map dec_value ds) 1%Q.
Proof.
  intros vals ds H. exists (fold_left dec_mul ds (1, 0)). split.
  - cbn [sem_nas]. rewrite (fold_decs_spec dec_mul vals ds (1, 0) H). reflexivity.
  - rewrite fold_mul_value. reflexivity.
Qed.

(* the comparison functions *)
Definition nas_cmp_test (f : fn) : option (comparison -> bool) :=
  match f with
  | FNas_eq => Some (fun c => match c with Eq => true | _ => false end)
  | FNas_neq => Some (fun c => match c with Eq => false | _ => true end)
  | FNas_lt => Some (fun c => match c with Lt => true | _ => false end)
  | FNas_lte => Some (fun c => match c with Gt => false | _ => true end)
  | FNas_gt => Some (fun c => match c with Gt => true | _ => false end)
  | FNas_gte => Some (fun c => match c with Lt => false | _ => true end)
  | _ => None
  end.

Theorem sem_nas_compare : forall f t s1 s2 a b,
  nas_cmp_test f = Some t ->
  dec_parse s1 = Some a -> dec_parse s2 = Some b ->
  sem_nas f [jstr s1; jstr s2] = Some (Some (JBool (t (dec_value a ?= dec_value b)%Q))).
Proof.
  intros f t s1 s2 a b Ht Ha Hb. unfold jstr.
  destruct f; try discriminate Ht; injection Ht as <-;
    cbn [sem_nas]; unfold nas_compare, arg; cbn [nth_error to_dec]; rewrite Ha, Hb, dec_cmp_exact; reflexivity.
Qed.

(* the same, against the order relations of Q *)
Theorem sem_nas_compare_true : forall s1 s2 a b,
  dec_parse s1 = Some a -> dec_parse s2 = Some b ->
  let yes f := sem_nas f [jstr s1; jstr s2] = Some (Some (JBool true)) in
  (yes FNas_eq <-> dec_value a == dec_value b) /\
  (yes FNas_neq <-> ~ dec_value a == dec_value b) /\
  (yes FNas_lt <-> (dec_value a < dec_value b)%Q) /\
  (yes FNas_lte <-> (dec_value a <= dec_value b)%Q) /\
  (yes FNas_gt <-> (dec_value b < dec_value a)%Q) /\
  (yes FNas_gte <-> (dec_value b <= dec_value a)%Q).
Proof.
  intros s1 s2 a b Ha Hb yes. unfold yes.
  rewrite (sem_nas_compare FNas_eq _ s1 s2 a b eq_refl Ha Hb).
  rewrite (sem_nas_compare FNas_neq _ s1 s2 a b eq_refl Ha Hb).
  rewrite (sem_nas_compare FNas_lt _ s1 s2 a b eq_refl Ha Hb).
  rewrite (sem_nas_compare FNas_lte _ s1 s2 a b eq_refl Ha Hb).
  rewrite (sem_nas_compare FNas_gt _ s1 s2 a b eq_refl Ha Hb).
  rewrite (sem_nas_compare FNas_gte _ s1 s2 a b eq_refl Ha Hb).
  generalize (dec_value a) as x. generalize (dec_value b) as y. intros y x.
  destruct (Qcompare_spec x y) as [H|H|H]; unfold Qeq, Qlt, Qle in *;
    repeat split; intros; try reflexivity; try discriminate; try lia.
Qed.

(* spelling independence: the result depends on the values of the arguments only *)
Definition nas_binary (f : fn) : bool :=
  match f with
  | FNas_add | FNas_sub_ | FNas_mul
  | FNas_eq | FNas_neq | FNas_lt | FNas_lte | FNas_gt | FNas_gte => true
  | _ => false
  end.

Theorem sem_nas_spelling2 : forall f s1 s2 s1' s2' a b a' b',
  nas_binary f = true ->
  dec_parse s1 = Some a -> dec_parse s2 = Some b ->
  dec_parse s1' = Some a' -> dec_parse s2' = Some b' ->
  dec_value a == dec_value a' -> dec_value b == dec_value b' ->
  sem_nas f [jstr s1; jstr s2] = sem_nas f [jstr s1'; jstr s2'].
Proof.
  intros f s1 s2 s1' s2' a b a' b' Hf Ha Hb Ha' Hb' Va Vb.
  destruct f; try discriminate Hf;
    try (match goal with |- sem_nas ?f _ = _ =>
           rewrite (sem_nas_compare f _ s1 s2 a b eq_refl Ha Hb),
                   (sem_nas_compare f _ s1' s2' a' b' eq_refl Ha' Hb'), Va, Vb; reflexivity
         end).
  - rewrite (sem_nas_add2 s1 s2 a b Ha Hb), (sem_nas_add2 s1' s2' a' b' Ha' Hb').
    do 4 f_equal. apply dec_normalize_canonical. rewrite !dec_add_exact, Va, Vb. reflexivity.
  - rewrite (sem_nas_sub2 s1 s2 a b Ha Hb), (sem_nas_sub2 s1' s2' a' b' Ha' Hb').
    do 4 f_equal. apply dec_normalize_canonical. rewrite !dec_sub_exact, Va, Vb. reflexivity.
  - rewrite (sem_nas_mul2 s1 s2 a b Ha Hb), (sem_nas_mul2 s1' s2' a' b' Ha' Hb').
    do 4 f_equal. apply dec_normalize_canonical. rewrite !dec_mul_exact, Va, Vb. reflexivity.
Qed.

Theorem sem_nas_spelling1 : forall f s1 s1' a a',
  f = FNas_abs \/ f = FNas_normalize \/ f = FNas_sub_ ->
  dec_parse s1 = Some a -> dec_parse s1' = Some a' ->
  dec_value a == dec_value a' ->
  sem_nas f [jstr s1] = sem_nas f [jstr s1'].
Proof.
  intros f s1 s1' a a' Hf Ha Ha' Va. destruct Hf as [->|[->| ->]].
  - rewrite (sem_nas_abs1 s1 a Ha), (sem_nas_abs1 s1' a' Ha').
    do 4 f_equal. apply dec_normalize_canonical. rewrite !dec_abs_exact, Va. reflexivity.
  - rewrite (sem_nas_normalize1 s1 a Ha), (sem_nas_normalize1 s1' a' Ha').
    do 4 f_equal. apply dec_normalize_canonical. exact Va.
  - destruct (sem_nas_sub1 s1 a Ha) as [-> V1]. destruct (sem_nas_sub1 s1' a' Ha') as [-> V2].
    do 2 f_equal. apply of_dec_value. rewrite V1, V2, Va. reflexivity.
Qed.
