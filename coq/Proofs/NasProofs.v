(* NasProofs.v — the number-as-string functions (Model/FunsNas.v) compute exact decimal results.
   The value of a decimal (m, s) is the rational m * 10^(-s) (Coq's QArith, axiom free);
   "+", "-", "*", abs, normalise and the comparisons agree with exact rational arithmetic, and the
   normal form depends on the value only (spelling independence).
     1-2  dec_value, common scales            3  dec_add/sub/mul/abs_exact
     4    dec_cmp_exact                       5  dec_normalize_value / _nf / _canonical
     6    sem_nas: results of "+" "-" "*" abs "||" and the comparisons, spelling independence
     7    dec_show_parse: dec_parse reads back what dec_show writes (scale in the i64 range)
     8    examples by vm_compute              9  Print Assumptions (all closed) *)
From Coq Require Import String Ascii.
From Coq Require Import List NArith ZArith Bool Lia ZifyBool QArith Qabs.
From Jawk Require Import Base F64 Json Printer Fn FunBase FunsNas PrinterProofs.
Import ListNotations.
Local Open Scope Z_scope.

Local Arguments Z.pow : simpl never.
Local Arguments Z.mul : simpl never.
Local Arguments Z.add : simpl never.
Local Arguments Z.sub : simpl never.
Local Arguments Z.quot : simpl never.
Local Arguments Z.rem : simpl never.

(* ================================================================== *)
(* 1. the value of a decimal                                           *)
(* ================================================================== *)

Definition p10 (k : Z) : positive := Z.to_pos (10 ^ k).

Definition dec_value (d : Z * Z) : Q :=
  if 0 <=? snd d then fst d # p10 (snd d) else inject_Z (fst d * 10 ^ (- snd d)).

Lemma pow10_gt0 : forall k, 0 <= k -> 0 < 10 ^ k.
Proof. intros k Hk. apply Z.pow_pos_nonneg; lia. Qed.

Lemma p10_spec : forall k, 0 <= k -> Zpos (p10 k) = 10 ^ k.
Proof. intros k Hk. unfold p10. apply Z2Pos.id. apply pow10_gt0; exact Hk. Qed.

Lemma pow10_split : forall a b, 0 <= a -> 0 <= b -> 10 ^ (a + b) = 10 ^ a * 10 ^ b.
Proof. intros a b Ha Hb. apply Z.pow_add_r; assumption. Qed.

(* the value written with any sufficiently large non-negative scale *)
Lemma dec_value_scaled : forall m s S, s <= S -> 0 <= S ->
  dec_value (m, s) == (m * 10 ^ (S - s)) # p10 S.
Proof.
  intros m s S Hs HS. unfold dec_value. cbn [fst snd].
  destruct (Z.leb_spec 0 s) as [H0|H0].
  - unfold Qeq. cbn [Qnum Qden]. rewrite !p10_spec by lia.
    replace S with ((S - s) + s) at 1 by ring.
    rewrite pow10_split by lia. ring.
  - unfold Qeq, inject_Z. cbn [Qnum Qden]. rewrite p10_spec by lia.
    replace (S - s) with (- s + S) by ring.
    rewrite pow10_split by lia. ring.
Qed.

Lemma Qeq_same_den : forall x y p, x # p == y # p <-> x = y.
Proof.
  intros x y p. unfold Qeq. cbn [Qnum Qden]. split.
  - intros H. apply Z.mul_cancel_r in H; [exact H|discriminate].
  - intros H. subst. reflexivity.
Qed.

Lemma Qplus_same_den : forall x y p, (x # p) + (y # p) == (x + y) # p.
Proof.
  intros x y p. unfold Qeq, Qplus. cbn [Qnum Qden]. rewrite Pos2Z.inj_mul. ring.
Qed.

Lemma Qopp_den : forall x p, - (x # p) == (- x) # p.
Proof. intros x p. reflexivity. Qed.

Lemma Qminus_same_den : forall x y p, (x # p) - (y # p) == (x - y) # p.
Proof.
  intros x y p. unfold Qminus. rewrite Qopp_den, Qplus_same_den.
  apply Qeq_same_den. ring.
Qed.

Lemma Qmult_p10 : forall x y S T, 0 <= S -> 0 <= T ->
  (x # p10 S) * (y # p10 T) == (x * y) # p10 (S + T).
Proof.
  intros x y S T HS HT. unfold Qeq, Qmult. cbn [Qnum Qden].
  rewrite Pos2Z.inj_mul, !p10_spec by lia. rewrite pow10_split by lia. ring.
Qed.

Lemma dec_value_zero : forall s, dec_value (0, s) == 0.
Proof.
  intros s. rewrite (dec_value_scaled 0 s (Z.max s 0)) by lia.
  unfold Qeq. cbn [Qnum Qden]. ring.
Qed.

Lemma dec_value_zero_iff : forall m s, dec_value (m, s) == 0 <-> m = 0.
Proof.
  intros m s. rewrite (dec_value_scaled m s (Z.max s 0)) by lia.
  unfold Qeq. cbn [Qnum Qden]. rewrite Z.mul_1_r, Z.mul_0_l.
  pose proof (pow10_gt0 (Z.max s 0 - s)) as Hp.
  split; intros H; [|subst; ring].
  apply Z.mul_eq_0 in H. destruct H as [H|H]; [exact H|lia].
Qed.

Lemma dec_value_fst0 : forall a, fst a = 0 -> dec_value a == 0.
Proof. intros [m s] H. cbn [fst] in H. subst. apply dec_value_zero. Qed.

(* ================================================================== *)
(* 2. alignment                                                        *)
(* ================================================================== *)

(* both values at one common scale S *)
Lemma dec_align_value : forall a b x y s, dec_align a b = (x, y, s) ->
  let S := Z.max s 0 in
  dec_value a == (x * 10 ^ (S - s)) # p10 S /\
  dec_value b == (y * 10 ^ (S - s)) # p10 S /\
  (forall z, dec_value (z, s) == (z * 10 ^ (S - s)) # p10 S).
Proof.
  intros [ma sa] [mb sb] x y s H S. unfold dec_align, pow10 in H.
  injection H as Hx Hy Hs. subst x y.
  assert (Hsa : sa <= s) by lia. assert (Hsb : sb <= s) by lia.
  assert (HS : s <= S /\ 0 <= S) by (unfold S; lia). destruct HS as [HS1 HS2].
  rewrite Hs. split; [|split].
  - rewrite (dec_value_scaled ma sa S) by lia. apply Qeq_same_den.
    replace (S - sa) with ((s - sa) + (S - s)) by ring.
    rewrite pow10_split by lia. ring.
  - rewrite (dec_value_scaled mb sb S) by lia. apply Qeq_same_den.
    replace (S - sb) with ((s - sb) + (S - s)) by ring.
    rewrite pow10_split by lia. ring.
  - intros z. apply dec_value_scaled; lia.
Qed.

(* ================================================================== *)
(* 3. N1 - N4 : "+", "-", "*", abs are exact                            *)
(* ================================================================== *)

Theorem dec_add_exact : forall a b, dec_value (dec_add a b) == dec_value a + dec_value b.
Proof.
  intros a b. unfold dec_add.
  destruct (Z.eqb_spec (fst b) 0) as [Hb|Hb].
  { rewrite (dec_value_fst0 b Hb). ring. }
  destruct (Z.eqb_spec (fst a) 0) as [Ha|Ha].
  { rewrite (dec_value_fst0 a Ha). ring. }
  destruct (dec_align a b) as [[x y] s] eqn:E.
  destruct (dec_align_value a b x y s E) as [Va [Vb Vz]].
  rewrite Va, Vb, Vz, Qplus_same_den. apply Qeq_same_den. ring.
Qed.

Theorem dec_sub_exact : forall a b, dec_value (dec_sub a b) == dec_value a - dec_value b.
Proof.
  intros a b. unfold dec_sub.
  destruct (Z.eqb_spec (fst b) 0) as [Hb|Hb].
  { rewrite (dec_value_fst0 b Hb). ring. }
  destruct (Z.eqb_spec (fst a) 0) as [Ha|Ha].
  { rewrite (dec_value_fst0 a Ha). destruct b as [mb sb]. cbn [fst snd].
    set (S := Z.max sb 0).
    rewrite (dec_value_scaled (- mb) sb S), (dec_value_scaled mb sb S) by (unfold S; lia).
    unfold Qminus. rewrite Qplus_0_l, Qopp_den. apply Qeq_same_den. ring. }
  destruct (dec_align a b) as [[x y] s] eqn:E.
  destruct (dec_align_value a b x y s E) as [Va [Vb Vz]].
  rewrite Va, Vb, Vz, Qminus_same_den. apply Qeq_same_den. ring.
Qed.

Lemma dec_is_one_value : forall a, dec_is_one a = true -> dec_value a == 1.
Proof.
  intros [m s] H. unfold dec_is_one, pow10 in H.
  apply andb_true_iff in H. destruct H as [H Hm].
  apply andb_true_iff in H. destruct H as [H0 H38].
  apply Z.leb_le in H0. apply Z.eqb_eq in Hm. subst m.
  rewrite (dec_value_scaled (10 ^ s) s s) by lia.
  unfold Qeq. cbn [Qnum Qden]. rewrite p10_spec by lia.
  rewrite Z.sub_diag, Z.pow_0_r. ring.
Qed.

Theorem dec_mul_exact : forall a b, dec_value (dec_mul a b) == dec_value a * dec_value b.
Proof.
  intros a b. unfold dec_mul.
  destruct (dec_is_one a) eqn:Ha.
  { rewrite (dec_is_one_value a Ha). ring. }
  destruct (dec_is_one b) eqn:Hb.
  { rewrite (dec_is_one_value b Hb). ring. }
  destruct a as [ma sa], b as [mb sb]. cbn [fst snd].
  set (Sa := Z.max sa 0). set (Sb := Z.max sb 0).
  rewrite (dec_value_scaled ma sa Sa), (dec_value_scaled mb sb Sb) by (unfold Sa, Sb; lia).
  rewrite (dec_value_scaled (ma * mb) (sa + sb) (Sa + Sb)) by (unfold Sa, Sb; lia).
  rewrite Qmult_p10 by (unfold Sa, Sb; lia). apply Qeq_same_den.
  replace (Sa + Sb - (sa + sb)) with ((Sa - sa) + (Sb - sb)) by ring.
  rewrite pow10_split by (unfold Sa, Sb; lia). ring.
Qed.

Theorem dec_abs_exact : forall a, dec_value (dec_abs a) == Qabs (dec_value a).
Proof.
  intros [m s]. unfold dec_abs. cbn [fst snd].
  set (S := Z.max s 0).
  rewrite (dec_value_scaled (Z.abs m) s S), (dec_value_scaled m s S) by (unfold S; lia).
  unfold Qabs. apply Qeq_same_den.
  rewrite Z.abs_mul. f_equal. symmetry. apply Z.abs_eq.
  apply Z.lt_le_incl, pow10_gt0. unfold S; lia.
Qed.

(* ================================================================== *)
(* 4. N6 : comparison is exact                                         *)
(* ================================================================== *)

Lemma Qcompare_same_den : forall x y p, ((x # p) ?= (y # p))%Q = (x ?= y).
Proof.
  intros x y p. unfold Qcompare. cbn [Qnum Qden].
  symmetry. apply Zmult_compare_compat_r. reflexivity.
Qed.

Theorem dec_cmp_exact : forall a b, dec_cmp a b = (dec_value a ?= dec_value b)%Q.
Proof.
  intros a b. unfold dec_cmp.
  destruct (dec_align a b) as [[x y] s] eqn:E.
  destruct (dec_align_value a b x y s E) as [Va [Vb _]].
  rewrite Va, Vb, Qcompare_same_den.
  apply Zmult_compare_compat_r. apply Z.lt_gt, pow10_gt0. lia.
Qed.

(* ================================================================== *)
(* 5. N5 : the normal form keeps the value and depends on the value only *)
(* ================================================================== *)

Ltac Zify.zify_post_hook ::= Z.to_euclidean_division_equations.

(* a normal form: zero is (0, 0); otherwise the mantissa is not divisible by 10 *)
Definition dec_nf (d : Z * Z) : Prop :=
  d = (0, 0) \/ (fst d <> 0 /\ Z.rem (fst d) 10 <> 0).

Lemma dec_value_shift : forall q s, dec_value (q, s - 1) == dec_value (10 * q, s).
Proof.
  intros q s. set (S := Z.max s 0).
  rewrite (dec_value_scaled q (s - 1) S), (dec_value_scaled (10 * q) s S) by (unfold S; lia).
  apply Qeq_same_den.
  replace (S - (s - 1)) with (1 + (S - s)) by ring.
  rewrite pow10_split by (unfold S; lia). rewrite Z.pow_1_r. ring.
Qed.

Lemma strip10_value : forall fuel m s, dec_value (strip10 fuel m s) == dec_value (m, s).
Proof.
  induction fuel as [|f IH]; intros m s; cbn [strip10]; [reflexivity|].
  destruct (Z.eqb_spec (Z.rem m 10) 0) as [Hr|Hr]; [|reflexivity].
  rewrite IH, dec_value_shift.
  replace (10 * Z.quot m 10) with m by lia. reflexivity.
Qed.

Lemma strip10_nf : forall fuel m s, m <> 0 -> Z.abs m < 2 ^ Z.of_nat fuel ->
  fst (strip10 fuel m s) <> 0 /\ Z.rem (fst (strip10 fuel m s)) 10 <> 0.
Proof.
  induction fuel as [|f IH]; intros m s Hm Hlt.
  - cbn [Z.of_nat] in Hlt. rewrite Z.pow_0_r in Hlt. lia.
  - cbn [strip10].
    destruct (Z.eqb_spec (Z.rem m 10) 0) as [Hr|Hr]; [|cbn [fst]; split; assumption].
    rewrite Nat2Z.inj_succ, Z.pow_succ_r in Hlt by lia.
    apply IH; lia.
Qed.

Lemma size_nat_pos_gtZ : forall p, Zpos p < 2 ^ Z.of_nat (Pos.size_nat p).
Proof.
  induction p as [p IH|p IH|]; cbn [Pos.size_nat];
    rewrite Nat2Z.inj_succ, Z.pow_succ_r by lia; lia.
Qed.

Lemma abs_size_gt : forall m, Z.abs m < 2 ^ Z.of_nat (N.size_nat (Z.abs_N m)).
Proof.
  intros [|p|p]; cbn [Z.abs Z.abs_N N.size_nat Z.of_nat].
  - rewrite Z.pow_0_r. lia.
  - apply size_nat_pos_gtZ.
  - apply size_nat_pos_gtZ.
Qed.

Theorem dec_normalize_value : forall a, dec_value (dec_normalize a) == dec_value a.
Proof.
  intros [m s]. unfold dec_normalize.
  destruct (Z.eqb_spec m 0) as [Hm|Hm].
  - subst m. rewrite !dec_value_zero. reflexivity.
  - apply strip10_value.
Qed.

Theorem dec_normalize_nf : forall a, dec_nf (dec_normalize a).
Proof.
  intros [m s]. unfold dec_normalize, dec_nf.
  destruct (Z.eqb_spec m 0) as [Hm|Hm]; [left; reflexivity|right].
  apply strip10_nf; [exact Hm|apply abs_size_gt].
Qed.

Lemma nf_unique_le : forall m1 s1 m2 s2, s1 <= s2 ->
  Z.rem m1 10 <> 0 -> Z.rem m2 10 <> 0 ->
  dec_value (m1, s1) == dec_value (m2, s2) -> (m1, s1) = (m2, s2).
Proof.
  intros m1 s1 m2 s2 Hle H1 H2 HV.
  set (S := Z.max s2 0).
  rewrite (dec_value_scaled m1 s1 S), (dec_value_scaled m2 s2 S) in HV by (unfold S; lia).
  apply Qeq_same_den in HV.
  replace (S - s1) with ((s2 - s1) + (S - s2)) in HV by ring.
  rewrite pow10_split, Z.mul_assoc in HV by (unfold S; lia).
  apply Z.mul_cancel_r in HV; [|pose proof (pow10_gt0 (S - s2)); unfold S in *; lia].
  destruct (Z.eq_dec s1 s2) as [Es|Es].
  - subst s2. rewrite Z.sub_diag, Z.pow_0_r, Z.mul_1_r in HV. subst. reflexivity.
  - exfalso. replace (s2 - s1) with (1 + (s2 - s1 - 1)) in HV by ring.
    rewrite pow10_split, Z.pow_1_r in HV by lia.
    set (k := 10 ^ (s2 - s1 - 1)) in HV. lia.
Qed.

Theorem dec_nf_unique : forall a b, dec_nf a -> dec_nf b ->
  dec_value a == dec_value b -> a = b.
Proof.
  intros [m1 s1] [m2 s2] Ha Hb HV. unfold dec_nf in Ha, Hb. cbn [fst] in Ha, Hb.
  destruct Ha as [Ha|[Ha Ra]]; destruct Hb as [Hb|[Hb Rb]].
  - congruence.
  - exfalso. injection Ha as -> ->. rewrite dec_value_zero in HV.
    symmetry in HV. apply dec_value_zero_iff in HV. contradiction.
  - exfalso. injection Hb as -> ->. rewrite dec_value_zero in HV.
    apply dec_value_zero_iff in HV. contradiction.
  - destruct (Z.le_ge_cases s1 s2) as [Hle|Hle].
    + apply nf_unique_le; assumption.
    + symmetry. apply nf_unique_le; try assumption. symmetry. exact HV.
Qed.

Theorem dec_normalize_canonical : forall a b,
  dec_value a == dec_value b -> dec_normalize a = dec_normalize b.
Proof.
  intros a b HV. apply dec_nf_unique; try apply dec_normalize_nf.
  rewrite !dec_normalize_value. exact HV.
Qed.

(* the converse: the normal form determines the value *)
Corollary dec_normalize_eq_iff : forall a b,
  dec_normalize a = dec_normalize b <-> dec_value a == dec_value b.
Proof.
  intros a b. split; [|apply dec_normalize_canonical].
  intros H. rewrite <- (dec_normalize_value a), <- (dec_normalize_value b), H. reflexivity.
Qed.

Corollary dec_normalize_idem : forall a, dec_normalize (dec_normalize a) = dec_normalize a.
Proof. intros a. apply dec_normalize_canonical, dec_normalize_value. Qed.

(* ================================================================== *)
(* 6. N7 : consequences for sem_nas                                    *)
(* ================================================================== *)

Definition jstr (s : str) : option json := Some (JStr s).

Lemma of_dec_value : forall d d', dec_value d == dec_value d' -> of_dec d = of_dec d'.
Proof. intros d d' H. unfold of_dec. rewrite (dec_normalize_canonical d d' H). reflexivity. Qed.

Theorem sem_nas_add2 : forall s1 s2 a b,
  dec_parse s1 = Some a -> dec_parse s2 = Some b ->
  sem_nas FNas_add [jstr s1; jstr s2]
  = Some (Some (JStr (dec_show (dec_normalize (dec_add a b))))).
Proof.
  intros s1 s2 a b Ha Hb. unfold jstr.
  cbn [sem_nas fold_decs to_dec]. rewrite Ha, Hb. cbn [option_map].
  do 2 f_equal. apply of_dec_value.
  rewrite !dec_add_exact, dec_value_zero. ring.
Qed.

Theorem sem_nas_sub2 : forall s1 s2 a b,
  dec_parse s1 = Some a -> dec_parse s2 = Some b ->
  sem_nas FNas_sub_ [jstr s1; jstr s2]
  = Some (Some (JStr (dec_show (dec_normalize (dec_sub a b))))).
Proof.
  intros s1 s2 a b Ha Hb. unfold jstr.
  cbn [sem_nas]. unfold nas_sub, arg. cbn [nth_error to_dec]. rewrite Ha, Hb. reflexivity.
Qed.

(* unary minus *)
Theorem sem_nas_sub1 : forall s1 a,
  dec_parse s1 = Some a ->
  sem_nas FNas_sub_ [jstr s1] = Some (Some (of_dec (dec_sub (0, 0) a))) /\
  dec_value (dec_sub (0, 0) a) == - dec_value a.
Proof.
  intros s1 a Ha. unfold jstr. split.
  - cbn [sem_nas]. unfold nas_sub. cbn [to_dec]. rewrite Ha. reflexivity.
  - rewrite dec_sub_exact, dec_value_zero. ring.
Qed.

Theorem sem_nas_mul2 : forall s1 s2 a b,
  dec_parse s1 = Some a -> dec_parse s2 = Some b ->
  sem_nas FNas_mul [jstr s1; jstr s2]
  = Some (Some (JStr (dec_show (dec_normalize (dec_mul a b))))).
Proof.
  intros s1 s2 a b Ha Hb. unfold jstr.
  cbn [sem_nas fold_decs to_dec]. rewrite Ha, Hb. cbn [option_map].
  reflexivity.       (* dec_mul (1, 0) a is a: the "is one" shortcut *)
Qed.

Theorem sem_nas_abs1 : forall s1 a,
  dec_parse s1 = Some a ->
  sem_nas FNas_abs [jstr s1] = Some (Some (JStr (dec_show (dec_normalize (dec_abs a))))).
Proof.
  intros s1 a Ha. unfold jstr.
  cbn [sem_nas]. unfold nas_unary, arg. cbn [nth_error to_dec]. rewrite Ha. reflexivity.
Qed.

Theorem sem_nas_normalize1 : forall s1 a,
  dec_parse s1 = Some a ->
  sem_nas FNas_normalize [jstr s1] = Some (Some (JStr (dec_show (dec_normalize a)))).
Proof.
  intros s1 a Ha. unfold jstr.
  cbn [sem_nas]. unfold nas_unary, arg. cbn [nth_error to_dec]. rewrite Ha. reflexivity.
Qed.

(* "+" and "*" of any number of arguments: the exact sum / product of the values *)
Lemma fold_decs_spec : forall op vals ds acc,
  Forall2 (fun v d => to_dec v = Some d) vals ds ->
  fold_decs op acc vals = Some (fold_left op ds acc).
Proof.
  intros op vals ds acc H. revert acc.
  induction H as [|v d vals ds Hv _ IH]; intros acc; cbn [fold_decs fold_left]; [reflexivity|].
  rewrite Hv. apply IH.
Qed.

Lemma fold_add_value : forall ds acc,
  dec_value (fold_left dec_add ds acc) == fold_left Qplus (map dec_value ds) (dec_value acc).
Proof.
  induction ds as [|d ds IH]; intros acc; cbn [fold_left map]; [reflexivity|].
  rewrite IH. generalize (map dec_value ds) as l.
  pose proof (dec_add_exact acc d) as H. revert H.
  generalize (dec_value (dec_add acc d)) as x. generalize (dec_value acc + dec_value d)%Q as y.
  intros y x H l. revert x y H.
  induction l as [|q l IHl]; intros x y H; cbn [fold_left]; [exact H|].
  apply IHl. rewrite H. reflexivity.
Qed.

Lemma fold_mul_value : forall ds acc,
  dec_value (fold_left dec_mul ds acc) == fold_left Qmult (map dec_value ds) (dec_value acc).
Proof.
  induction ds as [|d ds IH]; intros acc; cbn [fold_left map]; [reflexivity|].
  rewrite IH. generalize (map dec_value ds) as l.
  pose proof (dec_mul_exact acc d) as H. revert H.
  generalize (dec_value (dec_mul acc d)) as x. generalize (dec_value acc * dec_value d)%Q as y.
  intros y x H l. revert x y H.
  induction l as [|q l IHl]; intros x y H; cbn [fold_left]; [exact H|].
  apply IHl. rewrite H. reflexivity.
Qed.

Theorem sem_nas_add_list : forall vals ds,
  Forall2 (fun v d => to_dec v = Some d) vals ds ->
  exists r, sem_nas FNas_add vals = Some (Some (of_dec r)) /\
            dec_value r == fold_left Qplus (map dec_value ds) 0%Q.
Proof.
  intros vals ds H. exists (fold_left dec_add ds (0, 0)). split.
  - cbn [sem_nas]. rewrite (fold_decs_spec dec_add vals ds (0, 0) H). reflexivity.
  - rewrite fold_add_value. reflexivity.
Qed.

Theorem sem_nas_mul_list : forall vals ds,
  Forall2 (fun v d => to_dec v = Some d) vals ds ->
  exists r, sem_nas FNas_mul vals = Some (Some (of_dec r)) /\
            dec_value r == fold_left Qmult (map dec_value ds) 1%Q.
Proof.
  intros vals ds H. exists (fold_left dec_mul ds (1, 0)). split.
  - cbn [sem_nas]. rewrite (fold_decs_spec dec_mul vals ds (1, 0) H). reflexivity.
  - rewrite fold_mul_value. reflexivity.
Qed.

(* the comparison functions *)
Definition nas_cmp_test (f : fn) : option (comparison -> bool) :=
  match f with
  | FNas_eq => Some (fun c => match c with Eq => true | _ => false end)
  | FNas_neq => Some (fun c => match c with Eq => false | _ => true end)
  | FNas_lt => Some (fun c => match c with Lt => true | _ => false end)
  | FNas_lte => Some (fun c => match c with Gt => false | _ => true end)
  | FNas_gt => Some (fun c => match c with Gt => true | _ => false end)
  | FNas_gte => Some (fun c => match c with Lt => false | _ => true end)
  | _ => None
  end.

Theorem sem_nas_compare : forall f t s1 s2 a b,
  nas_cmp_test f = Some t ->
  dec_parse s1 = Some a -> dec_parse s2 = Some b ->
  sem_nas f [jstr s1; jstr s2] = Some (Some (JBool (t (dec_value a ?= dec_value b)%Q))).
Proof.
  intros f t s1 s2 a b Ht Ha Hb. unfold jstr.
  destruct f; try discriminate Ht; injection Ht as <-;
    cbn [sem_nas]; unfold nas_compare, arg; cbn [nth_error to_dec]; rewrite Ha, Hb, dec_cmp_exact; reflexivity.
Qed.

(* the same, against the order relations of Q *)
Theorem sem_nas_compare_true : forall s1 s2 a b,
  dec_parse s1 = Some a -> dec_parse s2 = Some b ->
  let yes f := sem_nas f [jstr s1; jstr s2] = Some (Some (JBool true)) in
  (yes FNas_eq <-> dec_value a == dec_value b) /\
  (yes FNas_neq <-> ~ dec_value a == dec_value b) /\
  (yes FNas_lt <-> (dec_value a < dec_value b)%Q) /\
  (yes FNas_lte <-> (dec_value a <= dec_value b)%Q) /\
  (yes FNas_gt <-> (dec_value b < dec_value a)%Q) /\
  (yes FNas_gte <-> (dec_value b <= dec_value a)%Q).
Proof.
  intros s1 s2 a b Ha Hb yes. unfold yes.
  rewrite (sem_nas_compare FNas_eq _ s1 s2 a b eq_refl Ha Hb).
  rewrite (sem_nas_compare FNas_neq _ s1 s2 a b eq_refl Ha Hb).
  rewrite (sem_nas_compare FNas_lt _ s1 s2 a b eq_refl Ha Hb).
  rewrite (sem_nas_compare FNas_lte _ s1 s2 a b eq_refl Ha Hb).
  rewrite (sem_nas_compare FNas_gt _ s1 s2 a b eq_refl Ha Hb).
  rewrite (sem_nas_compare FNas_gte _ s1 s2 a b eq_refl Ha Hb).
  generalize (dec_value a) as x. generalize (dec_value b) as y. intros y x.
  destruct (Qcompare_spec x y) as [H|H|H]; unfold Qeq, Qlt, Qle in *;
    repeat split; intros; try reflexivity; try discriminate; try lia.
Qed.

(* spelling independence: the result depends on the values of the arguments only *)
Definition nas_binary (f : fn) : bool :=
  match f with
  | FNas_add | FNas_sub_ | FNas_mul
  | FNas_eq | FNas_neq | FNas_lt | FNas_lte | FNas_gt | FNas_gte => true
  | _ => false
  end.

Theorem sem_nas_spelling2 : forall f s1 s2 s1' s2' a b a' b',
  nas_binary f = true ->
  dec_parse s1 = Some a -> dec_parse s2 = Some b ->
  dec_parse s1' = Some a' -> dec_parse s2' = Some b' ->
  dec_value a == dec_value a' -> dec_value b == dec_value b' ->
  sem_nas f [jstr s1; jstr s2] = sem_nas f [jstr s1'; jstr s2'].
Proof.
  intros f s1 s2 s1' s2' a b a' b' Hf Ha Hb Ha' Hb' Va Vb.
  destruct f; try discriminate Hf;
    try (match goal with |- sem_nas ?f _ = _ =>
           rewrite (sem_nas_compare f _ s1 s2 a b eq_refl Ha Hb),
                   (sem_nas_compare f _ s1' s2' a' b' eq_refl Ha' Hb'), Va, Vb; reflexivity
         end).
  - rewrite (sem_nas_add2 s1 s2 a b Ha Hb), (sem_nas_add2 s1' s2' a' b' Ha' Hb').
    do 4 f_equal. apply dec_normalize_canonical. rewrite !dec_add_exact, Va, Vb. reflexivity.
  - rewrite (sem_nas_sub2 s1 s2 a b Ha Hb), (sem_nas_sub2 s1' s2' a' b' Ha' Hb').
    do 4 f_equal. apply dec_normalize_canonical. rewrite !dec_sub_exact, Va, Vb. reflexivity.
  - rewrite (sem_nas_mul2 s1 s2 a b Ha Hb), (sem_nas_mul2 s1' s2' a' b' Ha' Hb').
    do 4 f_equal. apply dec_normalize_canonical. rewrite !dec_mul_exact, Va, Vb. reflexivity.
Qed.

Theorem sem_nas_spelling1 : forall f s1 s1' a a',
  f = FNas_abs \/ f = FNas_normalize \/ f = FNas_sub_ ->
  dec_parse s1 = Some a -> dec_parse s1' = Some a' ->
  dec_value a == dec_value a' ->
  sem_nas f [jstr s1] = sem_nas f [jstr s1'].
Proof.
  intros f s1 s1' a a' Hf Ha Ha' Va. destruct Hf as [->|[->| ->]].
  - rewrite (sem_nas_abs1 s1 a Ha), (sem_nas_abs1 s1' a' Ha').
    do 4 f_equal. apply dec_normalize_canonical. rewrite !dec_abs_exact, Va. reflexivity.
  - rewrite (sem_nas_normalize1 s1 a Ha), (sem_nas_normalize1 s1' a' Ha').
    do 4 f_equal. apply dec_normalize_canonical. exact Va.
  - destruct (sem_nas_sub1 s1 a Ha) as [-> V1]. destruct (sem_nas_sub1 s1' a' Ha') as [-> V2].
    do 2 f_equal. apply of_dec_value. rewrite V1, V2, Va. reflexivity.
Qed.

(* ================================================================== *)
(* 7. N8 : dec_parse reads back what dec_show writes                   *)
(* ================================================================== *)

(* dec_parse once the exponent is known *)
Definition parse_base (base : str) (ev : Z) : option (Z * Z) :=
  match base with
  | [] => None
  | _ :: _ =>
      let '(lead, tr) := split_first is_dot base in
      let '(digits, off) :=
        match tr with
        | None => (base, 0)
        | Some [] => (lead, 0)
        | Some trail =>
            (lead ++ trail, Z.of_nat (length (filter (fun c => negb (is_us c)) trail)))
        end in
      let scale := off - ev in
      if fits_i64 scale then
        match bigint_of_str digits with
        | Some m => Some (m, scale)
        | None => None
        end
      else None
  end.

Lemma dec_parse_unfold : forall s,
  dec_parse s =
  let '(base, ex) := split_first is_exp_sep s in
  match (match ex with None => Some 0 | Some e => i128_of_str e end) with
  | None => None
  | Some ev => parse_base base ev
  end.
Proof. intros s. reflexivity. Qed.

Lemma split_first_app : forall p l1 c l2,
  forallb (fun x => negb (p x)) l1 = true -> p c = true ->
  split_first p (l1 ++ c :: l2) = (l1, Some l2).
Proof.
  intros p l1 c l2 H1 Hc. induction l1 as [|x l1 IH]; cbn [app split_first].
  - rewrite Hc. reflexivity.
  - cbn [forallb] in H1. apply andb_true_iff in H1. destruct H1 as [Hx H1].
    apply negb_true_iff in Hx. rewrite Hx, (IH H1). reflexivity.
Qed.

Lemma split_first_none : forall p l,
  forallb (fun x => negb (p x)) l = true -> split_first p l = (l, None).
Proof.
  intros p l H1. induction l as [|x l IH]; cbn [split_first]; [reflexivity|].
  cbn [forallb] in H1. apply andb_true_iff in H1. destruct H1 as [Hx H1].
  apply negb_true_iff in Hx. rewrite Hx, (IH H1). reflexivity.
Qed.

Lemma forallb_impl : forall (p q : N -> bool) l,
  (forall x, p x = true -> q x = true) -> forallb p l = true -> forallb q l = true.
Proof.
  intros p q l Hpq. induction l as [|x l IH]; cbn [forallb]; [reflexivity|].
  intros H. apply andb_true_iff in H. destruct H as [Hx H].
  rewrite (Hpq x Hx), (IH H). reflexivity.
Qed.

Lemma is_digit_bounds : forall c, is_digit c = true -> (48 <= c <= 57)%N.
Proof.
  intros c H. unfold is_digit in H. apply andb_true_iff in H. destruct H as [H1 H2].
  apply N.leb_le in H1. apply N.leb_le in H2. lia.
Qed.

Lemma digit_neq : forall c k, is_digit c = true -> (k < 48 \/ 57 < k)%N -> (c =? k)%N = false.
Proof. intros c k H Hk. apply is_digit_bounds in H. apply N.eqb_neq. lia. Qed.

Lemma digit_not_exp : forall c, is_digit c = true -> negb (is_exp_sep c) = true.
Proof.
  intros c H. unfold is_exp_sep. rewrite !(digit_neq c _ H) by lia. reflexivity.
Qed.
Lemma digit_not_dot : forall c, is_digit c = true -> negb (is_dot c) = true.
Proof. intros c H. unfold is_dot. rewrite (digit_neq c _ H) by lia. reflexivity. Qed.
Lemma digit_not_us : forall c, is_digit c = true -> negb (is_us c) = true.
Proof. intros c H. unfold is_us. rewrite (digit_neq c _ H) by lia. reflexivity. Qed.
Lemma digit_digit_or_us : forall c, is_digit c = true -> is_digit_or_us c = true.
Proof. intros c H. unfold is_digit_or_us. rewrite H. reflexivity. Qed.

Lemma filter_all : forall (p : N -> bool) l, forallb p l = true -> filter p l = l.
Proof.
  intros p l. induction l as [|x l IH]; cbn [forallb filter]; [reflexivity|].
  intros H. apply andb_true_iff in H. destruct H as [Hx H]. rewrite Hx, (IH H). reflexivity.
Qed.

(* ---- digit strings ---- *)

Lemma digits_of_N_alld : forall n, forallb is_digit (digits_of_N n) = true.
Proof.
  intros n. apply forallb_forall. intros x Hx.
  pose proof (dig_rep_digits _ _ (digits_of_N_rep n)) as H.
  rewrite Forall_forall in H. apply H. exact Hx.
Qed.

Lemma digits_of_N_cons : forall n, exists d t, digits_of_N n = d :: t.
Proof.
  intros n. destruct (dig_rep_head _ _ (digits_of_N_rep n)) as [d [t [E _]]].
  exists d, t. exact E.
Qed.

Lemma N_of_digits_acc_app : forall l1 l2 a,
  N_of_digits_acc (l1 ++ l2) a = N_of_digits_acc l2 (N_of_digits_acc l1 a).
Proof. induction l1 as [|x l1 IH]; intros l2 a; cbn [app N_of_digits_acc]; auto. Qed.

Lemma N_of_digits_acc_zeros : forall k a,
  Z.of_N (N_of_digits_acc (repeat 48%N k) a) = Z.of_N a * 10 ^ Z.of_nat k.
Proof.
  induction k as [|k IH]; intros a.
  - cbn [repeat N_of_digits_acc Z.of_nat]. rewrite Z.pow_0_r. ring.
  - cbn [repeat N_of_digits_acc]. rewrite IH, Nat2Z.inj_succ, Z.pow_succ_r by lia.
    replace (a * 10 + (48 - 48))%N with (a * 10)%N by lia. rewrite N2Z.inj_mul.
    change (Z.of_N 10) with 10. ring.
Qed.

Lemma N_of_digits_zeros_app : forall k ds,
  N_of_digits (48%N :: repeat 48%N k ++ ds) = N_of_digits ds.
Proof.
  intros k ds. unfold N_of_digits.
  change (48%N :: repeat 48%N k ++ ds) with (repeat 48%N (Datatypes.S k) ++ ds).
  rewrite N_of_digits_acc_app. f_equal.
  apply N2Z.inj. rewrite N_of_digits_acc_zeros. reflexivity.
Qed.

Lemma N_of_digits_app_zeros : forall ds k,
  Z.of_N (N_of_digits (ds ++ repeat 48%N k)) = Z.of_N (N_of_digits ds) * 10 ^ Z.of_nat k.
Proof.
  intros ds k. unfold N_of_digits. rewrite N_of_digits_acc_app. apply N_of_digits_acc_zeros.
Qed.

(* ---- the integer readers on digit strings ---- *)

Definition sg (neg : bool) (l : str) : str := if neg then 45%N :: l else l.
Definition sgz (neg : bool) (z : Z) : Z := if neg then - z else z.

Lemma sg_app : forall neg x y, sg neg (x ++ y) = sg neg x ++ y.
Proof. intros [|] x y; reflexivity. Qed.

Lemma bigint_of_digits : forall neg ds, ds <> [] -> forallb is_digit ds = true ->
  bigint_of_str (sg neg ds) = Some (sgz neg (Z.of_N (N_of_digits ds))).
Proof.
  intros neg ds Hne Hd. destruct ds as [|c t]; [contradiction|].
  assert (Hc : is_digit c = true) by (cbn [forallb] in Hd; apply andb_true_iff in Hd; tauto).
  assert (Hbody : biguint_body (c :: t) = Some (N_of_digits (c :: t))).
  { unfold biguint_body. unfold is_us at 1. rewrite (digit_neq c _ Hc) by lia.
    rewrite (forallb_impl _ _ _ digit_digit_or_us Hd), (filter_all _ _ Hd). reflexivity. }
  assert (Hu : biguint_of_str (c :: t) = Some (N_of_digits (c :: t))).
  { unfold biguint_of_str. rewrite (digit_neq c _ Hc) by lia. exact Hbody. }
  destruct neg; unfold sg, sgz, bigint_of_str.
  - change (45 =? 45)%N with true. cbv iota. rewrite (digit_neq c _ Hc) by lia.
    rewrite Hu. reflexivity.
  - rewrite (digit_neq c _ Hc) by lia. rewrite Hu. reflexivity.
Qed.

Lemma i128_digits_ok : forall neg ds, ds <> [] -> forallb is_digit ds = true ->
  fits_i128 (sgz neg (Z.of_N (N_of_digits ds))) = true ->
  i128_digits neg ds = Some (sgz neg (Z.of_N (N_of_digits ds))).
Proof.
  intros neg ds Hne Hd Hf. destruct ds as [|c t]; [contradiction|].
  unfold i128_digits. rewrite Hd. unfold sgz in Hf. rewrite Hf. reflexivity.
Qed.

Lemma i128_show_signed : forall z, fits_i128 z = true -> i128_of_str (show_signed z) = Some z.
Proof.
  intros z Hf. destruct z as [|p|p]; unfold show_signed.
  - vm_compute. reflexivity.
  - change (Z.pos p <? 0) with false. cbv iota. unfold i128_of_str. change (43 =? 43)%N with true.
    cbv iota. cbn [digits_of_Z].
    destruct (digits_of_N_cons (N.pos p)) as [d [t E]].
    rewrite (i128_digits_ok false (digits_of_N (N.pos p)));
      rewrite ?N_of_digits_of_N; [reflexivity|rewrite E; discriminate|apply digits_of_N_alld|exact Hf].
  - change (Z.neg p <? 0) with true. cbv iota. cbn [digits_of_Z]. unfold i128_of_str.
    change (45 =? 43)%N with false. change (45 =? 45)%N with true. cbv iota.
    destruct (digits_of_N_cons (N.pos p)) as [d [t E]].
    rewrite (i128_digits_ok true (digits_of_N (N.pos p)));
      rewrite ?N_of_digits_of_N; [reflexivity|rewrite E; discriminate|apply digits_of_N_alld|exact Hf].
Qed.

(* ---- parse_base on the two shapes dec_show produces ---- *)

Lemma sg_no_dot : forall neg ds, forallb is_digit ds = true ->
  forallb (fun x => negb (is_dot x)) (sg neg ds) = true.
Proof.
  intros neg ds Hd. pose proof (forallb_impl _ _ _ digit_not_dot Hd) as H.
  destruct neg; unfold sg; cbn [forallb]; rewrite ?H; reflexivity.
Qed.

Lemma sg_no_exp : forall neg ds, forallb (fun x => negb (is_exp_sep x)) ds = true ->
  forallb (fun x => negb (is_exp_sep x)) (sg neg ds) = true.
Proof. intros neg ds H. destruct neg; unfold sg; cbn [forallb]; rewrite ?H; reflexivity. Qed.

Lemma sg_cons : forall neg ds, ds <> [] -> exists c t, sg neg ds = c :: t.
Proof.
  intros neg ds Hne. destruct neg; unfold sg; [eauto|].
  destruct ds as [|c t]; [contradiction|eauto].
Qed.

(* integer shape: [-]ddd *)
Lemma parse_base_int : forall neg ds ev, ds <> [] -> forallb is_digit ds = true ->
  fits_i64 (0 - ev) = true ->
  parse_base (sg neg ds) ev = Some (sgz neg (Z.of_N (N_of_digits ds)), 0 - ev).
Proof.
  intros neg ds ev Hne Hd Hf. unfold parse_base.
  destruct (sg_cons neg ds Hne) as [c [t E]]. rewrite E, <- E.
  rewrite (split_first_none _ _ (sg_no_dot neg ds Hd)). cbv iota beta zeta.
  rewrite Hf, (bigint_of_digits neg ds Hne Hd). reflexivity.
Qed.

(* fraction shape: [-]ddd.ddd *)
Lemma parse_base_frac : forall neg l1 l2 ev, l1 <> [] -> l2 <> [] ->
  forallb is_digit l1 = true -> forallb is_digit l2 = true ->
  fits_i64 (Z.of_nat (length l2) - ev) = true ->
  parse_base (sg neg (l1 ++ 46%N :: l2)) ev
  = Some (sgz neg (Z.of_N (N_of_digits (l1 ++ l2))), Z.of_nat (length l2) - ev).
Proof.
  intros neg l1 l2 ev Hn1 Hn2 Hd1 Hd2 Hf. unfold parse_base.
  assert (Hne : l1 ++ 46%N :: l2 <> []) by (destruct l1; discriminate).
  destruct (sg_cons neg _ Hne) as [c [t E]]. rewrite E, <- E.
  rewrite sg_app, (split_first_app _ _ 46%N l2 (sg_no_dot neg l1 Hd1) eq_refl).
  destruct l2 as [|c2 t2]; [contradiction|]. cbv iota beta zeta.
  rewrite (filter_all _ _ (forallb_impl _ _ _ digit_not_us Hd2)), Hf.
  rewrite <- sg_app. rewrite (bigint_of_digits neg (l1 ++ c2 :: t2)).
  - reflexivity.
  - destruct l1; discriminate.
  - rewrite forallb_app, Hd1, Hd2. reflexivity.
Qed.

Lemma dec_parse_no_exp : forall base,
  forallb (fun x => negb (is_exp_sep x)) base = true -> dec_parse base = parse_base base 0.
Proof.
  intros base H. rewrite dec_parse_unfold, (split_first_none _ _ H). reflexivity.
Qed.

Lemma dec_parse_exp : forall base c z, is_exp_sep c = true ->
  forallb (fun x => negb (is_exp_sep x)) base = true -> fits_i128 z = true ->
  dec_parse (base ++ c :: show_signed z) = parse_base base z.
Proof.
  intros base c z Hc H Hf.
  rewrite dec_parse_unfold, (split_first_app _ _ c _ H Hc), (i128_show_signed z Hf). reflexivity.
Qed.

(* ---- the five layouts of dec_show ---- *)

Lemma dec_show_cases : forall m sc, m <> 0 ->
  let ds := digits_of_N (Z.abs_N m) in
  let len := Z.of_nat (length ds) in
  dec_show (m, sc) =
  sg (m <? 0)
    (if 5 <? sc - len then
       match ds with
       | [] => []
       | d0 :: rest =>
           (d0 :: match rest with [] => [] | _ :: _ => 46%N :: rest end)
           ++ 69%N :: show_signed (len - sc - 1)
       end
     else if sc <? -15 then ds ++ 101%N :: show_signed (- sc)
     else if sc <=? 0 then ds ++ repeat 48%N (Z.to_nat (- sc))
     else if sc <? len then
       firstn (Z.to_nat (len - sc)) ds ++ 46%N :: skipn (Z.to_nat (len - sc)) ds
     else 48%N :: 46%N :: repeat 48%N (Z.to_nat (sc - len)) ++ ds).
Proof.
  intros m sc Hm ds len. unfold dec_show, sg.
  assert (Hm0 : (m =? 0) = false) by lia. rewrite Hm0. cbv zeta.
  fold ds. fold len.
  assert (Hlen : 0 <= len) by (unfold len; lia).
  assert (Hlz : (5 <? (if (0 <=? sc) && (len <=? sc) then sc - len else 0)) = (5 <? sc - len)).
  { destruct (Z.leb_spec 0 sc), (Z.leb_spec len sc); cbn [andb]; lia. }
  assert (Htz : (15 <? (if sc <=? 0 then - sc else 0)) = (sc <? -15)).
  { destruct (Z.leb_spec sc 0); lia. }
  rewrite Hlz, Htz.
  reflexivity.
Qed.

Lemma fits_i64_iff : forall z,
  fits_i64 z = true <-> - 9223372036854775808 <= z < 9223372036854775808.
Proof.
  intros z. unfold fits_i64. change p63z with 9223372036854775808. lia.
Qed.

Lemma fits_i128_small : forall z,
  - 9223372036854775809 <= z <= 9223372036854775809 -> fits_i128 z = true.
Proof.
  intros z H. unfold fits_i128.
  change p127 with 170141183460469231731687303715884105728. lia.
Qed.

Lemma repeat_zeros_alld : forall k, forallb is_digit (repeat 48%N k) = true.
Proof. induction k as [|k IH]; cbn [repeat forallb]; [reflexivity|]. rewrite IH. reflexivity. Qed.

Lemma alld_no_exp : forall ds, forallb is_digit ds = true ->
  forallb (fun x => negb (is_exp_sep x)) ds = true.
Proof. intros ds H. exact (forallb_impl _ _ _ digit_not_exp H). Qed.

Theorem dec_show_parse : forall m sc, fits_i64 sc = true ->
  exists d', dec_parse (dec_show (m, sc)) = Some d' /\ dec_value d' == dec_value (m, sc).
Proof.
  intros m sc Hf.
  destruct (Z.eq_dec m 0) as [Hm|Hm].
  { subst m. exists (0, 0). split.
    - change (dec_show (0, sc)) with [48%N]. vm_compute. reflexivity.
    - rewrite !dec_value_zero. reflexivity. }
  rewrite (dec_show_cases m sc Hm).
  set (neg := m <? 0). set (ds := digits_of_N (Z.abs_N m)). set (len := Z.of_nat (length ds)).
  cbv zeta.
  assert (Hd : forallb is_digit ds = true) by apply digits_of_N_alld.
  assert (Hv : N_of_digits ds = Z.abs_N m) by apply N_of_digits_of_N.
  assert (Hsg : sgz neg (Z.of_N (Z.abs_N m)) = m) by (unfold sgz, neg; destruct (Z.ltb_spec m 0); lia).
  destruct (digits_of_N_cons (Z.abs_N m)) as [d0 [rest E]]. fold ds in E.
  assert (Hne : ds <> []) by (rewrite E; discriminate).
  assert (Hlen : 1 <= len) by (unfold len; rewrite E; cbn [length]; lia).
  apply fits_i64_iff in Hf.
  destruct (Z.ltb_spec 5 (sc - len)) as [H1|H1].
  { (* d.dddE-x *)
    exists (m, sc). split; [|reflexivity].
    rewrite E. rewrite sg_app.
    assert (Hd0 : forallb is_digit [d0] = true).
    { rewrite E in Hd. cbn [forallb] in Hd. apply andb_true_iff in Hd. cbn [forallb].
      destruct Hd as [-> _]. reflexivity. }
    assert (Hrest : forallb is_digit rest = true).
    { rewrite E in Hd. cbn [forallb] in Hd. apply andb_true_iff in Hd. tauto. }
    rewrite dec_parse_exp.
    - destruct rest as [|r rest'].
      + rewrite (parse_base_int neg [d0]); try assumption; try discriminate.
        * rewrite <- E, Hv, Hsg. f_equal. f_equal. unfold len. rewrite E. cbn [length]. lia.
        * apply fits_i64_iff. unfold len. rewrite E. cbn [length]. lia.
      + change (d0 :: 46%N :: r :: rest') with ([d0] ++ 46%N :: r :: rest').
        rewrite (parse_base_frac neg [d0] (r :: rest')); try assumption; try discriminate.
        * change ([d0] ++ r :: rest') with (d0 :: r :: rest').
          rewrite <- E, Hv, Hsg. f_equal. f_equal. unfold len. rewrite E.
          cbn [length]. lia.
        * apply fits_i64_iff. unfold len. rewrite E. cbn [length]. lia.
    - reflexivity.
    - apply sg_no_exp. destruct rest as [|r rest'].
      + apply alld_no_exp. exact Hd0.
      + cbn [forallb] in Hd0. apply andb_true_iff in Hd0. destruct Hd0 as [Hd0 _].
        pose proof (alld_no_exp _ Hrest) as Hx. cbn [forallb] in Hx.
        cbn [forallb]. rewrite (digit_not_exp d0 Hd0), Hx. reflexivity.
    - apply fits_i128_small. lia. }
  destruct (Z.ltb_spec sc (-15)) as [H2|H2].
  { (* ddde+x *)
    exists (m, sc). split; [|reflexivity].
    rewrite sg_app, dec_parse_exp.
    - rewrite (parse_base_int neg ds); try assumption.
      + rewrite Hv, Hsg. f_equal. f_equal. lia.
      + apply fits_i64_iff. lia.
    - reflexivity.
    - apply sg_no_exp, alld_no_exp, Hd.
    - apply fits_i128_small. lia. }
  destruct (Z.leb_spec sc 0) as [H3|H3].
  { (* ddd000 *)
    set (k := Z.to_nat (- sc)).
    assert (Hdz : forallb is_digit (ds ++ repeat 48%N k) = true).
    { rewrite forallb_app, Hd, repeat_zeros_alld. reflexivity. }
    exists (sgz neg (Z.of_N (N_of_digits (ds ++ repeat 48%N k))), 0 - 0). split.
    - rewrite dec_parse_no_exp by (apply sg_no_exp, alld_no_exp, Hdz).
      apply parse_base_int; [destruct ds; [contradiction|discriminate]|exact Hdz|reflexivity].
    - rewrite N_of_digits_app_zeros, Hv.
      rewrite (dec_value_scaled _ (0 - 0) 0), (dec_value_scaled m sc 0) by lia.
      apply Qeq_same_den. unfold k. rewrite Z2Nat.id by lia.
      replace (0 - (0 - 0)) with 0 by ring. replace (0 - sc) with (- sc) by ring.
      rewrite Z.pow_0_r. rewrite <- Hsg at 2. unfold sgz. destruct neg; ring. }
  destruct (Z.ltb_spec sc len) as [H4|H4].
  { (* ddd.ddd *)
    exists (m, sc). split; [|reflexivity].
    set (k := Z.to_nat (len - sc)).
    pose proof (firstn_skipn k ds) as Hfs.
    assert (Hl1 : length (firstn k ds) = k) by (apply firstn_length_le; unfold k, len in *; lia).
    assert (Hl2 : Z.of_nat (length (skipn k ds)) = sc).
    { rewrite skipn_length. unfold k, len in *. lia. }
    assert (Hdd : forallb is_digit (firstn k ds) = true /\ forallb is_digit (skipn k ds) = true).
    { rewrite <- Hfs, forallb_app in Hd. apply andb_true_iff in Hd. exact Hd. }
    destruct Hdd as [Hd1 Hd2].
    rewrite dec_parse_no_exp.
    - rewrite (parse_base_frac neg (firstn k ds) (skipn k ds)); try assumption.
      + rewrite Hfs, Hv, Hsg, Hl2. f_equal. f_equal. lia.
      + intros Hnil. rewrite Hnil in Hl1. cbn [length] in Hl1. unfold k, len in *. lia.
      + intros Hnil. rewrite Hnil in Hl2. cbn [length] in Hl2. lia.
      + rewrite Hl2. apply fits_i64_iff. lia.
    - apply sg_no_exp. rewrite forallb_app. cbn [forallb].
      rewrite (alld_no_exp _ Hd1), (alld_no_exp _ Hd2). reflexivity. }
  { (* 0.000ddd *)
    exists (m, sc). split; [|reflexivity].
    set (j := Z.to_nat (sc - len)).
    assert (Hdz : forallb is_digit (repeat 48%N j ++ ds) = true).
    { rewrite forallb_app, Hd, repeat_zeros_alld. reflexivity. }
    assert (Hl2 : Z.of_nat (length (repeat 48%N j ++ ds)) = sc).
    { rewrite app_length, repeat_length. unfold j, len in *. lia. }
    change (48%N :: 46%N :: repeat 48%N j ++ ds) with ([48%N] ++ 46%N :: (repeat 48%N j ++ ds)).
    rewrite dec_parse_no_exp.
    - rewrite (parse_base_frac neg [48%N] (repeat 48%N j ++ ds)); try assumption;
        try discriminate; try reflexivity.
      + change ([48%N] ++ repeat 48%N j ++ ds) with (48%N :: repeat 48%N j ++ ds).
        rewrite N_of_digits_zeros_app, Hv, Hsg, Hl2. f_equal. f_equal. lia.
      + intros Hnil. apply app_eq_nil in Hnil. destruct Hnil as [_ Hnil]. contradiction.
      + rewrite Hl2. apply fits_i64_iff. lia.
    - apply sg_no_exp. rewrite forallb_app. cbn [forallb].
      rewrite (alld_no_exp _ Hdz). reflexivity. }
Qed.

(* N8 in the form asked for: what "||" (or any arithmetic function) prints reads back
   to the same value; the scale has to be an i64, as in bigdecimal *)
Corollary dec_show_normalize_parse : forall a, fits_i64 (snd (dec_normalize a)) = true ->
  exists d', dec_parse (dec_show (dec_normalize a)) = Some d' /\ dec_value d' == dec_value a.
Proof.
  intros a Hf. destruct (dec_normalize a) as [m sc] eqn:E. cbn [snd] in Hf.
  destruct (dec_show_parse m sc Hf) as [d' [Hp Hv]]. exists d'. split; [exact Hp|].
  rewrite Hv, <- E. apply dec_normalize_value.
Qed.

(* printing then parsing then normalising is the identity on normal forms *)
Corollary dec_show_parse_normalize : forall a, fits_i64 (snd (dec_normalize a)) = true ->
  exists d', dec_parse (dec_show (dec_normalize a)) = Some d' /\
             dec_normalize d' = dec_normalize a.
Proof.
  intros a Hf. destruct (dec_show_normalize_parse a Hf) as [d' [Hp Hv]].
  exists d'. split; [exact Hp|]. apply dec_normalize_canonical. exact Hv.
Qed.

(* the result of any number-as-string function is a fixed point of "||" *)
Corollary of_dec_reparse : forall d, fits_i64 (snd (dec_normalize d)) = true ->
  sem_nas FNas_normalize [Some (of_dec d)] = Some (Some (of_dec d)).
Proof.
  intros d Hf. destruct (dec_show_parse_normalize d Hf) as [d' [Hp Hn]].
  cbn [sem_nas]. unfold nas_unary, arg. cbn [nth_error].
  change (to_dec (Some (of_dec d))) with (dec_parse (dec_show (dec_normalize d))).
  rewrite Hp. cbn [option_map]. unfold of_dec. rewrite Hn. reflexivity.
Qed.

(* ================================================================== *)
(* 8. N9 : examples                                                    *)
(* ================================================================== *)

Definition lit (s : string) : str := map N_of_ascii (list_ascii_of_string s).
Definition nas2 (f : fn) (s t : string) : option (option json) :=
  sem_nas f [jstr (lit s); jstr (lit t)].
Definition nas1 (f : fn) (s : string) : option (option json) := sem_nas f [jstr (lit s)].
Definition out (s : string) : option (option json) := Some (jstr (lit s)).
Definition outb (b : bool) : option (option json) := Some (Some (JBool b)).

Example ex_add_01_02 : nas2 FNas_add "0.1" "0.2" = out "0.3".
Proof. vm_compute. reflexivity. Qed.

Example ex_eq_1e2_100 : nas2 FNas_eq "1e2" "100" = outb true.
Proof. vm_compute. reflexivity. Qed.
Example ex_eq_100_10000 : nas2 FNas_eq "100" "100.00" = outb true.
Proof. vm_compute. reflexivity. Qed.
Example ex_lte_gte : nas2 FNas_lte "1e2" "100.00" = outb true /\ nas2 FNas_gte "1e2" "100.00" = outb true
  /\ nas2 FNas_lt "1e2" "100.00" = outb false /\ nas2 FNas_neq "1E2" "+100.0_0" = outb false.
Proof. vm_compute. repeat split; reflexivity. Qed.
Example ex_same_normal_form :
  nas1 FNas_normalize "1e2" = out "100" /\ nas1 FNas_normalize "100" = out "100" /\
  nas1 FNas_normalize "100.00" = out "100" /\
  dec_parse (lit "1e2") = Some (1, -2) /\ dec_parse (lit "100.00") = Some (10000, 2).
Proof. vm_compute. repeat split; reflexivity. Qed.

(* 30.30 digits times 30.30 digits: all 118 significant digits of the product *)
Example ex_mul_60 :
  nas2 FNas_mul "123456789012345678901234567890.123456789012345678901234567890"
                "987654321098765432109876543210.987654321098765432109876543210"
  = out "121932631137021795226185032733866788594511507391563633592367.3677792956119493974487120865336229233322374638011112635269".
Proof. vm_compute. reflexivity. Qed.

Example ex_sub_big : nas2 FNas_sub_ "1e100" "1"
  = out "9999999999999999999999999999999999999999999999999999999999999999999999999999999999999999999999999999".
Proof. vm_compute. reflexivity. Qed.

Example ex_add_far : nas2 FNas_add "1e-40" "1e40"
  = out "10000000000000000000000000000000000000000.0000000000000000000000000000000000000001".
Proof. vm_compute. reflexivity. Qed.

Example ex_abs : nas1 FNas_abs "-00123.4500" = out "123.45".
Proof. vm_compute. reflexivity. Qed.

(* the five layouts of the output *)
Example ex_layouts :
  map (nas1 FNas_normalize)
    ["1.5e100"; "1e-100"; "0.00000123"; "0.000000123"; "-00123.4500"; "1_000"; "-0.0";
     "12345678901234567890e16"; "1e15"; "1e16"; ".5"; "5."; "+5"; "0.1e-5"; "0.1e-6";
     "123456789012345678901234567890123456789012345678901234567890e-40";
     "-1.000000000000000000000000000000000000001E-100"]%string
  = map out
    ["15e+99"; "1E-100"; "0.00000123"; "1.23E-7"; "-123.45"; "1000"; "0";
     "1234567890123456789e+17"; "1000000000000000"; "1e+16"; "0.5"; "5"; "5"; "0.000001"; "1E-7";
     "12345678901234567890.123456789012345678901234567890123456789";
     "-1.000000000000000000000000000000000000001E-100"]%string.
Proof. vm_compute. reflexivity. Qed.

(* round trip, executed: 60-digit mantissas, scales up to 40 and beyond, exponents +-100 *)
Definition dec_eqb (a b : Z * Z) : bool := (fst a =? fst b) && (snd a =? snd b).
Definition round_trips (d : Z * Z) : bool :=
  match dec_parse (dec_show (dec_normalize d)) with
  | Some d' => dec_eqb (dec_normalize d') (dec_normalize d)
  | None => false
  end.
Example ex_round_trip :
  forallb round_trips
    [(0, 0); (0, 17); (1, 0); (-1, 0); (10, 0); (1500, 2); (-1500, -2);
     (123456789012345678901234567890123456789012345678901234567890, 0);
     (123456789012345678901234567890123456789012345678901234567890, 40);
     (-123456789012345678901234567890123456789012345678901234567890, 59);
     (123456789012345678901234567890123456789012345678901234567890, 60);
     (123456789012345678901234567890123456789012345678901234567890, 65);
     (123456789012345678901234567890123456789012345678901234567890, 66);
     (123456789012345678901234567890123456789012345678901234567890, 100);
     (-123456789012345678901234567891, -100); (7, -15); (7, -16); (7, 5); (7, 6); (7, 7);
     (7, 100); (-7, -100); (1, 9223372036854775807); (1, -9223372036854775808)] = true.
Proof. vm_compute. reflexivity. Qed.

(* ================================================================== *)
(* 9. assumptions                                                      *)
(* ================================================================== *)

Print Assumptions dec_add_exact.
Print Assumptions dec_sub_exact.
Print Assumptions dec_mul_exact.
Print Assumptions dec_abs_exact.
Print Assumptions dec_normalize_value.
Print Assumptions dec_normalize_canonical.
Print Assumptions dec_cmp_exact.
Print Assumptions sem_nas_add2.
Print Assumptions sem_nas_sub2.
Print Assumptions sem_nas_mul2.
Print Assumptions sem_nas_add_list.
Print Assumptions sem_nas_mul_list.
Print Assumptions sem_nas_compare.
Print Assumptions sem_nas_compare_true.
Print Assumptions sem_nas_spelling2.
Print Assumptions sem_nas_spelling1.
Print Assumptions dec_show_parse.
Print Assumptions dec_show_normalize_parse.
Print Assumptions of_dec_reparse.
