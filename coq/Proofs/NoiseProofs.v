(* NoiseProofs.v — bytes that are not part of any JSON value, placed between values, never change
   which values are processed: each such byte costs exactly one recoverable error and nothing else.
   A stream is a list of items, an item is a well-formed value (a spelling tree of Spec/Render.v) or
   a garbage token (a non-empty run of bytes on which `parse_value` has no arm); items are separated
   by whitespace runs, which may be empty except after a bare value (number, true, false, null) that
   is followed by another item.  No axioms. *)
From Coq Require Import List NArith ZArith Bool Lia.
From Jawk Require Import Base F64 Json Reader JsonParser Stream.
From Jawk Require Import Render ReaderLemmas ParserProofs TotalityProofs.
Import ListNotations.
Local Open Scope N_scope.

#[local] Arguments N.add : simpl never.
#[local] Arguments N.mul : simpl never.
#[local] Arguments N.sub : simpl never.
#[local] Arguments N.div : simpl never.
#[local] Arguments N.modulo : simpl never.
#[local] Arguments N.eqb : simpl never.
#[local] Arguments N.ltb : simpl never.
#[local] Arguments N.leb : simpl never.

(* ================= garbage bytes ================= *)
(* the bytes parse_value dispatches on: n t f, the double quote, - [ { and the digits *)
Definition starter (b : byte) : bool :=
  (b =? 110) || (b =? 116) || (b =? 102) || (b =? 34) || (b =? 45) || (b =? 91) || (b =? 123)
  || is_digit b.
(* every other non-whitespace byte: } ] , : . e E + letters, control bytes, bytes >= 128, ... *)
Definition garbage_byte (b : byte) : bool := negb (starter b) && negb (is_ws b).
Definition garbage (g : list byte) : Prop := Forall (fun b => garbage_byte b = true) g.

Lemma garbage_facts b : garbage_byte b = true ->
  (b =? 110) = false /\ (b =? 116) = false /\ (b =? 102) = false /\ (b =? 34) = false /\
  (b =? 45) = false /\ (b =? 91) = false /\ (b =? 123) = false /\ is_digit b = false /\
  is_ws b = false.
Proof.
  unfold garbage_byte, starter. rewrite andb_true_iff, !negb_true_iff, !orb_false_iff. tauto.
Qed.

(* examples: the structural bytes that cannot start a value, and a non-ASCII byte *)
Example garbage_examples :
  map garbage_byte [125; 93; 44; 58; 46; 101; 69; 43; 0; 120; 200; 255] =
  [true; true; true; true; true; true; true; true; true; true; true; true].
Proof. vm_compute. reflexivity. Qed.

(* ================= N1: the catch-all arm consumes exactly the offending byte ================= *)
Theorem garbage_step : forall fuel (w : list byte) b (tl : list byte) r,
  rd_ok r -> ws_ok w -> garbage_byte b = true -> view r = w ++ b :: tl -> (0 < fuel)%nat ->
  exists r', parse_value fuel r = (PErr, r') /\ view r' = tl /\ rd_ok r'.
Proof.
  intros fuel w b tl r Hok Hw Hb Hv Hf. destruct fuel as [|f]; [lia|].
  destruct (garbage_facts b Hb) as (E1 & E2 & E3 & E4 & E5 & E6 & E7 & E8 & E9).
  rewrite parse_value_S. cbv zeta.
  destruct (eat_whitespace_spec w r (b :: tl) Hok Hw E9 Hv) as (Hv1 & Hok1).
  set (r1 := eat_whitespace r) in *. clearbody r1.
  destruct (peek_cons r1 b tl Hok1 Hv1) as (r2 & -> & Hv2 & Hc2 & Hok2).
  rewrite E1, E2, E3, E4, E5, E6, E7, E8. cbn [orb]. cbv iota.
  destruct (next_drop r2 b tl Hok2 Hc2 Hv2) as (r3 & -> & Hv3 & Hok3 & _). cbn [snd]. eauto.
Qed.

Corollary garbage_step_next : forall (w : list byte) b (tl : list byte) r,
  rd_ok r -> ws_ok w -> garbage_byte b = true -> view r = w ++ b :: tl ->
  exists r', next_json_value r = (PErr, r') /\ view r' = tl /\ rd_ok r'.
Proof.
  intros w b tl r Hok Hw Hb Hv. unfold next_json_value.
  apply (garbage_step (parse_fuel r) w b tl r); auto. unfold parse_fuel. lia.
Qed.

(* ================= N2: a run of garbage bytes is skipped, one error per byte ================= *)
Lemma garbage_run : forall (g : list byte) fuel (w tl : list byte) r,
  rd_ok r -> ws_ok w -> garbage g -> view r = w ++ g ++ tl -> (length (view r) < fuel)%nat ->
  exists r' (w' : list byte) fuel',
    rd_ok r' /\ ws_ok w' /\ view r' = w' ++ tl /\ (length (view r') < fuel')%nat /\
    read_all fuel r = (let '(vs, e) := read_all fuel' r' in (vs, e + N.of_nat (length g))).
Proof.
  induction g as [|b g IH]; intros fuel w tl r Hok Hw Hg Hv Hf.
  - exists r, w, fuel. cbn [app length] in *. splits; auto.
    destruct (read_all fuel r) as [vs e]. f_equal. cbn. lia.
  - inversion Hg as [|? ? Hb Hg']; subst. destruct fuel as [|f]; [lia|].
    cbn [app] in Hv.
    destruct (garbage_step_next w b (g ++ tl) r Hok Hw Hb Hv) as (r1 & E1 & Hv1 & Hok1).
    rewrite read_all_S, E1.
    assert (L : (length (view r1) < f)%nat).
    { rewrite Hv1. rewrite Hv, app_length in Hf. cbn [length] in Hf. lia. }
    destruct (IH f [] tl r1 Hok1 (Forall_nil _) Hg' Hv1 L) as (r' & w' & f' & Hok' & Hw' & Hv' & L' & E').
    exists r', w', f'. splits; auto. rewrite E'.
    destruct (read_all f' r') as [vs e]. f_equal. cbn [length]. lia.
Qed.

(* a noise region as in the statement of the property: garbage tokens, each followed by a whitespace
   run; the region is skipped and costs as many errors as it has garbage bytes *)
Definition noise := list (list byte * ws).
Definition noise_ok (n : noise) : Prop :=
  Forall (fun gw => fst gw <> [] /\ garbage (fst gw) /\ ws_ok (snd gw)) n.
Fixpoint noise_bytes (n : noise) : list byte :=
  match n with [] => [] | (g, w) :: more => g ++ w ++ noise_bytes more end.
Fixpoint noise_count (n : noise) : nat :=
  match n with [] => O | (g, _) :: more => (length g + noise_count more)%nat end.

Lemma noise_run : forall (n : noise) fuel (w tl : list byte) r,
  rd_ok r -> ws_ok w -> noise_ok n -> view r = w ++ noise_bytes n ++ tl ->
  (length (view r) < fuel)%nat ->
  exists r' (w' : list byte) fuel',
    rd_ok r' /\ ws_ok w' /\ view r' = w' ++ tl /\ (length (view r') < fuel')%nat /\
    read_all fuel r = (let '(vs, e) := read_all fuel' r' in (vs, e + N.of_nat (noise_count n))).
Proof.
  induction n as [|[g wg] n IH]; intros fuel w tl r Hok Hw Hn Hv Hf.
  - exists r, w, fuel. cbn [noise_bytes noise_count app] in *. splits; auto.
    destruct (read_all fuel r) as [vs e]. f_equal. cbn. lia.
  - inversion Hn as [|? ? (Hne & Hg & Hwg) Hn']; subst. cbn [fst snd] in *.
    cbn [noise_bytes] in Hv. rewrite <- !app_assoc in Hv.
    destruct (garbage_run g fuel w _ r Hok Hw Hg Hv Hf) as (r1 & w1 & f1 & Hok1 & Hw1 & Hv1 & L1 & E1).
    rewrite app_assoc in Hv1.
    destruct (IH f1 (w1 ++ wg) tl r1 Hok1) as (r' & w' & f' & Hok' & Hw' & Hv' & L' & E'); auto.
    { apply Forall_app. split; assumption. }
    exists r', w', f'. splits; auto. rewrite E1, E'.
    destruct (read_all f' r') as [vs e]. f_equal. cbn [noise_count]. lia.
Qed.

(* ================= N3: streams of values and garbage tokens ================= *)
Inductive sitem := IVal (t : sjson) | IGarb (g : list byte).

Definition item_bytes (it : sitem) : list byte :=
  match it with IVal t => render t | IGarb g => g end.
(* the items with the whitespace run that follows each *)
Fixpoint weave (l : list (sitem * ws)) : list byte :=
  match l with [] => [] | (it, w) :: more => item_bytes it ++ w ++ weave more end.

Definition item_ok (it : sitem) : Prop :=
  match it with IVal t => wf t | IGarb g => g <> [] /\ garbage g end.
(* a token that needs a delimiter: a bare value (numbers and the three words, as in `seps_ok`) *)
Definition needs_sep (it : sitem) : bool :=
  match it with IVal t => bare t | IGarb _ => false end.
Fixpoint weave_ok (l : list (sitem * ws)) : Prop :=
  match l with
  | [] => True
  | (it, w) :: more =>
      item_ok it /\ ws_ok w /\ (needs_sep it = true -> more <> [] -> w <> []) /\ weave_ok more
  end.

(* the values of the stream, in order; the garbage bytes; the garbage tokens *)
Fixpoint weave_values (l : list (sitem * ws)) : list sjson :=
  match l with
  | [] => []
  | (IVal t, _) :: more => t :: weave_values more
  | (IGarb _, _) :: more => weave_values more
  end.
Fixpoint garbage_count (l : list (sitem * ws)) : nat :=
  match l with
  | [] => O
  | (IVal _, _) :: more => garbage_count more
  | (IGarb g, _) :: more => (length g + garbage_count more)%nat
  end.
Fixpoint garbage_tokens (l : list (sitem * ws)) : nat :=
  match l with
  | [] => O
  | (IVal _, _) :: more => garbage_tokens more
  | (IGarb _, _) :: more => S (garbage_tokens more)
  end.

Lemma weave_follow t (w : ws) (more : list (sitem * ws)) :
  ws_ok w -> (bare t = true -> more <> [] -> w <> []) -> follow t (w ++ weave more).
Proof.
  intros Hw Hsep. destruct t; cbn [follow]; auto. cbn [bare] in Hsep.
  destruct w as [|a w].
  - destruct more as [|m more]; [exact I|]. exfalso. apply Hsep; [reflexivity|discriminate|reflexivity].
  - inversion Hw; subst. cbn [app]. apply num_follow_ws. assumption.
Qed.

Lemma read_all_weave : forall (l : list (sitem * ws)) (vs : list json) r (lead : ws) fuel,
  ws_ok lead -> weave_ok l ->
  Forall2 (fun t v => value_of t = Some v) (weave_values l) vs ->
  rd_ok r -> view r = lead ++ weave l -> (length (view r) < fuel)%nat ->
  read_all fuel r = (vs, N.of_nat (garbage_count l)).
Proof.
  induction l as [|[[t|g] w] more IH]; intros vs r lead fuel Hlead Hwf Hvals Hok Hv Hf.
  - destruct fuel as [|f]; [lia|]. rewrite read_all_S.
    cbn [weave_values] in Hvals. inversion Hvals; subst. cbn [weave] in Hv. rewrite app_nil_r in Hv.
    destruct (parse_eof_conv r Hok) as (r' & -> & _); [rewrite Hv; exact Hlead|]. reflexivity.
  - destruct fuel as [|f]; [lia|]. rewrite read_all_S.
    cbn [weave_values] in Hvals. inversion Hvals as [|? v ? vs' Hv1 Hvs']; subst.
    cbn [weave_ok item_ok needs_sep] in Hwf. destruct Hwf as (Hwft & Hw & Hsep & Hwf').
    cbn [weave item_bytes] in Hv. unfold next_json_value.
    destruct (parse_value_render (parse_fuel r) t v lead (w ++ weave more) r)
      as (r' & -> & Hv' & Hok'); auto.
    + apply weave_follow; assumption.
    + apply parse_fuel_enough; assumption.
    + cbn [garbage_count]. rewrite (IH vs' r' w f); auto.
      pose proof (render_nonempty t Hwft) as Hne. rewrite Hv', app_length. rewrite Hv, !app_length in Hf.
      unfold ws, byte in *. lia.
  - cbn [weave_values] in Hvals.
    cbn [weave_ok item_ok needs_sep] in Hwf. destruct Hwf as ((Hne & Hg) & Hw & _ & Hwf').
    cbn [weave item_bytes] in Hv.
    destruct (garbage_run g fuel lead (w ++ weave more) r Hok Hlead Hg Hv Hf)
      as (r1 & w1 & f1 & Hok1 & Hw1 & Hv1 & L1 & E1).
    rewrite app_assoc in Hv1. rewrite E1.
    rewrite (IH vs r1 (w1 ++ w) f1); auto.
    + cbn [garbage_count]. f_equal. lia.
    + apply Forall_app. split; assumption.
Qed.

Lemma garbage_tokens_le (l : list (sitem * ws)) : weave_ok l ->
  (garbage_tokens l <= garbage_count l)%nat.
Proof.
  induction l as [|[[t|g] w] more IH]; cbn [weave_ok garbage_tokens garbage_count item_ok].
  - lia.
  - intros (_ & _ & _ & H). auto.
  - intros ((Hne & _) & _ & _ & H). specialize (IH H). destruct g; [congruence|]. cbn [length]. lia.
Qed.

(* the main theorem: the values processed are exactly the values of the value items, in order;
   the number of recoverable errors is the number of garbage bytes (so every garbage token costs at
   least one error) *)
Theorem noise_invisible : forall (lead : ws) (l : list (sitem * ws)) (vs : list json),
  ws_ok lead -> weave_ok l ->
  Forall2 (fun t v => value_of t = Some v) (weave_values l) vs ->
  fst (values_of_bytes (lead ++ weave l)) = vs /\
  snd (values_of_bytes (lead ++ weave l)) = N.of_nat (garbage_count l) /\
  (garbage_tokens l <= garbage_count l)%nat.
Proof.
  intros lead l vs Hlead Hwf Hvals. unfold values_of_bytes.
  rewrite (read_all_weave l vs (reader_of_bytes (lead ++ weave l)) lead); auto.
  - cbn [fst snd]. splits; auto. apply garbage_tokens_le. assumption.
  - apply rd_ok_of_bytes.
  - apply view_of_bytes.
  - rewrite view_of_bytes. lia.
Qed.

(* ================= the same stream with the garbage removed ================= *)
(* whitespace runs around removed garbage tokens are merged *)
Fixpoint strip_lead (l : list (sitem * ws)) : ws :=
  match l with
  | (IGarb _, w) :: more => w ++ strip_lead more
  | _ => []
  end.
Fixpoint strip (l : list (sitem * ws)) : list (sjson * ws) :=
  match l with
  | [] => []
  | (IVal t, w) :: more => (t, w ++ strip_lead more) :: strip more
  | (IGarb _, _) :: more => strip more
  end.

Lemma strip_values l : map fst (strip l) = weave_values l.
Proof.
  induction l as [|[[t|g] w] more IH]; cbn [strip weave_values map fst]; congruence.
Qed.

Lemma strip_lead_ok l : weave_ok l -> ws_ok (strip_lead l).
Proof.
  induction l as [|[[t|g] w] more IH]; cbn [strip_lead weave_ok]; intros H; try constructor.
  destruct H as (_ & Hw & _ & H). apply Forall_app. split; [assumption|apply IH; assumption].
Qed.

Lemma strip_nonempty l : strip l <> [] -> l <> [].
Proof. destruct l; [intros H _; apply H; reflexivity|discriminate]. Qed.

Lemma strip_wf l : weave_ok l -> Forall (fun tw => wf (fst tw)) (strip l) /\ seps_ok (strip l).
Proof.
  induction l as [|[[t|g] w] more IH]; cbn [strip weave_ok item_ok needs_sep].
  - intros _. split; [constructor|exact I].
  - intros (Hwft & Hw & Hsep & H). destruct (IH H) as [IH1 IH2]. split.
    + constructor; [exact Hwft|exact IH1].
    + cbn [seps_ok]. splits; auto.
      * apply Forall_app. split; [assumption|apply strip_lead_ok; assumption].
      * intros Hb Hm Hnil. apply app_eq_nil in Hnil. destruct Hnil as [Hnil _].
        apply (Hsep Hb); [|exact Hnil]. apply strip_nonempty. exact Hm.
  - intros (_ & _ & _ & H). apply IH. exact H.
Qed.

(* removing every garbage token leaves a well-formed stream (Spec/Render.stream_wf) that yields
   exactly the same values: garbage is invisible except in the error count *)
Theorem noise_removed : forall (lead : ws) (l : list (sitem * ws)) (vs : list json),
  ws_ok lead -> weave_ok l ->
  Forall2 (fun t v => value_of t = Some v) (weave_values l) vs ->
  stream_wf (lead ++ strip_lead l) (strip l) /\
  values_of_bytes ((lead ++ strip_lead l) ++ render_stream (strip l)) = (vs, 0) /\
  values_of_bytes (lead ++ weave l) = (vs, N.of_nat (garbage_count l)).
Proof.
  intros lead l vs Hlead Hwf Hvals.
  destruct (strip_wf l Hwf) as [H1 H2].
  assert (Hs : stream_wf (lead ++ strip_lead l) (strip l)).
  { unfold stream_wf. splits; auto. apply Forall_app. split; [assumption|apply strip_lead_ok; assumption]. }
  split; [exact Hs|]. split.
  - apply values_of_stream; [exact Hs|]. rewrite <- strip_values in Hvals.
    clear - Hvals. remember (strip l) as s eqn:E. clear E. revert vs Hvals.
    induction s as [|[t w] s IH]; intros vs H; inversion H; subst; constructor; auto.
  - destruct (noise_invisible lead l vs Hlead Hwf Hvals) as (E1 & E2 & _).
    destruct (values_of_bytes (lead ++ weave l)) as [a b]. cbn [fst snd] in *. congruence.
Qed.

(* ================= the stream shape of the property statement ================= *)
(* leading whitespace, a noise region, then values each followed by a whitespace run and a noise
   region (regions may be empty); a bare value is separated from whatever follows by whitespace *)
Fixpoint region_items (n : noise) : list (sitem * ws) :=
  match n with [] => [] | (g, w) :: more => (IGarb g, w) :: region_items more end.

Lemma region_weave n l : weave (region_items n ++ l) = noise_bytes n ++ weave l.
Proof.
  induction n as [|[g w] n IH]; cbn [region_items app weave noise_bytes item_bytes]; [reflexivity|].
  rewrite IH, <- !app_assoc. reflexivity.
Qed.

Lemma region_ok n l : noise_ok n -> weave_ok l -> weave_ok (region_items n ++ l).
Proof.
  induction n as [|[g w] n IH]; intros Hn Hl; cbn [region_items app]; [exact Hl|].
  inversion Hn as [|? ? (Hne & Hg & Hw) Hn']; subst. cbn [fst snd] in *.
  cbn [weave_ok item_ok needs_sep]. splits; auto. discriminate.
Qed.

Lemma region_values n l : weave_values (region_items n ++ l) = weave_values l.
Proof. induction n as [|[g w] n IH]; cbn [region_items app weave_values]; auto. Qed.

Lemma region_count n l :
  garbage_count (region_items n ++ l) = (noise_count n + garbage_count l)%nat.
Proof.
  induction n as [|[g w] n IH]; cbn [region_items app garbage_count noise_count]; [reflexivity|].
  rewrite IH. lia.
Qed.

Definition vstream := list (sjson * ws * noise).
Fixpoint vstream_items (l : vstream) : list (sitem * ws) :=
  match l with
  | [] => []
  | (t, w, n) :: more => (IVal t, w) :: region_items n ++ vstream_items more
  end.
Fixpoint vstream_bytes (l : vstream) : list byte :=
  match l with
  | [] => []
  | (t, w, n) :: more => render t ++ w ++ noise_bytes n ++ vstream_bytes more
  end.
Fixpoint vstream_ok (l : vstream) : Prop :=
  match l with
  | [] => True
  | (t, w, n) :: more =>
      wf t /\ ws_ok w /\ noise_ok n /\
      (bare t = true -> n <> [] \/ more <> [] -> w <> []) /\ vstream_ok more
  end.
Fixpoint vstream_noise (l : vstream) : nat :=
  match l with [] => O | (_, _, n) :: more => (noise_count n + vstream_noise more)%nat end.

Lemma vstream_weave l : weave (vstream_items l) = vstream_bytes l.
Proof.
  induction l as [|[[t w] n] l IH]; cbn [vstream_items vstream_bytes weave item_bytes]; [reflexivity|].
  rewrite region_weave, IH. reflexivity.
Qed.

Lemma vstream_items_ok l : vstream_ok l -> weave_ok (vstream_items l).
Proof.
  induction l as [|[[t w] n] l IH]; cbn [vstream_items vstream_ok]; [auto|].
  intros (Hwf & Hw & Hn & Hsep & Hl). cbn [weave_ok item_ok needs_sep]. splits; auto.
  - intros Hb Hne. apply (Hsep Hb).
    destruct n as [|gw n]; [|left; discriminate]. right. cbn [region_items app] in Hne.
    destruct l; [|discriminate]. exfalso. apply Hne. reflexivity.
  - apply region_ok; auto.
Qed.

Lemma vstream_values l : weave_values (vstream_items l) = map (fun x => fst (fst x)) l.
Proof.
  induction l as [|[[t w] n] l IH]; cbn [vstream_items weave_values map fst]; [reflexivity|].
  rewrite region_values, IH. reflexivity.
Qed.

Lemma vstream_count l : garbage_count (vstream_items l) = vstream_noise l.
Proof.
  induction l as [|[[t w] n] l IH]; cbn [vstream_items garbage_count vstream_noise]; [reflexivity|].
  rewrite region_count, IH. reflexivity.
Qed.

Lemma Forall2_map_l {A B C} (f : A -> B) (P : B -> C -> Prop) l vs :
  Forall2 (fun x v => P (f x) v) l vs -> Forall2 P (map f l) vs.
Proof. induction 1; cbn [map]; constructor; auto. Qed.

Theorem noise_invisible_regions : forall (lead : ws) (n0 : noise) (l : vstream) (vs : list json),
  ws_ok lead -> noise_ok n0 -> vstream_ok l ->
  Forall2 (fun twn v => value_of (fst (fst twn)) = Some v) l vs ->
  values_of_bytes (lead ++ noise_bytes n0 ++ vstream_bytes l) =
    (vs, N.of_nat (noise_count n0 + vstream_noise l)).
Proof.
  intros lead n0 l vs Hlead Hn0 Hl Hvals.
  rewrite <- vstream_weave, <- region_weave.
  destruct (noise_invisible lead (region_items n0 ++ vstream_items l) vs Hlead) as (E1 & E2 & _).
  - apply region_ok; [assumption|]. apply vstream_items_ok. assumption.
  - rewrite region_values, vstream_values.
    apply (Forall2_map_l (fun x : sjson * ws * noise => fst (fst x)) (fun t v => value_of t = Some v)).
    exact Hvals.
  - rewrite region_count, vstream_count in E2.
    destruct (values_of_bytes (lead ++ weave (region_items n0 ++ vstream_items l))) as [a b].
    cbn [fst snd] in *. congruence.
Qed.

Print Assumptions garbage_step.
Print Assumptions noise_run.
Print Assumptions noise_invisible.
Print Assumptions noise_removed.
Print Assumptions noise_invisible_regions.
