(* ReadErrFilesProofs.v — read failures over a LIST of inputs: the single-input theorems of C16
   (read_error_not_eof, read_error_events_prefix) lifted to read_files and go *)
From Jawk Require Import Base F64 Json Reader JsonParser Ctx Printer Fn Expr Chain ExprParser Go PipelineSpec.
From Jawk Require Import OrderProofs SorterProofs ChainProofs GoProofs IoProofs BuildProofs LocalityProofs FilesProofs.
From Coq Require Import Lia.
Import ListNotations.

(* components of a read_files result *)
Definition fst_of (x : list sstate * list oev * option gres * list N) : list sstate := fst (fst (fst x)).
Definition fev_of (x : list sstate * list oev * option gres * list N) : list oev := snd (fst (fst x)).
Definition ferr_of (x : list sstate * list oev * option gres * list N) : option gres := snd (fst x).
Definition fpl_of (x : list sstate * list oev * option gres * list N) : list N := snd x.

Section Files.
Variables (cf : cfg) (p : printer) (sts : list stage) (nt : nat).

(* ---------- the loop with the run index it reached (read_files does not return it) ---------- *)
Fixpoint read_files_idx (ins : list (option str * list ev)) (ss : list sstate) (idx : N)
  : list sstate * list oev * option gres * list N * N :=
  match ins with
  | [] => (ss, [], None, [], idx)
  | (fname, evs) :: t =>
      let '(ss1, o, idx1, e, r) := read_input cf p sts nt (input_fuel evs) (mk_reader evs) fname ss idx 0 in
      match e with
      | Some g => (ss1, o, Some g, [pulled r], idx1)
      | None => let '(ss2, o2, e2, pl, idx2) := read_files_idx t ss1 idx1 in
                (ss2, o ++ o2, e2, pulled r :: pl, idx2)
      end
  end.

Lemma read_files_idx_fst : forall ins ss idx,
  fst (read_files_idx ins ss idx) = read_files cf p sts nt ins ss idx.
Proof.
  induction ins as [|[fname evs] t IH]; intros ss idx; [reflexivity|].
  cbn [read_files_idx read_files].
  destruct (read_input cf p sts nt (input_fuel evs) (mk_reader evs) fname ss idx 0) as [[[[ss1 o] idx1] e] r].
  destruct e as [g|]; [reflexivity|].
  rewrite <- (IH ss1 idx1).
  destruct (read_files_idx t ss1 idx1) as [[[[ss2 o2] e2] pl] idx2]. reflexivity.
Qed.

(* read_files over a concatenation: the first part alone, then — only when it ended without an error —
   the second part from the states and the run index the first part reached *)
Theorem read_files_app : forall a t ss idx,
  read_files cf p sts nt (a ++ t) ss idx =
  let '(ss1, o1, e1, pl1, idx1) := read_files_idx a ss idx in
  match e1 with
  | Some g => (ss1, o1, Some g, pl1)
  | None => let '(ss2, o2, e2, pl2) := read_files cf p sts nt t ss1 idx1 in (ss2, o1 ++ o2, e2, pl1 ++ pl2)
  end.
Proof.
  induction a as [|[fname evs] a IH]; intros t ss idx.
  - cbn [app read_files_idx].
    destruct (read_files cf p sts nt t ss idx) as [[[ss2 o2] e2] pl2]. reflexivity.
  - cbn [app read_files read_files_idx].
    destruct (read_input cf p sts nt (input_fuel evs) (mk_reader evs) fname ss idx 0) as [[[[ss1 o] idx1] e] r].
    destruct e as [g|]; [reflexivity|].
    rewrite (IH t ss1 idx1).
    destruct (read_files_idx a ss1 idx1) as [[[[ss2 o2] e2] pl] idx2].
    destruct e2 as [g|]; [reflexivity|].
    destruct (read_files cf p sts nt t ss2 idx2) as [[[ss3 o3] e3] pl3].
    rewrite app_assoc. reflexivity.
Qed.

(* ---------- (A) the loop stops in the input where the error occurred ---------- *)
Theorem read_files_error_stops : forall ins ss idx ss' o g pl,
  read_files cf p sts nt ins ss idx = (ss', o, Some g, pl) ->
  exists a fname evs rest,
    ins = a ++ (fname, evs) :: rest /\ length pl = S (length a) /\
    (* the inputs before it ended without an error, and the failing one returned the error *)
    exists ss1 o1 idx1 ss2 o2 idx2 r,
      read_files_idx a ss idx = (ss1, o1, None, removelast pl, idx1) /\
      read_input cf p sts nt (input_fuel evs) (mk_reader evs) fname ss1 idx1 0 = (ss2, o2, idx2, Some g, r) /\
      ss' = ss2 /\ o = o1 ++ o2 /\ pl = removelast pl ++ [pulled r].
Proof.
  induction ins as [|[fname evs] t IH]; intros ss idx ss' o g pl H; [discriminate|].
  cbn [read_files] in H.
  destruct (read_input cf p sts nt (input_fuel evs) (mk_reader evs) fname ss idx 0) as [[[[ss1 o1] idx1] e] r] eqn:E.
  destruct e as [g1|].
  - injection H as <- <- <- <-.
    exists [], fname, evs, t. split; [reflexivity|]. split; [reflexivity|].
    exists ss, [], idx, ss1, o1, idx1, r. cbn [read_files_idx removelast app].
    repeat split; assumption.
  - destruct (read_files cf p sts nt t ss1 idx1) as [[[ss2 o2] e2] pl2] eqn:E2.
    injection H as <- <- -> <-.
    destruct (IH _ _ _ _ _ _ E2) as (a & fn & evs' & rest & Hins & Hlen & s1 & q1 & i1 & s2 & q2 & i2 & r2 & Ha & Hr & Hs & Ho & Hpl).
    exists ((fname, evs) :: a), fn, evs', rest. split; [rewrite Hins; reflexivity|].
    split; [cbn [length]; rewrite Hlen; reflexivity|].
    assert (Hne : pl2 <> []) by (intros ->; discriminate).
    exists s1, (o1 ++ q1), i1, s2, q2, i2, r2.
    cbn [read_files_idx]. rewrite E, Ha.
    assert (Hrl : removelast (pulled r :: pl2) = pulled r :: removelast pl2).
    { destruct pl2; [congruence|reflexivity]. }
    rewrite Hrl. repeat split; auto.
    + rewrite Ho, app_assoc. reflexivity.
    + cbn [app]. rewrite <- Hpl. reflexivity.
Qed.

(* the short form: one pulled count per input opened, the last being the failing input, so no later
   input was opened *)
Corollary read_files_error_stops_len : forall ins ss idx ss' o g pl,
  read_files cf p sts nt ins ss idx = (ss', o, Some g, pl) ->
  exists a fname evs rest, ins = a ++ (fname, evs) :: rest /\ length pl = S (length a).
Proof.
  intros ins ss idx ss' o g pl H.
  destruct (read_files_error_stops _ _ _ _ _ _ _ H) as (a & fn & evs & rest & H1 & H2 & _).
  exists a, fn, evs, rest. auto.
Qed.

(* without an error every input was opened *)
Theorem read_files_ok_all : forall ins ss idx ss' o pl,
  read_files cf p sts nt ins ss idx = (ss', o, None, pl) -> length pl = length ins.
Proof.
  induction ins as [|[fname evs] t IH]; intros ss idx ss' o pl H.
  - injection H as <- <- <-. reflexivity.
  - cbn [read_files] in H.
    destruct (read_input cf p sts nt (input_fuel evs) (mk_reader evs) fname ss idx 0) as [[[[ss1 o1] idx1] e] r].
    destruct e as [g1|]; [discriminate|].
    destruct (read_files cf p sts nt t ss1 idx1) as [[[ss2 o2] e2] pl2] eqn:E2.
    injection H as <- <- -> <-. cbn [length]. rewrite (IH _ _ _ _ _ E2). reflexivity.
Qed.

(* ---------- the only errors of the loop ---------- *)
Lemma read_input_err_kind : forall fuel r fname ss idx infile g,
  err_of (read_input cf p sts nt fuel r fname ss idx infile) = Some g ->
  g = GErrIo \/ (g = GErrJson /\ c_on_error cf = OnPanic).
Proof.
  induction fuel as [|f IH]; intros r fname ss idx infile g; unfold err_of.
  - cbn [read_input fst snd]. intros H. injection H as <-. left. reflexivity.
  - cbn [read_input]. cbv zeta.
    destruct (next_json_value r) as [res r'].
    destruct (io r'); [cbn [fst snd]; intros H; injection H as <-; left; reflexivity|].
    destruct res as [v| | |].
    + destruct (c_only_objs cf && negb (is_container v)); [apply IH|].
      match goal with |- context [process expr get sts ss ?c] =>
        destruct (process expr get sts ss c) as [[ss1 o] d] end.
      destruct d.
      * specialize (IH r' fname ss1 (idx + 1)%N (infile + 1)%N g). unfold err_of in IH.
        destruct (read_input cf p sts nt f r' fname ss1 (idx + 1) (infile + 1)) as [[[[a1 b1] c1] d1] e1].
        cbn [fst snd] in *. exact IH.
      * cbn [fst snd]. discriminate.
    + cbn [fst snd]. discriminate.
    + destruct (c_on_error cf) eqn:Ep;
        try (cbn [fst snd]; intros H; injection H as <-; right; split; reflexivity);
        (specialize (IH r' fname ss idx infile g); unfold err_of in IH;
         destruct (read_input cf p sts nt f r' fname ss idx infile) as [[[[a1 b1] c1] d1] e1];
         cbn [fst snd] in *; intros H; destruct (IH H) as [H1|[_ H1]]; [left; exact H1|discriminate]).
    + cbn [fst snd]. intros H. injection H as <-. left. reflexivity.
Qed.

Lemma read_files_err_kind : forall ins ss idx g,
  ferr_of (read_files cf p sts nt ins ss idx) = Some g ->
  g = GErrIo \/ (g = GErrJson /\ c_on_error cf = OnPanic).
Proof.
  induction ins as [|[fname evs] t IH]; intros ss idx g; unfold ferr_of.
  - cbn [read_files fst snd]. discriminate.
  - cbn [read_files].
    pose proof (read_input_err_kind (input_fuel evs) (mk_reader evs) fname ss idx 0%N) as K. unfold err_of in K.
    destruct (read_input cf p sts nt (input_fuel evs) (mk_reader evs) fname ss idx 0) as [[[[ss1 o1] idx1] e] r].
    cbn [fst snd] in K.
    destruct e as [g1|].
    + cbn [fst snd]. intros H. injection H as <-. apply K. reflexivity.
    + specialize (IH ss1 idx1 g). unfold ferr_of in IH.
      destruct (read_files cf p sts nt t ss1 idx1) as [[[ss2 o2] e2] pl2]. cbn [fst snd] in *. exact IH.
Qed.

(* ---------- a read failure in ANY input of the list: never end of input, never skipped ---------- *)
Theorem read_files_read_error : forall a fname pre rst rest ss idx,
  (forall ss0 c, snd (process expr get sts ss0 c) = Continue) ->
  let evs := map EB pre ++ EErr :: rst in
  let e := ferr_of (read_files cf p sts nt (a ++ (fname, evs) :: rest) ss idx) in
  e <> None /\ (c_on_error cf <> OnPanic -> e = Some GErrIo).
Proof.
  intros a fname pre rst rest ss idx Hnb evs e.
  assert (Hne : e <> None).
  { unfold e. clear e. revert ss idx. induction a as [|[fn ev0] a IH]; intros ss idx; unfold ferr_of.
    - cbn [app read_files].
      pose proof (read_error_not_eof cf p sts nt fname pre rst ss idx 0%N Hnb) as H. cbv zeta in H.
      fold evs in H.
      destruct (read_input cf p sts nt (input_fuel evs) (mk_reader evs) fname ss idx 0) as [[[[ss1 o1] idx1] e1] r].
      destruct H as [H _]. destruct e1 as [g|]; [cbn [fst snd]; discriminate|congruence].
    - cbn [app read_files].
      destruct (read_input cf p sts nt (input_fuel ev0) (mk_reader ev0) fn ss idx 0) as [[[[ss1 o1] idx1] e1] r].
      destruct e1 as [g|]; [cbn [fst snd]; discriminate|].
      specialize (IH ss1 idx1). unfold ferr_of in IH.
      destruct (read_files cf p sts nt (a ++ (fname, evs) :: rest) ss1 idx1) as [[[ss2 o2] e2] pl2].
      cbn [fst snd] in *. exact IH. }
  split; [exact Hne|]. intros Hp.
  destruct e as [g|] eqn:E; [|congruence].
  destruct (read_files_err_kind _ _ _ _ E) as [->|[_ H]]; [reflexivity|congruence].
Qed.

(* ---------- the events before the failure are a prefix of the events of the fault-free run ---------- *)
(* same inputs before and after; the failing input `pre, EErr, ...` against the fault-free `pre ++ more`.
   Nothing is assumed of the inputs before: were one of them to fail, both runs stop there, alike. *)
Theorem read_files_error_events_prefix : forall a fname pre rst more rest ss idx,
  let evs_err := map EB pre ++ EErr :: rst in
  let evs_ok := map EB (pre ++ more) in
  let x_err := read_files cf p sts nt (a ++ (fname, evs_err) :: rest) ss idx in
  let x_ok := read_files cf p sts nt (a ++ (fname, evs_ok) :: rest) ss idx in
  (exists tl, fev_of x_ok = fev_of x_err ++ tl) /\
  (ferr_of x_err = None ->
   fst_of x_ok = fst_of x_err /\ fev_of x_ok = fev_of x_err /\ ferr_of x_ok = None /\ fpl_of x_ok = fpl_of x_err).
Proof.
  intros a fname pre rst more rest ss idx evs_err evs_ok. cbv zeta.
  revert ss idx. induction a as [|[fn ev0] a IH]; intros ss idx.
  - cbn [app read_files].
    assert (Ag : agree (length pre) (mk_reader evs_err) (mk_reader evs_ok)).
    { unfold evs_err, evs_ok. rewrite map_app. apply agree_init_events. }
    pose proof (read_input_prefix cf p sts nt (length pre)
                  (input_fuel evs_err) (input_fuel evs_ok) (mk_reader evs_err) (mk_reader evs_ok)
                  fname ss idx 0%N Ag (err_at_init pre rst) (m_mk_reader _) (m_mk_reader _)) as H.
    cbv zeta in H.
    destruct (read_input cf p sts nt (input_fuel evs_err) (mk_reader evs_err) fname ss idx 0) as [[[[a1 b1] c1] d1] e1].
    destruct (read_input cf p sts nt (input_fuel evs_ok) (mk_reader evs_ok) fname ss idx 0) as [[[[a2 b2] c2] d2] e2].
    unfold ev_of, err_of in H. cbn [fst snd] in H. destruct H as [[tl Htl] H2].
    destruct d1 as [g1|].
    + unfold fst_of, fev_of, ferr_of, fpl_of. cbn [fst snd]. split; [|discriminate].
      destruct d2 as [g2|].
      * cbn [fst snd]. exists tl. exact Htl.
      * destruct (read_files cf p sts nt rest a2 c2) as [[[ss3 o3] e3] pl3]. cbn [fst snd].
        exists (tl ++ o3). rewrite Htl, app_assoc. reflexivity.
    + destruct (H2 eq_refl) as [E1 E2]. injection E1 as <- <- <- <-.
      destruct (read_files cf p sts nt rest a1 c1) as [[[ss3 o3] e3] pl3].
      unfold fst_of, fev_of, ferr_of, fpl_of. cbn [fst snd]. split.
      * exists []. symmetry. apply app_nil_r.
      * intros He. rewrite E2. auto.
  - cbn [app read_files].
    destruct (read_input cf p sts nt (input_fuel ev0) (mk_reader ev0) fn ss idx 0) as [[[[ss1 o1] idx1] e1] r].
    destruct e1 as [g|].
    + unfold fst_of, fev_of, ferr_of, fpl_of. cbn [fst snd]. split; [exists []; symmetry; apply app_nil_r|discriminate].
    + specialize (IH ss1 idx1). unfold fst_of, fev_of, ferr_of, fpl_of in *.
      destruct (read_files cf p sts nt (a ++ (fname, evs_err) :: rest) ss1 idx1) as [[[s2 q2] e2] l2].
      destruct (read_files cf p sts nt (a ++ (fname, evs_ok) :: rest) ss1 idx1) as [[[s3 q3] e3] l3].
      cbn [fst snd] in *. destruct IH as [[tl Htl] IH2]. split.
      * exists tl. rewrite Htl, app_assoc. reflexivity.
      * intros He. destruct (IH2 He) as (-> & -> & -> & ->). auto.
Qed.
End Files.

(* ---------- (B) the result of go is the result of the loop; on an error no completion rows ---------- *)
Theorem go_error_result : forall cf ins b p sts hdr,
  build_pipeline cf = Some (p, sts) ->
  start_output p (titles expr sts []) (c_rowsep cf) = Some hdr ->
  let nt := length (titles expr sts []) in
  let hev := match hdr with [] => [] | _ => [OOut hdr] end in
  let x := read_files cf p sts nt ins (map (init_state expr) sts) 0 in
  (g_result (go cf ins b) = GOk <-> ferr_of x = None) /\
  (forall g, ferr_of x = Some g ->
     g_result (go cf ins b) = g /\ g <> GOk /\ g_events (go cf ins b) = hev ++ fev_of x) /\
  (ferr_of x = None ->
     g_events (go cf ins b) = hev ++ fev_of x ++ emit cf p nt (complete expr get sts (fst_of x))) /\
  g_pulled (go cf ins b) = fpl_of x.
Proof.
  intros cf ins b p sts hdr Hbp Hst nt hev x.
  pose proof (read_files_err_kind cf p sts nt ins (map (init_state expr) sts) 0%N) as K.
  unfold go. rewrite Hbp. cbv zeta. rewrite Hst. fold nt. fold x. fold x in K.
  destruct x as [[[ss o] e] pl]. unfold ferr_of, fev_of, fst_of, fpl_of in *. cbn [fst snd] in *.
  destruct e as [g|]; cbn [g_result g_events g_pulled].
  - assert (Hg : g <> GOk) by (destruct (K g eq_refl) as [->|[-> _]]; discriminate).
    split; [split; intros H; congruence|]. split; [|split; [discriminate|reflexivity]].
    intros g0 H. injection H as <-. auto.
  - split; [split; reflexivity|]. split; [discriminate|]. split; reflexivity.
Qed.

(* ---------- (C) at the level of go, for a list of inputs ---------- *)
Theorem go_files_read_error : forall cf a fname pre rst rest b p sts hdr,
  build_pipeline cf = Some (p, sts) ->
  start_output p (titles expr sts []) (c_rowsep cf) = Some hdr ->
  (forall ss c, snd (process expr get sts ss c) = Continue) ->
  let evs := map EB pre ++ EErr :: rst in
  let ins := a ++ (fname, evs) :: rest in
  g_result (go cf ins b) <> GOk /\
  (c_on_error cf <> OnPanic -> g_result (go cf ins b) = GErrIo) /\
  (* no later input is opened *)
  (length (g_pulled (go cf ins b)) <= S (length a))%nat.
Proof.
  intros cf a fname pre rst rest b p sts hdr Hbp Hst Hnb evs ins.
  pose proof (go_error_result cf ins b p sts hdr Hbp Hst) as G. cbv zeta in G.
  destruct G as (_ & G & _ & Gp).
  pose proof (read_files_read_error cf p sts (length (titles expr sts [])) a fname pre rst rest
                (map (init_state expr) sts) 0%N Hnb) as R. cbv zeta in R. fold evs in R. fold ins in R.
  destruct R as [R1 R2].
  destruct (ferr_of (read_files cf p sts (length (titles expr sts [])) ins (map (init_state expr) sts) 0)) as [g|] eqn:E;
    [|congruence].
  destruct (G g eq_refl) as (Gr & Gne & _). rewrite Gr. split; [exact Gne|]. split.
  - intros Hp. specialize (R2 Hp). congruence.
  - rewrite Gp.
    destruct (read_files cf p sts (length (titles expr sts [])) ins (map (init_state expr) sts) 0) as [[[ss' o] e'] pl] eqn:E2.
    unfold ferr_of, fpl_of in *. cbn [fst snd] in *. subst e'.
    destruct (read_files_error_stops_len _ _ _ _ _ _ _ _ _ _ _ E2) as (a' & fn' & evs' & rest' & Hins & Hlen).
    rewrite Hlen.
    (* the loop stopped at or before the failing input: a' is no longer than a *)
    destruct (le_lt_dec (length a') (length a)) as [Hle|Hlt]; [lia|exfalso].
    (* otherwise every input up to and including the failing one ended without an error *)
    pose proof (read_files_app cf p sts (length (titles expr sts [])) (a ++ [(fname, evs)]) rest
                  (map (init_state expr) sts) 0%N) as A.
    rewrite <- app_assoc in A. cbn [app] in A. fold ins in A. rewrite E2 in A.
    destruct (read_files_idx cf p sts (length (titles expr sts [])) (a ++ [(fname, evs)]) (map (init_state expr) sts) 0)
      as [[[[s1 q1] e1] l1] i1] eqn:E3.
    pose proof (read_files_idx_fst cf p sts (length (titles expr sts [])) (a ++ [(fname, evs)]) (map (init_state expr) sts) 0%N) as F.
    rewrite E3 in F. cbn [fst] in F.
    destruct e1 as [g1|].
    + injection A as _ _ _ ->.
      symmetry in F. destruct (read_files_error_stops_len _ _ _ _ _ _ _ _ _ _ _ F) as (a2 & fn2 & evs2 & rest2 & Hins2 & Hlen2).
      assert (L : length (a ++ [(fname, evs)]) = length (a2 ++ (fn2, evs2) :: rest2)) by (rewrite Hins2; reflexivity).
      rewrite !app_length in L. cbn [length] in L. lia.
    + pose proof (read_files_read_error cf p sts (length (titles expr sts [])) a fname pre rst []
                    (map (init_state expr) sts) 0%N Hnb) as R. cbv zeta in R. fold evs in R.
      rewrite <- F in R. unfold ferr_of in R. cbn [fst snd] in R. destruct R as [R _]. congruence.
Qed.

Theorem go_files_read_error_prefix : forall cf a fname pre rst more rest b,
  let evs_err := map EB pre ++ EErr :: rst in
  let evs_ok := map EB (pre ++ more) in
  exists tl,
    g_events (go cf (a ++ (fname, evs_ok) :: rest) b) =
    g_events (go cf (a ++ (fname, evs_err) :: rest) b) ++ tl.
Proof.
  intros cf a fname pre rst more rest b evs_err evs_ok. unfold go.
  destruct (build_pipeline cf) as [[p sts]|]; [|exists []; reflexivity]. cbv zeta.
  destruct (start_output p (titles expr sts []) (c_rowsep cf)) as [hdr|]; [|exists []; reflexivity].
  pose proof (read_files_error_events_prefix cf p sts (length (titles expr sts [])) a fname pre rst more rest
                (map (init_state expr) sts) 0%N) as H. cbv zeta in H. fold evs_err evs_ok in H.
  destruct (read_files cf p sts (length (titles expr sts [])) (a ++ (fname, evs_err) :: rest)
              (map (init_state expr) sts) 0) as [[[s1 q1] e1] l1].
  destruct (read_files cf p sts (length (titles expr sts [])) (a ++ (fname, evs_ok) :: rest)
              (map (init_state expr) sts) 0) as [[[s2 q2] e2] l2].
  unfold fst_of, fev_of, ferr_of, fpl_of in H. cbn [fst snd] in H. destruct H as [[tl Htl] H2].
  destruct e1 as [g1|].
  - destruct e2 as [g2|]; cbn [g_events]; rewrite Htl.
    + exists tl. rewrite !app_assoc. reflexivity.
    + eexists. rewrite <- !app_assoc. reflexivity.
  - destruct (H2 eq_refl) as (-> & -> & -> & ->). cbn [g_events]. exists []. symmetry. apply app_nil_r.
Qed.

Print Assumptions read_files_app.
Print Assumptions read_files_error_stops.
Print Assumptions read_files_error_stops_len.
Print Assumptions read_files_ok_all.
Print Assumptions read_files_err_kind.
Print Assumptions read_files_read_error.
Print Assumptions read_files_error_events_prefix.
Print Assumptions go_error_result.
Print Assumptions go_files_read_error.
Print Assumptions go_files_read_error_prefix.
