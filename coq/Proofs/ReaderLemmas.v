(* ReaderLemmas.v — the byte reader specified on its unread `view`, UTF-8 round trip,
   hexadecimal digits, decimal digit facts.  Lemmas only; no axioms. *)
From Coq Require Import List NArith ZArith Bool Lia Zify ZifyClasses ZifyBool ZifyInst.
From Jawk Require Import Base Reader.
Import ListNotations.
Local Open Scope N_scope.

#[local] Arguments N.add : simpl never.
#[local] Arguments N.mul : simpl never.
#[local] Arguments N.sub : simpl never.
#[local] Arguments N.div : simpl never.
#[local] Arguments N.modulo : simpl never.
#[local] Arguments N.eqb : simpl never.
#[local] Arguments N.ltb : simpl never.
#[local] Arguments N.leb : simpl never.

(* linear arithmetic with division/modulo by constants *)
Ltac dlia := zify; Z.quot_rem_to_equations; Z.div_mod_to_equations; lia.

Ltac splits := repeat match goal with |- _ /\ _ => split end.

(* decide closed comparisons of numerals *)
Ltac ground_eqb :=
  repeat match goal with
  | |- context [N.eqb ?a ?b] =>
      let v := eval vm_compute in (N.eqb a b) in
      match v with
      | true => change (N.eqb a b) with true
      | false => change (N.eqb a b) with false
      end
  end.

(* ---------- the reader invariant ---------- *)
(* at end of input nothing is left; the pending events are all bytes (no read error) *)
Definition rd_ok (r : reader) : Prop :=
  (eof r = true -> cur r = None /\ rest r = []) /\ rest r = map EB (ev_bytes (rest r)).

Lemma ev_bytes_map bs : ev_bytes (map EB bs) = bs.
Proof. induction bs as [|b bs IH]; cbn; congruence. Qed.

Lemma rd_ok_of_bytes bs : rd_ok (reader_of_bytes bs).
Proof.
  unfold rd_ok, reader_of_bytes, mk_reader; cbn. split; [discriminate|].
  now rewrite ev_bytes_map.
Qed.

Lemma view_of_bytes bs : view (reader_of_bytes bs) = bs.
Proof. unfold view, reader_of_bytes, mk_reader; cbn. apply ev_bytes_map. Qed.

Lemma view_len r : rd_ok r ->
  (length (rest r) <= length (view r) /\ length (view r) <= S (length (rest r)))%nat.
Proof.
  intros [_ H]. assert (E : length (rest r) = length (ev_bytes (rest r))).
  { rewrite H at 1. apply map_length. }
  unfold view. destruct (cur r); cbn [length]; lia.
Qed.

Lemma view_len_cur r b : rd_ok r -> cur r = Some b -> length (view r) = S (length (rest r)).
Proof.
  intros [_ H] Hc. assert (E : length (rest r) = length (ev_bytes (rest r))).
  { rewrite H at 1. apply map_length. }
  unfold view. rewrite Hc. cbn [length]. lia.
Qed.

Lemma peek_spec r : rd_ok r ->
  exists r', peek r = (hd_error (view r), r') /\ view r' = view r /\ rd_ok r' /\
             cur r' = hd_error (view r).
Proof.
  destruct r as [c e rs ln cl pl i]; unfold rd_ok, view, peek, next; cbn.
  intros [Hok Hb]. destruct c as [c|].
  - eexists; splits; cbn; eauto.
  - destruct e.
    + destruct (Hok eq_refl) as [_ ->]. eexists; splits; cbn; eauto.
    + destruct rs as [|[b|] rs]; cbn in *.
      * eexists; splits; cbn; eauto.
      * injection Hb as Hb. eexists; splits; cbn; eauto. discriminate.
      * discriminate.
Qed.

Lemma peek_cons r b l : rd_ok r -> view r = b :: l ->
  exists r', peek r = (Some b, r') /\ view r' = b :: l /\ cur r' = Some b /\ rd_ok r'.
Proof.
  intros Hok Hv. destruct (peek_spec r Hok) as (r' & Hp & Hv' & Hok' & Hc').
  rewrite Hv in *. cbn [hd_error] in *. eauto.
Qed.

Lemma peek_nil r : rd_ok r -> view r = [] ->
  exists r', peek r = (None, r') /\ view r' = [] /\ rd_ok r'.
Proof.
  intros Hok Hv. destruct (peek_spec r Hok) as (r' & Hp & Hv' & Hok' & Hc').
  rewrite Hv in *. cbn [hd_error] in *. eauto.
Qed.

(* advancing past the current byte *)
Lemma next_drop r b l : rd_ok r -> cur r = Some b -> view r = b :: l ->
  exists r', next r = (hd_error l, r') /\ view r' = l /\ rd_ok r' /\ cur r' = hd_error l.
Proof.
  destruct r as [c e rs ln cl pl i]; unfold rd_ok, view, next; cbn.
  intros [Hok Hb] Hc Hv. subst c. injection Hv as Hv. destruct e.
  - destruct (Hok eq_refl); discriminate.
  - destruct rs as [|[x|] rs]; cbn in *.
    + subst l. eexists; splits; cbn; eauto.
    + subst l. injection Hb as Hb. eexists; splits; cbn; eauto. discriminate.
    + discriminate.
Qed.

(* ---------- whitespace ---------- *)
Definition nws (l : list byte) : Prop := match l with b :: _ => is_ws b = false | [] => True end.

Lemma eat_ws_spec (w : list byte) : forall fuel r tl, rd_ok r -> Forall (fun b => is_ws b = true) w ->
  nws tl -> view r = w ++ tl -> (length w < fuel)%nat ->
  view (eat_ws fuel r) = tl /\ rd_ok (eat_ws fuel r).
Proof.
  induction w as [|b w IH]; intros fuel r tl Hok Hws Htl Hv Hf.
  - destruct fuel as [|f]; [cbn in Hf; lia|]. cbn [app] in Hv. cbn [eat_ws].
    destruct tl as [|c tl].
    + destruct (peek_nil r Hok Hv) as (r' & -> & Hv' & Hok'). auto.
    + destruct (peek_cons r c tl Hok Hv) as (r' & -> & Hv' & Hc' & Hok'). cbn [nws] in Htl.
      rewrite Htl. auto.
  - destruct fuel as [|f]; [cbn in Hf; lia|]. inversion Hws as [|? ? Hb Hw']; subst.
    cbn [app] in Hv. cbn [eat_ws].
    destruct (peek_cons r b (w ++ tl) Hok Hv) as (r' & -> & Hv' & Hc' & Hok').
    rewrite Hb. destruct (next_drop r' b _ Hok' Hc' Hv') as (r'' & Hn & Hv'' & Hok'' & _).
    rewrite Hn. cbn [snd]. apply IH; auto. cbn in Hf; lia.
Qed.

Lemma eat_whitespace_spec (w : list byte) r tl : rd_ok r -> Forall (fun b => is_ws b = true) w ->
  nws tl -> view r = w ++ tl ->
  view (eat_whitespace r) = tl /\ rd_ok (eat_whitespace r).
Proof.
  intros Hok Hw Htl Hv. unfold eat_whitespace. apply (eat_ws_spec w); auto.
  pose proof (view_len r Hok) as [_ H]. rewrite Hv, app_length in H. lia.
Qed.

(* ---------- digits ---------- *)
Definition ndigit (l : list byte) : Prop :=
  match l with b :: _ => is_digit b = false | [] => True end.

Lemma read_digits_f_spec (ds : list byte) : forall fuel acc r tl, rd_ok r ->
  Forall (fun b => is_digit b = true) ds -> ndigit tl ->
  view r = ds ++ tl -> (length ds < fuel)%nat ->
  exists r', read_digits_f fuel acc r = (acc ++ ds, r') /\ view r' = tl /\ rd_ok r'.
Proof.
  induction ds as [|d ds IH]; intros fuel acc r tl Hok Hd Htl Hv Hf;
    (destruct fuel as [|f]; [cbn in Hf; lia|]); cbn [read_digits_f].
  - cbn [app] in Hv. rewrite app_nil_r. destruct tl as [|c tl].
    + destruct (peek_nil r Hok Hv) as (r' & -> & ? & ?). eauto.
    + destruct (peek_cons r c tl Hok Hv) as (r' & -> & ? & ? & ?). cbn [ndigit] in Htl.
      rewrite Htl. eauto.
  - inversion Hd as [|? ? Hd1 Hd2]; subst. cbn [app] in Hv.
    destruct (peek_cons r d _ Hok Hv) as (r' & -> & Hv' & Hc' & Hok'). rewrite Hd1.
    destruct (next_drop r' d _ Hok' Hc' Hv') as (r'' & Hn & Hv'' & Hok'' & _). rewrite Hn. cbn [snd].
    destruct (IH f (acc ++ [d]) r'' tl Hok'' Hd2 Htl Hv'') as (r3 & -> & ? & ?); [cbn in Hf; lia|].
    rewrite <- app_assoc. cbn [app]. eauto.
Qed.

Lemma read_digits_spec (ds : list byte) acc r tl : rd_ok r ->
  Forall (fun b => is_digit b = true) ds -> ndigit tl -> view r = ds ++ tl ->
  exists r', read_digits acc r = (acc ++ ds, r') /\ view r' = tl /\ rd_ok r'.
Proof.
  intros Hok Hd Htl Hv. unfold read_digits. apply read_digits_f_spec; auto.
  pose proof (view_len r Hok) as [_ H]. rewrite Hv, app_length in H. lia.
Qed.

Lemma digit_range b : is_digit b = true <-> 48 <= b <= 57.
Proof.
  unfold is_digit. rewrite andb_true_iff, !N.leb_le. tauto.
Qed.

Lemma ws_cases b : is_ws b = true -> b = 32 \/ b = 10 \/ b = 9 \/ b = 13.
Proof.
  unfold is_ws. rewrite !orb_true_iff, !N.eqb_eq. tauto.
Qed.

Lemma ws_not_digit b : is_ws b = true -> is_digit b = false.
Proof.
  intros H. apply ws_cases in H. destruct H as [ -> | [ -> | [ -> | -> ] ] ]; reflexivity.
Qed.

Lemma not_ws b : b <> 32 -> b <> 10 -> b <> 9 -> b <> 13 -> is_ws b = false.
Proof.
  intros. unfold is_ws. rewrite !orb_false_iff, !N.eqb_neq. tauto.
Qed.

Lemma digit_not_ws b : is_digit b = true -> is_ws b = false.
Proof. intros H. apply digit_range in H. apply not_ws; lia. Qed.

(* ---------- UTF-8 ---------- *)
Lemma utf8_decode_cons b0 t : utf8_decode (b0 :: t) =
    if b0 <? 128 then option_map (cons b0) (utf8_decode t)
    else if b0 <? 194 then None
    else if b0 <? 224 then
      match t with
      | b1 :: t' => if is_cont b1 then option_map (cons ((b0 - 192) * 64 + (b1 - 128))) (utf8_decode t') else None
      | _ => None
      end
    else if b0 <? 240 then
      match t with
      | b1 :: b2 :: t' =>
          let c := (b0 - 224) * 4096 + (b1 - 128) * 64 + (b2 - 128) in
          if is_cont b1 && is_cont b2 && (2048 <=? c) && is_scalar c
          then option_map (cons c) (utf8_decode t') else None
      | _ => None
      end
    else if b0 <? 245 then
      match t with
      | b1 :: b2 :: b3 :: t' =>
          let c := (b0 - 240) * 262144 + (b1 - 128) * 4096 + (b2 - 128) * 64 + (b3 - 128) in
          if is_cont b1 && is_cont b2 && is_cont b3 && (65536 <=? c) && (c <? 1114112)
          then option_map (cons c) (utf8_decode t') else None
      | _ => None
      end
    else None.
Proof. reflexivity. Qed.

Lemma is_cont_low x : x < 64 -> is_cont (128 + x) = true.
Proof.
  intros H. unfold is_cont. apply andb_true_iff. split; [apply N.leb_le|apply N.ltb_lt]; lia.
Qed.

Lemma ltb_false a b : b <= a -> (a <? b) = false.
Proof. intros. apply N.ltb_ge. assumption. Qed.
Lemma ltb_true a b : a < b -> (a <? b) = true.
Proof. intros. apply N.ltb_lt. assumption. Qed.

Lemma scalar_lt c : is_scalar c = true -> c < 1114112.
Proof.
  unfold is_scalar. rewrite orb_true_iff, andb_true_iff, !N.ltb_lt. lia.
Qed.

Lemma utf8_decode_encode_char c t : is_scalar c = true ->
  utf8_decode (utf8_encode_char c ++ t) = option_map (cons c) (utf8_decode t).
Proof.
  intros Hs. pose proof (scalar_lt c Hs) as Hlt. unfold utf8_encode_char.
  destruct (N.ltb_spec c 128) as [H1|H1]; [|destruct (N.ltb_spec c 2048) as [H2|H2];
    [|destruct (N.ltb_spec c 65536) as [H3|H3]]]; cbn [app]; rewrite utf8_decode_cons.
  - rewrite (ltb_true c 128) by assumption. reflexivity.
  - rewrite (ltb_false (192 + c / 64) 128) by dlia.
    rewrite (ltb_false (192 + c / 64) 194) by dlia.
    rewrite (ltb_true (192 + c / 64) 224) by dlia.
    rewrite is_cont_low by dlia.
    replace ((192 + c / 64 - 192) * 64 + (128 + c mod 64 - 128)) with c by dlia. reflexivity.
  - rewrite (ltb_false (224 + c / 4096) 128) by dlia.
    rewrite (ltb_false (224 + c / 4096) 194) by dlia.
    rewrite (ltb_false (224 + c / 4096) 224) by dlia.
    rewrite (ltb_true (224 + c / 4096) 240) by dlia.
    cbv zeta.
    replace ((224 + c / 4096 - 224) * 4096 + (128 + (c / 64) mod 64 - 128) * 64 + (128 + c mod 64 - 128))
      with c by dlia.
    rewrite !is_cont_low by dlia. rewrite Hs.
    replace (2048 <=? c) with true by (symmetry; apply N.leb_le; lia). reflexivity.
  - rewrite (ltb_false (240 + c / 262144) 128) by dlia.
    rewrite (ltb_false (240 + c / 262144) 194) by dlia.
    rewrite (ltb_false (240 + c / 262144) 224) by dlia.
    rewrite (ltb_false (240 + c / 262144) 240) by dlia.
    rewrite (ltb_true (240 + c / 262144) 245) by dlia.
    cbv zeta.
    replace ((240 + c / 262144 - 240) * 262144 + (128 + (c / 4096) mod 64 - 128) * 4096 +
             (128 + (c / 64) mod 64 - 128) * 64 + (128 + c mod 64 - 128)) with c by dlia.
    rewrite !is_cont_low by dlia.
    replace (65536 <=? c) with true by (symmetry; apply N.leb_le; lia).
    rewrite (ltb_true c 1114112) by assumption. reflexivity.
Qed.

Lemma utf8_decode_encode s : Forall (fun c => is_scalar c = true) s ->
  utf8_decode (flat_map utf8_encode_char s) = Some s.
Proof.
  induction s as [|c s IH]; intros H; [reflexivity|].
  inversion H as [|? ? Hc Hs]; subst. cbn [flat_map].
  rewrite utf8_decode_encode_char by assumption. rewrite IH by assumption. reflexivity.
Qed.

(* every byte of a multi-byte encoding is >= 128; a one-byte encoding is the character *)
Lemma utf8_encode_char_bytes c : is_scalar c = true ->
  (c < 128 /\ utf8_encode_char c = [c]) \/
  (128 <= c /\ utf8_encode_char c <> [] /\ Forall (fun b => 128 <= b) (utf8_encode_char c)).
Proof.
  intros Hs. pose proof (scalar_lt c Hs) as Hlt. unfold utf8_encode_char.
  destruct (N.ltb_spec c 128) as [H1|H1]; [left; auto|right].
  destruct (N.ltb_spec c 2048) as [H2|H2]; [|destruct (N.ltb_spec c 65536) as [H3|H3]];
    (split; [assumption|split; [discriminate|]]); repeat constructor; dlia.
Qed.

(* ---------- lists of code points ---------- *)
Lemma str_eqb_eq a : forall b, str_eqb a b = true <-> a = b.
Proof.
  unfold str_eqb. induction a as [|x a IH]; intros [|y b]; cbn [list_eqb]; try (split; [discriminate|congruence]).
  - tauto.
  - rewrite andb_true_iff, N.eqb_eq, IH. split; [intros [-> ->]; reflexivity|intros H; injection H; auto].
Qed.

Lemma str_eqb_neq a b : a <> b -> str_eqb a b = false.
Proof.
  intros H. destruct (str_eqb a b) eqn:E; [|reflexivity]. apply str_eqb_eq in E. contradiction.
Qed.
