(* PolicyFilesProofs.v — go_run_policy generalised from one input to a list of inputs: under every --on-error
   policy but panic, for a pipeline that never answers Break, the events of `go` are the header followed by an
   interleaving of the rows of Chain.run over the contexts of all the inputs with one diagnostic per malformed
   region of any input. *)
From Jawk Require Import Base F64 Json Reader JsonParser Ctx Printer Fn Expr Chain ExprParser Go PipelineSpec.
From Jawk Require Import OrderProofs SorterProofs ChainProofs GoProofs BuildProofs LocalityProofs FilesProofs.
From Coq Require Import Lia.
Local Open Scope N_scope.

(* the number of recoverable errors of a list of inputs (the record index runs on as in ctxs_of_inputs) *)
Fixpoint errs_of_inputs (cf : cfg) (ins : list (option str * list ev)) (idx : N) : N :=
  match ins with
  | [] => 0
  | (fname, evs) :: t =>
      let '(cs, e, _) := read_ctxs (input_fuel evs) (c_only_objs cf) (mk_reader evs) fname idx 0 in
      e + errs_of_inputs cf t (idx + N.of_nat (length cs))
  end.

Lemma shuffle_app2 {A} (x1 y1 z1 x2 y2 z2 : list A) :
  shuffle x1 y1 z1 -> shuffle x2 y2 z2 -> shuffle (x1 ++ x2) (y1 ++ y2) (z1 ++ z2).
Proof.
  intros H1 H2. induction H1 as [|a x y z H IH|b x y z H IH]; cbn [app].
  - exact H2.
  - constructor. exact IH.
  - constructor. exact IH.
Qed.

Lemma shuffle_app_tail {A} (q x y z : list A) : shuffle x y z -> shuffle (x ++ q) y (z ++ q).
Proof.
  intros H. pose proof (shuffle_app2 x y z q [] q H (shuffle_nil_r q)) as H2.
  rewrite app_nil_r in H2. exact H2.
Qed.

Lemma errs_add pol a b : errs pol (a + b)%nat = errs pol a ++ errs pol b.
Proof. unfold errs. rewrite repeat_app, concat_app. reflexivity. Qed.

Section PolicyFeed.
Variables (cf : cfg) (p : printer) (sts : list stage) (nt : nat).
Hypothesis not_panic : c_on_error cf <> OnPanic.
Hypothesis never_break : forall ss c, snd (process expr get sts ss c) = Continue.

Lemma read_input_policy_feed : forall fuel r fname ss idx infile,
  no_eerr r -> io r = false ->
  snd (read_ctxs fuel (c_only_objs cf) r fname idx infile) = false ->
  let cs := fst (fst (read_ctxs fuel (c_only_objs cf) r fname idx infile)) in
  let e := snd (fst (read_ctxs fuel (c_only_objs cf) r fname idx infile)) in
  exists o r',
    read_input cf p sts nt fuel r fname ss idx infile =
      (fst (fst (feed expr get sts cs ss)), o, idx + N.of_nat (length cs), None, r') /\
    shuffle (emit cf p nt (snd (fst (feed expr get sts cs ss)))) (errs (c_on_error cf) (N.to_nat e)) o.
Proof.
  induction fuel as [|f IH]; intros r fname ss idx infile Hn Hio Hb.
  - cbn in Hb. discriminate.
  - cbn [read_input read_ctxs] in *. cbv zeta in *.
    destruct (next_json_value r) as [res r1] eqn:E.
    destruct (next_json_value_clean r res r1 Hn Hio E) as [Hn1 Hio1].
    rewrite Hio1 in *.
    destruct res as [v| | |].
    + destruct (c_only_objs cf && negb (is_container v)).
      * apply IH; assumption.
      * set (c := new_with_input v _) in *.
        specialize (IH r1 fname).
        destruct (read_ctxs f (c_only_objs cf) r1 fname (idx + 1) (infile + 1)) as [[cs e] b] eqn:Ec.
        cbn [fst snd] in *. rewrite feed_cons.
        pose proof (never_break ss c) as Hd.
        destruct (process expr get sts ss c) as [[ss1 o] d]. cbn [snd] in Hd. subst d.
        destruct (IH ss1 (idx + 1) (infile + 1) Hn1 Hio1) as (o2 & r2 & E2 & Hev).
        { rewrite Ec. exact Hb. }
        rewrite E2. rewrite Ec in *. cbn [fst snd] in *.
        destruct (feed expr get sts cs ss1) as [[ss2 o2'] d2]. cbn [fst snd] in *.
        exists (emit cf p nt o ++ o2), r2. split.
        -- cbn [length]. rewrite Nat2N.inj_succ.
           replace (idx + 1 + N.of_nat (length cs)) with (idx + N.succ (N.of_nat (length cs))) by lia.
           reflexivity.
        -- rewrite emit_app. apply shuffle_app_l. exact Hev.
    + exists [], r1. cbn [fst snd length]. rewrite feed_nil. cbn [fst snd emit map N.of_nat].
      rewrite N.add_0_r. split; [reflexivity|]. cbn. constructor.
    + specialize (IH r1 fname ss idx infile Hn1 Hio1).
      destruct (read_ctxs f (c_only_objs cf) r1 fname idx infile) as [[cs e] b] eqn:Ec.
      cbn [fst snd] in *. destruct (IH Hb) as (o2 & r2 & E2 & Hev).
      replace (N.to_nat (e + 1)) with (S (N.to_nat e)) by lia.
      unfold errs. cbn [repeat concat]. fold (errs (c_on_error cf) (N.to_nat e)).
      destruct (c_on_error cf) eqn:Epol; [| congruence | |]; rewrite E2;
        eexists _, r2; (split; [reflexivity|]);
        apply shuffle_app_r; exact Hev.
    + cbn in Hb. discriminate.
Qed.

Lemma feed_continue_nb cs ss : snd (feed expr get sts cs ss) = Continue.
Proof. apply feed_decision_nb. exact never_break. Qed.

Lemma read_files_policy_feed : forall ins ss idx,
  Forall (fun i => Forall (fun e => e <> EErr) (snd i)) ins ->
  exists o pl, read_files cf p sts nt ins ss idx =
    (fst (fst (feed expr get sts (fst (ctxs_of_inputs cf ins idx)) ss)), o, None, pl) /\
    shuffle (emit cf p nt (snd (fst (feed expr get sts (fst (ctxs_of_inputs cf ins idx)) ss))))
            (errs (c_on_error cf) (N.to_nat (errs_of_inputs cf ins idx))) o.
Proof.
  induction ins as [|[fname evs] t IH]; intros ss idx Hall.
  - cbn [read_files ctxs_of_inputs errs_of_inputs fst]. rewrite feed_nil. exists [], []. split; [reflexivity|].
    cbn. constructor.
  - inversion Hall as [|? ? Hevs Ht]; subst. cbn [snd] in Hevs.
    cbn [read_files ctxs_of_inputs errs_of_inputs].
    pose proof (read_ctxs_mk_no_stop cf fname evs idx Hevs) as Hns.
    destruct (read_input_policy_feed (input_fuel evs) (mk_reader evs) fname ss idx 0
                (no_eerr_mk evs Hevs) eq_refl Hns) as (o1' & r' & E & Hev1).
    rewrite E. clear E.
    destruct (read_ctxs (input_fuel evs) (c_only_objs cf) (mk_reader evs) fname idx 0) as [[cs e] b].
    cbn [fst snd] in *.
    pose proof (feed_continue_nb cs ss) as Hd1.
    destruct (IH (fst (fst (feed expr get sts cs ss))) (idx + N.of_nat (length cs)) Ht) as (o2' & pl & E2 & Hev2).
    rewrite E2. clear E2.
    destruct (ctxs_of_inputs cf t (idx + N.of_nat (length cs))) as [cs2 b2]. cbn [fst] in *.
    rewrite feed_app.
    destruct (feed expr get sts cs ss) as [[ss1 o1] d1]. cbn [fst snd] in *. subst d1.
    destruct (feed expr get sts cs2 ss1) as [[ss2 o2] d2]. cbn [fst snd] in *.
    exists (o1' ++ o2'), (pulled r' :: pl). split; [reflexivity|].
    rewrite emit_app, N2Nat.inj_add, errs_add. apply shuffle_app2; assumption.
Qed.
End PolicyFeed.

Theorem go_files_policy : forall (cf : cfg) (ins : list (option str * list ev)) (b : bool) p sts hdr,
  c_on_error cf <> OnPanic ->
  Forall (fun i => Forall (fun e => e <> EErr) (snd i)) ins ->
  build_pipeline cf = Some (p, sts) ->
  start_output p (titles expr sts []) (c_rowsep cf) = Some hdr ->
  (forall ss c, snd (process expr get sts ss c) = Continue) ->
  g_result (go cf ins b) = GOk /\
  exists z, g_events (go cf ins b) = (match hdr with [] => [] | _ => [OOut hdr] end) ++ z /\
    shuffle (emit cf p (length (titles expr sts []))
               (Chain.run expr get sts (map (init_state expr) sts) (fst (ctxs_of_inputs cf ins 0))))
            (errs (c_on_error cf) (N.to_nat (errs_of_inputs cf ins 0))) z.
Proof.
  intros cf ins b p sts hdr Hpol Hall Hbp Hst Hnb.
  unfold go. rewrite Hbp. cbv zeta. rewrite Hst.
  destruct (read_files_policy_feed cf p sts (length (titles expr sts [])) Hpol Hnb ins
              (map (init_state expr) sts) 0 Hall) as (o & pl & E & Hev).
  rewrite E. cbn [g_result g_events]. split; [reflexivity|].
  eexists. split; [reflexivity|].
  rewrite run_feed.
  destruct (feed expr get sts (fst (ctxs_of_inputs cf ins 0)) (map (init_state expr) sts)) as [[ss' o'] d].
  cbn [fst snd] in *. rewrite emit_app. apply shuffle_app_tail. exact Hev.
Qed.

(* one input: the error count of the list version is that of the single-input function *)
Lemma errs_of_inputs_one cf fname evs :
  errs_of_inputs cf [(fname, evs)] 0 = snd (fst (ctxs_of_input cf fname evs)).
Proof.
  cbn [errs_of_inputs]. unfold ctxs_of_input.
  destruct (read_ctxs (input_fuel evs) (c_only_objs cf) (mk_reader evs) fname 0 0) as [[cs e] b].
  cbn [fst snd]. apply N.add_0_r.
Qed.

Print Assumptions go_files_policy.
