(* FloatText.v — the decimal reader and the shortest-digits printer of Model/F64.v against correct rounding:
   G1  dec2flt_correct      the reader (shortcuts included) is round_mag of the exact decimal value
   G2  shortest_roundtrips  the digits chosen by `shortest` denote a decimal that rounds back to the double
   G3  flt2dec_dec2flt      printing then reading is the identity on finite doubles
   Integer arithmetic only (cross-multiplied ratios), nothing classical, no axioms. *)
From Coq Require Import QArith Qabs Lia ZArith List NArith Bool.
From Jawk Require Import Base F64 F64Proofs PrinterProofs.
Import ListNotations.
Local Open Scope Z_scope.

(* PrinterProofs installs a zify hook for div/mod; this file does its own div/mod reasoning *)
Local Ltac Zify.zify_post_hook ::= idtac.

Local Opaque Z.pow.
Local Opaque p52 p53 p63 p64 inf_bits.

(* ================================================================== *)
(* 0. powers of ten                                                    *)
(* ================================================================== *)
Lemma pow10_pos k : 0 <= k -> 0 < 10 ^ k.
Proof. intros Hk. apply Z.pow_pos_nonneg; lia. Qed.

Lemma pow10_ge1 k : 0 <= k -> 1 <= 10 ^ k.
Proof. intros Hk. pose proof (pow10_pos k Hk). lia. Qed.

Lemma pow10_mono a b : 0 <= a <= b -> 10 ^ a <= 10 ^ b.
Proof. intros H. apply Z.pow_le_mono_r; lia. Qed.

(* ================================================================== *)
(* 1. digit strings                                                    *)
(* ================================================================== *)
Definition all_digits (l : list N) : Prop := forallb is_digit l = true.

Lemma is_digit_bounds c : is_digit c = true -> (48 <= c <= 57)%N.
Proof.
  unfold is_digit. intros H. apply andb_true_iff in H. destruct H as [H1 H2].
  apply N.leb_le in H1. apply N.leb_le in H2. lia.
Qed.

Lemma all_digits_app a b : all_digits (a ++ b) <-> all_digits a /\ all_digits b.
Proof. unfold all_digits. rewrite forallb_app. apply andb_true_iff. Qed.

Lemma all_digits_cons c l : all_digits (c :: l) <-> is_digit c = true /\ all_digits l.
Proof. unfold all_digits. cbn [forallb]. apply andb_true_iff. Qed.

Lemma all_digits_repeat k : all_digits (repeat 48%N k).
Proof. induction k as [| k IH]; [reflexivity |]. cbn [repeat]. apply all_digits_cons. split; [reflexivity | exact IH]. Qed.

Lemma N_of_digits_acc_app l1 l2 a :
  N_of_digits_acc (l1 ++ l2) a = N_of_digits_acc l2 (N_of_digits_acc l1 a).
Proof. revert a. induction l1 as [| x l1 IH]; intros a; cbn [app N_of_digits_acc]; auto. Qed.

(* value of a digit string with an accumulator: acc * 10^len + value *)
Lemma N_of_digits_acc_val l : forall a,
  Z.of_N (N_of_digits_acc l a) = Z.of_N a * 10 ^ Z.of_nat (length l) + Z.of_N (N_of_digits l).
Proof.
  unfold N_of_digits. induction l as [| c l IH]; intros a.
  - cbn [N_of_digits_acc length Z.of_nat]. rewrite Z.pow_0_r. cbn. lia.
  - cbn [N_of_digits_acc length]. rewrite IH. rewrite (IH (0 * 10 + (c - 48))%N).
    rewrite Nat2Z.inj_succ, Z.pow_succ_r by lia.
    rewrite !N2Z.inj_add, !N2Z.inj_mul. change (Z.of_N 0) with 0. change (Z.of_N 10) with 10. ring.
Qed.

Lemma N_of_digits_app l1 l2 :
  Z.of_N (N_of_digits (l1 ++ l2)) = Z.of_N (N_of_digits l1) * 10 ^ Z.of_nat (length l2) + Z.of_N (N_of_digits l2).
Proof. unfold N_of_digits at 1. rewrite N_of_digits_acc_app. rewrite N_of_digits_acc_val. reflexivity. Qed.

(* a string of k digits denotes a number below 10^k *)
Lemma N_of_digits_lt l : all_digits l -> Z.of_N (N_of_digits l) < 10 ^ Z.of_nat (length l).
Proof.
  induction l as [| c l IH] using rev_ind; intros Hd.
  - cbn. rewrite Z.pow_0_r. lia.
  - apply all_digits_app in Hd. destruct Hd as [Hl Hc]. apply all_digits_cons in Hc. destruct Hc as [Hc _].
    apply is_digit_bounds in Hc. specialize (IH Hl).
    rewrite N_of_digits_app. rewrite app_length. cbn [length].
    replace (Z.of_nat (length l + 1)) with (Z.of_nat (length l) + 1) by lia.
    rewrite Z.pow_add_r by lia. rewrite !Z.pow_1_r.
    assert (Hv : Z.of_N (N_of_digits [c]) = Z.of_N c - 48).
    { unfold N_of_digits. cbn [N_of_digits_acc]. lia. }
    rewrite Hv. lia.
Qed.

Lemma N_of_digits_zeros k : N_of_digits (repeat 48%N k) = 0%N.
Proof.
  induction k as [| k IH]; [reflexivity |]. cbn [repeat]. unfold N_of_digits in *. cbn [N_of_digits_acc]. exact IH.
Qed.

Lemma N_of_digits_strip l : N_of_digits (strip_zeros l) = N_of_digits l.
Proof.
  induction l as [| c l IH]; [reflexivity |]. cbn [strip_zeros].
  destruct (N.eq_dec c 48) as [-> | Hne].
  - rewrite IH. unfold N_of_digits. reflexivity.
  - destruct c as [| p]; [reflexivity |].
    repeat (destruct p as [p | p |]; try reflexivity); contradiction Hne; reflexivity.
Qed.

(* ---------- take_digits ---------- *)
Fixpoint td_go (l acc : list N) : list N * list N :=
  match l with
  | b :: t => if is_digit b then td_go t (acc ++ [b]) else (acc, l)
  | [] => (acc, [])
  end.
Lemma take_digits_go l : take_digits l = td_go l [].
Proof. reflexivity. Qed.

Definition stops (r : list N) : Prop := match r with [] => True | c :: _ => is_digit c = false end.

Lemma td_go_spec l : forall acc, exists a r, td_go l acc = (acc ++ a, r) /\ all_digits a /\ l = a ++ r /\ stops r.
Proof.
  induction l as [| b t IH]; intros acc.
  - exists [], []. cbn. rewrite app_nil_r. repeat split.
  - cbn [td_go]. destruct (is_digit b) eqn:Hb.
    + destruct (IH (acc ++ [b])) as (a & r & He & Ha & Hl & Hs).
      exists (b :: a), r. rewrite He, <- app_assoc. cbn [app]. split; [reflexivity |].
      split; [apply all_digits_cons; auto |]. split; [rewrite Hl; reflexivity | exact Hs].
    + exists [], (b :: t). rewrite app_nil_r. repeat split. exact Hb.
Qed.

Lemma take_digits_spec l : exists a r, take_digits l = (a, r) /\ all_digits a /\ l = a ++ r /\ stops r.
Proof. rewrite take_digits_go. destruct (td_go_spec l []) as (a & r & H). exists a, r. exact H. Qed.

Lemma td_go_app a : forall acc r, all_digits a -> stops r -> td_go (a ++ r) acc = (acc ++ a, r).
Proof.
  induction a as [| c a IH]; intros acc r Ha Hr.
  - cbn [app]. rewrite app_nil_r. destruct r as [| x r]; [reflexivity |]. cbn [td_go]. cbn in Hr. rewrite Hr. reflexivity.
  - apply all_digits_cons in Ha. destruct Ha as [Hc Ha]. cbn [app td_go]. rewrite Hc.
    rewrite IH by assumption. rewrite <- app_assoc. reflexivity.
Qed.

Lemma take_digits_app a r : all_digits a -> stops r -> take_digits (a ++ r) = (a, r).
Proof. intros Ha Hr. rewrite take_digits_go. apply (td_go_app a [] r Ha Hr). Qed.

(* what dec_split hands over consists of digits *)
Lemma dec_split_digits txt d :
  dec_split txt = Some d ->
  all_digits (d_int d) /\ all_digits (d_frac d) /\
  match d_exp d with Some (_, ds) => all_digits ds | None => True end.
Proof.
  unfold dec_split.
  set (nt := match txt with 45%N :: t => (true, t) | _ => (false, txt) end). destruct nt as [neg t].
  destruct (take_digits_spec t) as (ip & t1 & -> & Hip & _ & _).
  set (ft := match t1 with 46%N :: t' => take_digits t' | _ => ([], t1) end).
  assert (Hft : all_digits (fst ft)).
  { unfold ft. destruct t1 as [| c t1']; [reflexivity |].
    destruct (N.eq_dec c 46) as [-> | Hne].
    - destruct (take_digits_spec t1') as (a & r & -> & Ha & _). exact Ha.
    - destruct c as [| p]; [reflexivity |].
      repeat (destruct p as [p | p |]; try reflexivity); contradiction Hne; reflexivity. }
  destruct ft as [fp t2]. cbn [fst] in Hft.
  destruct t2 as [| c t'].
  - intros H. injection H as <-. cbn. auto.
  - destruct ((c =? 69)%N || (c =? 101)%N); [| discriminate].
    set (et := match t' with 45%N :: u => (true, u) | 43%N :: u => (false, u) | _ => (false, t') end).
    destruct et as [eneg t''].
    destruct (take_digits_spec t'') as (ep & rest & -> & Hep & _ & _).
    destruct rest; [| discriminate].
    intros H. injection H as <-. cbn. auto.
Qed.

(* ================================================================== *)
(* 2. G1: the reader is correct rounding of the exact decimal value    *)
(* ================================================================== *)
Lemma round_mag_nonneg n d : 0 < d -> 0 <= round_mag n d.
Proof.
  intros Hd. destruct (Z_lt_le_dec 0 n) as [Hn | Hn].
  - apply round_mag_range; assumption.
  - unfold round_mag. destruct (Z.leb_spec n 0); lia.
Qed.

Lemma round_mag_tiny_one : round_mag 1 (2 ^ 1075) = 0.
Proof. vm_compute. reflexivity. Qed.

(* below half the smallest subnormal everything rounds to zero *)
Lemma round_mag_tiny n d : 0 < n -> 0 < d -> n * 2 ^ 1075 <= d -> round_mag n d = 0.
Proof.
  intros Hn Hd Hle.
  pose proof (pow2_pos 1075 ltac:(lia)) as HP.
  pose proof (round_mag_monotone n d 1 (2 ^ 1075) Hn Hd ltac:(lia) HP ltac:(lia)) as Hm.
  rewrite round_mag_tiny_one in Hm. pose proof (round_mag_nonneg n d Hd). lia.
Qed.

Lemma thresh_le_pow10 : 2 ^ 1024 - 2 ^ 970 <= 10 ^ 311.
Proof. vm_compute. discriminate. Qed.
Lemma pow2_1075_le_pow10 : 2 ^ 1075 <= 10 ^ 331.
Proof. vm_compute. discriminate. Qed.

(* the exponent as written, not clamped *)
Definition dec_exp_val (d : dec) : Z :=
  match d_exp d with
  | None => 0
  | Some (eneg, ds) => let v := Z.of_N (N_of_digits (strip_zeros ds)) in if eneg then - v else v
  end.
(* at most six significant exponent digits: the clamp at +-100000 in dec2flt is not in force *)
Definition dec_unclamped (d : dec) : Prop :=
  match d_exp d with Some (_, ds) => (length (strip_zeros ds) <= 6)%nat | None => True end.

Lemma dec2flt_unfold txt d :
  dec_split txt = Some d -> dec_valid d = true -> dec_unclamped d ->
  dec2flt txt =
    let m := Z.of_N (N_of_digits (d_int d ++ d_frac d)) in
    let adj := dec_exp_val d - Z.of_nat (length (d_frac d)) in
    let nd := Z.of_nat (length (d_int d ++ d_frac d)) in
    if m =? 0 then Some (with_sign (d_neg d) 0)
    else if 310 <? adj then Some (with_sign (d_neg d) inf_bits)
    else if adj + nd <? -330 then Some (with_sign (d_neg d) 0)
    else if 0 <=? adj then Some (f_of_ratio (d_neg d) (m * 10 ^ adj) 1)
    else Some (f_of_ratio (d_neg d) m (10 ^ (- adj))).
Proof.
  intros Hsplit Hvalid Hunc. unfold dec2flt. rewrite Hsplit, Hvalid. change (negb true) with false. cbv iota.
  unfold dec_exp_val, dec_unclamped in *. destruct (d_exp d) as [[eneg ds] |]; [| reflexivity].
  cbv zeta. destruct (Nat.ltb_spec 6 (length (strip_zeros ds))) as [Hbad | _]; [lia | reflexivity].
Qed.

Theorem dec2flt_correct : forall txt d,
  dec_split txt = Some d -> dec_valid d = true -> dec_unclamped d ->
  let m := Z.of_N (N_of_digits (d_int d ++ d_frac d)) in
  let adj := dec_exp_val d - Z.of_nat (length (d_frac d)) in
  dec2flt txt =
    Some (if m =? 0 then with_sign (d_neg d) 0
          else f_of_ratio (d_neg d) (m * 10 ^ Z.max adj 0) (10 ^ Z.max (- adj) 0)).
Proof.
  intros txt d Hsplit Hvalid Hunc m adj.
  destruct (dec_split_digits txt d Hsplit) as (Hdi & Hdf & _).
  rewrite (dec2flt_unfold txt d Hsplit Hvalid Hunc). cbv zeta. fold m. fold adj.
  set (nd := Z.of_nat (length (d_int d ++ d_frac d))).
  assert (Hm0 : 0 <= m) by (unfold m; lia).
  assert (Hmlt : m < 10 ^ nd).
  { unfold m, nd. apply N_of_digits_lt. apply all_digits_app. split; assumption. }
  assert (Hnd : 0 <= nd) by (unfold nd; lia).
  destruct (Z.eqb_spec m 0) as [Hz | Hnz]; [reflexivity |].
  assert (Hmpos : 0 < m) by lia.
  destruct (Z.ltb_spec 310 adj) as [Hbig | Hnb].
  - (* overflow shortcut *)
    f_equal. unfold f_of_ratio. f_equal. symmetry.
    rewrite Z.max_l by lia. rewrite (Z.max_r (- adj) 0) by lia. rewrite Z.pow_0_r.
    pose proof (pow10_pos adj ltac:(lia)) as HP.
    apply round_mag_overflow; [nia | lia |].
    pose proof thresh_le_pow10 as HT. pose proof (pow10_mono 311 adj ltac:(lia)) as HM. nia.
  - destruct (Z.ltb_spec (adj + nd) (-330)) as [Hsmall | Hns].
    + (* underflow shortcut *)
      f_equal. unfold f_of_ratio. f_equal. symmetry.
      rewrite (Z.max_r adj 0) by lia. rewrite (Z.max_l (- adj) 0) by lia. rewrite Z.pow_0_r, Z.mul_1_r.
      pose proof (pow10_pos (- adj) ltac:(lia)) as HP.
      apply round_mag_tiny; [lia | lia |].
      pose proof pow2_1075_le_pow10 as HT.
      pose proof (pow10_mono (nd + 331) (- adj) ltac:(lia)) as HM.
      rewrite Z.pow_add_r in HM by lia.
      pose proof (pow2_pos 1075 ltac:(lia)) as H2. pose proof (pow10_pos nd Hnd) as H10.
      revert HT HM H2 H10 Hmlt. generalize (2 ^ 1075) (10 ^ 331) (10 ^ nd) (10 ^ (- adj)).
      intros A B C D HT HM H2 H10 Hmlt.
      assert (H1 : m * A <= C * A) by nia. assert (H3 : C * A <= C * B) by nia. lia.
    + destruct (Z.leb_spec 0 adj) as [Hpos | Hneg].
      * rewrite Z.max_l by lia. rewrite (Z.max_r (- adj) 0) by lia. rewrite Z.pow_0_r. reflexivity.
      * rewrite (Z.max_r adj 0) by lia. rewrite (Z.max_l (- adj) 0) by lia. rewrite Z.pow_0_r, Z.mul_1_r. reflexivity.
Qed.

(* G1 with f_of_ratio_correct: a non-zero text reads as the NEAREST double to its exact value x = m*10^adj,
   or as infinity from the overflow threshold 2^1024 - 2^970 on *)
Corollary dec2flt_nearest : forall txt d,
  dec_split txt = Some d -> dec_valid d = true -> dec_unclamped d ->
  let m := Z.of_N (N_of_digits (d_int d ++ d_frac d)) in
  let adj := dec_exp_val d - Z.of_nat (length (d_frac d)) in
  let n := m * 10 ^ Z.max adj 0 in
  let dn := 10 ^ Z.max (- adj) 0 in
  0 < m ->
  exists bits : N, dec2flt txt = Some bits /\
    (((2 ^ 1024 - 2 ^ 970) * dn <= n /\ f_decode bits = FInf (d_neg d)) \/
     (n < (2 ^ 1024 - 2 ^ 970) * dn /\
      exists fm fe, f_decode bits = FFin (d_neg d) fm fe /\
        forall b y, 0 <= b < inf_bits -> mag_value b = Some y ->
          (Qabs ((n # Z.to_pos dn) - inject_Z fm * pow2 fe) <= Qabs ((n # Z.to_pos dn) - y))%Q)).
Proof.
  intros txt d Hsplit Hvalid Hunc m adj n dn Hm.
  pose proof (dec2flt_correct txt d Hsplit Hvalid Hunc) as H. cbv zeta in H. fold m adj in H.
  destruct (Z.eqb_spec m 0) as [Hz | _]; [lia |].
  exists (f_of_ratio (d_neg d) n dn). split; [exact H |].
  apply f_of_ratio_correct.
  - unfold n. pose proof (pow10_pos (Z.max adj 0) ltac:(lia)). nia.
  - unfold dn. apply pow10_pos. lia.
Qed.

(* ================================================================== *)
(* 3. powers of ten of either sign, as numerator / denominator         *)
(* ================================================================== *)
Definition P10 (k : Z) : Z := 10 ^ Z.max k 0.       (* 10^k = P10 k / Q10 k *)
Definition Q10 (k : Z) : Z := 10 ^ Z.max (- k) 0.

Lemma P10_pos k : 0 < P10 k. Proof. apply pow10_pos. lia. Qed.
Lemma Q10_pos k : 0 < Q10 k. Proof. apply pow10_pos. lia. Qed.
Lemma P10_nonneg k : 0 <= k -> P10 k = 10 ^ k /\ Q10 k = 1.
Proof. intros Hk. unfold P10, Q10. rewrite Z.max_l by lia. rewrite Z.max_r by lia. rewrite Z.pow_0_r. auto. Qed.
Lemma P10_neg k : k <= 0 -> P10 k = 1 /\ Q10 k = 10 ^ (- k).
Proof. intros Hk. unfold P10, Q10. rewrite Z.max_r by lia. rewrite Z.max_l by lia. rewrite Z.pow_0_r. auto. Qed.

Lemma PQ_add a b : P10 (a + b) * Q10 a * Q10 b = P10 a * P10 b * Q10 (a + b).
Proof. unfold P10, Q10. rewrite <- !Z.pow_add_r by lia. f_equal. lia. Qed.

Lemma mul_pow10_eq n d p : mul_pow10 n d p = (n * P10 p, d * Q10 p).
Proof.
  unfold mul_pow10. destruct (Z.leb_spec 0 p) as [Hp | Hp].
  - destruct (P10_nonneg p Hp) as [-> ->]. f_equal. lia.
  - destruct (P10_neg p ltac:(lia)) as [-> ->]. f_equal. lia.
Qed.

Lemma lt_pow10_eq n d k : lt_pow10 n d k = (n * Q10 k <? d * P10 k).
Proof.
  unfold lt_pow10. destruct (Z.leb_spec 0 k) as [Hk | Hk].
  - destruct (P10_nonneg k Hk) as [-> ->]. rewrite Z.mul_1_r. reflexivity.
  - destruct (P10_neg k ltac:(lia)) as [-> ->]. rewrite Z.mul_1_r. reflexivity.
Qed.

Lemma lt_pow10_false n d k : lt_pow10 n d k = false <-> d * P10 k <= n * Q10 k.
Proof. rewrite lt_pow10_eq. rewrite Z.ltb_ge. reflexivity. Qed.

(* 10^j <= v and j' <= j give 10^j' <= v *)
Lemma lt_pow10_false_mono n d j j' :
  0 < n -> 0 < d -> j' <= j -> lt_pow10 n d j = false -> lt_pow10 n d j' = false.
Proof.
  intros Hn Hd Hj H. rewrite lt_pow10_false in *.
  pose proof (PQ_add j' (j - j')) as HPQ. replace (j' + (j - j')) with j in HPQ by lia.
  destruct (P10_nonneg (j - j') ltac:(lia)) as [HP HQ]. rewrite HQ in HPQ.
  pose proof (pow10_ge1 (j - j') ltac:(lia)) as H1. rewrite <- HP in H1.
  pose proof (P10_pos j) as A1. pose proof (Q10_pos j) as A2. pose proof (P10_pos j') as A3. pose proof (Q10_pos j') as A4.
  revert HPQ H1 H A1 A2 A3 A4. generalize (P10 j) (Q10 j) (P10 j') (Q10 j') (P10 (j - j')).
  intros Pj Qj Pj' Qj' Pb HPQ H1 H A1 A2 A3 A4.
  (* d * Pj' * Pb * Qj = d * Pj * Qj' <= n * Qj * Qj' *)
  assert (E1 : d * Pj' * Pb * Qj = d * Pj * Qj') by (replace (d * Pj' * Pb * Qj) with (d * (Pj' * Pb * Qj)) by ring; rewrite <- HPQ; ring).
  assert (E2 : d * Pj * Qj' <= n * Qj * Qj') by nia.
  assert (E3 : d * Pj' * Qj <= d * Pj' * Pb * Qj) by nia.
  assert (E4 : (d * Pj') * Qj <= (n * Qj') * Qj) by lia.
  apply Z.mul_le_mono_pos_r in E4; assumption.
Qed.

(* ================================================================== *)
(* 4. rounding between the two neighbouring midpoints                  *)
(* ================================================================== *)
Lemma ival_inf : ival inf_bits = p52 * 2 ^ 2046.
Proof.
  pose proof p52_pos. pose proof p53_eq. pose proof inf_bits_eq.
  replace inf_bits with (2046 * p52 + p52) by lia. apply ival_enc; lia.
Qed.

Lemma top_midpoint : (p53 - 1) * 2 ^ 2045 + p52 * 2 ^ 2046 = 2 * ((2 ^ 1024 - 2 ^ 970) * S1074).
Proof. vm_compute. reflexivity. Qed.

(* strictly between the midpoints to the neighbouring doubles, a ratio rounds to b *)
Lemma round_mag_between n d b :
  0 < n -> 0 < d -> 0 < b < inf_bits ->
  (ival (b - 1) + ival b) * d < 2 * (n * S1074) < (ival b + ival (b + 1)) * d ->
  round_mag n d = b.
Proof.
  intros Hn Hd Hb [Hlo Hhi].
  pose proof (round_mag_range n d Hn Hd) as Hrange.
  pose proof (ival_lt (b - 1) b ltac:(lia)) as Hi1.
  pose proof (ival_lt b (b + 1) ltac:(lia)) as Hi2.
  assert (Hfin : round_mag n d < inf_bits).
  { destruct (Z.eq_dec (round_mag n d) inf_bits) as [Hinf | Hne]; [exfalso | lia].
    apply (round_mag_overflow n d Hn Hd) in Hinf.
    pose proof (ival_le b (inf_bits - 1) ltac:(lia)) as H1.
    pose proof (ival_le (b + 1) inf_bits ltac:(lia)) as H2.
    rewrite ival_max in H1. rewrite ival_inf in H2.
    pose proof top_midpoint as HT. pose proof S1074_pos as HS.
    revert Hinf HT H1 H2. generalize (2 ^ 1024 - 2 ^ 970) ((p53 - 1) * 2 ^ 2045) (p52 * 2 ^ 2046).
    intros T M1 M2 Hinf HT H1 H2.
    assert (H3 : (ival b + ival (b + 1)) * d <= (M1 + M2) * d) by nia.
    assert (H4 : 2 * (T * S1074) * d <= 2 * (n * S1074)) by nia.
    lia. }
  pose proof (round_mag_nearest_Z n d Hn Hd Hfin b ltac:(lia)) as Hnear.
  set (R := round_mag n d) in *.
  assert (Hx1 : ival (b - 1) * d < ival b * d) by nia.
  assert (Hx2 : ival b * d < ival (b + 1) * d) by nia.
  destruct (Z.lt_trichotomy R b) as [Hlt | [Heq | Hgt]]; [exfalso | exact Heq | exfalso].
  - pose proof (ival_le R (b - 1) ltac:(lia)) as Hle.
    assert (Hy : ival R * d <= ival (b - 1) * d) by nia. lia.
  - pose proof (ival_le (b + 1) R ltac:(lia)) as Hle.
    assert (Hy : ival (b + 1) * d <= ival R * d) by nia. lia.
Qed.

(* the gaps around a double: the lower gap is at least a 2^-53 part of the value *)
Lemma gap_bounds b :
  0 < b < inf_bits ->
  0 < ival b - ival (b - 1) <= ival (b + 1) - ival b /\ ival b <= p53 * (ival b - ival (b - 1)).
Proof.
  intros Hb. pose proof p52_pos as Hp. pose proof p53_eq as Hp53.
  destruct (bits_decomp b ltac:(lia)) as (k & m & Hk & Hm & Hc & ->).
  pose proof (pow2_pos k Hk) as HK.
  rewrite (ival_enc k m) by lia.
  replace (k * p52 + m + 1) with (k * p52 + (m + 1)) by lia.
  rewrite (ival_enc k (m + 1)) by lia.
  destruct (Z.eq_dec m p52) as [Hmp | Hmp].
  - subst m. destruct (Z.eq_dec k 0) as [Hk0 | Hk0].
    + subst k. replace (0 * p52 + p52 - 1) with (0 * p52 + (p52 - 1)) by lia.
      rewrite (ival_enc 0 (p52 - 1)) by lia. rewrite Z.pow_0_r. lia.
    + replace (k * p52 + p52 - 1) with ((k - 1) * p52 + (p53 - 1)) by lia.
      rewrite (ival_enc (k - 1) (p53 - 1)) by lia.
      assert (HkE : 2 ^ k = 2 * 2 ^ (k - 1)).
      { replace k with (k - 1 + 1) at 1 by lia. rewrite Z.pow_add_r by lia. rewrite Z.pow_1_r. lia. }
      rewrite HkE. clear HkE HK.
      pose proof (pow2_pos (k - 1) ltac:(lia)) as HK1. revert HK1. generalize (2 ^ (k - 1)). intros E HE. nia.
  - replace (k * p52 + m - 1) with (k * p52 + (m - 1)) by lia.
    assert (Hm0 : 0 < m) by lia.
    rewrite (ival_enc k (m - 1)) by lia.
    revert HK. generalize (2 ^ k). intros E HE. nia.
Qed.

Lemma p53_lt_pow10_16 : p53 < 10 ^ 16.
Proof. vm_compute. reflexivity. Qed.

(* KEY: with 17 significant digits, one of the two decimal neighbours of v rounds back to v.
   v = n/d is the double with bits b; p is the exponent of the last digit; 10^(p+16) <= v. *)
Lemma seventeen_digits n d b p :
  0 < n -> 0 < d -> 0 < b < inf_bits -> n * S1074 = ival b * d ->
  d * P10 (p + 16) <= n * Q10 (p + 16) ->
  let sn := n * Q10 p in let sd := d * P10 p in
  let lo := sn / sd in
  0 < lo /\ (round_mag (lo * P10 p) (1 * Q10 p) = b \/ round_mag ((lo + 1) * P10 p) (1 * Q10 p) = b).
Proof.
  intros Hn Hd Hb Hex Hge sn sd lo.
  pose proof (P10_pos p) as HA. pose proof (Q10_pos p) as HB. pose proof (Q10_pos (p + 16)) as HQ.
  pose proof (PQ_add p 16) as HPQ.
  destruct (P10_nonneg 16 ltac:(lia)) as [HP16 HQ16]. rewrite HP16, HQ16 in HPQ.
  pose proof S1074_pos as HS. pose proof p53_lt_pow10_16 as H53.
  pose proof (pow10_pos 16 ltac:(lia)) as HT.
  destruct (gap_bounds b Hb) as [[HGl HG] HV].
  set (V := ival b) in *. set (Vm := ival (b - 1)) in *. set (Vp := ival (b + 1)) in *.
  assert (Hsd : 0 < sd) by (unfold sd; nia).
  (* sd * 10^16 <= sn *)
  assert (Hbig : sd * 10 ^ 16 <= sn).
  { unfold sn, sd. revert HPQ Hge HA HB HQ HT. generalize (P10 (p + 16)) (Q10 (p + 16)) (P10 p) (Q10 p) (10 ^ 16).
    intros P16 Q16 A B T HPQ Hge HA HB HQ HT.
    assert (E1 : (d * A * T) * Q16 = d * P16 * B) by (replace (d * P16 * B) with (d * (P16 * B * 1)) by ring; rewrite HPQ; ring).
    assert (E2 : d * P16 * B <= n * Q16 * B) by nia.
    assert (E3 : (d * A * T) * Q16 <= (n * B) * Q16) by lia.
    apply Z.mul_le_mono_pos_r in E3; assumption. }
  pose proof (Z.div_mod sn sd ltac:(lia)) as Hdm. pose proof (Z.mod_pos_bound sn sd Hsd) as Hr.
  fold lo in Hdm. set (r := sn mod sd) in *.
  assert (Hlo : 10 ^ 16 <= lo).
  { apply Z.div_le_lower_bound; [exact Hsd | lia]. }
  split; [lia |].
  (* the decimal step is smaller than the lower gap: A * 2^1074 < Gl * B *)
  set (A := P10 p) in *. set (B := Q10 p) in *. set (T := 10 ^ 16) in *.
  assert (HW : sn * S1074 = V * B * d) by (unfold sn; replace (n * B * S1074) with (n * S1074 * B) by ring; rewrite Hex; ring).
  assert (Hstep : A * S1074 < (V - Vm) * B).
  { assert (E1 : d * (A * S1074 * T) <= d * (V * B)).
    { replace (d * (A * S1074 * T)) with (sd * T * S1074) by (unfold sd; ring).
      replace (d * (V * B)) with (V * B * d) by ring. rewrite <- HW. nia. }
    apply Z.mul_le_mono_pos_l in E1; [| exact Hd].
    assert (E2 : V * B <= p53 * (V - Vm) * B) by nia.
    assert (E3 : p53 * ((V - Vm) * B) < T * ((V - Vm) * B)) by (apply Z.mul_lt_mono_pos_r; nia).
    assert (E4 : (A * S1074) * T < ((V - Vm) * B) * T) by lia.
    apply Z.mul_lt_mono_pos_r in E4; assumption. }
  (* scaled by d, as linear atoms *)
  assert (HF : S1074 * sd < (V - Vm) * B * d).
  { replace (S1074 * sd) with (A * S1074 * d) by (unfold sd; ring). apply Z.mul_lt_mono_pos_r; assumption. }
  assert (HGd : (V - Vm) * B * d <= (Vp - V) * B * d) by nia.
  assert (Hcand : forall c, 2 * (c * A * S1074) * d = 2 * (V * B * d) + 2 * S1074 * (c * sd - sn)).
  { intros c. rewrite <- HW. unfold sd. ring. }
  assert (HE : 0 <= S1074 * r) by nia.
  destruct (Z_le_gt_dec (2 * r) sd) as [Hhalf | Hhalf].
  - left. apply round_mag_between; [nia | lia | exact Hb |]. fold V Vm Vp.
    assert (Hc : 2 * S1074 * (lo * sd - sn) = - (2 * (S1074 * r))) by (rewrite Hdm; ring).
    assert (HE2 : 2 * (S1074 * r) <= S1074 * sd) by nia.
    split; apply Z.mul_lt_mono_pos_r with (p := d); try exact Hd.
    + replace ((Vm + V) * (1 * B) * d) with (2 * (V * B * d) - (V - Vm) * B * d) by ring.
      rewrite Hcand, Hc. lia.
    + replace ((V + Vp) * (1 * B) * d) with (2 * (V * B * d) + (Vp - V) * B * d) by ring.
      rewrite Hcand, Hc. lia.
  - right. apply round_mag_between; [nia | lia | exact Hb |]. fold V Vm Vp.
    assert (Hc : 2 * S1074 * ((lo + 1) * sd - sn) = 2 * (S1074 * sd) - 2 * (S1074 * r)) by (rewrite Hdm; ring).
    assert (HE2 : S1074 * sd < 2 * (S1074 * r)) by nia.
    assert (HE3 : S1074 * r < S1074 * sd) by nia.
    split; apply Z.mul_lt_mono_pos_r with (p := d); try exact Hd.
    + replace ((Vm + V) * (1 * B) * d) with (2 * (V * B * d) - (V - Vm) * B * d) by ring.
      rewrite Hcand, Hc. lia.
    + replace ((V + Vp) * (1 * B) * d) with (2 * (V * B * d) + (Vp - V) * B * d) by ring.
      rewrite Hcand, Hc. lia.
Qed.

(* ================================================================== *)
(* 5. what f_decode guarantees about a finite pattern                  *)
(* ================================================================== *)
Definition ratio_of (m e : Z) : Z * Z := if 0 <=? e then (m * 2 ^ e, 1) else (m, 2 ^ (- e)).

Lemma decode_fin bits s m e :
  f_decode bits = FFin s m e ->
  let b := f_mag (Z.of_N bits) in
  0 <= b < inf_bits /\ s = f_sign (Z.of_N bits) /\ ival b = m * 2 ^ (e + 1074) /\
  -1074 <= e <= 971 /\ 0 <= m < p53 /\ (0 < m -> 0 < b) /\ (m = 0 -> b = 0).
Proof.
  pose proof p52_pos as Hp. pose proof p53_eq as Hp53. pose proof inf_bits_eq as Hinf. pose proof p63_eq as Hp63.
  unfold f_decode. cbv zeta. intros H. set (b := f_mag (Z.of_N bits)) in *.
  assert (Hb : 0 <= b < p63) by (apply Z.mod_pos_bound; lia).
  pose proof (Z.div_mod b p52 ltac:(lia)) as Hdm. pose proof (Z.mod_pos_bound b p52 Hp) as Hmod.
  assert (Hq : 0 <= b / p52 < 2048).
  { split; [apply Z.div_pos; lia | apply Z.div_lt_upper_bound; lia]. }
  unfold ival.
  destruct (Z.eqb_spec (b / p52) 2047) as [H47 | H47].
  - destruct (b mod p52 =? 0); discriminate.
  - destruct (Z.eqb_spec (b / p52) 0) as [H0 | H0]; injection H as Hs Hm He; subst s m e.
    + change (-1074 + 1074) with 0. rewrite Z.pow_0_r. repeat split; try lia; nia.
    + replace (b / p52 - 1075 + 1074) with (b / p52 - 1) by lia. repeat split; try lia; nia.
Qed.

Lemma ratio_of_exact m e b :
  -1074 <= e -> 0 < m -> ival b = m * 2 ^ (e + 1074) ->
  let '(n, d) := ratio_of m e in 0 < n /\ 0 < d /\ n * S1074 = ival b * d.
Proof.
  intros He Hm Hi. unfold ratio_of. rewrite Hi, S1074_eq. destruct (Z.leb_spec 0 e) as [Hpos | Hneg].
  - pose proof (pow2_pos e Hpos). split; [nia |]. split; [lia |]. rewrite Z.pow_add_r by lia. ring.
  - pose proof (pow2_pos (- e) ltac:(lia)). split; [lia |]. split; [lia |].
    replace 1074 with (e + 1074 + - e) at 1 by lia. rewrite (Z.pow_add_r 2 (e + 1074) (- e)) by lia. ring.
Qed.

Lemma ratio_of_log m e :
  -1074 <= e <= 971 -> 0 < m < p53 ->
  let '(n, d) := ratio_of m e in -1100 <= Z.log2 n - Z.log2 d <= 1100.
Proof.
  intros He Hm. unfold ratio_of.
  assert (Hlm : 0 <= Z.log2 m < 53).
  { split; [apply Z.log2_nonneg |]. apply Z.log2_lt_pow2; [lia |]. replace (2 ^ 53) with p53 by reflexivity. lia. }
  destruct (Z.leb_spec 0 e) as [Hpos | Hneg].
  - change (Z.log2 1) with 0. rewrite Z.log2_mul_pow2 by lia. lia.
  - rewrite Z.log2_pow2 by lia. lia.
Qed.

(* ================================================================== *)
(* 6. the decimal exponent estimate                                    *)
(* ================================================================== *)
Definition kest_of (L : Z) : Z := (L * 30103) / 100000.
(* 10^(kest - 2) <= 2^(L - 1) *)
Definition kest_check (L : Z) : bool :=
  let j := kest_of L - 2 in
  P10 j * 2 ^ Z.max (1 - L) 0 <=? Q10 j * 2 ^ Z.max (L - 1) 0.

Definition zrange (lo : Z) (len : nat) : list Z := map (fun i => lo + Z.of_nat i) (seq 0 len).
Lemma zrange_in lo len z : lo <= z < lo + Z.of_nat len -> In z (zrange lo len).
Proof.
  intros Hz. unfold zrange. apply in_map_iff. exists (Z.to_nat (z - lo)). split; [lia |].
  apply in_seq. lia.
Qed.

Lemma kest_check_all_b : forallb kest_check (zrange (-1100) 2201) = true.
Proof. vm_compute. reflexivity. Qed.

Lemma kest_check_all L : -1100 <= L <= 1100 -> kest_check L = true.
Proof.
  intros HL. pose proof kest_check_all_b as H. rewrite forallb_forall in H. apply H. apply zrange_in. lia.
Qed.

Lemma kest_lower n d :
  0 < n -> 0 < d -> -1100 <= Z.log2 n - Z.log2 d <= 1100 ->
  lt_pow10 n d (kest_of (Z.log2 n - Z.log2 d) - 2) = false.
Proof.
  intros Hn Hd HL. pose proof (kest_check_all _ HL) as Hc. unfold kest_check in Hc. cbv zeta in Hc.
  apply Z.leb_le in Hc. apply lt_pow10_false.
  set (L := Z.log2 n - Z.log2 d) in *. set (j := kest_of L - 2) in *.
  destruct (Z.log2_spec n Hn) as [Hn1 Hn2]. destruct (Z.log2_spec d Hd) as [Hd1 Hd2].
  pose proof (Z.log2_nonneg n) as Hln. pose proof (Z.log2_nonneg d) as Hld.
  pose proof (pow_le_core n d (Z.log2 n) (Z.succ (Z.log2 d)) 0 (Z.max (1 - L) 0) (Z.max (L - 1) 0)
                Hn Hd Hn1 Hd2 ltac:(lia) ltac:(lia) ltac:(lia) ltac:(lia) ltac:(lia) ltac:(unfold L; lia)) as Hv.
  rewrite Z.pow_0_r, Z.mul_1_l in Hv.
  pose proof (pow2_pos (Z.max (1 - L) 0) ltac:(lia)) as HX'. pose proof (pow2_pos (Z.max (L - 1) 0) ltac:(lia)) as HX.
  pose proof (P10_pos j) as HP. pose proof (Q10_pos j) as HQ.
  revert Hc Hv HX HX' HP HQ. generalize (P10 j) (Q10 j) (2 ^ Z.max (1 - L) 0) (2 ^ Z.max (L - 1) 0).
  intros Pj Qj X' X Hc Hv HX HX' HP HQ.
  assert (E1 : d * (Pj * X') * X <= d * (Qj * X) * X) by nia.
  assert (E2 : Qj * X * (d * X) <= Qj * X * (n * X')) by nia.
  assert (E3 : (d * Pj) * (X * X') <= (n * Qj) * (X * X')) by lia.
  apply Z.mul_le_mono_pos_r in E3; [exact E3 | nia].
Qed.

Lemma dec_exp_up_le fuel n d : forall k, dec_exp_up fuel n d k <= k + Z.of_nat fuel.
Proof.
  induction fuel as [| f IH]; intros k; cbn [dec_exp_up]; [lia |].
  destruct (lt_pow10 n d k); [lia |]. specialize (IH (k + 1)). lia.
Qed.

Lemma dec_exp_down_spec fuel n d : forall k,
  lt_pow10 n d (k - Z.of_nat fuel - 1) = false -> lt_pow10 n d (dec_exp_down fuel n d k - 1) = false.
Proof.
  induction fuel as [| f IH]; intros k H; cbn [dec_exp_down].
  - replace (k - Z.of_nat 0 - 1) with (k - 1) in H by lia. exact H.
  - destruct (lt_pow10 n d (k - 1)) eqn:Ht; cbn [negb]; [| exact Ht].
    apply IH. replace (k - 1 - Z.of_nat f - 1) with (k - Z.of_nat (S f) - 1) by lia. exact H.
Qed.

(* (ii) the search around the log2-based estimate finds k with 10^(k-1) <= v *)
Lemma dec_exp_lower n d :
  0 < n -> 0 < d -> -1100 <= Z.log2 n - Z.log2 d <= 1100 ->
  let kest := ((Z.log2 n - Z.log2 d) * 30103) / 100000 in
  lt_pow10 n d (dec_exp_down 5 n d (dec_exp_up 5 n d (kest - 1)) - 1) = false.
Proof.
  intros Hn Hd HL kest. apply dec_exp_down_spec.
  pose proof (dec_exp_up_le 5 n d (kest - 1)) as Hup.
  apply (lt_pow10_false_mono n d (kest - 2)); [assumption | assumption | lia |].
  apply (kest_lower n d Hn Hd HL).
Qed.

(* the other half of (ii): v < 10^k.  Not needed for the round trip, it pins the digit count:
   the nd-digit candidates lo, hi of shortest_fuel satisfy 10^(nd-1) <= lo < 10^nd. *)
Definition kest_check_up (L : Z) : bool :=      (* 2^(L + 1) <= 10^(kest + 4) *)
  let j := kest_of L + 4 in
  2 ^ Z.max (L + 1) 0 * Q10 j <=? P10 j * 2 ^ Z.max (- (L + 1)) 0.

Lemma kest_check_up_all_b : forallb kest_check_up (zrange (-1100) 2201) = true.
Proof. vm_compute. reflexivity. Qed.

Lemma kest_upper n d :
  0 < n -> 0 < d -> -1100 <= Z.log2 n - Z.log2 d <= 1100 ->
  lt_pow10 n d (kest_of (Z.log2 n - Z.log2 d) + 4) = true.
Proof.
  intros Hn Hd HL.
  assert (Hc : kest_check_up (Z.log2 n - Z.log2 d) = true).
  { pose proof kest_check_up_all_b as H. rewrite forallb_forall in H. apply H. apply zrange_in. lia. }
  unfold kest_check_up in Hc. cbv zeta in Hc. apply Z.leb_le in Hc.
  rewrite lt_pow10_eq. apply Z.ltb_lt.
  set (L := Z.log2 n - Z.log2 d) in *. set (j := kest_of L + 4) in *.
  destruct (Z.log2_spec n Hn) as [Hn1 Hn2]. destruct (Z.log2_spec d Hd) as [Hd1 Hd2].
  pose proof (Z.log2_nonneg n) as Hln. pose proof (Z.log2_nonneg d) as Hld.
  pose proof (pow_lt_core n d (Z.succ (Z.log2 n)) (Z.log2 d) 0 (Z.max (- (L + 1)) 0) (Z.max (L + 1) 0)
                Hn Hd Hn2 Hd1 ltac:(lia) ltac:(lia) ltac:(lia) ltac:(lia) ltac:(lia) ltac:(unfold L; lia)) as Hv.
  rewrite Z.pow_0_r, Z.mul_1_l in Hv.
  pose proof (pow2_pos (Z.max (L + 1) 0) ltac:(lia)) as HY. pose proof (pow2_pos (Z.max (- (L + 1)) 0) ltac:(lia)) as HY'.
  pose proof (P10_pos j) as HP. pose proof (Q10_pos j) as HQ.
  revert Hc Hv HY HY' HP HQ. generalize (P10 j) (Q10 j) (2 ^ Z.max (L + 1) 0) (2 ^ Z.max (- (L + 1)) 0).
  intros Pj Qj Y Y' Hc Hv HY HY' HP HQ.
  assert (E1 : n * (Y * Qj) <= n * (Pj * Y')) by nia.
  assert (E2 : (n * Y') * Pj < (d * Y) * Pj) by nia.
  assert (E3 : (n * Qj) * Y < (d * Pj) * Y) by lia.
  apply Z.mul_lt_mono_pos_r in E3; assumption.
Qed.

Lemma lt_pow10_true_mono n d j j' :
  0 < n -> 0 < d -> j <= j' -> lt_pow10 n d j = true -> lt_pow10 n d j' = true.
Proof.
  intros Hn Hd Hj H. destruct (lt_pow10 n d j') eqn:E; [reflexivity |].
  rewrite (lt_pow10_false_mono n d j' j Hn Hd Hj E) in H. discriminate.
Qed.

Lemma dec_exp_up_spec fuel n d : forall k,
  lt_pow10 n d (k + Z.of_nat fuel) = true -> lt_pow10 n d (dec_exp_up fuel n d k) = true.
Proof.
  induction fuel as [| f IH]; intros k H; cbn [dec_exp_up].
  - replace (k + Z.of_nat 0) with k in H by lia. exact H.
  - destruct (lt_pow10 n d k) eqn:Ht; [exact Ht |].
    apply IH. replace (k + 1 + Z.of_nat f) with (k + Z.of_nat (S f)) by lia. exact H.
Qed.

Lemma dec_exp_down_keeps fuel n d : forall k,
  lt_pow10 n d k = true -> lt_pow10 n d (dec_exp_down fuel n d k) = true.
Proof.
  induction fuel as [| f IH]; intros k H; cbn [dec_exp_down]; [exact H |].
  destruct (lt_pow10 n d (k - 1)) eqn:Ht; cbn [negb]; [apply IH; exact Ht | exact H].
Qed.

(* (ii) in full: 10^(k-1) <= v < 10^k *)
Theorem dec_exp_bracket n d :
  0 < n -> 0 < d -> -1100 <= Z.log2 n - Z.log2 d <= 1100 ->
  let kest := ((Z.log2 n - Z.log2 d) * 30103) / 100000 in
  let k := dec_exp_down 5 n d (dec_exp_up 5 n d (kest - 1)) in
  lt_pow10 n d (k - 1) = false /\ lt_pow10 n d k = true.
Proof.
  intros Hn Hd HL kest k. split; [apply (dec_exp_lower n d Hn Hd HL) |].
  apply dec_exp_down_keeps, dec_exp_up_spec.
  replace (kest - 1 + Z.of_nat 5) with (kest_of (Z.log2 n - Z.log2 d) + 4) by (unfold kest, kest_of; lia).
  apply kest_upper; assumption.
Qed.

(* ================================================================== *)
(* 7. the digit search                                                 *)
(* ================================================================== *)
Definition back10 (c p : Z) : Z := round_mag (c * P10 p) (1 * Q10 p).

Lemma back10_eq c p : (let '(cn, cd) := mul_pow10 c 1 p in round_mag cn cd) = back10 c p.
Proof. rewrite mul_pow10_eq. reflexivity. Qed.

Lemma Q10_opp p : Q10 (- p) = P10 p.
Proof. unfold Q10, P10. rewrite Z.opp_involutive. reflexivity. Qed.
Lemma P10_opp p : P10 (- p) = Q10 p.
Proof. reflexivity. Qed.

Lemma shortest_fuel_S f b n d k nd :
  shortest_fuel (S f) b n d k nd =
  let p := k - nd in
  let sn := n * Q10 p in let sd := d * P10 p in
  let lo := sn / sd in let hi := lo + 1 in
  let lo_ok := (0 <? lo) && (back10 lo p =? b) in
  let hi_ok := back10 hi p =? b in
  if lo_ok && hi_ok then (if 2 * (sn mod sd) <? sd then (lo, p) else (hi, p))
  else if lo_ok then (lo, p)
  else if hi_ok then (hi, p)
  else shortest_fuel f b n d k (nd + 1).
Proof.
  cbn [shortest_fuel]. cbv zeta. rewrite !mul_pow10_eq. rewrite Q10_opp, P10_opp. reflexivity.
Qed.

(* (i) soundness of every accepted candidate, and sufficiency of the fuel: 17 digits always succeed *)
Lemma shortest_fuel_ok n d b k :
  0 < n -> 0 < d -> 0 < b < inf_bits -> n * S1074 = ival b * d ->
  lt_pow10 n d (k - 1) = false ->
  forall fuel nd, 1 <= nd <= 17 -> 18 <= nd + Z.of_nat fuel ->
  let '(c, p) := shortest_fuel fuel b n d k nd in 0 < c /\ back10 c p = b.
Proof.
  intros Hn Hd Hb Hex Hk.
  induction fuel as [| f IH]; intros nd Hnd Hfuel; [cbn [Z.of_nat] in Hfuel; lia |].
  rewrite shortest_fuel_S. cbv zeta.
  set (p := k - nd). set (sn := n * Q10 p). set (sd := d * P10 p). set (lo := sn / sd).
  assert (Hsd : 0 < sd) by (unfold sd; pose proof (P10_pos p); nia).
  assert (Hsn : 0 <= sn) by (unfold sn; pose proof (Q10_pos p); nia).
  assert (Hlo0 : 0 <= lo) by (apply Z.div_pos; lia).
  destruct (Z.ltb_spec 0 lo) as [Hlo | Hlo]; cbn [andb].
  - destruct (Z.eqb_spec (back10 lo p) b) as [Hbl | Hbl]; cbn [andb].
    + destruct (Z.eqb_spec (back10 (lo + 1) p) b) as [Hbh | Hbh].
      * destruct (2 * (sn mod sd) <? sd); split; auto; lia.
      * split; auto.
    + destruct (Z.eqb_spec (back10 (lo + 1) p) b) as [Hbh | Hbh]; [split; [lia | exact Hbh] |].
      destruct (Z.eq_dec nd 17) as [H17 | H17].
      * exfalso. subst nd.
        destruct (seventeen_digits n d b p Hn Hd Hb Hex) as [_ [Hc | Hc]].
        { apply lt_pow10_false. replace (p + 16) with (k - 1) by (unfold p; lia). exact Hk. }
        { apply Hbl. exact Hc. } { apply Hbh. exact Hc. }
      * apply IH; lia.
  - destruct (Z.eqb_spec (back10 (lo + 1) p) b) as [Hbh | Hbh]; [split; [lia | exact Hbh] |].
    destruct (Z.eq_dec nd 17) as [H17 | H17].
    + exfalso. subst nd.
      destruct (seventeen_digits n d b p Hn Hd Hb Hex) as [Hpos _].
      { apply lt_pow10_false. replace (p + 16) with (k - 1) by (unfold p; lia). exact Hk. }
      fold sn sd lo in Hpos. lia.
    + apply IH; lia.
Qed.

(* (iii) dropping trailing zeros keeps the value *)
Fixpoint strip10 (fuel : nat) (c p : Z) : Z * Z :=
  match fuel with
  | O => (c, p)
  | S f => if (c mod 10 =? 0) && negb (c =? 0) then strip10 f (c / 10) (p + 1) else (c, p)
  end.

Lemma shortest_eq m e :
  shortest m e =
  let '(n, d) := ratio_of m e in
  let kest := ((Z.log2 n - Z.log2 d) * 30103) / 100000 in
  let k := dec_exp_down 5 n d (dec_exp_up 5 n d (kest - 1)) in
  let '(c, p) := shortest_fuel 18 (round_mag n d) n d k 1 in
  strip10 20 c p.
Proof. reflexivity. Qed.

Lemma strip10_ok fuel : forall c p, 0 < c ->
  let '(c', p') := strip10 fuel c p in 0 < c' /\ back10 c' p' = back10 c p.
Proof.
  induction fuel as [| f IH]; intros c p Hc; cbn [strip10]; [split; [exact Hc | reflexivity] |].
  destruct (Z.eqb_spec (c mod 10) 0) as [Hmod | Hmod]; cbn [andb]; [| split; [exact Hc | reflexivity]].
  destruct (Z.eqb_spec c 0) as [Hz | Hz]; cbn [negb]; [lia |].
  pose proof (Z.div_mod c 10 ltac:(lia)) as Hdm. rewrite Hmod in Hdm.
  assert (Hc1 : 0 < c / 10) by lia.
  specialize (IH (c / 10) (p + 1) Hc1). destruct (strip10 f (c / 10) (p + 1)) as [c' p'].
  destruct IH as [Hc' Hb]. split; [exact Hc' |]. rewrite Hb. unfold back10.
  pose proof (P10_pos p) as A1. pose proof (Q10_pos p) as A2. pose proof (P10_pos (p + 1)) as A3. pose proof (Q10_pos (p + 1)) as A4.
  apply round_mag_ratio; try nia.
  pose proof (PQ_add p 1) as HPQ. destruct (P10_nonneg 1 ltac:(lia)) as [H1 H2]. rewrite H1, H2, Z.pow_1_r in HPQ.
  rewrite Hdm at 2. set (c1 := c / 10).
  replace (c1 * P10 (p + 1) * (1 * Q10 p)) with (c1 * (P10 (p + 1) * Q10 p * 1)) by ring. rewrite HPQ. ring.
Qed.

(* ================================================================== *)
(* 8. G2: the shortest digits round back                               *)
(* ================================================================== *)
Theorem shortest_roundtrips : forall bits s m e,
  f_decode bits = FFin s m e -> 0 < m ->
  let '(c, p) := shortest m e in
  0 < c /\ let '(cn, cd) := mul_pow10 c 1 p in round_mag cn cd = f_mag (Z.of_N bits).
Proof.
  intros bits s m e Hdec Hm.
  destruct (decode_fin bits s m e Hdec) as (Hb & _ & Hi & He & Hm53 & Hbpos & _).
  set (b := f_mag (Z.of_N bits)) in *. specialize (Hbpos Hm).
  rewrite shortest_eq.
  pose proof (ratio_of_exact m e b ltac:(lia) Hm Hi) as Hr.
  pose proof (ratio_of_log m e He ltac:(lia)) as HL.
  destruct (ratio_of m e) as [n d]. destruct Hr as (Hn & Hd & Hex).
  cbv zeta.
  assert (Hrm : round_mag n d = b) by (apply round_mag_exact_Z; [assumption | assumption | lia | exact Hex]).
  rewrite Hrm.
  pose proof (dec_exp_lower n d Hn Hd HL) as Hk. cbv zeta in Hk.
  set (k := dec_exp_down 5 n d (dec_exp_up 5 n d ((Z.log2 n - Z.log2 d) * 30103 / 100000 - 1))) in *.
  pose proof (shortest_fuel_ok n d b k Hn Hd ltac:(lia) Hex Hk 18%nat 1 ltac:(lia) ltac:(lia)) as Hs.
  destruct (shortest_fuel 18 b n d k 1) as [c p]. destruct Hs as [Hc Hback].
  pose proof (strip10_ok 20 c p Hc) as Hst. destruct (strip10 20 c p) as [c' p'].
  destruct Hst as [Hc' Hb']. split; [exact Hc' |]. rewrite mul_pow10_eq. change (back10 c' p' = b). congruence.
Qed.

(* the magnitude bits are the rounding of the double's own exact value *)
Lemma decode_round_self bits s m e :
  f_decode bits = FFin s m e -> 0 < m ->
  let '(n, d) := ratio_of m e in round_mag n d = f_mag (Z.of_N bits).
Proof.
  intros Hdec Hm.
  destruct (decode_fin bits s m e Hdec) as (Hb & _ & Hi & He & Hm53 & Hbpos & _).
  pose proof (ratio_of_exact m e _ ltac:(lia) Hm Hi) as Hr.
  destruct (ratio_of m e) as [n d]. destruct Hr as (Hn & Hd & Hex).
  apply round_mag_exact_Z; [assumption | assumption | lia | exact Hex].
Qed.

(* ================================================================== *)
(* 9. reading back a rendered text                                     *)
(* ================================================================== *)
Definition sign_txt (s : bool) : list N := if s then [45%N] else [].

Lemma digit_not_minus c t :
  is_digit c = true ->
  match c :: t with 45%N :: t' => (true, t') | _ => (false, c :: t) end = (false, c :: t).
Proof.
  intros Hc. apply is_digit_bounds in Hc.
  destruct (N.eq_dec c 45) as [-> | Hne]; [lia |].
  destruct c as [| q]; [reflexivity |].
  repeat (destruct q as [q | q |]; try reflexivity); contradiction Hne; reflexivity.
Qed.

Lemma dec_split_layout s ip rest fp :
  all_digits ip -> ip <> [] -> all_digits fp ->
  (rest = [] /\ fp = [] \/ rest = 46%N :: fp) ->
  dec_split (sign_txt s ++ ip ++ rest) = Some {| d_neg := s; d_int := ip; d_frac := fp; d_exp := None |}.
Proof.
  intros Hip Hne Hfp Hrest. unfold dec_split.
  set (nt := match sign_txt s ++ ip ++ rest with 45%N :: t => (true, t) | _ => (false, sign_txt s ++ ip ++ rest) end).
  assert (Hnt : nt = (s, ip ++ rest)).
  { unfold nt. destruct s; cbn [sign_txt app]; [reflexivity |].
    destruct ip as [| c t]; [contradiction |]. apply all_digits_cons in Hip. destruct Hip as [Hc _].
    cbn [app]. apply digit_not_minus. exact Hc. }
  rewrite Hnt.
  assert (Hstop : stops rest).
  { destruct Hrest as [[-> _] | ->]; [exact I | reflexivity]. }
  rewrite (take_digits_app ip rest Hip Hstop).
  destruct Hrest as [[-> ->] | ->]; [reflexivity |].
  replace fp with (fp ++ []) at 1 by apply app_nil_r.
  rewrite (take_digits_app fp [] Hfp I). reflexivity.
Qed.

Lemma dec2flt_layout s ip rest fp :
  all_digits ip -> ip <> [] -> all_digits fp ->
  (rest = [] /\ fp = [] \/ rest = 46%N :: fp) ->
  let m := Z.of_N (N_of_digits (ip ++ fp)) in
  let adj := - Z.of_nat (length fp) in
  dec2flt (sign_txt s ++ ip ++ rest) =
    Some (if m =? 0 then with_sign s 0 else f_of_ratio s (m * 10 ^ Z.max adj 0) (10 ^ Z.max (- adj) 0)).
Proof.
  intros Hip Hne Hfp Hrest.
  pose proof (dec2flt_correct _ _ (dec_split_layout s ip rest fp Hip Hne Hfp Hrest)) as H.
  cbn [d_int d_frac d_neg] in H. unfold dec_exp_val, dec_unclamped in H. cbn [d_exp] in H.
  apply H; [| exact I]. unfold dec_valid. cbn [d_int d_frac d_exp]. destruct ip; [contradiction | reflexivity].
Qed.

(* digits_of_N: digit characters, at least one, denoting the number *)
Lemma digits_of_N_props n :
  all_digits (digits_of_N n) /\ digits_of_N n <> [] /\ N_of_digits (digits_of_N n) = n.
Proof.
  pose proof (digits_of_N_rep n) as Hr. split; [| split].
  - unfold all_digits. apply forallb_forall. pose proof (dig_rep_digits _ _ Hr) as H.
    rewrite Forall_forall in H. exact H.
  - destruct (dig_rep_head _ _ Hr) as (c & t & -> & _). discriminate.
  - apply dig_rep_val. exact Hr.
Qed.

Lemma all_digits_firstn k l : all_digits l -> all_digits (firstn k l).
Proof. intros H. rewrite <- (firstn_skipn k l) in H. apply all_digits_app in H. tauto. Qed.
Lemma all_digits_skipn k l : all_digits l -> all_digits (skipn k l).
Proof. intros H. rewrite <- (firstn_skipn k l) in H. apply all_digits_app in H. tauto. Qed.

Lemma dec2flt_render s c p :
  0 < c -> dec2flt (sign_txt s ++ render_positional c p) = Some (with_sign s (back10 c p)).
Proof.
  intros Hc. unfold render_positional.
  destruct (digits_of_N_props (Z.to_N c)) as (Hds & Hne & Hval).
  set (ds := digits_of_N (Z.to_N c)) in *. cbv zeta.
  assert (Hv : Z.of_N (N_of_digits ds) = c) by (rewrite Hval; lia).
  assert (Hlen : 0 < Z.of_nat (length ds)) by (destruct ds; [contradiction | cbn [length]; lia]).
  unfold back10, f_of_ratio.
  destruct (Z.leb_spec 0 p) as [Hp | Hp].
  - (* digits then zeros *)
    replace (ds ++ repeat 48%N (Z.to_nat p)) with ((ds ++ repeat 48%N (Z.to_nat p)) ++ []) by apply app_nil_r.
    rewrite (dec2flt_layout s (ds ++ repeat 48%N (Z.to_nat p)) [] []).
    + rewrite app_nil_r. rewrite N_of_digits_app, N_of_digits_zeros, repeat_length, Hv.
      change (Z.of_N 0) with 0. rewrite Z.add_0_r. rewrite Z2Nat.id by lia.
      cbn [length Z.of_nat Z.opp Z.max]. rewrite Z.pow_0_r.
      destruct (P10_nonneg p Hp) as [-> ->].
      pose proof (pow10_pos p Hp) as HP.
      destruct (Z.eqb_spec (c * 10 ^ p) 0) as [Hz | _]; [nia |].
      rewrite Z.mul_1_r. reflexivity.
    + apply all_digits_app. split; [exact Hds | apply all_digits_repeat].
    + destruct ds; [contradiction | discriminate].
    + reflexivity.
    + left. split; reflexivity.
  - destruct (P10_neg p ltac:(lia)) as [HP HQ]. rewrite HP, HQ, Z.mul_1_r, Z.mul_1_l.
    destruct (Z.ltb_spec (- p) (Z.of_nat (length ds))) as [Hin | Hout].
    + (* point inside the digits *)
      set (k := Z.to_nat (Z.of_nat (length ds) + p)).
      rewrite (dec2flt_layout s (firstn k ds) (46%N :: skipn k ds) (skipn k ds)).
      * rewrite firstn_skipn, Hv, skipn_length.
        replace (- Z.of_nat (length ds - k)) with p by (unfold k; lia).
        destruct (Z.eqb_spec c 0) as [Hz | _]; [lia |].
        rewrite Z.max_r by lia. rewrite Z.max_l by lia. rewrite Z.pow_0_r, Z.mul_1_r. reflexivity.
      * apply all_digits_firstn, Hds.
      * intros Hf. apply (f_equal (@length N)) in Hf. rewrite firstn_length in Hf. cbn [length] in Hf. unfold k in Hf. lia.
      * apply all_digits_skipn, Hds.
      * right. reflexivity.
    + (* 0.000ddd *)
      set (z := Z.to_nat (- p - Z.of_nat (length ds))).
      change (48%N :: 46%N :: repeat 48%N z ++ ds) with ([48%N] ++ 46%N :: repeat 48%N z ++ ds).
      rewrite (dec2flt_layout s [48%N] (46%N :: repeat 48%N z ++ ds) (repeat 48%N z ++ ds)).
      * rewrite !N_of_digits_app, N_of_digits_zeros, Hv, app_length, repeat_length.
        change (Z.of_N (N_of_digits [48%N])) with 0. change (Z.of_N 0) with 0. rewrite !Z.mul_0_l, !Z.add_0_l.
        replace (- Z.of_nat (z + length ds)) with p by (unfold z; lia).
        destruct (Z.eqb_spec c 0) as [Hz | _]; [lia |].
        rewrite Z.max_r by lia. rewrite Z.max_l by lia. rewrite Z.pow_0_r, Z.mul_1_r. reflexivity.
      * reflexivity.
      * discriminate.
      * apply all_digits_app. split; [apply all_digits_repeat | exact Hds].
      * right. reflexivity.
Qed.

(* ================================================================== *)
(* 10. G3: printing then reading is the identity on finite doubles     *)
(* ================================================================== *)
Lemma with_sign_mag bits :
  (bits < 18446744073709551616)%N ->
  with_sign (f_sign (Z.of_N bits)) (f_mag (Z.of_N bits)) = bits.
Proof.
  intros Hlt. pose proof p52_pos as Hp. pose proof p63_eq as Hp63.
  assert (HB : 0 <= Z.of_N bits < 2 * p63).
  { split; [lia |]. replace (2 * p63) with 18446744073709551616 by reflexivity. lia. }
  unfold with_sign, f_sign, f_mag. set (B := Z.of_N bits) in *.
  destruct (Z.leb_spec p63 B) as [Hs | Hs].
  - replace (B mod p63) with (B - p63) by (apply Z.mod_unique_pos with (q := 1); lia).
    replace (B - p63 + p63) with B by lia. apply N2Z.id.
  - rewrite Z.mod_small by lia. apply N2Z.id.
Qed.

(* bits < 2^64 is the only well-formedness f_decode does not itself guarantee: it reads a pattern modulo 2^63
   plus a sign test, so larger N would decode but could not be reproduced by a reader producing 64-bit patterns *)
Theorem flt2dec_dec2flt : forall bits s m e,
  f_decode bits = FFin s m e -> (bits < 18446744073709551616)%N ->
  dec2flt (flt2dec bits) = Some bits.
Proof.
  intros bits s m e Hdec Hlt. unfold flt2dec. rewrite Hdec.
  destruct (decode_fin bits s m e Hdec) as (Hb & Hs & Hi & He & Hm53 & Hbpos & Hbz).
  pose proof (with_sign_mag bits Hlt) as Hws. rewrite <- Hs in Hws.
  fold (sign_txt s).
  destruct (Z.eqb_spec m 0) as [Hz | Hnz].
  - replace [48%N] with ([48%N] ++ []) by reflexivity.
    rewrite (dec2flt_layout s [48%N] [] []); [| reflexivity | discriminate | reflexivity | left; split; reflexivity].
    cbn. rewrite (Hbz Hz) in Hws. rewrite Hws. reflexivity.
  - pose proof (shortest_roundtrips bits s m e Hdec ltac:(lia)) as Hsh.
    destruct (shortest m e) as [c p]. destruct Hsh as [Hc Hback].
    rewrite mul_pow10_eq in Hback. change (back10 c p = f_mag (Z.of_N bits)) in Hback.
    rewrite (dec2flt_render s c p Hc), Hback, Hws. reflexivity.
Qed.

(* ---------- concrete instances ---------- *)
Example ex_read : map dec2flt
  [[48;46;49]; [49;101;50]; [53;101;45;51;50;52]; [50;101;51;48;56]; [45;48;46;48]]%N
  = [Some 4591870180066957722; Some 4636737291354636288; Some 1; Some 9218868437227405312; Some 9223372036854775808]%N.
    (* "0.1" "1e2" "5e-324" "2e308" -> +inf, "-0.0" -> -0 *)
Proof. vm_compute. reflexivity. Qed.
Example ex_print : flt2dec 4591870180066957722 = [48;46;49]%N /\                      (* 0.1 *)
                   flt2dec 4599676419421066581 = (48 :: 46 :: repeat 51 16)%N /\      (* 1/3 = 0.3333333333333333 *)
                   flt2dec 4950912855330343670 = (49 :: repeat 48 23)%N.              (* 1e23 *)
Proof. vm_compute. repeat split; reflexivity. Qed.
Example ex_shortest : shortest 1 (-1074) = (5, -324) /\ shortest (p53 - 1) 971 = (17976931348623157, 292).
Proof. vm_compute. split; reflexivity. Qed.

Print Assumptions dec2flt_correct.
Print Assumptions dec2flt_nearest.
Print Assumptions dec_exp_bracket.
Print Assumptions shortest_roundtrips.
Print Assumptions flt2dec_dec2flt.
