(* PanicFilesProofs.v — go_run_panic generalised from one input to a list of inputs: under --on-error=panic,
   for a pipeline that never answers Break, the run over any list of inputs fails with GErrJson at the first
   malformed region of any input, having written the header and exactly the rows the pipeline emitted for the
   contexts parsed before that region (no completion); when no input has a malformed region it succeeds with
   the header and the rows of Chain.run over those contexts, which are then the contexts of the ignore policy. *)
From Jawk Require Import Base F64 Json Reader JsonParser Ctx Printer Fn Expr Chain ExprParser Go PipelineSpec.
From Jawk Require Import OrderProofs SorterProofs ChainProofs GoProofs BuildProofs LocalityProofs FilesProofs PolicyFilesProofs.
From Coq Require Import Lia.
Local Open Scope N_scope.

(* the contexts parsed before the first malformed region of any input (the record index runs on across inputs
   as in ctxs_of_inputs; the inputs after the one with the region are not read); the flag says that such a
   region exists *)
Fixpoint ctxs_until_error (cf : cfg) (ins : list (option str * list ev)) (idx : N) : list ctx * bool :=
  match ins with
  | [] => ([], false)
  | (fname, evs) :: t =>
      let '(cs, b) := read_ctxs_pre (input_fuel evs) (c_only_objs cf) (mk_reader evs) fname idx 0 in
      if b then (cs, true) else
      let '(cs2, b2) := ctxs_until_error cf t (idx + N.of_nat (length cs)) in
      (cs ++ cs2, b2)
  end.

(* no malformed region met: the pre-error contexts are all the contexts, and no error is counted *)
Lemma read_ctxs_pre_clean : forall fuel oo r fname idx infile,
  snd (read_ctxs_pre fuel oo r fname idx infile) = false ->
  fst (fst (read_ctxs fuel oo r fname idx infile)) = fst (read_ctxs_pre fuel oo r fname idx infile) /\
  snd (fst (read_ctxs fuel oo r fname idx infile)) = 0.
Proof.
  induction fuel as [|f IH]; intros oo r fname idx infile; cbn [read_ctxs read_ctxs_pre]; cbv zeta.
  - intros _. split; reflexivity.
  - destruct (next_json_value r) as [res r1]. destruct (io r1); [intros _; split; reflexivity|].
    destruct res as [v| | |]; try (intros _; split; reflexivity).
    + destruct (oo && negb (is_container v)); [apply IH|].
      specialize (IH oo r1 fname (idx + 1) (infile + 1)).
      destruct (read_ctxs f oo r1 fname (idx + 1) (infile + 1)) as [[cs e] b].
      destruct (read_ctxs_pre f oo r1 fname (idx + 1) (infile + 1)) as [cs' b']. cbn [fst snd] in *.
      intros Hb. destruct (IH Hb) as [H1 H2]. subst. split; reflexivity.
    + cbn [snd]. intros Hb. discriminate Hb.
Qed.

Lemma feed_all_feed_nb (sts : list stage) :
  (forall ss c, snd (process expr get sts ss c) = Continue) ->
  forall cs ss, feed_all expr get sts ss cs = fst (feed expr get sts cs ss).
Proof.
  intros Hnb cs. induction cs as [|c cs IH]; intros ss.
  - rewrite feed_nil. reflexivity.
  - rewrite feed_all_cons, feed_cons. pose proof (Hnb ss c) as Hd.
    destruct (process expr get sts ss c) as [[ss1 o] d]. cbn [snd] in Hd. subst d.
    rewrite IH. destruct (feed expr get sts cs ss1) as [[ss2 o2] d2]. reflexivity.
Qed.

Section PanicFeed.
Variables (cf : cfg) (p : printer) (sts : list stage) (nt : nat).
Hypothesis never_break : forall ss c, snd (process expr get sts ss c) = Continue.

(* one input without a malformed region: read_input feeds its contexts (whatever the policy) *)
Lemma read_input_clean_feed : forall fuel r fname ss idx infile,
  no_eerr r -> io r = false ->
  snd (read_ctxs fuel (c_only_objs cf) r fname idx infile) = false ->
  snd (read_ctxs_pre fuel (c_only_objs cf) r fname idx infile) = false ->
  let cs := fst (read_ctxs_pre fuel (c_only_objs cf) r fname idx infile) in
  exists r', read_input cf p sts nt fuel r fname ss idx infile =
    (fst (fst (feed expr get sts cs ss)), emit cf p nt (snd (fst (feed expr get sts cs ss))),
     idx + N.of_nat (length cs), None, r').
Proof.
  induction fuel as [|f IH]; intros r fname ss idx infile Hn Hio Hb Hp.
  - cbn in Hb. discriminate.
  - cbn [read_input read_ctxs read_ctxs_pre] in *. cbv zeta in *.
    destruct (next_json_value r) as [res r1] eqn:E.
    destruct (next_json_value_clean r res r1 Hn Hio E) as [Hn1 Hio1].
    rewrite Hio1 in *.
    destruct res as [v| | |].
    + destruct (c_only_objs cf && negb (is_container v)).
      * apply IH; assumption.
      * set (c := new_with_input v _) in *.
        specialize (IH r1 fname).
        destruct (read_ctxs f (c_only_objs cf) r1 fname (idx + 1) (infile + 1)) as [[cs0 e0] b0] eqn:Ec0.
        destruct (read_ctxs_pre f (c_only_objs cf) r1 fname (idx + 1) (infile + 1)) as [cs b] eqn:Ec.
        cbn [fst snd] in *. rewrite feed_cons.
        pose proof (never_break ss c) as Hd.
        destruct (process expr get sts ss c) as [[ss1 o] d]. cbn [snd] in Hd. subst d.
        destruct (IH ss1 (idx + 1) (infile + 1) Hn1 Hio1) as (r2 & E2).
        { rewrite Ec0. exact Hb. }
        { rewrite Ec. exact Hp. }
        rewrite E2. rewrite Ec. cbn [fst].
        destruct (feed expr get sts cs ss1) as [[ss2 o2] d2]. cbn [fst snd].
        exists r2. rewrite emit_app. cbn [length]. rewrite Nat2N.inj_succ.
        replace (idx + 1 + N.of_nat (length cs)) with (idx + N.succ (N.of_nat (length cs))) by lia.
        reflexivity.
    + exists r1. cbn [fst snd length]. rewrite feed_nil. cbn [fst snd emit map N.of_nat].
      rewrite N.add_0_r. reflexivity.
    + cbn [snd] in Hp. discriminate Hp.
    + cbn in Hb. discriminate.
Qed.

Hypothesis panic : c_on_error cf = OnPanic.

(* the read loop over the inputs: the rows are those of feeding the contexts before the first malformed region;
   the loop stops there with GErrJson; otherwise it ends in the state reached by feeding all of them *)
Lemma read_files_panic_feed : forall ins ss idx,
  Forall (fun i => Forall (fun e => e <> EErr) (snd i)) ins ->
  let cs := fst (ctxs_until_error cf ins idx) in
  let failed := snd (ctxs_until_error cf ins idx) in
  exists ss' pl, read_files cf p sts nt ins ss idx =
    (ss', emit cf p nt (snd (fst (feed expr get sts cs ss))),
     (if failed then Some GErrJson else None), pl) /\
    (failed = false -> ss' = fst (fst (feed expr get sts cs ss))).
Proof.
  induction ins as [|[fname evs] t IH]; intros ss idx Hall.
  - cbn [read_files ctxs_until_error fst snd]. rewrite feed_nil. exists ss, []. split; reflexivity.
  - inversion Hall as [|? ? Hevs Ht]; subst. cbn [snd] in Hevs.
    cbn [read_files ctxs_until_error].
    destruct (read_ctxs_pre (input_fuel evs) (c_only_objs cf) (mk_reader evs) fname idx 0) as [cs b] eqn:Ep.
    destruct b.
    + (* the first malformed region is in this input *)
      destruct (read_input_panic cf p sts nt panic never_break (input_fuel evs) (mk_reader evs) fname ss idx 0)
        as (ss1 & idx1 & r1 & E).
      { rewrite Ep. reflexivity. }
      rewrite E. rewrite Ep. cbn [fst snd].
      rewrite (feed_all_feed_nb sts never_break).
      exists ss1, [pulled r1]. split; [reflexivity|]. intros Hf. discriminate Hf.
    + pose proof (read_ctxs_mk_no_stop cf fname evs idx Hevs) as Hns.
      destruct (read_input_clean_feed (input_fuel evs) (mk_reader evs) fname ss idx 0
                  (no_eerr_mk evs Hevs) eq_refl Hns) as (r' & E).
      { rewrite Ep. reflexivity. }
      rewrite E. clear E. rewrite Ep. cbn [fst snd].
      pose proof (feed_decision_nb expr get sts never_break cs ss) as Hd1.
      destruct (IH (fst (fst (feed expr get sts cs ss))) (idx + N.of_nat (length cs)) Ht)
        as (ss2' & pl & E2 & Hss).
      rewrite E2. clear E2.
      destruct (ctxs_until_error cf t (idx + N.of_nat (length cs))) as [cs2 b2]. cbn [fst snd] in *.
      rewrite feed_app.
      destruct (feed expr get sts cs ss) as [[ss1 o1] d1]. cbn [fst snd] in *. subst d1.
      destruct (feed expr get sts cs2 ss1) as [[ss2 o2] d2]. cbn [fst snd] in *.
      exists ss2', (pulled r' :: pl). rewrite emit_app. split; [reflexivity|]. exact Hss.
Qed.
End PanicFeed.

Theorem go_files_panic : forall (cf : cfg) (ins : list (option str * list ev)) (b : bool) p sts hdr,
  c_on_error cf = OnPanic ->
  Forall (fun i => Forall (fun e => e <> EErr) (snd i)) ins ->
  build_pipeline cf = Some (p, sts) ->
  start_output p (titles expr sts []) (c_rowsep cf) = Some hdr ->
  (forall ss c, snd (process expr get sts ss c) = Continue) ->
  let cs := fst (ctxs_until_error cf ins 0) in
  if snd (ctxs_until_error cf ins 0) then
    g_result (go cf ins b) = GErrJson /\
    g_events (go cf ins b) =
      (match hdr with [] => [] | _ => [OOut hdr] end) ++
      emit cf p (length (titles expr sts []))
        (snd (fst (feed expr get sts cs (map (init_state expr) sts))))
  else
    g_result (go cf ins b) = GOk /\
    g_events (go cf ins b) =
      (match hdr with [] => [] | _ => [OOut hdr] end) ++
      emit cf p (length (titles expr sts []))
        (Chain.run expr get sts (map (init_state expr) sts) cs).
Proof.
  intros cf ins b p sts hdr Hpol Hall Hbp Hst Hnb cs. subst cs.
  unfold go. rewrite Hbp. cbv zeta. rewrite Hst.
  destruct (read_files_panic_feed cf p sts (length (titles expr sts [])) Hnb Hpol ins
              (map (init_state expr) sts) 0 Hall) as (ss' & pl & E & Hss).
  cbv zeta in E, Hss. rewrite E. clear E.
  destruct (snd (ctxs_until_error cf ins 0)).
  - cbn [g_result g_events]. split; reflexivity.
  - cbn [g_result g_events]. split; [reflexivity|].
    rewrite (Hss eq_refl). rewrite run_feed.
    destruct (feed expr get sts (fst (ctxs_until_error cf ins 0)) (map (init_state expr) sts)) as [[ss2 o] d].
    cbn [fst snd]. rewrite emit_app. reflexivity.
Qed.

(* ---------- the connection with the other policies ---------- *)
(* the contexts before the first malformed region are an initial segment of the contexts of all the inputs *)
Lemma ctxs_until_error_prefix cf : forall ins idx,
  exists tl, fst (ctxs_of_inputs cf ins idx) = fst (ctxs_until_error cf ins idx) ++ tl.
Proof.
  induction ins as [|[fname evs] t IH]; intros idx.
  - exists []. reflexivity.
  - cbn [ctxs_of_inputs ctxs_until_error].
    pose proof (read_ctxs_pre_prefix (input_fuel evs) (c_only_objs cf) (mk_reader evs) fname idx 0) as [tl Htl].
    pose proof (read_ctxs_pre_clean (input_fuel evs) (c_only_objs cf) (mk_reader evs) fname idx 0) as Hcl.
    destruct (read_ctxs (input_fuel evs) (c_only_objs cf) (mk_reader evs) fname idx 0) as [[cs e] b].
    destruct (read_ctxs_pre (input_fuel evs) (c_only_objs cf) (mk_reader evs) fname idx 0) as [cs' b'].
    cbn [fst snd] in *. destruct b'.
    + destruct (ctxs_of_inputs cf t (idx + N.of_nat (length cs))) as [cs2 b2]. cbn [fst].
      exists (tl ++ cs2). rewrite Htl, app_assoc. reflexivity.
    + destruct (Hcl eq_refl) as [Hcs _]. subst cs'.
      destruct (IH (idx + N.of_nat (length cs))) as [tl2 Htl2].
      destruct (ctxs_of_inputs cf t (idx + N.of_nat (length cs))) as [cs2 b2].
      destruct (ctxs_until_error cf t (idx + N.of_nat (length cs))) as [cs3 b3]. cbn [fst] in *.
      exists tl2. rewrite Htl2, app_assoc. reflexivity.
Qed.

(* no malformed region in any input: the contexts are those of the ignore policy and no error is counted *)
Lemma ctxs_until_error_clean cf : forall ins idx,
  snd (ctxs_until_error cf ins idx) = false ->
  fst (ctxs_until_error cf ins idx) = fst (ctxs_of_inputs cf ins idx) /\ errs_of_inputs cf ins idx = 0.
Proof.
  induction ins as [|[fname evs] t IH]; intros idx.
  - intros _. split; reflexivity.
  - cbn [ctxs_of_inputs ctxs_until_error errs_of_inputs].
    pose proof (read_ctxs_pre_clean (input_fuel evs) (c_only_objs cf) (mk_reader evs) fname idx 0) as Hcl.
    destruct (read_ctxs (input_fuel evs) (c_only_objs cf) (mk_reader evs) fname idx 0) as [[cs e] b].
    destruct (read_ctxs_pre (input_fuel evs) (c_only_objs cf) (mk_reader evs) fname idx 0) as [cs' b'].
    cbn [fst snd] in *. destruct b'.
    + cbn [snd]. intros H. discriminate H.
    + destruct (Hcl eq_refl) as [Hcs He]. subst cs' e.
      specialize (IH (idx + N.of_nat (length cs))).
      destruct (ctxs_of_inputs cf t (idx + N.of_nat (length cs))) as [cs2 b2].
      destruct (ctxs_until_error cf t (idx + N.of_nat (length cs))) as [cs3 b3]. cbn [fst snd] in *.
      intros Hb. destruct (IH Hb) as [H1 H2]. subst cs3. rewrite H2. split; reflexivity.
Qed.

(* a malformed region in some input is met: the flag is set exactly when the error count is positive *)
Lemma ctxs_until_error_hit cf : forall ins idx,
  0 < errs_of_inputs cf ins idx -> snd (ctxs_until_error cf ins idx) = true.
Proof.
  intros ins idx H. destruct (snd (ctxs_until_error cf ins idx)) eqn:E; [reflexivity|].
  destruct (ctxs_until_error_clean cf ins idx E) as [_ H0]. lia.
Qed.

(* without a malformed region the panic policy behaves like the ignore policy *)
Corollary go_files_panic_clean : forall (cf : cfg) (ins : list (option str * list ev)) (b : bool) p sts hdr,
  c_on_error cf = OnPanic ->
  Forall (fun i => Forall (fun e => e <> EErr) (snd i)) ins ->
  build_pipeline cf = Some (p, sts) ->
  start_output p (titles expr sts []) (c_rowsep cf) = Some hdr ->
  (forall ss c, snd (process expr get sts ss c) = Continue) ->
  snd (ctxs_until_error cf ins 0) = false ->
  g_result (go cf ins b) = GOk /\
  g_events (go cf ins b) =
    (match hdr with [] => [] | _ => [OOut hdr] end) ++
    emit cf p (length (titles expr sts []))
      (Chain.run expr get sts (map (init_state expr) sts) (fst (ctxs_of_inputs cf ins 0))).
Proof.
  intros cf ins b p sts hdr Hpol Hall Hbp Hst Hnb Hcl.
  pose proof (go_files_panic cf ins b p sts hdr Hpol Hall Hbp Hst Hnb) as H. cbv zeta in H.
  rewrite Hcl in H. destruct (ctxs_until_error_clean cf ins 0 Hcl) as [Hcs _]. rewrite Hcs in H. exact H.
Qed.

(* one input: the list version agrees with the single-input function of go_run_panic *)
Lemma ctxs_until_error_one cf fname evs :
  fst (ctxs_until_error cf [(fname, evs)] 0) =
  fst (read_ctxs_pre (input_fuel evs) (c_only_objs cf) (mk_reader evs) fname 0 0).
Proof.
  cbn [ctxs_until_error].
  destruct (read_ctxs_pre (input_fuel evs) (c_only_objs cf) (mk_reader evs) fname 0 0) as [cs b].
  destruct b; cbn [fst]; [reflexivity|apply app_nil_r].
Qed.

Print Assumptions go_files_panic.
Print Assumptions go_files_panic_clean.
