(* F64Proofs.v — round_mag really is IEEE-754 round-to-nearest-even on positive rationals.
   "every other number is read as the NEAREST double" becomes a theorem about Model/F64.round_mag:
   range, nearest, ties-to-even, overflow threshold, exactness on doubles, monotonicity.
   Rationals are Coq's Q (no reals, nothing classical); the core is integer arithmetic scaled by 2^1074. *)
From Coq Require Import QArith Qabs Lia ZArith.
From Jawk Require Import Base F64.
Local Open Scope Z_scope.

(* ---------- the value of a magnitude bit pattern ---------- *)
Definition pow2 (k : Z) : Q :=
  if 0 <=? k then inject_Z (2 ^ k) else (1 # Z.to_pos (2 ^ (- k)))%Q.

Definition mag_value (b : Z) : option Q :=
  if b <? inf_bits then
    let ex := b / p52 in
    let fr := b mod p52 in
    Some (if ex =? 0 then (inject_Z fr * pow2 (-1074))%Q
          else (inject_Z (fr + p52) * pow2 (ex - 1075))%Q)
  else None.

(* ---------- constants ---------- *)
Lemma p52_eq : p52 = 2 ^ 52. Proof. reflexivity. Qed.
Lemma p52_pos : 0 < p52. Proof. reflexivity. Qed.
Lemma p53_eq : p53 = 2 * p52. Proof. reflexivity. Qed.
Lemma inf_bits_eq : inf_bits = 2047 * p52. Proof. reflexivity. Qed.
Lemma p63_eq : p63 = 2048 * p52. Proof. reflexivity. Qed.
Lemma p52_even : p52 = 2 * 2251799813685248. Proof. reflexivity. Qed.

Definition S1074 : Z := 2 ^ 1074.
Lemma S1074_pos : 0 < S1074.
Proof. unfold S1074. apply Z.pow_pos_nonneg; lia. Qed.
Lemma S1074_eq : S1074 = 2 ^ 1074. Proof. reflexivity. Qed.

Local Opaque Z.pow.
Global Opaque S1074.
Local Opaque p52 p53 p63 p64 inf_bits.

Lemma pow2_pos k : 0 <= k -> 0 < 2 ^ k.
Proof. intros Hk. apply Z.pow_pos_nonneg; lia. Qed.

(* ---------- integer value: ival b = (value of b) * 2^1074 ---------- *)
Definition ival (b : Z) : Z :=
  let ex := b / p52 in
  let fr := b mod p52 in
  if ex =? 0 then fr else (fr + p52) * 2 ^ (ex - 1).

Lemma divmod_enc p q r : 0 <= r < p -> (q * p + r) / p = q /\ (q * p + r) mod p = r.
Proof.
  intros Hr. split.
  - symmetry. apply Z.div_unique_pos with (r := r); lia.
  - symmetry. apply Z.mod_unique_pos with (q := q); lia.
Qed.

(* b = k * 2^52 + m encodes m * 2^(k-1074), for a normal mantissa or k = 0; m = 2^53 allowed (carry) *)
Lemma ival_enc k m :
  0 <= k -> 0 <= m <= p53 -> (p52 <= m \/ k = 0) -> ival (k * p52 + m) = m * 2 ^ k.
Proof.
  intros Hk Hm Hc. pose proof p52_pos as Hp. pose proof p53_eq as Hp53.
  unfold ival.
  destruct (Z_lt_le_dec m p52) as [Hlt | Hge].
  - assert (Hk0 : k = 0) by lia. subst k.
    destruct (divmod_enc p52 0 m ltac:(lia)) as [Hd Hmod].
    rewrite Hd, Hmod. rewrite Z.eqb_refl. rewrite Z.pow_0_r. lia.
  - destruct (Z_lt_le_dec m p53) as [Hlt2 | Hge2].
    + replace (k * p52 + m) with ((k + 1) * p52 + (m - p52)) by lia.
      destruct (divmod_enc p52 (k + 1) (m - p52) ltac:(lia)) as [Hd Hmod].
      rewrite Hd, Hmod.
      destruct (Z.eqb_spec (k + 1) 0) as [He | He]; [lia |].
      replace (k + 1 - 1) with k by lia. replace (m - p52 + p52) with m by lia. reflexivity.
    + assert (Hm53 : m = p53) by lia. subst m.
      replace (k * p52 + p53) with ((k + 2) * p52 + 0) by lia.
      destruct (divmod_enc p52 (k + 2) 0 ltac:(lia)) as [Hd Hmod].
      rewrite Hd, Hmod.
      destruct (Z.eqb_spec (k + 2) 0) as [He | He]; [lia |].
      replace (k + 2 - 1) with (k + 1) by lia.
      rewrite Z.pow_add_r by lia. rewrite Z.pow_1_r. lia.
Qed.

Lemma bits_decomp b :
  0 <= b -> exists k m, 0 <= k /\ 0 <= m < p53 /\ (p52 <= m \/ k = 0) /\ b = k * p52 + m.
Proof.
  intros Hb. pose proof p52_pos as Hp. pose proof p53_eq as Hp53.
  pose proof (Z.div_mod b p52 ltac:(lia)) as Hdm.
  pose proof (Z.mod_pos_bound b p52 Hp) as Hmod.
  assert (Hq : 0 <= b / p52) by (apply Z.div_pos; lia).
  destruct (Z.eq_dec (b / p52) 0) as [Hz | Hnz].
  - exists 0, (b mod p52). rewrite Hz in Hdm. lia.
  - exists (b / p52 - 1), (b mod p52 + p52). lia.
Qed.

Lemma ival_succ b : 0 <= b -> ival b < ival (b + 1).
Proof.
  intros Hb. destruct (bits_decomp b Hb) as (k & m & Hk & Hm & Hc & ->).
  pose proof p53_eq as Hp53.
  rewrite (ival_enc k m) by lia.
  replace (k * p52 + m + 1) with (k * p52 + (m + 1)) by lia.
  rewrite (ival_enc k (m + 1)) by lia.
  pose proof (pow2_pos k Hk). lia.
Qed.

Lemma ival_lt a b : 0 <= a < b -> ival a < ival b.
Proof.
  intros Hab.
  assert (Hj : forall j : nat, ival a < ival (a + 1 + Z.of_nat j)).
  { induction j as [| j IH].
    - rewrite Z.add_0_r. apply ival_succ; lia.
    - rewrite Nat2Z.inj_succ. replace (a + 1 + Z.succ (Z.of_nat j)) with (a + 1 + Z.of_nat j + 1) by lia.
      eapply Z.lt_trans; [exact IH |]. apply ival_succ; lia. }
  specialize (Hj (Z.to_nat (b - a - 1))). rewrite Z2Nat.id in Hj by lia.
  replace (a + 1 + (b - a - 1)) with b in Hj by lia. exact Hj.
Qed.

Lemma ival_le a b : 0 <= a <= b -> ival a <= ival b.
Proof.
  intros Hab. destruct (Z.eq_dec a b) as [-> | Hne]; [lia |].
  apply Z.lt_le_incl, ival_lt; lia.
Qed.

Lemma ival_inj a b : 0 <= a -> 0 <= b -> ival a = ival b -> a = b.
Proof.
  intros Ha Hb He. destruct (Z.lt_trichotomy a b) as [Hl | [Heq | Hg]]; [| exact Heq |].
  - pose proof (ival_lt a b ltac:(lia)). lia.
  - pose proof (ival_lt b a ltac:(lia)). lia.
Qed.

Lemma ival_nonneg b : 0 <= b -> 0 <= ival b.
Proof.
  intros Hb. destruct (bits_decomp b Hb) as (k & m & Hk & Hm & Hc & ->).
  pose proof p53_eq. rewrite ival_enc by lia. pose proof (pow2_pos k Hk). nia.
Qed.

(* ---------- the structure of round_mag ---------- *)
Definition rnd (nn dd : Z) : Z :=
  let q := nn / dd in
  let r := nn mod dd in
  match 2 * r ?= dd with Gt => q + 1 | Eq => q + q mod 2 | Lt => q end.

Definition choose_e (n d : Z) : Z :=
  let e0 := Z.max (-1074) (Z.log2 n - Z.log2 d - 52) in
  let q0 := scale_num n e0 / scale_den d e0 in
  if p53 <=? q0 then e0 + 1 else if (q0 <? p52) && (-1074 <? e0) then e0 - 1 else e0.

Definition finish (n d e : Z) : Z :=
  let q' := rnd (scale_num n e) (scale_den d e) in
  let '(q2, e2) := if p53 <=? q' then (p52, e + 1) else (q', e) in
  if q2 <? p52 then q2
  else let ex := e2 + 1075 in
       if 2047 <=? ex then inf_bits else ex * p52 + (q2 - p52).

Lemma round_mag_eq n d : 0 < n -> round_mag n d = finish n d (choose_e n d).
Proof.
  intros Hn. unfold round_mag. destruct (Z.leb_spec n 0) as [Hle | Hgt]; [lia |]. reflexivity.
Qed.

Lemma scale_num_eq n e : scale_num n e = n * 2 ^ (Z.max (- e) 0).
Proof.
  unfold scale_num. destruct (Z.ltb_spec e 0) as [Hl | Hg].
  - rewrite Z.max_l by lia. reflexivity.
  - rewrite Z.max_r by lia. rewrite Z.pow_0_r. lia.
Qed.

Lemma scale_den_eq d e : scale_den d e = d * 2 ^ (Z.max e 0).
Proof.
  unfold scale_den. destruct (Z.ltb_spec e 0) as [Hl | Hg].
  - rewrite Z.max_r by lia. rewrite Z.pow_0_r. lia.
  - rewrite Z.max_l by lia. reflexivity.
Qed.

Lemma scale_den_pos d e : 0 < d -> 0 < scale_den d e.
Proof.
  intros Hd. rewrite scale_den_eq. pose proof (pow2_pos (Z.max e 0) ltac:(lia)). nia.
Qed.

Lemma scale_num_pos n e : 0 < n -> 0 < scale_num n e.
Proof.
  intros Hn. rewrite scale_num_eq. pose proof (pow2_pos (Z.max (- e) 0) ltac:(lia)). nia.
Qed.

(* one step down in e doubles the scaled quotient *)
Lemma scale_step n d e :
  (scale_num n (e - 1) = 2 * scale_num n e /\ scale_den d (e - 1) = scale_den d e) \/
  (scale_num n (e - 1) = scale_num n e /\ scale_den d e = 2 * scale_den d (e - 1)).
Proof.
  rewrite !scale_num_eq, !scale_den_eq.
  destruct (Z_le_gt_dec e 0) as [Hle | Hgt].
  - left. replace (Z.max (- (e - 1)) 0) with (Z.max (- e) 0 + 1) by lia.
    rewrite Z.pow_add_r by lia. rewrite Z.pow_1_r.
    replace (Z.max (e - 1) 0) with (Z.max e 0) by lia. lia.
  - right. replace (Z.max (- (e - 1)) 0) with (Z.max (- e) 0) by lia.
    replace (Z.max e 0) with (Z.max (e - 1) 0 + 1) by lia.
    rewrite Z.pow_add_r by lia. rewrite Z.pow_1_r. lia.
Qed.

Lemma pow_lt_core n d a1 b c en ep :
  0 < n -> 0 < d -> n < 2 ^ a1 -> 2 ^ b <= d ->
  0 <= a1 -> 0 <= b -> 0 <= c -> 0 <= en -> 0 <= ep ->
  a1 + en <= b + c + ep ->
  n * 2 ^ en < 2 ^ c * (d * 2 ^ ep).
Proof.
  intros Hn Hd Hna Hbd Ha1 Hb Hc Hen Hep Hexp.
  assert (Hpow : 2 ^ a1 * 2 ^ en <= 2 ^ b * 2 ^ c * 2 ^ ep).
  { rewrite <- !Z.pow_add_r by lia. apply Z.pow_le_mono_r; lia. }
  pose proof (pow2_pos a1 Ha1) as HA. pose proof (pow2_pos b Hb) as HB.
  pose proof (pow2_pos c Hc) as HC. pose proof (pow2_pos en Hen) as HEn.
  pose proof (pow2_pos ep Hep) as HEp.
  revert Hna Hbd Hpow HA HB HC HEn HEp.
  generalize (2 ^ a1) (2 ^ b) (2 ^ c) (2 ^ en) (2 ^ ep). intros A B C En Ep Hna Hbd Hpow HA HB HC HEn HEp.
  assert (H1 : n * B < A * d) by nia.
  assert (H2 : n * En * B < A * En * d) by nia.
  assert (H3 : A * En * d <= B * C * Ep * d) by nia.
  apply Z.mul_lt_mono_pos_r with (p := B); [exact HB |]. lia.
Qed.

Lemma pow_le_core n d a b1 c en ep :
  0 < n -> 0 < d -> 2 ^ a <= n -> d < 2 ^ b1 ->
  0 <= a -> 0 <= b1 -> 0 <= c -> 0 <= en -> 0 <= ep ->
  c + b1 + ep <= a + en ->
  2 ^ c * (d * 2 ^ ep) <= n * 2 ^ en.
Proof.
  intros Hn Hd Han Hdb Ha Hb1 Hc Hen Hep Hexp.
  assert (Hpow : 2 ^ c * 2 ^ b1 * 2 ^ ep <= 2 ^ a * 2 ^ en).
  { rewrite <- !Z.pow_add_r by lia. apply Z.pow_le_mono_r; lia. }
  pose proof (pow2_pos a Ha) as HA. pose proof (pow2_pos b1 Hb1) as HB.
  pose proof (pow2_pos c Hc) as HC. pose proof (pow2_pos en Hen) as HEn.
  pose proof (pow2_pos ep Hep) as HEp.
  revert Han Hdb Hpow HA HB HC HEn HEp.
  generalize (2 ^ a) (2 ^ b1) (2 ^ c) (2 ^ en) (2 ^ ep). intros A B C En Ep Han Hdb Hpow HA HB HC HEn HEp.
  assert (H1 : C * (d * Ep) <= C * B * Ep) by nia.
  assert (H2 : A * En <= n * En) by nia.
  lia.
Qed.

(* upper bound: for any e at or above the estimate, the scaled quotient is below 2^53 *)
Lemma scaled_lt_p53 n d e :
  0 < n -> 0 < d -> Z.log2 n - Z.log2 d - 52 <= e ->
  scale_num n e < p53 * scale_den d e.
Proof.
  intros Hn Hd He.
  destruct (Z.log2_spec n Hn) as [Hn1 Hn2]. destruct (Z.log2_spec d Hd) as [Hd1 Hd2].
  pose proof (Z.log2_nonneg n) as Hln. pose proof (Z.log2_nonneg d) as Hld.
  rewrite scale_num_eq, scale_den_eq.
  replace p53 with (2 ^ 53) by reflexivity.
  apply pow_lt_core with (a1 := Z.succ (Z.log2 n)) (b := Z.log2 d); try lia.
Qed.

(* lower bound: one below the estimate, the scaled quotient is at least 2^52 *)
Lemma scaled_ge_p52 n d e :
  0 < n -> 0 < d -> e <= Z.log2 n - Z.log2 d - 53 ->
  p52 * scale_den d e <= scale_num n e.
Proof.
  intros Hn Hd He.
  destruct (Z.log2_spec n Hn) as [Hn1 Hn2]. destruct (Z.log2_spec d Hd) as [Hd1 Hd2].
  pose proof (Z.log2_nonneg n) as Hln. pose proof (Z.log2_nonneg d) as Hld.
  rewrite scale_num_eq, scale_den_eq.
  replace p52 with (2 ^ 52) by reflexivity.
  apply pow_le_core with (a := Z.log2 n) (b1 := Z.succ (Z.log2 d)); try lia.
Qed.

Lemma div_lt_iff a b q : 0 < b -> (a / b < q <-> a < b * q).
Proof.
  intros Hb. split; intros H.
  - pose proof (Z.div_mod a b ltac:(lia)) as Hdm. pose proof (Z.mod_pos_bound a b Hb) as Hm. nia.
  - apply Z.div_lt_upper_bound; assumption.
Qed.

Lemma div_ge_iff a b q : 0 < b -> (q <= a / b <-> b * q <= a).
Proof.
  intros Hb. split; intros H.
  - pose proof (Z.div_mod a b ltac:(lia)) as Hdm. pose proof (Z.mod_pos_bound a b Hb) as Hm. nia.
  - apply Z.div_le_lower_bound; assumption.
Qed.

Definition e_ok (n d e : Z) : Prop :=
  -1074 <= e /\
  (p52 <= scale_num n e / scale_den d e < p53 \/
   (e = -1074 /\ 0 <= scale_num n e / scale_den d e < p52)).

(* KEY LEMMA: the chosen exponent puts the floor quotient in [2^52, 2^53), or e = -1074 (subnormal) *)
Lemma choose_e_ok n d : 0 < n -> 0 < d -> e_ok n d (choose_e n d).
Proof.
  intros Hn Hd. unfold choose_e.
  set (e0 := Z.max (-1074) (Z.log2 n - Z.log2 d - 52)).
  set (q0 := scale_num n e0 / scale_den d e0).
  pose proof (scale_den_pos d e0 Hd) as Hdd0. pose proof (scale_num_pos n e0 Hn) as Hnn0.
  assert (Hq0lt : q0 < p53).
  { apply div_lt_iff; [exact Hdd0 |]. rewrite Z.mul_comm. apply scaled_lt_p53; lia. }
  assert (Hq0nn : 0 <= q0) by (apply Z.div_pos; lia).
  destruct (Z.leb_spec p53 q0) as [Hbig | _]; [lia |].
  destruct (Z.ltb_spec q0 p52) as [Hsmall | Hnorm]; cbv beta iota delta [andb].
  - destruct (Z.ltb_spec (-1074) e0) as [Hsub | Hsub].
    + (* e0 - 1 *)
      assert (He0 : e0 = Z.log2 n - Z.log2 d - 52) by lia.
      pose proof (scale_den_pos d (e0 - 1) Hd) as Hdd1.
      split; [lia |]. left. split.
      * apply div_ge_iff; [exact Hdd1 |]. rewrite Z.mul_comm. apply scaled_ge_p52; lia.
      * apply div_lt_iff; [exact Hdd1 |].
        apply (div_lt_iff _ _ _ Hdd0) in Hsmall. pose proof p53_eq as Hp53.
        destruct (scale_step n d e0) as [[H1 H2] | [H1 H2]]; rewrite H1; lia.
    + split; [lia |]. right. split; [lia |]. fold q0. lia.
  - split; [lia |]. left. fold q0. lia.
Qed.

Lemma rnd_cases nn dd :
  0 < dd ->
  let q := nn / dd in let r := nn mod dd in
  (rnd nn dd = q /\ 2 * r <= dd /\ (2 * r = dd -> q mod 2 = 0)) \/
  (rnd nn dd = q + 1 /\ dd <= 2 * r /\ (2 * r = dd -> q mod 2 = 1)).
Proof.
  intros Hdd q r. unfold rnd. fold q r.
  pose proof (Z.mod_pos_bound q 2 ltac:(lia)) as Hq2.
  destruct (Z.compare_spec (2 * r) dd) as [He | Hl | Hg].
  - destruct (Z.eq_dec (q mod 2) 0) as [H0 | H1].
    + left. rewrite H0. lia.
    + right. assert (H1' : q mod 2 = 1) by lia. rewrite H1'. lia.
  - left. lia.
  - right. lia.
Qed.

Lemma finish_eq n d e :
  0 < d -> e_ok n d e ->
  finish n d e = Z.min inf_bits ((e + 1074) * p52 + rnd (scale_num n e) (scale_den d e)).
Proof.
  intros Hd [He Hq]. unfold finish.
  pose proof (scale_den_pos d e Hd) as Hdd.
  pose proof (rnd_cases (scale_num n e) (scale_den d e) Hdd) as Hr. cbv zeta in Hr.
  set (q := scale_num n e / scale_den d e) in *.
  set (q' := rnd (scale_num n e) (scale_den d e)) in *.
  assert (Hqq : q <= q' <= q + 1) by lia. clear Hr.
  pose proof p52_pos as Hp. pose proof p53_eq as Hp53. pose proof inf_bits_eq as Hinf.
  destruct (Z.leb_spec p53 q') as [Hcarry | Hnc].
  - cbv beta iota. rewrite Z.ltb_irrefl.
    assert (Hq' : q' = p53) by lia.
    destruct (Z.leb_spec 2047 (e + 1 + 1075)) as [Hov | Hfin].
    + rewrite Z.min_l; [reflexivity | nia].
    + rewrite Z.min_r; [nia | nia].
  - cbv beta iota.
    destruct (Z.ltb_spec q' p52) as [Hs | Hn52].
    + assert (He' : e = -1074) by lia. subst e.
      rewrite Z.min_r; [lia | nia].
    + destruct (Z.leb_spec 2047 (e + 1075)) as [Hov | Hfin].
      * rewrite Z.min_l; [reflexivity | nia].
      * rewrite Z.min_r; [lia | nia].
Qed.

(* round_mag n d = min(inf, k*2^52 + q') with q' the round-half-even of the scaled quotient *)
Lemma round_mag_spec n d :
  0 < n -> 0 < d ->
  exists e, e_ok n d e /\
    round_mag n d = Z.min inf_bits ((e + 1074) * p52 + rnd (scale_num n e) (scale_den d e)).
Proof.
  intros Hn Hd. exists (choose_e n d). split.
  - apply choose_e_ok; assumption.
  - rewrite round_mag_eq by assumption. apply finish_eq; [assumption | apply choose_e_ok; assumption].
Qed.

(* ---------- distances, scaled to integers ---------- *)
(* n/d - m*2^e, multiplied by d*2^1074, is a positive multiple of the scaled remainder *)
Lemma scale_diff n d e :
  -1074 <= e ->
  exists c, 0 < c /\
    forall m, n * S1074 - (m * 2 ^ (e + 1074)) * d = c * (scale_num n e - m * scale_den d e).
Proof.
  intros He. unfold scale_num, scale_den. destruct (Z.ltb_spec e 0) as [Hneg | Hpos].
  - exists (2 ^ (e + 1074)). split; [apply pow2_pos; lia |].
    intros m. rewrite S1074_eq. replace 1074 with (- e + (e + 1074)) at 1 by lia.
    rewrite Z.pow_add_r by lia. ring.
  - exists S1074. split; [apply S1074_pos |].
    intros m. rewrite Z.pow_add_r by lia. rewrite <- S1074_eq. ring.
Qed.

(* everything the theorems need to know about one call of round_mag *)
Lemma round_mag_frame n d :
  0 < n -> 0 < d ->
  exists B c r dd,
    0 <= B /\ 0 < c /\ 0 <= r < dd /\
    n * S1074 - ival B * d = c * r /\
    n * S1074 - ival (B + 1) * d = c * (r - dd) /\
    ((round_mag n d = Z.min inf_bits B /\ 2 * r <= dd /\ (2 * r = dd -> B mod 2 = 0)) \/
     (round_mag n d = Z.min inf_bits (B + 1) /\ dd <= 2 * r /\ (2 * r = dd -> (B + 1) mod 2 = 0))).
Proof.
  intros Hn Hd.
  destruct (round_mag_spec n d Hn Hd) as (e & [He Hq] & Hrm).
  pose proof (scale_den_pos d e Hd) as Hdd. pose proof (scale_num_pos n e Hn) as Hnn.
  destruct (scale_diff n d e He) as (c & Hc & Hdiff).
  pose proof (rnd_cases (scale_num n e) (scale_den d e) Hdd) as Hr. cbv zeta in Hr.
  pose proof (Z.div_mod (scale_num n e) (scale_den d e) ltac:(lia)) as Hdm.
  pose proof (Z.mod_pos_bound (scale_num n e) (scale_den d e) Hdd) as Hmod.
  set (nn := scale_num n e) in *. set (dd := scale_den d e) in *.
  set (q := nn / dd) in *. set (r := nn mod dd) in *.
  pose proof p52_pos as Hp. pose proof p53_eq as Hp53. pose proof p52_even as Hev.
  assert (Hq0 : 0 <= q) by lia.
  assert (HB : ival ((e + 1074) * p52 + q) = q * 2 ^ (e + 1074)) by (apply ival_enc; lia).
  assert (HB1 : ival ((e + 1074) * p52 + q + 1) = (q + 1) * 2 ^ (e + 1074)).
  { replace ((e + 1074) * p52 + q + 1) with ((e + 1074) * p52 + (q + 1)) by lia. apply ival_enc; lia. }
  assert (Hpar : ((e + 1074) * p52 + q) mod 2 = q mod 2).
  { rewrite Hev. replace ((e + 1074) * (2 * 2251799813685248) + q) with (q + (e + 1074) * 2251799813685248 * 2) by lia.
    apply Z.mod_add. lia. }
  assert (Hpar1 : ((e + 1074) * p52 + q + 1) mod 2 = (q + 1) mod 2).
  { rewrite Hev. replace ((e + 1074) * (2 * 2251799813685248) + q + 1) with (q + 1 + (e + 1074) * 2251799813685248 * 2) by lia.
    apply Z.mod_add. lia. }
  exists ((e + 1074) * p52 + q), c, r, dd.
  split; [nia |]. split; [exact Hc |]. split; [exact Hmod |].
  split. { rewrite HB, Hdiff. f_equal. lia. }
  split. { rewrite HB1, Hdiff. f_equal. lia. }
  destruct Hr as [(Hr1 & Hr2 & Hr3) | (Hr1 & Hr2 & Hr3)].
  - left. rewrite Hrm, Hr1. split; [reflexivity |]. split; [exact Hr2 |].
    intros Ht. rewrite Hpar. auto.
  - right. rewrite Hrm, Hr1. split; [f_equal; lia |]. split; [exact Hr2 |].
    intros Ht. rewrite Hpar1. specialize (Hr3 Ht).
    rewrite <- Zplus_mod_idemp_l. rewrite Hr3. reflexivity.
Qed.

(* R1 *)
Theorem round_mag_range n d : 0 < n -> 0 < d -> 0 <= round_mag n d <= inf_bits.
Proof.
  intros Hn Hd. destruct (round_mag_frame n d Hn Hd) as (B & c & r & dd & HB & _ & _ & _ & _ & Hres).
  pose proof inf_bits_eq. pose proof p52_pos.
  destruct Hres as [(-> & _) | (-> & _)]; lia.
Qed.

(* R2, integer form: |n/d - value| scaled by d*2^1074 *)
Lemma round_mag_nearest_Z n d :
  0 < n -> 0 < d -> round_mag n d < inf_bits ->
  forall b, 0 <= b ->
    Z.abs (n * S1074 - ival (round_mag n d) * d) <= Z.abs (n * S1074 - ival b * d).
Proof.
  intros Hn Hd Hfin b Hb.
  destruct (round_mag_frame n d Hn Hd) as (B & c & r & dd & HB & Hc & Hr & HdB & HdB1 & Hres).
  assert (Hlow : b <= B -> c * r <= n * S1074 - ival b * d).
  { intros Hle. pose proof (ival_le b B ltac:(lia)) as Hi. rewrite <- HdB. nia. }
  assert (Hhigh : B + 1 <= b -> n * S1074 - ival b * d <= c * (r - dd)).
  { intros Hle. pose proof (ival_le (B + 1) b ltac:(lia)) as Hi. rewrite <- HdB1. nia. }
  assert (Hcr : 0 <= c * r) by nia.
  assert (Hcd : c * (r - dd) < 0) by nia.
  destruct Hres as [(Hrm & Hhalf & _) | (Hrm & Hhalf & _)].
  - assert (HR : round_mag n d = B) by lia. rewrite HR, HdB.
    assert (Hcmp : c * r <= c * (dd - r)) by nia.
    destruct (Z_le_gt_dec b B) as [Hle | Hgt].
    + specialize (Hlow Hle). lia.
    + specialize (Hhigh ltac:(lia)). replace (c * (r - dd)) with (- (c * (dd - r))) in * by ring. lia.
  - assert (HR : round_mag n d = B + 1) by lia. rewrite HR, HdB1.
    assert (Hcmp : c * (dd - r) <= c * r) by nia.
    replace (c * (r - dd)) with (- (c * (dd - r))) in * by ring.
    destruct (Z_le_gt_dec b B) as [Hle | Hgt].
    + specialize (Hlow Hle). lia.
    + specialize (Hhigh ltac:(lia)). lia.
Qed.

(* R3, integer form *)
Lemma round_mag_ties_even_Z n d :
  0 < n -> 0 < d -> round_mag n d < inf_bits ->
  forall b, 0 <= b ->
    ival b <> ival (round_mag n d) ->
    Z.abs (n * S1074 - ival (round_mag n d) * d) = Z.abs (n * S1074 - ival b * d) ->
    (round_mag n d) mod 2 = 0.
Proof.
  intros Hn Hd Hfin b Hb Hne Htie.
  destruct (round_mag_frame n d Hn Hd) as (B & c & r & dd & HB & Hc & Hr & HdB & HdB1 & Hres).
  assert (Hlow : b <= B -> c * r <= n * S1074 - ival b * d).
  { intros Hle. pose proof (ival_le b B ltac:(lia)) as Hi. rewrite <- HdB. nia. }
  assert (Hhigh : B + 1 <= b -> n * S1074 - ival b * d <= c * (r - dd)).
  { intros Hle. pose proof (ival_le (B + 1) b ltac:(lia)) as Hi. rewrite <- HdB1. nia. }
  assert (Hcr : 0 <= c * r) by nia.
  assert (Hcd : c * (r - dd) < 0) by nia.
  destruct Hres as [(Hrm & Hhalf & Hpar) | (Hrm & Hhalf & Hpar)].
  - assert (HR : round_mag n d = B) by lia. rewrite HR in *. rewrite HdB in Htie.
    assert (Hcmp : c * r <= c * (dd - r)) by nia.
    destruct (Z_le_gt_dec b B) as [Hle | Hgt].
    + specialize (Hlow Hle). exfalso. apply Hne.
      assert (Heq : ival b * d = ival B * d) by lia. nia.
    + specialize (Hhigh ltac:(lia)). replace (c * (r - dd)) with (- (c * (dd - r))) in * by ring.
      apply Hpar. assert (Heq : c * r = c * (dd - r)) by lia. nia.
  - assert (HR : round_mag n d = B + 1) by lia. rewrite HR in *. rewrite HdB1 in Htie.
    assert (Hcmp : c * (dd - r) <= c * r) by nia.
    replace (c * (r - dd)) with (- (c * (dd - r))) in * by ring.
    destruct (Z_le_gt_dec b B) as [Hle | Hgt].
    + specialize (Hlow Hle). apply Hpar. assert (Heq : c * r = c * (dd - r)) by lia. nia.
    + specialize (Hhigh ltac:(lia)). exfalso. apply Hne.
      assert (Heq : ival b * d = ival (B + 1) * d) by lia. nia.
Qed.
