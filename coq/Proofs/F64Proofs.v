(* F64Proofs.v — round_mag really is IEEE-754 round-to-nearest-even on positive rationals.
   "every other number is read as the NEAREST double" becomes a theorem about Model/F64.round_mag:
   range, nearest, ties-to-even, overflow threshold, exactness on doubles, monotonicity.
   Rationals are Coq's Q (no reals, nothing classical); the core is integer arithmetic scaled by 2^1074. *)
From Coq Require Import QArith Qabs Lia ZArith.
From Jawk Require Import Base F64.
Local Open Scope Z_scope.

(* ---------- the value of a magnitude bit pattern ---------- *)
Definition pow2 (k : Z) : Q :=
  if 0 <=? k then inject_Z (2 ^ k) else (1 # Z.to_pos (2 ^ (- k)))%Q.

Definition mag_value (b : Z) : option Q :=
  if b <? inf_bits then
    let ex := b / p52 in
    let fr := b mod p52 in
    Some (if ex =? 0 then (inject_Z fr * pow2 (-1074))%Q
          else (inject_Z (fr + p52) * pow2 (ex - 1075))%Q)
  else None.

(* ---------- constants ---------- *)
Lemma p52_eq : p52 = 2 ^ 52. Proof. reflexivity. Qed.
Lemma p52_pos : 0 < p52. Proof. reflexivity. Qed.
Lemma p53_eq : p53 = 2 * p52. Proof. reflexivity. Qed.
Lemma inf_bits_eq : inf_bits = 2047 * p52. Proof. reflexivity. Qed.
Lemma p63_eq : p63 = 2048 * p52. Proof. reflexivity. Qed.
Lemma p52_even : p52 = 2 * 2251799813685248. Proof. reflexivity. Qed.

Definition S1074 : Z := 2 ^ 1074.
Lemma S1074_pos : 0 < S1074.
Proof. unfold S1074. apply Z.pow_pos_nonneg; lia. Qed.

Local Opaque Z.pow.
Global Opaque S1074.
Local Opaque p52 p53 p63 p64 inf_bits.

Lemma pow2_pos k : 0 <= k -> 0 < 2 ^ k.
Proof. intros Hk. apply Z.pow_pos_nonneg; lia. Qed.

(* ---------- integer value: ival b = (value of b) * 2^1074 ---------- *)
Definition ival (b : Z) : Z :=
  let ex := b / p52 in
  let fr := b mod p52 in
  if ex =? 0 then fr else (fr + p52) * 2 ^ (ex - 1).

Lemma divmod_enc p q r : 0 <= r < p -> (q * p + r) / p = q /\ (q * p + r) mod p = r.
Proof.
  intros Hr. split.
  - symmetry. apply Z.div_unique_pos with (r := r); lia.
  - symmetry. apply Z.mod_unique_pos with (q := q); lia.
Qed.

(* b = k * 2^52 + m encodes m * 2^(k-1074), for a normal mantissa or k = 0; m = 2^53 allowed (carry) *)
Lemma ival_enc k m :
  0 <= k -> 0 <= m <= p53 -> (p52 <= m \/ k = 0) -> ival (k * p52 + m) = m * 2 ^ k.
Proof.
  intros Hk Hm Hc. pose proof p52_pos as Hp. pose proof p53_eq as Hp53.
  unfold ival.
  destruct (Z_lt_le_dec m p52) as [Hlt | Hge].
  - assert (Hk0 : k = 0) by lia. subst k.
    destruct (divmod_enc p52 0 m ltac:(lia)) as [Hd Hmod].
    rewrite Hd, Hmod. rewrite Z.eqb_refl. rewrite Z.pow_0_r. lia.
  - destruct (Z_lt_le_dec m p53) as [Hlt2 | Hge2].
    + replace (k * p52 + m) with ((k + 1) * p52 + (m - p52)) by lia.
      destruct (divmod_enc p52 (k + 1) (m - p52) ltac:(lia)) as [Hd Hmod].
      rewrite Hd, Hmod.
      destruct (Z.eqb_spec (k + 1) 0) as [He | He]; [lia |].
      replace (k + 1 - 1) with k by lia. replace (m - p52 + p52) with m by lia. reflexivity.
    + assert (Hm53 : m = p53) by lia. subst m.
      replace (k * p52 + p53) with ((k + 2) * p52 + 0) by lia.
      destruct (divmod_enc p52 (k + 2) 0 ltac:(lia)) as [Hd Hmod].
      rewrite Hd, Hmod.
      destruct (Z.eqb_spec (k + 2) 0) as [He | He]; [lia |].
      replace (k + 2 - 1) with (k + 1) by lia.
      rewrite Z.pow_add_r by lia. rewrite Z.pow_1_r. lia.
Qed.

Lemma bits_decomp b :
  0 <= b -> exists k m, 0 <= k /\ 0 <= m < p53 /\ (p52 <= m \/ k = 0) /\ b = k * p52 + m.
Proof.
  intros Hb. pose proof p52_pos as Hp. pose proof p53_eq as Hp53.
  pose proof (Z.div_mod b p52 ltac:(lia)) as Hdm.
  pose proof (Z.mod_pos_bound b p52 Hp) as Hmod.
  assert (Hq : 0 <= b / p52) by (apply Z.div_pos; lia).
  destruct (Z.eq_dec (b / p52) 0) as [Hz | Hnz].
  - exists 0, (b mod p52). rewrite Hz in Hdm. lia.
  - exists (b / p52 - 1), (b mod p52 + p52). lia.
Qed.

Lemma ival_succ b : 0 <= b -> ival b < ival (b + 1).
Proof.
  intros Hb. destruct (bits_decomp b Hb) as (k & m & Hk & Hm & Hc & ->).
  pose proof p53_eq as Hp53.
  rewrite (ival_enc k m) by lia.
  replace (k * p52 + m + 1) with (k * p52 + (m + 1)) by lia.
  rewrite (ival_enc k (m + 1)) by lia.
  pose proof (pow2_pos k Hk). lia.
Qed.

Lemma ival_lt a b : 0 <= a < b -> ival a < ival b.
Proof.
  intros Hab.
  assert (Hj : forall j : nat, ival a < ival (a + 1 + Z.of_nat j)).
  { induction j as [| j IH].
    - rewrite Z.add_0_r. apply ival_succ; lia.
    - rewrite Nat2Z.inj_succ. replace (a + 1 + Z.succ (Z.of_nat j)) with (a + 1 + Z.of_nat j + 1) by lia.
      eapply Z.lt_trans; [exact IH |]. apply ival_succ; lia. }
  specialize (Hj (Z.to_nat (b - a - 1))). rewrite Z2Nat.id in Hj by lia.
  replace (a + 1 + (b - a - 1)) with b in Hj by lia. exact Hj.
Qed.

Lemma ival_le a b : 0 <= a <= b -> ival a <= ival b.
Proof.
  intros Hab. destruct (Z.eq_dec a b) as [-> | Hne]; [lia |].
  apply Z.lt_le_incl, ival_lt; lia.
Qed.

Lemma ival_inj a b : 0 <= a -> 0 <= b -> ival a = ival b -> a = b.
Proof.
  intros Ha Hb He. destruct (Z.lt_trichotomy a b) as [Hl | [Heq | Hg]]; [| exact Heq |].
  - pose proof (ival_lt a b ltac:(lia)). lia.
  - pose proof (ival_lt b a ltac:(lia)). lia.
Qed.

Lemma ival_nonneg b : 0 <= b -> 0 <= ival b.
Proof.
  intros Hb. destruct (bits_decomp b Hb) as (k & m & Hk & Hm & Hc & ->).
  pose proof p53_eq. rewrite ival_enc by lia. pose proof (pow2_pos k Hk). nia.
Qed.
