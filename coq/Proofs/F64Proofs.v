(* F64Proofs.v — round_mag really is IEEE-754 round-to-nearest-even on positive rationals.
   "every other number is read as the NEAREST double" becomes a theorem about Model/F64.round_mag:
   range, nearest, ties-to-even, overflow threshold, exactness on doubles, monotonicity.
   Rationals are Coq's Q (no reals, nothing classical); the core is integer arithmetic scaled by 2^1074. *)
From Coq Require Import QArith Qabs Lia ZArith.
From Jawk Require Import Base F64.
Local Open Scope Z_scope.

(* ---------- the value of a magnitude bit pattern ---------- *)
Definition pow2 (k : Z) : Q :=
  if 0 <=? k then inject_Z (2 ^ k) else (1 # Z.to_pos (2 ^ (- k)))%Q.

Definition mag_value (b : Z) : option Q :=
  if b <? inf_bits then
    let ex := b / p52 in
    let fr := b mod p52 in
    Some (if ex =? 0 then (inject_Z fr * pow2 (-1074))%Q
          else (inject_Z (fr + p52) * pow2 (ex - 1075))%Q)
  else None.

(* ---------- constants ---------- *)
Lemma p52_eq : p52 = 2 ^ 52. Proof. reflexivity. Qed.
Lemma p52_pos : 0 < p52. Proof. reflexivity. Qed.
Lemma p53_eq : p53 = 2 * p52. Proof. reflexivity. Qed.
Lemma inf_bits_eq : inf_bits = 2047 * p52. Proof. reflexivity. Qed.
Lemma p63_eq : p63 = 2048 * p52. Proof. reflexivity. Qed.
Lemma p52_even : p52 = 2 * 2251799813685248. Proof. reflexivity. Qed.

Definition S1074 : Z := 2 ^ 1074.
Lemma S1074_pos : 0 < S1074.
Proof. unfold S1074. apply Z.pow_pos_nonneg; lia. Qed.
Lemma S1074_eq : S1074 = 2 ^ 1074. Proof. reflexivity. Qed.

Local Opaque Z.pow.
Global Opaque S1074.
Local Opaque p52 p53 p63 p64 inf_bits.

Lemma pow2_pos k : 0 <= k -> 0 < 2 ^ k.
Proof. intros Hk. apply Z.pow_pos_nonneg; lia. Qed.

(* ---------- integer value: ival b = (value of b) * 2^1074 ---------- *)
Definition ival (b : Z) : Z :=
  let ex := b / p52 in
  let fr := b mod p52 in
  if ex =? 0 then fr else (fr + p52) * 2 ^ (ex - 1).

Lemma divmod_enc p q r : 0 <= r < p -> (q * p + r) / p = q /\ (q * p + r) mod p = r.
Proof.
  intros Hr. split.
  - symmetry. apply Z.div_unique_pos with (r := r); lia.
  - symmetry. apply Z.mod_unique_pos with (q := q); lia.
Qed.

(* b = k * 2^52 + m encodes m * 2^(k-1074), for a normal mantissa or k = 0; m = 2^53 allowed (carry) *)
Lemma ival_enc k m :
  0 <= k -> 0 <= m <= p53 -> (p52 <= m \/ k = 0) -> ival (k * p52 + m) = m * 2 ^ k.
Proof.
  intros Hk Hm Hc. pose proof p52_pos as Hp. pose proof p53_eq as Hp53.
  unfold ival.
  destruct (Z_lt_le_dec m p52) as [Hlt | Hge].
  - assert (Hk0 : k = 0) by lia. subst k.
    destruct (divmod_enc p52 0 m ltac:(lia)) as [Hd Hmod].
    rewrite Hd, Hmod. rewrite Z.eqb_refl. rewrite Z.pow_0_r. lia.
  - destruct (Z_lt_le_dec m p53) as [Hlt2 | Hge2].
    + replace (k * p52 + m) with ((k + 1) * p52 + (m - p52)) by lia.
      destruct (divmod_enc p52 (k + 1) (m - p52) ltac:(lia)) as [Hd Hmod].
      rewrite Hd, Hmod.
      destruct (Z.eqb_spec (k + 1) 0) as [He | He]; [lia |].
      replace (k + 1 - 1) with k by lia. replace (m - p52 + p52) with m by lia. reflexivity.
    + assert (Hm53 : m = p53) by lia. subst m.
      replace (k * p52 + p53) with ((k + 2) * p52 + 0) by lia.
      destruct (divmod_enc p52 (k + 2) 0 ltac:(lia)) as [Hd Hmod].
      rewrite Hd, Hmod.
      destruct (Z.eqb_spec (k + 2) 0) as [He | He]; [lia |].
      replace (k + 2 - 1) with (k + 1) by lia.
      rewrite Z.pow_add_r by lia. rewrite Z.pow_1_r. lia.
Qed.

Lemma bits_decomp b :
  0 <= b -> exists k m, 0 <= k /\ 0 <= m < p53 /\ (p52 <= m \/ k = 0) /\ b = k * p52 + m.
Proof.
  intros Hb. pose proof p52_pos as Hp. pose proof p53_eq as Hp53.
  pose proof (Z.div_mod b p52 ltac:(lia)) as Hdm.
  pose proof (Z.mod_pos_bound b p52 Hp) as Hmod.
  assert (Hq : 0 <= b / p52) by (apply Z.div_pos; lia).
  destruct (Z.eq_dec (b / p52) 0) as [Hz | Hnz].
  - exists 0, (b mod p52). rewrite Hz in Hdm. lia.
  - exists (b / p52 - 1), (b mod p52 + p52). lia.
Qed.

Lemma ival_succ b : 0 <= b -> ival b < ival (b + 1).
Proof.
  intros Hb. destruct (bits_decomp b Hb) as (k & m & Hk & Hm & Hc & ->).
  pose proof p53_eq as Hp53.
  rewrite (ival_enc k m) by lia.
  replace (k * p52 + m + 1) with (k * p52 + (m + 1)) by lia.
  rewrite (ival_enc k (m + 1)) by lia.
  pose proof (pow2_pos k Hk). lia.
Qed.

Lemma ival_lt a b : 0 <= a < b -> ival a < ival b.
Proof.
  intros Hab.
  assert (Hj : forall j : nat, ival a < ival (a + 1 + Z.of_nat j)).
  { induction j as [| j IH].
    - rewrite Z.add_0_r. apply ival_succ; lia.
    - rewrite Nat2Z.inj_succ. replace (a + 1 + Z.succ (Z.of_nat j)) with (a + 1 + Z.of_nat j + 1) by lia.
      eapply Z.lt_trans; [exact IH |]. apply ival_succ; lia. }
  specialize (Hj (Z.to_nat (b - a - 1))). rewrite Z2Nat.id in Hj by lia.
  replace (a + 1 + (b - a - 1)) with b in Hj by lia. exact Hj.
Qed.

Lemma ival_le a b : 0 <= a <= b -> ival a <= ival b.
Proof.
  intros Hab. destruct (Z.eq_dec a b) as [-> | Hne]; [lia |].
  apply Z.lt_le_incl, ival_lt; lia.
Qed.

Lemma ival_inj a b : 0 <= a -> 0 <= b -> ival a = ival b -> a = b.
Proof.
  intros Ha Hb He. destruct (Z.lt_trichotomy a b) as [Hl | [Heq | Hg]]; [| exact Heq |].
  - pose proof (ival_lt a b ltac:(lia)). lia.
  - pose proof (ival_lt b a ltac:(lia)). lia.
Qed.

Lemma ival_nonneg b : 0 <= b -> 0 <= ival b.
Proof.
  intros Hb. destruct (bits_decomp b Hb) as (k & m & Hk & Hm & Hc & ->).
  pose proof p53_eq. rewrite ival_enc by lia. pose proof (pow2_pos k Hk). nia.
Qed.

(* ---------- the structure of round_mag ---------- *)
Definition rnd (nn dd : Z) : Z :=
  let q := nn / dd in
  let r := nn mod dd in
  match 2 * r ?= dd with Gt => q + 1 | Eq => q + q mod 2 | Lt => q end.

Definition choose_e (n d : Z) : Z :=
  let e0 := Z.max (-1074) (Z.log2 n - Z.log2 d - 52) in
  let q0 := scale_num n e0 / scale_den d e0 in
  if p53 <=? q0 then e0 + 1 else if (q0 <? p52) && (-1074 <? e0) then e0 - 1 else e0.

Definition finish (n d e : Z) : Z :=
  let q' := rnd (scale_num n e) (scale_den d e) in
  let '(q2, e2) := if p53 <=? q' then (p52, e + 1) else (q', e) in
  if q2 <? p52 then q2
  else let ex := e2 + 1075 in
       if 2047 <=? ex then inf_bits else ex * p52 + (q2 - p52).

Lemma round_mag_eq n d : 0 < n -> round_mag n d = finish n d (choose_e n d).
Proof.
  intros Hn. unfold round_mag. destruct (Z.leb_spec n 0) as [Hle | Hgt]; [lia |]. reflexivity.
Qed.

Lemma scale_num_eq n e : scale_num n e = n * 2 ^ (Z.max (- e) 0).
Proof.
  unfold scale_num. destruct (Z.ltb_spec e 0) as [Hl | Hg].
  - rewrite Z.max_l by lia. reflexivity.
  - rewrite Z.max_r by lia. rewrite Z.pow_0_r. lia.
Qed.

Lemma scale_den_eq d e : scale_den d e = d * 2 ^ (Z.max e 0).
Proof.
  unfold scale_den. destruct (Z.ltb_spec e 0) as [Hl | Hg].
  - rewrite Z.max_r by lia. rewrite Z.pow_0_r. lia.
  - rewrite Z.max_l by lia. reflexivity.
Qed.

Lemma scale_den_pos d e : 0 < d -> 0 < scale_den d e.
Proof.
  intros Hd. rewrite scale_den_eq. pose proof (pow2_pos (Z.max e 0) ltac:(lia)). nia.
Qed.

Lemma scale_num_pos n e : 0 < n -> 0 < scale_num n e.
Proof.
  intros Hn. rewrite scale_num_eq. pose proof (pow2_pos (Z.max (- e) 0) ltac:(lia)). nia.
Qed.

(* one step down in e doubles the scaled quotient *)
Lemma scale_step n d e :
  (scale_num n (e - 1) = 2 * scale_num n e /\ scale_den d (e - 1) = scale_den d e) \/
  (scale_num n (e - 1) = scale_num n e /\ scale_den d e = 2 * scale_den d (e - 1)).
Proof.
  rewrite !scale_num_eq, !scale_den_eq.
  destruct (Z_le_gt_dec e 0) as [Hle | Hgt].
  - left. replace (Z.max (- (e - 1)) 0) with (Z.max (- e) 0 + 1) by lia.
    rewrite Z.pow_add_r by lia. rewrite Z.pow_1_r.
    replace (Z.max (e - 1) 0) with (Z.max e 0) by lia. lia.
  - right. replace (Z.max (- (e - 1)) 0) with (Z.max (- e) 0) by lia.
    replace (Z.max e 0) with (Z.max (e - 1) 0 + 1) by lia.
    rewrite Z.pow_add_r by lia. rewrite Z.pow_1_r. lia.
Qed.

Lemma pow_lt_core n d a1 b c en ep :
  0 < n -> 0 < d -> n < 2 ^ a1 -> 2 ^ b <= d ->
  0 <= a1 -> 0 <= b -> 0 <= c -> 0 <= en -> 0 <= ep ->
  a1 + en <= b + c + ep ->
  n * 2 ^ en < 2 ^ c * (d * 2 ^ ep).
Proof.
  intros Hn Hd Hna Hbd Ha1 Hb Hc Hen Hep Hexp.
  assert (Hpow : 2 ^ a1 * 2 ^ en <= 2 ^ b * 2 ^ c * 2 ^ ep).
  { rewrite <- !Z.pow_add_r by lia. apply Z.pow_le_mono_r; lia. }
  pose proof (pow2_pos a1 Ha1) as HA. pose proof (pow2_pos b Hb) as HB.
  pose proof (pow2_pos c Hc) as HC. pose proof (pow2_pos en Hen) as HEn.
  pose proof (pow2_pos ep Hep) as HEp.
  revert Hna Hbd Hpow HA HB HC HEn HEp.
  generalize (2 ^ a1) (2 ^ b) (2 ^ c) (2 ^ en) (2 ^ ep). intros A B C En Ep Hna Hbd Hpow HA HB HC HEn HEp.
  assert (H1 : n * B < A * d) by nia.
  assert (H2 : n * En * B < A * En * d) by nia.
  assert (H3 : A * En * d <= B * C * Ep * d) by nia.
  apply Z.mul_lt_mono_pos_r with (p := B); [exact HB |]. lia.
Qed.

Lemma pow_le_core n d a b1 c en ep :
  0 < n -> 0 < d -> 2 ^ a <= n -> d < 2 ^ b1 ->
  0 <= a -> 0 <= b1 -> 0 <= c -> 0 <= en -> 0 <= ep ->
  c + b1 + ep <= a + en ->
  2 ^ c * (d * 2 ^ ep) <= n * 2 ^ en.
Proof.
  intros Hn Hd Han Hdb Ha Hb1 Hc Hen Hep Hexp.
  assert (Hpow : 2 ^ c * 2 ^ b1 * 2 ^ ep <= 2 ^ a * 2 ^ en).
  { rewrite <- !Z.pow_add_r by lia. apply Z.pow_le_mono_r; lia. }
  pose proof (pow2_pos a Ha) as HA. pose proof (pow2_pos b1 Hb1) as HB.
  pose proof (pow2_pos c Hc) as HC. pose proof (pow2_pos en Hen) as HEn.
  pose proof (pow2_pos ep Hep) as HEp.
  revert Han Hdb Hpow HA HB HC HEn HEp.
  generalize (2 ^ a) (2 ^ b1) (2 ^ c) (2 ^ en) (2 ^ ep). intros A B C En Ep Han Hdb Hpow HA HB HC HEn HEp.
  assert (H1 : C * (d * Ep) <= C * B * Ep) by nia.
  assert (H2 : A * En <= n * En) by nia.
  lia.
Qed.

(* upper bound: for any e at or above the estimate, the scaled quotient is below 2^53 *)
Lemma scaled_lt_p53 n d e :
  0 < n -> 0 < d -> Z.log2 n - Z.log2 d - 52 <= e ->
  scale_num n e < p53 * scale_den d e.
Proof.
  intros Hn Hd He.
  destruct (Z.log2_spec n Hn) as [Hn1 Hn2]. destruct (Z.log2_spec d Hd) as [Hd1 Hd2].
  pose proof (Z.log2_nonneg n) as Hln. pose proof (Z.log2_nonneg d) as Hld.
  rewrite scale_num_eq, scale_den_eq.
  replace p53 with (2 ^ 53) by reflexivity.
  apply pow_lt_core with (a1 := Z.succ (Z.log2 n)) (b := Z.log2 d); try lia.
Qed.

(* lower bound: one below the estimate, the scaled quotient is at least 2^52 *)
Lemma scaled_ge_p52 n d e :
  0 < n -> 0 < d -> e <= Z.log2 n - Z.log2 d - 53 ->
  p52 * scale_den d e <= scale_num n e.
Proof.
  intros Hn Hd He.
  destruct (Z.log2_spec n Hn) as [Hn1 Hn2]. destruct (Z.log2_spec d Hd) as [Hd1 Hd2].
  pose proof (Z.log2_nonneg n) as Hln. pose proof (Z.log2_nonneg d) as Hld.
  rewrite scale_num_eq, scale_den_eq.
  replace p52 with (2 ^ 52) by reflexivity.
  apply pow_le_core with (a := Z.log2 n) (b1 := Z.succ (Z.log2 d)); try lia.
Qed.

Lemma div_lt_iff a b q : 0 < b -> (a / b < q <-> a < b * q).
Proof.
  intros Hb. split; intros H.
  - pose proof (Z.div_mod a b ltac:(lia)) as Hdm. pose proof (Z.mod_pos_bound a b Hb) as Hm. nia.
  - apply Z.div_lt_upper_bound; assumption.
Qed.

Lemma div_ge_iff a b q : 0 < b -> (q <= a / b <-> b * q <= a).
Proof.
  intros Hb. split; intros H.
  - pose proof (Z.div_mod a b ltac:(lia)) as Hdm. pose proof (Z.mod_pos_bound a b Hb) as Hm. nia.
  - apply Z.div_le_lower_bound; assumption.
Qed.

Definition e_ok (n d e : Z) : Prop :=
  -1074 <= e /\
  (p52 <= scale_num n e / scale_den d e < p53 \/
   (e = -1074 /\ 0 <= scale_num n e / scale_den d e < p52)).

(* KEY LEMMA: the chosen exponent puts the floor quotient in [2^52, 2^53), or e = -1074 (subnormal) *)
Lemma choose_e_ok n d : 0 < n -> 0 < d -> e_ok n d (choose_e n d).
Proof.
  intros Hn Hd. unfold choose_e.
  set (e0 := Z.max (-1074) (Z.log2 n - Z.log2 d - 52)).
  set (q0 := scale_num n e0 / scale_den d e0).
  pose proof (scale_den_pos d e0 Hd) as Hdd0. pose proof (scale_num_pos n e0 Hn) as Hnn0.
  assert (Hq0lt : q0 < p53).
  { apply div_lt_iff; [exact Hdd0 |]. rewrite Z.mul_comm. apply scaled_lt_p53; lia. }
  assert (Hq0nn : 0 <= q0) by (apply Z.div_pos; lia).
  destruct (Z.leb_spec p53 q0) as [Hbig | _]; [lia |].
  destruct (Z.ltb_spec q0 p52) as [Hsmall | Hnorm]; cbv beta iota delta [andb].
  - destruct (Z.ltb_spec (-1074) e0) as [Hsub | Hsub].
    + (* e0 - 1 *)
      assert (He0 : e0 = Z.log2 n - Z.log2 d - 52) by lia.
      pose proof (scale_den_pos d (e0 - 1) Hd) as Hdd1.
      split; [lia |]. left. split.
      * apply div_ge_iff; [exact Hdd1 |]. rewrite Z.mul_comm. apply scaled_ge_p52; lia.
      * apply div_lt_iff; [exact Hdd1 |].
        apply (div_lt_iff _ _ _ Hdd0) in Hsmall. pose proof p53_eq as Hp53.
        destruct (scale_step n d e0) as [[H1 H2] | [H1 H2]]; rewrite H1; lia.
    + split; [lia |]. right. split; [lia |]. fold q0. lia.
  - split; [lia |]. left. fold q0. lia.
Qed.

Lemma rnd_cases nn dd :
  0 < dd ->
  let q := nn / dd in let r := nn mod dd in
  (rnd nn dd = q /\ 2 * r <= dd /\ (2 * r = dd -> q mod 2 = 0)) \/
  (rnd nn dd = q + 1 /\ dd <= 2 * r /\ (2 * r = dd -> q mod 2 = 1)).
Proof.
  intros Hdd q r. unfold rnd. fold q r.
  pose proof (Z.mod_pos_bound q 2 ltac:(lia)) as Hq2.
  destruct (Z.compare_spec (2 * r) dd) as [He | Hl | Hg].
  - destruct (Z.eq_dec (q mod 2) 0) as [H0 | H1].
    + left. rewrite H0. lia.
    + right. assert (H1' : q mod 2 = 1) by lia. rewrite H1'. lia.
  - left. lia.
  - right. lia.
Qed.

Lemma finish_eq n d e :
  0 < d -> e_ok n d e ->
  finish n d e = Z.min inf_bits ((e + 1074) * p52 + rnd (scale_num n e) (scale_den d e)).
Proof.
  intros Hd [He Hq]. unfold finish.
  pose proof (scale_den_pos d e Hd) as Hdd.
  pose proof (rnd_cases (scale_num n e) (scale_den d e) Hdd) as Hr. cbv zeta in Hr.
  set (q := scale_num n e / scale_den d e) in *.
  set (q' := rnd (scale_num n e) (scale_den d e)) in *.
  assert (Hqq : q <= q' <= q + 1) by lia. clear Hr.
  pose proof p52_pos as Hp. pose proof p53_eq as Hp53. pose proof inf_bits_eq as Hinf.
  destruct (Z.leb_spec p53 q') as [Hcarry | Hnc].
  - cbv beta iota. rewrite Z.ltb_irrefl.
    assert (Hq' : q' = p53) by lia.
    destruct (Z.leb_spec 2047 (e + 1 + 1075)) as [Hov | Hfin].
    + rewrite Z.min_l; [reflexivity | nia].
    + rewrite Z.min_r; [nia | nia].
  - cbv beta iota.
    destruct (Z.ltb_spec q' p52) as [Hs | Hn52].
    + assert (He' : e = -1074) by lia. subst e.
      rewrite Z.min_r; [lia | nia].
    + destruct (Z.leb_spec 2047 (e + 1075)) as [Hov | Hfin].
      * rewrite Z.min_l; [reflexivity | nia].
      * rewrite Z.min_r; [lia | nia].
Qed.

(* round_mag n d = min(inf, k*2^52 + q') with q' the round-half-even of the scaled quotient *)
Lemma round_mag_spec n d :
  0 < n -> 0 < d ->
  exists e, e_ok n d e /\
    round_mag n d = Z.min inf_bits ((e + 1074) * p52 + rnd (scale_num n e) (scale_den d e)).
Proof.
  intros Hn Hd. exists (choose_e n d). split.
  - apply choose_e_ok; assumption.
  - rewrite round_mag_eq by assumption. apply finish_eq; [assumption | apply choose_e_ok; assumption].
Qed.

(* ---------- distances, scaled to integers ---------- *)
(* n/d - m*2^e, multiplied by d*2^1074, is a positive multiple of the scaled remainder *)
Lemma scale_diff n d e :
  -1074 <= e ->
  exists c, 0 < c /\
    forall m, n * S1074 - (m * 2 ^ (e + 1074)) * d = c * (scale_num n e - m * scale_den d e).
Proof.
  intros He. unfold scale_num, scale_den. destruct (Z.ltb_spec e 0) as [Hneg | Hpos].
  - exists (2 ^ (e + 1074)). split; [apply pow2_pos; lia |].
    intros m. rewrite S1074_eq. replace 1074 with (- e + (e + 1074)) at 1 by lia.
    rewrite Z.pow_add_r by lia. ring.
  - exists S1074. split; [apply S1074_pos |].
    intros m. rewrite Z.pow_add_r by lia. rewrite <- S1074_eq. ring.
Qed.

(* everything the theorems need to know about one call of round_mag *)
Lemma round_mag_frame n d :
  0 < n -> 0 < d ->
  exists B c r dd,
    0 <= B /\ 0 < c /\ 0 <= r < dd /\
    n * S1074 - ival B * d = c * r /\
    n * S1074 - ival (B + 1) * d = c * (r - dd) /\
    ((round_mag n d = Z.min inf_bits B /\ 2 * r <= dd /\ (2 * r = dd -> B mod 2 = 0)) \/
     (round_mag n d = Z.min inf_bits (B + 1) /\ dd <= 2 * r /\ (2 * r = dd -> (B + 1) mod 2 = 0))).
Proof.
  intros Hn Hd.
  destruct (round_mag_spec n d Hn Hd) as (e & [He Hq] & Hrm).
  pose proof (scale_den_pos d e Hd) as Hdd. pose proof (scale_num_pos n e Hn) as Hnn.
  destruct (scale_diff n d e He) as (c & Hc & Hdiff).
  pose proof (rnd_cases (scale_num n e) (scale_den d e) Hdd) as Hr. cbv zeta in Hr.
  pose proof (Z.div_mod (scale_num n e) (scale_den d e) ltac:(lia)) as Hdm.
  pose proof (Z.mod_pos_bound (scale_num n e) (scale_den d e) Hdd) as Hmod.
  set (nn := scale_num n e) in *. set (dd := scale_den d e) in *.
  set (q := nn / dd) in *. set (r := nn mod dd) in *.
  pose proof p52_pos as Hp. pose proof p53_eq as Hp53. pose proof p52_even as Hev.
  assert (Hq0 : 0 <= q) by lia.
  assert (HB : ival ((e + 1074) * p52 + q) = q * 2 ^ (e + 1074)) by (apply ival_enc; lia).
  assert (HB1 : ival ((e + 1074) * p52 + q + 1) = (q + 1) * 2 ^ (e + 1074)).
  { replace ((e + 1074) * p52 + q + 1) with ((e + 1074) * p52 + (q + 1)) by lia. apply ival_enc; lia. }
  assert (Hpar : ((e + 1074) * p52 + q) mod 2 = q mod 2).
  { rewrite Hev. replace ((e + 1074) * (2 * 2251799813685248) + q) with (q + (e + 1074) * 2251799813685248 * 2) by lia.
    apply Z.mod_add. lia. }
  assert (Hpar1 : ((e + 1074) * p52 + q + 1) mod 2 = (q + 1) mod 2).
  { rewrite Hev. replace ((e + 1074) * (2 * 2251799813685248) + q + 1) with (q + 1 + (e + 1074) * 2251799813685248 * 2) by lia.
    apply Z.mod_add. lia. }
  exists ((e + 1074) * p52 + q), c, r, dd.
  split; [nia |]. split; [exact Hc |]. split; [exact Hmod |].
  split. { rewrite HB, Hdiff. f_equal. lia. }
  split. { rewrite HB1, Hdiff. f_equal. lia. }
  destruct Hr as [(Hr1 & Hr2 & Hr3) | (Hr1 & Hr2 & Hr3)].
  - left. rewrite Hrm, Hr1. split; [reflexivity |]. split; [exact Hr2 |].
    intros Ht. rewrite Hpar. auto.
  - right. rewrite Hrm, Hr1. split; [f_equal; lia |]. split; [exact Hr2 |].
    intros Ht. rewrite Hpar1. specialize (Hr3 Ht).
    rewrite <- Zplus_mod_idemp_l. rewrite Hr3. reflexivity.
Qed.

(* R1 *)
Theorem round_mag_range n d : 0 < n -> 0 < d -> 0 <= round_mag n d <= inf_bits.
Proof.
  intros Hn Hd. destruct (round_mag_frame n d Hn Hd) as (B & c & r & dd & HB & _ & _ & _ & _ & Hres).
  pose proof inf_bits_eq. pose proof p52_pos.
  destruct Hres as [(-> & _) | (-> & _)]; lia.
Qed.

(* R2, integer form: |n/d - value| scaled by d*2^1074 *)
Lemma round_mag_nearest_Z n d :
  0 < n -> 0 < d -> round_mag n d < inf_bits ->
  forall b, 0 <= b ->
    Z.abs (n * S1074 - ival (round_mag n d) * d) <= Z.abs (n * S1074 - ival b * d).
Proof.
  intros Hn Hd Hfin b Hb.
  destruct (round_mag_frame n d Hn Hd) as (B & c & r & dd & HB & Hc & Hr & HdB & HdB1 & Hres).
  assert (Hlow : b <= B -> c * r <= n * S1074 - ival b * d).
  { intros Hle. pose proof (ival_le b B ltac:(lia)) as Hi. rewrite <- HdB. nia. }
  assert (Hhigh : B + 1 <= b -> n * S1074 - ival b * d <= c * (r - dd)).
  { intros Hle. pose proof (ival_le (B + 1) b ltac:(lia)) as Hi. rewrite <- HdB1. nia. }
  assert (Hcr : 0 <= c * r) by nia.
  assert (Hcd : c * (r - dd) < 0) by nia.
  destruct Hres as [(Hrm & Hhalf & _) | (Hrm & Hhalf & _)].
  - assert (HR : round_mag n d = B) by lia. rewrite HR, HdB.
    assert (Hcmp : c * r <= c * (dd - r)) by nia.
    destruct (Z_le_gt_dec b B) as [Hle | Hgt].
    + specialize (Hlow Hle). lia.
    + specialize (Hhigh ltac:(lia)). replace (c * (r - dd)) with (- (c * (dd - r))) in * by ring. lia.
  - assert (HR : round_mag n d = B + 1) by lia. rewrite HR, HdB1.
    assert (Hcmp : c * (dd - r) <= c * r) by nia.
    replace (c * (r - dd)) with (- (c * (dd - r))) in * by ring.
    destruct (Z_le_gt_dec b B) as [Hle | Hgt].
    + specialize (Hlow Hle). lia.
    + specialize (Hhigh ltac:(lia)). lia.
Qed.

(* R3, integer form *)
Lemma round_mag_ties_even_Z n d :
  0 < n -> 0 < d -> round_mag n d < inf_bits ->
  forall b, 0 <= b ->
    ival b <> ival (round_mag n d) ->
    Z.abs (n * S1074 - ival (round_mag n d) * d) = Z.abs (n * S1074 - ival b * d) ->
    (round_mag n d) mod 2 = 0.
Proof.
  intros Hn Hd Hfin b Hb Hne Htie.
  destruct (round_mag_frame n d Hn Hd) as (B & c & r & dd & HB & Hc & Hr & HdB & HdB1 & Hres).
  assert (Hlow : b <= B -> c * r <= n * S1074 - ival b * d).
  { intros Hle. pose proof (ival_le b B ltac:(lia)) as Hi. rewrite <- HdB. nia. }
  assert (Hhigh : B + 1 <= b -> n * S1074 - ival b * d <= c * (r - dd)).
  { intros Hle. pose proof (ival_le (B + 1) b ltac:(lia)) as Hi. rewrite <- HdB1. nia. }
  assert (Hcr : 0 <= c * r) by nia.
  assert (Hcd : c * (r - dd) < 0) by nia.
  destruct Hres as [(Hrm & Hhalf & Hpar) | (Hrm & Hhalf & Hpar)].
  - assert (HR : round_mag n d = B) by lia. rewrite HR in *. rewrite HdB in Htie.
    assert (Hcmp : c * r <= c * (dd - r)) by nia.
    destruct (Z_le_gt_dec b B) as [Hle | Hgt].
    + specialize (Hlow Hle). exfalso. apply Hne.
      assert (Heq : ival b * d = ival B * d) by lia. nia.
    + specialize (Hhigh ltac:(lia)). replace (c * (r - dd)) with (- (c * (dd - r))) in * by ring.
      apply Hpar. assert (Heq : c * r = c * (dd - r)) by lia. nia.
  - assert (HR : round_mag n d = B + 1) by lia. rewrite HR in *. rewrite HdB1 in Htie.
    assert (Hcmp : c * (dd - r) <= c * r) by nia.
    replace (c * (r - dd)) with (- (c * (dd - r))) in * by ring.
    destruct (Z_le_gt_dec b B) as [Hle | Hgt].
    + specialize (Hlow Hle). apply Hpar. assert (Heq : c * r = c * (dd - r)) by lia. nia.
    + specialize (Hhigh ltac:(lia)). exfalso. apply Hne.
      assert (Heq : ival b * d = ival (B + 1) * d) by lia. nia.
Qed.

(* ---------- R4: the overflow threshold ---------- *)
Lemma thresh_eq : 2 ^ 1024 - 2 ^ 970 = (2 * p53 - 1) * 2 ^ 970.
Proof. vm_compute. reflexivity. Qed.

Theorem round_mag_overflow n d :
  0 < n -> 0 < d ->
  (round_mag n d = inf_bits <-> (2 ^ 1024 - 2 ^ 970) * d <= n).
Proof.
  intros Hn Hd. rewrite thresh_eq.
  destruct (round_mag_spec n d Hn Hd) as (e & [He Hq] & Hrm).
  pose proof (scale_den_pos d e Hd) as Hdd.
  pose proof (rnd_cases (scale_num n e) (scale_den d e) Hdd) as Hr. cbv zeta in Hr.
  pose proof (Z.div_mod (scale_num n e) (scale_den d e) ltac:(lia)) as Hdm.
  pose proof (Z.mod_pos_bound (scale_num n e) (scale_den d e) Hdd) as Hmod.
  pose proof p52_pos as Hp. pose proof p53_eq as Hp53. pose proof inf_bits_eq as Hinf.
  pose proof (pow2_pos 970 ltac:(lia)) as HP.
  rewrite Hrm. clear Hrm.
  set (q' := rnd (scale_num n e) (scale_den d e)) in *.
  set (q := scale_num n e / scale_den d e) in *.
  set (r := scale_num n e mod scale_den d e) in *.
  assert (Hqq : q <= q' <= q + 1) by lia.
  destruct (Z_le_gt_dec 972 e) as [Hbig | Hnb].
  - (* both sides hold *)
    assert (Hnorm : p52 <= q < p53) by lia.
    split; intros _.
    + unfold scale_num, scale_den in Hdm. destruct (Z.ltb_spec e 0) as [Hneg | Hpos]; [lia |].
      assert (Hpow : 4 * 2 ^ 970 <= 2 ^ e).
      { change 4 with (2 ^ 2). rewrite <- Z.pow_add_r by lia. apply Z.pow_le_mono_r; lia. }
      revert Hpow Hdm HP. fold q r. generalize (2 ^ 970) (2 ^ e). intros P E Hpow Hdm HP.
      assert (H1 : p52 * (d * E) <= n) by nia.
      assert (H2 : p52 * (d * (4 * P)) <= p52 * (d * E)) by nia.
      nia.
    + apply Z.min_l. nia.
  - destruct (Z.eq_dec e 971) as [He971 | Hne].
    + subst e.
      assert (Hnn : scale_num n 971 = n) by reflexivity.
      assert (Hden : scale_den d 971 = 2 * (d * 2 ^ 970)).
      { change (scale_den d 971) with (d * 2 ^ (970 + 1)). rewrite Z.pow_add_r by lia. rewrite Z.pow_1_r. lia. }
      assert (Hnorm : p52 <= q < p53) by lia.
      rewrite Hnn, Hden in *.
      revert Hdd Hdm Hmod Hr HP. generalize (2 ^ 970). intros P Hdd Hdm Hmod Hr HP.
      set (dd := 2 * (d * P)) in *.
      replace ((2 * p53 - 1) * P * d) with ((2 * p53 - 1) * (d * P)) by ring.
      split.
      * intros Hmin. assert (Hq' : p53 <= q') by lia.
        destruct Hr as [(Hr1 & Hr2 & Hr3) | (Hr1 & Hr2 & Hr3)]; [lia |].
        assert (Hqe : q = p53 - 1) by lia.
        assert (H2n : 2 * n = 2 * q * dd + 2 * r) by lia.
        assert (H3 : (2 * q + 1) * dd <= 2 * n) by lia.
        rewrite Hqe in H3. unfold dd in H3. nia.
      * intros Hth. apply Z.min_l.
        assert (H2n : (2 * p53 - 1) * dd <= 2 * n) by (unfold dd; nia).
        assert (Hqe : q = p53 - 1).
        { assert (Hlt : 2 * n < 2 * (q + 1) * dd) by nia.
          destruct (Z_le_gt_dec (p53 - 1) q) as [Hok | Hbad]; [lia |].
          assert (Hb2 : 2 * (q + 1) * dd <= (2 * p53 - 2) * dd) by nia. nia. }
        assert (Hr2 : dd <= 2 * r).
        { assert (Hx : 2 * n = (2 * p53 - 2) * dd + 2 * r) by (rewrite Hqe in Hdm; nia). nia. }
        destruct Hr as [(Hr1 & Hr2' & Hr3) | (Hr1 & Hr2' & Hr3)]; [| lia].
        exfalso. assert (Hodd : q mod 2 = 0) by (apply Hr3; lia). rewrite Hqe, Hp53 in Hodd. clear - Hodd. Z.div_mod_to_equations. lia.
    + (* both sides fail *)
      assert (He970 : e <= 970) by lia.
      assert (Hqlt : q < p53) by lia.
      assert (Hnn : scale_num n e < p53 * scale_den d e) by nia.
      split.
      * intros Hmin. exfalso.
        assert (Hle : (e + 1074) * p52 + q' <= 2046 * p52) by nia. lia.
      * intros Hth. exfalso.
        unfold scale_num, scale_den in Hnn. destruct (Z.ltb_spec e 0) as [Hneg | Hpos].
        -- pose proof (pow2_pos (- e) ltac:(lia)) as HE.
           revert Hnn HE Hth HP. generalize (2 ^ (- e)) (2 ^ 970). intros E P Hnn HE Hth HP.
           assert (H1 : n <= n * E) by nia.
           assert (H2 : p53 * d <= (2 * p53 - 1) * P * d) by nia. lia.
        -- assert (Hpow : 2 ^ e <= 2 ^ 970) by (apply Z.pow_le_mono_r; lia).
           pose proof (pow2_pos e Hpos) as HE.
           revert Hnn HE Hth HP Hpow. generalize (2 ^ e) (2 ^ 970). intros E P Hnn HE Hth HP Hpow.
           assert (HdE : d * E <= d * P) by nia.
           assert (H2a : p53 * (d * E) <= p53 * (d * P)) by (apply Z.mul_le_mono_nonneg_l; lia).
           assert (HdP : 0 <= d * P) by nia.
           assert (H2b : p53 * (d * P) <= (2 * p53 - 1) * (d * P)) by (apply Z.mul_le_mono_nonneg_r; lia).
           lia.
Qed.

(* ---------- R5: exactness and monotonicity, integer form ---------- *)
Lemma ival_max : ival (inf_bits - 1) = (p53 - 1) * 2 ^ 2045.
Proof.
  pose proof p52_pos. pose proof p53_eq. pose proof inf_bits_eq.
  replace (inf_bits - 1) with (2045 * p52 + (p53 - 1)) by lia.
  apply ival_enc; lia.
Qed.

Lemma max_below_thresh : (p53 - 1) * 2 ^ 2045 < (2 ^ 1024 - 2 ^ 970) * S1074.
Proof. vm_compute. reflexivity. Qed.

Lemma finite_below_thresh n d b :
  0 < n -> 0 < d -> 0 <= b < inf_bits -> n * S1074 = ival b * d -> round_mag n d < inf_bits.
Proof.
  intros Hn Hd Hb Hex.
  pose proof (round_mag_range n d Hn Hd) as Hrange.
  destruct (Z.eq_dec (round_mag n d) inf_bits) as [Hinf | Hne]; [| lia].
  exfalso. apply (round_mag_overflow n d Hn Hd) in Hinf.
  pose proof (ival_le b (inf_bits - 1) ltac:(lia)) as Hle. rewrite ival_max in Hle.
  pose proof max_below_thresh as Hlt. pose proof S1074_pos as HS.
  revert Hinf Hlt Hle. generalize (2 ^ 1024 - 2 ^ 970) ((p53 - 1) * 2 ^ 2045). intros T M Hinf Hlt Hle.
  assert (H1 : T * d * S1074 <= n * S1074) by nia.
  assert (H2 : ival b * d <= M * d) by nia.
  assert (H3 : M * d < T * S1074 * d) by nia.
  lia.
Qed.

Lemma round_mag_exact_Z n d b :
  0 < n -> 0 < d -> 0 <= b < inf_bits -> n * S1074 = ival b * d -> round_mag n d = b.
Proof.
  intros Hn Hd Hb Hex.
  pose proof (finite_below_thresh n d b Hn Hd Hb Hex) as Hfin.
  pose proof (round_mag_range n d Hn Hd) as Hrange.
  pose proof (round_mag_nearest_Z n d Hn Hd Hfin b ltac:(lia)) as Hnear.
  apply ival_inj; [lia | lia |].
  assert (Heq : ival (round_mag n d) * d = ival b * d) by lia. nia.
Qed.

Theorem round_mag_monotone n1 d1 n2 d2 :
  0 < n1 -> 0 < d1 -> 0 < n2 -> 0 < d2 ->
  n1 * d2 <= n2 * d1 -> round_mag n1 d1 <= round_mag n2 d2.
Proof.
  intros Hn1 Hd1 Hn2 Hd2 Hle.
  pose proof (round_mag_range n1 d1 Hn1 Hd1) as Hr1.
  pose proof (round_mag_range n2 d2 Hn2 Hd2) as Hr2.
  destruct (Z.eq_dec (round_mag n2 d2) inf_bits) as [Hi2 | Hf2]; [lia |].
  destruct (Z.eq_dec (round_mag n1 d1) inf_bits) as [Hi1 | Hf1].
  { exfalso. apply Hf2. apply round_mag_overflow; [assumption | assumption |].
    apply (round_mag_overflow n1 d1 Hn1 Hd1) in Hi1.
    revert Hi1. generalize (2 ^ 1024 - 2 ^ 970). intros T Hi1.
    assert (H1 : T * d1 * d2 <= n1 * d2) by nia.
    assert (H2 : T * d2 * d1 <= n2 * d1) by lia. nia. }
  destruct (Z_le_gt_dec (round_mag n1 d1) (round_mag n2 d2)) as [Hok | Hbad]; [exact Hok | exfalso].
  set (R1 := round_mag n1 d1) in *. set (R2 := round_mag n2 d2) in *.
  pose proof S1074_pos as HS.
  pose proof (ival_lt R2 R1 ltac:(lia)) as Hi.
  pose proof (round_mag_nearest_Z n1 d1 Hn1 Hd1 ltac:(lia) R2 ltac:(lia)) as Hnear1. fold R1 in Hnear1.
  pose proof (round_mag_nearest_Z n2 d2 Hn2 Hd2 ltac:(lia) R1 ltac:(lia)) as Hnear2. fold R2 in Hnear2.
  assert (Hx : ival R2 * d1 < ival R1 * d1) by nia.
  assert (Hy : ival R2 * d2 < ival R1 * d2) by nia.
  assert (Hm1 : (ival R1 + ival R2) * d1 <= 2 * (n1 * S1074)) by lia.
  assert (Hm2 : 2 * (n2 * S1074) <= (ival R1 + ival R2) * d2) by lia.
  assert (Hc1 : (ival R1 + ival R2) * d1 * d2 <= 2 * (n1 * S1074) * d2) by nia.
  assert (Hc2 : 2 * (n2 * S1074) * d1 <= (ival R1 + ival R2) * d2 * d1) by nia.
  assert (Hc3 : n1 * d2 * S1074 <= n2 * d1 * S1074) by nia.
  assert (He1 : (ival R1 + ival R2) * d1 * d2 = 2 * (n1 * S1074) * d2) by lia.
  assert (He2 : 2 * (n2 * S1074) * d1 = (ival R1 + ival R2) * d2 * d1) by lia.
  assert (Hmid1 : (ival R1 + ival R2) * d1 = 2 * (n1 * S1074)) by nia.
  assert (Hmid2 : 2 * (n2 * S1074) = (ival R1 + ival R2) * d2) by nia.
  (* both are ties, so both results are even *)
  assert (Hev1 : R1 mod 2 = 0).
  { apply (round_mag_ties_even_Z n1 d1 Hn1 Hd1 ltac:(fold R1; lia) R2 ltac:(lia)); fold R1; lia. }
  assert (Hev2 : R2 mod 2 = 0).
  { apply (round_mag_ties_even_Z n2 d2 Hn2 Hd2 ltac:(fold R2; lia) R1 ltac:(lia)); fold R2; lia. }
  (* hence R2 + 1 < R1, and R2 + 1 is strictly nearer to n1/d1 than R1 *)
  assert (Hgap : R2 + 1 < R1) by (clear - Hev1 Hev2 Hbad; Z.div_mod_to_equations; lia).
  pose proof (ival_lt R2 (R2 + 1) ltac:(lia)) as Hi3.
  pose proof (ival_lt (R2 + 1) R1 ltac:(lia)) as Hi4.
  pose proof (round_mag_nearest_Z n1 d1 Hn1 Hd1 ltac:(fold R1; lia) (R2 + 1) ltac:(lia)) as Hnear3.
  fold R1 in Hnear3.
  assert (Hz1 : ival R2 * d1 < ival (R2 + 1) * d1) by nia.
  assert (Hz2 : ival (R2 + 1) * d1 < ival R1 * d1) by nia.
  lia.
Qed.

(* ---------- from integers to rationals ---------- *)
Definition S1074p : positive := Z.to_pos S1074.
Lemma S1074p_eq : Z.pos S1074p = S1074.
Proof. unfold S1074p. apply Z2Pos.id, S1074_pos. Qed.

Lemma pow2_shift k : 0 <= k -> (pow2 (k - 1074) == 2 ^ k # S1074p)%Q.
Proof.
  intros Hk. unfold pow2. destruct (Z.leb_spec 0 (k - 1074)) as [Hge | Hlt].
  - unfold Qeq, inject_Z. cbn [Qnum Qden]. rewrite S1074p_eq, S1074_eq.
    rewrite <- Z.pow_add_r by lia. rewrite Z.mul_1_r. f_equal. lia.
  - unfold Qeq. cbn [Qnum Qden]. rewrite S1074p_eq, S1074_eq.
    rewrite Z2Pos.id by (apply pow2_pos; lia).
    rewrite <- Z.pow_add_r by lia. rewrite Z.mul_1_l. f_equal. lia.
Qed.

Lemma Qmult_inject_frac a b p : (inject_Z a * (b # p) == a * b # p)%Q.
Proof. unfold Qeq, Qmult, inject_Z. cbn [Qnum Qden]. rewrite Pos.mul_1_l. reflexivity. Qed.

(* mag_value b is ival b / 2^1074 *)
Lemma mag_value_ival b y : 0 <= b -> mag_value b = Some y -> (y == ival b # S1074p)%Q.
Proof.
  intros Hb Hmv. unfold mag_value in Hmv. destruct (b <? inf_bits); [| discriminate].
  cbv zeta in Hmv. injection Hmv as <-. unfold ival.
  pose proof p52_pos as Hp.
  assert (Hq : 0 <= b / p52) by (apply Z.div_pos; lia).
  destruct (Z.eqb_spec (b / p52) 0) as [Hz | Hnz].
  - change (-1074) with (0 - 1074). rewrite (pow2_shift 0) by lia. rewrite Z.pow_0_r.
    rewrite Qmult_inject_frac. rewrite Z.mul_1_r. reflexivity.
  - replace (b / p52 - 1075) with (b / p52 - 1 - 1074) by lia.
    rewrite (pow2_shift (b / p52 - 1)) by lia.
    rewrite Qmult_inject_frac. reflexivity.
Qed.

Lemma mag_value_some b : b < inf_bits -> exists y, mag_value b = Some y.
Proof.
  intros Hb. unfold mag_value. destruct (Z.ltb_spec b inf_bits) as [_ | Hge]; [| lia].
  eexists. reflexivity.
Qed.

Lemma mag_value_none b : inf_bits <= b -> mag_value b = None.
Proof.
  intros Hb. unfold mag_value. destruct (Z.ltb_spec b inf_bits) as [Hlt | _]; [lia | reflexivity].
Qed.

Lemma Qdist n dp i sp :
  (Qabs ((n # dp) - (i # sp)) == Z.abs (n * Z.pos sp - i * Z.pos dp) # (dp * sp))%Q.
Proof.
  unfold Qminus, Qplus, Qopp, Qabs. cbn [Qnum Qden].
  replace (n * Z.pos sp + - i * Z.pos dp) with (n * Z.pos sp - i * Z.pos dp) by ring.
  reflexivity.
Qed.

Lemma dpos d : 0 < d -> Z.pos (Z.to_pos d) = d.
Proof. intros Hd. apply Z2Pos.id, Hd. Qed.

(* mag_value is strictly increasing: consecutive bit patterns are consecutive doubles *)
Theorem mag_value_lt a b x y :
  0 <= a < b -> mag_value a = Some x -> mag_value b = Some y -> (x < y)%Q.
Proof.
  intros Hab Hx Hy.
  rewrite (mag_value_ival a x ltac:(lia) Hx), (mag_value_ival b y ltac:(lia) Hy).
  unfold Qlt. cbn [Qnum Qden]. apply Z.mul_lt_mono_pos_r; [reflexivity |]. apply ival_lt; lia.
Qed.

(* R2 *)
Theorem round_mag_nearest n d :
  0 < n -> 0 < d -> round_mag n d < inf_bits ->
  forall b, 0 <= b < inf_bits ->
  forall x y, mag_value (round_mag n d) = Some x -> mag_value b = Some y ->
    (Qabs ((n # Z.to_pos d) - x) <= Qabs ((n # Z.to_pos d) - y))%Q.
Proof.
  intros Hn Hd Hfin b Hb x y Hx Hy.
  pose proof (round_mag_range n d Hn Hd) as Hrange.
  rewrite (mag_value_ival (round_mag n d) x ltac:(lia) Hx), (mag_value_ival b y ltac:(lia) Hy).
  rewrite !Qdist. unfold Qle. cbn [Qnum Qden].
  rewrite S1074p_eq, (dpos d Hd).
  apply Z.mul_le_mono_nonneg_r; [lia |].
  apply round_mag_nearest_Z; lia.
Qed.

(* R3 *)
Theorem round_mag_ties_even n d :
  0 < n -> 0 < d -> round_mag n d < inf_bits ->
  forall b, 0 <= b < inf_bits ->
  forall x y, mag_value (round_mag n d) = Some x -> mag_value b = Some y ->
    ~ (y == x)%Q ->
    (Qabs ((n # Z.to_pos d) - x) == Qabs ((n # Z.to_pos d) - y))%Q ->
    (round_mag n d) mod 2 = 0.
Proof.
  intros Hn Hd Hfin b Hb x y Hx Hy Hne Htie.
  pose proof (round_mag_range n d Hn Hd) as Hrange.
  pose proof (mag_value_ival (round_mag n d) x ltac:(lia) Hx) as Hxi.
  pose proof (mag_value_ival b y ltac:(lia) Hy) as Hyi.
  apply (round_mag_ties_even_Z n d Hn Hd Hfin b ltac:(lia)).
  - intros Heq. apply Hne. rewrite Hxi, Hyi, Heq. reflexivity.
  - rewrite Hxi, Hyi in Htie. rewrite !Qdist in Htie. unfold Qeq in Htie. cbn [Qnum Qden] in Htie.
    rewrite S1074p_eq, (dpos d Hd) in Htie.
    apply Z.mul_cancel_r in Htie; [exact Htie | lia].
Qed.

(* R5 *)
Theorem round_mag_exact n d b y :
  0 < n -> 0 < d -> 0 <= b < inf_bits ->
  mag_value b = Some y -> (y == n # Z.to_pos d)%Q -> round_mag n d = b.
Proof.
  intros Hn Hd Hb Hy Heq.
  rewrite (mag_value_ival b y ltac:(lia) Hy) in Heq.
  unfold Qeq in Heq. cbn [Qnum Qden] in Heq. rewrite S1074p_eq, (dpos d Hd) in Heq.
  apply round_mag_exact_Z; [assumption | assumption | assumption | lia].
Qed.

Corollary round_mag_monotone_Q n1 d1 n2 d2 :
  0 < n1 -> 0 < n2 -> (n1 # d1 <= n2 # d2)%Q -> round_mag n1 (Z.pos d1) <= round_mag n2 (Z.pos d2).
Proof.
  intros Hn1 Hn2 Hle. unfold Qle in Hle. cbn [Qnum Qden] in Hle.
  apply round_mag_monotone; try assumption; reflexivity.
Qed.

(* the result depends only on the rational, not on the fraction representing it *)
Corollary round_mag_ratio n1 d1 n2 d2 :
  0 < n1 -> 0 < d1 -> 0 < n2 -> 0 < d2 ->
  n1 * d2 = n2 * d1 -> round_mag n1 d1 = round_mag n2 d2.
Proof.
  intros Hn1 Hd1 Hn2 Hd2 He.
  pose proof (round_mag_monotone n1 d1 n2 d2 Hn1 Hd1 Hn2 Hd2 ltac:(lia)).
  pose proof (round_mag_monotone n2 d2 n1 d1 Hn2 Hd2 Hn1 Hd1 ltac:(lia)). lia.
Qed.

(* ---------- link with f_decode: mag_value is the value f_decode assigns ---------- *)
Lemma decode_mag neg b :
  0 <= b < inf_bits ->
  exists m e, f_decode (with_sign neg b) = FFin neg m e /\
              mag_value b = Some (inject_Z m * pow2 e)%Q.
Proof.
  intros Hb. pose proof p52_pos as Hp. pose proof inf_bits_eq as Hinf. pose proof p63_eq as Hp63.
  unfold f_decode, with_sign. cbv zeta.
  set (b' := if neg then b + p63 else b).
  assert (Hb' : 0 <= b') by (unfold b'; destruct neg; lia).
  rewrite Z2N.id by exact Hb'.
  assert (Hs : f_sign b' = neg).
  { unfold f_sign, b'. destruct neg; [apply Z.leb_le; lia | apply Z.leb_gt; lia]. }
  assert (Hm : f_mag b' = b).
  { unfold f_mag, b'. destruct neg.
    - symmetry. apply Z.mod_unique_pos with (q := 1); lia.
    - apply Z.mod_small; lia. }
  rewrite Hs, Hm.
  assert (Hex : b / p52 < 2047) by (apply Z.div_lt_upper_bound; lia).
  destruct (Z.eqb_spec (b / p52) 2047) as [Hbad | _]; [lia |].
  unfold mag_value. destruct (Z.ltb_spec b inf_bits) as [_ | Hge]; [| lia]. cbv zeta.
  destruct (Z.eqb_spec (b / p52) 0) as [Hz | Hnz]; eexists; eexists; split; reflexivity.
Qed.

Lemma decode_inf neg : f_decode (with_sign neg inf_bits) = FInf neg.
Proof. destruct neg; vm_compute; reflexivity. Qed.

(* end to end: f_of_ratio yields the nearest double, or infinity from the threshold on *)
Theorem f_of_ratio_correct neg n d :
  0 < n -> 0 < d ->
  ((2 ^ 1024 - 2 ^ 970) * d <= n /\ f_decode (f_of_ratio neg n d) = FInf neg) \/
  (n < (2 ^ 1024 - 2 ^ 970) * d /\
   exists m e, f_decode (f_of_ratio neg n d) = FFin neg m e /\
     forall b y, 0 <= b < inf_bits -> mag_value b = Some y ->
       (Qabs ((n # Z.to_pos d) - inject_Z m * pow2 e) <= Qabs ((n # Z.to_pos d) - y))%Q).
Proof.
  intros Hn Hd. unfold f_of_ratio.
  pose proof (round_mag_range n d Hn Hd) as Hrange.
  pose proof (round_mag_overflow n d Hn Hd) as Hov.
  destruct (Z.eq_dec (round_mag n d) inf_bits) as [Hinf | Hfin].
  - left. split; [apply Hov; exact Hinf |]. rewrite Hinf. apply decode_inf.
  - right. split.
    + destruct (Z_lt_le_dec n ((2 ^ 1024 - 2 ^ 970) * d)) as [Hlt | Hge]; [exact Hlt |].
      exfalso. apply Hfin. apply Hov. exact Hge.
    + destruct (decode_mag neg (round_mag n d) ltac:(lia)) as (m & e & Hdec & Hmv).
      exists m, e. split; [exact Hdec |].
      intros b y Hb Hy. apply (round_mag_nearest n d Hn Hd ltac:(lia) b Hb _ y Hmv Hy).
Qed.

(* every positive integer below 2^53 is a double *)
Lemma int_is_double z :
  0 < z < p53 -> exists b, 0 <= b < inf_bits /\ ival b = z * S1074.
Proof.
  intros Hz. pose proof p52_pos as Hp. pose proof p53_eq as Hp53. pose proof inf_bits_eq as Hinf.
  destruct (Z.log2_spec z ltac:(lia)) as [Hlo Hhi].
  pose proof (Z.log2_nonneg z) as Ha.
  assert (Ha52 : Z.log2 z < 53).
  { apply Z.log2_lt_pow2; [lia |]. replace (2 ^ 53) with p53 by reflexivity. lia. }
  set (a := Z.log2 z) in *.
  assert (Hm : p52 <= z * 2 ^ (52 - a) < p53).
  { assert (H52 : p52 = 2 ^ a * 2 ^ (52 - a)).
    { rewrite p52_eq. rewrite <- Z.pow_add_r by lia. f_equal. lia. }
    assert (H53 : p53 = 2 ^ Z.succ a * 2 ^ (52 - a)).
    { replace p53 with (2 ^ 53) by reflexivity. rewrite <- Z.pow_add_r by lia. f_equal. lia. }
    pose proof (pow2_pos (52 - a) ltac:(lia)) as HP.
    rewrite H52 at 1. rewrite H53.
    split; [apply Z.mul_le_mono_nonneg_r; lia | apply Z.mul_lt_mono_pos_r; lia]. }
  exists ((a + 1022) * p52 + z * 2 ^ (52 - a)). split; [nia |].
  rewrite ival_enc by lia.
  rewrite S1074_eq. replace 1074 with (52 - a + (a + 1022)) at 1 by lia.
  rewrite (Z.pow_add_r 2 (52 - a) (a + 1022)) by lia. rewrite Z.mul_assoc. reflexivity.
Qed.

(* u64 -> f64 conversion is exact below 2^53 *)
Theorem f_of_N_exact n :
  Z.of_N n < 2 ^ 53 ->
  exists m e, f_decode (f_of_N n) = FFin false m e /\
              (inject_Z m * pow2 e == inject_Z (Z.of_N n))%Q.
Proof.
  intros Hlt. replace (2 ^ 53) with p53 in Hlt by reflexivity. unfold f_of_N.
  pose proof (N2Z.is_nonneg n) as Hnn. pose proof S1074_pos as HS.
  assert (Hb : exists b, 0 <= b < inf_bits /\ ival b = Z.of_N n * S1074 /\ round_mag (Z.of_N n) 1 = b).
  { destruct (Z.eq_dec (Z.of_N n) 0) as [Hz | Hnz].
    - exists 0. rewrite Hz. split; [split; [lia | reflexivity] |]. split; reflexivity.
    - destruct (int_is_double (Z.of_N n) ltac:(lia)) as (b & Hb & Hi).
      exists b. split; [exact Hb |]. split; [exact Hi |].
      apply round_mag_exact_Z; lia. }
  destruct Hb as (b & Hb & Hi & ->).
  destruct (decode_mag false b Hb) as (m & e & Hdec & Hmv).
  exists m, e. split; [exact Hdec |].
  rewrite (mag_value_ival b _ ltac:(lia) Hmv). rewrite Hi.
  unfold Qeq, inject_Z. cbn [Qnum Qden]. rewrite S1074p_eq. ring.
Qed.

(* ---------- known values ---------- *)
Example ex_tenth : round_mag 1 10 = 4591870180066957722.        (* 0.1 = 0x3FB999999999999A *)
Proof. vm_compute. reflexivity. Qed.
Example ex_two64 : round_mag (2 ^ 64) 1 = 4895412794951729152.  (* 2^64 = 0x43F0000000000000 *)
Proof. vm_compute. reflexivity. Qed.
Example ex_underflow : round_mag 1 (10 ^ 400) = 0.
Proof. vm_compute. reflexivity. Qed.
Example ex_overflow : round_mag (10 ^ 400) 1 = inf_bits.
Proof. vm_compute. reflexivity. Qed.
Example ex_tie_down : round_mag (2 ^ 53 + 1) 1 = round_mag (2 ^ 53) 1 /\ round_mag (2 ^ 53) 1 = 4845873199050653696.
Proof. vm_compute. split; reflexivity. Qed.
Example ex_tie_up : round_mag (2 ^ 53 + 3) 1 = round_mag (2 ^ 53 + 4) 1 /\ round_mag (2 ^ 53 + 4) 1 = 4845873199050653698.
Proof. vm_compute. split; reflexivity. Qed.
Example ex_min_subnormal : round_mag 1 (2 ^ 1074) = 1 /\ round_mag 1 (2 ^ 1075) = 0 /\ round_mag 3 (2 ^ 1075) = 2.
Proof. vm_compute. repeat split; reflexivity. Qed.
Example ex_max_finite :
  round_mag (2 ^ 1024 - 2 ^ 970 - 1) 1 = inf_bits - 1 /\ round_mag (2 ^ 1024 - 2 ^ 970) 1 = inf_bits.
Proof. vm_compute. split; reflexivity. Qed.
Example ex_mag_value_one : mag_value 4607182418800017408 = Some (inject_Z p52 * pow2 (-52))%Q.  (* 1.0 *)
Proof. vm_compute. reflexivity. Qed.

Print Assumptions round_mag_range.
Print Assumptions round_mag_nearest.
Print Assumptions round_mag_ties_even.
Print Assumptions round_mag_overflow.
Print Assumptions round_mag_exact.
Print Assumptions round_mag_monotone.
Print Assumptions round_mag_ratio.
Print Assumptions mag_value_lt.
Print Assumptions f_of_ratio_correct.
Print Assumptions f_of_N_exact.
