(* SubstProofs.v — C12: variable and macro bindings behave like substitution. *)
From Jawk Require Import Base F64 Json Ctx Printer Fn FunBase FunsColl FunsNum FunsNas Expr.
From Jawk Require Import Subst ReaderLemmas.

(* ================================================================== *)
(* 0. Generalities                                                     *)
(* ================================================================== *)

(* strong induction on the nested inductive expr *)
Lemma expr_ind_strong (P : expr -> Prop)
  (Hextract : forall ups path, P (EExtract ups path))
  (Hconst : forall v, P (EConst v))
  (Hvar : forall n, P (EVar n))
  (Hmacro : forall n, P (EMacro n))
  (Hsel : forall n, P (ESelected n))
  (Hictx : forall k, P (EIctx k))
  (Hcall : forall f args, Forall P args -> P (ECall f args)) :
  forall e, P e.
Proof.
  fix IH 1. intros [ups path|v|n|n|n|k|f args].
  - apply Hextract.
  - apply Hconst.
  - apply Hvar.
  - apply Hmacro.
  - apply Hsel.
  - apply Hictx.
  - apply Hcall. induction args as [|a t IHt]; constructor; [apply IH|exact IHt].
Qed.

(* o2 is o1, or o1 ran out of macro fuel *)
Definition le_out (o1 o2 : outcome) : Prop := forall r, o1 = Val r -> o2 = Val r.

Lemma le_out_refl o : le_out o o.
Proof. intros r H; exact H. Qed.
Lemma le_out_oof o : le_out OutOfFuel o.
Proof. intros r H; discriminate. Qed.
Lemma le_out_trans o1 o2 o3 : le_out o1 o2 -> le_out o2 o3 -> le_out o1 o3.
Proof. intros H1 H2 r H. apply H2, H1, H. Qed.
Lemma le_out_inv o1 o2 : le_out o1 o2 -> o1 = OutOfFuel \/ o2 = o1.
Proof. intros H. destruct o1 as [r|]; [right; apply H; reflexivity|left; reflexivity]. Qed.
Lemma le_out_antisym o1 o2 : le_out o1 o2 -> le_out o2 o1 -> o1 = o2.
Proof.
  intros H1 H2. destruct o1 as [r|].
  - symmetry. apply H1. reflexivity.
  - destruct o2 as [r|]; [|reflexivity]. apply H2. reflexivity.
Qed.
Lemma le_out_of_eq o1 o2 : o1 = o2 -> le_out o1 o2.
Proof. intros ->. apply le_out_refl. Qed.

(* ================================================================== *)
(* 1. One unfolding of eval at a call, with the recursive calls named  *)
(* ================================================================== *)

Inductive kind := KPipe | KSet | KDefine | KAt | KColon | KList | KObj | KFold | KGen.

Definition fn_kind (f : fn) : kind :=
  match f with
  | F_pipe => KPipe
  | F_set => KSet
  | F_define => KDefine
  | F_at => KAt
  | F_colon => KColon
  | F_map | F_filter | F_flat_map | F_group_by | F_sort_by => KList
  | F_filter_keys | F_map_keys | F_filter_values | F_map_values | F_sort_by_values_by => KObj
  | F_fold => KFold
  | _ => KGen
  end.

Section EvalCall.
Variable opaque : fn -> list (option json) -> option json.

Definition evs_of (ev : expr -> ctx -> outcome) : list expr -> ctx -> list outcome :=
  fix evs (l : list expr) (c : ctx) : list outcome :=
    match l with [] => [] | a :: t => ev a c :: evs t c end.

Definition arg_ev (ev : expr -> ctx -> outcome) (l : list expr) (i : nat) (c : ctx) : outcome :=
  (fix nth_ev (l : list expr) (i : nat) : outcome :=
     match l, i with
     | [], _ => Val None
     | a :: _, O => ev a c
     | _ :: t, S j => nth_ev t j
     end) l i.

Definition pipe_of (ev : expr -> ctx -> outcome) : list expr -> ctx -> outcome :=
  fix pipe (l : list expr) (c : ctx) : outcome :=
    match l with
    | [] => Val (Some (input c))
    | a :: t => match ev a c with
                | Val (Some v) => pipe t (with_input c v)
                | Val None => Val None
                | OutOfFuel => OutOfFuel
                end
    end.

Definition expand (mf : nat) (body : expr) (c : ctx) : outcome :=
  match mf with O => OutOfFuel | S m => eval opaque m body c end.

Definition list_post (f : fn) (l : list json) (rs : list (option json)) : outcome :=
  let prs := combine l rs in
  match f with
  | F_map => Val (Some (JArr (flat_map (fun r => match r with Some x => [x] | None => [] end) rs)))
  | F_filter => Val (Some (JArr (map fst (filter (fun p => match snd p with Some (JBool true) => true | _ => false end) prs))))
  | F_flat_map => Val (Some (JArr (flat_map (fun r => match r with Some (JArr x) => x | _ => [] end) rs)))
  | F_group_by =>
      (fix grp (prs : list (json * option json)) (acc : list (str * list json)) : outcome :=
         match prs with
         | [] => Val (Some (JObj (map (fun kl => (fst kl, JArr (snd kl))) acc)))
         | (item, Some (JStr k)) :: t => grp t (group_push_v k item acc)
         | _ => Val None
         end) prs []
  | _ (* F_sort_by *) =>
      Val (Some (JArr (map fst (ssort (fun a b => ojcmp (snd a) (snd b)) prs))))
  end.

Definition obj_on_key (f : fn) : bool := match f with F_filter_keys | F_map_keys => true | _ => false end.
Definition obj_item (f : fn) (kv : str * json) : json := if obj_on_key f then JStr (fst kv) else snd kv.

Definition obj_post (f : fn) (m : list (str * json)) (rs : list (option json)) : outcome :=
  let prs := combine m rs in
  match f with
  | F_filter_keys | F_filter_values =>
      Val (Some (JObj (map fst (filter (fun p => match snd p with Some (JBool true) => true | _ => false end) prs))))
  | F_map_keys =>
      Val (Some (JObj (fold_left (fun acc p => match snd p with Some (JStr k) => obj_insert k (snd (fst p)) acc | _ => acc end) prs [])))
  | F_map_values =>
      Val (Some (JObj (fold_left (fun acc p => match snd p with Some v => obj_insert (fst (fst p)) v acc | None => acc end) prs [])))
  | _ (* F_sort_by_values_by *) =>
      Val (Some (JObj (map fst (ssort (fun a b => ojcmp (snd a) (snd b)) prs))))
  end.

Definition fold_item (cur : option json) (v : json) (idx : nat) : json :=
  JObj (match cur with Some s => [(key_so_far, s)] | None => [] end ++ [(key_value, v); (key_index, jnat idx)]).

Definition fold_of (step : ctx -> outcome) (c : ctx) : list json -> nat -> option json -> outcome :=
  fix fold (l : list json) (idx : nat) (cur : option json) : outcome :=
    match l with
    | [] => Val cur
    | v :: t =>
        match step (with_input c (fold_item cur v idx)) with
        | Val r => fold t (S idx) r
        | OutOfFuel => OutOfFuel
        end
    end.

Definition eval_call (mf : nat) (ev : expr -> ctx -> outcome) (f : fn) (args : list expr) (c : ctx) : outcome :=
  match fn_kind f with
  | KPipe => pipe_of ev args (with_input c (input c))
  | KSet =>
      match arg_ev ev args 0%nat c, arg_ev ev args 1%nat c with
      | Val (Some (JStr name)), Val (Some v) => arg_ev ev args 2%nat (with_variable c name v)
      | OutOfFuel, _ | _, OutOfFuel => OutOfFuel
      | _, _ => Val None
      end
  | KDefine =>
      match arg_ev ev args 0%nat c, nth_error args 1%nat with
      | Val (Some (JStr name)), Some d => arg_ev ev args 2%nat (with_definition c name d)
      | OutOfFuel, _ => OutOfFuel
      | _, _ => Val None
      end
  | KAt =>
      match arg_ev ev args 0%nat c with
      | Val (Some (JStr name)) =>
          match get_definition c name with
          | None => Val None
          | Some body => expand mf body c
          end
      | OutOfFuel => OutOfFuel
      | _ => Val None
      end
  | KColon =>
      match arg_ev ev args 0%nat c with
      | Val (Some (JStr name)) => Val (get_variable c name)
      | OutOfFuel => OutOfFuel
      | _ => Val None
      end
  | KList =>
      match arg_ev ev args 0%nat c with
      | Val (Some (JArr l)) =>
          match all_vals (map (fun v => arg_ev ev args 1%nat (with_input c v)) l) with
          | None => OutOfFuel
          | Some rs => list_post f l rs
          end
      | OutOfFuel => OutOfFuel
      | _ => Val None
      end
  | KObj =>
      match arg_ev ev args 0%nat c with
      | Val (Some (JObj m)) =>
          match all_vals (map (fun kv => arg_ev ev args 1%nat (with_input c (obj_item f kv))) m) with
          | None => OutOfFuel
          | Some rs => obj_post f m rs
          end
      | OutOfFuel => OutOfFuel
      | _ => Val None
      end
  | KFold =>
      match arg_ev ev args 0%nat c with
      | Val (Some (JArr l)) =>
          let has_init := Nat.ltb 2 (length args) in
          let fidx := if has_init then 2%nat else 1%nat in
          match (if has_init then arg_ev ev args 1%nat c else Val None) with
          | OutOfFuel => OutOfFuel
          | Val init => fold_of (arg_ev ev args fidx) c l O init
          end
      | OutOfFuel => OutOfFuel
      | _ => Val None
      end
  | KGen =>
      match all_vals (evs_of ev args c) with
      | Some vals => Val (match pure_sem f vals with Some r => r | None => opaque f vals end)
      | None => OutOfFuel
      end
  end.

Lemma eval_ECall mf f args c :
  eval opaque mf (ECall f args) c = eval_call mf (eval opaque mf) f args c.
Proof. destruct mf; destruct f; reflexivity. Qed.

End EvalCall.
