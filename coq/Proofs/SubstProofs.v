(* SubstProofs.v — C12: variable and macro bindings behave like substitution.

   Contents
     0  strong induction on expr; le_out (equal, or the left side ran out of macro fuel)
     1  eval_call / eval_ECall: one unfolding of eval at a call, recursive calls named
     2  congruence of one call step w.r.t. a relation on contexts (plain_mono, set_mono, ...)
     3  atoms; fuel_mono (more macro fuel never changes a value); eval_ext (eval sees the
        context only through lookups)
     S1 C12_set_unfold, C12_define_unfold, C12_pipe2, ...
     S4 transparency of bindings and selections for input / parents / extractors
     S2 C12_var_subst, C12_set_is_subst            (full, with shadowing)
     S3 C12_macro_subst(_gen), C12_macro_subst_conv, C12_macro_subst_iff
        (macros are dynamically scoped: textual substitution is only correct when n is not
         redefined in scope and no macro of the context mentions n; counterexamples in S5)
     S5 examples and counterexamples by vm_compute *)
From Jawk Require Import Base F64 Json Ctx Printer Fn FunBase FunsColl FunsNum FunsNas Expr.
From Jawk Require Import Subst ReaderLemmas.

(* ================================================================== *)
(* 0. Generalities                                                     *)
(* ================================================================== *)

(* strong induction on the nested inductive expr *)
Lemma expr_ind_strong (P : expr -> Prop)
  (Hextract : forall ups path, P (EExtract ups path))
  (Hconst : forall v, P (EConst v))
  (Hvar : forall n, P (EVar n))
  (Hmacro : forall n, P (EMacro n))
  (Hsel : forall n, P (ESelected n))
  (Hictx : forall k, P (EIctx k))
  (Hcall : forall f args, Forall P args -> P (ECall f args)) :
  forall e, P e.
Proof.
  fix IH 1. intros [ups path|v|n|n|n|k|f args].
  - apply Hextract.
  - apply Hconst.
  - apply Hvar.
  - apply Hmacro.
  - apply Hsel.
  - apply Hictx.
  - apply Hcall. induction args as [|a t IHt]; constructor; [apply IH|exact IHt].
Qed.

(* o2 is o1, or o1 ran out of macro fuel *)
Definition le_out (o1 o2 : outcome) : Prop := forall r, o1 = Val r -> o2 = Val r.

Lemma le_out_refl o : le_out o o.
Proof. intros r H; exact H. Qed.
Lemma le_out_oof o : le_out OutOfFuel o.
Proof. intros r H; discriminate. Qed.
Lemma le_out_trans o1 o2 o3 : le_out o1 o2 -> le_out o2 o3 -> le_out o1 o3.
Proof. intros H1 H2 r H. apply H2, H1, H. Qed.
Lemma le_out_inv o1 o2 : le_out o1 o2 -> o1 = OutOfFuel \/ o2 = o1.
Proof. intros H. destruct o1 as [r|]; [right; apply H; reflexivity|left; reflexivity]. Qed.
Lemma le_out_antisym o1 o2 : le_out o1 o2 -> le_out o2 o1 -> o1 = o2.
Proof.
  intros H1 H2. destruct o1 as [r|].
  - symmetry. apply H1. reflexivity.
  - destruct o2 as [r|]; [|reflexivity]. apply H2. reflexivity.
Qed.
Lemma le_out_of_eq o1 o2 : o1 = o2 -> le_out o1 o2.
Proof. intros ->. apply le_out_refl. Qed.

(* ================================================================== *)
(* 1. One unfolding of eval at a call, with the recursive calls named  *)
(* ================================================================== *)

Inductive kind := KPipe | KSet | KDefine | KAt | KColon | KList | KObj | KFold | KGen.

Definition fn_kind (f : fn) : kind :=
  match f with
  | F_pipe => KPipe
  | F_set => KSet
  | F_define => KDefine
  | F_at => KAt
  | F_colon => KColon
  | F_map | F_filter | F_flat_map | F_group_by | F_sort_by => KList
  | F_filter_keys | F_map_keys | F_filter_values | F_map_values | F_sort_by_values_by => KObj
  | F_fold => KFold
  | _ => KGen
  end.

Section EvalCall.
Variable opaque : fn -> list (option json) -> option json.

Definition evs_of (ev : expr -> ctx -> outcome) : list expr -> ctx -> list outcome :=
  fix evs (l : list expr) (c : ctx) : list outcome :=
    match l with [] => [] | a :: t => ev a c :: evs t c end.

Definition arg_ev (ev : expr -> ctx -> outcome) (l : list expr) (i : nat) (c : ctx) : outcome :=
  (fix nth_ev (l : list expr) (i : nat) : outcome :=
     match l, i with
     | [], _ => Val None
     | a :: _, O => ev a c
     | _ :: t, S j => nth_ev t j
     end) l i.

Definition pipe_of (ev : expr -> ctx -> outcome) : list expr -> ctx -> outcome :=
  fix pipe (l : list expr) (c : ctx) : outcome :=
    match l with
    | [] => Val (Some (input c))
    | a :: t => match ev a c with
                | Val (Some v) => pipe t (with_input c v)
                | Val None => Val None
                | OutOfFuel => OutOfFuel
                end
    end.

Definition expand (mf : nat) (body : expr) (c : ctx) : outcome :=
  match mf with O => OutOfFuel | S m => eval opaque m body c end.

Definition list_post (f : fn) (l : list json) (rs : list (option json)) : outcome :=
  let prs := combine l rs in
  match f with
  | F_map => Val (Some (JArr (flat_map (fun r => match r with Some x => [x] | None => [] end) rs)))
  | F_filter => Val (Some (JArr (map fst (filter (fun p => match snd p with Some (JBool true) => true | _ => false end) prs))))
  | F_flat_map => Val (Some (JArr (flat_map (fun r => match r with Some (JArr x) => x | _ => [] end) rs)))
  | F_group_by =>
      (fix grp (prs : list (json * option json)) (acc : list (str * list json)) : outcome :=
         match prs with
         | [] => Val (Some (JObj (map (fun kl => (fst kl, JArr (snd kl))) acc)))
         | (item, Some (JStr k)) :: t => grp t (group_push_v k item acc)
         | _ => Val None
         end) prs []
  | _ (* F_sort_by *) =>
      Val (Some (JArr (map fst (ssort (fun a b => ojcmp (snd a) (snd b)) prs))))
  end.

Definition obj_on_key (f : fn) : bool := match f with F_filter_keys | F_map_keys => true | _ => false end.
Definition obj_item (f : fn) (kv : str * json) : json := if obj_on_key f then JStr (fst kv) else snd kv.

Definition obj_post (f : fn) (m : list (str * json)) (rs : list (option json)) : outcome :=
  let prs := combine m rs in
  match f with
  | F_filter_keys | F_filter_values =>
      Val (Some (JObj (map fst (filter (fun p => match snd p with Some (JBool true) => true | _ => false end) prs))))
  | F_map_keys =>
      Val (Some (JObj (fold_left (fun acc p => match snd p with Some (JStr k) => obj_insert k (snd (fst p)) acc | _ => acc end) prs [])))
  | F_map_values =>
      Val (Some (JObj (fold_left (fun acc p => match snd p with Some v => obj_insert (fst (fst p)) v acc | None => acc end) prs [])))
  | _ (* F_sort_by_values_by *) =>
      Val (Some (JObj (map fst (ssort (fun a b => ojcmp (snd a) (snd b)) prs))))
  end.

Definition fold_item (cur : option json) (v : json) (idx : nat) : json :=
  JObj (match cur with Some s => [(key_so_far, s)] | None => [] end ++ [(key_value, v); (key_index, jnat idx)]).

Definition fold_of (step : ctx -> outcome) (c : ctx) : list json -> nat -> option json -> outcome :=
  fix fold (l : list json) (idx : nat) (cur : option json) : outcome :=
    match l with
    | [] => Val cur
    | v :: t =>
        match step (with_input c (fold_item cur v idx)) with
        | Val r => fold t (S idx) r
        | OutOfFuel => OutOfFuel
        end
    end.

Definition eval_call (mf : nat) (ev : expr -> ctx -> outcome) (f : fn) (args : list expr) (c : ctx) : outcome :=
  match fn_kind f with
  | KPipe => pipe_of ev args (with_input c (input c))
  | KSet =>
      match arg_ev ev args 0%nat c, arg_ev ev args 1%nat c with
      | Val (Some (JStr name)), Val (Some v) => arg_ev ev args 2%nat (with_variable c name v)
      | OutOfFuel, _ | _, OutOfFuel => OutOfFuel
      | _, _ => Val None
      end
  | KDefine =>
      match arg_ev ev args 0%nat c, nth_error args 1%nat with
      | Val (Some (JStr name)), Some d => arg_ev ev args 2%nat (with_definition c name d)
      | OutOfFuel, _ => OutOfFuel
      | _, _ => Val None
      end
  | KAt =>
      match arg_ev ev args 0%nat c with
      | Val (Some (JStr name)) =>
          match get_definition c name with
          | None => Val None
          | Some body => expand mf body c
          end
      | OutOfFuel => OutOfFuel
      | _ => Val None
      end
  | KColon =>
      match arg_ev ev args 0%nat c with
      | Val (Some (JStr name)) => Val (get_variable c name)
      | OutOfFuel => OutOfFuel
      | _ => Val None
      end
  | KList =>
      match arg_ev ev args 0%nat c with
      | Val (Some (JArr l)) =>
          match all_vals (map (fun v => arg_ev ev args 1%nat (with_input c v)) l) with
          | None => OutOfFuel
          | Some rs => list_post f l rs
          end
      | OutOfFuel => OutOfFuel
      | _ => Val None
      end
  | KObj =>
      match arg_ev ev args 0%nat c with
      | Val (Some (JObj m)) =>
          match all_vals (map (fun kv => arg_ev ev args 1%nat (with_input c (obj_item f kv))) m) with
          | None => OutOfFuel
          | Some rs => obj_post f m rs
          end
      | OutOfFuel => OutOfFuel
      | _ => Val None
      end
  | KFold =>
      match arg_ev ev args 0%nat c with
      | Val (Some (JArr l)) =>
          let has_init := Nat.ltb 2 (length args) in
          let fidx := if has_init then 2%nat else 1%nat in
          match (if has_init then arg_ev ev args 1%nat c else Val None) with
          | OutOfFuel => OutOfFuel
          | Val init => fold_of (arg_ev ev args fidx) c l O init
          end
      | OutOfFuel => OutOfFuel
      | _ => Val None
      end
  | KGen =>
      match all_vals (evs_of ev args c) with
      | Some vals => Val (match pure_sem f vals with Some r => r | None => opaque f vals end)
      | None => OutOfFuel
      end
  end.

Lemma eval_ECall mf f args c :
  eval opaque mf (ECall f args) c = eval_call mf (eval opaque mf) f args c.
Proof. destruct mf; destruct f; reflexivity. Qed.

End EvalCall.

(* ================================================================== *)
(* 2. Congruence (monotonicity in le_out) of one call step            *)
(* ================================================================== *)

Lemma all_vals_mono os1 os2 :
  Forall2 le_out os1 os2 -> forall vs, all_vals os1 = Some vs -> all_vals os2 = Some vs.
Proof.
  induction 1 as [|o1 o2 t1 t2 Ho Ht IH]; cbn [all_vals]; intros vs Hvs; [exact Hvs|].
  destruct o1 as [v|]; [|discriminate]. rewrite (Ho _ eq_refl).
  destruct (all_vals t1) as [vs1|] eqn:E; [|discriminate]. rewrite (IH _ eq_refl). exact Hvs.
Qed.

Lemma all_vals_le os1 os2 (k : list (option json) -> outcome) :
  Forall2 le_out os1 os2 ->
  le_out (match all_vals os1 with Some rs => k rs | None => OutOfFuel end)
         (match all_vals os2 with Some rs => k rs | None => OutOfFuel end).
Proof.
  intros HF. destruct (all_vals os1) as [vs|] eqn:E; [|apply le_out_oof].
  rewrite (all_vals_mono _ _ HF _ E). apply le_out_refl.
Qed.

Lemma Forall2_map_same {A B} (P : B -> B -> Prop) (g1 g2 : A -> B) l :
  (forall x, P (g1 x) (g2 x)) -> Forall2 P (map g1 l) (map g2 l).
Proof. intros H. induction l as [|x t IH]; cbn [map]; constructor; [apply H|exact IH]. Qed.

Lemma Forall2_len {A B} (P : A -> B -> Prop) l1 l2 : Forall2 P l1 l2 -> length l1 = length l2.
Proof. induction 1 as [|x y t1 t2 Hx Ht IH]; cbn [length]; [reflexivity|f_equal; exact IH]. Qed.

Section Mono.
Variable opaque : fn -> list (option json) -> option json.
Variables ev1 ev2 : expr -> ctx -> outcome.
Variable R : ctx -> ctx -> Prop.

Definition rel_arg (a1 a2 : expr) : Prop :=
  forall c1 c2, R c1 c2 -> le_out (ev1 a1 c1) (ev2 a2 c2).

Lemma arg_ev_mono args1 args2 :
  Forall2 rel_arg args1 args2 ->
  forall i c1 c2, R c1 c2 -> le_out (arg_ev ev1 args1 i c1) (arg_ev ev2 args2 i c2).
Proof.
  induction 1 as [|a1 a2 t1 t2 Ha Ht IH]; intros i c1 c2 HR.
  - apply le_out_refl.
  - destruct i as [|j].
    + apply Ha, HR.
    + exact (IH j c1 c2 HR).
Qed.

Lemma evs_of_mono args1 args2 :
  Forall2 rel_arg args1 args2 ->
  forall c1 c2, R c1 c2 -> Forall2 le_out (evs_of ev1 args1 c1) (evs_of ev2 args2 c2).
Proof.
  induction 1 as [|a1 a2 t1 t2 Ha Ht IH]; intros c1 c2 HR; cbn [evs_of]; constructor.
  - apply Ha, HR.
  - apply IH, HR.
Qed.

Hypothesis R_input : forall c1 c2 x, R c1 c2 -> R (with_input c1 x) (with_input c2 x).
Hypothesis R_inp_eq : forall c1 c2, R c1 c2 -> input c1 = input c2.

Lemma pipe_mono args1 args2 :
  Forall2 rel_arg args1 args2 ->
  forall c1 c2, R c1 c2 -> le_out (pipe_of ev1 args1 c1) (pipe_of ev2 args2 c2).
Proof.
  induction 1 as [|a1 a2 t1 t2 Ha Ht IH]; intros c1 c2 HR; cbn [pipe_of].
  - rewrite (R_inp_eq _ _ HR). apply le_out_refl.
  - destruct (le_out_inv _ _ (Ha _ _ HR)) as [E|E]; rewrite E; [apply le_out_oof|].
    destruct (ev1 a1 c1) as [[v|]|]; try apply le_out_refl.
    apply IH, R_input, HR.
Qed.

Lemma fold_mono (s1 s2 : ctx -> outcome) c1 c2 :
  (forall x, le_out (s1 (with_input c1 x)) (s2 (with_input c2 x))) ->
  forall l idx cur, le_out (fold_of s1 c1 l idx cur) (fold_of s2 c2 l idx cur).
Proof.
  intros Hs. induction l as [|v t IH]; intros idx cur; cbn [fold_of]; [apply le_out_refl|].
  destruct (le_out_inv _ _ (Hs (fold_item cur v idx))) as [E|E]; rewrite E; [apply le_out_oof|].
  destruct (s1 (with_input c1 (fold_item cur v idx))) as [r|]; [apply IH|apply le_out_refl].
Qed.

Definition plain_kind (k : kind) : Prop :=
  match k with KSet | KDefine | KAt | KColon => False | _ => True end.

Lemma plain_mono mf1 mf2 f args1 args2 c1 c2 :
  plain_kind (fn_kind f) -> Forall2 rel_arg args1 args2 -> R c1 c2 ->
  le_out (eval_call opaque mf1 ev1 f args1 c1) (eval_call opaque mf2 ev2 f args2 c2).
Proof.
  intros Hk HF HR. unfold eval_call.
  pose proof (arg_ev_mono _ _ HF 0%nat _ _ HR) as H0.
  destruct (fn_kind f) eqn:K; try contradiction.
  - (* pipe *)
    apply pipe_mono; [exact HF|]. rewrite <- (R_inp_eq _ _ HR). apply R_input, HR.
  - (* list binders *)
    destruct (le_out_inv _ _ H0) as [E|E]; rewrite E; [apply le_out_oof|].
    destruct (arg_ev ev1 args1 0 c1) as [[[| | | | |l]|]|]; try apply le_out_refl.
    apply (all_vals_le _ _ (fun rs => list_post f l rs)).
    apply Forall2_map_same. intros x. apply arg_ev_mono; [exact HF|]. apply R_input, HR.
  - (* object binders *)
    destruct (le_out_inv _ _ H0) as [E|E]; rewrite E; [apply le_out_oof|].
    destruct (arg_ev ev1 args1 0 c1) as [[[| | | |m|]|]|]; try apply le_out_refl.
    apply (all_vals_le _ _ (fun rs => obj_post f m rs)).
    apply Forall2_map_same. intros x. apply arg_ev_mono; [exact HF|]. apply R_input, HR.
  - (* fold *)
    destruct (le_out_inv _ _ H0) as [E|E]; rewrite E; [apply le_out_oof|].
    destruct (arg_ev ev1 args1 0 c1) as [[[| | | | |l]|]|]; try apply le_out_refl.
    cbv zeta. rewrite <- (Forall2_len _ _ _ HF).
    destruct (Nat.ltb 2 (length args1)).
    + pose proof (arg_ev_mono _ _ HF 1%nat _ _ HR) as H1.
      destruct (le_out_inv _ _ H1) as [E1|E1]; rewrite E1; [apply le_out_oof|].
      destruct (arg_ev ev1 args1 1 c1) as [init|]; [|apply le_out_refl].
      apply fold_mono. intros x. apply arg_ev_mono; [exact HF|]. apply R_input, HR.
    + apply fold_mono. intros x. apply arg_ev_mono; [exact HF|]. apply R_input, HR.
  - (* generic *)
    apply (all_vals_le _ _ (fun vals => Val (match pure_sem f vals with Some r => r | None => opaque f vals end))).
    apply evs_of_mono; [exact HF|exact HR].
Qed.

Lemma set_mono mf1 mf2 f args1 args2 c1 c2 :
  (forall c1 c2 m v, R c1 c2 -> R (with_variable c1 m v) (with_variable c2 m v)) ->
  fn_kind f = KSet -> Forall2 rel_arg args1 args2 -> R c1 c2 ->
  le_out (eval_call opaque mf1 ev1 f args1 c1) (eval_call opaque mf2 ev2 f args2 c2).
Proof.
  intros R_var K HF HR. unfold eval_call. rewrite K.
  pose proof (arg_ev_mono _ _ HF 0%nat _ _ HR) as H0.
  pose proof (arg_ev_mono _ _ HF 1%nat _ _ HR) as H1.
  destruct (le_out_inv _ _ H0) as [E|E]; rewrite E; [apply le_out_oof|].
  destruct (le_out_inv _ _ H1) as [E1|E1]; rewrite E1.
  - destruct (arg_ev ev1 args1 0 c1) as [[[| | | | |]|]|]; apply le_out_oof.
  - destruct (arg_ev ev1 args1 0 c1) as [[[| |name| | |]|]|]; try apply le_out_refl.
    destruct (arg_ev ev1 args1 1 c1) as [[v|]|]; try apply le_out_refl.
    apply arg_ev_mono; [exact HF|]. apply R_var, HR.
Qed.

Lemma colon_mono mf1 mf2 f args1 args2 c1 c2 :
  (forall c1 c2 m, R c1 c2 -> get_variable c1 m = get_variable c2 m) ->
  fn_kind f = KColon -> Forall2 rel_arg args1 args2 -> R c1 c2 ->
  le_out (eval_call opaque mf1 ev1 f args1 c1) (eval_call opaque mf2 ev2 f args2 c2).
Proof.
  intros R_get K HF HR. unfold eval_call. rewrite K.
  pose proof (arg_ev_mono _ _ HF 0%nat _ _ HR) as H0.
  destruct (le_out_inv _ _ H0) as [E|E]; rewrite E; [apply le_out_oof|].
  destruct (arg_ev ev1 args1 0 c1) as [[[| |name| | |]|]|]; try apply le_out_refl.
  rewrite (R_get _ _ name HR). apply le_out_refl.
Qed.

(* define / @ with the same argument list on both sides *)
Lemma define_mono mf1 mf2 f args c1 c2 :
  (forall c1 c2 m d, R c1 c2 -> R (with_definition c1 m d) (with_definition c2 m d)) ->
  fn_kind f = KDefine -> Forall2 rel_arg args args -> R c1 c2 ->
  le_out (eval_call opaque mf1 ev1 f args c1) (eval_call opaque mf2 ev2 f args c2).
Proof.
  intros R_def K HF HR. unfold eval_call. rewrite K.
  pose proof (arg_ev_mono _ _ HF 0%nat _ _ HR) as H0.
  destruct (le_out_inv _ _ H0) as [E|E]; rewrite E; [apply le_out_oof|].
  destruct (arg_ev ev1 args 0 c1) as [[[| |name| | |]|]|]; try apply le_out_refl.
  destruct (nth_error args 1) as [d|]; [|apply le_out_refl].
  apply arg_ev_mono; [exact HF|]. apply R_def, HR.
Qed.

Lemma at_mono mf1 mf2 f args1 args2 c1 c2 :
  (forall c1 c2 m, R c1 c2 -> get_definition c1 m = get_definition c2 m) ->
  (forall b c1 c2, R c1 c2 -> le_out (expand opaque mf1 b c1) (expand opaque mf2 b c2)) ->
  fn_kind f = KAt -> Forall2 rel_arg args1 args2 -> R c1 c2 ->
  le_out (eval_call opaque mf1 ev1 f args1 c1) (eval_call opaque mf2 ev2 f args2 c2).
Proof.
  intros R_get R_exp K HF HR. unfold eval_call. rewrite K.
  pose proof (arg_ev_mono _ _ HF 0%nat _ _ HR) as H0.
  destruct (le_out_inv _ _ H0) as [E|E]; rewrite E; [apply le_out_oof|].
  destruct (arg_ev ev1 args1 0 c1) as [[[| |name| | |]|]|]; try apply le_out_refl.
  rewrite (R_get _ _ name HR).
  destruct (get_definition c2 name) as [b|]; [|apply le_out_refl].
  apply R_exp, HR.
Qed.

End Mono.

(* ================================================================== *)
(* 3. Atoms, fuel monotonicity, extensionality in the context          *)
(* ================================================================== *)

Section Atoms.
Variable opaque : fn -> list (option json) -> option json.

Lemma eval_EExtract mf ups path c : eval opaque mf (EExtract ups path) c = Val (extract ups path c).
Proof. destruct mf; reflexivity. Qed.
Lemma eval_EConst mf v c : eval opaque mf (EConst v) c = Val (Some v).
Proof. destruct mf; reflexivity. Qed.
Lemma eval_EVar mf n c : eval opaque mf (EVar n) c = Val (get_variable c n).
Proof. destruct mf; reflexivity. Qed.
Lemma eval_ESelected mf n c : eval opaque mf (ESelected n) c = Val (get_selected c n).
Proof. destruct mf; reflexivity. Qed.
Lemma eval_EIctx mf k c : eval opaque mf (EIctx k) c = Val (ictx_get k c).
Proof. destruct mf; reflexivity. Qed.
Lemma eval_EMacro mf n c :
  eval opaque mf (EMacro n) c =
  match get_definition c n with None => Val None | Some b => expand opaque mf b c end.
Proof. destruct mf; reflexivity. Qed.

Lemma Forall_Forall2_same {A} (P : A -> A -> Prop) l : Forall (fun a => P a a) l -> Forall2 P l l.
Proof. induction 1 as [|a t Ha Ht IH]; constructor; assumption. Qed.

Lemma Forall_Forall2_map {A} (P : A -> A -> Prop) (g : A -> A) l :
  Forall (fun a => P a (g a)) l -> Forall2 P l (map g l).
Proof. induction 1 as [|a t Ha Ht IH]; cbn [map]; constructor; assumption. Qed.

Lemma Forall_Forall2_map_l {A} (P : A -> A -> Prop) (g : A -> A) l :
  Forall (fun a => P (g a) a) l -> Forall2 P (map g l) l.
Proof. induction 1 as [|a t Ha Ht IH]; cbn [map]; constructor; assumption. Qed.

(* ---------- more macro fuel never changes a value ---------- *)
Lemma fuel_step mf :
  (forall b c, le_out (expand opaque mf b c) (expand opaque (S mf) b c)) ->
  forall e c, le_out (eval opaque mf e c) (eval opaque (S mf) e c).
Proof.
  intros Hexp. induction e as [ups path|v|n|n|n|k|f args IH] using expr_ind_strong; intros c.
  - rewrite !eval_EExtract. apply le_out_refl.
  - rewrite !eval_EConst. apply le_out_refl.
  - rewrite !eval_EVar. apply le_out_refl.
  - rewrite !eval_EMacro. destruct (get_definition c n) as [b|]; [apply Hexp|apply le_out_refl].
  - rewrite !eval_ESelected. apply le_out_refl.
  - rewrite !eval_EIctx. apply le_out_refl.
  - rewrite !eval_ECall.
    assert (HF : Forall2 (rel_arg (eval opaque mf) (eval opaque (S mf)) eq) args args).
    { apply Forall_Forall2_same. revert IH. apply Forall_impl. intros a Ha c1 c2 <-. apply Ha. }
    destruct (fn_kind f) eqn:K.
    + apply plain_mono with (R := eq); try (intros; subst; reflexivity); [rewrite K; exact I|exact HF].
    + apply set_mono with (R := eq); try (intros; subst; reflexivity); assumption.
    + apply define_mono with (R := eq); try (intros; subst; reflexivity); assumption.
    + apply at_mono with (R := eq); try (intros; subst; reflexivity); try assumption.
      intros b c1 c2 <-. apply Hexp.
    + apply colon_mono with (R := eq); try (intros; subst; reflexivity); assumption.
    + apply plain_mono with (R := eq); try (intros; subst; reflexivity); [rewrite K; exact I|exact HF].
    + apply plain_mono with (R := eq); try (intros; subst; reflexivity); [rewrite K; exact I|exact HF].
    + apply plain_mono with (R := eq); try (intros; subst; reflexivity); [rewrite K; exact I|exact HF].
    + apply plain_mono with (R := eq); try (intros; subst; reflexivity); [rewrite K; exact I|exact HF].
Qed.

Lemma fuel_mono_le mf : forall e c, le_out (eval opaque mf e c) (eval opaque (S mf) e c).
Proof.
  induction mf as [|m IH]; apply fuel_step.
  - intros b c. apply le_out_oof.
  - intros b c. exact (IH b c).
Qed.

Theorem fuel_mono mf e c r : eval opaque mf e c = Val r -> eval opaque (S mf) e c = Val r.
Proof. apply fuel_mono_le. Qed.

Lemma expand_le_eval mf b c : le_out (expand opaque mf b c) (eval opaque mf b c).
Proof. destruct mf as [|m]; [apply le_out_oof|]. exact (fuel_mono_le m b c). Qed.

(* ---------- eval sees the context only through lookups ---------- *)
Lemma ctx_equiv_sym c c' : ctx_equiv c c' -> ctx_equiv c' c.
Proof.
  intros (H1 & H2 & H3 & H4 & H5 & H6). repeat split; try (symmetry; assumption).
  - intros m. symmetry. apply H5.
  - intros m. symmetry. apply H6.
Qed.

Lemma ctx_equiv_with_input c c' x : ctx_equiv c c' -> ctx_equiv (with_input c x) (with_input c' x).
Proof.
  intros (H1 & H2 & H3 & H4 & H5 & H6). unfold ctx_equiv, with_input, get_variable, get_definition in *.
  cbn [input results parents vars defs ic]. rewrite H1, H3. repeat split; assumption.
Qed.
Lemma ctx_equiv_with_variable c c' m v : ctx_equiv c c' -> ctx_equiv (with_variable c m v) (with_variable c' m v).
Proof.
  intros (H1 & H2 & H3 & H4 & H5 & H6). unfold ctx_equiv, with_variable, get_variable, get_definition in *.
  cbn [input results parents vars defs ic assoc_str]. repeat split; try assumption.
  intros k. rewrite H5. reflexivity.
Qed.
Lemma ctx_equiv_with_definition c c' m d : ctx_equiv c c' -> ctx_equiv (with_definition c m d) (with_definition c' m d).
Proof.
  intros (H1 & H2 & H3 & H4 & H5 & H6). unfold ctx_equiv, with_definition, get_variable, get_definition in *.
  cbn [input results parents vars defs ic assoc_str]. repeat split; try assumption.
  intros k. rewrite H6. reflexivity.
Qed.

Lemma extract_same ups path (c1 c2 : ctx) :
  input c1 = input c2 -> parents c1 = parents c2 -> extract ups path c1 = extract ups path c2.
Proof. intros Hi Hp. unfold extract, parent_input. rewrite Hi, Hp. reflexivity. Qed.

Lemma ext_step mf :
  (forall b c1 c2, ctx_equiv c1 c2 -> le_out (expand opaque mf b c1) (expand opaque mf b c2)) ->
  forall e c1 c2, ctx_equiv c1 c2 -> le_out (eval opaque mf e c1) (eval opaque mf e c2).
Proof.
  intros Hexp. induction e as [ups path|v|n|n|n|k|f args IH] using expr_ind_strong; intros c1 c2 HR.
  - rewrite !eval_EExtract. destruct HR as (H1 & H2 & H3 & H4 & H5 & H6).
    rewrite (extract_same ups path c1 c2); [apply le_out_refl|congruence|congruence].
  - rewrite !eval_EConst. apply le_out_refl.
  - rewrite !eval_EVar. destruct HR as (H1 & H2 & H3 & H4 & H5 & H6). rewrite H5. apply le_out_refl.
  - rewrite !eval_EMacro. pose proof HR as (H1 & H2 & H3 & H4 & H5 & H6). rewrite H6.
    destruct (get_definition c1 n) as [b|]; [apply Hexp, HR|apply le_out_refl].
  - rewrite !eval_ESelected. destruct HR as (H1 & H2 & H3 & H4 & H5 & H6).
    unfold get_selected. rewrite H2. apply le_out_refl.
  - rewrite !eval_EIctx. destruct HR as (H1 & H2 & H3 & H4 & H5 & H6).
    unfold ictx_get. rewrite H4. apply le_out_refl.
  - rewrite !eval_ECall.
    assert (HF : Forall2 (rel_arg (eval opaque mf) (eval opaque mf) ctx_equiv) args args).
    { apply Forall_Forall2_same. exact IH. }
    assert (Hin : forall c1 c2 x, ctx_equiv c1 c2 -> ctx_equiv (with_input c1 x) (with_input c2 x))
      by (intros; apply ctx_equiv_with_input; assumption).
    assert (Hie : forall c1 c2 : ctx, ctx_equiv c1 c2 -> input c1 = input c2)
      by (intros a b (H1 & _); symmetry; exact H1).
    destruct (fn_kind f) eqn:K.
    + apply plain_mono with (R := ctx_equiv); try assumption. rewrite K; exact I.
    + apply set_mono with (R := ctx_equiv); try assumption.
      intros; apply ctx_equiv_with_variable; assumption.
    + apply define_mono with (R := ctx_equiv); try assumption.
      intros; apply ctx_equiv_with_definition; assumption.
    + apply at_mono with (R := ctx_equiv); try assumption.
      intros a b m (_ & _ & _ & _ & _ & H6). symmetry. apply H6.
    + apply colon_mono with (R := ctx_equiv); try assumption.
      intros a b m (_ & _ & _ & _ & H5 & _). symmetry. apply H5.
    + apply plain_mono with (R := ctx_equiv); try assumption. rewrite K; exact I.
    + apply plain_mono with (R := ctx_equiv); try assumption. rewrite K; exact I.
    + apply plain_mono with (R := ctx_equiv); try assumption. rewrite K; exact I.
    + apply plain_mono with (R := ctx_equiv); try assumption. rewrite K; exact I.
Qed.

Lemma eval_ext_le mf : forall e c1 c2, ctx_equiv c1 c2 -> le_out (eval opaque mf e c1) (eval opaque mf e c2).
Proof.
  induction mf as [|m IH]; apply ext_step.
  - intros b c1 c2 _. apply le_out_oof.
  - intros b c1 c2 HR. exact (IH b c1 c2 HR).
Qed.

Theorem eval_ext mf e c1 c2 : ctx_equiv c1 c2 -> eval opaque mf e c1 = eval opaque mf e c2.
Proof.
  intros HR. apply le_out_antisym; apply eval_ext_le; [exact HR|apply ctx_equiv_sym, HR].
Qed.

End Atoms.

Lemma str_eqb_false_neq a b : str_eqb a b = false -> a <> b.
Proof. intros E ->. rewrite (proj2 (str_eqb_eq b b) eq_refl) in E. discriminate. Qed.
Lemma str_eqb_refl a : str_eqb a a = true.
Proof. apply str_eqb_eq. reflexivity. Qed.

Lemma Forall2_flip {A B} (P : A -> B -> Prop) l1 l2 :
  Forall2 P l1 l2 -> Forall2 (fun b a => P a b) l2 l1.
Proof. induction 1; constructor; assumption. Qed.
Lemma Forall2_imp {A B} (P Q : A -> B -> Prop) l1 l2 :
  (forall a b, P a b -> Q a b) -> Forall2 P l1 l2 -> Forall2 Q l1 l2.
Proof. intros H. induction 1; constructor; auto. Qed.
Lemma Forall_forallb_imp {A} (p : A -> bool) (Q : A -> Prop) l :
  Forall (fun a => p a = true -> Q a) l -> forallb p l = true -> Forall Q l.
Proof.
  induction 1 as [|a t Ha Ht IH]; cbn [forallb]; intros H; constructor;
    apply andb_true_iff in H; destruct H as [H1 H2]; auto.
Qed.

Lemma lit_name_inv args m : lit_name args = Some m -> exists rest, args = EConst (JStr m) :: rest.
Proof.
  destruct args as [|[ups path|[| |s| | |]|k|k|k|k|f l] rest]; cbn [lit_name]; try discriminate.
  intros [= ->]. exists rest. reflexivity.
Qed.
Lemma is_some_inv {A} (o : option A) : is_some o = true -> exists x, o = Some x.
Proof. destruct o as [x|]; [exists x; reflexivity|discriminate]. Qed.

Lemma fn_kind_set f : fn_kind f = KSet -> f = F_set.
Proof. destruct f; try discriminate; reflexivity. Qed.
Lemma fn_kind_colon f : fn_kind f = KColon -> f = F_colon.
Proof. destruct f; try discriminate; reflexivity. Qed.
Lemma fn_kind_define f : fn_kind f = KDefine -> f = F_define.
Proof. destruct f; try discriminate; reflexivity. Qed.
Lemma fn_kind_at f : fn_kind f = KAt -> f = F_at.
Proof. destruct f; try discriminate; reflexivity. Qed.

Section Subst.
Variable opaque : fn -> list (option json) -> option json.

(* equality version of plain_mono *)
Lemma plain_eq (ev1 ev2 : expr -> ctx -> outcome) (R : ctx -> ctx -> Prop) :
  (forall c1 c2 x, R c1 c2 -> R (with_input c1 x) (with_input c2 x)) ->
  (forall c1 c2, R c1 c2 -> input c1 = input c2) ->
  forall mf1 mf2 f args1 args2 c1 c2,
  plain_kind (fn_kind f) ->
  Forall2 (fun a1 a2 => forall c1 c2, R c1 c2 -> ev1 a1 c1 = ev2 a2 c2) args1 args2 ->
  R c1 c2 ->
  eval_call opaque mf1 ev1 f args1 c1 = eval_call opaque mf2 ev2 f args2 c2.
Proof.
  intros Hin Hie mf1 mf2 f args1 args2 c1 c2 Hk HF HR. apply le_out_antisym.
  - apply plain_mono with (R := R); try assumption.
    revert HF. apply Forall2_imp. intros a b H x y Hxy. apply le_out_of_eq, H, Hxy.
  - apply plain_mono with (R := fun x y => R y x); try assumption.
    + intros x y z H. apply Hin, H.
    + intros x y H. symmetry. apply Hie, H.
    + apply Forall2_flip. revert HF. apply Forall2_imp.
      intros a b H x y Hxy. apply le_out_of_eq. symmetry. apply H, Hxy.
Qed.

Lemma arg_ev_eq (ev1 ev2 : expr -> ctx -> outcome) (R : ctx -> ctx -> Prop) args1 args2 :
  Forall2 (fun a1 a2 => forall c1 c2, R c1 c2 -> ev1 a1 c1 = ev2 a2 c2) args1 args2 ->
  forall i c1 c2, R c1 c2 -> arg_ev ev1 args1 i c1 = arg_ev ev2 args2 i c2.
Proof.
  induction 1 as [|a1 a2 t1 t2 Ha Ht IH]; intros i c1 c2 HR; [reflexivity|].
  destruct i as [|j]; [apply Ha, HR|exact (IH j c1 c2 HR)].
Qed.

(* ================================================================== *)
(* S1. Unfoldings                                                      *)
(* ================================================================== *)

Lemma eval_set_lit mf m ev rest c :
  eval opaque mf (ECall F_set (EConst (JStr m) :: ev :: rest)) c =
  match eval opaque mf ev c with
  | Val (Some v) => arg_ev (eval opaque mf) rest 0%nat (with_variable c m v)
  | Val None => Val None
  | OutOfFuel => OutOfFuel
  end.
Proof. destruct mf; reflexivity. Qed.

Lemma eval_colon_lit mf m rest c :
  eval opaque mf (ECall F_colon (EConst (JStr m) :: rest)) c = Val (get_variable c m).
Proof. destruct mf; reflexivity. Qed.

Lemma eval_define_lit mf m d rest c :
  eval opaque mf (ECall F_define (EConst (JStr m) :: d :: rest)) c =
  arg_ev (eval opaque mf) rest 0%nat (with_definition c m d).
Proof. destruct mf; reflexivity. Qed.

Lemma eval_at_lit mf m rest c :
  eval opaque mf (ECall F_at (EConst (JStr m) :: rest)) c =
  match get_definition c m with None => Val None | Some b => expand opaque mf b c end.
Proof. destruct mf; reflexivity. Qed.

Theorem C12_set_unfold mf n ev body c :
  eval opaque mf (ECall F_set [EConst (JStr n); ev; body]) c =
  match eval opaque mf ev c with
  | Val (Some v) => eval opaque mf body (with_variable c n v)
  | Val None => Val None
  | OutOfFuel => OutOfFuel
  end.
Proof. destruct mf; reflexivity. Qed.

Theorem C12_define_unfold mf n d body c :
  eval opaque mf (ECall F_define [EConst (JStr n); d; body]) c =
  eval opaque mf body (with_definition c n d).
Proof. destruct mf; reflexivity. Qed.

Theorem C12_colon_unfold mf n c :
  eval opaque mf (ECall F_colon [EConst (JStr n)]) c = Val (get_variable c n).
Proof. destruct mf; reflexivity. Qed.

Theorem C12_at_unfold mf n c :
  eval opaque (S mf) (ECall F_at [EConst (JStr n)]) c =
  match get_definition c n with None => Val None | Some b => eval opaque mf b c end.
Proof. reflexivity. Qed.

Theorem C12_macro_unfold mf n c :
  eval opaque (S mf) (EMacro n) c =
  match get_definition c n with None => Val None | Some b => eval opaque mf b c end.
Proof. reflexivity. Qed.

Theorem C12_pipe2 mf a b c :
  eval opaque mf (ECall F_pipe [a; b]) c =
  match eval opaque mf a (with_input c (input c)) with
  | Val (Some va) =>
      match eval opaque mf b (with_input (with_input c (input c)) va) with
      | Val (Some vb) => Val (Some vb)
      | Val None => Val None
      | OutOfFuel => OutOfFuel
      end
  | Val None => Val None
  | OutOfFuel => OutOfFuel
  end.
Proof. destruct mf; reflexivity. Qed.

(* what a and b see *)
Lemma C12_pipe2_ctx_a (c : ctx) :
  input (with_input c (input c)) = input c /\
  parents (with_input c (input c)) = input c :: parents c /\
  vars (with_input c (input c)) = vars c /\ defs (with_input c (input c)) = defs c /\
  ic (with_input c (input c)) = ic c.
Proof. repeat split. Qed.
Lemma C12_pipe2_ctx_b (c : ctx) va :
  input (with_input (with_input c (input c)) va) = va /\
  parents (with_input (with_input c (input c)) va) = input c :: input c :: parents c /\
  parent_input (with_input (with_input c (input c)) va) 1 = input c /\
  vars (with_input (with_input c (input c)) va) = vars c /\
  defs (with_input (with_input c (input c)) va) = defs c /\
  ic (with_input (with_input c (input c)) va) = ic c.
Proof. repeat split. Qed.

Theorem C12_pipe_nil mf c : eval opaque mf (ECall F_pipe []) c = Val (Some (input c)).
Proof. destruct mf; reflexivity. Qed.

(* ================================================================== *)
(* S4. Transparency                                                    *)
(* ================================================================== *)

Lemma input_with_variable (c : ctx) n v : input (with_variable c n v) = input c.
Proof. reflexivity. Qed.
Lemma parents_with_variable (c : ctx) n v : parents (with_variable c n v) = parents c.
Proof. reflexivity. Qed.
Lemma input_with_definition (c : ctx) n d : input (with_definition c n d) = input c.
Proof. reflexivity. Qed.
Lemma parents_with_definition (c : ctx) n d : parents (with_definition c n d) = parents c.
Proof. reflexivity. Qed.
Lemma input_with_variables (c : ctx) vs : input (with_variables c vs) = input c.
Proof. reflexivity. Qed.
Lemma parents_with_variables (c : ctx) vs : parents (with_variables c vs) = parents c.
Proof. reflexivity. Qed.
Lemma input_with_definitions (c : ctx) ds : input (with_definitions c ds) = input c.
Proof. reflexivity. Qed.
Lemma parents_with_definitions (c : ctx) ds : parents (with_definitions c ds) = parents c.
Proof. reflexivity. Qed.
Lemma input_with_result (c : ctx) t r : input (with_result c t r) = input c.
Proof. reflexivity. Qed.
Lemma parents_with_result (c : ctx) t r : parents (with_result c t r) = parents c.
Proof. reflexivity. Qed.

Lemma parent_input_with_variable (c : ctx) n v k : parent_input (with_variable c n v) k = parent_input c k.
Proof. reflexivity. Qed.
Lemma parent_input_with_definition (c : ctx) n d k : parent_input (with_definition c n d) k = parent_input c k.
Proof. reflexivity. Qed.
Lemma parent_input_with_variables (c : ctx) vs k : parent_input (with_variables c vs) k = parent_input c k.
Proof. reflexivity. Qed.
Lemma parent_input_with_definitions (c : ctx) ds k : parent_input (with_definitions c ds) k = parent_input c k.
Proof. reflexivity. Qed.
Lemma parent_input_with_result (c : ctx) t r k : parent_input (with_result c t r) k = parent_input c k.
Proof. reflexivity. Qed.

(* every --select sees the same input and parents as the first one *)
Lemma parent_input_with_results (c : ctx) trs k :
  parent_input (fold_left (fun c tr => with_result c (fst tr) (snd tr)) trs c) k = parent_input c k.
Proof.
  revert c. induction trs as [|tr t IH]; intros c; cbn [fold_left]; [reflexivity|].
  rewrite IH. reflexivity.
Qed.

Theorem extract_with_variable mf ups path (c : ctx) n v :
  eval opaque mf (EExtract ups path) (with_variable c n v) = eval opaque mf (EExtract ups path) c.
Proof. rewrite !eval_EExtract. reflexivity. Qed.
Theorem extract_with_definition mf ups path (c : ctx) n d :
  eval opaque mf (EExtract ups path) (with_definition c n d) = eval opaque mf (EExtract ups path) c.
Proof. rewrite !eval_EExtract. reflexivity. Qed.
Theorem extract_with_variables mf ups path (c : ctx) vs :
  eval opaque mf (EExtract ups path) (with_variables c vs) = eval opaque mf (EExtract ups path) c.
Proof. rewrite !eval_EExtract. reflexivity. Qed.
Theorem extract_with_definitions mf ups path (c : ctx) ds :
  eval opaque mf (EExtract ups path) (with_definitions c ds) = eval opaque mf (EExtract ups path) c.
Proof. rewrite !eval_EExtract. reflexivity. Qed.
Theorem extract_with_result mf ups path (c : ctx) t r :
  eval opaque mf (EExtract ups path) (with_result c t r) = eval opaque mf (EExtract ups path) c.
Proof. rewrite !eval_EExtract. reflexivity. Qed.

Lemma get_variable_with_variables (c : ctx) vs n : get_variable (with_variables c vs) n = assoc_str n vs.
Proof. reflexivity. Qed.
Lemma get_definition_with_definitions (c : ctx) ds n : get_definition (with_definitions c ds) n = assoc_str n ds.
Proof. reflexivity. Qed.
Lemma get_variable_with_variable (c : ctx) m x k :
  get_variable (with_variable c m x) k = if str_eqb k m then Some x else get_variable c k.
Proof. reflexivity. Qed.
Lemma get_definition_with_definition (c : ctx) m d k :
  get_definition (with_definition c m d) k = if str_eqb k m then Some d else get_definition c k.
Proof. reflexivity. Qed.
Lemma get_variable_with_definition (c : ctx) m d k : get_variable (with_definition c m d) k = get_variable c k.
Proof. reflexivity. Qed.
Lemma get_definition_with_variable (c : ctx) m x k : get_definition (with_variable c m x) k = get_definition c k.
Proof. reflexivity. Qed.
Lemma get_variable_with_input (c : ctx) x k : get_variable (with_input c x) k = get_variable c k.
Proof. reflexivity. Qed.
Lemma get_definition_with_input (c : ctx) x k : get_definition (with_input c x) k = get_definition c k.
Proof. reflexivity. Qed.
Lemma get_variable_with_result (c : ctx) t r k : get_variable (with_result c t r) k = get_variable c k.
Proof. reflexivity. Qed.
Lemma get_definition_with_result (c : ctx) t r k : get_definition (with_result c t r) k = get_definition c k.
Proof. reflexivity. Qed.

(* ================================================================== *)
(* S2. (set n v e) is substitution of v for :n                         *)
(* ================================================================== *)

Lemma subst_var_set_lit n v m ev rest :
  subst_var n v (ECall F_set (EConst (JStr m) :: ev :: rest)) =
  if str_eqb m n then ECall F_set (EConst (JStr m) :: subst_var n v ev :: rest)
  else ECall F_set (EConst (JStr m) :: subst_var n v ev :: map (subst_var n v) rest).
Proof. reflexivity. Qed.
Lemma subst_var_colon_lit n v m rest :
  subst_var n v (ECall F_colon (EConst (JStr m) :: rest)) =
  if str_eqb m n then EConst v else ECall F_colon (EConst (JStr m) :: map (subst_var n v) rest).
Proof. reflexivity. Qed.
Lemma subst_var_plain n v f args :
  fn_kind f <> KSet -> fn_kind f <> KColon ->
  subst_var n v (ECall f args) = ECall f (map (subst_var n v) args).
Proof. intros H1 H2. destruct f; try reflexivity; exfalso; [apply H2|apply H1]; reflexivity. Qed.

Lemma agree_var_with_input n v c c' x :
  ctx_agree_except_var n v c c' -> ctx_agree_except_var n v (with_input c x) (with_input c' x).
Proof.
  intros (H1 & H2 & H3 & H4 & H5 & H6 & H7).
  unfold ctx_agree_except_var, with_input, get_variable in *.
  cbn [input results parents vars defs ic]. rewrite H1, H3. repeat split; assumption.
Qed.
Lemma agree_var_with_variable n v c c' m x :
  m <> n -> ctx_agree_except_var n v c c' ->
  ctx_agree_except_var n v (with_variable c m x) (with_variable c' m x).
Proof.
  intros Hm (H1 & H2 & H3 & H4 & H5 & H6 & H7).
  unfold ctx_agree_except_var. rewrite !get_variable_with_variable.
  cbn [input results parents vars defs ic with_variable]. repeat split; try assumption.
  - rewrite str_eqb_neq; [exact H6|]. intros E. apply Hm. symmetry. exact E.
  - intros k Hk. rewrite !get_variable_with_variable. rewrite (H7 k Hk). reflexivity.
Qed.
Lemma agree_var_shadow n v c c' x :
  ctx_agree_except_var n v c c' -> ctx_equiv (with_variable c n x) (with_variable c' n x).
Proof.
  intros (H1 & H2 & H3 & H4 & H5 & H6 & H7).
  unfold ctx_equiv. cbn [input results parents vars defs ic with_variable]. repeat split; try assumption.
  - intros k. rewrite !get_variable_with_variable.
    destruct (str_eqb k n) eqn:E; [reflexivity|]. apply H7. apply str_eqb_false_neq, E.
  - intros k. unfold get_definition. cbn [defs with_variable]. rewrite H4. reflexivity.
Qed.

Theorem C12_var_subst mf : forall e, var_literal e = true ->
  forall c c' n v, ctx_agree_except_var n v c c' ->
  eval opaque mf e c' = eval opaque mf (subst_var n v e) c.
Proof.
  induction e as [ups path|x|m|m|m|k|f args IH] using expr_ind_strong; intros HL c c' n v HA.
  - cbn [subst_var]. rewrite !eval_EExtract. destruct HA as (H1 & H2 & H3 & _).
    rewrite (extract_same ups path c' c); [reflexivity|assumption|assumption].
  - cbn [subst_var]. rewrite !eval_EConst. reflexivity.
  - cbn [subst_var]. destruct (str_eqb m n) eqn:E.
    + apply str_eqb_eq in E. subst m. rewrite eval_EVar, eval_EConst.
      destruct HA as (_ & _ & _ & _ & _ & H6 & _). rewrite H6. reflexivity.
    + rewrite !eval_EVar. destruct HA as (_ & _ & _ & _ & _ & _ & H7).
      rewrite (H7 m (str_eqb_false_neq _ _ E)). reflexivity.
  - discriminate HL.
  - cbn [subst_var]. rewrite !eval_ESelected. destruct HA as (_ & H2 & _).
    unfold get_selected. rewrite H2. reflexivity.
  - cbn [subst_var]. rewrite !eval_EIctx. destruct HA as (_ & _ & _ & _ & H5 & _).
    unfold ictx_get. rewrite H5. reflexivity.
  - cbn [var_literal] in HL. apply andb_true_iff in HL. destruct HL as [Hhead Hargs].
    pose proof (Forall_forallb_imp _ _ _ IH Hargs) as IHa. clear IH.
    assert (HF : forall n v, Forall2 (fun a1 a2 => forall c1 c2, ctx_agree_except_var n v c2 c1 ->
                   eval opaque mf a1 c1 = eval opaque mf a2 c2) args (map (subst_var n v) args)).
    { intros n1 v1. apply Forall_Forall2_map. revert IHa. apply Forall_impl.
      intros a Ha c1 c2 H. apply Ha, H. }
    assert (Hplain : plain_kind (fn_kind f) ->
              eval opaque mf (ECall f args) c' = eval opaque mf (subst_var n v (ECall f args)) c).
    { intros Hk. rewrite subst_var_plain by (intros E; rewrite E in Hk; exact Hk).
      rewrite !eval_ECall.
      apply plain_eq with (R := fun c1 c2 => ctx_agree_except_var n v c2 c1); try assumption.
      - intros c1 c2 y H. apply agree_var_with_input, H.
      - intros c1 c2 (H1 & _). exact H1.
      - apply HF. }
    destruct (fn_kind f) eqn:K; try (apply Hplain; exact I); clear Hplain.
    + (* set *)
      apply fn_kind_set in K. subst f. cbn [var_head_ok] in Hhead.
      apply is_some_inv in Hhead. destruct Hhead as [m Hm].
      apply lit_name_inv in Hm. destruct Hm as [rest ->].
      destruct rest as [|ev rest].
      { cbn [subst_var map]. destruct mf; reflexivity. }
      inversion IHa as [|? ? _ IHr]; subst. inversion IHr as [|? ? IHev IHrest]; subst.
      rewrite subst_var_set_lit. destruct (str_eqb m n) eqn:E.
      * apply str_eqb_eq in E. subst m. rewrite !eval_set_lit.
        rewrite <- (IHev _ _ _ _ HA).
        destruct (eval opaque mf ev c') as [[y|]|]; try reflexivity.
        apply arg_ev_eq with (R := fun c1 c2 => ctx_equiv c2 c1).
        -- apply Forall_Forall2_same. apply Forall_forall. intros a _ c1 c2 H.
           apply eval_ext. apply ctx_equiv_sym, H.
        -- apply agree_var_shadow with (v := v), HA.
      * rewrite !eval_set_lit. rewrite <- (IHev _ _ _ _ HA).
        destruct (eval opaque mf ev c') as [[y|]|]; try reflexivity.
        apply arg_ev_eq with (R := fun c1 c2 => ctx_agree_except_var n v c2 c1).
        -- apply Forall_Forall2_map. revert IHrest. apply Forall_impl.
           intros a Ha c1 c2 H. apply Ha, H.
        -- apply agree_var_with_variable; [apply str_eqb_false_neq, E|exact HA].
    + (* define *) apply fn_kind_define in K. subst f. discriminate Hhead.
    + (* @ *) apply fn_kind_at in K. subst f. discriminate Hhead.
    + (* : *)
      apply fn_kind_colon in K. subst f. cbn [var_head_ok] in Hhead.
      apply is_some_inv in Hhead. destruct Hhead as [m Hm].
      apply lit_name_inv in Hm. destruct Hm as [rest ->].
      rewrite subst_var_colon_lit. destruct (str_eqb m n) eqn:E.
      * apply str_eqb_eq in E. subst m. rewrite eval_colon_lit, eval_EConst.
        destruct HA as (_ & _ & _ & _ & _ & H6 & _). rewrite H6. reflexivity.
      * rewrite !eval_colon_lit. destruct HA as (_ & _ & _ & _ & _ & _ & H7).
        rewrite (H7 m (str_eqb_false_neq _ _ E)). reflexivity.
Qed.

Lemma agree_var_bind (c : ctx) n v : ctx_agree_except_var n v c (with_variable c n v).
Proof.
  unfold ctx_agree_except_var. cbn [input results parents vars defs ic with_variable].
  repeat split.
  - rewrite get_variable_with_variable, str_eqb_refl. reflexivity.
  - intros m Hm. rewrite get_variable_with_variable, (str_eqb_neq _ _ Hm). reflexivity.
Qed.

Theorem C12_set_is_subst mf n v body c : var_literal body = true ->
  eval opaque mf (ECall F_set [EConst (JStr n); EConst v; body]) c =
  eval opaque mf (subst_var n v body) c.
Proof.
  intros HL. rewrite C12_set_unfold, eval_EConst.
  apply C12_var_subst; [exact HL|apply agree_var_bind].
Qed.

(* with a computed value: the bound expression is evaluated once, outside *)
Theorem C12_set_is_subst_val mf n ev body c v : var_literal body = true ->
  eval opaque mf ev c = Val (Some v) ->
  eval opaque mf (ECall F_set [EConst (JStr n); ev; body]) c =
  eval opaque mf (subst_var n v body) c.
Proof.
  intros HL Hev. rewrite C12_set_unfold, Hev.
  apply C12_var_subst; [exact HL|apply agree_var_bind].
Qed.

End Subst.

(* ================================================================== *)
(* S3. (define n d e) is substitution of d for @n                      *)
(* ================================================================== *)

Lemma subst_macro_at_lit n d m rest :
  subst_macro n d (ECall F_at (EConst (JStr m) :: rest)) =
  if str_eqb m n then d else ECall F_at (EConst (JStr m) :: map (subst_macro n d) rest).
Proof. reflexivity. Qed.
Lemma subst_macro_define_lit n d m rest :
  subst_macro n d (ECall F_define (EConst (JStr m) :: rest)) =
  if str_eqb m n then ECall F_define (EConst (JStr m) :: rest)
  else ECall F_define (EConst (JStr m) :: map (subst_macro n d) rest).
Proof. reflexivity. Qed.
Lemma subst_macro_plain n d f args :
  fn_kind f <> KAt -> fn_kind f <> KDefine ->
  subst_macro n d (ECall f args) = ECall f (map (subst_macro n d) args).
Proof. intros H1 H2. destruct f; try reflexivity; exfalso; [apply H1|apply H2]; reflexivity. Qed.

Lemma map_id_Forall {A} (g : A -> A) l : Forall (fun a => g a = a) l -> map g l = l.
Proof. induction 1 as [|a t Ha Ht IH]; cbn [map]; [reflexivity|]. rewrite Ha, IH. reflexivity. Qed.

(* a macro body that does not mention n is not changed *)
Lemma subst_macro_noref n d : forall e,
  macro_literal e = true -> no_macro_ref n e = true -> subst_macro n d e = e.
Proof.
  induction e as [ups path|x|m|m|m|k|f args IH] using expr_ind_strong; intros HL HN; try reflexivity.
  - cbn [subst_macro]. cbn [no_macro_ref] in HN. destruct (str_eqb m n); [discriminate HN|reflexivity].
  - cbn [macro_literal] in HL. apply andb_true_iff in HL. destruct HL as [Hhead Hargs].
    cbn [no_macro_ref] in HN. apply andb_true_iff in HN. destruct HN as [Hn Hnargs].
    pose proof (Forall_forallb_imp _ _ _ (Forall_forallb_imp _ _ _ IH Hargs) Hnargs) as IHa.
    apply map_id_Forall in IHa.
    destruct (fn_kind f) eqn:K;
      try (rewrite subst_macro_plain by (rewrite K; discriminate); rewrite IHa; reflexivity).
    + apply fn_kind_define in K. subst f. cbn [macro_head_ok] in Hhead.
      apply is_some_inv in Hhead. destruct Hhead as [m Hm]. apply lit_name_inv in Hm.
      destruct Hm as [rest ->]. rewrite subst_macro_define_lit.
      destruct (str_eqb m n); [reflexivity|]. cbn [map subst_macro] in IHa.
      injection IHa as IHa. rewrite IHa. reflexivity.
    + apply fn_kind_at in K. subst f. cbn [macro_head_ok] in Hhead.
      apply is_some_inv in Hhead. destruct Hhead as [m Hm]. apply lit_name_inv in Hm.
      destruct Hm as [rest ->]. rewrite subst_macro_at_lit.
      unfold not_named in Hn. cbn [lit_name] in Hn. destruct (str_eqb m n); [discriminate Hn|].
      cbn [map subst_macro] in IHa. injection IHa as IHa. rewrite IHa. reflexivity.
Qed.

(* the invariant relating the substituted side c with the defining side c' *)
Definition def_rel (n : str) (d : expr) (c c' : ctx) : Prop :=
  input c' = input c /\ results c' = results c /\ parents c' = parents c /\
  vars c' = vars c /\ ic c' = ic c /\
  get_definition c' n = Some d /\
  (forall m, m <> n -> get_definition c m = option_map (subst_macro n d) (get_definition c' m)) /\
  (forall m b, get_definition c' m = Some b -> macro_literal b = true /\ no_redefine n b = true).

Lemma def_rel_with_input n d c c' x : def_rel n d c c' -> def_rel n d (with_input c x) (with_input c' x).
Proof.
  intros (H1 & H2 & H3 & H4 & H5 & H6 & H7 & H8).
  unfold def_rel. rewrite !get_definition_with_input.
  cbn [input results parents vars defs ic with_input]. rewrite H1, H3.
  repeat split; try assumption.
  - apply (H8 m b). rewrite get_definition_with_input in H. exact H.
  - apply (H8 m b). rewrite get_definition_with_input in H. exact H.
Qed.
Lemma def_rel_with_variable n d c c' m x :
  def_rel n d c c' -> def_rel n d (with_variable c m x) (with_variable c' m x).
Proof.
  intros (H1 & H2 & H3 & H4 & H5 & H6 & H7 & H8).
  unfold def_rel. rewrite !get_definition_with_variable.
  cbn [input results parents vars defs ic with_variable]. rewrite H4.
  repeat split; try assumption.
  - apply (H8 m0 b). rewrite get_definition_with_variable in H. exact H.
  - apply (H8 m0 b). rewrite get_definition_with_variable in H. exact H.
Qed.
Lemma def_rel_with_definition n d c c' m dm :
  m <> n -> macro_literal dm = true -> no_redefine n dm = true -> def_rel n d c c' ->
  def_rel n d (with_definition c m (subst_macro n d dm)) (with_definition c' m dm).
Proof.
  intros Hm HL HR (H1 & H2 & H3 & H4 & H5 & H6 & H7 & H8).
  unfold def_rel. rewrite !get_definition_with_definition.
  cbn [input results parents vars defs ic with_definition].
  repeat split; try assumption.
  - rewrite str_eqb_neq; [exact H6|]. intros E. apply Hm. symmetry. exact E.
  - intros k Hk. rewrite !get_definition_with_definition.
    destruct (str_eqb k m); [reflexivity|apply H7, Hk].
  - rewrite get_definition_with_definition in H. destruct (str_eqb m0 m).
    + injection H as <-. exact HL.
    + apply (H8 m0 b H).
  - rewrite get_definition_with_definition in H. destruct (str_eqb m0 m).
    + injection H as <-. exact HR.
    + apply (H8 m0 b H).
Qed.

Section Macro.
Variable opaque : fn -> list (option json) -> option json.
Variable n : str.
Variable d : expr.
Hypothesis d_noref : no_macro_ref n d = true.

Lemma macro_step mf :
  (forall b c c', macro_literal b = true -> no_redefine n b = true -> def_rel n d c c' ->
     le_out (expand opaque mf b c') (expand opaque mf (subst_macro n d b) c)) ->
  forall e, macro_literal e = true -> no_redefine n e = true ->
  forall c c', def_rel n d c c' ->
  le_out (eval opaque mf e c') (eval opaque mf (subst_macro n d e) c).
Proof.
  intros Hexp.
  assert (Hname : forall m c c', def_rel n d c c' ->
    le_out (match get_definition c' m with None => Val None | Some b => expand opaque mf b c' end)
           (eval opaque mf (if str_eqb m n then d else EMacro m) c)).
  { intros m c c' HR. pose proof HR as (H1 & H2 & H3 & H4 & H5 & H6 & H7 & H8).
    destruct (str_eqb m n) eqn:E.
    - apply str_eqb_eq in E. subst m. rewrite H6. destruct (H8 _ _ H6) as [HLd HRd].
      eapply le_out_trans; [apply (Hexp d c c' HLd HRd HR)|].
      rewrite (subst_macro_noref n d d HLd d_noref). apply expand_le_eval.
    - rewrite eval_EMacro. rewrite (H7 m (str_eqb_false_neq _ _ E)).
      destruct (get_definition c' m) as [b|] eqn:G; cbn [option_map]; [|apply le_out_refl].
      destruct (H8 _ _ G) as [HLb HRb]. apply Hexp; assumption. }
  induction e as [ups path|x|m|m|m|k|f args IH] using expr_ind_strong; intros HL HN c c' HR.
  - cbn [subst_macro]. rewrite !eval_EExtract. destruct HR as (H1 & H2 & H3 & _).
    rewrite (extract_same ups path c' c); [apply le_out_refl|assumption|assumption].
  - cbn [subst_macro]. rewrite !eval_EConst. apply le_out_refl.
  - cbn [subst_macro]. rewrite !eval_EVar. destruct HR as (_ & _ & _ & H4 & _).
    unfold get_variable. rewrite H4. apply le_out_refl.
  - cbn [subst_macro]. rewrite eval_EMacro. apply Hname, HR.
  - cbn [subst_macro]. rewrite !eval_ESelected. destruct HR as (_ & H2 & _).
    unfold get_selected. rewrite H2. apply le_out_refl.
  - cbn [subst_macro]. rewrite !eval_EIctx. destruct HR as (_ & _ & _ & _ & H5 & _).
    unfold ictx_get. rewrite H5. apply le_out_refl.
  - cbn [macro_literal] in HL. apply andb_true_iff in HL. destruct HL as [Hhead Hargs].
    cbn [no_redefine] in HN. apply andb_true_iff in HN. destruct HN as [Hn Hnargs].
    pose proof (Forall_forallb_imp _ _ _ (Forall_forallb_imp _ _ _ IH Hargs) Hnargs) as IHa.
    clear IH.
    assert (HF : Forall2 (rel_arg (eval opaque mf) (eval opaque mf) (fun c1 c2 => def_rel n d c2 c1))
                   args (map (subst_macro n d) args)).
    { apply Forall_Forall2_map. revert IHa. apply Forall_impl. intros a Ha c1 c2 H. apply Ha, H. }
    assert (Hin : forall c1 c2 x, def_rel n d c2 c1 -> def_rel n d (with_input c2 x) (with_input c1 x))
      by (intros; apply def_rel_with_input; assumption).
    assert (Hie : forall c1 c2 : ctx, def_rel n d c2 c1 -> input c1 = input c2)
      by (intros a b (H1 & _); exact H1).
    assert (Hplain : plain_kind (fn_kind f) ->
      le_out (eval opaque mf (ECall f args) c') (eval opaque mf (subst_macro n d (ECall f args)) c)).
    { intros Hk. rewrite subst_macro_plain by (intros E; rewrite E in Hk; exact Hk).
      rewrite !eval_ECall.
      apply plain_mono with (R := fun c1 c2 => def_rel n d c2 c1); assumption. }
    destruct (fn_kind f) eqn:K; try (apply Hplain; exact I); clear Hplain.
    + (* set *)
      rewrite subst_macro_plain by (rewrite K; discriminate). rewrite !eval_ECall.
      apply set_mono with (R := fun c1 c2 => def_rel n d c2 c1); try assumption.
      intros; apply def_rel_with_variable; assumption.
    + (* define *)
      apply fn_kind_define in K. subst f. cbn [macro_head_ok] in Hhead.
      apply is_some_inv in Hhead. destruct Hhead as [m Hm].
      apply lit_name_inv in Hm. destruct Hm as [rest ->].
      unfold not_named in Hn. cbn [lit_name] in Hn.
      rewrite subst_macro_define_lit. destruct (str_eqb m n) eqn:E; [discriminate Hn|].
      destruct rest as [|dm rest].
      { apply le_out_of_eq. destruct mf; reflexivity. }
      cbn [map]. rewrite !eval_define_lit.
      cbn [forallb] in Hargs, Hnargs.
      apply andb_true_iff in Hargs. destruct Hargs as [_ Hargs].
      apply andb_true_iff in Hargs. destruct Hargs as [HLdm _].
      apply andb_true_iff in Hnargs. destruct Hnargs as [_ Hnargs].
      apply andb_true_iff in Hnargs. destruct Hnargs as [HRdm _].
      inversion HF as [|? ? ? ? _ HF1]; subst. inversion HF1 as [|? ? ? ? _ HF2]; subst.
      apply arg_ev_mono with (R := fun c1 c2 => def_rel n d c2 c1); [exact HF2|].
      apply def_rel_with_definition; try assumption. apply str_eqb_false_neq, E.
    + (* @ *)
      apply fn_kind_at in K. subst f. cbn [macro_head_ok] in Hhead.
      apply is_some_inv in Hhead. destruct Hhead as [m Hm].
      apply lit_name_inv in Hm. destruct Hm as [rest ->].
      rewrite subst_macro_at_lit, eval_at_lit.
      eapply le_out_trans; [apply (Hname m c c' HR)|].
      destruct (str_eqb m n); [apply le_out_refl|].
      rewrite eval_EMacro, eval_at_lit. apply le_out_refl.
    + (* : *)
      rewrite subst_macro_plain by (rewrite K; discriminate). rewrite !eval_ECall.
      apply colon_mono with (R := fun c1 c2 => def_rel n d c2 c1); try assumption.
      intros a b m (_ & _ & _ & H4 & _). unfold get_variable. rewrite H4. reflexivity.
Qed.

Theorem C12_macro_subst_gen mf : forall e, macro_literal e = true -> no_redefine n e = true ->
  forall c c', def_rel n d c c' ->
  le_out (eval opaque mf e c') (eval opaque mf (subst_macro n d e) c).
Proof.
  induction mf as [|m IH]; apply macro_step.
  - intros b c c' _ _ _. apply le_out_oof.
  - intros b c c' HL HR H. exact (IH b HL HR c c' H).
Qed.

Lemma def_rel_of_agree c c' :
  macro_literal d = true -> no_redefine n d = true ->
  ctx_agree_except_def n d c c' ->
  (forall m b, get_definition c m = Some b ->
     macro_literal b = true /\ no_redefine n b = true /\ no_macro_ref n b = true) ->
  def_rel n d c c'.
Proof.
  intros HLd HRd (H1 & H2 & H3 & H4 & H5 & H6 & H7) Hc.
  unfold def_rel. repeat split; try assumption.
  - intros m Hm. rewrite (H7 m Hm). destruct (get_definition c m) as [b|] eqn:G; [|reflexivity].
    destruct (Hc _ _ G) as (Hb1 & Hb2 & Hb3). cbn [option_map].
    rewrite (subst_macro_noref n d b Hb1 Hb3). reflexivity.
  - destruct (str_eqb m n) eqn:E.
    + apply str_eqb_eq in E. subst m. rewrite H6 in H. injection H as <-. exact HLd.
    + rewrite (H7 m (str_eqb_false_neq _ _ E)) in H. apply (Hc _ _ H).
  - destruct (str_eqb m n) eqn:E.
    + apply str_eqb_eq in E. subst m. rewrite H6 in H. injection H as <-. exact HRd.
    + rewrite (H7 m (str_eqb_false_neq _ _ E)) in H. apply (Hc _ _ H).
Qed.

(* the statement of the task, with the two restrictions that are needed (see the counterexamples
   below): n is not redefined inside e or d, and no macro visible in c mentions n or redefines it *)
Theorem C12_macro_subst mf e c c' r :
  macro_literal e = true -> no_redefine n e = true ->
  macro_literal d = true -> no_redefine n d = true ->
  ctx_agree_except_def n d c c' ->
  (forall m b, get_definition c m = Some b ->
     macro_literal b = true /\ no_redefine n b = true /\ no_macro_ref n b = true) ->
  eval opaque mf e c' = Val r -> eval opaque mf (subst_macro n d e) c = Val r.
Proof.
  intros HLe HRe HLd HRd HA Hc. apply C12_macro_subst_gen; try assumption.
  apply def_rel_of_agree; assumption.
Qed.

Lemma agree_def_bind (c : ctx) : ctx_agree_except_def n d c (with_definition c n d).
Proof.
  unfold ctx_agree_except_def. cbn [input results parents vars defs ic with_definition].
  repeat split.
  - rewrite get_definition_with_definition, str_eqb_refl. reflexivity.
  - intros m Hm. rewrite get_definition_with_definition, (str_eqb_neq _ _ Hm). reflexivity.
Qed.

Theorem C12_define_is_subst mf body c r :
  macro_literal body = true -> no_redefine n body = true ->
  macro_literal d = true -> no_redefine n d = true ->
  (forall m b, get_definition c m = Some b ->
     macro_literal b = true /\ no_redefine n b = true /\ no_macro_ref n b = true) ->
  eval opaque mf (ECall F_define [EConst (JStr n); d; body]) c = Val r ->
  eval opaque mf (subst_macro n d body) c = Val r.
Proof.
  intros HLe HRe HLd HRd Hc. rewrite C12_define_unfold.
  apply C12_macro_subst; try assumption. apply agree_def_bind.
Qed.

(* at top level (no macro defined yet) the context condition is void *)
Corollary C12_define_is_subst_top mf body c r :
  defs c = [] ->
  macro_literal body = true -> no_redefine n body = true ->
  macro_literal d = true -> no_redefine n d = true ->
  eval opaque mf (ECall F_define [EConst (JStr n); d; body]) c = Val r ->
  eval opaque mf (subst_macro n d body) c = Val r.
Proof.
  intros Hd HLe HRe HLd HRd. apply C12_define_is_subst; try assumption.
  intros m b. unfold get_definition. rewrite Hd. discriminate.
Qed.

End Macro.

(* ---------- converse: the substituted expression needs less fuel ---------- *)
Section MacroConv.
Variable opaque : fn -> list (option json) -> option json.
Variable n : str.
Variable d : expr.
Hypothesis d_noref : no_macro_ref n d = true.

Lemma fuel_mono_le_plus k mf e c : le_out (eval opaque mf e c) (eval opaque (k + mf) e c).
Proof.
  induction k as [|k IH]; [apply le_out_refl|].
  eapply le_out_trans; [exact IH|]. apply fuel_mono_le.
Qed.

Lemma conv_step mf F (HdP : Prop) :
  (forall b c c', macro_literal b = true -> no_redefine n b = true -> def_rel n d c c' ->
     le_out (expand opaque mf (subst_macro n d b) c) (expand opaque F b c')) ->
  (HdP -> forall c c', def_rel n d c c' -> le_out (eval opaque mf d c) (expand opaque F d c')) ->
  forall e, macro_literal e = true -> no_redefine n e = true ->
  (no_macro_ref n e = true \/ HdP) ->
  forall c c', def_rel n d c c' ->
  le_out (eval opaque mf (subst_macro n d e) c) (eval opaque F e c').
Proof.
  intros Hexp Hd.
  assert (Hname : forall m c c', def_rel n d c c' -> (str_eqb m n = false \/ HdP) ->
    le_out (eval opaque mf (if str_eqb m n then d else EMacro m) c)
           (match get_definition c' m with None => Val None | Some b => expand opaque F b c' end)).
  { intros m c c' HR Hor. pose proof HR as (H1 & H2 & H3 & H4 & H5 & H6 & H7 & H8).
    destruct (str_eqb m n) eqn:E.
    - apply str_eqb_eq in E. subst m. rewrite H6. destruct Hor as [Hor|Hor]; [discriminate Hor|].
      apply (Hd Hor c c' HR).
    - rewrite eval_EMacro. rewrite (H7 m (str_eqb_false_neq _ _ E)).
      destruct (get_definition c' m) as [b|] eqn:G; cbn [option_map]; [|apply le_out_refl].
      destruct (H8 _ _ G) as [HLb HRb]. apply Hexp; assumption. }
  induction e as [ups path|x|m|m|m|k|f args IH] using expr_ind_strong; intros HL HN Hor c c' HR.
  - cbn [subst_macro]. rewrite !eval_EExtract. destruct HR as (H1 & H2 & H3 & _).
    rewrite (extract_same ups path c' c); [apply le_out_refl|assumption|assumption].
  - cbn [subst_macro]. rewrite !eval_EConst. apply le_out_refl.
  - cbn [subst_macro]. rewrite !eval_EVar. destruct HR as (_ & _ & _ & H4 & _).
    unfold get_variable. rewrite H4. apply le_out_refl.
  - cbn [subst_macro]. rewrite (eval_EMacro opaque F). apply Hname; [exact HR|].
    destruct Hor as [Hor|Hor]; [left|right; exact Hor].
    cbn [no_macro_ref] in Hor. destruct (str_eqb m n); [discriminate Hor|reflexivity].
  - cbn [subst_macro]. rewrite !eval_ESelected. destruct HR as (_ & H2 & _).
    unfold get_selected. rewrite H2. apply le_out_refl.
  - cbn [subst_macro]. rewrite !eval_EIctx. destruct HR as (_ & _ & _ & _ & H5 & _).
    unfold ictx_get. rewrite H5. apply le_out_refl.
  - cbn [macro_literal] in HL. apply andb_true_iff in HL. destruct HL as [Hhead Hargs].
    cbn [no_redefine] in HN. apply andb_true_iff in HN. destruct HN as [Hn Hnargs].
    assert (Hor' : (match f with F_at => not_named n args | _ => true end = true /\
                    forallb (no_macro_ref n) args = true) \/ HdP).
    { destruct Hor as [Hor|Hor]; [left|right; exact Hor].
      cbn [no_macro_ref] in Hor. apply andb_true_iff in Hor. exact Hor. }
    clear Hor.
    assert (IHa : Forall (fun a => forall c c', def_rel n d c c' ->
              le_out (eval opaque mf (subst_macro n d a) c) (eval opaque F a c')) args).
    { pose proof (Forall_forallb_imp _ _ _ (Forall_forallb_imp _ _ _ IH Hargs) Hnargs) as IH1.
      destruct Hor' as [[_ Hor]|Hor].
      - apply (Forall_forallb_imp (no_macro_ref n) _ args); [|exact Hor].
        revert IH1. apply Forall_impl. intros a Ha Hna. apply Ha. left. exact Hna.
      - revert IH1. apply Forall_impl. intros a Ha. apply Ha. right. exact Hor. }
    clear IH.
    assert (HF : Forall2 (rel_arg (eval opaque mf) (eval opaque F) (def_rel n d))
                   (map (subst_macro n d) args) args).
    { apply Forall_Forall2_map_l. revert IHa. apply Forall_impl. intros a Ha c1 c2 H. apply Ha, H. }
    assert (Hin : forall c1 c2 x, def_rel n d c1 c2 -> def_rel n d (with_input c1 x) (with_input c2 x))
      by (intros; apply def_rel_with_input; assumption).
    assert (Hie : forall c1 c2 : ctx, def_rel n d c1 c2 -> input c1 = input c2)
      by (intros a b (H1 & _); symmetry; exact H1).
    assert (Hplain : plain_kind (fn_kind f) ->
      le_out (eval opaque mf (subst_macro n d (ECall f args)) c) (eval opaque F (ECall f args) c')).
    { intros Hk. rewrite subst_macro_plain by (intros E; rewrite E in Hk; exact Hk).
      rewrite !eval_ECall.
      apply plain_mono with (R := def_rel n d); assumption. }
    destruct (fn_kind f) eqn:K; try (apply Hplain; exact I); clear Hplain.
    + (* set *)
      rewrite subst_macro_plain by (rewrite K; discriminate). rewrite !eval_ECall.
      apply set_mono with (R := def_rel n d); try assumption.
      intros; apply def_rel_with_variable; assumption.
    + (* define *)
      apply fn_kind_define in K. subst f. cbn [macro_head_ok] in Hhead.
      apply is_some_inv in Hhead. destruct Hhead as [m Hm].
      apply lit_name_inv in Hm. destruct Hm as [rest ->].
      unfold not_named in Hn. cbn [lit_name] in Hn.
      rewrite subst_macro_define_lit. destruct (str_eqb m n) eqn:E; [discriminate Hn|].
      destruct rest as [|dm rest].
      { apply le_out_of_eq. destruct mf; destruct F; reflexivity. }
      cbn [map]. rewrite !eval_define_lit.
      cbn [forallb] in Hargs, Hnargs.
      apply andb_true_iff in Hargs. destruct Hargs as [_ Hargs].
      apply andb_true_iff in Hargs. destruct Hargs as [HLdm _].
      apply andb_true_iff in Hnargs. destruct Hnargs as [_ Hnargs].
      apply andb_true_iff in Hnargs. destruct Hnargs as [HRdm _].
      cbn [map] in HF.
      inversion HF as [|? ? ? ? _ HF1]; subst. inversion HF1 as [|? ? ? ? _ HF2]; subst.
      apply arg_ev_mono with (R := def_rel n d); [exact HF2|].
      apply def_rel_with_definition; try assumption. apply str_eqb_false_neq, E.
    + (* @ *)
      apply fn_kind_at in K. subst f. cbn [macro_head_ok] in Hhead.
      apply is_some_inv in Hhead. destruct Hhead as [m Hm].
      apply lit_name_inv in Hm. destruct Hm as [rest ->].
      rewrite subst_macro_at_lit, (eval_at_lit opaque F).
      eapply le_out_trans; [|apply (Hname m c c' HR)].
      * destruct (str_eqb m n); [apply le_out_refl|].
        rewrite eval_EMacro, eval_at_lit. apply le_out_refl.
      * destruct Hor' as [[Hor _]|Hor]; [left|right; exact Hor].
        unfold not_named in Hor. cbn [lit_name] in Hor.
        destruct (str_eqb m n); [discriminate Hor|reflexivity].
    + (* : *)
      rewrite subst_macro_plain by (rewrite K; discriminate). rewrite !eval_ECall.
      apply colon_mono with (R := def_rel n d); try assumption.
      intros a b m (_ & _ & _ & H4 & _). unfold get_variable. rewrite H4. reflexivity.
Qed.

Lemma conv_both mf :
  (forall e, macro_literal e = true -> no_redefine n e = true -> no_macro_ref n e = true ->
     forall c c', def_rel n d c c' ->
     le_out (eval opaque mf (subst_macro n d e) c) (eval opaque (mf + mf) e c')) /\
  (forall e, macro_literal e = true -> no_redefine n e = true ->
     forall c c', def_rel n d c c' ->
     le_out (eval opaque mf (subst_macro n d e) c) (eval opaque (S (mf + mf)) e c')).
Proof.
  induction mf as [|m [IH1 IH2]].
  - assert (P1 : forall e, macro_literal e = true -> no_redefine n e = true -> no_macro_ref n e = true ->
       forall c c', def_rel n d c c' ->
       le_out (eval opaque 0 (subst_macro n d e) c) (eval opaque (0 + 0) e c')).
    { intros e HL HN HR. apply (conv_step 0 (0 + 0) False); try assumption.
      - intros. apply le_out_oof.
      - intros [].
      - left. exact HR. }
    split; [exact P1|].
    intros e HL HN. apply (conv_step 0 (S (0 + 0)) True); try assumption.
    + intros. apply le_out_oof.
    + intros _ c c' HR. pose proof HR as (_ & _ & _ & _ & _ & H6 & _ & H8).
      destruct (H8 _ _ H6) as [HLd HRd].
      rewrite <- (subst_macro_noref n d d HLd d_noref) at 1.
      apply (P1 d HLd HRd d_noref c c' HR).
    + right. exact I.
  - assert (E : S m + S m = S (S (m + m))) by (rewrite Nat.add_succ_r; reflexivity).
    rewrite E.
    assert (P1 : forall e, macro_literal e = true -> no_redefine n e = true -> no_macro_ref n e = true ->
       forall c c', def_rel n d c c' ->
       le_out (eval opaque (S m) (subst_macro n d e) c) (eval opaque (S (S (m + m))) e c')).
    { intros e HL HN HR. apply (conv_step (S m) (S (S (m + m))) False); try assumption.
      - intros b c c' HLb HRb H. exact (IH2 b HLb HRb c c' H).
      - intros [].
      - left. exact HR. }
    split; [exact P1|].
    intros e HL HN. apply (conv_step (S m) (S (S (S (m + m)))) True); try assumption.
    + intros b c c' HLb HRb H. cbn [expand].
      eapply le_out_trans; [exact (IH2 b HLb HRb c c' H)|]. apply fuel_mono_le.
    + intros _ c c' HR. pose proof HR as (_ & _ & _ & _ & _ & H6 & _ & H8).
      destruct (H8 _ _ H6) as [HLd HRd].
      rewrite <- (subst_macro_noref n d d HLd d_noref) at 1.
      apply (P1 d HLd HRd d_noref c c' HR).
    + right. exact I.
Qed.

Theorem C12_macro_subst_conv mf e c c' r :
  macro_literal e = true -> no_redefine n e = true ->
  macro_literal d = true -> no_redefine n d = true ->
  ctx_agree_except_def n d c c' ->
  (forall m b, get_definition c m = Some b ->
     macro_literal b = true /\ no_redefine n b = true /\ no_macro_ref n b = true) ->
  eval opaque mf (subst_macro n d e) c = Val r -> eval opaque (S (mf + mf)) e c' = Val r.
Proof.
  intros HLe HRe HLd HRd HA Hc. apply (proj2 (conv_both mf)); try assumption.
  apply def_rel_of_agree; assumption.
Qed.

(* both directions, fuel abstracted away *)
Theorem C12_macro_subst_iff e c c' r :
  macro_literal e = true -> no_redefine n e = true ->
  macro_literal d = true -> no_redefine n d = true ->
  ctx_agree_except_def n d c c' ->
  (forall m b, get_definition c m = Some b ->
     macro_literal b = true /\ no_redefine n b = true /\ no_macro_ref n b = true) ->
  (exists mf, eval opaque mf e c' = Val r) <-> (exists mf, eval opaque mf (subst_macro n d e) c = Val r).
Proof.
  intros HLe HRe HLd HRd HA Hc. split; intros [mf H].
  - exists mf. apply (C12_macro_subst opaque n d d_noref mf e c c' r); assumption.
  - exists (S (mf + mf)). apply (C12_macro_subst_conv mf e c c' r); assumption.
Qed.

End MacroConv.

(* ---------- shadowing: the inner binding wins ---------- *)
Section Shadow.
Variable opaque : fn -> list (option json) -> option json.

Theorem C12_set_shadow mf n v1 v2 body c :
  eval opaque mf (ECall F_set [EConst (JStr n); EConst v1; ECall F_set [EConst (JStr n); EConst v2; body]]) c =
  eval opaque mf (ECall F_set [EConst (JStr n); EConst v2; body]) c.
Proof.
  rewrite !C12_set_unfold, !eval_EConst, C12_set_unfold, eval_EConst.
  apply eval_ext. unfold ctx_equiv.
  cbn [input results parents vars defs ic with_variable]. repeat split.
  intros m. rewrite !get_variable_with_variable. destruct (str_eqb m n); reflexivity.
Qed.

Theorem C12_define_shadow mf n d1 d2 body c :
  eval opaque mf (ECall F_define [EConst (JStr n); d1; ECall F_define [EConst (JStr n); d2; body]]) c =
  eval opaque mf (ECall F_define [EConst (JStr n); d2; body]) c.
Proof.
  rewrite !C12_define_unfold.
  apply eval_ext. unfold ctx_equiv.
  cbn [input results parents vars defs ic with_definition]. repeat split.
  intros m. rewrite !get_definition_with_definition. destruct (str_eqb m n); reflexivity.
Qed.
End Shadow.

(* ================================================================== *)
(* S5. Examples and counterexamples                                    *)
(* ================================================================== *)

Module Examples.
Local Open Scope N_scope.
Definition s_name : str := [110; 97; 109; 101].
Definition s_arr : str := [97; 114; 114].
Definition s_x : str := [120].
Definition s_n : str := [110].
Definition s_k : str := [107].
Definition s_m : str := [109].
Definition s_N : str := [78].
Definition one : json := JNum (NPos 1).
Definition two : json := JNum (NPos 2).

(* {"name":"N","arr":[1,2]} *)
Definition inp : json := JObj [(s_name, JStr s_N); (s_arr, JArr [one; two])].

(* (map .arr (set "x" 1 ^.name)) *)
Definition e_map_set : expr :=
  ECall F_map [EExtract 0%nat (Some [SKey s_arr]);
               ECall F_set [EConst (JStr s_x); EConst one; EExtract 1%nat (Some [SKey s_name])]].
Example ex_map_set :
  eval no_opaque 5%nat e_map_set (new_with_no_context inp) = Val (Some (JArr [JStr s_N; JStr s_N])).
Proof. vm_compute. reflexivity. Qed.

(* (set "x" "N" (map .arr (? (= . 1) :x (set "x" ^.name (: "x"))))): inner set shadows *)
Definition e_set_body : expr :=
  ECall F_map [EExtract 0%nat (Some [SKey s_arr]);
    ECall F_if [ECall F_eq [EExtract 0%nat None; EConst one];
                EVar s_x;
                ECall F_set [EConst (JStr s_x); EConst two; ECall F_colon [EConst (JStr s_x)]]]].
Example ex_set_subst_l :
  eval no_opaque 0%nat (ECall F_set [EConst (JStr s_x); EConst (JStr s_N); e_set_body]) (new_with_no_context inp)
  = Val (Some (JArr [JStr s_N; two])).
Proof. vm_compute. reflexivity. Qed.
Example ex_set_subst_r :
  eval no_opaque 0%nat (subst_var s_x (JStr s_N) e_set_body) (new_with_no_context inp)
  = Val (Some (JArr [JStr s_N; two])).
Proof. vm_compute. reflexivity. Qed.
Example ex_set_subst_syntax :
  subst_var s_x (JStr s_N) e_set_body =
  ECall F_map [EExtract 0%nat (Some [SKey s_arr]);
    ECall F_if [ECall F_eq [EExtract 0%nat None; EConst one];
                EConst (JStr s_N);
                ECall F_set [EConst (JStr s_x); EConst two; ECall F_colon [EConst (JStr s_x)]]]].
Proof. vm_compute. reflexivity. Qed.
Example ex_set_body_literal : var_literal e_set_body = true.
Proof. vm_compute. reflexivity. Qed.

(* (define "m" ^.name (map .arr @m)): the body is expanded at the use site, where ^ is the root *)
Definition e_def_body : expr := ECall F_map [EExtract 0%nat (Some [SKey s_arr]); EMacro s_m].
Definition d_name : expr := EExtract 1%nat (Some [SKey s_name]).
Example ex_define_l :
  eval no_opaque 1%nat (ECall F_define [EConst (JStr s_m); d_name; e_def_body]) (new_with_no_context inp)
  = Val (Some (JArr [JStr s_N; JStr s_N])).
Proof. vm_compute. reflexivity. Qed.
Example ex_define_r :
  eval no_opaque 0%nat (subst_macro s_m d_name e_def_body) (new_with_no_context inp)
  = Val (Some (JArr [JStr s_N; JStr s_N])).
Proof. vm_compute. reflexivity. Qed.
(* the expansion costs fuel on the left only *)
Example ex_define_fuel :
  eval no_opaque 0%nat (ECall F_define [EConst (JStr s_m); d_name; e_def_body]) (new_with_no_context inp)
  = OutOfFuel.
Proof. vm_compute. reflexivity. Qed.

(* (| .name ^) and (| .name ^^): b sees a's value as input, the previous input as parent, twice *)
Example ex_pipe_parent :
  eval no_opaque 0%nat (ECall F_pipe [EExtract 0%nat (Some [SKey s_name]); EExtract 1%nat None]) (new_with_no_context inp)
  = Val (Some inp) /\
  eval no_opaque 0%nat (ECall F_pipe [EExtract 0%nat (Some [SKey s_name]); EExtract 2%nat None]) (new_with_no_context inp)
  = Val (Some inp) /\
  eval no_opaque 0%nat (ECall F_pipe [EExtract 0%nat (Some [SKey s_name]); EExtract 0%nat None]) (new_with_no_context inp)
  = Val (Some (JStr s_N)).
Proof. vm_compute. repeat split. Qed.

(* ---------- why C12_macro_subst needs its two extra hypotheses ---------- *)

(* (1) dynamic scope: a macro already in the context mentions n.
       c  : m := @n            c' : n := 1, m := @n        e = @m
       e under c' is 1; the substituted e (= @m, nothing to replace) under c is nothing. *)
Definition cx1_c : ctx := with_definition (new_with_no_context JNull) s_m (EMacro s_n).
Definition cx1_c' : ctx := with_definition cx1_c s_n (EConst one).
Example cx1_hyps :
  macro_literal (EMacro s_m) = true /\ no_redefine s_n (EMacro s_m) = true /\
  no_macro_ref s_n (EConst one) = true /\ macro_literal (EConst one) = true /\
  ctx_agree_except_def s_n (EConst one) cx1_c cx1_c'.
Proof.
  repeat split.
  intros m Hm. unfold cx1_c'. rewrite get_definition_with_definition, (str_eqb_neq _ _ Hm). reflexivity.
Qed.
Example cx1_left : eval no_opaque 5%nat (EMacro s_m) cx1_c' = Val (Some one).
Proof. vm_compute. reflexivity. Qed.
Example cx1_right : eval no_opaque 5%nat (subst_macro s_n (EConst one) (EMacro s_m)) cx1_c = Val None.
Proof. vm_compute. reflexivity. Qed.

(* (2) shadowing, empty context: (define "n" 1 (define "k" @n (define "n" 2 @k))) is 2 in the
       model (k's body is expanded where n is 2); every textual substitution of 1 for @n that
       reaches into k's body gives 1. *)
Definition cx2_body : expr :=
  ECall F_define [EConst (JStr s_k); EMacro s_n;
    ECall F_define [EConst (JStr s_n); EConst two; EMacro s_k]].
Example cx2_hyps :
  macro_literal cx2_body = true /\ no_redefine s_n cx2_body = false /\
  no_macro_ref s_n (EConst one) = true /\ macro_literal (EConst one) = true.
Proof. vm_compute. repeat split. Qed.
Example cx2_left :
  eval no_opaque 5%nat (ECall F_define [EConst (JStr s_n); EConst one; cx2_body]) (new_with_no_context JNull)
  = Val (Some two).
Proof. vm_compute. reflexivity. Qed.
Example cx2_right :
  eval no_opaque 5%nat (subst_macro s_n (EConst one) cx2_body) (new_with_no_context JNull) = Val (Some one).
Proof. vm_compute. reflexivity. Qed.

(* the statement of S3 without the extra hypotheses is refuted by (1) *)
Theorem C12_macro_subst_unrestricted_false :
  ~ (forall mf n d e c c' r,
       macro_literal e = true -> no_macro_ref n d = true -> macro_literal d = true ->
       ctx_agree_except_def n d c c' ->
       eval no_opaque mf e c' = Val r -> eval no_opaque mf (subst_macro n d e) c = Val r).
Proof.
  intros H. destruct cx1_hyps as (H1 & _ & H3 & H4 & H5).
  pose proof (H 5%nat s_n (EConst one) (EMacro s_m) cx1_c cx1_c' (Some one) H1 H3 H4 H5 cx1_left) as E.
  rewrite cx1_right in E. discriminate E.
Qed.

(* ... and, in the empty context, by (2) *)
Theorem C12_define_subst_shadow_false :
  ~ (forall mf n d body r,
       macro_literal body = true -> no_macro_ref n d = true -> macro_literal d = true ->
       eval no_opaque mf (ECall F_define [EConst (JStr n); d; body]) (new_with_no_context JNull) = Val r ->
       eval no_opaque mf (subst_macro n d body) (new_with_no_context JNull) = Val r).
Proof.
  intros H. destruct cx2_hyps as (H1 & _ & H3 & H4).
  pose proof (H 5%nat s_n (EConst one) cx2_body (Some two) H1 H3 H4 cx2_left) as E.
  rewrite cx2_right in E. discriminate E.
Qed.
End Examples.

(* ================================================================== *)
(* Axiom audit                                                         *)
(* ================================================================== *)
Print Assumptions eval_ECall.
Print Assumptions fuel_mono.
Print Assumptions eval_ext.
Print Assumptions C12_set_unfold.
Print Assumptions C12_define_unfold.
Print Assumptions C12_pipe2.
Print Assumptions C12_var_subst.
Print Assumptions C12_set_is_subst.
Print Assumptions C12_set_is_subst_val.
Print Assumptions C12_macro_subst_gen.
Print Assumptions C12_macro_subst.
Print Assumptions C12_define_is_subst.
Print Assumptions C12_define_is_subst_top.
Print Assumptions C12_macro_subst_conv.
Print Assumptions C12_macro_subst_iff.
Print Assumptions C12_set_shadow.
Print Assumptions C12_define_shadow.
Print Assumptions extract_with_variable.
Print Assumptions extract_with_definition.
Print Assumptions extract_with_result.
Print Assumptions parent_input_with_results.
Print Assumptions Examples.ex_map_set.
Print Assumptions Examples.C12_macro_subst_unrestricted_false.
Print Assumptions Examples.C12_define_subst_shadow_false.
