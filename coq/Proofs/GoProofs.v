(* GoProofs.v — (A) reading from a source without read errors never sets the io flag;
   (B) Master::go on one input under --on-error=ignore is Chain.run over the contexts of the input;
   (C) with no options at all, go prints the values of a well-formed stream, one per line. *)
From Coq Require Import List NArith ZArith Bool Lia.
From Jawk Require Import Base F64 Json Reader JsonParser Stream Ctx Printer Expr Chain ExprParser Go.
From Jawk Require Import Render ReaderLemmas ParserProofs.
Import ListNotations.
Local Open Scope N_scope.

#[local] Arguments N.add : simpl never.
#[local] Arguments N.mul : simpl never.
#[local] Arguments N.sub : simpl never.
#[local] Arguments N.eqb : simpl never.
#[local] Arguments N.ltb : simpl never.
#[local] Arguments N.leb : simpl never.

(* ================= (A) frame lemmas ================= *)
Definition no_eerr (r : reader) : Prop := Forall (fun e => e <> EErr) (rest r).
Definition frame (r r' : reader) : Prop := no_eerr r -> no_eerr r' /\ io r' = io r.

Lemma frame_refl r : frame r r.
Proof. intros H. auto. Qed.

Lemma frame_trans r1 r2 r3 : frame r1 r2 -> frame r2 r3 -> frame r1 r3.
Proof. intros H12 H23 H1. destruct (H12 H1) as [H2 E2]. destruct (H23 H2) as [H3 E3]. split; congruence. Qed.

Lemma next_frame r : frame r (snd (next r)).
Proof.
  unfold frame, no_eerr, next. intros H. destruct (eof r); [auto|].
  destruct (rest r) as [|[b|] t]; cbn [snd rest io].
  - auto.
  - inversion H; auto.
  - inversion H; congruence.
Qed.

Lemma peek_frame r : frame r (snd (peek r)).
Proof. unfold peek. destruct (cur r); [apply frame_refl|apply next_frame]. Qed.

(* saturate with the frame facts collected so far *)
Ltac fr_sat :=
  repeat match goal with
  | H : frame ?a ?b, Ha : no_eerr ?a |- _ =>
      let H1 := fresh in let H2 := fresh in destruct (H Ha) as [H1 H2]; clear H
  end.
Ltac fr_done := let H0 := fresh in intro H0; fr_sat; split; [assumption | congruence].

(* scrutinee at the head of a term *)
Ltac hs t :=
  lazymatch t with
  | (match ?x with _ => _ end) => match x with | _ => hs x | _ => x end
  | snd ?x => hs x
  | fst ?x => hs x
  end.

Ltac fr_norm := cbv beta iota zeta; cbn [snd fst] in *.

Ltac fr_pair t lem :=
  let H := fresh "F" in pose proof lem as H; destruct t as [? ?]; fr_norm.

Ltac fr_op :=
  match goal with
  | |- context [peek ?r] => fr_pair (peek r) (peek_frame r)
  | |- context [next ?r] => fr_pair (next r) (next_frame r)
  end.

Ltac fr_case :=
  lazymatch goal with
  | |- frame _ ?t => let x := hs t in destruct x; fr_norm
  end.

Lemma eat_ws_frame fuel : forall r, frame r (eat_ws fuel r).
Proof.
  induction fuel as [|f IH]; intros r; cbn [eat_ws]; [apply frame_refl|].
  fr_op. fr_case; [|fr_done]. fr_case; [|fr_done]. fr_op.
  match goal with |- frame _ (eat_ws f ?x) => pose proof (IH x) end. fr_done.
Qed.

Lemma eat_whitespace_frame r : frame r (eat_whitespace r).
Proof. apply eat_ws_frame. Qed.

Lemma read_digits_f_frame fuel : forall acc r, frame r (snd (read_digits_f fuel acc r)).
Proof.
  induction fuel as [|f IH]; intros acc r; cbn [read_digits_f]; [apply frame_refl|].
  fr_op. fr_case; [|fr_done]. fr_case; [|fr_done]. fr_op.
  match goal with |- frame _ (snd (read_digits_f f ?a ?x)) => pose proof (IH a x) end. fr_done.
Qed.

Lemma read_digits_frame acc r : frame r (snd (read_digits acc r)).
Proof. apply read_digits_f_frame. Qed.

Lemma read_word_frame w : forall r, frame r (snd (read_word w r)).
Proof.
  induction w as [|e w IH]; intros r; cbn [read_word].
  - fr_op. fr_done.
  - fr_op. fr_case; [|fr_done]. fr_case; [|fr_done].
    match goal with |- frame _ (snd (read_word w ?x)) => pose proof (IH x) end. fr_done.
Qed.

Lemma read_hex4_frame n : forall acc r, frame r (snd (read_hex4 n acc r)).
Proof.
  induction n as [|n IH]; intros acc r; cbn [read_hex4]; [apply frame_refl|].
  fr_op. fr_case; [|fr_done]. fr_case; [|fr_done].
  match goal with |- frame _ (snd (read_hex4 n ?a ?x)) => pose proof (IH a x) end. fr_done.
Qed.

Lemma read_string_f_frame fuel : forall acc r, frame r (snd (read_string_f fuel acc r)).
Proof.
  induction fuel as [|f IH]; intros acc r; cbn [read_string_f]; [apply frame_refl|].
  fr_op. fr_case; [|fr_done]. fr_case.
  - fr_op. fr_case; fr_done.
  - fr_case.
    + fr_op. fr_case; [|fr_done]. fr_case.
      * match goal with |- context [read_hex4 ?n ?a ?x] =>
          fr_pair (read_hex4 n a x) (read_hex4_frame n a x) end.
        fr_case; [|fr_done]. fr_case; [|fr_done].
        match goal with |- frame _ (snd (read_string_f f ?a ?x)) => pose proof (IH a x) end. fr_done.
      * fr_case; [|fr_done].
        match goal with |- frame _ (snd (read_string_f f ?a ?x)) => pose proof (IH a x) end. fr_done.
    + match goal with |- frame _ (snd (read_string_f f ?a ?x)) => pose proof (IH a x) end. fr_done.
Qed.

Lemma read_string_frame r : frame r (snd (read_string r)).
Proof. apply read_string_f_frame. Qed.

Ltac fr_op2 :=
  match goal with
  | |- context [next ?r] => is_var r; fr_pair (next r) (next_frame r)
  | |- context [peek ?r] => is_var r; fr_pair (peek r) (peek_frame r)
  | |- context [eat_whitespace ?r] =>
      is_var r;
      let H := fresh "F" in pose proof (eat_whitespace_frame r) as H;
      let r' := fresh "r" in set (r' := eat_whitespace r) in *; clearbody r'; fr_norm
  | |- context [read_digits ?a ?r] => is_var r; fr_pair (read_digits a r) (read_digits_frame a r)
  | |- context [read_word ?w ?r] => is_var r; fr_pair (read_word w r) (read_word_frame w r)
  | |- context [read_string ?r] => is_var r; fr_pair (read_string r) (read_string_frame r)
  end.

Lemma read_number_frame r : frame r (snd (read_number r)).
Proof. unfold read_number. repeat first [fr_op2 | fr_case]; fr_done. Qed.

Ltac fr_op3 :=
  match goal with
  | |- context [read_number ?r] => is_var r; fr_pair (read_number r) (read_number_frame r)
  | IH : forall r : reader, frame r (snd (parse_value ?f r)) |- context [parse_value ?f ?r] =>
      is_var r; fr_pair (parse_value f r) (IH r)
  | IH : forall acc (r : reader), frame r (snd (parse_items ?f acc r)) |- context [parse_items ?f ?a ?r] =>
      is_var r; fr_pair (parse_items f a r) (IH a r)
  | IH : forall acc (r : reader), frame r (snd (parse_members ?f acc r)) |- context [parse_members ?f ?a ?r] =>
      is_var r; fr_pair (parse_members f a r) (IH a r)
  end.
Ltac fr_auto := fr_norm; repeat first [fr_op2 | fr_op3 | fr_case]; fr_done.

Lemma parse_frames : forall fuel,
  (forall r, frame r (snd (parse_value fuel r))) /\
  (forall acc r, frame r (snd (parse_items fuel acc r))) /\
  (forall acc r, frame r (snd (parse_members fuel acc r))).
Proof.
  induction fuel as [|f (IHv & IHi & IHm)].
  - split; [|split]; intros; apply frame_refl.
  - split; [|split].
    + intros r. rewrite parse_value_S. fr_auto.
    + intros acc r. rewrite parse_items_S. fr_auto.
    + intros acc r. rewrite parse_members_S. fr_auto.
Qed.

Lemma parse_value_frame fuel r : frame r (snd (parse_value fuel r)).
Proof. apply parse_frames. Qed.
Lemma parse_items_frame fuel acc r : frame r (snd (parse_items fuel acc r)).
Proof. apply parse_frames. Qed.
Lemma parse_members_frame fuel acc r : frame r (snd (parse_members fuel acc r)).
Proof. apply parse_frames. Qed.

Lemma next_json_value_frame r : frame r (snd (next_json_value r)).
Proof. apply parse_value_frame. Qed.

(* ================= (A') every parser function moves the reader by `next` steps only ================= *)
Definition step (r : reader) : reader := snd (next r).
Definition advances (r r' : reader) : Prop := exists k, r' = Nat.iter k step r.

Lemma advances_refl r : advances r r.
Proof. exists 0%nat. reflexivity. Qed.

Lemma iter_add {A} (f : A -> A) a b x : Nat.iter (a + b) f x = Nat.iter a f (Nat.iter b f x).
Proof. induction a as [|a IH]; simpl; [reflexivity|]. f_equal. exact IH. Qed.

Lemma advances_trans r1 r2 r3 : advances r1 r2 -> advances r2 r3 -> advances r1 r3.
Proof. intros [a ->] [b ->]. exists (b + a)%nat. symmetry. apply iter_add. Qed.

Lemma advances_step r : advances r (step r).
Proof. exists 1%nat. reflexivity. Qed.

Lemma advances_inv (P : reader -> Prop) : (forall r, P r -> P (step r)) ->
  forall r r', advances r r' -> P r -> P r'.
Proof.
  intros Hs r r' [k ->] H. induction k as [|k IH]; [exact H|]. cbn [Nat.iter]. apply Hs, IH.
Qed.

Lemma next_advances r : advances r (snd (next r)).
Proof. apply advances_step. Qed.

Lemma peek_advances r : advances r (snd (peek r)).
Proof. unfold peek. destruct (cur r); [apply advances_refl|apply advances_step]. Qed.

Ltac ad_done :=
  repeat first [assumption | apply advances_refl | (eapply advances_trans; [|eassumption])].

Ltac ad_case :=
  lazymatch goal with
  | |- advances _ ?t => let x := hs t in destruct x; fr_norm
  end.

Ltac ad_op :=
  match goal with
  | |- context [next ?r] => is_var r; fr_pair (next r) (next_advances r)
  | |- context [peek ?r] => is_var r; fr_pair (peek r) (peek_advances r)
  end.

Lemma eat_ws_advances fuel : forall r, advances r (eat_ws fuel r).
Proof.
  induction fuel as [|f IH]; intros r; cbn [eat_ws]; [apply advances_refl|].
  ad_op. ad_case; [|ad_done]. ad_case; [|ad_done]. ad_op.
  match goal with |- advances _ (eat_ws f ?x) => pose proof (IH x) end. ad_done.
Qed.

Lemma eat_whitespace_advances r : advances r (eat_whitespace r).
Proof. apply eat_ws_advances. Qed.

Lemma read_digits_f_advances fuel : forall acc r, advances r (snd (read_digits_f fuel acc r)).
Proof.
  induction fuel as [|f IH]; intros acc r; cbn [read_digits_f]; [apply advances_refl|].
  ad_op. ad_case; [|ad_done]. ad_case; [|ad_done]. ad_op.
  match goal with |- advances _ (snd (read_digits_f f ?a ?x)) => pose proof (IH a x) end. ad_done.
Qed.

Lemma read_digits_advances acc r : advances r (snd (read_digits acc r)).
Proof. apply read_digits_f_advances. Qed.

Lemma read_word_advances w : forall r, advances r (snd (read_word w r)).
Proof.
  induction w as [|e w IH]; intros r; cbn [read_word].
  - ad_op. ad_done.
  - ad_op. ad_case; [|ad_done]. ad_case; [|ad_done].
    match goal with |- advances _ (snd (read_word w ?x)) => pose proof (IH x) end. ad_done.
Qed.

Lemma read_hex4_advances n : forall acc r, advances r (snd (read_hex4 n acc r)).
Proof.
  induction n as [|n IH]; intros acc r; cbn [read_hex4]; [apply advances_refl|].
  ad_op. ad_case; [|ad_done]. ad_case; [|ad_done].
  match goal with |- advances _ (snd (read_hex4 n ?a ?x)) => pose proof (IH a x) end. ad_done.
Qed.

Lemma read_string_f_advances fuel : forall acc r, advances r (snd (read_string_f fuel acc r)).
Proof.
  induction fuel as [|f IH]; intros acc r; cbn [read_string_f]; [apply advances_refl|].
  ad_op. ad_case; [|ad_done]. ad_case.
  - ad_op. ad_case; ad_done.
  - ad_case.
    + ad_op. ad_case; [|ad_done]. ad_case.
      * match goal with |- context [read_hex4 ?n ?a ?x] =>
          fr_pair (read_hex4 n a x) (read_hex4_advances n a x) end.
        ad_case; [|ad_done]. ad_case; [|ad_done].
        match goal with |- advances _ (snd (read_string_f f ?a ?x)) => pose proof (IH a x) end. ad_done.
      * ad_case; [|ad_done].
        match goal with |- advances _ (snd (read_string_f f ?a ?x)) => pose proof (IH a x) end. ad_done.
    + match goal with |- advances _ (snd (read_string_f f ?a ?x)) => pose proof (IH a x) end. ad_done.
Qed.

Lemma read_string_advances r : advances r (snd (read_string r)).
Proof. apply read_string_f_advances. Qed.

Ltac ad_op2 :=
  match goal with
  | |- context [next ?r] => is_var r; fr_pair (next r) (next_advances r)
  | |- context [peek ?r] => is_var r; fr_pair (peek r) (peek_advances r)
  | |- context [eat_whitespace ?r] =>
      is_var r;
      let H := fresh "A" in pose proof (eat_whitespace_advances r) as H;
      let r' := fresh "r" in set (r' := eat_whitespace r) in *; clearbody r'; fr_norm
  | |- context [read_digits ?a ?r] => is_var r; fr_pair (read_digits a r) (read_digits_advances a r)
  | |- context [read_word ?w ?r] => is_var r; fr_pair (read_word w r) (read_word_advances w r)
  | |- context [read_string ?r] => is_var r; fr_pair (read_string r) (read_string_advances r)
  end.

Lemma read_number_advances r : advances r (snd (read_number r)).
Proof. unfold read_number. repeat first [ad_op2 | ad_case]; ad_done. Qed.

Ltac ad_op3 :=
  match goal with
  | |- context [read_number ?r] => is_var r; fr_pair (read_number r) (read_number_advances r)
  | IH : forall r : reader, advances r (snd (parse_value ?f r)) |- context [parse_value ?f ?r] =>
      is_var r; fr_pair (parse_value f r) (IH r)
  | IH : forall acc (r : reader), advances r (snd (parse_items ?f acc r)) |- context [parse_items ?f ?a ?r] =>
      is_var r; fr_pair (parse_items f a r) (IH a r)
  | IH : forall acc (r : reader), advances r (snd (parse_members ?f acc r)) |- context [parse_members ?f ?a ?r] =>
      is_var r; fr_pair (parse_members f a r) (IH a r)
  end.

Lemma parse_advances : forall fuel,
  (forall r, advances r (snd (parse_value fuel r))) /\
  (forall acc r, advances r (snd (parse_items fuel acc r))) /\
  (forall acc r, advances r (snd (parse_members fuel acc r))).
Proof.
  induction fuel as [|f (IHv & IHi & IHm)].
  - split; [|split]; intros; apply advances_refl.
  - split; [|split].
    + intros r. rewrite parse_value_S. fr_norm. repeat first [ad_op2 | ad_op3 | ad_case]; ad_done.
    + intros acc r. rewrite parse_items_S. fr_norm. repeat first [ad_op2 | ad_op3 | ad_case]; ad_done.
    + intros acc r. rewrite parse_members_S. fr_norm. repeat first [ad_op2 | ad_op3 | ad_case]; ad_done.
Qed.

Lemma parse_value_advances fuel r : advances r (snd (parse_value fuel r)).
Proof. apply parse_advances. Qed.
Lemma parse_items_advances fuel acc r : advances r (snd (parse_items fuel acc r)).
Proof. apply parse_advances. Qed.
Lemma parse_members_advances fuel acc r : advances r (snd (parse_members fuel acc r)).
Proof. apply parse_advances. Qed.
Lemma next_json_value_advances r : advances r (snd (next_json_value r)).
Proof. apply parse_value_advances. Qed.

(* the frame property is one instance *)
Lemma step_frame r : frame r (step r).
Proof. apply next_frame. Qed.

Lemma advances_frame r r' : advances r r' -> frame r r'.
Proof.
  intros [k ->]. induction k as [|k IH]; [apply frame_refl|]. cbn [Nat.iter].
  eapply frame_trans; [exact IH|apply step_frame].
Qed.

(* ================= fuel: every loop consumes input ================= *)
(* what is left to read: 0 at end of input, else one more than the pending events *)
Definition m (r : reader) : nat := if eof r then 0%nat else S (length (rest r)).
Definition inv (r : reader) : Prop := eof r = true -> cur r = None.
Definition mono (r r' : reader) : Prop := inv r -> inv r' /\ (m r' <= m r)%nat.
Definition strict (r r' : reader) : Prop := inv r -> eof r = false -> (m r' < m r)%nat.

Lemma mono_refl r : mono r r.
Proof. intros H. auto. Qed.

Lemma next_mono r : mono r (snd (next r)).
Proof.
  unfold mono, inv, m, next. intros H. destruct (eof r) eqn:E; [cbn [snd]; rewrite ?E; auto|].
  destruct (rest r) as [|[b|] t]; cbn [snd rest eof cur length]; split; auto; try lia; discriminate.
Qed.

Lemma next_strict r : strict r (snd (next r)).
Proof.
  unfold strict, inv, m, next. intros H E. rewrite E.
  destruct (rest r) as [|[b|] t]; cbn [snd rest eof cur length]; lia.
Qed.

Lemma peek_mono r : mono r (snd (peek r)).
Proof. unfold peek. destruct (cur r); [apply mono_refl|apply next_mono]. Qed.

Lemma peek_live r : inv r ->
  match fst (peek r) with Some b => eof (snd (peek r)) = false /\ cur (snd (peek r)) = Some b | None => True end.
Proof.
  unfold inv, peek, next. intros H. destruct (cur r) as [b|] eqn:Ec; cbn [fst snd].
  - split; [|assumption]. destruct (eof r); [|reflexivity]. specialize (H eq_refl). discriminate.
  - destruct (eof r); cbn [fst]; [exact I|].
    destruct (rest r) as [|[b|] t]; cbn [fst snd eof cur]; auto.
Qed.

Lemma cur_live r b : inv r -> cur r = Some b -> eof r = false.
Proof. unfold inv. intros H Hc. destruct (eof r); [|reflexivity]. specialize (H eq_refl). congruence. Qed.

Ltac mn_sat :=
  repeat match goal with
  | H : mono ?a ?b, Ha : inv ?a |- _ =>
      let H1 := fresh in let H2 := fresh in destruct (H Ha) as [H1 H2]; clear H
  | H : strict ?a ?b, Ha : inv ?a, He : eof ?a = false |- _ => specialize (H Ha He)
  | H : inv ?a -> eof ?b = false /\ cur ?b = Some ?c, Ha : inv ?a |- _ =>
      let H1 := fresh in let H2 := fresh in destruct (H Ha) as [H1 H2]; clear H
  end.
Ltac mn_done := let H0 := fresh in intro H0; mn_sat; split; [assumption | lia].

Ltac mn_pair t lem :=
  let H := fresh "M" in pose proof lem as H; destruct t as [? ?]; fr_norm.
Ltac mn_pair2 t lem1 lem2 :=
  let H1 := fresh "M" in let H2 := fresh "M" in
  pose proof lem1 as H1; pose proof lem2 as H2; destruct t as [? ?]; fr_norm.

Ltac mn_op :=
  match goal with
  | |- context [next ?r] => is_var r; mn_pair2 (next r) (next_mono r) (next_strict r)
  | |- context [peek ?r] => is_var r; mn_pair2 (peek r) (peek_mono r) (peek_live r)
  end.

Ltac mn_case :=
  lazymatch goal with
  | |- mono _ ?t => let x := hs t in destruct x; fr_norm
  end.

Lemma eat_ws_mono fuel : forall r, mono r (eat_ws fuel r).
Proof.
  induction fuel as [|f IH]; intros r; cbn [eat_ws]; [apply mono_refl|].
  mn_op. mn_case; [|mn_done]. mn_case; [|mn_done]. mn_op.
  match goal with |- mono _ (eat_ws f ?x) => pose proof (IH x) end. mn_done.
Qed.

Lemma eat_whitespace_mono r : mono r (eat_whitespace r).
Proof. apply eat_ws_mono. Qed.

Lemma read_digits_f_mono fuel : forall acc r, mono r (snd (read_digits_f fuel acc r)).
Proof.
  induction fuel as [|f IH]; intros acc r; cbn [read_digits_f]; [apply mono_refl|].
  mn_op. mn_case; [|mn_done]. mn_case; [|mn_done]. mn_op.
  match goal with |- mono _ (snd (read_digits_f f ?a ?x)) => pose proof (IH a x) end. mn_done.
Qed.

Lemma read_digits_mono acc r : mono r (snd (read_digits acc r)).
Proof. apply read_digits_f_mono. Qed.

Lemma read_word_mono w : forall r, mono r (snd (read_word w r)).
Proof.
  induction w as [|e w IH]; intros r; cbn [read_word].
  - mn_op. mn_done.
  - mn_op. mn_case; [|mn_done]. mn_case; [|mn_done].
    match goal with |- mono _ (snd (read_word w ?x)) => pose proof (IH x) end. mn_done.
Qed.

Lemma read_word_strict w r : strict r (snd (read_word w r)).
Proof.
  intros Hi He. destruct w as [|e w]; cbn [read_word].
  - mn_op. mn_sat. lia.
  - mn_op. destruct o as [c|]; fr_norm; [|mn_sat; lia].
    destruct (c =? e); fr_norm; [|mn_sat; lia].
    pose proof (read_word_mono w r0). mn_sat. lia.
Qed.

Lemma read_hex4_mono n : forall acc r, mono r (snd (read_hex4 n acc r)).
Proof.
  induction n as [|n IH]; intros acc r; cbn [read_hex4]; [apply mono_refl|].
  mn_op. mn_case; [|mn_done]. mn_case; [|mn_done].
  match goal with |- mono _ (snd (read_hex4 n ?a ?x)) => pose proof (IH a x) end. mn_done.
Qed.

Lemma read_string_f_mono fuel : forall acc r, mono r (snd (read_string_f fuel acc r)).
Proof.
  induction fuel as [|f IH]; intros acc r; cbn [read_string_f]; [apply mono_refl|].
  mn_op. mn_case; [|mn_done]. mn_case.
  - mn_op. mn_case; mn_done.
  - mn_case.
    + mn_op. mn_case; [|mn_done]. mn_case.
      * match goal with |- context [read_hex4 ?n ?a ?x] =>
          mn_pair (read_hex4 n a x) (read_hex4_mono n a x) end.
        mn_case; [|mn_done]. mn_case; [|mn_done].
        match goal with |- mono _ (snd (read_string_f f ?a ?x)) => pose proof (IH a x) end. mn_done.
      * mn_case; [|mn_done].
        match goal with |- mono _ (snd (read_string_f f ?a ?x)) => pose proof (IH a x) end. mn_done.
    + match goal with |- mono _ (snd (read_string_f f ?a ?x)) => pose proof (IH a x) end. mn_done.
Qed.

Lemma read_string_mono r : mono r (snd (read_string r)).
Proof. apply read_string_f_mono. Qed.

Lemma read_string_strict r : strict r (snd (read_string r)).
Proof.
  intros Hi He. unfold read_string. cbn [read_string_f].
  pose proof (next_mono r) as M1. pose proof (next_strict r) as M2.
  destruct (next r) as [o r1]. fr_norm. mn_sat.
  destruct o as [c|]; fr_norm; [|lia].
  match goal with |- (m (snd ?t) < _)%nat => assert (Hm : (m (snd t) <= m r1)%nat) end; [|lia].
  destruct (c =? 34); fr_norm.
  - pose proof (next_mono r1). destruct (utf8_decode []); fr_norm; mn_sat; lia.
  - destruct (c =? 92); fr_norm.
    + pose proof (next_mono r1) as M3. destruct (next r1) as [o2 r2]. fr_norm. mn_sat.
      destruct o2 as [e|]; fr_norm; [|lia].
      destruct (e =? 117); fr_norm.
      * pose proof (read_hex4_mono 4 0 r2) as M4. destruct (read_hex4 4 0 r2) as [o3 r3]. fr_norm. mn_sat.
        destruct o3 as [u|]; fr_norm; [|lia]. destruct (is_scalar u); fr_norm; [|lia].
        match goal with |- (m (snd (read_string_f ?f ?a ?x)) <= _)%nat =>
          pose proof (read_string_f_mono f a x) end. mn_sat. lia.
      * destruct (assoc_N e escape_table); fr_norm; [|lia].
        match goal with |- (m (snd (read_string_f ?f ?a ?x)) <= _)%nat =>
          pose proof (read_string_f_mono f a x) end. mn_sat. lia.
    + match goal with |- (m (snd (read_string_f ?f ?a ?x)) <= _)%nat =>
        pose proof (read_string_f_mono f a x) end. mn_sat. lia.
Qed.

(* ----- numbers, values: monotone, strict, never out of fuel ----- *)
Ltac mn_pair3 t lem1 lem2 lem3 :=
  let H1 := fresh "M" in let H2 := fresh "M" in let H3 := fresh "M" in
  pose proof lem1 as H1; pose proof lem2 as H2; pose proof lem3 as H3; destruct t as [? ?]; fr_norm.

(* head scrutinee of the goals we meet *)
Ltac g_case :=
  lazymatch goal with
  | |- mono _ ?t => let x := hs t in destruct x eqn:?; try subst; fr_norm
  | |- ?t <> PFuel => let x := hs t in destruct x eqn:?; try subst; fr_norm
  | |- ?t = PEof \/ _ => let x := hs t in destruct x eqn:?; try subst; fr_norm
  end.

Lemma next_rest r :
  (length (rest (snd (next r))) <= length (rest r))%nat /\
  match fst (next r) with
  | Some _ => (length (rest (snd (next r))) < length (rest r))%nat
  | None => True end.
Proof.
  unfold next. destruct (eof r); cbn [fst snd]; [auto|].
  destruct (rest r) as [|[b|] t]; cbn [fst snd rest length]; split; auto; lia.
Qed.

Lemma read_hex4_rest n : forall acc r,
  (length (rest (snd (read_hex4 n acc r))) <= length (rest r))%nat.
Proof.
  induction n as [|n IH]; intros acc r; cbn [read_hex4]; [cbn [snd]; lia|].
  pose proof (next_rest r) as [H _]. destruct (next r) as [[c|] r1]; cbn [fst snd] in *; [|lia].
  destruct (hex_val c); cbn [snd]; [|lia]. specialize (IH (acc * 16 + n0) r1). lia.
Qed.

Lemma read_string_f_nofuel fuel : forall acc r,
  (length (rest r) < fuel)%nat -> fst (read_string_f fuel acc r) <> PFuel.
Proof.
  induction fuel as [|f IH]; intros acc r Hf; [lia|]. cbn [read_string_f].
  pose proof (next_rest r) as [H1 H2]. destruct (next r) as [[c|] r1]; fr_norm; [|discriminate].
  destruct (c =? 34); fr_norm.
  { destruct (utf8_decode acc); discriminate. }
  destruct (c =? 92); fr_norm; [|apply IH; lia].
  pose proof (next_rest r1) as [H3 H4]. destruct (next r1) as [[e|] r2]; fr_norm; [|discriminate].
  destruct (e =? 117); fr_norm.
  - pose proof (read_hex4_rest 4 0 r2) as H5. destruct (read_hex4 4 0 r2) as [[u|] r3]; fr_norm; [|discriminate].
    destruct (is_scalar u); fr_norm; [apply IH; lia|discriminate].
  - destruct (assoc_N e escape_table); fr_norm; [apply IH; lia|discriminate].
Qed.

Lemma read_string_nofuel r : fst (read_string r) <> PFuel.
Proof. apply read_string_f_nofuel. lia. Qed.

Lemma classify_nofuel a b t : classify_number a b t <> PFuel.
Proof.
  unfold classify_number, parse_to_double.
  repeat match goal with |- context [match ?x with _ => _ end] => destruct x end; discriminate.
Qed.

Lemma read_number_nofuel r : fst (read_number r) <> PFuel.
Proof.
  unfold read_number. repeat g_case; first [discriminate | apply classify_nofuel].
Qed.

Ltac mn_op2 :=
  match goal with
  | |- context [next ?r] => is_var r; mn_pair2 (next r) (next_mono r) (next_strict r)
  | |- context [peek ?r] => is_var r; mn_pair2 (peek r) (peek_mono r) (peek_live r)
  | |- context [eat_whitespace ?r] =>
      is_var r;
      let H := fresh "M" in pose proof (eat_whitespace_mono r) as H;
      let r' := fresh "r" in set (r' := eat_whitespace r) in *; clearbody r'; fr_norm
  | |- context [read_digits ?a ?r] => is_var r; mn_pair (read_digits a r) (read_digits_mono a r)
  | |- context [read_word ?w ?r] =>
      is_var r; mn_pair2 (read_word w r) (read_word_mono w r) (read_word_strict w r)
  | |- context [read_string ?r] =>
      is_var r; mn_pair3 (read_string r) (read_string_mono r) (read_string_strict r) (read_string_nofuel r)
  end.

Lemma read_number_mono r : mono r (snd (read_number r)).
Proof. unfold read_number. repeat first [mn_op2 | g_case]; mn_done. Qed.

Lemma rn_frac_mono neg chars r : mono r (snd (rn_frac neg chars r)).
Proof. unfold rn_frac, rn_exp. repeat first [mn_op2 | g_case]; mn_done. Qed.

Lemma read_digits_f_S f acc r : read_digits_f (S f) acc r =
    match peek r with
    | (Some b, r') => if is_digit b then read_digits_f f (acc ++ [b]) (snd (next r')) else (acc, r')
    | (None, r') => (acc, r')
    end.
Proof. reflexivity. Qed.

Lemma read_digits_f_strict f acc r b : inv r -> cur r = Some b -> is_digit b = true ->
  (m (snd (read_digits_f (S f) acc r)) < m r)%nat.
Proof.
  intros Hi Hc Hd. pose proof (cur_live r b Hi Hc) as He.
  rewrite read_digits_f_S. unfold peek. rewrite Hc. cbv beta iota zeta. rewrite Hd.
  pose proof (next_mono r) as M1. pose proof (next_strict r) as M2.
  pose proof (read_digits_f_mono f (acc ++ [b]) (snd (next r))) as M3. mn_sat. lia.
Qed.

Lemma read_number_strict r : inv r -> forall b, cur r = Some b ->
  ((b =? 45) || is_digit b) = true -> (m (snd (read_number r)) < m r)%nat.
Proof.
  intros Hi b Hc Hd. pose proof (cur_live r b Hi Hc) as He.
  rewrite read_number_unf. unfold peek. rewrite Hc. cbv beta iota zeta. cbn [is_b].
  destruct (b =? 45) eqn:E45; fr_norm.
  - mn_op2. unfold rn_tail.
    match goal with |- context [read_digits ?a ?x] => mn_pair (read_digits a x) (read_digits_mono a x) end.
    destruct o; fr_norm; [|mn_sat; lia].
    match goal with |- context [rn_frac ?n ?a ?x] => pose proof (rn_frac_mono n a x) end.
    mn_sat. lia.
  - cbn [orb] in Hd. unfold rn_tail, read_digits.
    pose proof (read_digits_f_strict (S (length (rest r))) [] r b Hi Hc Hd) as M1.
    pose proof (read_digits_f_mono (S (S (length (rest r)))) [] r) as M2.
    destruct (read_digits_f (S (S (length (rest r)))) [] r) as [chars r1]. fr_norm.
    pose proof (rn_frac_mono false chars r1). mn_sat. lia.
Qed.

Ltac mn_op3 :=
  match goal with
  | |- context [read_number ?r] =>
      is_var r; mn_pair3 (read_number r) (read_number_mono r) (read_number_strict r) (read_number_nofuel r)
  | IH : forall r : reader, mono r (snd (parse_value ?f r)) |- context [parse_value ?f ?r] =>
      is_var r; mn_pair (parse_value f r) (IH r)
  | IH : forall acc (r : reader), mono r (snd (parse_items ?f acc r)) |- context [parse_items ?f ?a ?r] =>
      is_var r; mn_pair (parse_items f a r) (IH a r)
  | IH : forall acc (r : reader), mono r (snd (parse_members ?f acc r)) |- context [parse_members ?f ?a ?r] =>
      is_var r; mn_pair (parse_members f a r) (IH a r)
  end.

Lemma parse_monos : forall fuel,
  (forall r, mono r (snd (parse_value fuel r))) /\
  (forall acc r, mono r (snd (parse_items fuel acc r))) /\
  (forall acc r, mono r (snd (parse_members fuel acc r))).
Proof.
  induction fuel as [|f (IHv & IHi & IHm)].
  - split; [|split]; intros; apply mono_refl.
  - split; [|split].
    + intros r. rewrite parse_value_S. fr_norm. repeat first [mn_op2 | mn_op3 | g_case]; mn_done.
    + intros acc r. rewrite parse_items_S. fr_norm. repeat first [mn_op2 | mn_op3 | g_case]; mn_done.
    + intros acc r. rewrite parse_members_S. fr_norm. repeat first [mn_op2 | mn_op3 | g_case]; mn_done.
Qed.

Lemma parse_value_mono fuel r : mono r (snd (parse_value fuel r)).
Proof. apply parse_monos. Qed.
Lemma parse_items_mono fuel acc r : mono r (snd (parse_items fuel acc r)).
Proof. apply parse_monos. Qed.
Lemma parse_members_mono fuel acc r : mono r (snd (parse_members fuel acc r)).
Proof. apply parse_monos. Qed.

(* ================= (B) go and run under --on-error=ignore ================= *)
Lemma emit_app cf p nt a b : emit cf p nt (a ++ b) = emit cf p nt a ++ emit cf p nt b.
Proof. apply map_app. Qed.

Lemma no_eerr_mk evs : Forall (fun e => e <> EErr) evs -> no_eerr (mk_reader evs).
Proof. intros H. exact H. Qed.

Lemma next_json_value_clean r res r1 : no_eerr r -> io r = false ->
  next_json_value r = (res, r1) -> no_eerr r1 /\ io r1 = false.
Proof.
  intros Hn Hio E. pose proof (next_json_value_frame r Hn) as [H1 H2]. rewrite E in H1, H2.
  cbn [snd] in H1, H2. split; congruence.
Qed.

Section Core.
Variables (cf : cfg) (p : printer) (sts : list stage) (nt : nat).
Hypothesis Hign : c_on_error cf = OnIgnore.

(* the events of read_input followed by the completion events are the events of Chain.run over the
   contexts read by the pipeline-free loop; no error is reported *)
Lemma read_input_run : forall fuel r fname ss idx infile,
  no_eerr r -> io r = false ->
  snd (read_ctxs fuel (c_only_objs cf) r fname idx infile) = false ->
  exists ss' o idx' r',
    read_input cf p sts nt fuel r fname ss idx infile = (ss', o, idx', None, r') /\
    o ++ emit cf p nt (complete expr get sts ss') =
    emit cf p nt (run expr get sts ss (fst (fst (read_ctxs fuel (c_only_objs cf) r fname idx infile)))).
Proof.
  induction fuel as [|f IH]; intros r fname ss idx infile Hn Hio Hb.
  - cbn in Hb. discriminate.
  - cbn [read_input read_ctxs] in *. cbv zeta in *.
    destruct (next_json_value r) as [res r1] eqn:E.
    destruct (next_json_value_clean r res r1 Hn Hio E) as [Hn1 Hio1].
    rewrite Hio1 in *.
    destruct res as [v| | |].
    + (* a value *)
      destruct (c_only_objs cf && negb (is_container v)).
      * apply IH; assumption.
      * set (c := new_with_input v _) in *.
        destruct (read_ctxs f (c_only_objs cf) r1 fname (idx + 1) (infile + 1)) as [[cs e] b] eqn:Ec.
        cbn [fst snd] in *. cbn [run].
        destruct (process expr get sts ss c) as [[ss1 o] d].
        destruct d.
        -- destruct (IH r1 fname ss1 (idx + 1) (infile + 1) Hn1 Hio1) as (ss2 & o2 & idx2 & r2 & E2 & Hev).
           { rewrite Ec. exact Hb. }
           rewrite E2. rewrite Ec in Hev. cbn [fst] in Hev.
           exists ss2, (emit cf p nt o ++ o2), idx2, r2. split; [reflexivity|].
           rewrite <- app_assoc, Hev, emit_app. reflexivity.
        -- exists ss1, (emit cf p nt o), idx, r1. split; [reflexivity|].
           rewrite emit_app. reflexivity.
    + (* end of input *)
      exists ss, [], idx, r1. split; reflexivity.
    + (* a recoverable error: ignored *)
      rewrite Hign.
      destruct (read_ctxs f (c_only_objs cf) r1 fname idx infile) as [[cs e] b] eqn:Ec.
      cbn [fst snd] in *.
      destruct (IH r1 fname ss idx infile Hn1 Hio1) as (ss2 & o2 & idx2 & r2 & E2 & Hev).
      { rewrite Ec. exact Hb. }
      rewrite E2. rewrite Ec in Hev. cbn [fst] in Hev.
      exists ss2, o2, idx2, r2. split; [reflexivity|exact Hev].
    + cbn in Hb. discriminate.
Qed.
End Core.

(* a successful or failed parse consumes input *)
Ltac mn_sat2 :=
  mn_sat;
  repeat match goal with
  | H : inv ?a -> forall b, cur ?a = Some b -> _ = true -> _,
    Ha : inv ?a, Hc : cur ?a = Some ?b, E : (_ || _) = true |- _ => specialize (H Ha b Hc E)
  end.

Ltac mn_op4 f :=
  match goal with
  | |- context [read_number ?r] =>
      is_var r; mn_pair3 (read_number r) (read_number_mono r) (read_number_strict r) (read_number_nofuel r)
  | |- context [parse_items f ?a ?r] => is_var r; mn_pair (parse_items f a r) (parse_items_mono f a r)
  | |- context [parse_members f ?a ?r] => is_var r; mn_pair (parse_members f a r) (parse_members_mono f a r)
  end.

Lemma parse_value_strict fuel r : inv r ->
  fst (parse_value fuel r) = PEof \/ fst (parse_value fuel r) = PFuel \/
  (m (snd (parse_value fuel r)) < m r)%nat.
Proof.
  intros Hi. destruct fuel as [|f]; [right; left; reflexivity|].
  rewrite parse_value_S. fr_norm.
  repeat first [mn_op2 | mn_op4 f | g_case];
    first [left; reflexivity | right; right; mn_sat2; lia].
Qed.

(* the fuel bounds *)
Definition NV (f : nat) : Prop :=
  forall r, inv r -> (2 * m r + 1 <= f)%nat -> fst (parse_value f r) <> PFuel.
Definition NI (f : nat) : Prop :=
  forall acc r, inv r -> (2 * m r + 2 <= f)%nat -> fst (parse_items f acc r) <> PFuel.
Definition NM (f : nat) : Prop :=
  forall acc r, inv r -> (2 * m r + 2 <= f)%nat -> fst (parse_members f acc r) <> PFuel.

Ltac mn_op5 :=
  match goal with
  | |- context [read_number ?r] =>
      is_var r; mn_pair3 (read_number r) (read_number_mono r) (read_number_strict r) (read_number_nofuel r)
  | IH : NV ?f |- context [parse_value ?f ?r] =>
      is_var r; mn_pair2 (parse_value f r) (parse_value_mono f r) (IH r)
  | IH : NI ?f |- context [parse_items ?f ?a ?r] =>
      is_var r; mn_pair2 (parse_items f a r) (parse_items_mono f a r) (IH a r)
  | IH : NM ?f |- context [parse_members ?f ?a ?r] =>
      is_var r; mn_pair2 (parse_members f a r) (parse_members_mono f a r) (IH a r)
  end.

Ltac nf_done :=
  first [ discriminate
        | assumption
        | match goal with
          | H : inv ?a -> (_ <= _)%nat -> ?p <> PFuel |- ?p <> PFuel =>
              apply H; [mn_sat; assumption | mn_sat; lia]
          end ].

Lemma parse_nofuel : forall f, NV f /\ NI f /\ NM f.
Proof.
  induction f as [|f (IHv & IHi & IHm)].
  - split; [|split]; intro; intros; lia.
  - split; [|split].
    + intros r Hi Hb. rewrite parse_value_S. fr_norm.
      repeat first [mn_op2 | mn_op5 | g_case]; nf_done.
    + intros acc r Hi Hb. rewrite parse_items_S. fr_norm.
      repeat first [mn_op2 | mn_op5 | g_case]; nf_done.
    + intros acc r Hi Hb. rewrite parse_members_S. fr_norm.
      repeat first [mn_op2 | mn_op5 | g_case]; nf_done.
Qed.

Lemma parse_fuel_m r : (2 * m r + 1 <= parse_fuel r)%nat.
Proof. unfold m, parse_fuel. destruct (eof r); lia. Qed.

Lemma next_json_value_nofuel r : inv r -> fst (next_json_value r) <> PFuel.
Proof. intros Hi. apply (proj1 (parse_nofuel (parse_fuel r))); [assumption|apply parse_fuel_m]. Qed.

(* the pipeline-free loop is never stopped by fuel when the source has no read error *)
Lemma read_ctxs_no_stop : forall fuel oo r fname idx infile,
  inv r -> no_eerr r -> io r = false -> (m r + 1 <= fuel)%nat ->
  snd (read_ctxs fuel oo r fname idx infile) = false.
Proof.
  induction fuel as [|f IH]; intros oo r fname idx infile Hi Hn Hio Hf; [lia|].
  cbn [read_ctxs]. cbv zeta.
  pose proof (next_json_value_nofuel r Hi) as Hnf.
  pose proof (parse_value_strict (parse_fuel r) r Hi) as Hst.
  pose proof (parse_value_mono (parse_fuel r) r Hi) as [Hi1 Hm1].
  change (parse_value (parse_fuel r) r) with (next_json_value r) in *.
  destruct (next_json_value r) as [res r1] eqn:E. cbn [fst snd] in *.
  destruct (next_json_value_clean r res r1 Hn Hio E) as [Hn1 Hio1]. rewrite Hio1.
  destruct res as [v| | |].
  - assert (Hlt : (m r1 < m r)%nat) by (destruct Hst as [H|[H|H]]; [discriminate|discriminate|exact H]).
    destruct (oo && negb (is_container v)).
    + apply IH; auto. lia.
    + specialize (IH oo r1 fname (idx + 1) (infile + 1) Hi1 Hn1 Hio1).
      destruct (read_ctxs f oo r1 fname (idx + 1) (infile + 1)) as [[cs e] b]. cbn [snd] in *.
      apply IH. lia.
  - reflexivity.
  - assert (Hlt : (m r1 < m r)%nat) by (destruct Hst as [H|[H|H]]; [discriminate|discriminate|exact H]).
    specialize (IH oo r1 fname idx infile Hi1 Hn1 Hio1).
    destruct (read_ctxs f oo r1 fname idx infile) as [[cs e] b]. cbn [snd] in *.
    apply IH. lia.
  - congruence.
Qed.

Lemma ctxs_of_input_no_stop cf fname evs : Forall (fun e => e <> EErr) evs ->
  snd (ctxs_of_input cf fname evs) = false.
Proof.
  intros H. unfold ctxs_of_input. apply read_ctxs_no_stop.
  - intros E. discriminate E.
  - exact H.
  - reflexivity.
  - unfold m, input_fuel, mk_reader. cbn [eof rest]. lia.
Qed.

Theorem go_run_ignore : forall (cf : cfg) (fname : option str) (evs : list ev) (b : bool) p sts hdr,
  c_on_error cf = OnIgnore ->
  Forall (fun e => e <> EErr) evs ->
  build_pipeline cf = Some (p, sts) ->
  start_output p (titles expr sts []) (c_rowsep cf) = Some hdr ->
  let cs := fst (fst (ctxs_of_input cf fname evs)) in
  g_result (go cf [(fname, evs)] b) = GOk /\
  g_events (go cf [(fname, evs)] b) =
    (match hdr with [] => [] | _ => [OOut hdr] end) ++
    emit cf p (length (titles expr sts [])) (Chain.run expr get sts (map (init_state expr) sts) cs).
Proof.
  intros cf fname evs b p sts hdr Hign Hevs Hbp Hst cs. subst cs.
  pose proof (ctxs_of_input_no_stop cf fname evs Hevs) as Hnb.
  unfold go. rewrite Hbp. cbv zeta. rewrite Hst. cbn [read_files].
  unfold ctxs_of_input in *.
  destruct (read_input_run cf p sts (length (titles expr sts [])) Hign (input_fuel evs) (mk_reader evs)
              fname (map (init_state expr) sts) 0 0 (no_eerr_mk evs Hevs) eq_refl Hnb)
    as (ss' & o & idx' & r' & E & Hev).
  rewrite E. cbn [g_result g_events]. split; [reflexivity|].
  rewrite app_nil_r, Hev. reflexivity.
Qed.

(* ================= (C) the default configuration on a well-formed stream ================= *)
Definition default_cfg : cfg :=
  {| c_on_error := OnIgnore; c_select := []; c_filter := None; c_split := None; c_group := None;
     c_sort := []; c_skip := 0; c_take := None; c_unique := false; c_set := [];
     c_only_objs := false; c_style := StyleJson; c_rowsep := [10];
     c_json_opts := None; c_text_opts := None |}.

Lemma default_pipeline : build_pipeline default_cfg = Some (PJson OneLine false, []).
Proof. reflexivity. Qed.

Lemma run_nil ss (cs : list ctx) : run expr get [] ss cs = cs.
Proof.
  induction cs as [|c cs IH]; [reflexivity|]. cbn [run process]. rewrite IH. reflexivity.
Qed.

Lemma no_eerr_bytes (bs : list byte) : Forall (fun e => e <> EErr) (map EB bs).
Proof. induction bs; constructor; [discriminate|assumption]. Qed.

Lemma read_ctxs_stream : forall (l : list (sjson * ws)) (vs : list json) r (lead : ws) fuel fname idx infile,
  ws_ok lead -> Forall (fun tw => wf (fst tw)) l -> seps_ok l ->
  Forall2 (fun tw v => value_of (fst tw) = Some v) l vs ->
  rd_ok r -> no_eerr r -> io r = false -> view r = lead ++ render_stream l -> (length l < fuel)%nat ->
  exists cs, read_ctxs fuel false r fname idx infile = (cs, 0, false) /\
             map (@input expr) cs = vs /\ Forall (fun c => results c = []) cs.
Proof.
  induction l as [|[t w] more IH];
    intros vs r lead fuel fname idx infile Hlead Hwf Hseps Hvals Hok Hn Hio Hv Hf;
    (destruct fuel as [|f]; [cbn in Hf; lia|]); cbn [read_ctxs]; cbv zeta.
  - inversion Hvals; subst. cbn [render_stream] in Hv. rewrite app_nil_r in Hv.
    destruct (parse_value_eof (parse_fuel r) r lead) as (r' & E); auto.
    { unfold parse_fuel; lia. }
    change (next_json_value r = (PEof, r')) in E.
    destruct (next_json_value_clean r _ r' Hn Hio E) as [_ Hio']. rewrite E, Hio'.
    exists []. repeat split; constructor.
  - inversion Hvals as [|? v ? vs' Hv1 Hvs']; subst. cbn [fst] in Hv1.
    inversion Hwf as [|? ? Hwft Hwf']; subst. cbn [fst] in Hwft.
    cbn [seps_ok] in Hseps. destruct Hseps as (Hw & Hsep & Hseps').
    cbn [render_stream] in Hv.
    destruct (parse_value_render (parse_fuel r) t v lead (w ++ render_stream more) r)
      as (r' & E & Hv' & Hok'); auto.
    { apply stream_follow; assumption. }
    { apply parse_fuel_enough; assumption. }
    change (next_json_value r = (POk v, r')) in E.
    destruct (next_json_value_clean r _ r' Hn Hio E) as [Hn' Hio']. rewrite E, Hio'. cbn [andb].
    destruct (IH vs' r' w f fname (idx + 1) (infile + 1)) as (cs & -> & Hin & Hres); auto.
    { cbn in Hf; lia. }
    eexists. split; [reflexivity|]. cbn [map input new_with_input]. split; [congruence|].
    constructor; [reflexivity|assumption].
Qed.

Theorem go_default_rows : forall lead l vs,
  stream_wf lead l -> Forall2 (fun tw v => value_of (fst tw) = Some v) l vs ->
  let g := go default_cfg [(None, map EB (lead ++ render_stream l))] true in
  g_result g = GOk /\ g_events g = map (fun v => OOut (print_json OneLine false v ++ [10])) vs.
Proof.
  intros lead l vs (Hlead & Hwf & Hseps) Hvals g. subst g.
  set (bs := lead ++ render_stream l).
  destruct (read_ctxs_stream l vs (mk_reader (map EB bs)) lead (input_fuel (map EB bs)) None 0 0)
    as (cs & E & Hin & Hres); auto.
  - apply (rd_ok_of_bytes bs).
  - apply no_eerr_mk, no_eerr_bytes.
  - apply (view_of_bytes bs).
  - pose proof (stream_length l Hwf). unfold input_fuel, bs. rewrite map_length, app_length. lia.
  - assert (Hc : ctxs_of_input default_cfg None (map EB bs) = (cs, 0, false)) by exact E.
    destruct (go_run_ignore default_cfg None (map EB bs) true (PJson OneLine false) [] []
                eq_refl (no_eerr_bytes bs) default_pipeline eq_refl) as [H1 H2].
    split; [exact H1|]. rewrite H2, Hc. cbn [fst app titles length map]. rewrite run_nil.
    unfold emit. rewrite <- Hin, map_map. apply map_ext_in. intros c Hc'.
    rewrite Forall_forall in Hres. specialize (Hres c Hc').
    cbn [print_row c_rowsep default_cfg]. unfold build. rewrite Hres. reflexivity.
Qed.

Print Assumptions go_run_ignore.
Print Assumptions go_default_rows.
