(* GoProofs.v — (A) reading from a source without read errors never sets the io flag;
   (B) Master::go on one input under --on-error=ignore is Chain.run over the contexts of the input;
   (C) with no options at all, go prints the values of a well-formed stream, one per line. *)
From Coq Require Import List NArith ZArith Bool Lia.
From Jawk Require Import Base F64 Json Reader JsonParser Stream Ctx Printer Expr Chain ExprParser Go.
From Jawk Require Import Render ReaderLemmas ParserProofs.
Import ListNotations.
Local Open Scope N_scope.

#[local] Arguments N.add : simpl never.
#[local] Arguments N.mul : simpl never.
#[local] Arguments N.sub : simpl never.
#[local] Arguments N.eqb : simpl never.
#[local] Arguments N.ltb : simpl never.
#[local] Arguments N.leb : simpl never.

(* ================= (A) frame lemmas ================= *)
Definition no_eerr (r : reader) : Prop := Forall (fun e => e <> EErr) (rest r).
Definition frame (r r' : reader) : Prop := no_eerr r -> no_eerr r' /\ io r' = io r.

Lemma frame_refl r : frame r r.
Proof. intros H. auto. Qed.

Lemma frame_trans r1 r2 r3 : frame r1 r2 -> frame r2 r3 -> frame r1 r3.
Proof. intros H12 H23 H1. destruct (H12 H1) as [H2 E2]. destruct (H23 H2) as [H3 E3]. split; congruence. Qed.

Lemma next_frame r : frame r (snd (next r)).
Proof.
  unfold frame, no_eerr, next. intros H. destruct (eof r); [auto|].
  destruct (rest r) as [|[b|] t]; cbn [snd rest io].
  - auto.
  - inversion H; auto.
  - inversion H; congruence.
Qed.

Lemma peek_frame r : frame r (snd (peek r)).
Proof. unfold peek. destruct (cur r); [apply frame_refl|apply next_frame]. Qed.

(* saturate with the frame facts collected so far *)
Ltac fr_sat :=
  repeat match goal with
  | H : frame ?a ?b, Ha : no_eerr ?a |- _ =>
      let H1 := fresh in let H2 := fresh in destruct (H Ha) as [H1 H2]; clear H
  end.
Ltac fr_done := let H0 := fresh in intro H0; fr_sat; split; [assumption | congruence].

(* scrutinee at the head of a term *)
Ltac hs t :=
  lazymatch t with
  | (match ?x with _ => _ end) => match x with | _ => hs x | _ => x end
  | snd ?x => hs x
  | fst ?x => hs x
  end.

Ltac fr_norm := cbv beta iota zeta; cbn [snd fst] in *.

Ltac fr_pair t lem :=
  let H := fresh "F" in pose proof lem as H; destruct t as [? ?]; fr_norm.

Ltac fr_op :=
  match goal with
  | |- context [peek ?r] => fr_pair (peek r) (peek_frame r)
  | |- context [next ?r] => fr_pair (next r) (next_frame r)
  end.

Ltac fr_case :=
  lazymatch goal with
  | |- frame _ ?t => let x := hs t in destruct x; fr_norm
  end.

Lemma eat_ws_frame fuel : forall r, frame r (eat_ws fuel r).
Proof.
  induction fuel as [|f IH]; intros r; cbn [eat_ws]; [apply frame_refl|].
  fr_op. fr_case; [|fr_done]. fr_case; [|fr_done]. fr_op.
  match goal with |- frame _ (eat_ws f ?x) => pose proof (IH x) end. fr_done.
Qed.

Lemma eat_whitespace_frame r : frame r (eat_whitespace r).
Proof. apply eat_ws_frame. Qed.

Lemma read_digits_f_frame fuel : forall acc r, frame r (snd (read_digits_f fuel acc r)).
Proof.
  induction fuel as [|f IH]; intros acc r; cbn [read_digits_f]; [apply frame_refl|].
  fr_op. fr_case; [|fr_done]. fr_case; [|fr_done]. fr_op.
  match goal with |- frame _ (snd (read_digits_f f ?a ?x)) => pose proof (IH a x) end. fr_done.
Qed.

Lemma read_digits_frame acc r : frame r (snd (read_digits acc r)).
Proof. apply read_digits_f_frame. Qed.

Lemma read_word_frame w : forall r, frame r (snd (read_word w r)).
Proof.
  induction w as [|e w IH]; intros r; cbn [read_word].
  - fr_op. fr_done.
  - fr_op. fr_case; [|fr_done]. fr_case; [|fr_done].
    match goal with |- frame _ (snd (read_word w ?x)) => pose proof (IH x) end. fr_done.
Qed.

Lemma read_hex4_frame n : forall acc r, frame r (snd (read_hex4 n acc r)).
Proof.
  induction n as [|n IH]; intros acc r; cbn [read_hex4]; [apply frame_refl|].
  fr_op. fr_case; [|fr_done]. fr_case; [|fr_done].
  match goal with |- frame _ (snd (read_hex4 n ?a ?x)) => pose proof (IH a x) end. fr_done.
Qed.

Lemma read_string_f_frame fuel : forall acc r, frame r (snd (read_string_f fuel acc r)).
Proof.
  induction fuel as [|f IH]; intros acc r; cbn [read_string_f]; [apply frame_refl|].
  fr_op. fr_case; [|fr_done]. fr_case.
  - fr_op. fr_case; fr_done.
  - fr_case.
    + fr_op. fr_case; [|fr_done]. fr_case.
      * match goal with |- context [read_hex4 ?n ?a ?x] =>
          fr_pair (read_hex4 n a x) (read_hex4_frame n a x) end.
        fr_case; [|fr_done]. fr_case; [|fr_done].
        match goal with |- frame _ (snd (read_string_f f ?a ?x)) => pose proof (IH a x) end. fr_done.
      * fr_case; [|fr_done].
        match goal with |- frame _ (snd (read_string_f f ?a ?x)) => pose proof (IH a x) end. fr_done.
    + match goal with |- frame _ (snd (read_string_f f ?a ?x)) => pose proof (IH a x) end. fr_done.
Qed.

Lemma read_string_frame r : frame r (snd (read_string r)).
Proof. apply read_string_f_frame. Qed.

Ltac fr_op2 :=
  match goal with
  | |- context [next ?r] => is_var r; fr_pair (next r) (next_frame r)
  | |- context [peek ?r] => is_var r; fr_pair (peek r) (peek_frame r)
  | |- context [eat_whitespace ?r] =>
      is_var r;
      let H := fresh "F" in pose proof (eat_whitespace_frame r) as H;
      let r' := fresh "r" in set (r' := eat_whitespace r) in *; clearbody r'; fr_norm
  | |- context [read_digits ?a ?r] => is_var r; fr_pair (read_digits a r) (read_digits_frame a r)
  | |- context [read_word ?w ?r] => is_var r; fr_pair (read_word w r) (read_word_frame w r)
  | |- context [read_string ?r] => is_var r; fr_pair (read_string r) (read_string_frame r)
  end.

Lemma read_number_frame r : frame r (snd (read_number r)).
Proof. unfold read_number. repeat first [fr_op2 | fr_case]; fr_done. Qed.

Ltac fr_op3 :=
  match goal with
  | |- context [read_number ?r] => is_var r; fr_pair (read_number r) (read_number_frame r)
  | IH : forall r : reader, frame r (snd (parse_value ?f r)) |- context [parse_value ?f ?r] =>
      is_var r; fr_pair (parse_value f r) (IH r)
  | IH : forall acc (r : reader), frame r (snd (parse_items ?f acc r)) |- context [parse_items ?f ?a ?r] =>
      is_var r; fr_pair (parse_items f a r) (IH a r)
  | IH : forall acc (r : reader), frame r (snd (parse_members ?f acc r)) |- context [parse_members ?f ?a ?r] =>
      is_var r; fr_pair (parse_members f a r) (IH a r)
  end.
Ltac fr_auto := fr_norm; repeat first [fr_op2 | fr_op3 | fr_case]; fr_done.

Lemma parse_frames : forall fuel,
  (forall r, frame r (snd (parse_value fuel r))) /\
  (forall acc r, frame r (snd (parse_items fuel acc r))) /\
  (forall acc r, frame r (snd (parse_members fuel acc r))).
Proof.
  induction fuel as [|f (IHv & IHi & IHm)].
  - split; [|split]; intros; apply frame_refl.
  - split; [|split].
    + intros r. rewrite parse_value_S. fr_auto.
    + intros acc r. rewrite parse_items_S. fr_auto.
    + intros acc r. rewrite parse_members_S. fr_auto.
Qed.

Lemma parse_value_frame fuel r : frame r (snd (parse_value fuel r)).
Proof. apply parse_frames. Qed.
Lemma parse_items_frame fuel acc r : frame r (snd (parse_items fuel acc r)).
Proof. apply parse_frames. Qed.
Lemma parse_members_frame fuel acc r : frame r (snd (parse_members fuel acc r)).
Proof. apply parse_frames. Qed.

Lemma next_json_value_frame r : frame r (snd (next_json_value r)).
Proof. apply parse_value_frame. Qed.

(* ================= (B) go and run under --on-error=ignore ================= *)
Lemma emit_app cf p nt a b : emit cf p nt (a ++ b) = emit cf p nt a ++ emit cf p nt b.
Proof. apply map_app. Qed.

Lemma no_eerr_mk evs : Forall (fun e => e <> EErr) evs -> no_eerr (mk_reader evs).
Proof. intros H. exact H. Qed.

Lemma next_json_value_clean r res r1 : no_eerr r -> io r = false ->
  next_json_value r = (res, r1) -> no_eerr r1 /\ io r1 = false.
Proof.
  intros Hn Hio E. pose proof (next_json_value_frame r Hn) as [H1 H2]. rewrite E in H1, H2.
  cbn [snd] in H1, H2. split; congruence.
Qed.

Section Core.
Variables (cf : cfg) (p : printer) (sts : list stage) (nt : nat).
Hypothesis Hign : c_on_error cf = OnIgnore.

(* the events of read_input followed by the completion events are the events of Chain.run over the
   contexts read by the pipeline-free loop; no error is reported *)
Lemma read_input_run : forall fuel r fname ss idx infile,
  no_eerr r -> io r = false ->
  snd (read_ctxs fuel (c_only_objs cf) r fname idx infile) = false ->
  exists ss' o idx' r',
    read_input cf p sts nt fuel r fname ss idx infile = (ss', o, idx', None, r') /\
    o ++ emit cf p nt (complete expr get sts ss') =
    emit cf p nt (run expr get sts ss (fst (fst (read_ctxs fuel (c_only_objs cf) r fname idx infile)))).
Proof.
  induction fuel as [|f IH]; intros r fname ss idx infile Hn Hio Hb.
  - cbn in Hb. discriminate.
  - cbn [read_input read_ctxs] in *. cbv zeta in *.
    destruct (next_json_value r) as [res r1] eqn:E.
    destruct (next_json_value_clean r res r1 Hn Hio E) as [Hn1 Hio1].
    rewrite Hio1 in *.
    destruct res as [v| | |].
    + (* a value *)
      destruct (c_only_objs cf && negb (is_container v)).
      * apply IH; assumption.
      * set (c := new_with_input v _) in *.
        destruct (read_ctxs f (c_only_objs cf) r1 fname (idx + 1) (infile + 1)) as [[cs e] b] eqn:Ec.
        cbn [fst snd] in *. cbn [run].
        destruct (process expr get sts ss c) as [[ss1 o] d].
        destruct d.
        -- destruct (IH r1 fname ss1 (idx + 1) (infile + 1) Hn1 Hio1) as (ss2 & o2 & idx2 & r2 & E2 & Hev).
           { rewrite Ec. exact Hb. }
           rewrite E2. rewrite Ec in Hev. cbn [fst] in Hev.
           exists ss2, (emit cf p nt o ++ o2), idx2, r2. split; [reflexivity|].
           rewrite <- app_assoc, Hev, emit_app. reflexivity.
        -- exists ss1, (emit cf p nt o), idx, r1. split; [reflexivity|].
           rewrite emit_app. reflexivity.
    + (* end of input *)
      exists ss, [], idx, r1. split; reflexivity.
    + (* a recoverable error: ignored *)
      rewrite Hign.
      destruct (read_ctxs f (c_only_objs cf) r1 fname idx infile) as [[cs e] b] eqn:Ec.
      cbn [fst snd] in *.
      destruct (IH r1 fname ss idx infile Hn1 Hio1) as (ss2 & o2 & idx2 & r2 & E2 & Hev).
      { rewrite Ec. exact Hb. }
      rewrite E2. rewrite Ec in Hev. cbn [fst] in Hev.
      exists ss2, o2, idx2, r2. split; [reflexivity|exact Hev].
    + cbn in Hb. discriminate.
Qed.
End Core.

Theorem go_run_ignore : forall (cf : cfg) (fname : option str) (evs : list ev) (b : bool) p sts hdr,
  c_on_error cf = OnIgnore ->
  Forall (fun e => e <> EErr) evs ->
  build_pipeline cf = Some (p, sts) ->
  start_output p (titles expr sts []) (c_rowsep cf) = Some hdr ->
  snd (ctxs_of_input cf fname evs) = false ->
  let cs := fst (fst (ctxs_of_input cf fname evs)) in
  g_result (go cf [(fname, evs)] b) = GOk /\
  g_events (go cf [(fname, evs)] b) =
    (match hdr with [] => [] | _ => [OOut hdr] end) ++
    emit cf p (length (titles expr sts [])) (Chain.run expr get sts (map (init_state expr) sts) cs).
Proof.
  intros cf fname evs b p sts hdr Hign Hevs Hbp Hst Hnb cs. subst cs.
  unfold go. rewrite Hbp. cbv zeta. rewrite Hst. cbn [read_files].
  unfold ctxs_of_input in *.
  destruct (read_input_run cf p sts (length (titles expr sts [])) Hign (input_fuel evs) (mk_reader evs)
              fname (map (init_state expr) sts) 0 0 (no_eerr_mk evs Hevs) eq_refl Hnb)
    as (ss' & o & idx' & r' & E & Hev).
  rewrite E. cbn [g_result g_events]. split; [reflexivity|].
  rewrite app_nil_r, Hev. reflexivity.
Qed.

(* ================= (C) the default configuration on a well-formed stream ================= *)
Definition default_cfg : cfg :=
  {| c_on_error := OnIgnore; c_select := []; c_filter := None; c_split := None; c_group := None;
     c_sort := []; c_skip := 0; c_take := None; c_unique := false; c_set := [];
     c_only_objs := false; c_style := StyleJson; c_rowsep := [10];
     c_json_opts := None; c_text_opts := None |}.

Lemma default_pipeline : build_pipeline default_cfg = Some (PJson OneLine false, []).
Proof. reflexivity. Qed.

Lemma run_nil ss (cs : list ctx) : run expr get [] ss cs = cs.
Proof.
  induction cs as [|c cs IH]; [reflexivity|]. cbn [run process]. rewrite IH. reflexivity.
Qed.

Lemma no_eerr_bytes (bs : list byte) : Forall (fun e => e <> EErr) (map EB bs).
Proof. induction bs; constructor; [discriminate|assumption]. Qed.

Lemma read_ctxs_stream : forall (l : list (sjson * ws)) (vs : list json) r (lead : ws) fuel fname idx infile,
  ws_ok lead -> Forall (fun tw => wf (fst tw)) l -> seps_ok l ->
  Forall2 (fun tw v => value_of (fst tw) = Some v) l vs ->
  rd_ok r -> no_eerr r -> io r = false -> view r = lead ++ render_stream l -> (length l < fuel)%nat ->
  exists cs, read_ctxs fuel false r fname idx infile = (cs, 0, false) /\
             map (@input expr) cs = vs /\ Forall (fun c => results c = []) cs.
Proof.
  induction l as [|[t w] more IH];
    intros vs r lead fuel fname idx infile Hlead Hwf Hseps Hvals Hok Hn Hio Hv Hf;
    (destruct fuel as [|f]; [cbn in Hf; lia|]); cbn [read_ctxs]; cbv zeta.
  - inversion Hvals; subst. cbn [render_stream] in Hv. rewrite app_nil_r in Hv.
    destruct (parse_value_eof (parse_fuel r) r lead) as (r' & E); auto.
    { unfold parse_fuel; lia. }
    change (next_json_value r = (PEof, r')) in E.
    destruct (next_json_value_clean r _ r' Hn Hio E) as [_ Hio']. rewrite E, Hio'.
    exists []. repeat split; constructor.
  - inversion Hvals as [|? v ? vs' Hv1 Hvs']; subst. cbn [fst] in Hv1.
    inversion Hwf as [|? ? Hwft Hwf']; subst. cbn [fst] in Hwft.
    cbn [seps_ok] in Hseps. destruct Hseps as (Hw & Hsep & Hseps').
    cbn [render_stream] in Hv.
    destruct (parse_value_render (parse_fuel r) t v lead (w ++ render_stream more) r)
      as (r' & E & Hv' & Hok'); auto.
    { apply stream_follow; assumption. }
    { apply parse_fuel_enough; assumption. }
    change (next_json_value r = (POk v, r')) in E.
    destruct (next_json_value_clean r _ r' Hn Hio E) as [Hn' Hio']. rewrite E, Hio'. cbn [andb].
    destruct (IH vs' r' w f fname (idx + 1) (infile + 1)) as (cs & -> & Hin & Hres); auto.
    { cbn in Hf; lia. }
    eexists. split; [reflexivity|]. cbn [map input new_with_input]. split; [congruence|].
    constructor; [reflexivity|assumption].
Qed.

Theorem go_default_rows : forall lead l vs,
  stream_wf lead l -> Forall2 (fun tw v => value_of (fst tw) = Some v) l vs ->
  let g := go default_cfg [(None, map EB (lead ++ render_stream l))] true in
  g_result g = GOk /\ g_events g = map (fun v => OOut (print_json OneLine false v ++ [10])) vs.
Proof.
  intros lead l vs (Hlead & Hwf & Hseps) Hvals g. subst g.
  set (bs := lead ++ render_stream l).
  destruct (read_ctxs_stream l vs (mk_reader (map EB bs)) lead (input_fuel (map EB bs)) None 0 0)
    as (cs & E & Hin & Hres); auto.
  - apply (rd_ok_of_bytes bs).
  - apply no_eerr_mk, no_eerr_bytes.
  - apply (view_of_bytes bs).
  - pose proof (stream_length l Hwf). unfold input_fuel, bs. rewrite map_length, app_length. lia.
  - assert (Hc : ctxs_of_input default_cfg None (map EB bs) = (cs, 0, false)) by exact E.
    destruct (go_run_ignore default_cfg None (map EB bs) true (PJson OneLine false) [] []
                eq_refl (no_eerr_bytes bs) default_pipeline eq_refl) as [H1 H2].
    { rewrite Hc. reflexivity. }
    split; [exact H1|]. rewrite H2, Hc. cbn [fst app titles length map]. rewrite run_nil.
    unfold emit. rewrite <- Hin, map_map. apply map_ext_in. intros c Hc'.
    rewrite Forall_forall in Hres. specialize (Hres c Hc').
    cbn [print_row c_rowsep default_cfg]. unfold build. rewrite Hres. reflexivity.
Qed.

Print Assumptions go_run_ignore.
Print Assumptions go_default_rows.
