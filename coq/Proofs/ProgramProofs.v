(* ProgramProofs.v — C08 and C09 lifted from the stage level to the whole program: two runs of `go` that
   differ only in --skip/--take (resp. only in --group-by/--merge) are related as documented.
   Everything goes through C03_program (go = header ++ emit (spec ...)) and a decomposition of what
   build_pipeline returns around the limiter and the collector.  The sorting capacity that --take sets is
   handled inside C03_program (build_wfp gives cap_ok, run_spec uses run_sort_cap = C08_sort_take); at the
   level of `spec` it is not visible at all (spec_uncap), so the slice statement is spec_app + spec_uncap,
   the content of C08_slice.  The collector statements use pp_group_one_row / pp_merge_one_row. *)
From Jawk Require Import Base F64 Json Reader JsonParser Ctx Printer Fn Expr Chain ExprParser Go PipelineSpec.
From Jawk Require Import OrderProofs SorterProofs ChainProofs GroupUniqProofs GoProofs BuildProofs.
From Jawk Require Import C03.

(* local copies of the statements pinned as pp_group_one_row / pp_merge_one_row / C09_empty_* (Props/C09.v imports this
   file, so it cannot be imported here) *)
Lemma pp_group_one_row : forall (E : Type) (get : E -> Ctx.ctx E -> option json) (pre : list (Chain.stage E)) k cs,
  wfp E (pre ++ [SGroup k]) -> wfp E pre ->
  run E get (pre ++ [SGroup k]) (map (init_state E) (pre ++ [SGroup k])) cs =
  [new_with_no_context (group_spec E get k (run E get pre (map (init_state E) pre) cs))].
Proof.
  intros E get pre k cs H1 H2.
  rewrite (run_spec E get (jcmp_refl show) (jcmp_antisym show) (jcmp_trans_le show) (jcmp_eq_l show) _ H1).
  rewrite (run_spec E get (jcmp_refl show) (jcmp_antisym show) (jcmp_trans_le show) (jcmp_eq_l show) _ H2).
  rewrite spec_app. reflexivity.
Qed.
Lemma pp_merge_one_row : forall (E : Type) (get : E -> Ctx.ctx E -> option json) (pre : list (Chain.stage E)) cs,
  wfp E (pre ++ [SMerge]) -> wfp E pre ->
  run E get (pre ++ [SMerge]) (map (init_state E) (pre ++ [SMerge])) cs =
  [new_with_no_context (JArr (map build (run E get pre (map (init_state E) pre) cs)))].
Proof.
  intros E get pre cs H1 H2.
  rewrite (run_spec E get (jcmp_refl show) (jcmp_antisym show) (jcmp_trans_le show) (jcmp_eq_l show) _ H1).
  rewrite (run_spec E get (jcmp_refl show) (jcmp_antisym show) (jcmp_trans_le show) (jcmp_eq_l show) _ H2).
  rewrite spec_app. reflexivity.
Qed.
Local Open Scope N_scope.

Local Notation stage := (Chain.stage expr).
Local Notation ectx := (Ctx.ctx expr).
Local Notation uncapE := (ChainProofs.uncap expr).
Local Notation wfpE := (ChainProofs.wfp expr).

(* ====================================================================================================== *)
(* configurations that differ only in one option                                                          *)
(* ====================================================================================================== *)
Definition with_limit (c : cfg) (s : N) (t : option N) : cfg :=
  {| c_on_error := c_on_error c; c_select := c_select c; c_filter := c_filter c; c_split := c_split c;
     c_group := c_group c; c_sort := c_sort c; c_skip := s; c_take := t; c_unique := c_unique c;
     c_set := c_set c; c_only_objs := c_only_objs c; c_style := c_style c; c_rowsep := c_rowsep c;
     c_json_opts := c_json_opts c; c_text_opts := c_text_opts c |}.
Definition no_limit (c : cfg) : cfg := with_limit c 0 None.

Definition with_group (c : cfg) (g : option (option (list byte))) : cfg :=
  {| c_on_error := c_on_error c; c_select := c_select c; c_filter := c_filter c; c_split := c_split c;
     c_group := g; c_sort := c_sort c; c_skip := c_skip c; c_take := c_take c; c_unique := c_unique c;
     c_set := c_set c; c_only_objs := c_only_objs c; c_style := c_style c; c_rowsep := c_rowsep c;
     c_json_opts := c_json_opts c; c_text_opts := c_text_opts c |}.
Definition no_group (c : cfg) : cfg := with_group c None.

(* sanity: the helpers change nothing else *)
Lemma with_limit_same c : with_limit c (c_skip c) (c_take c) = c.
Proof. destruct c; reflexivity. Qed.
Lemma with_group_same c : with_group c (c_group c) = c.
Proof. destruct c; reflexivity. Qed.

(* rows S .. S+T-1 of a list (all rows from S on when T is absent) *)
Definition slice {A} (s : N) (t : option N) (l : list A) : list A :=
  match t with
  | Some t => firstn (N.to_nat t) (skipn (N.to_nat s) l)
  | None => skipn (N.to_nat s) l
  end.

Lemma limit_spec_slice s t (cs : list ectx) : limit_spec expr s t cs = slice s t cs.
Proof. reflexivity. Qed.

Lemma firstn_map' {A B} (f : A -> B) n l : firstn n (map f l) = map f (firstn n l).
Proof. revert l. induction n as [|n IH]; intros [|a l]; cbn [firstn map]; try reflexivity. rewrite IH. reflexivity. Qed.
Lemma skipn_map' {A B} (f : A -> B) n l : skipn n (map f l) = map f (skipn n l).
Proof. revert l. induction n as [|n IH]; intros [|a l]; cbn [skipn map]; try reflexivity. apply IH. Qed.
Lemma slice_map {A B} (f : A -> B) s t l : slice s t (map f l) = map f (slice s t l).
Proof. destruct t as [t|]; cbn [slice]; rewrite ?skipn_map', ?firstn_map'; reflexivity. Qed.

Lemma slice_0_None {A} (l : list A) : slice 0 None l = l.
Proof. reflexivity. Qed.

Definition hdr_events (hdr : list byte) : list oev := match hdr with [] => [] | _ => [OOut hdr] end.

(* ====================================================================================================== *)
(* what build_pipeline returns, kind by kind                                                              *)
(* ====================================================================================================== *)
(* the streaming front: --set, --split-by, --filter, --select, --unique *)
Definition build_head (c : cfg) : option (list stage) :=
  match build_kind c KUniq with None => None | Some u =>
  match build_kind c KSelect with None => None | Some se =>
  match build_kind c KFilter with None => None | Some f =>
  match build_kind c KSplit with None => None | Some sp =>
  match build_kind c KPreSet with None => None | Some ps => Some (ps ++ sp ++ f ++ se ++ u)
  end end end end end.

Definition build_parts (c : cfg) : option (printer * list stage) :=
  match get_printer c with None => None | Some p =>
  match build_kind c KGroup with None => None | Some g =>
  match build_kind c KLimit with None => None | Some l =>
  match build_kind c KSort with None => None | Some so =>
  match build_head c with None => None | Some h => Some (p, h ++ so ++ l ++ g)
  end end end end end.

Lemma build_pipeline_parts c : build_pipeline c = build_parts c.
Proof.
  unfold build_pipeline, build_parts, build_head, wrap_order. cbn [build_from].
  destruct (get_printer c) as [p|]; [|reflexivity].
  destruct (build_kind c KGroup) as [g|]; [|reflexivity].
  destruct (build_kind c KLimit) as [l|]; [|reflexivity].
  destruct (build_kind c KSort) as [so|]; [|reflexivity].
  destruct (build_kind c KUniq) as [u|]; [|reflexivity].
  destruct (build_kind c KSelect) as [se|]; [|reflexivity].
  destruct (build_kind c KFilter) as [f|]; [|reflexivity].
  destruct (build_kind c KSplit) as [sp|]; [|reflexivity].
  destruct (build_kind c KPreSet) as [ps|]; [|reflexivity].
  cbn [option_map]. rewrite !app_nil_r, <- !app_assoc. reflexivity.
Qed.

Definition limit_stages (s : N) (t : option N) : list stage :=
  match s, t with 0, None => [] | s, t => [SLimit s t] end.

Lemma build_limit c : build_kind c KLimit = Some (limit_stages (c_skip c) (c_take c)).
Proof. cbn [build_kind]. destruct (c_skip c) as [|q]; destruct (c_take c) as [t|]; reflexivity. Qed.

(* --- invariance under with_limit --- *)
Lemma printer_with_limit c s t : get_printer (with_limit c s t) = get_printer c.
Proof. reflexivity. Qed.
Lemma group_with_limit c s t : build_kind (with_limit c s t) KGroup = build_kind c KGroup.
Proof. reflexivity. Qed.
Lemma head_with_limit c s t : build_head (with_limit c s t) = build_head c.
Proof. reflexivity. Qed.

Lemma sort_no_limit c :
  build_kind (no_limit c) KSort = option_map (map uncapE) (build_kind c KSort).
Proof.
  cbn [build_kind]. change (c_sort (no_limit c)) with (c_sort c). change (c_take (no_limit c)) with (@None N).
  destruct (map_opt parse_sorter (c_sort c)) as [l|]; [|reflexivity].
  cbn [option_map]. f_equal. rewrite map_rev. f_equal.
  destruct l as [|[e d] l]; [reflexivity|]. cbn [map ChainProofs.uncap]. f_equal.
  rewrite map_map. apply map_ext. intros ed. reflexivity.
Qed.

(* --- invariance under with_group --- *)
Lemma printer_with_group c g : get_printer (with_group c g) = get_printer c.
Proof. reflexivity. Qed.
Lemma limit_with_group c g : build_kind (with_group c g) KLimit = build_kind c KLimit.
Proof. reflexivity. Qed.
Lemma sort_with_group c g : build_kind (with_group c g) KSort = build_kind c KSort.
Proof. reflexivity. Qed.
Lemma head_with_group c g : build_head (with_group c g) = build_head c.
Proof. reflexivity. Qed.

(* ====================================================================================================== *)
(* titles                                                                                                 *)
(* ====================================================================================================== *)
Lemma titles_limit_stages s t (post : list stage) acc :
  titles expr (limit_stages s t ++ post) acc = titles expr post acc.
Proof. destruct s as [|q]; destruct t as [t|]; reflexivity. Qed.

Lemma titles_uncap_app (pre X Y : list stage) :
  (forall acc, titles expr X acc = titles expr Y acc) ->
  forall acc, titles expr (pre ++ X) acc = titles expr (map uncapE pre ++ Y) acc.
Proof.
  intros HXY. induction pre as [|s pre IH]; intros acc; [exact (HXY acc)|].
  destruct s; cbn [app map ChainProofs.uncap titles]; apply IH.
Qed.

Lemma titles_collector (pre : list stage) s acc :
  (match s with SGroup _ | SMerge => True | _ => False end) -> titles expr (pre ++ [s]) acc = [].
Proof.
  intros Hs. revert acc. induction pre as [|s' pre IH]; intros acc.
  - destruct s; try destruct Hs; reflexivity.
  - destruct s'; cbn [app titles]; apply IH.
Qed.

(* ====================================================================================================== *)
(* the specification around the limiter                                                                   *)
(* ====================================================================================================== *)
Lemma spec_limit_stages s t (post : list stage) (cs : list ectx) :
  spec expr get (limit_stages s t ++ post) cs = spec expr get post (slice s t cs).
Proof. destruct s as [|q]; destruct t as [t|]; reflexivity. Qed.

Lemma spec_around_limit (pre post : list stage) s t (cs : list ectx) :
  spec expr get (pre ++ limit_stages s t ++ post) cs =
  spec expr get post (slice s t (spec expr get (map uncapE pre) cs)).
Proof. rewrite spec_app, spec_limit_stages, spec_uncap. reflexivity. Qed.

(* the streaming front has no sorter: removing capacities leaves it unchanged *)
Lemma head_pass c h : build_head c = Some h -> Forall pass h.
Proof.
  unfold build_head. intros H.
  destruct (build_kind c KUniq) as [u|] eqn:Eu; [|discriminate H].
  destruct (build_kind c KSelect) as [se|] eqn:Ese; [|discriminate H].
  destruct (build_kind c KFilter) as [f|] eqn:Ef; [|discriminate H].
  destruct (build_kind c KSplit) as [sp|] eqn:Esp; [|discriminate H].
  destruct (build_kind c KPreSet) as [ps|] eqn:Eps; [|discriminate H].
  inversion H; subst h; clear H.
  assert (Hu : Forall pass u).
  { cbn [build_kind] in Eu. destruct (c_unique c); inversion Eu; repeat constructor. }
  assert (Hse : Forall pass se).
  { cbn [build_kind] in Ese. eapply map_opt_forall; [|exact Ese]. intros a b Hab.
    cbn beta in Hab. destruct (parse_selection a) as [en|]; cbn [option_map] in Hab; [|discriminate Hab].
    inversion Hab. exact I. }
  assert (Hf : Forall pass f).
  { cbn [build_kind] in Ef. eapply opt_stage_pass; [|exact Ef]. intros a s Ha.
    cbn beta in Ha. destruct (parse_whole a); cbn [option_map] in Ha; [|discriminate Ha]. inversion Ha. exact I. }
  assert (Hsp : Forall pass sp).
  { cbn [build_kind] in Esp. eapply opt_stage_pass; [|exact Esp]. intros a s Ha.
    cbn beta in Ha. destruct (parse_whole a); cbn [option_map] in Ha; [|discriminate Ha]. inversion Ha. exact I. }
  assert (Hps : Forall pass ps).
  { cbn [build_kind] in Eps. destruct (c_set c) as [|x xs]; [inversion Eps; constructor|].
    destruct (map_opt parse_preset (x :: xs)) as [pl|]; [|discriminate].
    destruct (collect_presets pl [] []) as [[vs ds]|]; [|discriminate]. inversion Eps. repeat constructor. }
  repeat (apply Forall_app; split; try assumption).
Qed.

Lemma uncap_pass (h : list stage) : Forall pass h -> map uncapE h = h.
Proof.
  induction h as [|s h IH]; intros H; [reflexivity|]. inversion H as [|? ? Hs Hh]; subst.
  cbn [map]. rewrite (IH Hh). destruct s; try destruct Hs; reflexivity.
Qed.

(* ====================================================================================================== *)
(* decomposition of build_pipeline around the limiter                                                     *)
(* ====================================================================================================== *)
Theorem build_limit_decomp : forall c p sts,
  build_pipeline c = Some (p, sts) ->
  exists pre post,
    sts = pre ++ limit_stages (c_skip c) (c_take c) ++ post /\
    build_kind c KGroup = Some post /\
    build_pipeline (no_limit c) = Some (p, map uncapE pre ++ post).
Proof.
  intros c p sts H. rewrite build_pipeline_parts in H. rewrite build_pipeline_parts.
  unfold build_parts in *. unfold no_limit at 1 2 3 5.
  rewrite printer_with_limit, group_with_limit, head_with_limit, sort_no_limit.
  rewrite build_limit in *.
  destruct (get_printer c) as [p'|]; [|discriminate H].
  destruct (build_kind c KGroup) as [g|]; [|discriminate H].
  destruct (build_kind c KSort) as [so|]; [|discriminate H].
  destruct (build_head c) as [h|] eqn:Eh; [|discriminate H].
  inversion H; subst p' sts; clear H.
  exists (h ++ so), g. split; [rewrite <- app_assoc; reflexivity|]. split; [reflexivity|].
  cbn [option_map]. change (limit_stages (c_skip (no_limit c)) (c_take (no_limit c))) with (@nil stage).
  cbn [app]. rewrite map_app, <- app_assoc, (uncap_pass h (head_pass c h Eh)). reflexivity.
Qed.
Print Assumptions build_limit_decomp.

(* building succeeds for `c` iff it does without --skip/--take, with the same printer *)
Theorem build_limit_iff : forall c p,
  (exists sts, build_pipeline c = Some (p, sts)) <-> (exists sts0, build_pipeline (no_limit c) = Some (p, sts0)).
Proof.
  intros c p. split.
  - intros [sts H]. destruct (build_limit_decomp c p sts H) as (pre & post & _ & _ & H0). eauto.
  - intros [sts0 H]. rewrite build_pipeline_parts in H. rewrite build_pipeline_parts.
    unfold build_parts in *. unfold no_limit in H at 1 2 3 5.
    rewrite printer_with_limit, group_with_limit, head_with_limit, sort_no_limit in H.
    rewrite build_limit in *.
    destruct (get_printer c) as [p'|]; [|discriminate H].
    destruct (build_kind c KGroup) as [g|]; [|discriminate H].
    destruct (build_kind c KSort) as [so|]; [|discriminate H].
    destruct (build_head c) as [h|]; [|discriminate H].
    cbn [option_map] in H. inversion H; subst p'. eauto.
Qed.
Print Assumptions build_limit_iff.

(* ... and then the titles, hence the header and the success of `start`, are the same *)
Lemma titles_no_limit (pre post : list stage) s t acc :
  titles expr (map uncapE pre ++ post) acc = titles expr (pre ++ limit_stages s t ++ post) acc.
Proof. symmetry. apply titles_uncap_app. intros a. apply titles_limit_stages. Qed.

Theorem start_limit_iff : forall c,
  (exists p sts hdr, build_pipeline c = Some (p, sts) /\
                     start_output p (titles expr sts []) (c_rowsep c) = Some hdr) <->
  (exists p sts0 hdr, build_pipeline (no_limit c) = Some (p, sts0) /\
                      start_output p (titles expr sts0 []) (c_rowsep (no_limit c)) = Some hdr).
Proof.
  intros c. split.
  - intros (p & sts & hdr & Hb & Hs).
    destruct (build_limit_decomp c p sts Hb) as (pre & post & -> & _ & H0).
    exists p, (map uncapE pre ++ post), hdr. split; [exact H0|].
    rewrite titles_no_limit with (s := c_skip c) (t := c_take c). exact Hs.
  - intros (p & sts0 & hdr & Hb0 & Hs0).
    destruct (proj2 (build_limit_iff c p) (ex_intro _ sts0 Hb0)) as [sts Hb].
    destruct (build_limit_decomp c p sts Hb) as (pre & post & -> & _ & H0).
    rewrite Hb0 in H0. inversion H0; subst sts0.
    exists p, (pre ++ limit_stages (c_skip c) (c_take c) ++ post), hdr. split; [exact Hb|].
    rewrite <- titles_no_limit. exact Hs0.
Qed.
Print Assumptions start_limit_iff.

(* ====================================================================================================== *)
(* decomposition of build_pipeline around the collector (--group-by / --merge)                            *)
(* ====================================================================================================== *)
(* the parsed --group-by key: Some None is --merge *)
Definition group_key (g : option (list byte)) : option (option expr) :=
  match g with None => Some None | Some k => option_map Some (parse_whole k) end.
Definition collector_stage (o : option expr) : stage :=
  match o with Some e => SGroup e | None => SMerge end.
(* the one value a collector makes of the rows it receives *)
Definition collection (o : option expr) (rows : list ectx) : json :=
  match o with Some e => group_spec expr get e rows | None => merge_spec expr rows end.

Lemma build_group_key c g :
  c_group c = Some g -> build_kind c KGroup = option_map (fun o => [collector_stage o]) (group_key g).
Proof.
  intros Hg. cbn [build_kind]. rewrite Hg. destruct g as [k|]; [|reflexivity].
  cbn [group_key]. destruct (parse_whole k); reflexivity.
Qed.

Lemma build_no_group c : build_kind (no_group c) KGroup = Some [].
Proof. reflexivity. Qed.

Lemma spec_collector o (rows : list ectx) :
  spec expr get [collector_stage o] rows = [new_with_no_context (collection o rows)].
Proof. destruct o; reflexivity. Qed.

Lemma collection_empty o : collection o [] = match o with Some _ => JObj [] | None => JArr [] end.
Proof. destruct o as [e|]; [exact (group_empty expr get e)|exact (merge_empty expr)]. Qed.

Theorem build_group_decomp : forall c g p sts,
  c_group c = Some g -> build_pipeline c = Some (p, sts) ->
  exists pre o,
    group_key g = Some o /\ sts = pre ++ [collector_stage o] /\
    build_pipeline (no_group c) = Some (p, pre).
Proof.
  intros c g p sts Hg H. rewrite build_pipeline_parts in H. rewrite build_pipeline_parts.
  unfold build_parts in *. unfold no_group at 1 3 4 5.
  rewrite printer_with_group, limit_with_group, head_with_group, sort_with_group, build_no_group.
  rewrite (build_group_key c g Hg) in H.
  destruct (get_printer c) as [p'|]; [|discriminate H].
  destruct (group_key g) as [o|]; [|discriminate H]. cbn [option_map] in H.
  destruct (build_kind c KLimit) as [l|]; [|discriminate H].
  destruct (build_kind c KSort) as [so|]; [|discriminate H].
  destruct (build_head c) as [h|]; [|discriminate H].
  inversion H; subst p' sts; clear H.
  exists (h ++ so ++ l), o. split; [reflexivity|]. split.
  - rewrite <- !app_assoc. reflexivity.
  - rewrite app_nil_r. reflexivity.
Qed.
Print Assumptions build_group_decomp.

(* building with a collector succeeds iff it does without and the key (if any) parses *)
Theorem build_group_iff : forall c g p,
  c_group c = Some g ->
  ((exists sts, build_pipeline c = Some (p, sts)) <->
   (exists pre, build_pipeline (no_group c) = Some (p, pre)) /\ group_key g <> None).
Proof.
  intros c g p Hg. split.
  - intros [sts H]. destruct (build_group_decomp c g p sts Hg H) as (pre & o & Ho & _ & H0).
    split; [eauto|]. rewrite Ho. discriminate.
  - intros [[pre H] Hk]. rewrite build_pipeline_parts in H. rewrite build_pipeline_parts.
    unfold build_parts in *. unfold no_group in H at 1 3 4 5.
    rewrite printer_with_group, limit_with_group, head_with_group, sort_with_group, build_no_group in H.
    rewrite (build_group_key c g Hg).
    destruct (get_printer c) as [p'|]; [|discriminate H].
    destruct (group_key g) as [o|]; [|exfalso; apply Hk; reflexivity]. cbn [option_map].
    destruct (build_kind c KLimit) as [l|]; [|discriminate H].
    destruct (build_kind c KSort) as [so|]; [|discriminate H].
    destruct (build_head c) as [h|]; [|discriminate H].
    inversion H; subst p'. eauto.
Qed.
Print Assumptions build_group_iff.

(* with a collector the titles are reset: `start` succeeds only without a header row, and then it also
   succeeds, without a header row, whatever the titles are *)
Lemma start_no_titles p rowsep hdr :
  start_output p [] rowsep = Some hdr -> hdr = [] /\ forall ts rs, start_output p ts rs = Some [].
Proof.
  destruct p as [st u|o]; cbn [start_output].
  - intros H. inversion H. split; reflexivity.
  - destruct (headers o); [discriminate|]. intros H. inversion H. split; reflexivity.
Qed.

(* ====================================================================================================== *)
(* P1 — C08 for the whole program: `go cf` against `go (no_limit cf)`                                     *)
(* ====================================================================================================== *)
Lemma emit_slice cf p nt s t (rows : list ectx) :
  emit cf p nt (slice s t rows) = slice s t (emit cf p nt rows).
Proof. unfold emit. symmetry. apply slice_map. Qed.

(* General form.  `pre0` are the stages of the unlimited run up to the place of the limiter, `post` is what
   follows it ([] or the one collector).  The unlimited run builds and starts with the same printer and
   header; the rows of `go cf` are the rows S..S+T-1 of what `pre0` yields, passed through `post`. *)
Theorem program_limit : forall (cf : cfg) (fname : option str) (evs : list ev) (b : bool) p sts hdr,
  c_on_error cf = OnIgnore -> Forall (fun e => e <> EErr) evs ->
  build_pipeline cf = Some (p, sts) ->
  start_output p (titles expr sts []) (c_rowsep cf) = Some hdr ->
  (forall t, c_take cf = Some t -> c_skip cf + t <= 18446744073709551615) ->
  exists pre0 post,
    build_pipeline (no_limit cf) = Some (p, pre0 ++ post) /\
    start_output p (titles expr (pre0 ++ post) []) (c_rowsep (no_limit cf)) = Some hdr /\
    titles expr (pre0 ++ post) [] = titles expr sts [] /\
    build_kind cf KGroup = Some post /\
    let cs := fst (fst (ctxs_of_input cf fname evs)) in
    let nt := length (titles expr sts []) in
    let rows0 := spec expr get pre0 cs in
    spec expr get sts cs = spec expr get post (slice (c_skip cf) (c_take cf) rows0) /\
    g_result (go (no_limit cf) [(fname, evs)] b) = GOk /\
    g_events (go (no_limit cf) [(fname, evs)] b) = hdr_events hdr ++ emit cf p nt (spec expr get post rows0) /\
    g_result (go cf [(fname, evs)] b) = GOk /\
    g_events (go cf [(fname, evs)] b) =
      hdr_events hdr ++ emit cf p nt (spec expr get post (slice (c_skip cf) (c_take cf) rows0)).
Proof.
  intros cf fname evs b p sts hdr Hign Hevs Hbp Hst Hov.
  destruct (build_limit_decomp cf p sts Hbp) as (pre & post & Hsts & Hg & Hbp0).
  assert (Ht : titles expr (map uncapE pre ++ post) [] = titles expr sts []).
  { rewrite Hsts. apply titles_no_limit. }
  assert (Hst0 : start_output p (titles expr (map uncapE pre ++ post) []) (c_rowsep (no_limit cf)) = Some hdr).
  { rewrite Ht. exact Hst. }
  exists (map uncapE pre), post.
  split; [exact Hbp0|]. split; [exact Hst0|]. split; [exact Ht|]. split; [exact Hg|].
  intros cs nt rows0. subst rows0 nt cs.
  assert (Hspec : forall cs, spec expr get sts cs =
                    spec expr get post (slice (c_skip cf) (c_take cf) (spec expr get (map uncapE pre) cs))).
  { intros cs. rewrite Hsts. apply spec_around_limit. }
  destruct (C03_program cf fname evs b p sts hdr Hign Hevs Hbp Hst Hov) as [R E].
  assert (Hov0 : forall t, c_take (no_limit cf) = Some t ->
                           c_skip (no_limit cf) + t <= 18446744073709551615) by (intros t Ht0; discriminate Ht0).
  destruct (C03_program (no_limit cf) fname evs b p (map uncapE pre ++ post) hdr Hign Hevs Hbp0 Hst0 Hov0) as [R0 E0].
  split; [apply Hspec|]. split; [exact R0|]. split; [|split; [exact R|]].
  - rewrite E0, Ht. change (ctxs_of_input (no_limit cf) fname evs) with (ctxs_of_input cf fname evs).
    rewrite spec_app. reflexivity.
  - rewrite E, Hspec. reflexivity.
Qed.
Print Assumptions program_limit.

(* P1, without --group-by/--merge: the rows written with --skip S --take T are exactly rows S..S+T-1 of the
   rows written without them, after the same header *)
Theorem program_slice : forall (cf : cfg) (fname : option str) (evs : list ev) (b : bool) p sts hdr,
  c_on_error cf = OnIgnore -> Forall (fun e => e <> EErr) evs ->
  build_pipeline cf = Some (p, sts) ->
  start_output p (titles expr sts []) (c_rowsep cf) = Some hdr ->
  (forall t, c_take cf = Some t -> c_skip cf + t <= 18446744073709551615) ->
  c_group cf = None ->
  exists sts0,
    build_pipeline (no_limit cf) = Some (p, sts0) /\
    start_output p (titles expr sts0 []) (c_rowsep (no_limit cf)) = Some hdr /\
    let cs := fst (fst (ctxs_of_input cf fname evs)) in
    let nt := length (titles expr sts []) in
    let rows0 := spec expr get sts0 cs in
    spec expr get sts cs = slice (c_skip cf) (c_take cf) rows0 /\
    g_result (go (no_limit cf) [(fname, evs)] b) = GOk /\
    g_events (go (no_limit cf) [(fname, evs)] b) = hdr_events hdr ++ emit cf p nt rows0 /\
    g_result (go cf [(fname, evs)] b) = GOk /\
    g_events (go cf [(fname, evs)] b) = hdr_events hdr ++ slice (c_skip cf) (c_take cf) (emit cf p nt rows0).
Proof.
  intros cf fname evs b p sts hdr Hign Hevs Hbp Hst Hov Hng.
  destruct (program_limit cf fname evs b p sts hdr Hign Hevs Hbp Hst Hov)
    as (pre0 & post & Hbp0 & Hst0 & _ & Hg & H).
  cbn [build_kind] in Hg. rewrite Hng in Hg. inversion Hg; subst post. rewrite app_nil_r in *.
  exists pre0. split; [exact Hbp0|]. split; [exact Hst0|].
  intros cs nt rows0. cbv zeta in H. cbn [spec] in H.
  destruct H as (H1 & H2 & H3 & H4 & H5).
  split; [exact H1|]. split; [exact H2|]. split; [exact H3|]. split; [exact H4|].
  rewrite H5. rewrite emit_slice. reflexivity.
Qed.
Print Assumptions program_slice.

(* ====================================================================================================== *)
(* P2 — C09 for the whole program: `go cf` against `go (no_group cf)`                                     *)
(* ====================================================================================================== *)
Lemma spec_one_collection (pre : list stage) o (cs : list ectx) :
  wfpE (pre ++ [collector_stage o]) -> wfpE pre ->
  spec expr get (pre ++ [collector_stage o]) cs = [new_with_no_context (collection o (spec expr get pre cs))].
Proof.
  intros H1 H2. rewrite <- (C03_refines expr get _ H1), <- (C03_refines expr get _ H2).
  destruct o as [e|]; cbn [collector_stage collection].
  - exact (pp_group_one_row expr get pre e cs H1 H2).
  - exact (pp_merge_one_row expr get pre cs H1 H2).
Qed.

Theorem program_collect : forall (cf : cfg) g (fname : option str) (evs : list ev) (b : bool) p sts hdr,
  c_group cf = Some g ->
  c_on_error cf = OnIgnore -> Forall (fun e => e <> EErr) evs ->
  build_pipeline cf = Some (p, sts) ->
  start_output p (titles expr sts []) (c_rowsep cf) = Some hdr ->
  (forall t, c_take cf = Some t -> c_skip cf + t <= 18446744073709551615) ->
  exists pre o,
    group_key g = Some o /\ sts = pre ++ [collector_stage o] /\ hdr = [] /\
    build_pipeline (no_group cf) = Some (p, pre) /\
    start_output p (titles expr pre []) (c_rowsep (no_group cf)) = Some [] /\
    let cs := fst (fst (ctxs_of_input cf fname evs)) in
    let rows := spec expr get pre cs in
    g_result (go (no_group cf) [(fname, evs)] b) = GOk /\
    g_events (go (no_group cf) [(fname, evs)] b) = emit cf p (length (titles expr pre [])) rows /\
    g_result (go cf [(fname, evs)] b) = GOk /\
    g_events (go cf [(fname, evs)] b) =
      [OOut (print_row p 0 (c_rowsep cf) (new_with_no_context (collection o rows)))].
Proof.
  intros cf g fname evs b p sts hdr Hgr Hign Hevs Hbp Hst Hov.
  destruct (build_group_decomp cf g p sts Hgr Hbp) as (pre & o & Ho & Hsts & Hbpu).
  assert (Ht : titles expr sts [] = []).
  { rewrite Hsts. apply titles_collector. destruct o; exact I. }
  rewrite Ht in Hst. destruct (start_no_titles p _ hdr Hst) as [Hh Hany].
  exists pre, o. split; [exact Ho|]. split; [exact Hsts|]. split; [exact Hh|]. split; [exact Hbpu|].
  split; [apply Hany|]. intros cs rows.
  assert (Hst' : start_output p (titles expr sts []) (c_rowsep cf) = Some hdr) by (rewrite Ht; exact Hst).
  destruct (C03_program cf fname evs b p sts hdr Hign Hevs Hbp Hst' Hov) as [R E].
  destruct (C03_program (no_group cf) fname evs b p pre [] Hign Hevs Hbpu (Hany _ _) Hov) as [Ru Eu].
  split; [exact Ru|]. split; [exact Eu|]. split; [exact R|].
  rewrite E, Ht, Hh. fold cs.
  assert (W1 : wfpE sts) by exact (build_wfp cf p sts Hbp Hov).
  assert (W2 : wfpE pre) by exact (build_wfp (no_group cf) p pre Hbpu Hov).
  rewrite Hsts in W1 |- *. rewrite (spec_one_collection pre o cs W1 W2). reflexivity.
Qed.
Print Assumptions program_collect.

(* --group-by k: ONE row, the object grouping (by the parsed key) the rows written without --group-by;
   `{}` when no row survives *)
Theorem program_group_by : forall (cf : cfg) k (fname : option str) (evs : list ev) (b : bool) p sts hdr,
  c_group cf = Some (Some k) ->
  c_on_error cf = OnIgnore -> Forall (fun e => e <> EErr) evs ->
  build_pipeline cf = Some (p, sts) ->
  start_output p (titles expr sts []) (c_rowsep cf) = Some hdr ->
  (forall t, c_take cf = Some t -> c_skip cf + t <= 18446744073709551615) ->
  exists pre e,
    parse_whole k = Some e /\
    build_pipeline (no_group cf) = Some (p, pre) /\
    start_output p (titles expr pre []) (c_rowsep (no_group cf)) = Some [] /\
    let cs := fst (fst (ctxs_of_input cf fname evs)) in
    let rows := spec expr get pre cs in
    g_result (go (no_group cf) [(fname, evs)] b) = GOk /\
    g_events (go (no_group cf) [(fname, evs)] b) = emit cf p (length (titles expr pre [])) rows /\
    g_result (go cf [(fname, evs)] b) = GOk /\
    g_events (go cf [(fname, evs)] b) =
      [OOut (print_row p 0 (c_rowsep cf) (new_with_no_context (group_spec expr get e rows)))] /\
    (rows = [] -> g_events (go cf [(fname, evs)] b) =
                  [OOut (print_row p 0 (c_rowsep cf) (new_with_no_context (JObj [])))]).
Proof.
  intros cf k fname evs b p sts hdr Hgr Hign Hevs Hbp Hst Hov.
  destruct (program_collect cf (Some k) fname evs b p sts hdr Hgr Hign Hevs Hbp Hst Hov)
    as (pre & o & Ho & _ & _ & Hbpu & Hstu & H).
  cbn [group_key] in Ho. destruct (parse_whole k) as [e|] eqn:Ek; [|discriminate Ho].
  inversion Ho; subst o. exists pre, e. split; [reflexivity|]. split; [exact Hbpu|]. split; [exact Hstu|].
  intros cs rows. cbv zeta in H. cbn [collection] in H. destruct H as (H1 & H2 & H3 & H4).
  split; [exact H1|]. split; [exact H2|]. split; [exact H3|]. split; [exact H4|].
  intros Hr. rewrite H4. fold cs. fold rows. rewrite Hr, (group_empty expr get e). reflexivity.
Qed.
Print Assumptions program_group_by.

(* --merge: ONE row, the array of the rows written without --merge; `[]` when no row survives *)
Theorem program_merge : forall (cf : cfg) (fname : option str) (evs : list ev) (b : bool) p sts hdr,
  c_group cf = Some None ->
  c_on_error cf = OnIgnore -> Forall (fun e => e <> EErr) evs ->
  build_pipeline cf = Some (p, sts) ->
  start_output p (titles expr sts []) (c_rowsep cf) = Some hdr ->
  (forall t, c_take cf = Some t -> c_skip cf + t <= 18446744073709551615) ->
  exists pre,
    build_pipeline (no_group cf) = Some (p, pre) /\
    start_output p (titles expr pre []) (c_rowsep (no_group cf)) = Some [] /\
    let cs := fst (fst (ctxs_of_input cf fname evs)) in
    let rows := spec expr get pre cs in
    g_result (go (no_group cf) [(fname, evs)] b) = GOk /\
    g_events (go (no_group cf) [(fname, evs)] b) = emit cf p (length (titles expr pre [])) rows /\
    g_result (go cf [(fname, evs)] b) = GOk /\
    g_events (go cf [(fname, evs)] b) =
      [OOut (print_row p 0 (c_rowsep cf) (new_with_no_context (JArr (map build rows))))] /\
    (rows = [] -> g_events (go cf [(fname, evs)] b) =
                  [OOut (print_row p 0 (c_rowsep cf) (new_with_no_context (JArr [])))]).
Proof.
  intros cf fname evs b p sts hdr Hgr Hign Hevs Hbp Hst Hov.
  destruct (program_collect cf None fname evs b p sts hdr Hgr Hign Hevs Hbp Hst Hov)
    as (pre & o & Ho & _ & _ & Hbpu & Hstu & H).
  cbn [group_key] in Ho. inversion Ho; subst o. exists pre. split; [exact Hbpu|]. split; [exact Hstu|].
  intros cs rows. cbv zeta in H. cbn [collection] in H. unfold merge_spec in H. destruct H as (H1 & H2 & H3 & H4).
  split; [exact H1|]. split; [exact H2|]. split; [exact H3|]. split; [exact H4|].
  intros Hr. rewrite H4. fold cs. fold rows. rewrite Hr. reflexivity.
Qed.
Print Assumptions program_merge.

(* ====================================================================================================== *)
(* P1 with a collector after the limiter: `go cf` against `go (no_group (no_limit cf))`                   *)
(* ====================================================================================================== *)
Theorem program_slice_collect : forall (cf : cfg) g (fname : option str) (evs : list ev) (b : bool) p sts hdr,
  c_group cf = Some g ->
  c_on_error cf = OnIgnore -> Forall (fun e => e <> EErr) evs ->
  build_pipeline cf = Some (p, sts) ->
  start_output p (titles expr sts []) (c_rowsep cf) = Some hdr ->
  (forall t, c_take cf = Some t -> c_skip cf + t <= 18446744073709551615) ->
  exists pre00 o,
    group_key g = Some o /\ hdr = [] /\
    build_pipeline (no_group (no_limit cf)) = Some (p, pre00) /\
    start_output p (titles expr pre00 []) (c_rowsep (no_group (no_limit cf))) = Some [] /\
    let cs := fst (fst (ctxs_of_input cf fname evs)) in
    let rows00 := spec expr get pre00 cs in
    g_result (go (no_group (no_limit cf)) [(fname, evs)] b) = GOk /\
    g_events (go (no_group (no_limit cf)) [(fname, evs)] b) = emit cf p (length (titles expr pre00 [])) rows00 /\
    g_result (go cf [(fname, evs)] b) = GOk /\
    g_events (go cf [(fname, evs)] b) =
      [OOut (print_row p 0 (c_rowsep cf)
               (new_with_no_context (collection o (slice (c_skip cf) (c_take cf) rows00))))].
Proof.
  intros cf g fname evs b p sts hdr Hgr Hign Hevs Hbp Hst Hov.
  destruct (program_limit cf fname evs b p sts hdr Hign Hevs Hbp Hst Hov)
    as (pre0 & post & Hbp0 & Hst0 & Ht & Hg & H).
  assert (Hov0 : forall t, c_take (no_limit cf) = Some t ->
                           c_skip (no_limit cf) + t <= 18446744073709551615) by (intros t Ht0; discriminate Ht0).
  destruct (program_collect (no_limit cf) g fname evs b p (pre0 ++ post) hdr Hgr Hign Hevs Hbp0 Hst0 Hov0)
    as (pre' & o & Ho & Hsplit & Hh & Hbp00 & Hst00 & H').
  rewrite (build_group_key cf g Hgr), Ho in Hg. cbn [option_map] in Hg. inversion Hg; subst post.
  apply app_inj_tail in Hsplit. destruct Hsplit as [<- _].
  exists pre0, o. split; [exact Ho|]. split; [exact Hh|]. split; [exact Hbp00|]. split; [exact Hst00|].
  intros cs rows00. cbv zeta in H, H'.
  destruct H as (_ & _ & _ & R & E). destruct H' as (R00 & E00 & _ & _).
  split; [exact R00|]. split; [exact E00|]. split; [exact R|].
  rewrite E, <- Ht, Hh. rewrite (titles_collector pre0 (collector_stage o) []) by (destruct o; exact I).
  rewrite spec_collector. reflexivity.
Qed.
Print Assumptions program_slice_collect.

(* ====================================================================================================== *)
(* P3 — non-vacuity: --sort-by .a --skip 1 --take 2 on five records, without and with --group-by .g       *)
(* ====================================================================================================== *)
(* input record {"a":D,"g":"G"} and newline; D, G one ASCII character each *)
Definition ex_rec (d g : N) : list byte := [123; 34; 97; 34; 58; d; 44; 34; 103; 34; 58; 34; g; 34; 125; 10].
(* a=3 g=x, a=1 g=y, a=5 g=x, a=2 g=y, a=4 g=x *)
Definition ex_bytes : list byte :=
  ex_rec 51 120 ++ ex_rec 49 121 ++ ex_rec 53 120 ++ ex_rec 50 121 ++ ex_rec 52 120.
Definition ex_evs : list ev := map EB ex_bytes.
Definition ex_in : list (option str * list ev) := [(None, ex_evs)].
(* jawk --sort-by .a --skip 1 --take 2 *)
Definition ex_cfg : cfg :=
  {| c_on_error := OnIgnore; c_select := []; c_filter := None; c_split := None; c_group := None;
     c_sort := [[46; 97]]; c_skip := 1; c_take := Some 2; c_unique := false; c_set := [];
     c_only_objs := false; c_style := StyleJson; c_rowsep := [10];
     c_json_opts := None; c_text_opts := None |}.
(* ... --group-by .g *)
Definition ex_cfg_g : cfg := with_group ex_cfg (Some (Some [46; 103])).

(* printed value {"a": D, "g": "G"} *)
Definition ex_obj (d g : N) : list byte :=
  [123; 34; 97; 34; 58; 32; d; 44; 32; 34; 103; 34; 58; 32; 34; g; 34; 125].
Definition ex_row (d g : N) : oev := OOut (ex_obj d g ++ [10]).
Definition ex_all_rows : list oev := [ex_row 49 121; ex_row 50 121; ex_row 51 120; ex_row 52 120; ex_row 53 120].
Definition ex_two_rows : list oev := [ex_row 50 121; ex_row 51 120].
(* {"y": [{"a": 2, "g": "y"}], "x": [{"a": 3, "g": "x"}]} *)
Definition ex_grouped : list oev :=
  [OOut ([123; 34; 121; 34; 58; 32; 91] ++ ex_obj 50 121 ++ [93; 44; 32; 34; 120; 34; 58; 32; 91] ++
         ex_obj 51 120 ++ [93; 125; 10])].

(* the hypotheses of program_slice hold for ex_cfg, and both sides of its conclusion are the two rows
   a=2, a=3 (rows 1..2 of the five sorted rows) *)
Example ex_program_slice :
  c_on_error ex_cfg = OnIgnore /\ Forall (fun e => e <> EErr) ex_evs /\ c_group ex_cfg = None /\
  (forall t, c_take ex_cfg = Some t -> c_skip ex_cfg + t <= 18446744073709551615) /\
  exists p sts sts0,
    build_pipeline ex_cfg = Some (p, sts) /\
    start_output p (titles expr sts []) (c_rowsep ex_cfg) = Some [] /\
    build_pipeline (no_limit ex_cfg) = Some (p, sts0) /\
    let rows0 := spec expr get sts0 (fst (fst (ctxs_of_input ex_cfg None ex_evs))) in
    g_events (go (no_limit ex_cfg) ex_in true) = ex_all_rows /\
    emit ex_cfg p (length (titles expr sts [])) rows0 = ex_all_rows /\
    g_events (go ex_cfg ex_in true) = ex_two_rows /\
    hdr_events [] ++ slice (c_skip ex_cfg) (c_take ex_cfg) (emit ex_cfg p (length (titles expr sts [])) rows0)
      = ex_two_rows.
Proof.
  split; [reflexivity|]. split; [exact (no_eerr_bytes ex_bytes)|]. split; [reflexivity|].
  split; [intros t Ht; inversion Ht; subst t; vm_compute; discriminate|].
  eexists. eexists. eexists.
  split; [vm_compute; reflexivity|]. split; [vm_compute; reflexivity|]. split; [vm_compute; reflexivity|].
  cbv zeta. repeat split; vm_compute; reflexivity.
Qed.

(* the theorem applied to the example: the conclusion is inhabited, not only its hypotheses *)
Example ex_program_slice_applied :
  g_events (go ex_cfg ex_in true) =
  slice 1 (Some 2) (g_events (go (no_limit ex_cfg) ex_in true)).
Proof.
  destruct ex_program_slice as (H1 & H2 & H3 & H4 & p & sts & sts0 & Hb & Hs & Hb0 & _).
  destruct (program_slice ex_cfg None ex_evs true p sts [] H1 H2 Hb Hs H4 H3) as (sts0' & Hb0' & _ & H).
  cbv zeta in H. destruct H as (_ & _ & E0 & _ & E).
  fold ex_in in E0, E. rewrite E, E0. reflexivity.
Qed.

(* the same with --group-by .g: the hypotheses of program_slice_collect hold for ex_cfg_g, and both sides
   of its conclusion are the one object grouping rows a=2 (y) and a=3 (x) *)
Example ex_program_slice_collect :
  c_on_error ex_cfg_g = OnIgnore /\ Forall (fun e => e <> EErr) ex_evs /\
  c_group ex_cfg_g = Some (Some [46; 103]) /\
  (forall t, c_take ex_cfg_g = Some t -> c_skip ex_cfg_g + t <= 18446744073709551615) /\
  exists p sts pre00 e,
    build_pipeline ex_cfg_g = Some (p, sts) /\
    start_output p (titles expr sts []) (c_rowsep ex_cfg_g) = Some [] /\
    build_pipeline (no_group (no_limit ex_cfg_g)) = Some (p, pre00) /\
    group_key (Some [46; 103]) = Some (Some e) /\
    let rows00 := spec expr get pre00 (fst (fst (ctxs_of_input ex_cfg_g None ex_evs))) in
    g_events (go (no_group (no_limit ex_cfg_g)) ex_in true) = ex_all_rows /\
    emit ex_cfg_g p (length (titles expr pre00 [])) rows00 = ex_all_rows /\
    g_events (go ex_cfg_g ex_in true) = ex_grouped /\
    [OOut (print_row p 0 (c_rowsep ex_cfg_g)
             (new_with_no_context (collection (Some e) (slice (c_skip ex_cfg_g) (c_take ex_cfg_g) rows00))))]
      = ex_grouped.
Proof.
  split; [reflexivity|]. split; [exact (no_eerr_bytes ex_bytes)|]. split; [reflexivity|].
  split; [intros t Ht; inversion Ht; subst t; vm_compute; discriminate|].
  eexists. eexists. eexists. eexists.
  split; [vm_compute; reflexivity|]. split; [vm_compute; reflexivity|]. split; [vm_compute; reflexivity|].
  split; [vm_compute; reflexivity|].
  cbv zeta. repeat split; vm_compute; reflexivity.
Qed.

(* P2 on the example: go with --group-by .g writes the grouping of what go without it writes *)
Example ex_program_group_by :
  exists p pre e,
    build_pipeline (no_group ex_cfg_g) = Some (p, pre) /\ parse_whole [46; 103] = Some e /\
    let rows := spec expr get pre (fst (fst (ctxs_of_input ex_cfg_g None ex_evs))) in
    g_events (go (no_group ex_cfg_g) ex_in true) = ex_two_rows /\
    emit ex_cfg_g p (length (titles expr pre [])) rows = ex_two_rows /\
    g_events (go ex_cfg_g ex_in true) = ex_grouped /\
    [OOut (print_row p 0 (c_rowsep ex_cfg_g) (new_with_no_context (group_spec expr get e rows)))] = ex_grouped.
Proof.
  eexists. eexists. eexists.
  split; [vm_compute; reflexivity|]. split; [vm_compute; reflexivity|].
  cbv zeta. repeat split; vm_compute; reflexivity.
Qed.
Print Assumptions ex_program_slice.
Print Assumptions ex_program_slice_applied.
Print Assumptions ex_program_slice_collect.
Print Assumptions ex_program_group_by.
