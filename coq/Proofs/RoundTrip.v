(* RoundTrip.v — the printer composed with the parser (C02 fixpoint, C19 integers): what jawk prints, jawk
   reads back as exactly the same values. *)
From Jawk Require Import Base F64 Json Reader JsonParser Stream Printer Render ReaderLemmas ParserProofs PrinterProofs Go GoProofs.
Local Open Scope N_scope.

Definition row_item (st : jstyle) (utf8 : bool) (v : json) : sjson * ws := (canon st utf8 0 v, [10]).

Lemma rows_stream_wf st utf8 vs : Forall (printable utf8) vs -> stream_wf [] (map (row_item st utf8) vs).
Proof.
  intros H. split; [constructor|]. split.
  - apply Forall_forall. intros tw Hin. apply in_map_iff in Hin as (v & <- & Hv).
    rewrite Forall_forall in H. apply (print_is_render st utf8 v 0 (H v Hv)).
  - induction vs as [|v vs IH]; [exact I|]. cbn [map seps_ok row_item fst snd].
    inversion H as [|? ? Hv Hvs]; subst. split; [|split].
    + repeat constructor.
    + intros _ _. discriminate.
    + apply IH, Hvs.
Qed.

Lemma rows_values st utf8 vs : Forall (printable utf8) vs ->
  Forall2 (fun tw v => value_of (fst tw) = Some v) (map (row_item st utf8) vs) vs.
Proof.
  induction vs as [|v vs IH]; intros H; [constructor|].
  inversion H as [|? ? Hv Hvs]; subst. constructor; [|apply IH, Hvs].
  apply (print_is_render st utf8 v 0 Hv).
Qed.

Lemma rows_render st utf8 vs : Forall (printable utf8) vs ->
  render_stream (map (row_item st utf8) vs) = concat (map (fun v => print_json st utf8 v ++ [10]) vs).
Proof.
  induction vs as [|v vs IH]; intros H; [reflexivity|].
  inversion H as [|? ? Hv Hvs]; subst. cbn [map render_stream row_item concat].
  rewrite IH by exact Hvs. unfold print_json.
  destruct (print_is_render st utf8 v 0 Hv) as (-> & _ & _). rewrite <- app_assoc. reflexivity.
Qed.

(* the parser reads the printed rows back as exactly the values printed, in every style *)
Theorem print_parse_roundtrip : forall st utf8 vs, Forall (printable utf8) vs ->
  values_of_bytes (concat (map (fun v => print_json st utf8 v ++ [10]) vs)) = (vs, 0).
Proof.
  intros st utf8 vs H. rewrite <- (rows_render st utf8 vs H).
  apply (values_of_stream [] (map (row_item st utf8) vs) vs (rows_stream_wf st utf8 vs H) (rows_values st utf8 vs H)).
Qed.

(* feeding jawk's default output back into jawk reproduces it byte for byte *)
Theorem go_fixpoint : forall vs, Forall (printable false) vs ->
  let out := concat (map (fun v => print_json OneLine false v ++ [10]) vs) in
  let g := go default_cfg [(None, map EB out)] true in
  g_result g = GOk /\ concat (map (fun e => match e with OOut b => b | OErr _ => [] end) (g_events g)) = out.
Proof.
  intros vs H out g.
  pose proof (go_default_rows [] (map (row_item OneLine false) vs) vs (rows_stream_wf OneLine false vs H) (rows_values OneLine false vs H)) as G.
  cbn zeta in G. rewrite (rows_render OneLine false vs H) in G. cbn [app] in G.
  destruct G as [R Ev]. split; [exact R|]. unfold g, out. rewrite Ev. rewrite map_map. reflexivity.
Qed.

(* integers in [-2^63, 2^64) survive printing and parsing untouched *)
Theorem int_roundtrip_pos : forall n, n <= 18446744073709551615 ->
  values_of_bytes (print_json OneLine false (JNum (NPos n)) ++ [10]) = ([JNum (NPos n)], 0).
Proof.
  intros n Hn. pose proof (print_parse_roundtrip OneLine false [JNum (NPos n)]) as R.
  cbn [map concat] in R. rewrite app_nil_r in R. apply R. constructor; [|constructor]. exact Hn.
Qed.
Theorem int_roundtrip_neg : forall z, (-9223372036854775808 <= z < 0)%Z ->
  values_of_bytes (print_json OneLine false (JNum (NNeg z)) ++ [10]) = ([JNum (NNeg z)], 0).
Proof.
  intros z Hz. pose proof (print_parse_roundtrip OneLine false [JNum (NNeg z)]) as R.
  cbn [map concat] in R. rewrite app_nil_r in R. apply R. constructor; [|constructor]. exact Hz.
Qed.
Print Assumptions go_fixpoint.
Print Assumptions int_roundtrip_neg.
