(* ParserProofs.v — the parser accepts every RFC 8259 text (Spec/Render.v) and returns the value
   the text denotes; the read loop yields the denoted values of a well-formed stream. *)
From Coq Require Import List NArith ZArith Bool Lia Zify ZifyClasses ZifyBool ZifyInst.
From Jawk Require Import Base F64 Json Reader JsonParser Stream.
From Jawk Require Import Render.
From Jawk Require Import ReaderLemmas.
Import ListNotations.
Local Open Scope N_scope.

#[local] Arguments N.add : simpl never.
#[local] Arguments N.mul : simpl never.
#[local] Arguments N.sub : simpl never.
#[local] Arguments N.div : simpl never.
#[local] Arguments N.modulo : simpl never.
#[local] Arguments N.eqb : simpl never.
#[local] Arguments N.ltb : simpl never.
#[local] Arguments N.leb : simpl never.

Ltac nb := change byte with N in *.

Lemma eqb_false a b : a <> b -> (a =? b) = false.
Proof. apply N.eqb_neq. Qed.
Lemma leb_true a b : a <= b -> (a <=? b) = true.
Proof. apply N.leb_le. Qed.
Lemma leb_false a b : b < a -> (a <=? b) = false.
Proof. apply N.leb_gt. Qed.

(* ================= hexadecimal digits ================= *)
Lemma hex_val_char up d : d < 16 -> hex_val (hex_char up d) = Some d.
Proof.
  intros Hd. unfold hex_val, hex_char. destruct (N.ltb_spec d 10) as [H|H].
  - rewrite (leb_true 48 (48 + d)), (leb_true (48 + d) 57) by lia. cbn [andb]. f_equal. lia.
  - destruct up.
    + rewrite (leb_false (55 + d) 57) by lia. rewrite andb_false_r.
      rewrite (leb_false 97 (55 + d)) by lia. cbn [andb].
      rewrite (leb_true 65 (55 + d)), (leb_true (55 + d) 70) by lia. cbn [andb]. f_equal. lia.
    + rewrite (leb_false (87 + d) 57) by lia. rewrite andb_false_r.
      rewrite (leb_true 97 (87 + d)), (leb_true (87 + d) 102) by lia. cbn [andb]. f_equal. lia.
Qed.

Lemma hex4_recompose c : c < 65536 ->
  (((0 * 16 + c / 4096) * 16 + (c / 256) mod 16) * 16 + (c / 16) mod 16) * 16 + c mod 16 = c.
Proof. intros. dlia. Qed.

Lemma read_hex4_spec r (p : byte) c u3 u2 u1 u0 (tl : list byte) :
  rd_ok r -> cur r = Some p -> c < 65536 ->
  view r = p :: hex_char u3 (c / 4096) :: hex_char u2 ((c / 256) mod 16) ::
                hex_char u1 ((c / 16) mod 16) :: hex_char u0 (c mod 16) :: tl ->
  exists r', read_hex4 4 0 r = (Some c, r') /\ rd_ok r' /\
             cur r' = Some (hex_char u0 (c mod 16)) /\ view r' = hex_char u0 (c mod 16) :: tl.
Proof.
  intros Hok Hc Hlt Hv. cbn [read_hex4].
  destruct (next_drop r p _ Hok Hc Hv) as (r1 & Hn1 & Hv1 & Hok1 & Hc1). rewrite Hn1.
  cbn [hd_error] in Hc1 |- *. rewrite hex_val_char by dlia.
  destruct (next_drop r1 _ _ Hok1 Hc1 Hv1) as (r2 & Hn2 & Hv2 & Hok2 & Hc2). rewrite Hn2.
  cbn [hd_error] in Hc2 |- *. rewrite hex_val_char by dlia.
  destruct (next_drop r2 _ _ Hok2 Hc2 Hv2) as (r3 & Hn3 & Hv3 & Hok3 & Hc3). rewrite Hn3.
  cbn [hd_error] in Hc3 |- *. rewrite hex_val_char by dlia.
  destruct (next_drop r3 _ _ Hok3 Hc3 Hv3) as (r4 & Hn4 & Hv4 & Hok4 & Hc4). rewrite Hn4.
  cbn [hd_error] in Hc4 |- *. rewrite hex_val_char by dlia.
  rewrite hex4_recompose by assumption. eauto.
Qed.

(* ================= the two escape tables agree ================= *)
Lemma esc_agree c b : esc_letter c two_char_escapes = Some b ->
  (b =? 117) = false /\ assoc_N b escape_table = Some c /\ c < 128.
Proof.
  unfold two_char_escapes. cbn [esc_letter].
  repeat match goal with |- context [N.eqb c ?k] =>
    destruct (N.eqb_spec c k) as [->|?];
      [intros H; injection H as <-; repeat split; reflexivity|] end.
  discriminate.
Qed.

Lemma low_scalar c : c < 128 -> is_scalar c = true /\ utf8_encode_char c = [c].
Proof.
  intros H. unfold is_scalar, utf8_encode_char.
  rewrite (ltb_true c 55296), (ltb_true c 128) by lia. auto.
Qed.

Lemma schar_scalar c : schar_ok c -> is_scalar (char_val c) = true.
Proof.
  destruct c as [c|c|c u3 u2 u1 u0]; cbn [schar_ok char_val].
  - tauto.
  - destruct (esc_letter c two_char_escapes) as [b|] eqn:E; [|congruence]. intros _.
    apply esc_agree in E. destruct E as (_ & _ & E). apply (low_scalar c E).
  - tauto.
Qed.

(* ================= strings ================= *)
(* bytes >= 128 are pushed raw *)
Lemma read_string_f_raw (bs : list byte) : forall fuel acc r (p : byte) (rst : list byte),
  Forall (fun b => 128 <= b) bs -> rd_ok r -> cur r = Some p -> view r = p :: bs ++ rst ->
  (length bs <= fuel)%nat ->
  exists r' p', read_string_f fuel acc r = read_string_f (fuel - length bs) (acc ++ bs) r' /\
                rd_ok r' /\ cur r' = Some p' /\ view r' = p' :: rst.
Proof.
  induction bs as [|b bs IH]; intros fuel acc r p rst Hbs Hok Hc Hv Hf.
  - cbn [length]. rewrite Nat.sub_0_r, app_nil_r. cbn [app] in Hv. eauto.
  - destruct fuel as [|f]; [cbn in Hf; lia|]. inversion Hbs as [|? ? Hb Hbs']; subst.
    cbn [app] in Hv. cbn [read_string_f].
    destruct (next_drop r p _ Hok Hc Hv) as (r1 & Hn1 & Hv1 & Hok1 & Hc1). rewrite Hn1.
    cbn [hd_error] in Hc1 |- *.
    rewrite (eqb_false b 34), (eqb_false b 92) by lia.
    destruct (IH f (acc ++ [b]) r1 b rst Hbs' Hok1 Hc1 Hv1) as (r2 & p2 & E & ? & ? & ?);
      [cbn in Hf; lia|].
    nb. rewrite E. rewrite <- app_assoc. cbn [app length Nat.sub]. eauto.
Qed.

Lemma str_val_cons c cs : str_val (c :: cs) = char_val c :: str_val cs.
Proof. reflexivity. Qed.

Lemma read_string_f_spec cs : forall fuel acc r (p : byte) (tl : list byte),
  rd_ok r -> cur r = Some p -> Forall schar_ok cs ->
  view r = p :: flat_map render_char cs ++ 34 :: tl ->
  (length (flat_map render_char cs) < fuel)%nat ->
  exists r', read_string_f fuel acc r =
             (match utf8_decode (acc ++ flat_map utf8_encode_char (str_val cs)) with
              | Some s => POk (JStr s) | None => PErr end, r') /\ view r' = tl /\ rd_ok r'.
Proof.
  induction cs as [|ch cs IH]; intros fuel acc r p tl Hok Hcur Hcs Hv Hf.
  - destruct fuel as [|f]; [cbn in Hf; lia|]. cbn [flat_map app] in Hv. cbn [read_string_f].
    destruct (next_drop r p _ Hok Hcur Hv) as (r1 & Hn1 & Hv1 & Hok1 & Hc1). rewrite Hn1.
    cbn [hd_error] in Hc1 |- *. rewrite N.eqb_refl.
    destruct (next_drop r1 34 tl Hok1 Hc1 Hv1) as (r2 & Hn2 & Hv2 & Hok2 & _). rewrite Hn2.
    cbn [snd str_val map flat_map]. rewrite app_nil_r.
    exists r2. split; [|auto]. destruct (utf8_decode acc); reflexivity.
  - inversion Hcs as [|? ? Hch Hcs']; subst. cbn [flat_map] in Hv, Hf.
    rewrite app_length in Hf. rewrite <- app_assoc in Hv.
    rewrite str_val_cons. cbn [flat_map].
    destruct ch as [c|c|c u3 u2 u1 u0]; cbn [render_char char_val] in Hv, Hf |- *.
    + (* literal *)
      destruct Hch as (Hs & H32 & H34 & H92).
      destruct (utf8_encode_char_bytes c Hs) as [[Hlt E]|(Hge & Hne & Hall)].
      * rewrite E in Hv, Hf |- *. cbn [app length] in Hv, Hf.
        destruct fuel as [|f]; [lia|]. cbn [read_string_f].
        destruct (next_drop r p _ Hok Hcur Hv) as (r1 & Hn1 & Hv1 & Hok1 & Hc1). rewrite Hn1.
        cbn [hd_error] in Hc1 |- *.
        rewrite (eqb_false c 34), (eqb_false c 92) by assumption.
        destruct (IH f (acc ++ [c]) r1 c tl Hok1 Hc1 Hcs' Hv1) as (r2 & E2 & ? & ?); [lia|].
        nb. rewrite E2. rewrite <- app_assoc. eauto.
      * destruct (read_string_f_raw (utf8_encode_char c) fuel acc r p _ Hall Hok Hcur Hv)
          as (r1 & p1 & E1 & Hok1 & Hc1 & Hv1); [lia|].
        rewrite E1.
        destruct (IH (fuel - length (utf8_encode_char c))%nat (acc ++ utf8_encode_char c) r1 p1 tl
                     Hok1 Hc1 Hcs' Hv1) as (r2 & E2 & ? & ?); [lia|].
        rewrite E2. rewrite <- app_assoc. eauto.
    + (* two-character escape *)
      cbn [schar_ok] in Hch.
      destruct (esc_letter c two_char_escapes) as [b|] eqn:Eb; [|congruence].
      destruct (esc_agree c b Eb) as (Hb117 & Hassoc & Hlt).
      destruct (low_scalar c Hlt) as [_ Eenc]. rewrite Eenc.
      cbn [app length] in Hv, Hf.
      destruct fuel as [|f]; [lia|]. cbn [read_string_f].
      destruct (next_drop r p _ Hok Hcur Hv) as (r1 & Hn1 & Hv1 & Hok1 & Hc1). rewrite Hn1.
      cbn [hd_error] in Hc1 |- *. ground_eqb. cbv iota.
      destruct (next_drop r1 92 _ Hok1 Hc1 Hv1) as (r2 & Hn2 & Hv2 & Hok2 & Hc2). rewrite Hn2.
      cbn [hd_error] in Hc2 |- *. rewrite Hb117, Hassoc.
      destruct (IH f (acc ++ [c]) r2 b tl Hok2 Hc2 Hcs' Hv2) as (r3 & E3 & ? & ?); [lia|].
      nb. rewrite E3. rewrite <- app_assoc. eauto.
    + (* \uXXXX *)
      destruct Hch as [Hlt Hs].
      cbn [app length] in Hv, Hf.
      destruct fuel as [|f]; [lia|]. cbn [read_string_f].
      destruct (next_drop r p _ Hok Hcur Hv) as (r1 & Hn1 & Hv1 & Hok1 & Hc1). rewrite Hn1.
      cbn [hd_error] in Hc1 |- *. ground_eqb. cbv iota.
      destruct (next_drop r1 92 _ Hok1 Hc1 Hv1) as (r2 & Hn2 & Hv2 & Hok2 & Hc2). rewrite Hn2.
      cbn [hd_error] in Hc2 |- *. rewrite N.eqb_refl.
      destruct (read_hex4_spec r2 117 c u3 u2 u1 u0 _ Hok2 Hc2 Hlt Hv2)
        as (r3 & E3 & Hok3 & Hc3 & Hv3).
      rewrite E3. rewrite Hs.
      destruct (IH f (acc ++ utf8_encode_char c) r3 _ tl Hok3 Hc3 Hcs' Hv3) as (r4 & E4 & ? & ?); [lia|].
      rewrite E4. rewrite <- app_assoc. eauto.
Qed.

Lemma render_char_nonempty : True. Proof. exact I. Qed.

Lemma read_string_spec cs r (tl : list byte) :
  rd_ok r -> cur r = Some 34 -> Forall schar_ok cs -> view r = render_str cs ++ tl ->
  exists r', read_string r = (POk (JStr (str_val cs)), r') /\ view r' = tl /\ rd_ok r'.
Proof.
  intros Hok Hc Hcs Hv. unfold render_str in Hv. cbn [app] in Hv. rewrite <- app_assoc in Hv.
  cbn [app] in Hv. unfold read_string.
  destruct (read_string_f_spec cs (S (length (rest r))) [] r 34 tl Hok Hc Hcs Hv) as (r' & E & ? & ?).
  - pose proof (view_len_cur r 34 Hok Hc) as L. rewrite Hv in L. cbn [length] in L.
    rewrite app_length in L. cbn [length] in L. lia.
  - rewrite E. cbn [app]. rewrite utf8_decode_encode; [eauto|].
    clear - Hcs. induction Hcs as [|c cs Hc _ IH]; [constructor|].
    rewrite str_val_cons. constructor; [apply schar_scalar; assumption|assumption].
Qed.

(* ================= reserved words ================= *)
Lemma read_word_spec (w : list byte) : forall r (c0 : byte) (tl : list byte),
  rd_ok r -> cur r = Some c0 -> view r = c0 :: w ++ tl ->
  exists r', read_word w r = (true, r') /\ view r' = tl /\ rd_ok r'.
Proof.
  induction w as [|e w IH]; intros r c0 tl Hok Hc Hv; cbn [read_word].
  - destruct (next_drop r c0 tl Hok Hc Hv) as (r' & Hn & Hv' & Hok' & _).
    rewrite Hn. cbn [snd]. eauto.
  - cbn [app] in Hv. destruct (next_drop r c0 _ Hok Hc Hv) as (r' & Hn & Hv' & Hok' & Hc').
    rewrite Hn. cbn [hd_error] in Hc' |- *. rewrite N.eqb_refl. eapply IH; eauto.
Qed.
