(* ParserProofs.v — the parser accepts every RFC 8259 text (Spec/Render.v) and returns the value
   the text denotes; the read loop yields the denoted values of a well-formed stream. *)
From Coq Require Import List NArith ZArith Bool Lia Zify ZifyClasses ZifyBool ZifyInst.
From Jawk Require Import Base F64 Json Reader JsonParser Stream.
From Jawk Require Import Render.
From Jawk Require Import ReaderLemmas.
Import ListNotations.
Local Open Scope N_scope.

#[local] Arguments N.add : simpl never.
#[local] Arguments N.mul : simpl never.
#[local] Arguments N.sub : simpl never.
#[local] Arguments N.div : simpl never.
#[local] Arguments N.modulo : simpl never.
#[local] Arguments N.eqb : simpl never.
#[local] Arguments N.ltb : simpl never.
#[local] Arguments N.leb : simpl never.

Ltac nb := change byte with N in *.

Lemma eqb_false a b : a <> b -> (a =? b) = false.
Proof. apply N.eqb_neq. Qed.
Lemma leb_true a b : a <= b -> (a <=? b) = true.
Proof. apply N.leb_le. Qed.
Lemma leb_false a b : b < a -> (a <=? b) = false.
Proof. apply N.leb_gt. Qed.

(* ================= hexadecimal digits ================= *)
Lemma hex_val_char up d : d < 16 -> hex_val (hex_char up d) = Some d.
Proof.
  intros Hd. unfold hex_val, hex_char. destruct (N.ltb_spec d 10) as [H|H].
  - rewrite (leb_true 48 (48 + d)), (leb_true (48 + d) 57) by lia. cbn [andb]. f_equal. lia.
  - destruct up.
    + rewrite (leb_false (55 + d) 57) by lia. rewrite andb_false_r.
      rewrite (leb_false 97 (55 + d)) by lia. cbn [andb].
      rewrite (leb_true 65 (55 + d)), (leb_true (55 + d) 70) by lia. cbn [andb]. f_equal. lia.
    + rewrite (leb_false (87 + d) 57) by lia. rewrite andb_false_r.
      rewrite (leb_true 97 (87 + d)), (leb_true (87 + d) 102) by lia. cbn [andb]. f_equal. lia.
Qed.

Lemma hex4_recompose c : c < 65536 ->
  (((0 * 16 + c / 4096) * 16 + (c / 256) mod 16) * 16 + (c / 16) mod 16) * 16 + c mod 16 = c.
Proof. intros. dlia. Qed.

Lemma read_hex4_spec r (p : byte) c u3 u2 u1 u0 (tl : list byte) :
  rd_ok r -> cur r = Some p -> c < 65536 ->
  view r = p :: hex_char u3 (c / 4096) :: hex_char u2 ((c / 256) mod 16) ::
                hex_char u1 ((c / 16) mod 16) :: hex_char u0 (c mod 16) :: tl ->
  exists r', read_hex4 4 0 r = (Some c, r') /\ rd_ok r' /\
             cur r' = Some (hex_char u0 (c mod 16)) /\ view r' = hex_char u0 (c mod 16) :: tl.
Proof.
  intros Hok Hc Hlt Hv. cbn [read_hex4].
  destruct (next_drop r p _ Hok Hc Hv) as (r1 & Hn1 & Hv1 & Hok1 & Hc1). rewrite Hn1.
  cbn [hd_error] in Hc1 |- *. rewrite hex_val_char by dlia.
  destruct (next_drop r1 _ _ Hok1 Hc1 Hv1) as (r2 & Hn2 & Hv2 & Hok2 & Hc2). rewrite Hn2.
  cbn [hd_error] in Hc2 |- *. rewrite hex_val_char by dlia.
  destruct (next_drop r2 _ _ Hok2 Hc2 Hv2) as (r3 & Hn3 & Hv3 & Hok3 & Hc3). rewrite Hn3.
  cbn [hd_error] in Hc3 |- *. rewrite hex_val_char by dlia.
  destruct (next_drop r3 _ _ Hok3 Hc3 Hv3) as (r4 & Hn4 & Hv4 & Hok4 & Hc4). rewrite Hn4.
  cbn [hd_error] in Hc4 |- *. rewrite hex_val_char by dlia.
  rewrite hex4_recompose by assumption. eauto.
Qed.

(* ================= the two escape tables agree ================= *)
Lemma esc_agree c b : esc_letter c two_char_escapes = Some b ->
  (b =? 117) = false /\ assoc_N b escape_table = Some c /\ c < 128.
Proof.
  unfold two_char_escapes. cbn [esc_letter].
  repeat match goal with |- context [N.eqb c ?k] =>
    destruct (N.eqb_spec c k) as [->|?];
      [intros H; injection H as <-; repeat split; reflexivity|] end.
  discriminate.
Qed.

Lemma low_scalar c : c < 128 -> is_scalar c = true /\ utf8_encode_char c = [c].
Proof.
  intros H. unfold is_scalar, utf8_encode_char.
  rewrite (ltb_true c 55296), (ltb_true c 128) by lia. auto.
Qed.

Lemma schar_scalar c : schar_ok c -> is_scalar (char_val c) = true.
Proof.
  destruct c as [c|c|c u3 u2 u1 u0]; cbn [schar_ok char_val].
  - tauto.
  - destruct (esc_letter c two_char_escapes) as [b|] eqn:E; [|congruence]. intros _.
    apply esc_agree in E. destruct E as (_ & _ & E). apply (low_scalar c E).
  - tauto.
Qed.

(* ================= strings ================= *)
(* bytes >= 128 are pushed raw *)
Lemma read_string_f_raw (bs : list byte) : forall fuel acc r (p : byte) (rst : list byte),
  Forall (fun b => 128 <= b) bs -> rd_ok r -> cur r = Some p -> view r = p :: bs ++ rst ->
  (length bs <= fuel)%nat ->
  exists r' p', read_string_f fuel acc r = read_string_f (fuel - length bs) (acc ++ bs) r' /\
                rd_ok r' /\ cur r' = Some p' /\ view r' = p' :: rst.
Proof.
  induction bs as [|b bs IH]; intros fuel acc r p rst Hbs Hok Hc Hv Hf.
  - cbn [length]. rewrite Nat.sub_0_r, app_nil_r. cbn [app] in Hv. exists r, p. auto.
  - destruct fuel as [|f]; [cbn in Hf; lia|]. inversion Hbs as [|? ? Hb Hbs']; subst.
    cbn [app] in Hv. cbn [read_string_f].
    destruct (next_drop r p _ Hok Hc Hv) as (r1 & Hn1 & Hv1 & Hok1 & Hc1). rewrite Hn1.
    cbn [hd_error] in Hc1 |- *.
    rewrite (eqb_false b 34), (eqb_false b 92) by lia.
    destruct (IH f (acc ++ [b]) r1 b rst Hbs' Hok1 Hc1 Hv1) as (r2 & p2 & E & ? & ? & ?);
      [cbn in Hf; lia|].
    nb. rewrite E. rewrite <- app_assoc. cbn [app length Nat.sub]. exists r2, p2. auto.
Qed.

Lemma str_val_cons c cs : str_val (c :: cs) = char_val c :: str_val cs.
Proof. reflexivity. Qed.

Lemma read_string_f_spec cs : forall fuel acc r (p : byte) (tl : list byte),
  rd_ok r -> cur r = Some p -> Forall schar_ok cs ->
  view r = p :: flat_map render_char cs ++ 34 :: tl ->
  (length (flat_map render_char cs) < fuel)%nat ->
  exists r', read_string_f fuel acc r =
             (match utf8_decode (acc ++ flat_map utf8_encode_char (str_val cs)) with
              | Some s => POk (JStr s) | None => PErr end, r') /\ view r' = tl /\ rd_ok r'.
Proof.
  induction cs as [|ch cs IH]; intros fuel acc r p tl Hok Hcur Hcs Hv Hf.
  - destruct fuel as [|f]; [cbn in Hf; lia|]. cbn [flat_map app] in Hv. cbn [read_string_f].
    destruct (next_drop r p _ Hok Hcur Hv) as (r1 & Hn1 & Hv1 & Hok1 & Hc1). rewrite Hn1.
    cbn [hd_error] in Hc1 |- *. rewrite N.eqb_refl.
    destruct (next_drop r1 34 tl Hok1 Hc1 Hv1) as (r2 & Hn2 & Hv2 & Hok2 & _). rewrite Hn2.
    cbn [snd str_val map flat_map]. rewrite app_nil_r.
    exists r2. split; [|auto]. destruct (utf8_decode acc); reflexivity.
  - inversion Hcs as [|? ? Hch Hcs']; subst. cbn [flat_map] in Hv, Hf.
    rewrite app_length in Hf. rewrite <- app_assoc in Hv.
    rewrite str_val_cons. cbn [flat_map].
    destruct ch as [c|c|c u3 u2 u1 u0]; cbn [render_char char_val] in Hv, Hf |- *.
    + (* literal *)
      destruct Hch as (Hs & H32 & H34 & H92).
      destruct (utf8_encode_char_bytes c Hs) as [[Hlt E]|(Hge & Hne & Hall)].
      * rewrite E in Hv, Hf |- *. cbn [app length] in Hv, Hf.
        destruct fuel as [|f]; [lia|]. cbn [read_string_f].
        destruct (next_drop r p _ Hok Hcur Hv) as (r1 & Hn1 & Hv1 & Hok1 & Hc1). rewrite Hn1.
        cbn [hd_error] in Hc1 |- *.
        rewrite (eqb_false c 34), (eqb_false c 92) by assumption.
        destruct (IH f (acc ++ [c]) r1 c tl Hok1 Hc1 Hcs' Hv1) as (r2 & E2 & ? & ?); [lia|].
        nb. rewrite E2. rewrite <- app_assoc. eauto.
      * destruct (read_string_f_raw (utf8_encode_char c) fuel acc r p _ Hall Hok Hcur Hv)
          as (r1 & p1 & E1 & Hok1 & Hc1 & Hv1); [lia|].
        rewrite E1.
        destruct (IH (fuel - length (utf8_encode_char c))%nat (acc ++ utf8_encode_char c) r1 p1 tl
                     Hok1 Hc1 Hcs' Hv1) as (r2 & E2 & ? & ?); [lia|].
        rewrite E2. rewrite <- app_assoc. eauto.
    + (* two-character escape *)
      cbn [schar_ok] in Hch.
      destruct (esc_letter c two_char_escapes) as [b|] eqn:Eb; [|congruence].
      destruct (esc_agree c b Eb) as (Hb117 & Hassoc & Hlt).
      destruct (low_scalar c Hlt) as [_ Eenc]. rewrite Eenc.
      cbn [app length] in Hv, Hf.
      destruct fuel as [|f]; [lia|]. cbn [read_string_f].
      destruct (next_drop r p _ Hok Hcur Hv) as (r1 & Hn1 & Hv1 & Hok1 & Hc1). rewrite Hn1.
      cbn [hd_error] in Hc1 |- *. ground_eqb. cbv iota.
      destruct (next_drop r1 92 _ Hok1 Hc1 Hv1) as (r2 & Hn2 & Hv2 & Hok2 & Hc2). rewrite Hn2.
      cbn [hd_error] in Hc2 |- *. rewrite Hb117, Hassoc.
      destruct (IH f (acc ++ [c]) r2 b tl Hok2 Hc2 Hcs' Hv2) as (r3 & E3 & ? & ?); [lia|].
      nb. rewrite E3. rewrite <- app_assoc. eauto.
    + (* \uXXXX *)
      destruct Hch as [Hlt Hs].
      cbn [app length] in Hv, Hf.
      destruct fuel as [|f]; [lia|]. cbn [read_string_f].
      destruct (next_drop r p _ Hok Hcur Hv) as (r1 & Hn1 & Hv1 & Hok1 & Hc1). rewrite Hn1.
      cbn [hd_error] in Hc1 |- *. ground_eqb. cbv iota.
      destruct (next_drop r1 92 _ Hok1 Hc1 Hv1) as (r2 & Hn2 & Hv2 & Hok2 & Hc2). rewrite Hn2.
      cbn [hd_error] in Hc2 |- *. rewrite N.eqb_refl.
      destruct (read_hex4_spec r2 117 c u3 u2 u1 u0 _ Hok2 Hc2 Hlt Hv2)
        as (r3 & E3 & Hok3 & Hc3 & Hv3).
      rewrite E3. rewrite Hs.
      destruct (IH f (acc ++ utf8_encode_char c) r3 _ tl Hok3 Hc3 Hcs' Hv3) as (r4 & E4 & ? & ?); [lia|].
      rewrite E4. rewrite <- app_assoc. eauto.
Qed.

Lemma read_string_spec cs r (tl : list byte) :
  rd_ok r -> cur r = Some 34 -> Forall schar_ok cs -> view r = render_str cs ++ tl ->
  exists r', read_string r = (POk (JStr (str_val cs)), r') /\ view r' = tl /\ rd_ok r'.
Proof.
  intros Hok Hc Hcs Hv. unfold render_str in Hv. cbn [app] in Hv. rewrite <- app_assoc in Hv.
  cbn [app] in Hv. unfold read_string.
  destruct (read_string_f_spec cs (S (length (rest r))) [] r 34 tl Hok Hc Hcs Hv) as (r' & E & ? & ?).
  - pose proof (view_len_cur r 34 Hok Hc) as L. rewrite Hv in L. cbn [length] in L.
    rewrite app_length in L. cbn [length] in L. lia.
  - rewrite E. cbn [app]. rewrite utf8_decode_encode; [eauto|].
    clear - Hcs. induction Hcs as [|c cs Hc _ IH]; [constructor|].
    rewrite str_val_cons. constructor; [apply schar_scalar; assumption|assumption].
Qed.

(* ================= reserved words ================= *)
Lemma read_word_spec (w : list byte) : forall r (c0 : byte) (tl : list byte),
  rd_ok r -> cur r = Some c0 -> view r = c0 :: w ++ tl ->
  exists r', read_word w r = (true, r') /\ view r' = tl /\ rd_ok r'.
Proof.
  induction w as [|e w IH]; intros r c0 tl Hok Hc Hv; cbn [read_word].
  - destruct (next_drop r c0 tl Hok Hc Hv) as (r' & Hn & Hv' & Hok' & _).
    rewrite Hn. cbn [snd]. eauto.
  - cbn [app] in Hv. destruct (next_drop r c0 _ Hok Hc Hv) as (r' & Hn & Hv' & Hok' & Hc').
    rewrite Hn. cbn [hd_error] in Hc' |- *. rewrite N.eqb_refl. eapply IH; eauto.
Qed.

(* ================= numbers ================= *)
(* read_number cut into its phases (definitionally the same function) *)
Definition rn_exp (neg dbl1 : bool) (chars : list byte) (r : reader) : pres * reader :=
    let '(c, r) := peek r in
    let '(dbl2, chars, r) :=
        match c with
        | Some b =>
            if is_exp_marker b then
              let chars := chars ++ [69] in
              let r := snd (next r) in
              let '(c2, r) := peek r in
              let '(chars, r) := if is_b c2 45 then (chars ++ [45], snd (next r))
                                 else if is_b c2 43 then (chars, snd (next r))
                                 else (chars, r) in
              let '(chars, r) := read_digits chars r in (true, chars, r)
            else (false, chars, r)
        | None => (false, chars, r)
        end in
    (classify_number neg (dbl1 || dbl2) chars, r).

Definition rn_frac (neg : bool) (chars : list byte) (r : reader) : pres * reader :=
    let '(c, r) := peek r in
    let '(dbl1, chars, r) :=
        if is_b c 46
        then let '(chars, r) := read_digits (chars ++ [46]) (snd (next r)) in (true, chars, r)
        else (false, chars, r) in
    rn_exp neg dbl1 chars r.

Definition rn_tail (neg : bool) (chars : list byte) (r : reader) : pres * reader :=
  let '(chars, r) := read_digits chars r in rn_frac neg chars r.

Lemma read_number_unf r : read_number r =
  let '(c, r) := peek r in
  let neg := is_b c 45 in
  let '(after_minus, r) := if neg then next r else (c, r) in
  match (if neg then after_minus else Some 0) with
  | None => (PErr, r)
  | Some _ => rn_tail neg (if neg then [45] else []) r
  end.
Proof. reflexivity. Qed.

Definition is_some {A} (o : option A) : bool := match o with Some _ => true | None => false end.

Definition frac_bytes (fr : option (list byte)) : list byte :=
  match fr with Some f => 46 :: f | None => [] end.
Definition exp_bytes (e : option (bool * option bool * list byte)) : list byte :=
  match e with
  | Some (up, sg, e) => (if up then 69 else 101) ::
                        match sg with Some true => [45] | Some false => [43] | None => [] end ++ e
  | None => []
  end.
Definition exp_text (e : option (bool * option bool * list byte)) : list byte :=
  match e with
  | Some (_, sg, e) => 69 :: match sg with Some true => [45] | _ => [] end ++ e
  | None => []
  end.

Lemma render_num_eq n : render_num n =
  (if sn_neg n then [45] else []) ++ sn_int n ++ frac_bytes (sn_frac n) ++ exp_bytes (sn_exp n).
Proof. reflexivity. Qed.
Lemma num_text_eq n : num_text n =
  (if sn_neg n then [45] else []) ++ sn_int n ++ frac_bytes (sn_frac n) ++ exp_text (sn_exp n).
Proof. reflexivity. Qed.

(* what may follow a number *)
Definition num_follow (tl : list byte) : Prop :=
  match tl with
  | b :: _ => is_digit b = false /\ b <> 46 /\ is_exp_marker b = false
  | [] => True
  end.

Lemma num_follow_ndigit tl : num_follow tl -> ndigit tl.
Proof. destruct tl; cbn; tauto. Qed.

Lemma digit_neq b k : is_digit b = true -> (k < 48 \/ 57 < k) -> (b =? k) = false.
Proof. intros H Hk. apply digit_range in H. apply N.eqb_neq. lia. Qed.

Lemma digits_hd (ds : list byte) : digits_ok ds ->
  exists d ds', ds = d :: ds' /\ is_digit d = true /\ Forall (fun b => is_digit b = true) ds'.
Proof.
  intros [Hne Hall]. destruct ds as [|d ds']; [congruence|]. inversion Hall; subst. eauto.
Qed.

Lemma rn_exp_spec neg dbl1 (chars : list byte) r e (tl : list byte) :
  rd_ok r -> match e with Some (_, _, ds) => digits_ok ds | None => True end ->
  num_follow tl -> view r = exp_bytes e ++ tl ->
  exists r', rn_exp neg dbl1 chars r =
             (classify_number neg (dbl1 || is_some e) (chars ++ exp_text e), r') /\
             view r' = tl /\ rd_ok r'.
Proof.
  intros Hok He Htl Hv. unfold rn_exp.
  destruct e as [[[up sg] ds]|]; cbn [exp_bytes exp_text is_some] in *.
  - set (m := if up then 69 else 101) in *.
    assert (Hm : is_exp_marker m = true) by (destruct up; reflexivity).
    cbn [app] in Hv. rewrite <- app_assoc in Hv.
    destruct (peek_cons r m _ Hok Hv) as (r1 & -> & Hv1 & Hc1 & Hok1). cbv beta iota zeta.
    rewrite Hm.
    destruct (next_drop r1 m _ Hok1 Hc1 Hv1) as (r2 & -> & Hv2 & Hok2 & _). cbn [snd].
    destruct He as [Hne Hds]. pose proof (num_follow_ndigit tl Htl) as Hnd.
    destruct sg as [[|]|].
    + cbn [app] in Hv2.
      destruct (peek_cons r2 45 _ Hok2 Hv2) as (r3 & -> & Hv3 & Hc3 & Hok3). cbn [is_b].
      rewrite N.eqb_refl.
      destruct (next_drop r3 45 _ Hok3 Hc3 Hv3) as (r4 & -> & Hv4 & Hok4 & _). cbn [snd].
      destruct (read_digits_spec ds ((chars ++ [69]) ++ [45]) r4 tl Hok4 Hds Hnd Hv4) as (r5 & E & ? & ?).
      nb. rewrite E. rewrite <- !app_assoc. cbn [app]. eauto.
    + cbn [app] in Hv2.
      destruct (peek_cons r2 43 _ Hok2 Hv2) as (r3 & -> & Hv3 & Hc3 & Hok3). cbn [is_b].
      ground_eqb. cbv iota.
      destruct (next_drop r3 43 _ Hok3 Hc3 Hv3) as (r4 & -> & Hv4 & Hok4 & _). cbn [snd].
      destruct (read_digits_spec ds (chars ++ [69]) r4 tl Hok4 Hds Hnd Hv4) as (r5 & E & ? & ?).
      nb. rewrite E. rewrite <- !app_assoc. cbn [app]. eauto.
    + cbn [app] in Hv2. destruct ds as [|d ds']; [congruence|]. cbn [app] in Hv2.
      destruct (peek_cons r2 d _ Hok2 Hv2) as (r3 & -> & Hv3 & Hc3 & Hok3). cbn [is_b].
      assert (Hd : is_digit d = true) by (inversion Hds; assumption).
      rewrite (digit_neq d 45), (digit_neq d 43) by (auto; lia).
      destruct (read_digits_spec (d :: ds') (chars ++ [69]) r3 tl Hok3 Hds Hnd Hv3) as (r5 & E & ? & ?).
      nb. rewrite E. rewrite <- !app_assoc. cbn [app]. eauto.
  - cbn [app] in Hv. rewrite app_nil_r, orb_false_r. destruct tl as [|b tl].
    + destruct (peek_nil r Hok Hv) as (r1 & -> & ? & ?). cbv beta iota zeta.
      rewrite orb_false_r. eauto.
    + destruct (peek_cons r b _ Hok Hv) as (r1 & -> & ? & ? & ?). cbv beta iota zeta.
      destruct Htl as (_ & _ & ->). rewrite orb_false_r. eauto.
Qed.

Lemma exp_follow e (tl : list byte) : num_follow tl ->
  ndigit (exp_bytes e ++ tl) /\ is_b (hd_error (exp_bytes e ++ tl)) 46 = false.
Proof.
  intros Htl. destruct e as [[[[|] sg] ds]|]; cbn [exp_bytes app hd_error ndigit is_b]; auto.
  destruct tl as [|b tl]; cbn [hd_error ndigit is_b]; auto.
  destruct Htl as (? & ? & ?). split; [assumption|apply N.eqb_neq; assumption].
Qed.

Lemma rn_frac_spec neg (chars : list byte) r fr e (tl : list byte) :
  rd_ok r -> match fr with Some f => digits_ok f | None => True end ->
  match e with Some (_, _, ds) => digits_ok ds | None => True end ->
  num_follow tl -> view r = frac_bytes fr ++ exp_bytes e ++ tl ->
  exists r', rn_frac neg chars r =
             (classify_number neg (is_some fr || is_some e) (chars ++ frac_bytes fr ++ exp_text e), r') /\
             view r' = tl /\ rd_ok r'.
Proof.
  intros Hok Hfr He Htl Hv. unfold rn_frac. destruct (exp_follow e tl Htl) as [Hnd H46].
  destruct fr as [f|]; cbn [frac_bytes is_some] in *.
  - cbn [app] in Hv.
    destruct (peek_cons r 46 _ Hok Hv) as (r1 & -> & Hv1 & Hc1 & Hok1). cbn [is_b].
    rewrite N.eqb_refl.
    destruct (next_drop r1 46 _ Hok1 Hc1 Hv1) as (r2 & -> & Hv2 & Hok2 & _). cbn [snd].
    destruct Hfr as [_ Hf].
    destruct (read_digits_spec f (chars ++ [46]) r2 _ Hok2 Hf Hnd Hv2) as (r3 & E & Hv3 & Hok3).
    nb. rewrite E.
    destruct (rn_exp_spec neg true ((chars ++ [46]) ++ f) r3 e tl Hok3 He Htl Hv3) as (r4 & E4 & ? & ?).
    nb. rewrite E4. rewrite <- !app_assoc. cbn [app orb]. eauto.
  - cbn [app] in Hv. destruct (peek_spec r Hok) as (r1 & -> & Hv1 & Hok1 & _).
    rewrite Hv in *. rewrite H46.
    destruct (rn_exp_spec neg false chars r1 e tl Hok1 He Htl Hv1) as (r4 & E4 & ? & ?).
    rewrite E4. cbn [app orb]. eauto.
Qed.

Lemma frac_follow fr e (tl : list byte) : num_follow tl -> ndigit (frac_bytes fr ++ exp_bytes e ++ tl).
Proof.
  intros Htl. destruct fr as [f|]; cbn [frac_bytes app ndigit]; [reflexivity|].
  apply exp_follow. assumption.
Qed.

Lemma rn_tail_spec neg (chars : list byte) r (int : list byte) fr e (tl : list byte) :
  rd_ok r -> Forall (fun b => is_digit b = true) int ->
  match fr with Some f => digits_ok f | None => True end ->
  match e with Some (_, _, ds) => digits_ok ds | None => True end ->
  num_follow tl -> view r = int ++ frac_bytes fr ++ exp_bytes e ++ tl ->
  exists r', rn_tail neg chars r =
             (classify_number neg (is_some fr || is_some e)
                (chars ++ int ++ frac_bytes fr ++ exp_text e), r') /\
             view r' = tl /\ rd_ok r'.
Proof.
  intros Hok Hint Hfr He Htl Hv. unfold rn_tail.
  destruct (read_digits_spec int chars r _ Hok Hint (frac_follow fr e tl Htl) Hv) as (r1 & E & Hv1 & Hok1).
  rewrite E.
  destruct (rn_frac_spec neg (chars ++ int) r1 fr e tl Hok1 Hfr He Htl Hv1) as (r2 & E2 & ? & ?).
  rewrite E2. rewrite <- !app_assoc. eauto.
Qed.

Lemma read_number_spec n r (tl : list byte) :
  snum_ok n -> num_follow tl -> rd_ok r -> view r = render_num n ++ tl ->
  exists r', read_number r =
             (classify_number (sn_neg n) (is_some (sn_frac n) || is_some (sn_exp n)) (num_text n), r') /\
             view r' = tl /\ rd_ok r'.
Proof.
  intros (Hint & Hfr & He) Htl Hok Hv. rewrite render_num_eq in Hv. rewrite num_text_eq.
  destruct n as [neg int fr e]; cbn [sn_neg sn_int sn_frac sn_exp] in *.
  destruct Hint as [Hint _]. destruct (digits_hd int Hint) as (d & int' & -> & Hd & Hint').
  assert (Hall : Forall (fun b => is_digit b = true) (d :: int')) by (constructor; assumption).
  rewrite <- !app_assoc in Hv. rewrite read_number_unf. destruct neg.
  - cbn [app] in Hv.
    destruct (peek_cons r 45 _ Hok Hv) as (r1 & -> & Hv1 & Hc1 & Hok1). cbn [is_b].
    rewrite N.eqb_refl. cbv beta iota zeta.
    destruct (next_drop r1 45 _ Hok1 Hc1 Hv1) as (r2 & -> & Hv2 & Hok2 & _). cbn [hd_error].
    destruct (rn_tail_spec true [45] r2 (d :: int') fr e tl Hok2 Hall Hfr He Htl Hv2) as (r3 & E & ? & ?).
    rewrite E. eauto.
  - cbn [app] in Hv.
    destruct (peek_cons r d _ Hok Hv) as (r1 & -> & Hv1 & Hc1 & Hok1). cbn [is_b].
    rewrite (digit_neq d 45) by (auto; lia). cbv beta iota zeta.
    destruct (rn_tail_spec false [] r1 (d :: int') fr e tl Hok1 Hall Hfr He Htl Hv1) as (r3 & E & ? & ?).
    rewrite E. eauto.
Qed.

Lemma parse_to_double_eq txt : parse_to_double txt =
  match (match dec2flt txt with
         | Some f => if f_is_finite f then Some (num_of_f f) else None
         | None => None end) with
  | Some x => POk (JNum x) | None => PErr end.
Proof.
  unfold parse_to_double. destruct (dec2flt txt) as [f|]; [|reflexivity].
  destruct (f_is_finite f); reflexivity.
Qed.

Lemma classify_num_val n x : snum_ok n -> num_val n = Some x ->
  classify_number (sn_neg n) (is_some (sn_frac n) || is_some (sn_exp n)) (num_text n) = POk (JNum x).
Proof.
  intros (Hint & _ & _). unfold num_val, classify_number.
  pose proof (parse_to_double_eq (num_text n)) as P. revert P.
  generalize (match dec2flt (num_text n) with
              | Some f => if f_is_finite f then Some (num_of_f f) else None
              | None => None end) as dbl.
  intros dbl P. cbv zeta.
  destruct (sn_frac n) as [f|] eqn:Ef; [cbn [is_some orb]; intros ->; exact P|].
  destruct (sn_exp n) as [ex|] eqn:Ee; [cbn [is_some orb]; intros ->; exact P|].
  cbn [is_some orb]. revert P. rewrite num_text_eq, Ef, Ee. cbn [frac_bytes exp_text]. rewrite !app_nil_r.
  destruct Hint as [[Hne _] _]. destruct (sn_int n) as [|d ds]; [congruence|].
  destruct (sn_neg n); cbn [app]; intros P.
  - unfold i64_min.
    destruct (N.eqb_spec (N_of_digits (d :: ds)) 0) as [Hz|Hz].
    { intros E; injection E as <-. rewrite Hz. reflexivity. }
    destruct (Z.eqb_spec (- Z.of_N (N_of_digits (d :: ds))) 0) as [Hz'|Hz']; [lia|].
    destruct (Z.leb_spec (Z.of_N (N_of_digits (d :: ds))) 9223372036854775808) as [H|H];
    destruct (Z.leb_spec (-9223372036854775808) (- Z.of_N (N_of_digits (d :: ds)))) as [H'|H'];
      try lia.
    + intros E; injection E as <-. reflexivity.
    + intros ->. exact P.
  - unfold u64_max. destruct (N_of_digits (d :: ds) <=? 18446744073709551615).
    + intros E; injection E as <-. reflexivity.
    + intros ->. exact P.
Qed.

(* ================= values: named versions of the nested fixpoints of the specification ================= *)
Definition item := (ws * sjson * ws)%type.
Definition member := (ws * list schar * ws * (ws * sjson * ws))%type.

Fixpoint render_items (items : list item) : list byte :=
  match items with
  | [] => [93]
  | (wb, t, wa) :: more =>
      wb ++ render t ++ wa ++ match more with [] => [] | _ => [44] end ++ render_items more
  end.
Fixpoint render_members (ms : list member) : list byte :=
  match ms with
  | [] => [125]
  | (wk, k, wc, (wb, t, wa)) :: more =>
      wk ++ render_str k ++ wc ++ [58] ++ wb ++ render t ++ wa
      ++ match more with [] => [] | _ => [44] end ++ render_members more
  end.
Fixpoint vals_items (items : list item) : option (list json) :=
  match items with
  | [] => Some []
  | (_, t, _) :: more =>
      match value_of t, vals_items more with Some v, Some vs => Some (v :: vs) | _, _ => None end
  end.
Fixpoint vals_members (ms : list member) : option (list (str * json)) :=
  match ms with
  | [] => Some []
  | (_, k, _, (_, t, _)) :: more =>
      match value_of t, vals_members more with
      | Some v, Some vs => Some ((str_val k, v) :: vs) | _, _ => None end
  end.
Fixpoint wf_items (items : list item) : Prop :=
  match items with
  | [] => True
  | (wb, t, wa) :: more => ws_ok wb /\ wf t /\ ws_ok wa /\ wf_items more
  end.
Fixpoint wf_members (ms : list member) : Prop :=
  match ms with
  | [] => True
  | (wk, k, wc, (wb, t, wa)) :: more =>
      ws_ok wk /\ Forall schar_ok k /\ ws_ok wc /\ ws_ok wb /\ wf t /\ ws_ok wa /\ wf_members more
  end.
Definition key_of (m : member) : str := str_val (snd (fst (fst m))).

Lemma render_arr items : render (SArr items) = 91 :: render_items items.
Proof. reflexivity. Qed.
Lemma render_obj ms : render (SObj ms) = 123 :: render_members ms.
Proof. reflexivity. Qed.
Lemma value_arr items : value_of (SArr items) = option_map JArr (vals_items items).
Proof. reflexivity. Qed.
Lemma value_obj ms : value_of (SObj ms) = option_map JObj (vals_members ms).
Proof. reflexivity. Qed.
Lemma wf_arr items : wf (SArr items) = (items <> [] /\ wf_items items).
Proof. reflexivity. Qed.
Lemma wf_obj ms : wf (SObj ms) = (ms <> [] /\ NoDup (map key_of ms) /\ wf_members ms).
Proof. reflexivity. Qed.

Definition sep_of {A} (more : list A) : list byte := match more with [] => [] | _ => [44] end.

Lemma render_items_cons wb t wa more :
  render_items ((wb, t, wa) :: more) =
  wb ++ render t ++ wa ++ sep_of more ++ render_items more.
Proof. reflexivity. Qed.
Lemma render_members_cons wk k wc wb t wa more :
  render_members ((wk, k, wc, (wb, t, wa)) :: more) =
  wk ++ render_str k ++ wc ++ [58] ++ wb ++ render t ++ wa
  ++ sep_of more ++ render_members more.
Proof. reflexivity. Qed.

(* ================= unfolding equations of the parser ================= *)
Lemma parse_value_S f r : parse_value (S f) r =
    let r := eat_whitespace r in
    match peek r with
    | (None, r) => (PEof, r)
    | (Some b, r) =>
      if b =? 116 then let '(ok, r) := read_word [114; 117; 101] r in ((if ok then POk (JBool true) else PErr), r)
      else if b =? 102 then let '(ok, r) := read_word [97; 108; 115; 101] r in ((if ok then POk (JBool false) else PErr), r)
      else if b =? 110 then let '(ok, r) := read_word [117; 108; 108] r in ((if ok then POk JNull else PErr), r)
      else if b =? 34 then read_string r
      else if (b =? 45) || is_digit b then read_number r
      else if b =? 91 then
        let r := eat_whitespace (snd (next r)) in
        let '(c, r) := peek r in
        if is_b c 93 then (POk (JArr []), snd (next r)) else parse_items f [] r
      else if b =? 123 then
        let r := eat_whitespace (snd (next r)) in
        let '(c, r) := peek r in
        if is_b c 125 then (POk (JObj []), snd (next r)) else parse_members f [] r
      else (PErr, snd (next r))
    end.
Proof. reflexivity. Qed.

Lemma parse_items_S f acc r : parse_items (S f) acc r =
    match parse_value f r with
    | (POk v, r) =>
        let r := eat_whitespace r in
        match peek r with
        | (Some c, r) =>
            if c =? 93 then (POk (JArr (acc ++ [v])), snd (next r))
            else if c =? 44 then parse_items f (acc ++ [v]) (snd (next r))
            else (PErr, r)
        | (None, r) => (PErr, r)
        end
    | (PEof, r) => (PErr, r)
    | (e, r) => (e, r)
    end.
Proof. reflexivity. Qed.

Lemma parse_members_S f acc r : parse_members (S f) acc r =
    match parse_value f r with
    | (POk (JStr k), r) =>
        let r := eat_whitespace r in
        let '(c, r) := peek r in
        if negb (is_b c 58) then (PErr, r) else
            match parse_value f (snd (next r)) with
            | (POk v, r) =>
                let acc := obj_insert k v acc in
                let r := eat_whitespace r in
                match peek r with
                | (Some c, r) =>
                    if c =? 125 then (POk (JObj acc), snd (next r))
                    else if c =? 44 then parse_members f acc (snd (next r))
                    else (PErr, r)
                | (None, r) => (PErr, r)
                end
            | (PEof, r) => (PErr, r)
            | (e, r) => (e, r)
            end
    | (POk _, r) => (PErr, r)
    | (PEof, r) => (PErr, r)
    | (e, r) => (e, r)
    end.
Proof. reflexivity. Qed.

(* ================= first bytes, followers ================= *)
Definition follow (t : sjson) (tl : list byte) : Prop :=
  match t with SNum _ => num_follow tl | _ => True end.

Lemma num_follow_ws b l : is_ws b = true -> num_follow (b :: l).
Proof.
  intros H. apply ws_cases in H. destruct H as [ -> | [ -> | [ -> | -> ] ] ]; cbn; repeat split; discriminate.
Qed.

Lemma follow_after t (wa rst : list byte) : ws_ok wa -> num_follow rst -> follow t (wa ++ rst).
Proof.
  intros Hwa Hr. destruct t; cbn [follow]; auto.
  destruct wa as [|a wa]; [exact Hr|]. inversion Hwa; subst. cbn [app]. apply num_follow_ws. assumption.
Qed.

Ltac ground_dig :=
  repeat match goal with
  | |- context [is_digit ?a] =>
      let v := eval vm_compute in (is_digit a) in
      match v with
      | true => change (is_digit a) with true
      | false => change (is_digit a) with false
      end
  end.

Definition num_start (b : byte) : Prop := b = 45 \/ is_digit b = true.

Lemma num_start_facts b : num_start b ->
  (b =? 116) = false /\ (b =? 102) = false /\ (b =? 110) = false /\ (b =? 34) = false /\
  ((b =? 45) || is_digit b) = true /\ is_ws b = false /\ (b =? 93) = false.
Proof.
  intros [->|H]; [repeat split; reflexivity|].
  rewrite H, orb_true_r. pose proof (digit_not_ws b H). apply digit_range in H.
  repeat split; auto; apply N.eqb_neq; lia.
Qed.

Lemma num_head n : snum_ok n -> exists b l, render_num n = b :: l /\ num_start b.
Proof.
  intros ((Hint & _) & _ & _). rewrite render_num_eq.
  destruct (digits_hd _ Hint) as (d & ds & -> & Hd & _).
  destruct (sn_neg n); cbn [app]; eexists _, _; (split; [reflexivity|]); [left|right]; auto.
Qed.

Lemma render_head t : wf t ->
  exists b l, render t = b :: l /\ is_ws b = false /\ (b =? 93) = false.
Proof.
  destruct t as [| | |n|cs|w|items|w|ms]; intros H;
    try (eexists _, _; split; [reflexivity|split; reflexivity]).
  destruct H as [H _]. destruct (num_head n H) as (b & l & E & Hs).
  apply num_start_facts in Hs. cbn [render]. rewrite E. eexists _, _; split; [reflexivity|tauto].
Qed.

Lemma render_nonempty t : wf t -> (1 <= length (render t))%nat.
Proof. intros H. destruct (render_head t H) as (b & l & -> & _). cbn [length]. lia. Qed.

(* ================= objects ================= *)
Lemma obj_insert_fresh k v acc : ~ In k (map fst acc) -> obj_insert k v acc = acc ++ [(k, v)].
Proof.
  induction acc as [|[k' v'] acc IH]; intros H; [reflexivity|].
  cbn [obj_insert app]. cbn [map fst In] in H.
  rewrite str_eqb_neq by (intros ->; apply H; left; reflexivity).
  rewrite IH by tauto. reflexivity.
Qed.

Ltac lens := repeat first [rewrite app_length | progress cbn [length]]; unfold item, member, ws, byte.

(* ================= the main lemma, by induction on fuel ================= *)
Definition P_value (fuel : nat) : Prop :=
  forall t v r (w tl : list byte), wf t -> value_of t = Some v -> ws_ok w -> rd_ok r ->
    view r = w ++ render t ++ tl -> follow t tl -> (2 * length (view r) < fuel)%nat ->
    exists r', parse_value fuel r = (POk v, r') /\ view r' = tl /\ rd_ok r'.
Definition P_items (fuel : nat) : Prop :=
  forall items vs acc r (tl : list byte), items <> [] -> wf_items items ->
    vals_items items = Some vs -> rd_ok r ->
    view r = render_items items ++ tl -> (2 * length (view r) + 1 < fuel)%nat ->
    exists r', parse_items fuel acc r = (POk (JArr (acc ++ vs)), r') /\ view r' = tl /\ rd_ok r'.
Definition P_members (fuel : nat) : Prop :=
  forall ms kvs acc r (tl : list byte), ms <> [] -> wf_members ms -> NoDup (map key_of ms) ->
    (forall k, In k (map key_of ms) -> ~ In k (map fst acc)) ->
    vals_members ms = Some kvs -> rd_ok r ->
    view r = render_members ms ++ tl -> (2 * length (view r) + 1 < fuel)%nat ->
    exists r', parse_members fuel acc r = (POk (JObj (acc ++ kvs)), r') /\ view r' = tl /\ rd_ok r'.

Lemma sep_items_follow (more : list item) (tl : list byte) :
  let x := sep_of more ++ render_items more ++ tl in
  nws x /\ num_follow x.
Proof. destruct more; cbn; repeat split; discriminate. Qed.

Lemma sep_members_follow (more : list member) (tl : list byte) :
  let x := sep_of more ++ render_members more ++ tl in
  nws x /\ num_follow x.
Proof. destruct more; cbn; repeat split; discriminate. Qed.

Lemma value_step f : P_items f -> P_members f -> P_value (S f).
Proof.
  intros IHi IHm t v r w tl Hwf Hval Hw Hok Hv Hfol Hlen. rewrite parse_value_S. cbv zeta.
  destruct (render_head t Hwf) as (b0 & l0 & Hr0 & Hb0ws & Hb093).
  destruct (eat_whitespace_spec w r (render t ++ tl) Hok Hw) as (Hv1 & Hok1);
    [rewrite Hr0; exact Hb0ws | exact Hv |].
  set (r1 := eat_whitespace r) in *.
  assert (Hlen1 : (length (view r1) <= length (view r))%nat) by (rewrite Hv1, Hv; lens; lia).
  clearbody r1. clear Hr0 Hb0ws Hb093 b0 l0.
  destruct t as [| | |n|cs|w0|items|w0|ms].
  - (* null *)
    cbn [value_of] in Hval. injection Hval as <-.
    change (render SNull ++ tl) with (110 :: [117; 108; 108] ++ tl) in Hv1.
    destruct (peek_cons r1 110 _ Hok1 Hv1) as (r2 & -> & Hv2 & Hc2 & Hok2).
    ground_eqb. cbv iota.
    destruct (read_word_spec [117; 108; 108] r2 110 tl Hok2 Hc2 Hv2) as (r3 & -> & ? & ?). eauto.
  - (* true *)
    cbn [value_of] in Hval. injection Hval as <-.
    change (render STrue ++ tl) with (116 :: [114; 117; 101] ++ tl) in Hv1.
    destruct (peek_cons r1 116 _ Hok1 Hv1) as (r2 & -> & Hv2 & Hc2 & Hok2).
    ground_eqb. cbv iota.
    destruct (read_word_spec [114; 117; 101] r2 116 tl Hok2 Hc2 Hv2) as (r3 & -> & ? & ?). eauto.
  - (* false *)
    cbn [value_of] in Hval. injection Hval as <-.
    change (render SFalse ++ tl) with (102 :: [97; 108; 115; 101] ++ tl) in Hv1.
    destruct (peek_cons r1 102 _ Hok1 Hv1) as (r2 & -> & Hv2 & Hc2 & Hok2).
    ground_eqb. cbv iota.
    destruct (read_word_spec [97; 108; 115; 101] r2 102 tl Hok2 Hc2 Hv2) as (r3 & -> & ? & ?). eauto.
  - (* number *)
    cbn [wf] in Hwf. destruct Hwf as [Hn Hnv]. cbn [value_of] in Hval.
    destruct (num_val n) as [x|] eqn:Ex; [|congruence]. cbn [option_map] in Hval. injection Hval as <-.
    destruct (num_head n Hn) as (b & l & Hr & Hs).
    destruct (num_start_facts b Hs) as (E1 & E2 & E3 & E4 & E5 & _).
    cbn [render] in Hv1.
    assert (Hv1' : view r1 = b :: l ++ tl) by (rewrite Hv1, Hr; reflexivity).
    destruct (peek_cons r1 b _ Hok1 Hv1') as (r2 & -> & Hv2 & Hc2 & Hok2).
    rewrite E1, E2, E3, E4, E5.
    destruct (read_number_spec n r2 tl Hn Hfol Hok2) as (r3 & -> & ? & ?);
      [rewrite Hv2, Hr; reflexivity|].
    rewrite (classify_num_val n x Hn Ex). eauto.
  - (* string *)
    cbn [value_of] in Hval. injection Hval as <-. cbn [wf] in Hwf. cbn [render] in Hv1.
    assert (Hv1' : view r1 = 34 :: (flat_map render_char cs ++ [34]) ++ tl) by (rewrite Hv1; reflexivity).
    destruct (peek_cons r1 34 _ Hok1 Hv1') as (r2 & -> & Hv2 & Hc2 & Hok2).
    ground_eqb. cbv iota.
    destruct (read_string_spec cs r2 tl Hok2 Hc2 Hwf) as (r3 & -> & ? & ?);
      [rewrite Hv2; reflexivity|]. eauto.
  - (* empty array *)
    cbn [value_of] in Hval. injection Hval as <-. cbn [wf] in Hwf. cbn [render] in Hv1.
    assert (Hv1' : view r1 = 91 :: w0 ++ 93 :: tl).
    { rewrite Hv1. cbn [app]. rewrite <- app_assoc. reflexivity. }
    destruct (peek_cons r1 91 _ Hok1 Hv1') as (r2 & -> & Hv2 & Hc2 & Hok2).
    ground_eqb. ground_dig. cbn [orb]. cbv iota.
    destruct (next_drop r2 91 _ Hok2 Hc2 Hv2) as (r3 & -> & Hv3 & Hok3 & _). cbn [snd].
    destruct (eat_whitespace_spec w0 r3 (93 :: tl) Hok3 Hwf) as (Hv4 & Hok4);
      [reflexivity | exact Hv3 |].
    set (r4 := eat_whitespace r3) in *. clearbody r4.
    destruct (peek_cons r4 93 _ Hok4 Hv4) as (r5 & -> & Hv5 & Hc5 & Hok5).
    cbn [is_b]. rewrite N.eqb_refl.
    destruct (next_drop r5 93 _ Hok5 Hc5 Hv5) as (r6 & -> & ? & ? & _). cbn [snd]. eauto.
  - (* non-empty array *)
    rewrite render_arr in Hv1. cbn [app] in Hv1.
    rewrite wf_arr in Hwf. destruct Hwf as [Hne Hwfi].
    rewrite value_arr in Hval. destruct (vals_items items) as [vs|] eqn:Evs; [|discriminate].
    cbn [option_map] in Hval. injection Hval as <-.
    destruct (peek_cons r1 91 _ Hok1 Hv1) as (r2 & -> & Hv2 & Hc2 & Hok2).
    ground_eqb. ground_dig. cbn [orb]. cbv iota.
    destruct (next_drop r2 91 _ Hok2 Hc2 Hv2) as (r3 & -> & Hv3 & Hok3 & _). cbn [snd].
    assert (L3 : S (length (view r3)) = length (view r1)) by (rewrite Hv1, Hv3; reflexivity).
    destruct items as [|[[wb t1] wa] more]; [congruence|].
    cbn [wf_items] in Hwfi. destruct Hwfi as (Hwb & Hwft1 & Hwa & Hmore).
    rewrite render_items_cons in Hv3. rewrite <- !app_assoc in Hv3.
    destruct (render_head t1 Hwft1) as (b1 & l1 & Hr1 & Hb1ws & Hb193).
    destruct (eat_whitespace_spec wb r3
                (render t1 ++ wa ++ sep_of more ++ render_items more ++ tl)
                Hok3 Hwb) as (Hv4 & Hok4);
      [rewrite Hr1; exact Hb1ws | exact Hv3 |].
    set (r4 := eat_whitespace r3) in *.
    assert (L4 : (length (view r4) <= length (view r3))%nat)  by (rewrite Hv4, Hv3; lens; lia).
    clearbody r4.
    assert (Hv4' : view r4 = b1 :: l1 ++ wa ++ sep_of more ++ render_items more ++ tl).
    { rewrite Hv4, Hr1. reflexivity. }
    destruct (peek_cons r4 b1 _ Hok4 Hv4') as (r5 & -> & Hv5 & Hc5 & Hok5).
    cbn [is_b]. rewrite Hb193.
    destruct (IHi (([], t1, wa) :: more) vs [] r5 tl) as (r6 & -> & ? & ?); try discriminate.
    + cbn [wf_items]. splits; auto. constructor.
    + exact Evs.
    + exact Hok5.
    + rewrite Hv5, render_items_cons, Hr1, <- !app_assoc. reflexivity.
    + assert (L5 : length (view r5) = length (view r4)) by (rewrite Hv5, Hv4'; reflexivity). lia.
    + cbn [app]. eauto.
  - (* empty object *)
    cbn [value_of] in Hval. injection Hval as <-. cbn [wf] in Hwf. cbn [render] in Hv1.
    assert (Hv1' : view r1 = 123 :: w0 ++ 125 :: tl).
    { rewrite Hv1. cbn [app]. rewrite <- app_assoc. reflexivity. }
    destruct (peek_cons r1 123 _ Hok1 Hv1') as (r2 & -> & Hv2 & Hc2 & Hok2).
    ground_eqb. ground_dig. cbn [orb]. cbv iota.
    destruct (next_drop r2 123 _ Hok2 Hc2 Hv2) as (r3 & -> & Hv3 & Hok3 & _). cbn [snd].
    destruct (eat_whitespace_spec w0 r3 (125 :: tl) Hok3 Hwf) as (Hv4 & Hok4);
      [reflexivity | exact Hv3 |].
    set (r4 := eat_whitespace r3) in *. clearbody r4.
    destruct (peek_cons r4 125 _ Hok4 Hv4) as (r5 & -> & Hv5 & Hc5 & Hok5).
    cbn [is_b]. rewrite N.eqb_refl.
    destruct (next_drop r5 125 _ Hok5 Hc5 Hv5) as (r6 & -> & ? & ? & _). cbn [snd]. eauto.
  - (* non-empty object *)
    rewrite render_obj in Hv1. cbn [app] in Hv1.
    rewrite wf_obj in Hwf. destruct Hwf as (Hne & Hnd & Hwfm).
    rewrite value_obj in Hval. destruct (vals_members ms) as [kvs|] eqn:Ekvs; [|discriminate].
    cbn [option_map] in Hval. injection Hval as <-.
    destruct (peek_cons r1 123 _ Hok1 Hv1) as (r2 & -> & Hv2 & Hc2 & Hok2).
    ground_eqb. ground_dig. cbn [orb]. cbv iota.
    destruct (next_drop r2 123 _ Hok2 Hc2 Hv2) as (r3 & -> & Hv3 & Hok3 & _). cbn [snd].
    assert (L3 : S (length (view r3)) = length (view r1)) by (rewrite Hv1, Hv3; reflexivity).
    destruct ms as [|[[[wk k] wc] [[wb t1] wa]] more]; [congruence|].
    cbn [wf_members] in Hwfm. destruct Hwfm as (Hwk & Hk & Hwc & Hwb & Hwft1 & Hwa & Hmore).
    rewrite render_members_cons in Hv3. rewrite <- !app_assoc in Hv3.
    match type of Hv3 with _ = _ ++ _ ++ ?x => set (rst := x) in * end.
    destruct (eat_whitespace_spec wk r3 (render_str k ++ rst) Hok3 Hwk) as (Hv4 & Hok4);
      [reflexivity | exact Hv3 |].
    set (r4 := eat_whitespace r3) in *.
    assert (L4 : (length (view r4) <= length (view r3))%nat)  by (rewrite Hv4, Hv3; lens; lia).
    clearbody r4.
    assert (Hv4' : view r4 = 34 :: (flat_map render_char k ++ [34]) ++ rst) by (rewrite Hv4; reflexivity).
    destruct (peek_cons r4 34 _ Hok4 Hv4') as (r5 & -> & Hv5 & Hc5 & Hok5).
    cbn [is_b]. ground_eqb. cbv iota.
    destruct (IHm (([], k, wc, (wb, t1, wa)) :: more) kvs [] r5 tl) as (r6 & -> & ? & ?);
      try discriminate.
    + cbn [wf_members]. splits; auto. constructor.
    + exact Hnd.
    + intros ? _ [].
    + exact Ekvs.
    + exact Hok5.
    + rewrite render_members_cons, <- !app_assoc. rewrite Hv5. subst rst. reflexivity.
    + assert (L5 : length (view r5) = length (view r4)) by (rewrite Hv5, Hv4'; reflexivity). lia.
    + cbn [app]. eauto.
Qed.

Lemma items_step f : P_value f -> P_items f -> P_items (S f).
Proof.
  intros IHp IHi items vs acc r tl Hne Hwfi Hvals Hok Hv Hlen. rewrite parse_items_S.
  destruct items as [|[[wb t1] wa] more]; [congruence|].
  cbn [wf_items] in Hwfi. destruct Hwfi as (Hwb & Hwft1 & Hwa & Hmore).
  cbn [vals_items] in Hvals.
  destruct (value_of t1) as [v1|] eqn:Ev1; [|discriminate].
  destruct (vals_items more) as [vs'|] eqn:Evs'; [|discriminate].
  injection Hvals as <-.
  rewrite render_items_cons in Hv. rewrite <- !app_assoc in Hv.
  destruct (sep_items_follow more tl) as [Hsepnws Hsepfol].
  destruct (IHp t1 v1 r wb (wa ++ sep_of more ++ render_items more ++ tl) Hwft1 Ev1 Hwb Hok Hv)
    as (r1 & -> & Hv1 & Hok1).
  { apply follow_after; assumption. }
  { lia. }
  cbv beta iota zeta.
  destruct (eat_whitespace_spec wa r1 _ Hok1 Hwa Hsepnws Hv1) as (Hv2 & Hok2).
  set (r2 := eat_whitespace r1) in *.
  assert (Hl1 : (length (view r1) <= length (view r))%nat)  by (rewrite Hv, Hv1; lens; lia).
  assert (Hl2 : (length (view r2) <= length (view r1))%nat)   by (rewrite Hv2, Hv1; lens; lia).
  clearbody r2.
  destruct more as [|i2 more].
  - cbn [sep_of app render_items] in Hv2.
    destruct (peek_cons r2 93 _ Hok2 Hv2) as (r3 & -> & Hv3 & Hc3 & Hok3). rewrite N.eqb_refl.
    destruct (next_drop r3 93 _ Hok3 Hc3 Hv3) as (r4 & -> & ? & ? & _). cbn [snd].
    cbn [vals_items] in Evs'. injection Evs' as <-. eauto.
  - cbn [sep_of app] in Hv2.
    destruct (peek_cons r2 44 _ Hok2 Hv2) as (r3 & -> & Hv3 & Hc3 & Hok3). ground_eqb. cbv iota.
    destruct (next_drop r3 44 _ Hok3 Hc3 Hv3) as (r4 & -> & Hv4 & Hok4 & _). cbn [snd].
    destruct (IHi (i2 :: more) vs' (acc ++ [v1]) r4 tl) as (r5 & -> & ? & ?); try discriminate; auto.
    + rewrite Hv2 in Hl2. cbn [length] in Hl2. rewrite Hv4. lia.
    + rewrite <- app_assoc. cbn [app]. eauto.
Qed.

Lemma members_step f : P_value f -> P_members f -> P_members (S f).
Proof.
  intros IHp IHm ms kvs acc r tl Hne Hwfm Hnd Hdisj Hvals Hok Hv Hlen. rewrite parse_members_S.
  destruct ms as [|[[[wk k] wc] [[wb t1] wa]] more]; [congruence|].
  cbn [wf_members] in Hwfm. destruct Hwfm as (Hwk & Hk & Hwc & Hwb & Hwft1 & Hwa & Hmore).
  cbn [vals_members] in Hvals.
  destruct (value_of t1) as [v1|] eqn:Ev1; [|discriminate].
  destruct (vals_members more) as [kvs'|] eqn:Ekvs'; [|discriminate].
  injection Hvals as <-.
  cbn [map] in Hnd, Hdisj. unfold key_of at 1 in Hnd. unfold key_of at 1 in Hdisj.
  cbn [fst snd] in Hnd, Hdisj.
  inversion Hnd as [|? ? Hknew Hnd']; subst.
  rewrite render_members_cons in Hv. rewrite <- !app_assoc in Hv.
  destruct (sep_members_follow more tl) as [Hsepnws Hsepfol].
  (* the member name *)
  destruct (IHp (SStr k) (JStr (str_val k)) r wk
              (wc ++ [58] ++ wb ++ render t1 ++ wa ++ sep_of more ++ render_members more ++ tl))
    as (r1 & -> & Hv1 & Hok1); auto.
  { exact I. }
  { lia. }
  cbv beta iota zeta.
  assert (Hl1 : (length (view r1) <= length (view r))%nat) by (rewrite Hv, Hv1; lens; lia).
  cbn [app] in Hv1.
  destruct (eat_whitespace_spec wc r1 _ Hok1 Hwc (eq_refl : nws (58 :: _)) Hv1) as (Hv2 & Hok2).
  set (r2 := eat_whitespace r1) in *.
  assert (Hl2 : (length (view r2) <= length (view r1))%nat) by (rewrite Hv2, Hv1; lens; lia).
  clearbody r2.
  destruct (peek_cons r2 58 _ Hok2 Hv2) as (r3 & -> & Hv3 & Hc3 & Hok3).
  cbn [is_b]. rewrite N.eqb_refl. cbn [negb].
  destruct (next_drop r3 58 _ Hok3 Hc3 Hv3) as (r4 & -> & Hv4 & Hok4 & _). cbn [snd].
  assert (Hl4 : (length (view r4) < length (view r2))%nat) by (rewrite Hv2, Hv4; lens; lia).
  (* the member value *)
  destruct (IHp t1 v1 r4 wb (wa ++ sep_of more ++ render_members more ++ tl) Hwft1 Ev1 Hwb Hok4 Hv4)
    as (r5 & -> & Hv5 & Hok5).
  { apply follow_after; assumption. }
  { lia. }
  cbv beta iota zeta.
  assert (Hl5 : (length (view r5) <= length (view r4))%nat) by (rewrite Hv4, Hv5; lens; lia).
  destruct (eat_whitespace_spec wa r5 _ Hok5 Hwa Hsepnws Hv5) as (Hv6 & Hok6).
  set (r6 := eat_whitespace r5) in *.
  assert (Hl6 : (length (view r6) <= length (view r5))%nat) by (rewrite Hv6, Hv5; lens; lia).
  clearbody r6.
  rewrite (obj_insert_fresh (str_val k) v1 acc) by (apply Hdisj; left; reflexivity).
  destruct more as [|m2 more].
  - cbn [sep_of app render_members] in Hv6.
    destruct (peek_cons r6 125 _ Hok6 Hv6) as (r7 & -> & Hv7 & Hc7 & Hok7). rewrite N.eqb_refl.
    destruct (next_drop r7 125 _ Hok7 Hc7 Hv7) as (r8 & -> & ? & ? & _). cbn [snd].
    cbn [vals_members] in Ekvs'. injection Ekvs' as <-. eauto.
  - cbn [sep_of app] in Hv6.
    destruct (peek_cons r6 44 _ Hok6 Hv6) as (r7 & -> & Hv7 & Hc7 & Hok7). ground_eqb. cbv iota.
    destruct (next_drop r7 44 _ Hok7 Hc7 Hv7) as (r8 & -> & Hv8 & Hok8 & _). cbn [snd].
    destruct (IHm (m2 :: more) kvs' (acc ++ [(str_val k, v1)]) r8 tl) as (r9 & -> & ? & ?);
      try discriminate; auto.
    + intros k' Hin. rewrite map_app, in_app_iff. cbn [map fst In].
      intros [H|[H|[]]].
      * apply (Hdisj k'); [right; exact Hin|exact H].
      * subst k'. apply Hknew. exact Hin.
    + rewrite Hv6 in Hl6. cbn [length] in Hl6. rewrite Hv8. lia.
    + rewrite <- app_assoc. cbn [app]. eauto.
Qed.

Lemma parse_ok : forall fuel, P_value fuel /\ P_items fuel /\ P_members fuel.
Proof.
  induction fuel as [|f (IHp & IHi & IHm)].
  - repeat split; intro; intros; lia.
  - split; [|split].
    + apply value_step; assumption.
    + apply items_step; assumption.
    + apply members_step; assumption.
Qed.

(* the key intermediate theorem: a rendered value followed by an arbitrary continuation *)
Theorem parse_value_render : forall fuel t v (w tl : list byte) r,
  wf t -> value_of t = Some v -> ws_ok w -> follow t tl -> rd_ok r ->
  view r = w ++ render t ++ tl -> (2 * length (view r) < fuel)%nat ->
  exists r', parse_value fuel r = (POk v, r') /\ view r' = tl /\ rd_ok r'.
Proof.
  intros fuel t v w tl r Hwf Hval Hw Hfol Hok Hv Hlen.
  exact (proj1 (parse_ok fuel) t v r w tl Hwf Hval Hw Hok Hv Hfol Hlen).
Qed.

(* ================= streams ================= *)
Lemma parse_value_eof fuel r (w : list byte) : (0 < fuel)%nat -> ws_ok w -> rd_ok r -> view r = w ->
  exists r', parse_value fuel r = (PEof, r').
Proof.
  intros Hf Hw Hok Hv. destruct fuel as [|f]; [lia|]. rewrite parse_value_S. cbv zeta.
  destruct (eat_whitespace_spec w r [] Hok Hw I) as (Hv1 & Hok1); [rewrite app_nil_r; exact Hv|].
  destruct (peek_nil _ Hok1 Hv1) as (r2 & -> & _). eauto.
Qed.

Lemma parse_fuel_enough r : rd_ok r -> (2 * length (view r) < parse_fuel r)%nat.
Proof. intros Hok. pose proof (view_len r Hok). unfold parse_fuel. lia. Qed.

Lemma stream_follow t (w : ws) (more : list (sjson * ws)) :
  ws_ok w -> (bare t = true -> more <> [] -> w <> []) -> follow t (w ++ render_stream more).
Proof.
  intros Hw Hsep. destruct t; cbn [follow]; auto. cbn [bare] in Hsep.
  destruct w as [|a w].
  - destruct more as [|m more]; [exact I|]. exfalso. apply Hsep; [reflexivity|discriminate|reflexivity].
  - inversion Hw; subst. cbn [app]. apply num_follow_ws. assumption.
Qed.

Lemma read_all_stream : forall (l : list (sjson * ws)) (vs : list json) r (lead : ws) fuel,
  ws_ok lead -> Forall (fun tw => wf (fst tw)) l -> seps_ok l ->
  Forall2 (fun tw v => value_of (fst tw) = Some v) l vs ->
  rd_ok r -> view r = lead ++ render_stream l -> (length l < fuel)%nat ->
  read_all fuel r = (vs, 0).
Proof.
  induction l as [|[t w] more IH]; intros vs r lead fuel Hlead Hwf Hseps Hvals Hok Hv Hf;
    (destruct fuel as [|f]; [cbn in Hf; lia|]); cbn [read_all]; unfold next_json_value.
  - inversion Hvals; subst. cbn [render_stream] in Hv. rewrite app_nil_r in Hv.
    destruct (parse_value_eof (parse_fuel r) r lead) as (r' & ->); auto.
    unfold parse_fuel; lia.
  - inversion Hvals as [|? v ? vs' Hv1 Hvs']; subst. cbn [fst] in Hv1.
    inversion Hwf as [|? ? Hwft Hwf']; subst. cbn [fst] in Hwft.
    cbn [seps_ok] in Hseps. destruct Hseps as (Hw & Hsep & Hseps').
    cbn [render_stream] in Hv.
    destruct (parse_value_render (parse_fuel r) t v lead (w ++ render_stream more) r)
      as (r' & -> & Hv' & Hok'); auto.
    + apply stream_follow; assumption.
    + apply parse_fuel_enough; assumption.
    + rewrite (IH vs' r' w f); auto. cbn in Hf; lia.
Qed.

Lemma stream_length (l : list (sjson * ws)) : Forall (fun tw => wf (fst tw)) l ->
  (length l <= length (render_stream l))%nat.
Proof.
  induction l as [|[t w] more IH]; intros H; [cbn; lia|].
  inversion H as [|? ? Hwft Hwf']; subst. cbn [fst] in Hwft.
  cbn [render_stream]. pose proof (render_nonempty t Hwft). specialize (IH Hwf').
  lens. unfold ws, byte in *. lia.
Qed.

Theorem values_of_stream : forall (lead : ws) (l : list (sjson * ws)) (vs : list json),
  stream_wf lead l ->
  Forall2 (fun tw v => value_of (fst tw) = Some v) l vs ->
  values_of_bytes (lead ++ render_stream l) = (vs, 0%N).
Proof.
  intros lead l vs (Hlead & Hwf & Hseps) Hvals. unfold values_of_bytes.
  apply (read_all_stream l vs _ lead); auto.
  - apply rd_ok_of_bytes.
  - apply view_of_bytes.
  - pose proof (stream_length l Hwf). rewrite app_length. lia.
Qed.

Print Assumptions parse_value_render.
Print Assumptions values_of_stream.
