(* CsvProofs.v — the csv rows jawk prints are read back, field for field, by the RFC 4180 record
   reader of Spec/CsvReader.v.  Lemmas and theorems only; no axioms. *)
From Coq Require Import List NArith ZArith Bool Lia.
From Jawk Require Import Base F64 Json Printer Ctx Go CsvReader ReaderLemmas.
Import ListNotations.
Local Open Scope N_scope.

#[local] Arguments N.add : simpl never.
#[local] Arguments N.mul : simpl never.
#[local] Arguments N.sub : simpl never.
#[local] Arguments N.div : simpl never.
#[local] Arguments N.modulo : simpl never.
#[local] Arguments N.eqb : simpl never.
#[local] Arguments N.ltb : simpl never.
#[local] Arguments N.leb : simpl never.

(* ================================================================== *)
(* C1. the shape of a row                                              *)
(* ================================================================== *)

Lemma join_fields_cons2 sep f g fs :
  join_fields sep (f :: g :: fs) = f ++ sep ++ join_fields sep (g :: fs).
Proof. reflexivity. Qed.

(* m fields are joined by exactly m-1 separators: one in front of every field but the first *)
Lemma join_fields_cons sep f fs :
  join_fields sep (f :: fs) = f ++ flat_map (fun g => sep ++ g) fs.
Proof.
  revert f. induction fs as [|g fs IH]; intros f.
  - cbn [join_fields flat_map]. now rewrite app_nil_r.
  - rewrite join_fields_cons2, IH. cbn [flat_map]. now rewrite <- app_assoc.
Qed.

(* a row of a text printer with selections: one field per selection, then the row separator *)
Lemma print_row_text o k rowsep c :
  print_row (PText o) (S k) rowsep c =
  join_fields (items_sep o) (map (text_field o) (to_list c)) ++ rowsep.
Proof. reflexivity. Qed.

Lemma fields_count o n k rowsep c : length (to_list c) = n ->
  exists fs, length fs = n /\ fs = map (text_field o) (to_list c) /\
             print_row (PText o) (S k) rowsep c = join_fields (items_sep o) fs ++ rowsep.
Proof.
  intros Hn. exists (map (text_field o) (to_list c)). rewrite map_length. auto.
Qed.

(* ================================================================== *)
(* 2. the reader on one field                                          *)
(* ================================================================== *)

Definition bare_byte (b : byte) : Prop := b <> 44 /\ b <> 34 /\ b <> 13 /\ b <> 10.
(* an unquoted field the reader returns as it is: no comma, quote, CR, LF; no blank in front *)
Definition bare_ok (l : list byte) : Prop :=
  Forall bare_byte l /\ match l with b :: _ => b <> 32 | [] => True end.

(* doubling the quotes *)
Definition dbl1 (b : byte) : list byte := if b =? 34 then [34; 34] else [b].
Definition dbl (l : list byte) : list byte := flat_map dbl1 l.

(* the printed text of a field and the field the reader must return *)
Inductive field_text : list byte -> field -> Prop :=
| ft_bare l : bare_ok l -> field_text l (FBare l)
| ft_quoted c : field_text (34 :: dbl c ++ [34]) (FQuoted c).

Lemma classify_other b : bare_byte b -> classify b = DOther.
Proof.
  intros (H1 & H2 & H3 & H4). unfold classify.
  destruct (N.eqb_spec b 44); [contradiction|]. destruct (N.eqb_spec b 13); [contradiction|].
  destruct (N.eqb_spec b 10); [contradiction|]. destruct (N.eqb_spec b 34); [contradiction|].
  reflexivity.
Qed.

Lemma classify_quote b : classify b = DQuote -> b = 34.
Proof.
  unfold classify. destruct (N.eqb_spec b 44); [discriminate|].
  destruct (N.eqb_spec b 13); [discriminate|]. destruct (N.eqb_spec b 10); [discriminate|].
  destruct (N.eqb_spec b 34); [auto|discriminate].
Qed.

(* inside the quotes *)
Lemma run_quoted_byte b acc done t : b <> 34 ->
  csv_run (InQuoted acc) done (b :: t) = csv_run (InQuoted (acc ++ [b])) done t.
Proof.
  intros Hb. cbn [csv_run]. destruct (classify b) eqn:E; try reflexivity.
  apply classify_quote in E. contradiction.
Qed.

Lemma run_quoted_dquote acc done t :
  csv_run (InQuoted acc) done (34 :: 34 :: t) = csv_run (InQuoted (acc ++ [34])) done t.
Proof. reflexivity. Qed.

Lemma run_quoted c : forall acc done t,
  csv_run (InQuoted acc) done (dbl c ++ t) = csv_run (InQuoted (acc ++ c)) done t.
Proof.
  induction c as [|b c IH]; intros acc done t.
  - cbn [dbl flat_map app]. now rewrite app_nil_r.
  - unfold dbl. cbn [flat_map]. fold (dbl c). rewrite <- app_assoc. unfold dbl1.
    destruct (N.eqb_spec b 34) as [->|Hb]; cbn [app].
    + rewrite run_quoted_dquote, IH, <- app_assoc. reflexivity.
    + rewrite run_quoted_byte by assumption. rewrite IH, <- app_assoc. reflexivity.
Qed.

(* inside an unquoted field *)
Lemma run_bare l : forall acc done t, Forall bare_byte l ->
  csv_run (InBare acc) done (l ++ t) = csv_run (InBare (acc ++ l)) done t.
Proof.
  induction l as [|b l IH]; intros acc done t Hl.
  - cbn [app]. now rewrite app_nil_r.
  - inversion Hl as [|? ? Hb Hl']; subst. cbn [app csv_run].
    rewrite (classify_other b Hb). rewrite IH by assumption. now rewrite <- app_assoc.
Qed.

(* what may follow a field *)
Definition delim_start (t : list byte) : Prop :=
  match t with [] => True | b :: _ => b = 44 \/ b = 10 \/ b = 13 end.

(* the reader with the field `e` read and not yet closed *)
Definition pending (e : field) (done : list field) (t : list byte) : option (list field * list byte) :=
  match e with
  | FQuoted c => csv_run (AfterQuote c) done t
  | FBare l => csv_run (InBare l) done t
  end.

Lemma run_field f e : field_text f e -> forall skip done t, delim_start t ->
  csv_run (AtField skip) done (f ++ t) = pending e done t.
Proof.
  intros [l [Hl Hhd]|c] skip done t Ht.
  - destruct l as [|b l].
    + cbn [app pending]. destruct t as [|d t]; [reflexivity|].
      cbn [delim_start] in Ht. destruct Ht as [->|[->| ->]]; reflexivity.
    + inversion Hl as [|? ? Hb Hl']; subst. cbn [app pending csv_run].
      rewrite (classify_other b Hb).
      destruct (N.eqb_spec b 32) as [Hb32|_]; [contradiction|]. rewrite andb_false_r.
      apply (run_bare l [b]). assumption.
  - cbn [app pending]. change (csv_run (AtField skip) done (34 :: (dbl c ++ [34]) ++ t))
      with (csv_run (InQuoted []) done ((dbl c ++ [34]) ++ t)).
    rewrite <- app_assoc. rewrite run_quoted. reflexivity.
Qed.

Lemma pending_comma e done t :
  pending e done (44 :: 32 :: t) = csv_run (AtField true) (done ++ [e]) t.
Proof. destruct e; reflexivity. Qed.
Lemma pending_lf e done t : pending e done (10 :: t) = Some (done ++ [e], t).
Proof. destruct e; reflexivity. Qed.
Lemma pending_crlf e done t : pending e done (13 :: 10 :: t) = Some (done ++ [e], t).
Proof. destruct e; reflexivity. Qed.
Lemma pending_eof e done : pending e done [] = Some (done ++ [e], []).
Proof. destruct e; reflexivity. Qed.

(* ================================================================== *)
(* 3. the reader on one row                                            *)
(* ================================================================== *)

(* the ends of a record: LF, CRLF, or the end of the input *)
Inductive row_end : list byte -> list byte -> Prop :=
| re_lf rest : row_end (10 :: rest) rest
| re_crlf rest : row_end (13 :: 10 :: rest) rest
| re_eof : row_end [] [].

Lemma row_end_delim t rest : row_end t rest -> delim_start t.
Proof. intros [r|r|]; cbn [delim_start]; auto. Qed.

Lemma pending_end e done t rest : row_end t rest -> pending e done t = Some (done ++ [e], rest).
Proof.
  intros [r|r|]; [apply pending_lf|apply pending_crlf|apply pending_eof].
Qed.

Lemma run_row fs es : Forall2 field_text fs es -> fs <> [] ->
  forall skip done t rest, row_end t rest ->
  csv_run (AtField skip) done (join_fields [44; 32] fs ++ t) = Some (done ++ es, rest).
Proof.
  induction 1 as [|f e fs es Hf Hfs IH]; intros Hne skip done t rest Ht; [contradiction|].
  destruct fs as [|g fs].
  - inversion Hfs; subst. cbn [join_fields].
    rewrite (run_field f e Hf) by (eapply row_end_delim; eassumption).
    eapply pending_end; eassumption.
  - rewrite join_fields_cons2. rewrite <- !app_assoc. cbn [app].
    rewrite (run_field f e Hf) by (cbn [delim_start]; auto).
    rewrite pending_comma. rewrite (IH ltac:(discriminate) true (done ++ [e]) t rest Ht).
    rewrite <- app_assoc. reflexivity.
Qed.

(* (at the end of the input a record needs at least one byte: `t <> []` or a non-empty text) *)
Lemma read_row fs es t rest : Forall2 field_text fs es -> fs <> [] -> row_end t rest ->
  join_fields [44; 32] fs ++ t <> [] ->
  csv_read_record (join_fields [44; 32] fs ++ t) = Some (es, rest).
Proof.
  intros H Hne Ht Hnil. pose proof (run_row fs es H Hne false [] t rest Ht) as R. cbn [app] in R.
  unfold csv_read_record. destruct (join_fields [44; 32] fs ++ t) as [|b l] eqn:E; [contradiction|exact R].
Qed.

(* ================================================================== *)
(* 4. numbers are unquoted fields                                      *)
(* ================================================================== *)

(* the characters of a number: '-' '.' digits, the letters of inf and NaN — all in 45..127 *)
Definition numch (b : byte) : Prop := 45 <= b /\ b < 128.

Lemma numch_bare_ok l : Forall numch l -> bare_ok l.
Proof.
  intros H. split.
  - eapply Forall_impl; [|exact H]. unfold numch, bare_byte. intros; lia.
  - destruct l as [|b l]; [exact I|]. inversion H as [|? ? Hb _]; subst. unfold numch in Hb. lia.
Qed.

Lemma Forall_repeat {A} (P : A -> Prop) x k : P x -> Forall P (repeat x k).
Proof. intros Hx. induction k; cbn [repeat]; constructor; auto. Qed.

Lemma Forall_firstn_skipn {A} (P : A -> Prop) k l : Forall P l ->
  Forall P (firstn k l) /\ Forall P (skipn k l).
Proof. intros H. rewrite <- (firstn_skipn k l) in H. apply Forall_app in H. exact H. Qed.

Lemma digits_fuel_numch f : forall n acc, Forall numch acc -> Forall numch (digits_fuel f n acc).
Proof.
  induction f as [|f IH]; intros n acc Hacc; cbn [digits_fuel]; [assumption|].
  destruct (N.ltb_spec n 10) as [Hlt|Hge].
  - constructor; [unfold numch; lia|assumption].
  - apply IH. constructor; [|assumption]. generalize (N.mod_lt n 10 ltac:(discriminate)).
    generalize (n mod 10). unfold numch. intros r Hr. lia.
Qed.

Lemma digits_of_N_numch n : Forall numch (digits_of_N n).
Proof. unfold digits_of_N. apply digits_fuel_numch. constructor. Qed.

Lemma digits_of_Z_numch z : Forall numch (digits_of_Z z).
Proof.
  destruct z as [|p|p]; cbn [digits_of_Z].
  - repeat constructor; unfold numch; lia.
  - apply digits_of_N_numch.
  - constructor; [unfold numch; lia|apply digits_of_N_numch].
Qed.

Lemma render_positional_numch c p : Forall numch (render_positional c p).
Proof.
  unfold render_positional. cbv zeta.
  pose proof (digits_of_N_numch (Z.to_N c)) as Hd.
  assert (H48 : numch 48) by (unfold numch; lia).
  assert (H46 : numch 46) by (unfold numch; lia).
  destruct (0 <=? p)%Z.
  - apply Forall_app. split; [assumption|apply Forall_repeat; assumption].
  - match goal with |- context [firstn ?k ?l] =>
      destruct (Forall_firstn_skipn numch k l Hd) as [Hf Hs] end.
    match goal with |- context [if ?b then _ else _] => destruct b end.
    + apply Forall_app. split; [assumption|constructor; assumption].
    + constructor; [assumption|]. constructor; [assumption|].
      apply Forall_app. split; [apply Forall_repeat; assumption|assumption].
Qed.

(* the decimal text of a double (F64.flt2dec) *)
Lemma flt2dec_numch f : Forall numch (flt2dec f).
Proof.
  unfold flt2dec. destruct (f_decode f) as [|s|s m e].
  - repeat constructor; unfold numch; lia.
  - destruct s; cbn [app]; repeat constructor; unfold numch; lia.
  - apply Forall_app. split; [destruct s; repeat constructor; unfold numch; lia|].
    destruct (m =? 0)%Z; [repeat constructor; unfold numch; lia|].
    destruct (shortest m e) as [c p]. apply render_positional_numch.
Qed.

Lemma print_num_numch n : Forall numch (print_num n).
Proof.
  destruct n as [n|z|f]; cbn [print_num];
    [apply digits_of_N_numch|apply digits_of_Z_numch|apply flt2dec_numch].
Qed.

Lemma print_num_bare_ok n : bare_ok (print_num n).
Proof. apply numch_bare_ok, print_num_numch. Qed.

(* ================================================================== *)
(* 5. strings are quoted fields: the escape table doubles the quotes   *)
(* ================================================================== *)

Lemma dbl_app a b : dbl (a ++ b) = dbl a ++ dbl b.
Proof. unfold dbl. apply flat_map_app. Qed.

Lemma hi_not_quote a x : 128 <= a -> (a + x =? 34) = false.
Proof. intros H. apply N.eqb_neq. lia. Qed.

(* no byte of a multi-byte sequence is a quote: doubling acts on the quote character (34) alone *)
Lemma dbl_encode_char c : c <> 34 -> dbl (utf8_encode_char c) = utf8_encode_char c.
Proof.
  intros Hc. unfold utf8_encode_char.
  destruct (c <? 128); [|destruct (c <? 2048); [|destruct (c <? 65536)]];
    unfold dbl, dbl1; cbn [flat_map app].
  - destruct (N.eqb_spec c 34); [contradiction|reflexivity].
  - rewrite !hi_not_quote by lia. reflexivity.
  - rewrite !hi_not_quote by lia. reflexivity.
  - rewrite !hi_not_quote by lia. reflexivity.
Qed.

Lemma csv_char c :
  match assoc_bytes c (escapes csv_opts) with Some r => r | None => utf8_encode_char c end
  = dbl (utf8_encode_char c).
Proof.
  change (escapes csv_opts) with [(34, [34; 34])]. cbn [assoc_bytes].
  destruct (N.eqb_spec c 34) as [->|Hc]; [reflexivity|].
  symmetry. apply dbl_encode_char. assumption.
Qed.

(* for every string (valid or not): quote, the UTF-8 text with the quotes doubled, quote *)
Lemma text_string_csv s : text_string csv_opts s = 34 :: dbl (utf8_encode s) ++ [34].
Proof.
  unfold text_string. change (str_prefix csv_opts) with [34]. change (str_postfix csv_opts) with [34].
  cbn [app]. f_equal. f_equal. unfold utf8_encode.
  induction s as [|c s IH]; [reflexivity|].
  cbn [flat_map]. rewrite dbl_app, csv_char, IH. reflexivity.
Qed.

(* ================================================================== *)
(* 6. the concise JSON text of a value is the UTF-8 encoding of a string *)
(* ================================================================== *)

Definition scalars (s : str) : Prop := Forall (fun c => is_scalar c = true) s.
Definition is_utf8 (l : list byte) : Prop := exists s, scalars s /\ l = utf8_encode s.
Definition asc7 (b : byte) : Prop := b < 128.

Lemma is_utf8_app a b : is_utf8 a -> is_utf8 b -> is_utf8 (a ++ b).
Proof.
  intros (sa & Ha & ->) (sb & Hb & ->). exists (sa ++ sb). split.
  - apply Forall_app. split; assumption.
  - unfold utf8_encode. now rewrite flat_map_app.
Qed.

Lemma encode_ascii b : b < 128 -> utf8_encode_char b = [b].
Proof. intros H. unfold utf8_encode_char. now rewrite (ltb_true b 128) by assumption. Qed.

Lemma is_utf8_ascii l : Forall asc7 l -> is_utf8 l.
Proof.
  induction 1 as [|b l Hb _ (s & Hs & ->)].
  - exists []. split; [constructor|reflexivity].
  - unfold asc7 in Hb. exists (b :: s). split.
    + constructor; [|assumption]. unfold is_scalar. apply orb_true_iff. left. apply N.ltb_lt. lia.
    + unfold utf8_encode. cbn [flat_map]. rewrite (encode_ascii b) by assumption. reflexivity.
Qed.

Lemma is_utf8_char c : is_scalar c = true -> is_utf8 (utf8_encode_char c).
Proof.
  intros Hc. exists [c]. split; [repeat constructor; assumption|].
  unfold utf8_encode. cbn [flat_map]. now rewrite app_nil_r.
Qed.

Lemma is_utf8_cons b l : asc7 b -> is_utf8 l -> is_utf8 (b :: l).
Proof.
  intros Hb Hl. change (b :: l) with ([b] ++ l). apply is_utf8_app; [|assumption].
  apply is_utf8_ascii. repeat constructor. assumption.
Qed.

Lemma numch_asc7 l : Forall numch l -> Forall asc7 l.
Proof. intros H. eapply Forall_impl; [|exact H]. unfold numch, asc7. intros; lia. Qed.

(* hexadecimal digits of the \u escapes *)
Lemma hex_digit_asc7 d : d < 16 -> asc7 (hex_digit d).
Proof. intros H. unfold hex_digit, asc7. destruct (d <? 10); lia. Qed.

Lemma hex_fuel_asc7 f : forall n acc, Forall asc7 acc -> Forall asc7 (hex_fuel f n acc).
Proof.
  induction f as [|f IH]; intros n acc Hacc; cbn [hex_fuel]; [assumption|].
  destruct (N.ltb_spec n 16) as [Hlt|Hge].
  - constructor; [apply hex_digit_asc7; assumption|assumption].
  - apply IH. constructor; [|assumption]. apply hex_digit_asc7.
    apply N.mod_lt. discriminate.
Qed.

Lemma hex4_asc7 c : Forall asc7 (hex4 c).
Proof.
  unfold hex4. cbv zeta. apply Forall_app. split.
  - apply Forall_repeat. unfold asc7. lia.
  - unfold hex_of_N. apply hex_fuel_asc7. constructor.
Qed.

Lemma assoc_esc_asc7 c l : assoc_esc c print_escapes = Some l -> asc7 l.
Proof.
  unfold print_escapes, asc7. cbn [assoc_esc].
  repeat (destruct (c =? _); [intros [= <-]; lia|]). discriminate.
Qed.

Lemma print_char_utf8 c : is_scalar c = true -> is_utf8 (print_char true c).
Proof.
  intros Hc. unfold print_char. destruct (assoc_esc c print_escapes) as [l|] eqn:E.
  - apply is_utf8_ascii. apply assoc_esc_asc7 in E.
    constructor; [unfold asc7; lia|]. constructor; [assumption|constructor].
  - destruct (32 <=? c); cbn [andb orb].
    + apply is_utf8_char. assumption.
    + apply is_utf8_ascii. constructor; [unfold asc7; lia|]. constructor; [unfold asc7; lia|].
      apply hex4_asc7.
Qed.

Lemma print_string_utf8 s : scalars s -> is_utf8 (print_string true s).
Proof.
  intros Hs. unfold print_string. apply is_utf8_cons; [unfold asc7; lia|].
  apply is_utf8_app; [|apply is_utf8_ascii; repeat constructor; unfold asc7; lia].
  induction Hs as [|c s Hc _ IH]; cbn [flat_map].
  - exists []. split; [constructor|reflexivity].
  - apply is_utf8_app; [apply print_char_utf8; assumption|exact IH].
Qed.

(* ---------- values all of whose strings are sequences of scalar values ---------- *)
Fixpoint scalar_value (v : json) {struct v} : Prop :=
  match v with
  | JNull | JBool _ | JNum _ => True
  | JStr s => scalars s
  | JArr l => (fix all (l : list json) : Prop :=
                 match l with [] => True | x :: t => scalar_value x /\ all t end) l
  | JObj m => (fix all (m : list (str * json)) : Prop :=
                 match m with
                 | [] => True
                 | kv :: t => scalars (fst kv) /\ scalar_value (snd kv) /\ all t
                 end) m
  end.

Lemma scalar_value_arr l : scalar_value (JArr l) <-> Forall scalar_value l.
Proof.
  cbn [scalar_value]. induction l as [|x t IH].
  - split; constructor.
  - split.
    + intros [H1 H2]. constructor; [exact H1|apply IH; exact H2].
    + intros H. inversion H; subst. split; [assumption|apply IH; assumption].
Qed.

Lemma scalar_value_obj m : scalar_value (JObj m) <->
  Forall (fun kv => scalars (fst kv) /\ scalar_value (snd kv)) m.
Proof.
  cbn [scalar_value]. induction m as [|kv t IH].
  - split; constructor.
  - split.
    + intros [H1 [H2 H3]]. constructor; [split; assumption|apply IH; exact H3].
    + intros H. inversion H as [|? ? [H1 H2] H3]; subst.
      split; [assumption|]. split; [assumption|apply IH; assumption].
Qed.

Section JsonInd.
Variable P : json -> Prop.
Hypothesis Hnull : P JNull.
Hypothesis Hbool : forall b, P (JBool b).
Hypothesis Hstr : forall s, P (JStr s).
Hypothesis Hnum : forall n, P (JNum n).
Hypothesis Hobj : forall m, Forall (fun kv => P (snd kv)) m -> P (JObj m).
Hypothesis Harr : forall l, Forall P l -> P (JArr l).

Fixpoint json_rect' (v : json) : P v :=
  match v with
  | JNull => Hnull
  | JBool b => Hbool b
  | JStr s => Hstr s
  | JNum n => Hnum n
  | JObj m => Hobj m ((fix go (m : list (str * json)) : Forall (fun kv => P (snd kv)) m :=
                         match m with
                         | [] => Forall_nil _
                         | kv :: t => Forall_cons kv (json_rect' (snd kv)) (go t)
                         end) m)
  | JArr l => Harr l ((fix go (l : list json) : Forall P l :=
                         match l with
                         | [] => Forall_nil _
                         | x :: t => Forall_cons x (json_rect' x) (go t)
                         end) l)
  end.
End JsonInd.

(* unfolding equations of the nested fixpoints of the JSON printer *)
Definition p_items (st : jstyle) (d : nat) (pr : json -> list byte) :=
  fix items (l : list json) : list byte :=
    match l with
    | [] => []
    | [x] => indent st (S d) ++ pr x
    | x :: t => indent st (S d) ++ pr x ++ comma st ++ items t
    end.
Definition p_members (st : jstyle) (utf8 : bool) (d : nat) (pr : json -> list byte) :=
  fix members (m : list (str * json)) : list byte :=
    match m with
    | [] => []
    | [(k, x)] => indent st (S d) ++ print_string utf8 k ++ colon st ++ pr x
    | (k, x) :: t => indent st (S d) ++ print_string utf8 k ++ colon st ++ pr x
                     ++ comma st ++ members t
    end.

Lemma print_arr_eq st utf8 d x t :
  print_json_at st utf8 d (JArr (x :: t)) =
  91 :: p_items st d (print_json_at st utf8 (S d)) (x :: t) ++ indent st d ++ [93].
Proof. reflexivity. Qed.
Lemma print_obj_eq st utf8 d kv t :
  print_json_at st utf8 d (JObj (kv :: t)) =
  123 :: p_members st utf8 d (print_json_at st utf8 (S d)) (kv :: t) ++ indent st d ++ [125].
Proof. reflexivity. Qed.

Lemma p_items_utf8 d pr l : Forall (fun x => is_utf8 (pr x)) l -> is_utf8 (p_items Consise d pr l).
Proof.
  induction 1 as [|x t Hx Ht IH].
  - exists []. split; [constructor|reflexivity].
  - destruct t as [|y t].
    + cbn [p_items indent app]. exact Hx.
    + change (p_items Consise d pr (x :: y :: t)) with (pr x ++ [44] ++ p_items Consise d pr (y :: t)).
      apply is_utf8_app; [exact Hx|]. apply is_utf8_cons; [unfold asc7; lia|exact IH].
Qed.

Lemma p_members_utf8 d pr m :
  Forall (fun kv => scalars (fst kv) /\ is_utf8 (pr (snd kv))) m ->
  is_utf8 (p_members Consise true d pr m).
Proof.
  induction 1 as [|[k x] t [Hk Hx] Ht IH].
  - exists []. split; [constructor|reflexivity].
  - cbn [fst snd] in Hk, Hx. destruct t as [|kv t].
    + change (p_members Consise true d pr [(k, x)]) with (print_string true k ++ [58] ++ pr x).
      apply is_utf8_app; [apply print_string_utf8; assumption|].
      apply is_utf8_cons; [unfold asc7; lia|exact Hx].
    + change (p_members Consise true d pr ((k, x) :: kv :: t))
        with (print_string true k ++ [58] ++ pr x ++ [44] ++ p_members Consise true d pr (kv :: t)).
      apply is_utf8_app; [apply print_string_utf8; assumption|].
      apply is_utf8_cons; [unfold asc7; lia|].
      apply is_utf8_app; [exact Hx|]. apply is_utf8_cons; [unfold asc7; lia|exact IH].
Qed.

Lemma print_json_at_utf8 v : scalar_value v -> forall d, is_utf8 (print_json_at Consise true d v).
Proof.
  induction v as [|b|s|n|m IH|l IH] using json_rect'; intros Hv d.
  - apply is_utf8_ascii. repeat constructor; unfold asc7; lia.
  - apply is_utf8_ascii. destruct b; repeat constructor; unfold asc7; lia.
  - cbn [print_json_at]. apply print_string_utf8. exact Hv.
  - cbn [print_json_at]. apply is_utf8_ascii, numch_asc7, print_num_numch.
  - apply scalar_value_obj in Hv. destruct m as [|kv t].
    + apply is_utf8_ascii. repeat constructor; unfold asc7; lia.
    + rewrite print_obj_eq. apply is_utf8_cons; [unfold asc7; lia|].
      apply is_utf8_app; [|apply is_utf8_ascii; repeat constructor; unfold asc7; lia].
      apply p_members_utf8. rewrite Forall_forall in *. intros e He.
      destruct (Hv e He) as [Hk Hx]. split; [assumption|]. apply IH; assumption.
  - apply scalar_value_arr in Hv. destruct l as [|x t].
    + apply is_utf8_ascii. repeat constructor; unfold asc7; lia.
    + rewrite print_arr_eq. apply is_utf8_cons; [unfold asc7; lia|].
      apply is_utf8_app; [|apply is_utf8_ascii; repeat constructor; unfold asc7; lia].
      apply p_items_utf8. rewrite Forall_forall in *. intros e He. apply IH; auto.
Qed.

(* the hypothesis-free form asked for *)
Theorem print_json_is_utf8 v : scalar_value v ->
  exists s, Forall (fun c => is_scalar c = true) s /\ print_json Consise true v = utf8_encode s.
Proof. intros Hv. exact (print_json_at_utf8 v Hv 0%nat). Qed.

(* ================================================================== *)
(* C2. every printed row reads back field for field                    *)
(* ================================================================== *)

(* what the reader must return for a printed value *)
Definition expected_field (v : option json) : field :=
  match v with
  | None => FBare []
  | Some JNull => FBare [110; 117; 108; 108]                (* null *)
  | Some (JBool true) => FBare [84; 114; 117; 101]          (* True *)
  | Some (JBool false) => FBare [70; 97; 108; 115; 101]     (* False *)
  | Some (JNum n) => FBare (print_num n)
  | Some (JStr s) => FQuoted (utf8_encode s)
  | Some ((JArr _ | JObj _) as v) => FQuoted (print_json Consise true v)
  end.

(* values without nesting: absent, null, booleans, numbers, strings *)
Definition flat_field (v : option json) : Prop :=
  match v with Some (JArr _ | JObj _) => False | _ => True end.
(* every string at every depth is a sequence of Unicode scalar values *)
Definition scalar_field (v : option json) : Prop :=
  match v with Some v => scalar_value v | None => True end.
(* the nested values (only they are decoded again by the printer) have valid strings *)
Definition nested_scalar_field (v : option json) : Prop :=
  match v with Some ((JArr _ | JObj _) as v) => scalar_value v | _ => True end.

Lemma word_bare_ok l : Forall numch l -> field_text l (FBare l).
Proof. intros H. apply ft_bare, numch_bare_ok, H. Qed.

Lemma nested_field_text v : scalar_value v ->
  match utf8_decode (print_json Consise true v) with
  | Some s => text_string csv_opts s
  | None => []
  end = 34 :: dbl (print_json Consise true v) ++ [34].
Proof.
  intros Hv. destruct (print_json_is_utf8 v Hv) as (s & Hs & E). rewrite E.
  unfold utf8_encode at 1. rewrite (utf8_decode_encode s Hs). apply text_string_csv.
Qed.

Lemma field_text_csv v : nested_scalar_field v ->
  field_text (text_field csv_opts v) (expected_field v).
Proof.
  intros Hv. destruct v as [v|].
  - destruct v as [|b|s|n|m|l]; cbn [text_field text_value expected_field].
    + apply word_bare_ok. repeat constructor; unfold numch; lia.
    + destruct b; apply word_bare_ok; repeat constructor; unfold numch; lia.
    + rewrite text_string_csv. apply ft_quoted.
    + apply ft_bare, print_num_bare_ok.
    + cbn [nested_scalar_field] in Hv. rewrite (nested_field_text _ Hv). apply ft_quoted.
    + cbn [nested_scalar_field] in Hv. rewrite (nested_field_text _ Hv). apply ft_quoted.
  - cbn [text_field expected_field]. change (missing_kw csv_opts) with (@None (list byte)).
    apply ft_bare. split; [constructor|exact I].
Qed.

Lemma fields_text_csv vs : Forall nested_scalar_field vs ->
  Forall2 field_text (map (text_field csv_opts) vs) (map expected_field vs).
Proof.
  induction 1 as [|v vs Hv _ IH]; cbn [map]; constructor; [apply field_text_csv; assumption|exact IH].
Qed.

Lemma scalar_nested v : scalar_field v -> nested_scalar_field v.
Proof. destruct v as [[| | | | |]|]; cbn; auto. Qed.
Lemma flat_nested v : flat_field v -> nested_scalar_field v.
Proof. destruct v as [[| | | | |]|]; cbn; auto; contradiction. Qed.

(* the general form: the record ends with LF or CRLF (`t <> []` leaves these two) *)
Theorem csv_row_readable_end vs t rest : vs <> [] -> Forall nested_scalar_field vs ->
  row_end t rest -> t <> [] ->
  csv_read_record (join_fields [44; 32] (map (text_field csv_opts) vs) ++ t)
  = Some (map expected_field vs, rest).
Proof.
  intros Hne Hvs Ht Htn. apply read_row; auto.
  - apply fields_text_csv. assumption.
  - destruct vs; [contradiction|discriminate].
  - destruct t; [contradiction|]. intros E. apply app_eq_nil in E. destruct E; discriminate.
Qed.

(* the main theorem *)
Theorem csv_row_readable vs rest : vs <> [] -> Forall scalar_field vs ->
  csv_read_record (join_fields [44; 32] (map (text_field csv_opts) vs) ++ [10] ++ rest)
  = Some (map expected_field vs, rest).
Proof.
  intros Hne Hvs. apply csv_row_readable_end; auto.
  - eapply Forall_impl; [|exact Hvs]. apply scalar_nested.
  - constructor.
  - discriminate.
Qed.

(* rows without nested values: no hypothesis on the strings at all *)
Theorem csv_row_readable_flat vs rest : vs <> [] -> Forall flat_field vs ->
  csv_read_record (join_fields [44; 32] (map (text_field csv_opts) vs) ++ [10] ++ rest)
  = Some (map expected_field vs, rest).
Proof.
  intros Hne Hvs. apply csv_row_readable_end; auto.
  - eapply Forall_impl; [|exact Hvs]. apply flat_nested.
  - constructor.
  - discriminate.
Qed.

(* with CR LF as the row separator *)
Theorem csv_row_readable_crlf vs rest : vs <> [] -> Forall scalar_field vs ->
  csv_read_record (join_fields [44; 32] (map (text_field csv_opts) vs) ++ [13; 10] ++ rest)
  = Some (map expected_field vs, rest).
Proof.
  intros Hne Hvs. apply csv_row_readable_end; auto.
  - eapply Forall_impl; [|exact Hvs]. apply scalar_nested.
  - constructor.
  - discriminate.
Qed.

(* a last row without row separator, ended by the end of the input (needs at least one byte) *)
Theorem csv_row_readable_eof vs : Forall nested_scalar_field vs ->
  join_fields [44; 32] (map (text_field csv_opts) vs) <> [] ->
  csv_read_record (join_fields [44; 32] (map (text_field csv_opts) vs))
  = Some (map expected_field vs, []).
Proof.
  intros Hvs Hne.
  pose proof (read_row (map (text_field csv_opts) vs) (map expected_field vs) [] []) as R.
  rewrite app_nil_r in R. apply R.
  - apply fields_text_csv. assumption.
  - destruct vs; [contradiction Hne; reflexivity|discriminate].
  - constructor.
  - assumption.
Qed.

(* the rows of `go`: what print_row writes for a context with selections *)
Corollary csv_print_row_readable k c rest :
  to_list c <> [] -> Forall scalar_field (to_list c) ->
  csv_read_record (print_row (PText csv_opts) (S k) [10] c ++ rest)
  = Some (map expected_field (to_list c), rest).
Proof.
  intros Hne Hvs. rewrite print_row_text. change (items_sep csv_opts) with [44; 32].
  rewrite <- app_assoc. apply csv_row_readable; assumption.
Qed.

(* as many fields are read as were selected *)
Corollary csv_print_row_count k c rest fs rest' :
  to_list c <> [] -> Forall scalar_field (to_list c) ->
  csv_read_record (print_row (PText csv_opts) (S k) [10] c ++ rest) = Some (fs, rest') ->
  length fs = length (to_list c) /\ rest' = rest.
Proof.
  intros Hne Hvs E. rewrite (csv_print_row_readable k c rest Hne Hvs) in E.
  injection E as <- <-. now rewrite map_length.
Qed.

(* ================================================================== *)
(* C3. the header row                                                  *)
(* ================================================================== *)

Lemma start_output_csv_nil rowsep : start_output (PText csv_opts) [] rowsep = None.
Proof. reflexivity. Qed.

Lemma start_output_csv ts rowsep : ts <> [] ->
  start_output (PText csv_opts) ts rowsep
  = Some (join_fields [44; 32] (map (fun t => text_value csv_opts (JStr t)) ts) ++ rowsep).
Proof. intros H. destruct ts as [|t ts]; [contradiction|reflexivity]. Qed.

Theorem csv_header_readable ts rest : ts <> [] ->
  exists hdr, start_output (PText csv_opts) ts [10] = Some hdr /\
    csv_read_record (hdr ++ rest) = Some (map (fun t => FQuoted (utf8_encode t)) ts, rest).
Proof.
  intros Hne. eexists. split; [apply start_output_csv; assumption|].
  pose proof (csv_row_readable_flat (map (fun t => Some (JStr t)) ts) rest) as R.
  rewrite !map_map in R. cbn [text_field expected_field] in R.
  rewrite <- app_assoc. apply R.
  - destruct ts; [contradiction|discriminate].
  - apply Forall_forall. intros v Hv. apply in_map_iff in Hv. destruct Hv as (t & <- & _). exact I.
Qed.

(* ================================================================== *)
(* C4. examples (non-vacuity)                                          *)
(* ================================================================== *)

(* the values: absent; the string a, quote, b, comma, c, CR, LF, d; 12; -3; true; null; [1,"x"]; {"k":"é"}; 1.5 *)
Definition ex_row : list (option json) :=
  [ None;
    Some (JStr [97; 34; 98; 44; 99; 13; 10; 100]);
    Some (JNum (NPos 12));
    Some (JNum (NNeg (-3)));
    Some (JBool true);
    Some JNull;
    Some (JArr [JNum (NPos 1); JStr [120]]);
    Some (JObj [([107], JStr [233])]);
    Some (JNum (NFlt 4609434218613702656)) ].

Definition ex_text : list byte :=
  join_fields [44; 32] (map (text_field csv_opts) ex_row) ++ [10].

(* the text: | , "a""b,c CR LF d", 12, -3, True, null, "[1,""x""]", "{""k"":""é""}", 1.5 LF | *)
Example ex_text_bytes : ex_text =
  [44; 32;
   34; 97; 34; 34; 98; 44; 99; 13; 10; 100; 34; 44; 32;
   49; 50; 44; 32;
   45; 51; 44; 32;
   84; 114; 117; 101; 44; 32;
   110; 117; 108; 108; 44; 32;
   34; 91; 49; 44; 34; 34; 120; 34; 34; 93; 34; 44; 32;
   34; 123; 34; 34; 107; 34; 34; 58; 34; 34; 195; 169; 34; 34; 125; 34; 44; 32;
   49; 46; 53;
   10].
Proof. vm_compute. reflexivity. Qed.

Example ex_read_back : csv_read_record (ex_text ++ [120; 10]) =
  Some ([ FBare [];
          FQuoted [97; 34; 98; 44; 99; 13; 10; 100];
          FBare [49; 50];
          FBare [45; 51];
          FBare [84; 114; 117; 101];
          FBare [110; 117; 108; 108];
          FQuoted [91; 49; 44; 34; 120; 34; 93];                       (* [1,"x"] *)
          FQuoted [123; 34; 107; 34; 58; 34; 195; 169; 34; 125];       (* {"k":"é"} *)
          FBare [49; 46; 53] ],
        [120; 10]).
Proof. vm_compute. reflexivity. Qed.

Example ex_expected : map expected_field ex_row =
  [ FBare []; FQuoted [97; 34; 98; 44; 99; 13; 10; 100]; FBare [49; 50]; FBare [45; 51];
    FBare [84; 114; 117; 101]; FBare [110; 117; 108; 108];
    FQuoted [91; 49; 44; 34; 120; 34; 93]; FQuoted [123; 34; 107; 34; 58; 34; 195; 169; 34; 125];
    FBare [49; 46; 53] ].
Proof. vm_compute. reflexivity. Qed.

(* the hypotheses of the main theorem hold for the example *)
Example ex_scalar : Forall scalar_field ex_row.
Proof. unfold ex_row. repeat (constructor; cbn [scalar_field scalar_value fst snd scalars]). Qed.

(* the header of two selections *)
Example ex_header : exists hdr,
  start_output (PText csv_opts) [[97]; [98; 34]] [10] = Some hdr /\
  hdr = [34; 97; 34; 44; 32; 34; 98; 34; 34; 34; 10] /\
  csv_read_record hdr = Some ([FQuoted [97]; FQuoted [98; 34]], []).
Proof. eexists. split; [reflexivity|]. split; vm_compute; reflexivity. Qed.

(* the reader is strict: what the dialect excludes is rejected *)
Example ex_reject_quote_in_bare : csv_read_record [97; 34; 98; 10] = None.
Proof. reflexivity. Qed.
Example ex_reject_text_after_quote : csv_read_record [34; 97; 34; 98; 10] = None.
Proof. reflexivity. Qed.
Example ex_reject_open_quote : csv_read_record [34; 97; 10] = None.
Proof. reflexivity. Qed.
Example ex_blank_kept_at_record_start : csv_read_record [32; 97; 44; 32; 32; 98] =
  Some ([FBare [32; 97]; FBare [98]], []).
Proof. reflexivity. Qed.

Print Assumptions join_fields_cons.
Print Assumptions print_json_is_utf8.
Print Assumptions print_num_bare_ok.
Print Assumptions csv_row_readable_end.
Print Assumptions csv_row_readable.
Print Assumptions csv_row_readable_flat.
Print Assumptions csv_row_readable_crlf.
Print Assumptions csv_row_readable_eof.
Print Assumptions csv_print_row_readable.
Print Assumptions csv_print_row_count.
Print Assumptions csv_header_readable.
Print Assumptions ex_read_back.
