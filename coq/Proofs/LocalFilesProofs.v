(* locality (C11) and concatenation at the level of the whole program over any list of inputs *)
From Jawk Require Import Base F64 Json Reader JsonParser Ctx Printer Fn Expr Chain ExprParser Go PipelineSpec.
From Jawk Require Import OrderProofs SorterProofs ChainProofs GoProofs BuildProofs FilesProofs FilesTakeProofs C03.
From Coq Require Import Lia.

Lemma emit_concat cf p nt (l : list (list ctx)) :
  emit cf p nt (concat l) = concat (map (emit cf p nt) l).
Proof. unfold emit. apply concat_map. Qed.

Lemma emit_flat_map cf p nt (f : ctx -> list ctx) (cs : list ctx) :
  emit cf p nt (flat_map f cs) = concat (map (fun c => emit cf p nt (f c)) cs).
Proof.
  rewrite flat_map_concat_map, emit_concat, map_map. reflexivity.
Qed.

(* C11 at the level of the whole program: for a stateless pipeline the rows written over any list of inputs
   are the concatenation, context by context, of the rows each context gives alone *)
Theorem program_local_files : forall (cf : cfg) (ins : list (option str * list ev)) (b : bool) p sts hdr,
  c_on_error cf = OnIgnore ->
  Forall (fun i => Forall (fun e => e <> EErr) (snd i)) ins ->
  build_pipeline cf = Some (p, sts) ->
  start_output p (titles expr sts []) (c_rowsep cf) = Some hdr ->
  (forall t, c_take cf = Some t -> (c_skip cf + t <= 18446744073709551615)%N) ->
  forallb (stateless expr) sts = true ->
  g_events (go cf ins b) =
    (match hdr with [] => [] | _ => [OOut hdr] end) ++
    concat (map (fun c => emit cf p (length (titles expr sts [])) (spec expr get sts [c]))
                (fst (ctxs_of_inputs cf ins 0))).
Proof.
  intros cf ins b p sts hdr Hign Hclean Hbuild Hstart Htake Hsl.
  destruct (C03_program_files cf ins b p sts hdr Hign Hclean Hbuild Hstart Htake) as [_ Hev].
  rewrite Hev.
  rewrite (spec_stateless_local expr get sts Hsl (fst (ctxs_of_inputs cf ins 0))).
  rewrite emit_flat_map. reflexivity.
Qed.
Print Assumptions program_local_files.

(* splitting the list of inputs splits the rows, for a stateless pipeline *)
Theorem program_concat_files : forall (cf : cfg) (insA insB : list (option str * list ev)) (b : bool) p sts hdr,
  c_on_error cf = OnIgnore ->
  Forall (fun i => Forall (fun e => e <> EErr) (snd i)) (insA ++ insB) ->
  build_pipeline cf = Some (p, sts) ->
  start_output p (titles expr sts []) (c_rowsep cf) = Some hdr ->
  (forall t, c_take cf = Some t -> (c_skip cf + t <= 18446744073709551615)%N) ->
  forallb (stateless expr) sts = true ->
  g_events (go cf (insA ++ insB) b) =
    (match hdr with [] => [] | _ => [OOut hdr] end) ++
    emit cf p (length (titles expr sts [])) (spec expr get sts (fst (ctxs_of_inputs cf insA 0))) ++
    emit cf p (length (titles expr sts []))
      (spec expr get sts
         (fst (ctxs_of_inputs cf insB (N.of_nat (length (fst (ctxs_of_inputs cf insA 0))))))).
Proof.
  intros cf insA insB b p sts hdr Hign Hclean Hbuild Hstart Htake Hsl.
  destruct (C03_program_files cf (insA ++ insB) b p sts hdr Hign Hclean Hbuild Hstart Htake) as [_ Hev].
  rewrite Hev.
  rewrite ctxs_of_inputs_app, N.add_0_l.
  rewrite (spec_stateless_app expr get sts Hsl).
  rewrite emit_app. reflexivity.
Qed.
Print Assumptions program_concat_files.

(* the default configuration over any list of inputs without read errors: one compact row per value, in order *)
Theorem go_default_rows_files : forall (ins : list (option str * list ev)) (b : bool),
  Forall (fun i => Forall (fun e => e <> EErr) (snd i)) ins ->
  g_result (go default_cfg ins b) = GOk /\
  g_events (go default_cfg ins b) =
    emit default_cfg (PJson OneLine false) 0 (fst (ctxs_of_inputs default_cfg ins 0)).
Proof.
  intros ins b Hclean.
  assert (Htake : forall t, c_take default_cfg = Some t ->
                            (c_skip default_cfg + t <= 18446744073709551615)%N).
  { intros t Ht. discriminate Ht. }
  destruct (C03_program_files default_cfg ins b (PJson OneLine false) [] [] eq_refl Hclean
              default_pipeline eq_refl Htake) as [Hres Hev].
  split; [exact Hres|].
  rewrite Hev. reflexivity.
Qed.
Print Assumptions go_default_rows_files.
