(* BuildProofs.v — the pipelines Master::go builds have the shape the refinement theorem needs (wfp). *)
From Jawk Require Import Base F64 Json Reader Ctx Printer Fn Expr Chain ExprParser Go PipelineSpec ChainProofs.
From Coq Require Import Lia.
Local Open Scope N_scope.

Local Notation stage := (Chain.stage expr).
Local Notation wfp := (ChainProofs.wfp expr).
Local Notation nb := (ChainProofs.nb expr).

Definition pass (s : stage) : Prop :=
  match s with SPreSet _ _ | SSplit _ | SFilter _ | SSelect _ _ | SUniq => True | _ => False end.

Lemma wfp_pass pre T : Forall pass pre -> wfp T -> wfp (pre ++ T).
Proof.
  induction pre as [|s pre IH]; intros H HT; [exact HT|].
  inversion H as [|? ? Hs Hp]; subst. destruct s; try (destruct Hs); cbn [app ChainProofs.wfp]; apply IH; assumption.
Qed.

Lemma map_opt_forall {A B} (f : A -> option B) (P : B -> Prop) l r :
  (forall a b, f a = Some b -> P b) -> map_opt f l = Some r -> Forall P r.
Proof.
  intros Hf. revert r. induction l as [|a l IH]; intros r H; cbn [map_opt] in H.
  - inversion H. constructor.
  - destruct (f a) as [b|] eqn:Ea; [|discriminate]. destruct (map_opt f l) as [bs|]; [|discriminate].
    inversion H; subst. constructor; [eapply Hf; exact Ea|apply IH; reflexivity].
Qed.

Lemma opt_stage_pass {A} (o : option A) f r :
  (forall a s, f a = Some s -> pass s) -> opt_stage o f = Some r -> Forall pass r.
Proof.
  intros Hf H. unfold opt_stage in H. destruct o as [a|]; [|inversion H; constructor].
  destruct (f a) as [s|] eqn:Ea; [|discriminate]. inversion H; subst. constructor; [eapply Hf; exact Ea|constructor].
Qed.

(* tails: what follows the sorters *)
Definition tail_ok (skip : N) (take : option N) (T : list stage) : Prop :=
  wfp T /\ ChainProofs.good_tail expr T /\
  (forall t, take = Some t -> exists post, T = SLimit skip (Some t) :: post /\ nb post = true).

Lemma group_shapes c g : build_kind c KGroup = Some g -> g = [] \/ g = [SMerge] \/ exists e, g = [SGroup e].
Proof.
  cbn [build_kind]. destruct (c_group c) as [[s|]|]; intros H.
  - destruct (parse_whole s) as [e|]; cbn [option_map] in H; [|discriminate H]. inversion H. right; right; eauto.
  - inversion H. right; left; reflexivity.
  - inversion H. left; reflexivity.
Qed.

Lemma limit_group_tail c l g :
  build_kind c KLimit = Some l -> build_kind c KGroup = Some g -> tail_ok (c_skip c) (c_take c) (l ++ g).
Proof.
  intros Hl Hg. apply group_shapes in Hg.
  assert (Hnbg : nb g = true) by (destruct Hg as [->|[->|[e ->]]]; reflexivity).
  assert (Hwg : wfp g) by (destruct Hg as [->|[->|[e ->]]]; cbn; auto).
  cbn [build_kind] in Hl.
  destruct (c_skip c) as [|sk] eqn:Es; destruct (c_take c) as [t|] eqn:Et; inversion Hl; subst l; cbn [app].
  - repeat split; cbn [ChainProofs.wfp]; auto.
    + right. eauto.
    + intros t' E. inversion E; subst. eauto.
  - repeat split; auto. left. exact Hnbg. intros t' E; discriminate.
  - repeat split; cbn [ChainProofs.wfp]; auto.
    + right. eauto.
    + intros t' E. inversion E; subst. eauto.
  - repeat split; cbn [ChainProofs.wfp]; auto.
    + left. cbn [ChainProofs.nb]. exact Hnbg.
    + intros t' E; discriminate.
Qed.

(* sorters without capacity in front of a good tail *)
Lemma nocap_sorts_ok (l : list (expr * direction)) T :
  wfp T -> ChainProofs.good_tail expr T ->
  wfp (map (fun ed => SSort (fst ed) (snd ed) None) l ++ T) /\
  ChainProofs.good_tail expr (map (fun ed => SSort (fst ed) (snd ed) None) l ++ T).
Proof.
  intros HT HG. induction l as [|[e d] l [IHw IHg]]; [split; assumption|].
  cbn [map app fst snd]. split.
  - cbn [ChainProofs.wfp]. split; [exact IHg|split; [exact I|exact IHw]].
  - left. reflexivity.
Qed.

Lemma sat_add_le a b : a + b <= 18446744073709551615 -> a + b <= sat_add_u64 a b.
Proof. intros H. unfold sat_add_u64. lia. Qed.

Lemma sort_tail c so T :
  build_kind c KSort = Some so -> tail_ok (c_skip c) (c_take c) T ->
  (forall t, c_take c = Some t -> c_skip c + t <= 18446744073709551615) ->
  wfp (so ++ T).
Proof.
  intros Hs (HwT & HgT & Hcap) Hbound. cbn [build_kind] in Hs.
  destruct (map_opt parse_sorter (c_sort c)) as [l|]; [|discriminate]. inversion Hs; subst so; clear Hs.
  destruct l as [|[e d] l]; [exact HwT|].
  cbn [rev]. rewrite <- app_assoc. cbn [app].
  (* the capped sorter next to T, the others (reversed) in front *)
  assert (Hc : wfp (SSort e d (option_map (fun t => sat_add_u64 (c_skip c) t) (c_take c)) :: T) /\
               ChainProofs.good_tail expr (SSort e d (option_map (fun t => sat_add_u64 (c_skip c) t) (c_take c)) :: T)).
  { split; [|left; reflexivity]. cbn [ChainProofs.wfp]. split; [exact HgT|]. split; [|exact HwT].
    destruct (c_take c) as [t|] eqn:Et; cbn [option_map ChainProofs.cap_ok]; [|exact I].
    destruct (Hcap t eq_refl) as (post & -> & Hnb). exists (c_skip c), t, post. repeat split; [exact Hnb|].
    apply sat_add_le, Hbound. reflexivity. }
  destruct Hc as [Hcw Hcg].
  rewrite <- map_rev.
  apply (nocap_sorts_ok (rev l) _ Hcw Hcg).
Qed.

Theorem build_wfp : forall c p sts,
  build_pipeline c = Some (p, sts) ->
  (forall t, c_take c = Some t -> c_skip c + t <= 18446744073709551615) ->
  wfp sts.
Proof.
  intros c p sts H Hb. unfold build_pipeline in H.
  destruct (get_printer c) as [p'|]; [|discriminate].
  destruct (build_from c wrap_order []) as [s|] eqn:E; [|discriminate]. inversion H; subst; clear H.
  unfold wrap_order in E. cbn [build_from] in E.
  destruct (build_kind c KGroup) as [g|] eqn:Eg; [|discriminate].
  destruct (build_kind c KLimit) as [l|] eqn:El; [|discriminate].
  destruct (build_kind c KSort) as [so|] eqn:Eso; [|discriminate].
  destruct (build_kind c KUniq) as [u|] eqn:Eu; [|discriminate].
  destruct (build_kind c KSelect) as [se|] eqn:Ese; [|discriminate].
  destruct (build_kind c KFilter) as [f|] eqn:Ef; [|discriminate].
  destruct (build_kind c KSplit) as [sp|] eqn:Esp; [|discriminate].
  destruct (build_kind c KPreSet) as [ps|] eqn:Eps.
  2:{ discriminate E. }
  inversion E; subst; clear E. rewrite !app_nil_r.
  pose proof (limit_group_tail c l g El Eg) as HT.
  pose proof (sort_tail c so (l ++ g) Eso HT Hb) as Hso.
  (* the streaming prefix *)
  assert (Hu : Forall pass u).
  { cbn [build_kind] in Eu. destruct (c_unique c); inversion Eu; repeat constructor. }
  assert (Hse : Forall pass se).
  { cbn [build_kind] in Ese. eapply map_opt_forall; [|exact Ese]. intros a b Hab.
    cbn beta in Hab. destruct (parse_selection a) as [en|]; cbn [option_map] in Hab; [|discriminate Hab]. inversion Hab. exact I. }
  assert (Hf : Forall pass f).
  { cbn [build_kind] in Ef. eapply opt_stage_pass; [|exact Ef]. intros a s Ha.
    cbn beta in Ha. destruct (parse_whole a); cbn [option_map] in Ha; [|discriminate Ha]. inversion Ha. exact I. }
  assert (Hsp : Forall pass sp).
  { cbn [build_kind] in Esp. eapply opt_stage_pass; [|exact Esp]. intros a s Ha.
    cbn beta in Ha. destruct (parse_whole a); cbn [option_map] in Ha; [|discriminate Ha]. inversion Ha. exact I. }
  assert (Hps : Forall pass ps).
  { cbn [build_kind] in Eps. destruct (c_set c) as [|x xs]; [inversion Eps; constructor|].
    destruct (map_opt parse_preset (x :: xs)) as [pl|]; [|discriminate].
    destruct (collect_presets pl [] []) as [[vs ds]|]; [|discriminate]. inversion Eps. repeat constructor. }
  repeat (apply wfp_pass; [assumption|]). exact Hso.
Qed.
Print Assumptions build_wfp.
