(* EqProofs.v — the `=` function (jeqb, ckey_eqb) is an equivalence on canonical values and row keys, objects being
   compared as maps in any member order at any depth; the hash agrees with it; hence --unique (dedup_from) drops a
   row exactly when SOME earlier row has an equal key.  Then: what the parser returns.

   Everything is first proved for an arbitrary class `cn` of numbers on which num_eqb is Leibniz equality
   (Section Gen), and instantiated twice:
     - cn := canon_num  (GroupUniqProofs.canonical): the statements E1–E4;
     - cn := pcanon_num (pcanonical): what read_number produces, EXCEPT the two doubles 2^64 and -2^63.

   FINDING (edge_u64_*, below): on parser results in general the = function is NOT transitive and the hash does
   NOT agree with it: the texts 18446744073709551614, 18446744073709551616, 18446744073709551615 parse to
   NPos (2^64-2), NFlt 2^64, NPos (2^64-1); the first and the third are both equal to the second (u64 -> f64
   rounds them to 2^64) and not to each other, and --unique's answer then depends on the arrival order.  The
   same happens at -2^63 (NNeg z for z near -2^63, and NNeg (-2^63) itself, against NFlt (-2^63)).  So
   `parsed_ok v -> canonical v` and the unrestricted `unique_parsed_inputs` are FALSE; they hold as soon as
   neither of these two doubles occurs in the input (no_edge_doubles). *)
From Jawk Require Import Base F64 F64Proofs Json JsonParser Ctx Stream PipelineSpec GroupUniqProofs HashProofs ParsedPrintable.
Local Open Scope N_scope.

(* ================================================================================================ *)
(* lists                                                                                            *)
(* ================================================================================================ *)
Lemma obj_incl_intro y : forall x,
  (forall k u, In (k, u) x -> exists v, obj_get k y = Some v /\ jeqb u v = true) -> obj_incl y x = true.
Proof.
  induction x as [|[k u] x IH]; intros H; [reflexivity|].
  cbn [obj_incl]. destruct (H k u (or_introl eq_refl)) as [v [Hget Huv]].
  rewrite Hget, Huv. cbn [andb]. apply IH. intros k2 u2 Hin. apply H. right. exact Hin.
Qed.

Section ListEqb.
Context {A : Type}.
Variable eqb : A -> A -> bool.
Variable P : A -> Prop.
Lemma list_eqb_refl_all :
  (forall a, P a -> eqb a a = true) -> forall x, all P x -> list_eqb eqb x x = true.
Proof.
  intros Hr. induction x as [|a x IH]; intros Hx; [reflexivity|].
  cbn [all] in Hx. destruct Hx as [Ha Hx]. cbn [list_eqb]. rewrite (Hr a Ha), (IH Hx). reflexivity.
Qed.
Lemma list_eqb_sym_all :
  (forall a b, P a -> P b -> eqb a b = true -> eqb b a = true) ->
  forall x y, all P x -> all P y -> list_eqb eqb x y = true -> list_eqb eqb y x = true.
Proof.
  intros Hs. induction x as [|a x IH]; intros [|b y] Hx Hy H; cbn [list_eqb] in H; try discriminate H;
    [reflexivity|].
  cbn [all] in Hx, Hy. destruct Hx as [Ha Hx]. destruct Hy as [Hb Hy].
  apply Bool.andb_true_iff in H as [H1 H2].
  cbn [list_eqb]. rewrite (Hs a b Ha Hb H1), (IH y Hx Hy H2). reflexivity.
Qed.
Lemma list_eqb_trans_all :
  (forall a b c, P a -> P b -> P c -> eqb a b = true -> eqb b c = true -> eqb a c = true) ->
  forall x y z, all P x -> all P y -> all P z ->
  list_eqb eqb x y = true -> list_eqb eqb y z = true -> list_eqb eqb x z = true.
Proof.
  intros Ht. induction x as [|a x IH]; intros [|b y] [|c z] Hx Hy Hz H1 H2;
    cbn [list_eqb] in H1, H2; try discriminate H1; try discriminate H2; [reflexivity|].
  cbn [all] in Hx, Hy, Hz. destruct Hx as [Ha Hx]. destruct Hy as [Hb Hy]. destruct Hz as [Hc Hz].
  apply Bool.andb_true_iff in H1 as [H1 H1']. apply Bool.andb_true_iff in H2 as [H2 H2'].
  cbn [list_eqb]. rewrite (Ht a b c Ha Hb Hc H1 H2), (IH y z Hx Hy Hz H1' H2'). reflexivity.
Qed.
End ListEqb.

(* the key of a row *)
Lemma key_no_selection {E} (c : ctx E) : results c = [] -> key c = KValue (input c).
Proof. intros H. unfold key. rewrite H. reflexivity. Qed.

(* ================================================================================================ *)
(* GENERIC PART: any class of numbers on which num_eqb is Leibniz equality                          *)
(* ================================================================================================ *)
Section Gen.
Variable cn : num -> Prop.
Hypothesis cn_eq : forall a b, cn a -> cn b -> num_eqb a b = true -> a = b.
Hypothesis cn_refl : forall a, cn a -> num_eqb a a = true.

(* numbers in the class, keys of every object distinct *)
Fixpoint gcanonical (v : json) : Prop :=
  match v with
  | JNum n => cn n
  | JObj m => NoDup (map fst m) /\ all (fun kv => gcanonical (snd kv)) m
  | JArr l => all gcanonical l
  | _ => True
  end.

Theorem g_jeqb_refl : forall a, gcanonical a -> jeqb a a = true.
Proof using cn_refl.
  intros a. induction a as [| x | s | n | m IHm | l IHl] using gu_json_ind; intros Ca.
  - reflexivity.
  - cbn [jeqb]. apply Bool.eqb_reflx.
  - cbn [jeqb]. apply gu_str_eqb_refl.
  - cbn [jeqb]. apply cn_refl. exact Ca.
  - rewrite jeqb_obj, Nat.eqb_refl. cbn [andb]. cbn [gcanonical] in Ca. destruct Ca as [Hnd Cm].
    apply obj_incl_intro. intros k u Hin. exists u. split; [apply obj_get_nodup; assumption|].
    rewrite Forall_forall in IHm. apply (IHm (k, u) Hin). apply (all_In _ m (k, u) Cm Hin).
  - cbn [gcanonical] in Ca. induction l as [|u x IHx]; [reflexivity|].
    inversion IHl as [|a l0 IHu HFx]; subst a l0.
    cbn [all] in Ca. destruct Ca as [Cu Cx].
    rewrite jeqb_arr_cons, (IHu Cu). cbn [andb]. apply IHx; assumption.
Qed.

(* E1 *)
Theorem g_jeqb_sym : forall a b, gcanonical a -> gcanonical b -> jeqb a b = true -> jeqb b a = true.
Proof using cn_eq.
  intros a. induction a as [| x | s | n | m IHm | l IHl] using gu_json_ind;
    intros b Ca Cb Heq; destruct b as [| x' | s' | n' | m' | l']; try (cbn in Heq; discriminate Heq).
  - reflexivity.
  - cbn [jeqb] in *. apply Bool.eqb_prop in Heq. subst x'. apply Bool.eqb_reflx.
  - cbn [jeqb] in *. rewrite gu_str_eqb_sym. exact Heq.
  - cbn [jeqb] in *. cbn [gcanonical] in Ca, Cb. pose proof (cn_eq n n' Ca Cb Heq) as En. subst n'. exact Heq.
  - rewrite jeqb_obj in Heq. apply Bool.andb_true_iff in Heq as [Hlen Hincl].
    apply Nat.eqb_eq in Hlen.
    cbn [gcanonical] in Ca, Cb. destruct Ca as [Hnd Cm]. destruct Cb as [Hnd' Cm'].
    rewrite jeqb_obj. apply Bool.andb_true_iff. split; [apply Nat.eqb_eq; symmetry; exact Hlen|].
    assert (Hkeys : incl (map fst m') (map fst m)).
    { apply (NoDup_length_incl Hnd); [rewrite !map_length, Hlen; apply le_n|].
      intros k0 Hk0. apply in_map_iff in Hk0 as [[k1 u0] [Hk1 Hin0]]. cbn [fst] in Hk1. subst k1.
      destruct (obj_incl_spec m' m Hincl k0 u0 Hin0) as [v0 [Hget0 _]].
      apply obj_get_In in Hget0. apply (in_map fst) in Hget0. exact Hget0. }
    apply obj_incl_intro. intros k v Hin.
    assert (Hk : In k (map fst m)) by (apply Hkeys; apply (in_map fst) in Hin; exact Hin).
    apply in_map_iff in Hk as [[k1 u] [Hk1 Hinu]]. cbn [fst] in Hk1. subst k1.
    exists u. split; [apply obj_get_nodup; assumption|].
    destruct (obj_incl_spec m' m Hincl k u Hinu) as [v0 [Hget0 Huv]].
    rewrite (obj_get_nodup k v m' Hnd' Hin) in Hget0. injection Hget0 as <-.
    rewrite Forall_forall in IHm. apply (IHm (k, u) Hinu v).
    + apply (all_In _ m (k, u) Cm Hinu).
    + apply (all_In _ m' (k, v) Cm' Hin).
    + exact Huv.
  - cbn [gcanonical] in Ca, Cb.
    revert l' Ca Cb Heq. induction l as [|u x IHx]; intros [|v y] Cx Cy Heq;
      try (cbn in Heq; discriminate Heq); [reflexivity|].
    inversion IHl as [|a l0 IHu HFx]; subst a l0.
    cbn [all] in Cx, Cy. destruct Cx as [Cu Cx]. destruct Cy as [Cv Cy].
    rewrite jeqb_arr_cons in Heq. apply Bool.andb_true_iff in Heq as [H1 H2].
    rewrite jeqb_arr_cons, (IHu v Cu Cv H1), (IHx HFx y Cx Cy H2). reflexivity.
Qed.

(* E2 *)
Theorem g_jeqb_trans : forall a b c, gcanonical a -> gcanonical b -> gcanonical c ->
  jeqb a b = true -> jeqb b c = true -> jeqb a c = true.
Proof using cn_eq.
  intros a. induction a as [| x | s | n | m IHm | l IHl] using gu_json_ind;
    intros b c Ca Cb Cc H1 H2;
    destruct b as [| x' | s' | n' | m' | l']; try (cbn in H1; discriminate H1);
    destruct c as [| x'' | s'' | n'' | m'' | l'']; try (cbn in H2; discriminate H2).
  - reflexivity.
  - cbn [jeqb] in *. apply Bool.eqb_prop in H1. subst x'. exact H2.
  - cbn [jeqb] in *. apply gu_str_eqb_eq in H1. subst s'. exact H2.
  - cbn [jeqb] in *. cbn [gcanonical] in Ca, Cb, Cc. rewrite (cn_eq n n' Ca Cb H1). exact H2.
  - rewrite jeqb_obj in H1, H2.
    apply Bool.andb_true_iff in H1 as [Hlen1 Hincl1]. apply Bool.andb_true_iff in H2 as [Hlen2 Hincl2].
    apply Nat.eqb_eq in Hlen1. apply Nat.eqb_eq in Hlen2.
    cbn [gcanonical] in Ca, Cb, Cc. destruct Ca as [_ Cm]. destruct Cb as [_ Cm']. destruct Cc as [_ Cm''].
    rewrite jeqb_obj. apply Bool.andb_true_iff. split; [apply Nat.eqb_eq; rewrite Hlen1; exact Hlen2|].
    apply obj_incl_intro. intros k u Hin.
    destruct (obj_incl_spec m' m Hincl1 k u Hin) as [v [Hgetv Huv]].
    pose proof (obj_get_In k v m' Hgetv) as Hinv.
    destruct (obj_incl_spec m'' m' Hincl2 k v Hinv) as [w [Hgetw Hvw]].
    exists w. split; [exact Hgetw|].
    rewrite Forall_forall in IHm. apply (IHm (k, u) Hin v w).
    + apply (all_In _ m (k, u) Cm Hin).
    + apply (all_In _ m' (k, v) Cm' Hinv).
    + apply (all_In _ m'' (k, w) Cm''). apply obj_get_In. exact Hgetw.
    + exact Huv.
    + exact Hvw.
  - cbn [gcanonical] in Ca, Cb, Cc.
    revert l' l'' Ca Cb Cc H1 H2. induction l as [|u x IHx]; intros [|v y] [|w z] Cx Cy Cz H1 H2;
      try (cbn in H1; discriminate H1); try (cbn in H2; discriminate H2); [reflexivity|].
    inversion IHl as [|a l0 IHu HFx]; subst a l0.
    cbn [all] in Cx, Cy, Cz. destruct Cx as [Cu Cx]. destruct Cy as [Cv Cy]. destruct Cz as [Cw Cz].
    rewrite jeqb_arr_cons in H1, H2.
    apply Bool.andb_true_iff in H1 as [H1 H1']. apply Bool.andb_true_iff in H2 as [H2 H2'].
    rewrite jeqb_arr_cons, (IHu v w Cu Cv Cw H1 H2), (IHx HFx y z Cx Cy Cz H1' H2'). reflexivity.
Qed.

(* the hash agrees, whatever the order of members *)
Theorem g_hash_coherent : forall (mh : list hw -> N) a b,
  gcanonical a -> gcanonical b -> jeqb a b = true -> hash_feed mh a = hash_feed mh b.
Proof using cn_eq.
  intros mh a. induction a as [| x | s | n | m IHm | l IHl] using gu_json_ind;
    intros b Ca Cb Heq; destruct b as [| x' | s' | n' | m' | l']; try (cbn in Heq; discriminate Heq).
  - reflexivity.
  - cbn [jeqb] in Heq. apply Bool.eqb_prop in Heq. subst x'. reflexivity.
  - cbn [jeqb] in Heq. apply gu_str_eqb_eq in Heq. subst s'. reflexivity.
  - cbn [jeqb] in Heq. cbn [gcanonical] in Ca, Cb. rewrite (cn_eq n n' Ca Cb Heq). reflexivity.
  - rewrite jeqb_obj in Heq. apply Bool.andb_true_iff in Heq as [Hlen Hincl].
    apply Nat.eqb_eq in Hlen.
    cbn [gcanonical] in Ca, Cb. destruct Ca as [Hnd Cm]. destruct Cb as [_ Cm'].
    rewrite !hash_feed_obj.
    rewrite (wsum_members_eq mh m m' Hnd Hlen); [reflexivity|].
    intros k u Hin.
    destruct (obj_incl_spec m' m Hincl k u Hin) as [v [Hget Huv]].
    exists v. split; [exact Hget|].
    rewrite Forall_forall in IHm. apply (IHm (k, u) Hin v).
    + apply (all_In _ m (k, u) Cm Hin).
    + apply (all_In _ m' (k, v) Cm'). apply obj_get_In. exact Hget.
    + exact Huv.
  - cbn [gcanonical] in Ca, Cb. rewrite !hash_feed_arr.
    assert (core : length l = length l' /\ flat_map (hash_feed mh) l = flat_map (hash_feed mh) l').
    { revert l' Ca Cb Heq. induction l as [|u x IHx]; intros [|v y] Cx Cy Heq;
        try (cbn in Heq; discriminate Heq).
      - split; reflexivity.
      - inversion IHl as [|a l0 IHu HFx]; subst a l0.
        cbn [all] in Cx, Cy. destruct Cx as [Cu Cx]. destruct Cy as [Cv Cy].
        rewrite jeqb_arr_cons in Heq. apply Bool.andb_true_iff in Heq as [H1 H2].
        destruct (IHx HFx y Cx Cy H2) as [Hl Hf].
        cbn [length flat_map]. rewrite Hl, Hf, (IHu v Cu Cv H1). split; reflexivity. }
    destruct core as [Hl Hf]. rewrite Hl, Hf. reflexivity.
Qed.

(* ---------- row keys ---------- *)
Definition gopt_canonical (o : option json) : Prop :=
  match o with Some v => gcanonical v | None => True end.
Definition gckey_canonical (k : ckey) : Prop :=
  match k with KValue v => gcanonical v | KResults l => all gopt_canonical l end.

Lemma g_ojeqb_refl o : gopt_canonical o -> ojeqb o o = true.
Proof using cn_refl. destruct o as [v|]; cbn [gopt_canonical ojeqb]; [apply g_jeqb_refl|reflexivity]. Qed.
Lemma g_ojeqb_sym a b : gopt_canonical a -> gopt_canonical b -> ojeqb a b = true -> ojeqb b a = true.
Proof using cn_eq.
  destruct a as [x|], b as [y|]; cbn [gopt_canonical ojeqb]; intros Ca Cb H; try discriminate H;
    [apply g_jeqb_sym; assumption|reflexivity].
Qed.
Lemma g_ojeqb_trans a b c : gopt_canonical a -> gopt_canonical b -> gopt_canonical c ->
  ojeqb a b = true -> ojeqb b c = true -> ojeqb a c = true.
Proof using cn_eq.
  destruct a as [x|], b as [y|], c as [z|]; cbn [gopt_canonical ojeqb]; intros Ca Cb Cc H1 H2;
    try discriminate H1; try discriminate H2; [|reflexivity].
  apply (g_jeqb_trans x y z); assumption.
Qed.
Lemma g_opt_hash mh a b :
  gopt_canonical a -> gopt_canonical b -> ojeqb a b = true -> opt_feed mh a = opt_feed mh b.
Proof using cn_eq.
  destruct a as [x|], b as [y|]; cbn [gopt_canonical ojeqb opt_feed]; intros Ca Cb H;
    try discriminate H; [|reflexivity].
  rewrite (g_hash_coherent mh x y Ca Cb H). reflexivity.
Qed.

(* E3 *)
Theorem g_ckey_refl : forall k, gckey_canonical k -> ckey_eqb k k = true.
Proof using cn_refl.
  intros [v|l]; cbn [gckey_canonical ckey_eqb]; intros Hc; [apply g_jeqb_refl; exact Hc|].
  apply (list_eqb_refl_all ojeqb gopt_canonical g_ojeqb_refl). exact Hc.
Qed.
Theorem g_ckey_sym : forall a b, gckey_canonical a -> gckey_canonical b ->
  ckey_eqb a b = true -> ckey_eqb b a = true.
Proof using cn_eq.
  intros [x|l] [y|l']; cbn [gckey_canonical ckey_eqb]; intros Ca Cb H; try discriminate H.
  - apply g_jeqb_sym; assumption.
  - apply (list_eqb_sym_all ojeqb gopt_canonical g_ojeqb_sym l l'); assumption.
Qed.
Theorem g_ckey_trans : forall a b c, gckey_canonical a -> gckey_canonical b -> gckey_canonical c ->
  ckey_eqb a b = true -> ckey_eqb b c = true -> ckey_eqb a c = true.
Proof using cn_eq.
  intros [x|l] [y|l'] [z|l'']; cbn [gckey_canonical ckey_eqb]; intros Ca Cb Cc H1 H2;
    try discriminate H1; try discriminate H2.
  - apply (g_jeqb_trans x y z); assumption.
  - apply (list_eqb_trans_all ojeqb gopt_canonical g_ojeqb_trans l l' l''); assumption.
Qed.
Theorem g_ckey_hash : forall (mh : list hw -> N) a b,
  gckey_canonical a -> gckey_canonical b -> ckey_eqb a b = true -> ckey_feed mh a = ckey_feed mh b.
Proof using cn_eq.
  intros mh [x|l] [y|l']; cbn [gckey_canonical ckey_eqb ckey_feed]; intros Ca Cb H; try discriminate H.
  - rewrite (g_hash_coherent mh x y Ca Cb H). reflexivity.
  - assert (core : length l = length l' /\ flat_map (opt_feed mh) l = flat_map (opt_feed mh) l').
    { revert l' Ca Cb H. induction l as [|u t IH]; intros [|v t'] Ca Cb H;
        cbn [list_eqb] in H; try discriminate H.
      - split; reflexivity.
      - cbn [all] in Ca, Cb. destruct Ca as [Cu Ct]. destruct Cb as [Cv Ct'].
        apply Bool.andb_true_iff in H as [H1 H2].
        destruct (IH t' Ct Ct' H2) as [Hl Hf].
        cbn [length flat_map]. rewrite Hl, Hf, (g_opt_hash mh u v Cu Cv H1). split; reflexivity. }
    destruct core as [Hl Hf]. rewrite Hl, Hf. reflexivity.
Qed.

(* E4: --unique on rows whose keys are canonical.
   (1) a row is dropped exactly when SOME earlier row (kept or not) has an equal key;
   (2) every input row has an equal representative in the output;
   (3) no two rows of the output have equal keys, in either direction;
   (4) equal keys hash alike. *)
Theorem g_unique_rows : forall E (cs : list (ctx E)),
  (forall c, In c cs -> gckey_canonical (key c)) ->
  dedup_from E [] cs = dedup_all E [] cs /\
  (forall c, In c cs -> exists c', In c' (dedup_from E [] cs) /\ ckey_eqb (key c) (key c') = true) /\
  ForallOrdPairs (fun a b => ckey_eqb (key a) (key b) = false /\ ckey_eqb (key b) (key a) = false)
                 (dedup_from E [] cs) /\
  (forall mh c d, In c cs -> In d cs -> ckey_eqb (key c) (key d) = true ->
                  ckey_feed mh (key c) = ckey_feed mh (key d)).
Proof using cn_eq cn_refl.
  intros E cs Hc.
  assert (Hok : keys_ok E gckey_canonical cs) by (apply Forall_forall; exact Hc).
  split; [|split; [|split]].
  - exact (dedup_first_occurrences E gckey_canonical g_ckey_refl g_ckey_trans cs Hok).
  - intros c Hi.
    destruct (dedup_complete E gckey_canonical g_ckey_refl cs [] c Hok Hi) as [H|H]; [discriminate H|exact H].
  - exact (dedup_nodup E gckey_canonical g_ckey_sym cs [] Hok).
  - intros mh c d Hi Hj H. apply g_ckey_hash; [apply Hc; exact Hi|apply Hc; exact Hj|exact H].
Qed.
End Gen.

(* ================================================================================================ *)
(* INSTANCE 1: GroupUniqProofs.canonical (cn := canon_num)                                          *)
(* ================================================================================================ *)
(* the generic notions at canon_num ARE canonical / ckey_canonical (by computation) *)
Lemma gcanonical_canon v : gcanonical canon_num v = canonical v.
Proof. reflexivity. Qed.
Lemma gckey_canonical_canon k : gckey_canonical canon_num k = ckey_canonical k.
Proof. reflexivity. Qed.

(* E1, E2 *)
Theorem jeqb_sym_canonical : forall a b, canonical a -> canonical b -> jeqb a b = true -> jeqb b a = true.
Proof. exact (g_jeqb_sym canon_num num_eqb_canon). Qed.
Theorem jeqb_trans_canonical : forall a b c, canonical a -> canonical b -> canonical c ->
  jeqb a b = true -> jeqb b c = true -> jeqb a c = true.
Proof. exact (g_jeqb_trans canon_num num_eqb_canon). Qed.
Print Assumptions jeqb_sym_canonical.
Print Assumptions jeqb_trans_canonical.

(* E3 *)
Theorem ckey_eqb_refl_canonical : forall k, ckey_canonical k -> ckey_eqb k k = true.
Proof. exact (g_ckey_refl canon_num num_eqb_canon_refl). Qed.
Theorem ckey_eqb_sym_canonical : forall a b, ckey_canonical a -> ckey_canonical b ->
  ckey_eqb a b = true -> ckey_eqb b a = true.
Proof. exact (g_ckey_sym canon_num num_eqb_canon). Qed.
Theorem ckey_eqb_trans_canonical : forall a b c, ckey_canonical a -> ckey_canonical b -> ckey_canonical c ->
  ckey_eqb a b = true -> ckey_eqb b c = true -> ckey_eqb a c = true.
Proof. exact (g_ckey_trans canon_num num_eqb_canon). Qed.
Print Assumptions ckey_eqb_refl_canonical.
Print Assumptions ckey_eqb_sym_canonical.
Print Assumptions ckey_eqb_trans_canonical.

(* E4: rows with or without selections, canonical keys, NO hypothesis on the order of members *)
Theorem unique_canonical_rows : forall E (cs : list (ctx E)),
  (forall c, In c cs -> ckey_canonical (key c)) -> dedup_from E [] cs = dedup_all E [] cs.
Proof. intros E cs H. exact (proj1 (g_unique_rows canon_num num_eqb_canon num_eqb_canon_refl E cs H)). Qed.
Theorem unique_canonical_rows_complete : forall E (cs : list (ctx E)),
  (forall c, In c cs -> ckey_canonical (key c)) ->
  forall c, In c cs -> exists c', In c' (dedup_from E [] cs) /\ ckey_eqb (key c) (key c') = true.
Proof. intros E cs H. exact (proj1 (proj2 (g_unique_rows canon_num num_eqb_canon num_eqb_canon_refl E cs H))). Qed.
Theorem unique_canonical_rows_distinct : forall E (cs : list (ctx E)),
  (forall c, In c cs -> ckey_canonical (key c)) ->
  ForallOrdPairs (fun a b => ckey_eqb (key a) (key b) = false /\ ckey_eqb (key b) (key a) = false)
                 (dedup_from E [] cs).
Proof. intros E cs H. exact (proj1 (proj2 (proj2 (g_unique_rows canon_num num_eqb_canon num_eqb_canon_refl E cs H)))). Qed.
Print Assumptions unique_canonical_rows.
Print Assumptions unique_canonical_rows_complete.
Print Assumptions unique_canonical_rows_distinct.

(* ================================================================================================ *)
(* INSTANCE 2: the numbers read_number produces, except the doubles 2^64 and -2^63 (cn := pcanon_num) *)
(* ================================================================================================ *)

Definition b_two64 : N := 4895412794951729152.        (* the double 2^64  = 0x43F0000000000000 *)
Definition b_neg_two63 : N := 14114281232179134464.   (* the double -2^63 = 0xC3E0000000000000 *)

Definition pcanon_num (n : num) : Prop :=
  match n with
  | NPos n => n <= 18446744073709551615
  | NNeg z => (-9223372036854775808 <= z < 0)%Z
  | NFlt f => f_is_nan f = false /\ f_is_zero f = false /\
              (f_integral f = None \/ (b_two64 < f < 9223372036854775808) \/ b_neg_two63 < f)
  end.

Lemma round_mag_0 : round_mag 0 1 = 0%Z.
Proof. reflexivity. Qed.

Lemma f_of_N_le n : n <= 18446744073709551615 -> f_of_N n <= b_two64.
Proof.
  intros Hn. unfold f_of_N, with_sign, b_two64.
  destruct (N.eq_dec n 0) as [->|Hnz]; [vm_compute; discriminate|].
  pose proof (round_mag_monotone (Z.of_N n) 1 (2 ^ 64) 1) as Hm.
  rewrite ex_two64 in Hm.
  change (2 ^ 64)%Z with 18446744073709551616%Z in Hm.
  pose proof (round_mag_range (Z.of_N n) 1) as Hr.
  lia.
Qed.

Lemma round_two63 : round_mag 9223372036854775808 1 = 4890909195324358656%Z.
Proof. vm_compute. reflexivity. Qed.

Lemma f_of_Z_range z : (-9223372036854775808 <= z < 0)%Z ->
  9223372036854775808 <= f_of_Z z <= b_neg_two63.
Proof.
  intros Hz. unfold f_of_Z, with_sign, b_neg_two63.
  destruct (Z.ltb_spec z 0) as [_|Hge]; [|lia].
  pose proof (round_mag_monotone (Z.abs z) 1 9223372036854775808 1) as Hm.
  rewrite round_two63 in Hm.
  pose proof (round_mag_range (Z.abs z) 1) as Hr.
  unfold p63. lia.
Qed.

Lemma f_eqb_true_eq a b : f_is_zero b = false -> f_eqb a b = true -> a = b.
Proof.
  intros Hz H. unfold f_eqb in H. destruct (f_is_nan a || f_is_nan b); [discriminate H|].
  rewrite Hz, Bool.andb_false_r in H. apply N.eqb_eq in H. exact H.
Qed.

Lemma pcanon_eq a b : pcanon_num a -> pcanon_num b -> num_eqb a b = true -> a = b.
Proof.
  destruct a as [n|z|x], b as [n'|z'|y]; cbn [pcanon_num num_eqb]; intros Ha Hb H.
  - apply N.eqb_eq in H. subst n'. reflexivity.
  - apply Bool.andb_true_iff in H as [H _]. apply Z.eqb_eq in H. lia.
  - exfalso. apply Bool.andb_true_iff in H as [Hi He]. destruct Hb as [_ [Hz [Hn|Hbig]]].
    + unfold f_fract_zero_nonneg in Hi. rewrite Hn in Hi. discriminate Hi.
    + apply (f_eqb_true_eq _ _ Hz) in He. pose proof (f_of_N_le n Ha) as Hle. unfold b_two64, b_neg_two63 in *. lia.
  - apply Bool.andb_true_iff in H as [H _]. apply Z.eqb_eq in H. lia.
  - apply Z.eqb_eq in H. subst z'. reflexivity.
  - exfalso. apply Bool.andb_true_iff in H as [Hi He]. destruct Hb as [_ [Hz [Hn|Hbig]]].
    + unfold f_fract_zero_nonpos in Hi. rewrite Hn in Hi. discriminate Hi.
    + apply (f_eqb_true_eq _ _ Hz) in He. pose proof (f_of_Z_range z Ha) as Hle. unfold b_two64, b_neg_two63 in *. lia.
  - exfalso. apply Bool.andb_true_iff in H as [Hi He]. destruct Ha as [_ [Hz [Hn|Hbig]]].
    + unfold f_fract_zero_nonneg in Hi. rewrite Hn in Hi. discriminate Hi.
    + apply (f_eqb_true_eq _ _ Hz) in He. pose proof (f_of_N_le n' Hb) as Hle. unfold b_two64, b_neg_two63 in *. lia.
  - exfalso. apply Bool.andb_true_iff in H as [Hi He]. destruct Ha as [_ [Hz [Hn|Hbig]]].
    + unfold f_fract_zero_nonpos in Hi. rewrite Hn in Hi. discriminate Hi.
    + apply (f_eqb_true_eq _ _ Hz) in He. pose proof (f_of_Z_range z' Hb) as Hle. unfold b_two64, b_neg_two63 in *. lia.
  - destruct Hb as [_ [Hz _]]. apply (f_eqb_true_eq _ _ Hz) in H. subst y. reflexivity.
Qed.

Lemma pcanon_refl a : pcanon_num a -> num_eqb a a = true.
Proof.
  destruct a as [n|z|x]; cbn [pcanon_num num_eqb]; intros Ha.
  - apply N.eqb_refl.
  - apply Z.eqb_refl.
  - destruct Ha as [Hn [Hz _]]. unfold f_eqb. rewrite Hn, Hz. cbn [orb andb]. apply N.eqb_refl.
Qed.

(* ---------- an integral double against its bit pattern ---------- *)
Local Open Scope Z_scope.

Lemma pow2_gt0 k : 0 <= k -> 0 < 2 ^ k.
Proof. intros Hk. apply Z.pow_pos_nonneg; lia. Qed.

Lemma some_inj {A} (a b : A) : Some a = Some b -> a = b.
Proof. congruence. Qed.

(* the magnitude of an integral double against its bits *)
Lemma integral_mag f v : f_integral f = Some v ->
  exists a, 0 <= a /\ v = (if f_sign (Z.of_N f) then -1 else 1) * a /\
    forall k, 0 <= k -> 2 ^ (53 + k) <= a -> (1076 + k) * p52 <= f_mag (Z.of_N f).
Proof.
  unfold f_integral, f_decode. cbv zeta.
  generalize (f_sign (Z.of_N f)) as s. intros s.
  set (mg := f_mag (Z.of_N f)).
  assert (Hmg : 0 <= mg) by (unfold mg, f_mag; apply Z.mod_pos_bound; reflexivity).
  assert (Hp : 0 < p52) by reflexivity.
  pose proof (Z.div_mod mg p52 ltac:(lia)) as Hdm.
  pose proof (Z.mod_pos_bound mg p52 Hp) as Hfr.
  assert (Hex : 0 <= mg / p52) by (apply Z.div_pos; lia).
  set (ex := mg / p52) in *. set (fr := mg mod p52) in *.
  destruct (ex =? 2047) eqn:E1; [destruct (fr =? 0); discriminate|].
  destruct (Z.eqb_spec ex 0) as [E0|E0].
  - (* subnormal: the integral value is 0 *)
    destruct (0 <=? -1074) eqn:Eneg; [discriminate Eneg|].
    destruct (fr mod 2 ^ (- -1074) =? 0); [|discriminate].
    intros H. apply some_inj in H. subst v.
    assert (Hsmall : fr / 2 ^ (- -1074) = 0).
    { apply Z.div_small. split; [lia|]. eapply Z.lt_trans; [apply Hfr|]. reflexivity. }
    exists 0. rewrite Hsmall. split; [lia|]. split; [lia|].
    intros k Hk Hbig. pose proof (pow2_gt0 (53 + k) ltac:(lia)). lia.
  - set (m := fr + p52). set (e := ex - 1075).
    assert (Hm : 0 <= m < p53) by (unfold m, p53, p52 in *; lia).
    assert (Hcore : forall a, 0 <= a -> (0 <= e -> a = m * 2 ^ e) -> (e < 0 -> a <= m) ->
              forall k, 0 <= k -> 2 ^ (53 + k) <= a -> (1076 + k) * p52 <= mg).
    { intros a Ha Hpos Hneg k Hk Hbig.
      assert (Hge : 1076 + k <= ex).
      { destruct (Z_lt_le_dec ex (1076 + k)) as [Hlt|Hok]; [exfalso|exact Hok].
        rewrite Z.pow_add_r in Hbig by lia. change (2 ^ 53) with p53 in Hbig.
        pose proof (pow2_gt0 k Hk) as Hk2.
        destruct (Z_lt_le_dec e 0) as [He|He].
        - specialize (Hneg He). nia.
        - specialize (Hpos He). subst a.
          assert (H2 : 2 ^ e <= 2 ^ k) by (apply Z.pow_le_mono_r; unfold e; lia).
          pose proof (pow2_gt0 e He). nia. }
      nia. }
    destruct (Z.leb_spec 0 e) as [He|He].
    + intros H. apply some_inj in H. subst v. exists (m * 2 ^ e).
      pose proof (pow2_gt0 e He). split; [nia|]. split; [ring|].
      apply Hcore; [nia|reflexivity|lia].
    + destruct (m mod 2 ^ (- e) =? 0); [|discriminate].
      intros H. apply some_inj in H. subst v. exists (m / 2 ^ (- e)).
      pose proof (pow2_gt0 (- e) ltac:(lia)) as Hpe.
      assert (Hq : 0 <= m / 2 ^ (- e)) by (apply Z.div_pos; lia).
      split; [exact Hq|]. split; [reflexivity|].
      apply Hcore; [exact Hq|lia|].
      intros _. apply Z.div_le_upper_bound; [lia|]. nia.
Qed.
Local Close Scope Z_scope.

(* ---------- num_parsed numbers, the two edge doubles apart, are in the class ---------- *)
(* an integral double of value >= 2^64 has bits >= those of 2^64; of value <= -2^63, bits >= those of -2^63 *)
Lemma big_integral f v : f < 18446744073709551616 -> f_integral f = Some v ->
  ((p64 <= v)%Z -> b_two64 <= f < 9223372036854775808) /\ ((v <= - p63)%Z -> b_neg_two63 <= f).
Proof.
  intros Hf Hi. destruct (integral_mag f v Hi) as [a [Ha [Hv Hk]]].
  unfold f_sign, f_mag in *. unfold b_two64, b_neg_two63.
  assert (E11 : (2 ^ (53 + 11) = 18446744073709551616)%Z) by reflexivity.
  assert (E10 : (2 ^ (53 + 10) = 9223372036854775808)%Z) by reflexivity.
  destruct (Z.leb_spec p63 (Z.of_N f)) as [Hs|Hs]; unfold p63, p64, p52 in *.
  - assert (Hmod : (Z.of_N f mod 9223372036854775808 = Z.of_N f - 9223372036854775808)%Z).
    { symmetry. apply Z.mod_unique_pos with (q := 1%Z); lia. }
    rewrite Hmod in Hk. split; intros Hbig; [lia|].
    pose proof (Hk 10%Z ltac:(lia)) as H10. rewrite E10 in H10. lia.
  - rewrite Z.mod_small in Hk by lia. split; intros Hbig; [|lia].
    pose proof (Hk 11%Z ltac:(lia)) as H11. rewrite E11 in H11. lia.
Qed.

Lemma zero_not_flt f : f_is_zero f = true -> num_of_f f <> NFlt f.
Proof.
  unfold f_is_zero, num_of_f, f_integral, f_is_neg_strict.
  destruct (f_decode f) as [| |s m e]; try discriminate. destruct m; try discriminate. intros _.
  rewrite Z.mul_0_r, Z.mul_0_l, Zmod_0_l, Zdiv_0_l, Z.mul_0_r. cbn [Z.eqb].
  destruct (0 <=? e)%Z; destruct s; cbn; discriminate.
Qed.

Definition not_edge (n : num) : Prop := n <> NFlt b_two64 /\ n <> NFlt b_neg_two63.

Lemma num_parsed_pcanon n : num_parsed n -> not_edge n -> pcanon_num n.
Proof.
  destruct n as [n|z|f]; cbn [num_parsed pcanon_num]; unfold u64_max, i64_min.
  - intros H _. exact H.
  - intros H _. exact H.
  - intros (Hlt & (s & m & e & Hdec) & Hnf) [Hne1 Hne2].
    split; [unfold f_is_nan; rewrite Hdec; reflexivity|]. split.
    + destruct (f_is_zero f) eqn:Ez; [|reflexivity]. exfalso. exact (zero_not_flt f Ez Hnf).
    + destruct (f_integral f) as [v|] eqn:Ei; [right|left; reflexivity].
      destruct (big_integral f v Hlt Ei) as [Hpos Hneg].
      unfold num_of_f in Hnf. rewrite Ei in Hnf.
      destruct (f_is_neg_strict f).
      * destruct (Z.ltb_spec (- p63) v) as [_|Hge]; [discriminate Hnf|].
        right. specialize (Hneg Hge).
        assert (f <> b_neg_two63) by (intros ->; apply Hne2; reflexivity). lia.
      * destruct (Z.ltb_spec v p64) as [_|Hge]; [discriminate Hnf|].
        left. specialize (Hpos Hge).
        assert (f <> b_two64) by (intros ->; apply Hne1; reflexivity). lia.
Qed.

(* ---------- E5: what the parser returns ---------- *)
Definition pcanonical : json -> Prop := gcanonical pcanon_num.
Definition pckey_canonical : ckey -> Prop := gckey_canonical pcanon_num.
(* neither of the two doubles occurs anywhere in the value *)
Definition no_edge_doubles : json -> Prop := jall any_str not_edge any_keys.

Theorem parsed_pcanonical : forall v, parsed_ok v -> no_edge_doubles v -> pcanonical v.
Proof.
  unfold pcanonical.
  intros v. induction v as [| x | s | n | m IHm | l IHl] using gu_json_ind; intros H1 H2; try exact I.
  - apply num_parsed_pcanon; [exact H1|exact H2].
  - apply parsed_ok_obj in H1 as [Hnd HF1]. unfold no_edge_doubles in H2. apply jall_obj in H2 as [_ HF2].
    cbn [gcanonical]. split; [exact Hnd|]. apply all_Forall.
    rewrite Forall_forall in *. intros kv Hin.
    apply (IHm kv Hin); [apply (HF1 kv Hin)|apply (HF2 kv Hin)].
  - apply parsed_ok_arr in H1. unfold no_edge_doubles in H2. apply jall_arr in H2.
    cbn [gcanonical]. apply all_Forall.
    rewrite Forall_forall in *. intros x Hin.
    apply (IHl x Hin); [apply (H1 x Hin)|apply (H2 x Hin)].
Qed.
Print Assumptions parsed_pcanonical.

Theorem values_pcanonical : forall bs vs n, values_of_bytes bs = (vs, n) ->
  forall v, In v vs -> no_edge_doubles v -> pcanonical v.
Proof.
  intros bs vs n H v Hin Hne. apply values_parsed_ok in H. rewrite Forall_forall in H.
  apply parsed_pcanonical; [apply H; exact Hin|exact Hne].
Qed.
Print Assumptions values_pcanonical.

(* the same towards GroupUniqProofs.canonical, under the coarser condition that no double in the value is
   integral (every integer-valued number of the text lies strictly between -2^63 and 2^64) *)
Definition flt_fractional (n : num) : Prop := match n with NFlt f => f_integral f = None | _ => True end.
Definition floats_fractional : json -> Prop := jall any_str flt_fractional any_keys.

Lemma num_parsed_canon n : num_parsed n -> flt_fractional n -> canon_num n.
Proof.
  destruct n as [n|z|f]; cbn [num_parsed canon_num flt_fractional]; unfold i64_min.
  - intros _ _. exact I.
  - intros H _. lia.
  - intros (Hlt & (s & m & e & Hdec) & Hnf) Hi.
    split; [unfold f_is_nan; rewrite Hdec; reflexivity|]. split; [|exact Hi].
    destruct (f_is_zero f) eqn:Ez; [|reflexivity]. exfalso. exact (zero_not_flt f Ez Hnf).
Qed.

Theorem parsed_canonical_fractional : forall v, parsed_ok v -> floats_fractional v -> canonical v.
Proof.
  intros v. induction v as [| x | s | n | m IHm | l IHl] using gu_json_ind; intros H1 H2; try exact I.
  - apply num_parsed_canon; [exact H1|exact H2].
  - apply parsed_ok_obj in H1 as [Hnd HF1]. unfold floats_fractional in H2. apply jall_obj in H2 as [_ HF2].
    cbn [canonical]. split; [exact Hnd|]. apply all_Forall.
    rewrite Forall_forall in *. intros kv Hin.
    apply (IHm kv Hin); [apply (HF1 kv Hin)|apply (HF2 kv Hin)].
  - apply parsed_ok_arr in H1. unfold floats_fractional in H2. apply jall_arr in H2.
    cbn [canonical]. apply all_Forall.
    rewrite Forall_forall in *. intros x Hin.
    apply (IHl x Hin); [apply (H1 x Hin)|apply (H2 x Hin)].
Qed.
Print Assumptions parsed_canonical_fractional.

Theorem values_canonical_fractional : forall bs vs n, values_of_bytes bs = (vs, n) ->
  forall v, In v vs -> floats_fractional v -> canonical v.
Proof.
  intros bs vs n H v Hin Hne. apply values_parsed_ok in H. rewrite Forall_forall in H.
  apply parsed_canonical_fractional; [apply H; exact Hin|exact Hne].
Qed.
Print Assumptions values_canonical_fractional.

(* ---------- the = function on what the parser returns (edge doubles apart) ---------- *)
Theorem jeqb_refl_pcanonical : forall a, pcanonical a -> jeqb a a = true.
Proof. exact (g_jeqb_refl pcanon_num pcanon_refl). Qed.
Theorem jeqb_sym_pcanonical : forall a b, pcanonical a -> pcanonical b -> jeqb a b = true -> jeqb b a = true.
Proof. exact (g_jeqb_sym pcanon_num pcanon_eq). Qed.
Theorem jeqb_trans_pcanonical : forall a b c, pcanonical a -> pcanonical b -> pcanonical c ->
  jeqb a b = true -> jeqb b c = true -> jeqb a c = true.
Proof. exact (g_jeqb_trans pcanon_num pcanon_eq). Qed.
Theorem hash_coherent_pcanonical : forall (mh : list hw -> N) a b,
  pcanonical a -> pcanonical b -> jeqb a b = true -> hash_feed mh a = hash_feed mh b.
Proof. exact (g_hash_coherent pcanon_num pcanon_eq). Qed.
Print Assumptions jeqb_refl_pcanonical.
Print Assumptions jeqb_sym_pcanonical.
Print Assumptions jeqb_trans_pcanonical.
Print Assumptions hash_coherent_pcanonical.

(* ---------- E6: --unique on the values of any input byte stream, no selections ---------- *)
(* for every input byte stream: rows that carry no selections and whose inputs are values of the stream in which
   neither edge double occurs.
   (1) --unique drops a row exactly when SOME earlier row has an equal (= function) input;
   (2) every row has an equal representative in the output;
   (3) no two rows of the output are equal, in either direction;
   (4) equal rows hash alike, whatever the inner hasher. *)
Theorem unique_parsed_inputs : forall E bs vs n (cs : list (ctx E)),
  values_of_bytes bs = (vs, n) ->
  (forall c, In c cs -> results c = [] /\ In (input c) vs /\ no_edge_doubles (input c)) ->
  dedup_from E [] cs = dedup_all E [] cs /\
  (forall c, In c cs -> exists c', In c' (dedup_from E [] cs) /\ ckey_eqb (key c) (key c') = true) /\
  ForallOrdPairs (fun a b => ckey_eqb (key a) (key b) = false /\ ckey_eqb (key b) (key a) = false)
                 (dedup_from E [] cs) /\
  (forall mh c d, In c cs -> In d cs -> ckey_eqb (key c) (key d) = true ->
                  ckey_feed mh (key c) = ckey_feed mh (key d)).
Proof.
  intros E bs vs n cs Hv Hc.
  apply (g_unique_rows pcanon_num pcanon_eq pcanon_refl E cs).
  intros c Hi. destruct (Hc c Hi) as [Hr [Hin Hne]].
  rewrite (key_no_selection c Hr). cbn [gckey_canonical].
  exact (values_pcanonical bs vs n Hv (input c) Hin Hne).
Qed.
Print Assumptions unique_parsed_inputs.

(* and the key comparison on such rows is the = function on their inputs *)
Lemma row_key_eq_input {E} (c d : ctx E) : results c = [] -> results d = [] ->
  ckey_eqb (key c) (key d) = jeqb (input c) (input d).
Proof. intros Hc Hd. rewrite (key_no_selection c Hc), (key_no_selection d Hd). reflexivity. Qed.

(* ================================================================================================ *)
(* THE EDGE: why the two doubles have to be excluded                                                *)
(* ================================================================================================ *)
(* "18446744073709551614 18446744073709551616 18446744073709551615" *)
Definition edge_bytes : list byte :=
  [49;56;52;52;54;55;52;52;48;55;51;55;48;57;53;53;49;54;49;52; 32;
   49;56;52;52;54;55;52;52;48;55;51;55;48;57;53;53;49;54;49;54; 32;
   49;56;52;52;54;55;52;52;48;55;51;55;48;57;53;53;49;54;49;53].
Definition edge_a : json := JNum (NPos 18446744073709551614).
Definition edge_b : json := JNum (NFlt b_two64).
Definition edge_c : json := JNum (NPos 18446744073709551615).

Example edge_u64_parse : values_of_bytes edge_bytes = ([edge_a; edge_b; edge_c], 0).
Proof. vm_compute. reflexivity. Qed.

(* the = function is not transitive on parser results *)
Example edge_u64_not_transitive :
  jeqb edge_a edge_b = true /\ jeqb edge_b edge_a = true /\
  jeqb edge_b edge_c = true /\ jeqb edge_c edge_b = true /\
  jeqb edge_a edge_c = false.
Proof. vm_compute. repeat split; reflexivity. Qed.

(* equal values with different hash feeds, whatever the inner hasher *)
Example edge_u64_hash : jeqb edge_a edge_b = true /\ forall mh, hash_feed mh edge_a <> hash_feed mh edge_b.
Proof. split; [vm_compute; reflexivity|]. intros mh H. cbn [hash_feed edge_a edge_b] in H. discriminate H. Qed.

(* --unique: in the order a, b, c the third row is kept although the second row equals it;
   in the order b, a, c only one row survives: the answer depends on the arrival order *)
Example edge_u64_unique :
  let rows := map (@new_with_no_context unit) [edge_a; edge_b; edge_c] in
  let rows' := map (@new_with_no_context unit) [edge_b; edge_a; edge_c] in
  map input (dedup_from unit [] rows) = [edge_a; edge_c] /\
  map input (dedup_all unit [] rows) = [edge_a] /\
  map input (dedup_from unit [] rows') = [edge_b].
Proof. vm_compute. repeat split; reflexivity. Qed.

(* the same at the other end: "-9223372036854775808 -9223372036854775808.0 -9223372036854775807" *)
Example edge_i64 :
  values_of_bytes
    [45;57;50;50;51;51;55;50;48;51;54;56;53;52;55;55;53;56;48;56; 32;
     45;57;50;50;51;51;55;50;48;51;54;56;53;52;55;55;53;56;48;56;46;48; 32;
     45;57;50;50;51;51;55;50;48;51;54;56;53;52;55;55;53;56;48;55]
  = ([JNum (NNeg (-9223372036854775808)); JNum (NFlt b_neg_two63); JNum (NNeg (-9223372036854775807))], 0) /\
  jeqb (JNum (NNeg (-9223372036854775808))) (JNum (NFlt b_neg_two63)) = true /\
  jeqb (JNum (NFlt b_neg_two63)) (JNum (NNeg (-9223372036854775807))) = true /\
  jeqb (JNum (NNeg (-9223372036854775808))) (JNum (NNeg (-9223372036854775807))) = false /\
  forall mh, hash_feed mh (JNum (NNeg (-9223372036854775808))) <> hash_feed mh (JNum (NFlt b_neg_two63)).
Proof.
  split; [vm_compute; reflexivity|]. split; [vm_compute; reflexivity|]. split; [vm_compute; reflexivity|].
  split; [vm_compute; reflexivity|]. intros mh H. cbn [hash_feed] in H. discriminate H.
Qed.

(* hence the statements without the side condition are false *)
Theorem parsed_canonical_false : ~ (forall v, parsed_ok v -> canonical v).
Proof.
  intros H. pose proof (values_parsed_ok _ _ _ edge_u64_parse) as Hp.
  rewrite Forall_forall in Hp. specialize (H edge_b (Hp edge_b (or_intror (or_introl eq_refl)))).
  cbn [canonical edge_b canon_num] in H. destruct H as [_ [_ H]]. vm_compute in H. discriminate H.
Qed.

Theorem jeqb_trans_parsed_false :
  ~ (forall a b c, parsed_ok a -> parsed_ok b -> parsed_ok c ->
                   jeqb a b = true -> jeqb b c = true -> jeqb a c = true).
Proof.
  intros H. pose proof (values_parsed_ok _ _ _ edge_u64_parse) as Hp. rewrite Forall_forall in Hp.
  destruct edge_u64_not_transitive as [H1 [_ [H2 [_ H3]]]].
  rewrite (H edge_a edge_b edge_c) in H3; [discriminate H3| | | |exact H1|exact H2]; apply Hp; cbn [In]; auto.
Qed.

Theorem hash_coherent_parsed_false :
  ~ (forall (mh : list hw -> N) a b, parsed_ok a -> parsed_ok b ->
                   jeqb a b = true -> hash_feed mh a = hash_feed mh b).
Proof.
  intros H. pose proof (values_parsed_ok _ _ _ edge_u64_parse) as Hp. rewrite Forall_forall in Hp.
  destruct edge_u64_hash as [H1 H2]. apply (H2 (fun _ => 0)).
  apply H; [| |exact H1]; apply Hp; cbn [In]; auto.
Qed.

Theorem unique_parsed_inputs_unrestricted_false :
  ~ (forall E bs vs n (cs : list (ctx E)), values_of_bytes bs = (vs, n) ->
       (forall c, In c cs -> results c = [] /\ In (input c) vs) ->
       dedup_from E [] cs = dedup_all E [] cs).
Proof.
  intros H.
  specialize (H unit edge_bytes _ _ (map (@new_with_no_context unit) [edge_a; edge_b; edge_c]) edge_u64_parse).
  assert (Hrows : forall c, In c (map (@new_with_no_context unit) [edge_a; edge_b; edge_c]) ->
                            results c = [] /\ In (input c) [edge_a; edge_b; edge_c]).
  { intros c Hin. cbn [map In] in Hin. destruct Hin as [<-|[<-|[<-|[]]]]; (split; [reflexivity|cbn; auto]). }
  specialize (H Hrows). apply (f_equal (map input)) in H.
  destruct edge_u64_unique as [H1 [H2 _]]. rewrite H1, H2 in H. discriminate H.
Qed.
Print Assumptions parsed_canonical_false.
Print Assumptions jeqb_trans_parsed_false.
Print Assumptions hash_coherent_parsed_false.
Print Assumptions unique_parsed_inputs_unrestricted_false.
