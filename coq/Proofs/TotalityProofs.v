(* TotalityProofs.v — no input can make the JSON reader loop forever or run out of fuel.
   The model is total by construction (fuel); what is proved here is that the fuel constants of the
   model are sufficient for ARBITRARY bytes (well formed or not), that every parse that is not
   "end of input" consumes at least one byte (so the read loop of Master::read_input terminates),
   that end of input is reported exactly on all-whitespace input, and that giving `read_all` more
   fuel than `length bs + 3` changes nothing.
   The development is generic in the reader invariant, and is instantiated twice: with `rd_ok`
   (byte-only input, the invariant of ReaderLemmas/ParserProofs) and with `rd_inv` (input event
   lists that may contain read errors, i.e. every reader reachable from `mk_reader evs`).
   No axioms. *)
From Coq Require Import List NArith ZArith Bool Lia.
From Jawk Require Import Base F64 Json Reader JsonParser Stream.
From Jawk Require Import Render ReaderLemmas ParserProofs.
Import ListNotations.
Local Open Scope N_scope.

#[local] Arguments N.add : simpl never.
#[local] Arguments N.mul : simpl never.
#[local] Arguments N.sub : simpl never.
#[local] Arguments N.div : simpl never.
#[local] Arguments N.modulo : simpl never.
#[local] Arguments N.eqb : simpl never.
#[local] Arguments N.ltb : simpl never.
#[local] Arguments N.leb : simpl never.

(* ================= the measure: number of unread bytes ================= *)
Definition vl (r : reader) : nat := length (view r).
(* "primed": the lookahead byte is loaded whenever there is one (true after every peek / next) *)
Definition pr (r : reader) : Prop := cur r = hd_error (view r).

Lemma hd_some_len {A} (l : list A) c : hd_error l = Some c -> (1 <= length l)%nat.
Proof. destruct l; cbn; [discriminate|lia]. Qed.

(* what the proofs need of a reader invariant: `peek` loads the lookahead and changes nothing else,
   `next` on a primed reader drops exactly one byte of the view (nothing at end of input), and the
   view is at most one byte longer than the pending event list (the fuel of the inner loops) *)
Definition reader_inv (ok : reader -> Prop) : Prop :=
  (forall r, ok r ->
     exists r', peek r = (hd_error (view r), r') /\ view r' = view r /\ ok r' /\ pr r') /\
  (forall r, ok r -> pr r ->
     exists r', next r = (hd_error (tl (view r)), r') /\ view r' = tl (view r) /\ ok r' /\ pr r') /\
  (forall r, ok r -> (length (view r) <= S (length (rest r)))%nat).

(* ---------- instance 1: byte-only input ---------- *)
Lemma view_nil_rest r : rd_ok r -> view r = [] -> cur r = None /\ rest r = [].
Proof.
  intros [_ H] Hv. unfold view in Hv. destruct (cur r); [discriminate|].
  split; [reflexivity|]. rewrite H, Hv. reflexivity.
Qed.

Lemma rd_ok_reader_inv : reader_inv rd_ok.
Proof.
  split; [|split].
  - intros r Hok. destruct (peek_spec r Hok) as (r' & Ep & Hv & Hok' & Hc). exists r'. splits; auto.
    unfold pr. rewrite Hv. exact Hc.
  - intros r Hok Hp. unfold pr in Hp. destruct (view r) as [|b l] eqn:Ev.
    + destruct (view_nil_rest r Hok Ev) as [Hc Hr]. cbn [tl hd_error].
      destruct r as [c e rs ln cl pl i]. cbn [cur rest] in Hc, Hr. subst c rs.
      unfold next. cbn [eof rest]. destruct e.
      * eexists. split; [reflexivity|]. rewrite Ev. splits; auto.
      * eexists. split; [reflexivity|]. unfold view, rd_ok, pr. cbn. splits; auto.
    + cbn [hd_error] in Hp. destruct (next_drop r b l Hok Hp Ev) as (r' & En & Hv' & Hok' & Hc').
      exists r'. cbn [tl]. splits; auto. unfold pr. rewrite Hv'. exact Hc'.
  - intros r Hok. exact (proj2 (view_len r Hok)).
Qed.

(* ---------- instance 2: input with read errors ---------- *)
(* at end of input (or after a read error) nothing is left; pending events are arbitrary *)
Definition rd_inv (r : reader) : Prop := eof r = true -> cur r = None /\ rest r = [].

Lemma rd_ok_inv r : rd_ok r -> rd_inv r.
Proof. intros [H _]. exact H. Qed.

Lemma rd_inv_mk evs : rd_inv (mk_reader evs).
Proof. unfold rd_inv, mk_reader. cbn. discriminate. Qed.

Lemma ev_bytes_len evs : (length (ev_bytes evs) <= length evs)%nat.
Proof. induction evs as [|[b|] evs IH]; cbn [ev_bytes length]; lia. Qed.

Lemma view_mk evs : view (mk_reader evs) = ev_bytes evs.
Proof. reflexivity. Qed.

Lemma rd_inv_reader_inv : reader_inv rd_inv.
Proof.
  split; [|split].
  - intros r. destruct r as [c e rs ln cl pl i]; unfold rd_inv, pr, view, peek, next; cbn.
    intros Hok. destruct c as [c|].
    + eexists; splits; cbn; eauto.
    + destruct e.
      * destruct (Hok eq_refl) as [_ ->]. eexists; splits; cbn; eauto.
      * destruct rs as [|[b|] rs]; cbn; eexists; splits; cbn; eauto; discriminate.
  - intros r. destruct r as [c e rs ln cl pl i]; unfold rd_inv, pr, view, next; cbn.
    intros Hok Hp. destruct e.
    + destruct (Hok eq_refl) as [-> ->]. cbn. eexists; splits; cbn; eauto.
    + destruct rs as [|[b|] rs]; cbn in *.
      * destruct c; eexists; splits; cbn; eauto.
      * destruct c; [|discriminate]. eexists; splits; cbn; eauto. discriminate.
      * destruct c; eexists; splits; cbn; eauto.
  - intros r _. unfold view. pose proof (ev_bytes_len (rest r)). destruct (cur r); cbn [length]; lia.
Qed.

Lemma ws_split (l : list byte) : exists w tl, l = w ++ tl /\ ws_ok w /\ nws tl.
Proof.
  induction l as [|b l (w & tl & E & Hw & Htl)].
  - exists [], []. repeat split; constructor.
  - destruct (is_ws b) eqn:Eb.
    + exists (b :: w), tl. subst l. repeat split; auto. constructor; auto.
    + exists [], (b :: l). repeat split; [constructor|exact Eb].
Qed.

(* ---------- unfolding equations ---------- *)
Lemma eat_ws_S f r : eat_ws (S f) r =
    match peek r with
    | (Some b, r') => if is_ws b then eat_ws f (snd (next r')) else r'
    | (None, r') => r'
    end.
Proof. reflexivity. Qed.

Lemma read_digits_f_S f acc r : read_digits_f (S f) acc r =
    match peek r with
    | (Some b, r') => if is_digit b then read_digits_f f (acc ++ [b]) (snd (next r')) else (acc, r')
    | (None, r') => (acc, r')
    end.
Proof. reflexivity. Qed.

Lemma read_string_f_S f acc r : read_string_f (S f) acc r =
    match next r with
    | (None, r') => (PErr, r')
    | (Some c, r') =>
      if c =? 34 then
        let r'' := snd (next r') in
        match utf8_decode acc with Some s => (POk (JStr s), r'') | None => (PErr, r'') end
      else if c =? 92 then
        match next r' with
        | (None, r'') => (PErr, r'')
        | (Some e, r'') =>
            if e =? 117 then
              match read_hex4 4 0 r'' with
              | (Some u, r3) =>
                  if is_scalar u then read_string_f f (acc ++ utf8_encode_char u) r3 else (PErr, r3)
              | (None, r3) => (PErr, r3)
              end
            else match assoc_N e escape_table with
                 | Some b => read_string_f f (acc ++ [b]) r''
                 | None => (PErr, r'')
                 end
        end
      else read_string_f f (acc ++ [c]) r'
    end.
Proof. reflexivity. Qed.

Lemma read_all_S f r : read_all (S f) r =
    match next_json_value r with
    | (POk v, r') => let '(vs, e) := read_all f r' in (v :: vs, e)
    | (PErr, r') => let '(vs, e) := read_all f r' in (vs, e + 1)
    | (PEof, _) => ([], 0)
    | (PFuel, _) => ([], 0)
    end.
Proof. reflexivity. Qed.

(* ---------- results that do not depend on the reader ---------- *)
Lemma parse_to_double_nf txt : parse_to_double txt <> PFuel /\ parse_to_double txt <> PEof.
Proof.
  unfold parse_to_double. destruct (dec2flt txt) as [x|]; [|split; discriminate].
  destruct (f_is_finite x); split; discriminate.
Qed.

Lemma classify_nf neg dbl txt :
  classify_number neg dbl txt <> PFuel /\ classify_number neg dbl txt <> PEof.
Proof.
  pose proof (parse_to_double_nf txt) as P. unfold classify_number.
  destruct dbl; [exact P|]. destruct neg.
  - destruct txt as [|m ds]; [split; discriminate|]. destruct ds as [|d ds]; [split; discriminate|].
    cbv zeta. destruct (- Z.of_N (N_of_digits (d :: ds)) =? 0)%Z; [split; discriminate|].
    destruct (i64_min <=? - Z.of_N (N_of_digits (d :: ds)))%Z; [split; discriminate|exact P].
  - destruct txt as [|d ds]; [split; discriminate|].
    cbv zeta. destruct (N_of_digits (d :: ds) <=? u64_max); [split; discriminate|exact P].
Qed.

(* =====================================================================================
   the generic development
   ===================================================================================== *)
Section Total.
Context (ok : reader -> Prop) (Hinv : reader_inv ok).

Lemma inv_len r : ok r -> (vl r <= S (length (rest r)))%nat.
Proof. exact (proj2 (proj2 Hinv) r). Qed.

Lemma peek_pr r : ok r ->
  exists r', peek r = (hd_error (view r), r') /\ view r' = view r /\ ok r' /\ pr r' /\ vl r' = vl r.
Proof.
  intros Hok. destruct (proj1 Hinv r Hok) as (r' & Ep & Hv & Hok' & Hp). exists r'. splits; auto.
  unfold vl. rewrite Hv. reflexivity.
Qed.

Lemma next_pr r : ok r -> pr r ->
  exists r', next r = (hd_error (tl (view r)), r') /\ view r' = tl (view r) /\ ok r' /\ pr r' /\
             vl r' = (vl r - 1)%nat.
Proof.
  intros Hok Hp. destruct (proj1 (proj2 Hinv) r Hok Hp) as (r' & En & Hv & Hok' & Hp').
  exists r'. splits; auto. unfold vl. rewrite Hv. destruct (view r); cbn [tl length]; lia.
Qed.

(* ================= whitespace ================= *)
Lemma eat_ws_gen (w : list byte) : forall fuel r tl, ok r -> ws_ok w -> nws tl ->
  view r = w ++ tl -> (length w < fuel)%nat ->
  view (eat_ws fuel r) = tl /\ ok (eat_ws fuel r).
Proof.
  induction w as [|b w IH]; intros fuel r tl Hok Hws Htl Hv Hf;
    (destruct fuel as [|f]; [cbn [length] in Hf; lia|]); rewrite eat_ws_S;
    destruct (peek_pr r Hok) as (r1 & Ep & Hv1 & Hok1 & Hp1 & _); rewrite Ep, Hv; rewrite Hv in Hv1.
  - cbn [app] in *. destruct tl as [|c tl]; cbn [hd_error]; [auto|].
    cbn [nws] in Htl. rewrite Htl. auto.
  - inversion Hws as [|? ? Hb Hw']; subst. cbn [app hd_error] in *. rewrite Hb.
    destruct (next_pr r1 Hok1 Hp1) as (r2 & En & Hv2 & Hok2 & Hp2 & _). rewrite En. cbn [snd].
    apply IH; auto.
    + rewrite Hv2, Hv1. reflexivity.
    + cbn [length] in Hf. lia.
Qed.

(* eat_whitespace's own fuel is always enough: it stops on the first non-whitespace byte *)
Lemma eat_whitespace_any r : ok r ->
  exists w tl, view r = w ++ tl /\ ws_ok w /\ nws tl /\
               view (eat_whitespace r) = tl /\ ok (eat_whitespace r) /\
               (vl (eat_whitespace r) <= vl r)%nat.
Proof.
  intros Hok. destruct (ws_split (view r)) as (w & tl & E & Hw & Htl).
  destruct (eat_ws_gen w (S (S (length (rest r)))) r tl Hok Hw Htl E) as (Hv & Hok').
  { pose proof (inv_len r Hok) as H. unfold vl in H. rewrite E, app_length in H. lia. }
  exists w, tl. unfold eat_whitespace. splits; auto. unfold vl. rewrite Hv, E, app_length. lia.
Qed.

(* ================= digits ================= *)
Lemma read_digits_f_le : forall fuel acc r, ok r ->
  ok (snd (read_digits_f fuel acc r)) /\ (vl (snd (read_digits_f fuel acc r)) <= vl r)%nat.
Proof.
  induction fuel as [|f IH]; intros acc r Hok.
  - cbn [read_digits_f snd]. split; [assumption|lia].
  - rewrite read_digits_f_S.
    destruct (peek_pr r Hok) as (r1 & Ep & Hv1 & Hok1 & Hp1 & Hl1). rewrite Ep.
    destruct (hd_error (view r)) as [b|]; [|cbn [snd]; split; [assumption|lia]].
    destruct (is_digit b); [|cbn [snd]; split; [assumption|lia]].
    destruct (next_pr r1 Hok1 Hp1) as (r2 & En & Hv2 & Hok2 & Hp2 & Hl2). rewrite En. cbn [snd].
    destruct (IH (acc ++ [b]) r2 Hok2) as [H1 H2]. split; [assumption|lia].
Qed.

Lemma read_digits_le acc r : ok r ->
  ok (snd (read_digits acc r)) /\ (vl (snd (read_digits acc r)) <= vl r)%nat.
Proof. intros Hok. unfold read_digits. apply read_digits_f_le. assumption. Qed.

(* a leading digit is consumed *)
Lemma read_digits_strict acc r d l : ok r -> view r = d :: l -> is_digit d = true ->
  ok (snd (read_digits acc r)) /\ (vl (snd (read_digits acc r)) + 1 <= vl r)%nat.
Proof.
  intros Hok Hv Hd. unfold read_digits. rewrite read_digits_f_S.
  destruct (peek_pr r Hok) as (r1 & Ep & Hv1 & Hok1 & Hp1 & Hl1). rewrite Ep, Hv. cbn [hd_error].
  rewrite Hd.
  destruct (next_pr r1 Hok1 Hp1) as (r2 & En & Hv2 & Hok2 & Hp2 & Hl2). rewrite En. cbn [snd].
  destruct (read_digits_f_le (S (length (rest r))) (acc ++ [d]) r2 Hok2) as [H1 H2].
  split; [assumption|]. assert (1 <= vl r)%nat by (unfold vl; rewrite Hv; cbn [length]; lia). lia.
Qed.

(* ================= outcome predicates ================= *)
(* an outcome that is neither "out of fuel" nor "end of input", with at most n unread bytes left *)
Definition good (n : nat) (p : pres * reader) : Prop :=
  fst p <> PFuel /\ fst p <> PEof /\ ok (snd p) /\ (vl (snd p) <= n)%nat.

(* the outcome of parse_value started on r: never out of fuel; end of input only on all-whitespace
   input, leaving nothing; every other outcome (value or recoverable error) consumed a byte *)
Definition good_v (r : reader) (p : pres * reader) : Prop :=
  fst p <> PFuel /\ ok (snd p) /\
  match fst p with
  | PEof => ws_ok (view r) /\ view (snd p) = []
  | _ => (vl (snd p) < vl r)%nat
  end.

Lemma good_mono n m p : good n p -> (n <= m)%nat -> good m p.
Proof. intros (H1 & H2 & H3 & H4) Hn. unfold good. splits; auto. lia. Qed.

Lemma good_v_of_good r n p : good n p -> (n < vl r)%nat -> good_v r p.
Proof.
  destruct p as [res r']. unfold good, good_v. cbn [fst snd]. intros (H1 & H2 & H3 & H4) Hn.
  splits; auto. destruct res; try lia. congruence.
Qed.

Lemma good_err n r : ok r -> (vl r <= n)%nat -> good n (PErr, r).
Proof. intros. unfold good. cbn [fst snd]. splits; auto; discriminate. Qed.
Lemma good_ok n v r : ok r -> (vl r <= n)%nat -> good n (POk v, r).
Proof. intros. unfold good. cbn [fst snd]. splits; auto; discriminate. Qed.

(* ================= reserved words ================= *)
Lemma read_word_le (w : list byte) : forall r, ok r -> pr r ->
  ok (snd (read_word w r)) /\ (vl (snd (read_word w r)) <= vl r - 1)%nat.
Proof.
  induction w as [|e w IH]; intros r Hok Hp; cbn [read_word];
    destruct (next_pr r Hok Hp) as (r1 & En & Hv1 & Hok1 & Hp1 & Hl1); rewrite En.
  - cbn [snd]. split; [assumption|lia].
  - destruct (hd_error (tl (view r))) as [c|]; [|cbn [snd]; split; [assumption|lia]].
    destruct (c =? e); [|cbn [snd]; split; [assumption|lia]].
    destruct (IH r1 Hok1 Hp1) as [H1 H2]. split; [assumption|lia].
Qed.

Lemma word_good r (w : list byte) (v : json) : ok r -> pr r ->
  good (vl r - 1) (let '(b, r') := read_word w r in ((if b then POk v else PErr), r')).
Proof.
  intros Hok Hp. destruct (read_word_le w r Hok Hp) as [H1 H2].
  destruct (read_word w r) as [b r']. cbn [snd] in H1, H2.
  destruct b; [apply good_ok|apply good_err]; assumption.
Qed.

(* ================= strings ================= *)
Lemma read_hex4_le : forall n acc r, ok r -> pr r ->
  ok (snd (read_hex4 n acc r)) /\ pr (snd (read_hex4 n acc r)) /\
  (vl (snd (read_hex4 n acc r)) <= vl r)%nat.
Proof.
  induction n as [|n IH]; intros acc r Hok Hp; cbn [read_hex4].
  - cbn [snd]. splits; auto.
  - destruct (next_pr r Hok Hp) as (r1 & En & Hv1 & Hok1 & Hp1 & Hl1). rewrite En.
    destruct (hd_error (tl (view r))) as [c|]; [|cbn [snd]; splits; auto; lia].
    destruct (hex_val c) as [d|]; [|cbn [snd]; splits; auto; lia].
    destruct (IH (acc * 16 + d) r1 Hok1 Hp1) as (H1 & H2 & H3). splits; auto. lia.
Qed.

(* the string loop never runs out of fuel when given one unit per unread byte: every iteration
   consumes at least one byte, whatever the bytes are (bad escapes, bad UTF-8, missing quote) *)
Lemma read_string_f_good : forall fuel acc r, ok r -> pr r ->
  (vl r <= fuel)%nat -> (0 < fuel)%nat -> good (vl r - 1) (read_string_f fuel acc r).
Proof.
  induction fuel as [|f IH]; intros acc r Hok Hp Hf Hf0; [lia|].
  rewrite read_string_f_S.
  destruct (next_pr r Hok Hp) as (r1 & En & Hv1 & Hok1 & Hp1 & Hl1). rewrite En.
  destruct (hd_error (tl (view r))) as [c|] eqn:Ec; [|apply good_err; [assumption|lia]].
  rewrite <- Hv1 in Ec. apply hd_some_len in Ec. fold (vl r1) in Ec.
  destruct (c =? 34).
  { cbv zeta. destruct (next_pr r1 Hok1 Hp1) as (r2 & En2 & Hv2 & Hok2 & Hp2 & Hl2).
    rewrite En2. cbn [snd]. destruct (utf8_decode acc); [apply good_ok|apply good_err]; auto; lia. }
  destruct (c =? 92).
  { destruct (next_pr r1 Hok1 Hp1) as (r2 & En2 & Hv2 & Hok2 & Hp2 & Hl2). rewrite En2.
    destruct (hd_error (tl (view r1))) as [e|]; [|apply good_err; [assumption|lia]].
    destruct (e =? 117).
    - destruct (read_hex4_le 4 0 r2 Hok2 Hp2) as (H1 & H2 & H3).
      destruct (read_hex4 4 0 r2) as [[u|] r3]; cbn [snd] in H1, H2, H3;
        [|apply good_err; [assumption|lia]].
      destruct (is_scalar u); [|apply good_err; [assumption|lia]].
      apply (good_mono (vl r3 - 1)); [|lia]. apply IH; auto; lia.
    - destruct (assoc_N e escape_table) as [b|]; [|apply good_err; [assumption|lia]].
      apply (good_mono (vl r2 - 1)); [|lia]. apply IH; auto; lia. }
  apply (good_mono (vl r1 - 1)); [|lia]. apply IH; auto; lia.
Qed.

Lemma read_string_good r : ok r -> pr r -> good (vl r - 1) (read_string r).
Proof.
  intros Hok Hp. unfold read_string. apply read_string_f_good; auto; [|lia].
  exact (inv_len r Hok).
Qed.

(* ================= numbers ================= *)
Lemma good_classify n neg dbl txt r : ok r -> (vl r <= n)%nat ->
  good n (classify_number neg dbl txt, r).
Proof.
  intros Hok Hl. destruct (classify_nf neg dbl txt) as [H1 H2]. unfold good. cbn [fst snd]. auto.
Qed.

Lemma rn_exp_good neg dbl1 chars r : ok r -> good (vl r) (rn_exp neg dbl1 chars r).
Proof.
  intros Hok. unfold rn_exp.
  destruct (peek_pr r Hok) as (r1 & Ep & Hv1 & Hok1 & Hp1 & Hl1). rewrite Ep.
  destruct (hd_error (view r)) as [b|]; cbv beta iota zeta; [|apply good_classify; auto; lia].
  destruct (is_exp_marker b); [|apply good_classify; auto; lia].
  destruct (next_pr r1 Hok1 Hp1) as (r2 & En & Hv2 & Hok2 & Hp2 & Hl2). rewrite En. cbn [snd].
  destruct (peek_pr r2 Hok2) as (r3 & Ep3 & Hv3 & Hok3 & Hp3 & Hl3). rewrite Ep3.
  destruct (next_pr r3 Hok3 Hp3) as (r4 & En4 & Hv4 & Hok4 & Hp4 & Hl4).
  destruct (is_b (hd_error (view r2)) 45).
  - rewrite En4. cbn [snd].
    destruct (read_digits_le ((chars ++ [69]) ++ [45]) r4 Hok4) as [H1 H2].
    destruct (read_digits ((chars ++ [69]) ++ [45]) r4) as [ch r5]. cbn [snd] in H1, H2.
    apply good_classify; auto; lia.
  - destruct (is_b (hd_error (view r2)) 43).
    + rewrite En4. cbn [snd].
      destruct (read_digits_le (chars ++ [69]) r4 Hok4) as [H1 H2].
      destruct (read_digits (chars ++ [69]) r4) as [ch r5]. cbn [snd] in H1, H2.
      apply good_classify; auto; lia.
    + destruct (read_digits_le (chars ++ [69]) r3 Hok3) as [H1 H2].
      destruct (read_digits (chars ++ [69]) r3) as [ch r5]. cbn [snd] in H1, H2.
      apply good_classify; auto; lia.
Qed.

Lemma rn_frac_good neg chars r : ok r -> good (vl r) (rn_frac neg chars r).
Proof.
  intros Hok. unfold rn_frac.
  destruct (peek_pr r Hok) as (r1 & Ep & Hv1 & Hok1 & Hp1 & Hl1). rewrite Ep.
  destruct (is_b (hd_error (view r)) 46).
  - destruct (next_pr r1 Hok1 Hp1) as (r2 & En & Hv2 & Hok2 & Hp2 & Hl2). rewrite En. cbn [snd].
    destruct (read_digits_le (chars ++ [46]) r2 Hok2) as [H1 H2].
    destruct (read_digits (chars ++ [46]) r2) as [ch r3]. cbn [snd] in H1, H2.
    apply (good_mono (vl r3)); [|lia]. apply rn_exp_good. assumption.
  - apply (good_mono (vl r1)); [|lia]. apply rn_exp_good. assumption.
Qed.

Lemma rn_tail_good neg chars r : ok r -> good (vl r) (rn_tail neg chars r).
Proof.
  intros Hok. unfold rn_tail. destruct (read_digits_le chars r Hok) as [H1 H2].
  destruct (read_digits chars r) as [ch r1]. cbn [snd] in H1, H2.
  apply (good_mono (vl r1)); [|lia]. apply rn_frac_good. assumption.
Qed.

(* a number token (first byte '-' or a digit) always consumes its first byte *)
Lemma read_number_good r b l : ok r -> view r = b :: l -> ((b =? 45) || is_digit b) = true ->
  good (vl r - 1) (read_number r).
Proof.
  intros Hok Hv Hb. rewrite read_number_unf.
  destruct (peek_pr r Hok) as (r1 & Ep & Hv1 & Hok1 & Hp1 & Hl1). rewrite Ep, Hv. cbn [hd_error is_b].
  assert (L : vl r = S (length l)) by (unfold vl; rewrite Hv; reflexivity).
  destruct (b =? 45) eqn:E45; cbv beta iota zeta.
  - destruct (next_pr r1 Hok1 Hp1) as (r2 & En & Hv2 & Hok2 & Hp2 & Hl2). rewrite En.
    destruct (hd_error (tl (view r1))); [|apply good_err; [assumption|lia]].
    apply (good_mono (vl r2)); [|lia]. apply rn_tail_good. assumption.
  - cbn [orb] in Hb. unfold rn_tail. rewrite Hv in Hv1.
    destruct (read_digits_strict [] r1 b l Hok1 Hv1 Hb) as [H1 H2].
    destruct (read_digits [] r1) as [ch r2]. cbn [snd] in H1, H2.
    apply (good_mono (vl r2)); [|lia]. apply rn_frac_good. assumption.
Qed.

(* ================= values: the three mutual functions, by induction on fuel ================= *)
Definition PT_value (fuel : nat) : Prop :=
  forall r, ok r -> (2 * vl r < fuel)%nat -> good_v r (parse_value fuel r).
Definition PT_items (fuel : nat) : Prop :=
  forall acc r, ok r -> (2 * vl r + 1 < fuel)%nat -> good (vl r) (parse_items fuel acc r).
Definition PT_members (fuel : nat) : Prop :=
  forall acc r, ok r -> (2 * vl r + 1 < fuel)%nat -> good (vl r) (parse_members fuel acc r).

Lemma valueT_step f : PT_items f -> PT_members f -> PT_value (S f).
Proof.
  intros IHi IHm r Hok Hlen. rewrite parse_value_S. cbv zeta.
  destruct (eat_whitespace_any r Hok) as (w & tl & Ev & Hw & Htl & Hv1 & Hok1 & Hl1).
  set (r1 := eat_whitespace r) in *. clearbody r1.
  destruct (peek_pr r1 Hok1) as (r2 & Ep & Hv2 & Hok2 & Hp2 & Hl2). rewrite Ep, Hv1.
  rewrite Hv1 in Hv2.
  destruct tl as [|b tl']; cbn [hd_error].
  - (* end of input *)
    unfold good_v. cbn [fst snd]. split; [discriminate|]. split; [assumption|]. split.
    + rewrite Ev, app_nil_r. exact Hw.
    + exact Hv2.
  - assert (L2 : vl r2 = S (length tl')) by (unfold vl; rewrite Hv2; reflexivity).
    destruct (b =? 116).
    { apply (good_v_of_good r (vl r2 - 1)); [|lia]. apply word_good; assumption. }
    destruct (b =? 102).
    { apply (good_v_of_good r (vl r2 - 1)); [|lia]. apply word_good; assumption. }
    destruct (b =? 110).
    { apply (good_v_of_good r (vl r2 - 1)); [|lia]. apply word_good; assumption. }
    destruct (b =? 34).
    { apply (good_v_of_good r (vl r2 - 1)); [|lia]. apply read_string_good; assumption. }
    destruct ((b =? 45) || is_digit b) eqn:Enum.
    { apply (good_v_of_good r (vl r2 - 1)); [|lia]. apply (read_number_good r2 b tl'); assumption. }
    destruct (b =? 91).
    { destruct (next_pr r2 Hok2 Hp2) as (r3 & En & Hv3 & Hok3 & Hp3 & Hl3). rewrite En. cbn [snd].
      destruct (eat_whitespace_any r3 Hok3) as (w4 & tl4 & _ & _ & _ & _ & Hok4 & Hl4).
      set (r4 := eat_whitespace r3) in *. clearbody r4.
      destruct (peek_pr r4 Hok4) as (r5 & Ep5 & Hv5 & Hok5 & Hp5 & Hl5). rewrite Ep5.
      apply (good_v_of_good r (vl r2 - 1)); [|lia].
      destruct (is_b (hd_error (view r4)) 93).
      - destruct (next_pr r5 Hok5 Hp5) as (r6 & En6 & Hv6 & Hok6 & Hp6 & Hl6). rewrite En6. cbn [snd].
        apply good_ok; [assumption|lia].
      - apply (good_mono (vl r5)); [|lia]. apply IHi; [assumption|lia]. }
    destruct (b =? 123).
    { destruct (next_pr r2 Hok2 Hp2) as (r3 & En & Hv3 & Hok3 & Hp3 & Hl3). rewrite En. cbn [snd].
      destruct (eat_whitespace_any r3 Hok3) as (w4 & tl4 & _ & _ & _ & _ & Hok4 & Hl4).
      set (r4 := eat_whitespace r3) in *. clearbody r4.
      destruct (peek_pr r4 Hok4) as (r5 & Ep5 & Hv5 & Hok5 & Hp5 & Hl5). rewrite Ep5.
      apply (good_v_of_good r (vl r2 - 1)); [|lia].
      destruct (is_b (hd_error (view r4)) 125).
      - destruct (next_pr r5 Hok5 Hp5) as (r6 & En6 & Hv6 & Hok6 & Hp6 & Hl6). rewrite En6. cbn [snd].
        apply good_ok; [assumption|lia].
      - apply (good_mono (vl r5)); [|lia]. apply IHm; [assumption|lia]. }
    (* any other byte: the catch-all arm consumes it *)
    destruct (next_pr r2 Hok2 Hp2) as (r3 & En & Hv3 & Hok3 & Hp3 & Hl3). rewrite En. cbn [snd].
    apply (good_v_of_good r (vl r2 - 1)); [|lia]. apply good_err; [assumption|lia].
Qed.

(* after a value inside a container: skip whitespace, look at the delimiter *)
Lemma itemsT_step f : PT_value f -> PT_items f -> PT_items (S f).
Proof.
  intros IHp IHi acc r Hok Hlen. rewrite parse_items_S.
  assert (Hp : good_v r (parse_value f r)) by (apply IHp; [assumption|lia]).
  destruct (parse_value f r) as [res r1]. destruct Hp as (Hnf & Hok1 & Hm). cbn [fst snd] in *.
  destruct res as [v| | |]; cbv beta iota zeta.
  - destruct (eat_whitespace_any r1 Hok1) as (w2 & tl2 & _ & _ & _ & _ & Hok2 & Hl2).
    set (r2 := eat_whitespace r1) in *. clearbody r2.
    destruct (peek_pr r2 Hok2) as (r3 & Ep & Hv3 & Hok3 & Hp3 & Hl3). rewrite Ep.
    destruct (hd_error (view r2)) as [c|]; [|apply good_err; [assumption|lia]].
    destruct (next_pr r3 Hok3 Hp3) as (r4 & En & Hv4 & Hok4 & Hp4 & Hl4).
    destruct (c =? 93).
    { rewrite En. cbn [snd]. apply good_ok; [assumption|lia]. }
    destruct (c =? 44).
    { rewrite En. cbn [snd]. apply (good_mono (vl r4)); [|lia]. apply IHi; [assumption|lia]. }
    apply good_err; [assumption|lia].
  - destruct Hm as [_ Hm]. apply good_err; [assumption|]. unfold vl. rewrite Hm. cbn [length]. lia.
  - apply good_err; [assumption|lia].
  - congruence.
Qed.

Lemma membersT_step f : PT_value f -> PT_members f -> PT_members (S f).
Proof.
  intros IHp IHm acc r Hok Hlen. rewrite parse_members_S.
  assert (Hp : good_v r (parse_value f r)) by (apply IHp; [assumption|lia]).
  destruct (parse_value f r) as [res r1]. destruct Hp as (Hnf & Hok1 & Hm). cbn [fst snd] in *.
  destruct res as [v| | |]; cbv beta iota zeta.
  - destruct v as [| | |k| |]; try (apply good_err; [assumption|lia]).
    destruct (eat_whitespace_any r1 Hok1) as (w2 & tl2 & _ & _ & _ & _ & Hok2 & Hl2).
    set (r2 := eat_whitespace r1) in *. clearbody r2.
    destruct (peek_pr r2 Hok2) as (r3 & Ep & Hv3 & Hok3 & Hp3 & Hl3). rewrite Ep.
    destruct (negb (is_b (hd_error (view r2)) 58)); [apply good_err; [assumption|lia]|].
    destruct (next_pr r3 Hok3 Hp3) as (r4 & En & Hv4 & Hok4 & Hp4 & Hl4). rewrite En. cbn [snd].
    assert (Hp5 : good_v r4 (parse_value f r4)) by (apply IHp; [assumption|lia]).
    destruct (parse_value f r4) as [res5 r5]. destruct Hp5 as (Hnf5 & Hok5 & Hm5). cbn [fst snd] in *.
    destruct res5 as [v5| | |]; cbv beta iota zeta.
    + destruct (eat_whitespace_any r5 Hok5) as (w6 & tl6 & _ & _ & _ & _ & Hok6 & Hl6).
      set (r6 := eat_whitespace r5) in *. clearbody r6.
      destruct (peek_pr r6 Hok6) as (r7 & Ep7 & Hv7 & Hok7 & Hp7 & Hl7). rewrite Ep7.
      destruct (hd_error (view r6)) as [c|]; [|apply good_err; [assumption|lia]].
      destruct (next_pr r7 Hok7 Hp7) as (r8 & En8 & Hv8 & Hok8 & Hp8 & Hl8).
      destruct (c =? 125).
      { rewrite En8. cbn [snd]. apply good_ok; [assumption|lia]. }
      destruct (c =? 44).
      { rewrite En8. cbn [snd]. apply (good_mono (vl r8)); [|lia]. apply IHm; [assumption|lia]. }
      apply good_err; [assumption|lia].
    + destruct Hm5 as [_ Hm5]. apply good_err; [assumption|]. unfold vl. rewrite Hm5. cbn [length]. lia.
    + apply good_err; [assumption|lia].
    + congruence.
  - destruct Hm as [_ Hm]. apply good_err; [assumption|]. unfold vl. rewrite Hm. cbn [length]. lia.
  - apply good_err; [assumption|lia].
  - congruence.
Qed.

Lemma parse_total_fuel : forall fuel, PT_value fuel /\ PT_items fuel /\ PT_members fuel.
Proof.
  induction fuel as [|f (IHp & IHi & IHm)].
  - unfold PT_value, PT_items, PT_members. split; [|split]; intros; lia.
  - split; [|split].
    + apply valueT_step; assumption.
    + apply itemsT_step; assumption.
    + apply membersT_step; assumption.
Qed.

(* the general statement: with fuel above twice the number of unread bytes, parse_value on ARBITRARY
   input never runs out of fuel, keeps the reader invariant, reports end of input exactly on
   all-whitespace input and otherwise consumes at least one byte *)
Theorem parse_value_total_gen : forall fuel r, ok r -> (2 * length (view r) < fuel)%nat ->
  good_v r (parse_value fuel r).
Proof. intros fuel r Hok Hlen. exact (proj1 (parse_total_fuel fuel) r Hok Hlen). Qed.

Lemma parse_fuel_enough_gen r : ok r -> (2 * length (view r) < parse_fuel r)%nat.
Proof. intros Hok. pose proof (inv_len r Hok) as H. unfold vl in H. unfold parse_fuel. lia. Qed.

Theorem next_json_value_total_gen : forall r, ok r -> good_v r (next_json_value r).
Proof.
  intros r Hok. unfold next_json_value. apply parse_value_total_gen; [assumption|].
  apply parse_fuel_enough_gen. assumption.
Qed.

Theorem parse_progress_gen : forall r res r', ok r -> next_json_value r = (res, r') -> res <> PEof ->
  (length (view r') < length (view r))%nat /\ ok r'.
Proof.
  intros r res r' Hok E Hne. pose proof (next_json_value_total_gen r Hok) as (H1 & H2 & H3).
  rewrite E in *. cbn [fst snd] in *. split; [|assumption].
  destruct res; try exact H3. congruence.
Qed.

Theorem parse_eof_gen : forall r r', ok r -> next_json_value r = (PEof, r') ->
  view r' = [] /\ ws_ok (view r) /\ ok r'.
Proof.
  intros r r' Hok E. pose proof (next_json_value_total_gen r Hok) as (H1 & H2 & H3).
  rewrite E in *. cbn [fst snd] in *. tauto.
Qed.

Lemma parse_value_eof_gen fuel r : ok r -> ws_ok (view r) -> (0 < fuel)%nat ->
  exists r', parse_value fuel r = (PEof, r').
Proof.
  intros Hok Hw Hf. destruct fuel as [|f]; [lia|]. rewrite parse_value_S. cbv zeta.
  destruct (eat_whitespace_any r Hok) as (w & tl & Ev & Hw' & Htl & Hv1 & Hok1 & _).
  destruct (peek_pr _ Hok1) as (r2 & Ep & _). rewrite Ep, Hv1.
  destruct tl as [|b tl]; [cbn [hd_error]; eauto|]. exfalso.
  rewrite Ev in Hw. apply Forall_app in Hw. destruct Hw as [_ Hw]. inversion Hw; subst.
  cbn [nws] in Htl. congruence.
Qed.

Theorem parse_eof_conv_gen : forall r, ok r -> ws_ok (view r) ->
  exists r', next_json_value r = (PEof, r') /\ view r' = [] /\ ok r'.
Proof.
  intros r Hok Hw. destruct (parse_value_eof_gen (parse_fuel r) r Hok Hw) as (r' & E).
  { unfold parse_fuel. lia. }
  exists r'. split; [exact E|]. destruct (parse_eof_gen r r' Hok E) as (H1 & _ & H2). auto.
Qed.

(* one unit of fuel per unread byte plus one: more fuel changes nothing *)
Theorem read_all_fuel_indep_gen : forall f1 f2 r, ok r ->
  (length (view r) < f1)%nat -> (length (view r) < f2)%nat -> read_all f1 r = read_all f2 r.
Proof.
  induction f1 as [|f1 IH]; intros f2 r Hok H1 H2; [lia|]. destruct f2 as [|f2]; [lia|].
  rewrite !read_all_S. pose proof (next_json_value_total_gen r Hok) as (Hnf & Hok' & Hm).
  destruct (next_json_value r) as [res r']. cbn [fst snd] in *.
  destruct res as [v| | |]; try reflexivity; unfold vl in Hm;
    rewrite (IH f2 r' Hok') by lia; reflexivity.
Qed.

(* the loop handles at most one value or error per input byte *)
Theorem read_all_count_gen : forall fuel r, ok r ->
  (length (fst (read_all fuel r)) + N.to_nat (snd (read_all fuel r)) <= length (view r))%nat.
Proof.
  induction fuel as [|f IH]; intros r Hok; [cbn; lia|].
  rewrite read_all_S. pose proof (next_json_value_total_gen r Hok) as (Hnf & Hok' & Hm).
  destruct (next_json_value r) as [res r']. cbn [fst snd] in *. unfold vl in Hm.
  destruct res as [v| | |]; try (cbn; lia); specialize (IH r' Hok');
    destruct (read_all f r') as [vs e]; cbn [fst snd length] in *; lia.
Qed.

End Total.

(* =====================================================================================
   byte-only input (the invariant of ReaderLemmas / ParserProofs)
   ===================================================================================== *)
(* the outcome of parse_value started on r: never out of fuel; the invariant is kept; end of input
   only on all-whitespace input, leaving nothing; every other outcome consumed a byte *)
Theorem parse_value_total : forall fuel r, rd_ok r -> (2 * length (view r) < fuel)%nat ->
  fst (parse_value fuel r) <> PFuel /\ rd_ok (snd (parse_value fuel r)) /\
  match fst (parse_value fuel r) with
  | PEof => ws_ok (view r) /\ view (snd (parse_value fuel r)) = []
  | _ => (length (view (snd (parse_value fuel r))) < length (view r))%nat
  end.
Proof. exact (parse_value_total_gen rd_ok rd_ok_reader_inv). Qed.

(* ----- T1: the parser's fuel constant is always enough ----- *)
Theorem parse_no_fuel : forall r, rd_ok r -> fst (next_json_value r) <> PFuel.
Proof. intros r Hok. exact (proj1 (next_json_value_total_gen rd_ok rd_ok_reader_inv r Hok)). Qed.

Theorem parse_rd_ok : forall r, rd_ok r -> rd_ok (snd (next_json_value r)).
Proof. intros r Hok. exact (proj1 (proj2 (next_json_value_total_gen rd_ok rd_ok_reader_inv r Hok))). Qed.

(* ----- T2: every value and every recoverable error consumes at least one byte ----- *)
Theorem parse_progress : forall r res r', rd_ok r -> next_json_value r = (res, r') -> res <> PEof ->
  (length (view r') < length (view r))%nat /\ rd_ok r'.
Proof. exact (parse_progress_gen rd_ok rd_ok_reader_inv). Qed.

(* ----- T3: end of input ----- *)
Theorem parse_eof : forall r r', rd_ok r -> next_json_value r = (PEof, r') ->
  view r' = [] /\ ws_ok (view r) /\ rd_ok r'.
Proof. exact (parse_eof_gen rd_ok rd_ok_reader_inv). Qed.

Theorem parse_eof_conv : forall r, rd_ok r -> ws_ok (view r) ->
  exists r', next_json_value r = (PEof, r') /\ view r' = [] /\ rd_ok r'.
Proof. exact (parse_eof_conv_gen rd_ok rd_ok_reader_inv). Qed.

Corollary parse_eof_iff : forall r, rd_ok r ->
  (fst (next_json_value r) = PEof <-> ws_ok (view r)).
Proof.
  intros r Hok. split.
  - intros E. destruct (next_json_value r) as [res r'] eqn:En. cbn [fst] in E. subst res.
    apply (parse_eof r r' Hok En).
  - intros Hw. destruct (parse_eof_conv r Hok Hw) as (r' & -> & _). reflexivity.
Qed.

(* ----- T4: the read loop ----- *)
Theorem read_all_fuel_indep : forall f1 f2 r, rd_ok r ->
  (length (view r) < f1)%nat -> (length (view r) < f2)%nat -> read_all f1 r = read_all f2 r.
Proof. exact (read_all_fuel_indep_gen rd_ok rd_ok_reader_inv). Qed.

Theorem read_all_fuel : forall bs fuel, (length bs + 3 <= fuel)%nat ->
  read_all fuel (reader_of_bytes bs) = values_of_bytes bs.
Proof.
  intros bs fuel Hf. unfold values_of_bytes.
  apply read_all_fuel_indep; [apply rd_ok_of_bytes| |]; rewrite view_of_bytes; lia.
Qed.

Theorem read_all_count : forall fuel r, rd_ok r ->
  (length (fst (read_all fuel r)) + N.to_nat (snd (read_all fuel r)) <= length (view r))%nat.
Proof. exact (read_all_count_gen rd_ok rd_ok_reader_inv). Qed.

Corollary values_of_bytes_count : forall bs,
  (length (fst (values_of_bytes bs)) + N.to_nat (snd (values_of_bytes bs)) <= length bs)%nat.
Proof.
  intros bs. unfold values_of_bytes.
  pose proof (read_all_count (length bs + 3) (reader_of_bytes bs) (rd_ok_of_bytes bs)) as H.
  rewrite view_of_bytes in H. exact H.
Qed.

(* =====================================================================================
   T5: input with read errors (every reader reachable from `mk_reader evs`)
   ===================================================================================== *)
Theorem parse_no_fuel_ev : forall r, rd_inv r -> fst (next_json_value r) <> PFuel.
Proof. intros r Hok. exact (proj1 (next_json_value_total_gen rd_inv rd_inv_reader_inv r Hok)). Qed.

Theorem parse_progress_ev : forall r res r', rd_inv r -> next_json_value r = (res, r') -> res <> PEof ->
  (length (view r') < length (view r))%nat /\ rd_inv r'.
Proof. exact (parse_progress_gen rd_inv rd_inv_reader_inv). Qed.

Theorem parse_rd_inv : forall r, rd_inv r -> rd_inv (snd (next_json_value r)).
Proof. intros r Hok. exact (proj1 (proj2 (next_json_value_total_gen rd_inv rd_inv_reader_inv r Hok))). Qed.

(* the string loop's own fuel, `S (length (rest r))`, is enough as well (called with the opening
   quote as current byte) *)
Theorem read_string_no_fuel : forall r b, rd_inv r -> cur r = Some b -> fst (read_string r) <> PFuel.
Proof.
  intros r b Hok Hc.
  assert (Hp : pr r) by (unfold pr, view; rewrite Hc; reflexivity).
  exact (proj1 (read_string_good rd_inv rd_inv_reader_inv r Hok Hp)).
Qed.

(* here the view is the bytes before the first read error: a read error ends the input *)
Theorem parse_eof_ev : forall r r', rd_inv r -> next_json_value r = (PEof, r') ->
  view r' = [] /\ ws_ok (view r) /\ rd_inv r'.
Proof. exact (parse_eof_gen rd_inv rd_inv_reader_inv). Qed.

Theorem parse_eof_conv_ev : forall r, rd_inv r -> ws_ok (view r) ->
  exists r', next_json_value r = (PEof, r') /\ view r' = [] /\ rd_inv r'.
Proof. exact (parse_eof_conv_gen rd_inv rd_inv_reader_inv). Qed.

Theorem read_all_fuel_indep_ev : forall f1 f2 r, rd_inv r ->
  (length (view r) < f1)%nat -> (length (view r) < f2)%nat -> read_all f1 r = read_all f2 r.
Proof. exact (read_all_fuel_indep_gen rd_inv rd_inv_reader_inv). Qed.

(* the fuel constant of Go.input_fuel *)
Theorem read_all_fuel_ev : forall evs fuel, (length evs + 3 <= fuel)%nat ->
  read_all fuel (mk_reader evs) = read_all (length evs + 3) (mk_reader evs).
Proof.
  intros evs fuel Hf. pose proof (ev_bytes_len evs) as L.
  apply read_all_fuel_indep_ev; [apply rd_inv_mk| |]; rewrite view_mk; lia.
Qed.

Print Assumptions parse_value_total.
Print Assumptions parse_no_fuel.
Print Assumptions parse_progress.
Print Assumptions parse_eof_iff.
Print Assumptions read_all_fuel.
Print Assumptions values_of_bytes_count.
Print Assumptions parse_no_fuel_ev.
Print Assumptions parse_progress_ev.
Print Assumptions read_all_fuel_ev.
Print Assumptions read_string_no_fuel.
